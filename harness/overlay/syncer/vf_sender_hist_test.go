//go:build verif

package syncer

// C07, ALL writers of the resume position (lean/GunYu/Model/PositionWriters.lean,
// Props/C07Writers.lean `all_writers_forward`): the REAL sequence a source history goes
// through -- ResetStartPoint, SetRunId (UpdateCheckpoint), setCheckpoint at the end of a
// snapshot, lives of sendAof that die after any number of requests, a fail-over relabel
// (complete or cut by a crash at any request), a FULLRESYNC reset (complete or cut) -- is run
// on the target double; after EVERY step the real StartPoint is compared with the position
// the Lean model reads (driver op `hist`), and independent monitors judge the sequence of
// positions: never lower except across a sanctioned reset (which leaves the position or none,
// never a stale lower record), always -1, the snapshot offset or a command boundary of the
// stream, never unusable.

import (
	"context"
	"fmt"
	"os"
	"sort"
	"strconv"
	"strings"
	"testing"

	"github.com/mgtv-tech/redis-GunYu/config"
	"github.com/mgtv-tech/redis-GunYu/pkg/vfdoubles"
	"github.com/mgtv-tech/redis-GunYu/pkg/vfutil"
)

type vfHist struct {
	t     *testing.T
	s     *vfutil.Session
	r     *vfutil.Rand
	c     *vfSCase // configuration and stream (rid = label the position is stored under)
	tag   int
	tg    *vfdoubles.Target
	label string // run id the output is configured with (where SetRunId left it)
	prev  string // the source's previous id (ids[1])
	steps []string
	impl  []string
	kinds []string
	pos   []int64
	dbs   []int
	rids  []string
	// what a position may be
	allowed map[int64]bool
	seedOp  string
	hseed   uint64
	// incarnations of the target double (every cut replays the log into a new one)
	inc, incStart int
	// the forced shape "cut relabel -> advancing life -> reset cut between the two labels"
	forced    bool
	lifeShare int // forced: per cent of the life's requests that are executed (0 = random)
	cutAtHset bool // forced: the next cut operation stops right after its first HSET
	cutAtDel  bool // forced: the next cut operation stops right after one of its HDELs
}

func (h *vfHist) out(label string) *RedisOutput {
	cc := *h.c
	cc.rid = label
	return vfNewOutput(&cc, h.tg)
}

func (h *vfHist) ids() []string {
	if h.prev == "" || h.prev == h.label {
		return []string{h.label}
	}
	return []string{h.label, h.prev}
}

// read = the real StartPoint of a fresh output, recorded as the position after a step.
func (h *vfHist) read(kind, step string) (StartPoint, bool) {
	ro := h.out(h.label)
	sp, err := ro.StartPoint(context.Background(), h.ids())
	h.tg.CloseAll()
	if err != nil {
		h.s.Violate("C07:writers-read-failed", fmt.Sprintf("StartPoint failed after step %q: %v", step, err), h.replay(nil))
		return sp, false
	}
	dbs := "-"
	if sp.RunId != "?" && sp.Offset >= 0 {
		dbs = strconv.Itoa(sp.DbId)
	}
	i := len(h.steps)
	h.steps = append(h.steps, step)
	h.kinds = append(h.kinds, kind)
	h.pos = append(h.pos, sp.Offset)
	h.dbs = append(h.dbs, sp.DbId)
	h.rids = append(h.rids, sp.RunId)
	h.impl = append(h.impl, fmt.Sprintf("#%d pos i=%d off=%d dbs=%s", h.tag, i, sp.Offset, dbs))
	return sp, true
}

func (h *vfHist) replay(extra map[string]interface{}) map[string]interface{} {
	m := map[string]interface{}{"op": h.seedOp, "hist_seed": h.hseed, "steps": strings.Join(h.steps, " | ")}
	for k, v := range extra {
		m[k] = v
	}
	return m
}

// cutTo replaces the target by one that has executed only the first n requests.
func (h *vfHist) cutTo(n int) {
	log := h.tg.LogCopy()[:n]
	h.tg.CloseAll()
	// a replayed target numbers its new connections from 1<<20 again: the entries of THIS incarnation get
	// numbers of their own before they are replayed, or the next incarnation's connections would be taken
	// for continuations of these (and inherit the database they had selected)
	h.inc++
	for i := h.incStart; i < len(log); i++ {
		if log[i].Conn >= 1<<20 {
			log[i].Conn = 1<<19 + h.inc*4096 + (log[i].Conn-1<<20)%4096
		}
	}
	h.incStart = len(log)
	h.tg = vfdoubles.ReplayWith(log, 0, true)
}

// cutIndex: where the process dies inside an operation: after any request, mostly right after one
// of its writes (the reads in between change nothing).
func (h *vfHist) cutIndex(log []vfdoubles.LogEntry) int {
	if h.cutAtHset || h.cutAtDel {
		var at []int
		for i, e := range log {
			if c := e.Cmd(); (h.cutAtHset && c == "hset" || h.cutAtDel && c == "hdel") && len(e.Args) > 1 && string(e.Args[1]) == h.c.cp {
				at = append(at, i+1)
				if h.cutAtHset {
					break
				}
			}
		}
		h.cutAtHset, h.cutAtDel = false, false
		if len(at) > 1 {
			return vfutil.Pick(h.r, at[:len(at)-1]) // not after the last deletion: that is the complete reset
		}
		if len(at) == 1 {
			return at[0]
		}
	}
	var w []int
	for i, e := range log {
		if c := e.Cmd(); c == "hset" || c == "hdel" {
			w = append(w, i+1)
		}
	}
	if len(w) > 0 && h.r.Chance(2, 3) {
		return vfutil.Pick(h.r, w)
	}
	return h.r.Intn(len(log) + 1)
}

// offsetDbs: the databases whose checkpoint hash holds an offset field of one of the labels the
// reader merges (the "record" of Model/PositionWriters.lean).
func (h *vfHist) offsetDbs(ids []string) map[int]bool {
	m := map[int]bool{}
	for db := range h.tg.Dbs {
		for f := range h.tg.HashFields(db, h.c.cp) {
			for _, id := range ids {
				if f == id+"_offset" || f == id+"_runid" {
					m[db] = true
				}
			}
		}
	}
	return m
}

// goneOf: the databases whose record was there before the operation and is gone after it (or after
// the part of it that was executed); wrote: the operation changed anything at all.
func (h *vfHist) goneOf(before map[int]bool, ids []string, log []vfdoubles.LogEntry) (gone []int, wrote bool) {
	after := h.offsetDbs(ids)
	for db := range before {
		if !after[db] {
			gone = append(gone, db)
		}
	}
	sort.Ints(gone)
	for _, e := range log {
		if c := e.Cmd(); (c == "hset" || c == "hdel") && len(e.Args) > 1 && string(e.Args[1]) == h.c.cp {
			wrote = true
		}
	}
	return
}

func vfInts(xs []int) string {
	if len(xs) == 0 {
		return "-"
	}
	var s []string
	for _, x := range xs {
		s = append(s, strconv.Itoa(x))
	}
	return strings.Join(s, ",")
}

// remnants: some database still holds checkpoint fields of `label`.
func (h *vfHist) remnants(label string) bool {
	for db := range h.tg.Dbs {
		for f := range h.tg.HashFields(db, h.c.cp) {
			if strings.HasPrefix(f, label+"_") {
				return true
			}
		}
	}
	return false
}

// relabel: SetRunId(newId) on an output labelled h.label; cut = stop after a random number
// of its requests (the process dies there).
func (h *vfHist) relabel(newId string, cut bool) bool {
	old := h.label
	n0 := h.tg.LogLen()
	ids := []string{newId, old}
	before := h.offsetDbs(ids)
	ro := h.out(old)
	if err := ro.SetRunId(context.Background(), newId); err != nil {
		h.s.Violate("C07:writers-op-failed", fmt.Sprintf("SetRunId(%s) failed on a healthy target: %v", newId, err), h.replay(nil))
		return false
	}
	h.tg.CloseAll()
	log := h.tg.LogCopy()[n0:]
	if cut && len(log) > 0 {
		j := h.cutIndex(log)
		h.cutTo(n0 + j)
		log = log[:j]
	}
	gone, wrote := h.goneOf(before, ids, log)
	if !wrote && len(gone) == 0 {
		// nothing written or deleted (cut before the first write, or nothing to do): not an operation
		h.s.Count("hist_relabel_noop")
		return true
	}
	// ids as the source reports them from now on: [new, old]
	h.prev, h.label = old, newId
	kind := "relabel"
	if cut {
		kind = "relabel-cut"
	}
	h.s.Count("hist_" + kind)
	_, ok := h.read("relabel", fmt.Sprintf("relabel gone=%s", vfInts(gone)))
	return ok
}

// reset: ResetStartPoint(ids) (FULLRESYNC, or a snapshot is about to be replayed).
func (h *vfHist) reset(cut bool) bool {
	n0 := h.tg.LogLen()
	before := h.offsetDbs(h.ids())
	ro := h.out(h.label)
	if err := ro.ResetStartPoint(context.Background(), h.ids()); err != nil {
		h.s.Violate("C07:writers-op-failed", fmt.Sprintf("ResetStartPoint failed on a healthy target: %v", err), h.replay(nil))
		return false
	}
	h.tg.CloseAll()
	log := h.tg.LogCopy()[n0:]
	if cut && len(log) > 0 {
		j := h.cutIndex(log)
		h.cutTo(n0 + j)
		log = log[:j]
	}
	gone, _ := h.goneOf(before, h.ids(), log)
	kind := "reset"
	if cut {
		kind = "reset-cut"
	}
	h.s.Count("hist_" + kind)
	_, ok := h.read("reset", fmt.Sprintf("reset gone=%s", vfInts(gone)))
	return ok
}

func (h *vfHist) snapshot(off int64) bool {
	ro := h.out(h.label)
	if err := ro.setCheckpoint(context.Background(), h.label, off, config.Version); err != nil {
		h.s.Violate("C07:writers-op-failed", fmt.Sprintf("setCheckpoint failed on a healthy target: %v", err), h.replay(nil))
		return false
	}
	h.tg.CloseAll()
	h.allowed[off] = true
	h.s.Count("hist_snapshot")
	sp, ok := h.read("snap", fmt.Sprintf("snap off=%d", off))
	if ok && sp.Offset != off {
		h.s.Violate("C07:snapshot-offset-not-stored", fmt.Sprintf("the snapshot replay completed at offset %d, the next start reads %d", off, sp.Offset), h.replay(map[string]interface{}{"offset": off, "read": sp.Offset}))
	}
	return ok
}

// life: the real restart -- StartPoint, sendAof over the stream from there -- dying after a
// random number of requests. base = offset of the first stream byte.
func (h *vfHist) life(base int64, stream []byte, ends []int) bool {
	ro0 := h.out(h.label)
	sp, err := ro0.StartPoint(context.Background(), h.ids())
	h.tg.CloseAll()
	if err != nil || sp.RunId == "?" || sp.Offset < base || sp.Offset > base+int64(len(stream)) {
		h.s.Count("hist_life_none")
		return true
	}
	// the commands that end after the position
	first := 0
	for first < len(ends) && base+int64(ends[first]) <= sp.Offset {
		first++
	}
	if first > 0 && base+int64(ends[first-1]) != sp.Offset || first == 0 && sp.Offset != base {
		h.s.Violate("C07:writers-position-not-boundary", fmt.Sprintf("the position read, %d, is not a command boundary of the stream", sp.Offset), h.replay(map[string]interface{}{"offset": sp.Offset}))
		return false
	}
	cc := *h.c
	cc.rid = sp.RunId
	cc.raw = h.c.raw[first:]
	cc.start = sp.Offset
	cc.sdb = sp.DbId
	cc.init, cc.oth, cc.lat, cc.evs = nil, nil, 0, nil
	// schedule: the rest of the stream in a few writes, idle gaps in between, every ticker fires
	t := 1500 // instants stay = 500 mod 1000: never the instant of a ticker (periods are multiples of 1000 µs)
	for i := 0; i < len(cc.raw); {
		k := h.r.Range(1, 6)
		if i+k > len(cc.raw) {
			k = len(cc.raw) - i
		}
		cc.evs = append(cc.evs, vfSEv{t: t, n: k})
		i += k
		t += vfutil.Pick(h.r, []int{1000, 3000, 700000, 2600000, 9000000}) + 1000
	}
	cc.evs = append(cc.evs, vfSEv{t: t + vfutil.Pick(h.r, []int{1000, 4000000, 13000000}) + 1000, close: true})
	sub := stream[sp.Offset-base:]
	var subEnds []int
	for _, e := range ends[first:] {
		subEnds = append(subEnds, e-int(sp.Offset-base))
	}
	n0 := h.tg.LogLen()
	log, _ := vfRunSend(h.t, &cc, h.tg, sp.DbId, sp.Offset, sub, cc.evs, subEnds)
	k := h.r.Intn(len(log) + 1)
	if h.r.Chance(1, 4) {
		k = len(log)
	}
	if h.lifeShare > 0 {
		k = len(log) * h.lifeShare / 100
	}
	h.cutTo(n0 + k)
	h.s.Count("hist_life")
	h.s.Add("hist_life_requests", k)
	op := strings.TrimPrefix(cc.opLine(h.tag, nil), "send ")
	_, ok := h.read("life", fmt.Sprintf("life k=%d %s", k, op))
	return ok
}

func vfHistCase(t *testing.T, s *vfutil.Session, c0 *vfSCase, tag int, hseed uint64) {
	r := vfutil.NewRand(hseed)
	c := *c0
	c.resume = true
	c.lat, c.init, c.oth, c.sdb = 0, nil, nil, -1
	c.tdb = -1 // TargetDb is honoured only with the in-memory position
	h := &vfHist{t: t, s: s, r: r, c: &c, tag: tag, allowed: map[int64]bool{-1: true}, seedOp: c0.opLine(tag, nil), hseed: hseed}
	h.tg = vfdoubles.NewTarget()
	h.tg.Lenient = true
	stream, ends := vfStreamOf(c.raw)
	idOf := func(n int) string { return fmt.Sprintf("%s%c", c0.rid, 'A'+n) }
	gen := 0
	h.label, h.prev = "prev0", ""
	ok := true
	epochs := r.Range(1, 2)
	// a fixed share of the histories has the shape that needs the records of TWO labels deleted in ONE
	// ascending order (6d4dd34): a relabel cut right after its first write (the old label's records all
	// stay), a life under the new label that advances the position, then the FULLRESYNC reset of the
	// next epoch cut after one of its deletions (label by label, the new label's larger record would go
	// before the old label's stale one)
	h.forced = r.Chance(1, 5) && len(c.raw) >= 4
	if h.forced {
		epochs = 2
		s.Count("hist_forced_two_label_reset")
	}
	for ep := 0; ep < epochs && ok; ep++ {
		// ---- full sync: FULLRESYNC answered -> reset, relabel, snapshot replayed, its offset stored
		if ep > 0 || r.Chance(1, 2) {
			cut := r.Chance(1, 2) // also with remnants of a cut relabel: DelCheckpoints orders the records of ALL labels
			if h.forced && ep > 0 {
				cut, h.cutAtDel = true, true
			}
			if ok = h.reset(cut); !ok {
				break
			}
			if cut { // the process died inside the reset; the next one resets again, completely
				if ok = h.reset(false); !ok {
					break
				}
			}
		}
		gen++
		if ok = h.relabel(idOf(gen), false); !ok {
			break
		}
		base := c.start
		if ep > 0 {
			base = vfutil.Pick(r, []int64{c.start, c.start + 7, 900, 1<<33 + 5, 12})
		}
		if base <= 0 {
			base = 1
		}
		if r.Chance(1, 5) { // sendOutput resets once more right before the replay
			if ok = h.reset(false); !ok {
				break
			}
		}
		if ok = h.snapshot(base); !ok {
			break
		}
		h.allowed[base] = true
		for _, e := range ends {
			h.allowed[base+int64(e)] = true
		}
		// ---- lives, fail-overs
		if h.forced && ep == 0 {
			h.lifeShare = 45
			ok = h.life(base, stream, ends)
			if ok {
				gen++
				h.cutAtHset = true
				ok = h.relabel(idOf(gen), true)
			}
			if ok {
				h.lifeShare = 100
				ok = h.life(base, stream, ends)
			}
			h.lifeShare = 0
			continue
		}
		for li, nl := 0, r.Range(1, 3); li < nl && ok; li++ {
			ok = h.life(base, stream, ends)
			if ok && r.Chance(1, 3) && !h.remnants(h.prev) {
				// the source failed over: CONTINUE under a new id -> relabel; maybe the process dies inside it
				gen++
				cut := r.Chance(1, 2)
				ok = h.relabel(idOf(gen), cut)
				if ok && cut && h.label != idOf(gen) {
					// cut before the first write: the restarted process relabels again
					ok = h.relabel(idOf(gen), false)
				}
			}
		}
	}
	if len(h.steps) == 0 {
		return
	}
	// ------------------------------------------------------------ model
	h.impl = append(h.impl, fmt.Sprintf("#%d end", tag))
	s.Op(fmt.Sprintf("hist tag=%d | %s", tag, strings.Join(h.steps, " | ")), h.impl...)
	s.Add("hist_steps", len(h.steps))
	s.Distinct(strings.Join(h.impl, "|"))
	// ------------------------------------------------------------ monitors (real positions only)
	if os.Getenv("VERIF_HIST_DUMP") != "" { // corpus mining: print (seed, case) of histories with rare shapes
		pv, why := int64(-1), ""
		for i, p := range h.pos {
			if h.kinds[i] == "reset" && p < pv && p >= 0 {
				why += " reset-cut-falls-back"
			}
			if h.kinds[i] == "relabel" && strings.Contains(h.steps[i], "gone=") && !strings.Contains(h.steps[i], "gone=-") && i+1 < len(h.kinds) && h.kinds[i+1] == "relabel" {
				why += " relabel-cut-then-complete"
			}
			pv = p
		}
		if why != "" {
			fmt.Printf("HISTDUMP%s | %d %s\n", why, hseed, h.seedOp)
		}
	}
	prev := int64(-1)
	for i, p := range h.pos {
		rp := h.replay(map[string]interface{}{"step": i, "position": p, "previous": prev})
		if h.kinds[i] == "reset" && p < prev {
			if p >= 0 {
				// DelCheckpoint deletes in ascending order of the offsets (fixed in /repo 837e4af; it went
				// through the databases in Go map order): a cut reset leaves the position or nothing
				s.Violate("C07:reset-left-stale-position", fmt.Sprintf("step %d: a ResetStartPoint cut by a crash left the stale lower record %d as the position (it was %d): the next start would resume from it", i, p, prev), rp)
			} else {
				s.Count("hist_reset_to_none")
			}
		}
		if h.kinds[i] == "reset" && p == prev && p >= 0 {
			s.Count("hist_reset_cut_position_intact")
		}
		if h.kinds[i] == "life" && p > prev {
			s.Count("hist_life_advanced_position")
		}
		if h.kinds[i] == "relabel" && p == -1 {
			s.Count("hist_relabel_marker")
		}
		if h.kinds[i] != "reset" && p < prev {
			s.Violate("C07:writers-position-decreased", fmt.Sprintf("step %d (%s): the position the next start reads fell from %d to %d", i, strings.Fields(h.steps[i])[0], prev, p), rp)
		}
		if h.kinds[i] == "relabel" && p == prev && p >= 0 && i > 0 && h.dbs[i] != h.dbs[i-1] {
			s.Violate("C07:relabel-moved-position", fmt.Sprintf("step %d: relabelling moved the position %d from database %d to database %d: the next run would re-select the wrong database", i, p, h.dbs[i-1], h.dbs[i]), rp)
		}
		if h.kinds[i] == "relabel" && p != prev {
			s.Violate("C07:relabel-changed-position", fmt.Sprintf("step %d: relabelling the position changed it from %d to %d", i, prev, p), rp)
		}
		if !h.allowed[p] {
			s.Violate("C07:writers-position-not-boundary", fmt.Sprintf("step %d (%s): the position read, %d, is neither -1, a snapshot offset nor a command boundary", i, strings.Fields(h.steps[i])[0], p), rp)
		}
		if p >= 0 && h.rids[i] == "?" {
			s.Violate("C07:position-lost", fmt.Sprintf("step %d (%s): offset %d is stored without its run id: the next start cannot use it", i, strings.Fields(h.steps[i])[0], p), rp)
		}
		if p > prev && h.kinds[i] != "life" && h.kinds[i] != "snap" {
			s.Violate("C07:writers-position-invented", fmt.Sprintf("step %d (%s): the position rose from %d to %d without a replay", i, strings.Fields(h.steps[i])[0], prev, p), rp)
		}
		prev = p
	}
}

func TestVerifSenderHist(t *testing.T) {
	s := vfutil.NewSession("SenderHist")
	defer s.Close()
	r := vfutil.NewRand(vfutil.Seed() ^ 0x5eed)
	if rp := os.Getenv("VERIF_REPLAY"); rp != "" {
		b, _ := os.ReadFile(rp)
		txt := string(b)
		i := strings.Index(txt, "\"hist_seed\":")
		j := strings.Index(txt, "send tag=")
		if i < 0 || j < 0 {
			return
		}
		num := strings.TrimLeft(txt[i+len("\"hist_seed\":"):], " ")
		if k := strings.IndexAny(num, ",}\n "); k >= 0 {
			num = num[:k]
		}
		hs, _ := strconv.ParseUint(num, 10, 64)
		op := txt[j:]
		if k := strings.IndexAny(op, "\"\n"); k >= 0 {
			op = op[:k]
		}
		vfHistCase(t, s, vfParseCase(op), 0, hs)
		return
	}
	tag := 0
	for _, l := range vfutil.Corpus("SenderHist") {
		f := strings.SplitN(l, " ", 2)
		hs, _ := strconv.ParseUint(f[0], 10, 64)
		vfHistCase(t, s, vfParseCase(f[1]), tag, hs)
		tag++
	}
	n := vfutil.Scale(250, 4000)
	for i := 0; i < n; i++ {
		c := vfGenCase(r.Fork(), i)
		before := s.Stats["hist_steps"]
		vfHistCase(t, s, c, tag, r.U64()>>1)
		if s.Stats["hist_steps"] != before {
			tag++
		}
	}
}
