//go:build verif

package syncer

// C18 — dimension audit (session 5, last round): degenerate-but-legal inputs FORCED, not left to chance, each through
// the real builder (cluster + standalone), the real cluster txnBatcher, the real commit into the slot-checking node
// doubles (replayOne), the real parser (parseRun), and — for the snapshot phase — the real buildBisyncRdbReplayUnit
// with replaceHashTag on and off (rdbCase). Judged by the same monitors as the generated cases; counters dim_*.
//
//   keys      : "" (the empty key: slot 0), "{}", "{}x", "{", "a{b", "}{a}", "{a}{b}", "{}{a}", "{a", "{{a}}", 0x00, 0xff…,
//               a 300-byte key, keys of slot 0 and slot 16383, two DIFFERENT tags of one slot
//   commands  : no arguments, no keys (EVAL … 0, an unknown command the target names no key for), the same key twice
//               (DEL k k, RENAME k k, MSET k v k v), equal slot / different tags, upper / mixed-case names and SUBCOMMAND
//               words (XGROUP create / CreateConsumer, SORT … store, GEORADIUS … Store, ZUNIONSTORE … weights)
//   txns      : the FIRST command has no key (refused as a whole, nothing emitted), the LAST one has none, a
//               key-less command alone
//   commit    : a unit whose slot has NO owner in the client's slot map at commit time (refused, nothing sent)

import (
	"fmt"

	"github.com/mgtv-tech/redis-GunYu/pkg/rdb"
	"github.com/mgtv-tech/redis-GunYu/pkg/vfutil"
)

func vfc18DimKeys() [][]byte {
	keys := [][]byte{{}, []byte("{}"), []byte("{}x"), []byte("{"), []byte("}"), []byte("a{b"), []byte("}{a}"), []byte("{a}{b}"), []byte("{}{a}"),
		[]byte("{a"), []byte("{{a}}"), []byte("{a}}"), {0}, {0xff, 0xfe, 0x80}, {'{', 0, '}'}, {'{', 0xff, '}', 'x'}, []byte("{a}"), []byte("a")}
	long := make([]byte, 300)
	for i := range long {
		long[i] = byte('a' + i%26)
	}
	keys = append(keys, long)
	// keys of slot 0 and slot 16383 (searched with the independent oracle)
	for _, want := range []int{0, 16383} {
		for i := 0; ; i++ {
			k := []byte(fmt.Sprintf("s%d", i))
			if vfc18HashSlot(k) == want {
				keys = append(keys, k)
				break
			}
		}
	}
	return keys
}

// two different tags whose slot is the slot of "{a}"
func vfc18SameSlotOtherTag() ([]byte, []byte) {
	want := vfc18HashSlot([]byte("{a}"))
	for i := 0; ; i++ {
		t := fmt.Sprintf("t%d", i)
		if vfc18HashSlot([]byte("{"+t+"}")) == want {
			return []byte("x{a}"), []byte("y{" + t + "}")
		}
	}
}

func (w *vfc18World) dimensionCases(r *vfutil.Rand) {
	s := w.s
	b := func(x string) []byte { return []byte(x) }
	known := func(name string, truth []int, args ...[]byte) vfc18Cmd {
		return vfc18Cmd{Name: name, Args: args, Truth: truth, Known: true, Class: "known"}
	}
	unknown := func(name string, args ...[]byte) vfc18Cmd { return vfc18Cmd{Name: name, Args: args, Class: "unknown"} }
	var txns [][]vfc18Cmd
	add := func(dim string, cmds ...vfc18Cmd) {
		txns = append(txns, cmds)
		s.Count("dim_" + dim)
	}
	// ---- every degenerate key: alone, twice in one command, with a partner of the same arrangement, across commands
	for _, k := range vfc18DimKeys() {
		add("key_alone", known("set", []int{0}, k, b("v")))
		add("key_twice_in_command", known("del", []int{0, 1}, k, k))
		add("key_twice_in_command", known("rename", []int{0, 1}, k, k))
		add("key_twice_in_command", known("mset", []int{0, 2}, k, b("v"), k, b("w")))
		add("key_across_commands", known("SET", []int{0}, k, b("v")), known("incr", []int{0}, k))
		add("key_with_other", known("set", []int{0}, k, b("v")), known("Set", []int{0}, b("other{zz}"), b("v")))
	}
	// ---- equal slot, different tags
	ka, kb := vfc18SameSlotOtherTag()
	add("equal_slot_different_tags", known("rename", []int{0, 1}, ka, kb))
	add("equal_slot_different_tags", known("set", []int{0}, ka, b("v")), known("sunionstore", []int{0, 1, 2}, kb, ka, kb))
	// ---- commands without arguments / without keys
	add("no_arguments", vfc18Cmd{Name: "del", Class: "malformed"})
	add("no_arguments", unknown("custom.nokeys"))
	add("no_keys_eval_0", vfc18Cmd{Name: "eval", Args: [][]byte{b("return 1"), b("0")}, Class: "unknown"}) // the tables decline (numkeys 0), the target names none
	add("no_keys_eval_0", vfc18Cmd{Name: "EVAL", Args: [][]byte{b("return 1"), b("0"), b("x{a}")}, Class: "unknown"})
	// ---- the FIRST / LAST command of a transaction has no key
	add("txn_first_command_without_key", unknown("custom.nokeys", b("x")), known("set", []int{0}, b("k{a}"), b("v")))
	add("txn_first_command_without_key", vfc18Cmd{Name: "eval", Args: [][]byte{b("s"), b("0")}, Class: "unknown"}, known("set", []int{0}, b("k{a}"), b("v")), known("del", []int{0}, b("k{a}")))
	add("txn_last_command_without_key", known("set", []int{0}, b("k{a}"), b("v")), unknown("custom.nokeys", b("x")))
	// ---- letter case of names and of SUBCOMMAND / option words
	add("case_subcommand", known("XGROUP", []int{1}, b("create"), b("s{a}"), b("g"), b("$")))
	add("case_subcommand", known("xgroup", []int{1}, b("CreateConsumer"), b("s{a}"), b("g"), b("c")))
	add("case_subcommand", known("XGroup", []int{1}, b("SETID"), b("s{a}"), b("g"), b("0")), known("xgroup", []int{1}, b("DelConsumer"), b("s{a}"), b("g"), b("c")))
	add("case_subcommand", known("Sort", []int{0, 2}, b("l{a}"), b("store"), b("d{a}")))
	add("case_subcommand", known("SORT", []int{0, 6}, b("l{a}"), b("by"), b("NoSort"), b("Get"), b("#"), b("Store"), b("d{b}")))
	add("case_subcommand", known("GeoRadius", []int{0, 6}, b("g{a}"), b("1"), b("2"), b("3"), b("km"), b("Store"), b("d{a}")))
	add("case_subcommand", known("ZUnionStore", []int{0, 2, 3}, b("d{a}"), b("2"), b("x{a}"), b("y{a}"), b("weights"), b("1"), b("2")))
	add("case_subcommand", known("BITOP", []int{1, 2}, b("not"), b("d{a}"), b("s{a}")))
	add("case_subcommand", known("xreadgroup", []int{6}, b("group"), b("g"), b("c"), b("count"), b("1"), b("Streams"), b("s{a}"), b(">")))
	add("case_subcommand", known("MSetNX", []int{0, 2}, b("a{a}"), b("1"), b("b{b}"), b("2")))

	for _, t := range txns {
		fb := "none"
		w.replayOne(r, t, fb, "dim")
		// the same through the real parser, alone and behind an acceptable transaction
		judgeable := true
		for _, c := range t {
			judgeable = judgeable && (c.Class == "known" || c.Class == "unknown")
		}
		if !judgeable {
			continue
		}
		tr := vfc18TruthOf(t, fb)
		ok := tr.Determined && tr.OneSlot
		lead := vfc18LoopTxn{cmds: []vfc18Cmd{known("set", []int{0}, b("lead{q}"), b("v"))}, accept: true, builderOK: true}
		w.parseRun(fb, []vfc18LoopTxn{lead, {cmds: t, accept: ok, builderOK: ok}, lead}, []bool{false, true, true}, 10, 5)
	}

	// ---- a unit whose slot has no owner in the client's slot map at commit time: refused, nothing on the wire
	for _, k := range [][]byte{b("k{a}"), {}, b("{}"), ka} {
		slot := vfc18HashSlot(k)
		hole := slot%1000 + 1 // owner(slot) = none for every slot with slot%1000 < hole
		cmds := []vfc18Cmd{known("set", []int{0}, k, b("v"))}
		w.nodes.register(cmds[0])
		unit, err := buildBisyncReplayUnitWithMode(1, 0, 1, false, defaultBisyncCommandKeyResolver, vfc18AofCmds(cmds), bisyncSlotMode{})
		if err != nil {
			s.Violate("single-slot-unit-refused", fmt.Sprintf("a one-key command on %q refused: %v", k, err), map[string]interface{}{"rcmds": vfc18RToks(cmds), "fb": "none"})
			continue
		}
		conn := &vfc18Redis{c: w.newCluster("none", hole)}
		w.nodes.take()
		_, _, derr := w.ro.execBisyncUnit(conn, "runid-hole", unit, true)
		blocks, stray := w.nodes.take()
		s.Count("dim_commit_slot_without_owner")
		if derr == nil || len(blocks) != 0 || stray != 0 {
			s.Violate("request-issued-for-refused-unit", fmt.Sprintf("slot %d has no owner in the client's slot map: commit err=%v, %d blocks, %d stray commands reached a node", slot, derr, len(blocks), stray),
				map[string]interface{}{"rcmds": vfc18RToks(cmds), "fb": "none", "hole": hole})
		}
	}

	// ---- snapshot phase: every degenerate key, replaceHashTag on and off, every builder-made value kind, restore / expanded
	for _, k := range vfc18DimKeys() {
		for _, rep := range []bool{false, true} {
			for _, kind := range []int{rdb.RdbObjectString, rdb.RdbObjectHash, rdb.RdbObjectList, rdb.RdbObjectZSet} {
				for _, restore := range []bool{false, true} {
					w.rdbCase(vfc18RdbCase{Replace: rep, Restore: restore, CanRestore: restore, FirstBin: true, KeyExists: "replace", Key: k, Kind: kind, N: 2, Expire: restore}, 900000+len(k))
					s.Count("dim_rdb_degenerate_key")
				}
			}
		}
	}
}
