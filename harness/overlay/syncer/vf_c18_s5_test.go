//go:build verif

package syncer

// C18 harness, session 5:
//
//   * resolverSeqCases / layoutLoopCases: SEQUENCES of commands outside the static tables through ONE instance of
//     the real newBisyncCommandKeyResolver closure (directly, and inside the real parser + send loops), the target's
//     COMMAND GETKEYS answering by layouts whose key positions depend on the CONTENT of the arguments (numkeys with
//     trailing options, a STORE option that moves) — same name, same arity, other key positions. A resolver must be a
//     function of the command alone: every unit is judged against the independent oracle on the REAL keys.
//   * findingCases: the forms of GEORADIUS / GEORADIUSBYMEMBER / SORT on which keyspec's extractors and Redis's own
//     getkeys procs DISAGREED (finding C18-F1, repaired in /repo 975110c): kept as directed regression cases
//     (corpus/C18/findings); the general generator draws these forms too now.
//   * parseCases: C18's own parse ops (op `c18 parse`, the Lean parser model Bisync.parse evaluated by drv_C18) on the
//     REAL parseAofReplayUnits in cluster mode, and the monitor "a refused transaction emits nothing".
//   * realGetKeysCases: the nodes cases with the REAL Cluster.commandGetKeys (getRandomNode + do over TCP): the node
//     doubles answer COMMAND GETKEYS themselves, each in its own way, and record who was asked.

import (
	"context"
	"fmt"
	"os"
	"path/filepath"
	"sort"
	"strconv"
	"strings"

	"github.com/mgtv-tech/redis-GunYu/config"
	"github.com/mgtv-tech/redis-GunYu/pkg/redis/client"
	"github.com/mgtv-tech/redis-GunYu/pkg/vfutil"
)

// ------------------------------------------------------------ layouts whose key positions depend on content

// vfc18LayoutCmd: a command outside the tables whose keys the fall-back `fb` ("nk" | "st") finds at positions that
// depend on what the arguments SAY; `arity` fixed by the caller so that consecutive commands collide on name/arity
func vfc18LayoutCmd(r *vfutil.Rand, fb, name string, arity int, key, other func() []byte) vfc18Cmd {
	filler := func() []byte {
		switch r.Intn(3) {
		case 0:
			return []byte(vfutil.Pick(r, []string{"WITHSCORES", "AGGREGATE", "obj_*", "weight_*"}))
		default:
			return other() // looks like a key, lives on another slot
		}
	}
	var a [][]byte
	switch fb {
	case "nk":
		n := r.Range(1, arity-2)
		a = append(a, key(), []byte(strconv.Itoa(n)))
		for i := 0; i < n; i++ {
			a = append(a, key())
		}
		for len(a) < arity {
			a = append(a, filler())
		}
	default: // "st"
		a = append(a, key())
		storeAt := r.Range(1, arity-2)
		for len(a) < arity {
			if len(a) == storeAt {
				a = append(a, []byte(vfutil.Pick(r, []string{"STORE", "store"})), key())
			} else {
				a = append(a, filler())
			}
		}
		a = a[:arity]
	}
	return vfc18Cmd{Name: name, Args: a, Class: "unknown"}
}

// a sequence of single-command / small transactions over ONE name and arity
func vfc18LayoutSeq(r *vfutil.Rand, fb string) [][]vfc18Cmd {
	tags := []string{"a", "t", "user:1", "b"}
	main := vfutil.Pick(r, tags)
	mixed := r.Chance(1, 3)
	key := func() []byte {
		t := main
		if mixed && r.Chance(1, 3) {
			t = vfutil.Pick(r, tags)
		}
		return []byte(fmt.Sprintf("k%d{%s}", r.Intn(9), t))
	}
	other := func() []byte {
		for {
			if t := vfutil.Pick(r, tags); t != main {
				return []byte(fmt.Sprintf("o%d{%s}", r.Intn(9), t))
			}
		}
	}
	names := map[string][]string{"nk": {"mod.unionstore", "MOD.UNIONSTORE", "custom.merge"}, "st": {"mod.sort", "custom.sort", "MOD.SORT"}}[fb]
	name := vfutil.Pick(r, names)
	arity := r.Range(4, 6)
	var seq [][]vfc18Cmd
	for i, n := 0, r.Range(2, 6); i < n; i++ {
		var txn []vfc18Cmd
		for j, m := 0, vfutil.Pick(r, []int{1, 1, 1, 2}); j < m; j++ {
			switch {
			case r.Chance(1, 6):
				txn = append(txn, vfc18Cmd{Name: "set", Args: [][]byte{key(), []byte("v")}, Truth: []int{0}, Known: true, Class: "known"})
			case r.Chance(1, 8): // the same command in other letter case: one command as far as Redis is concerned
				txn = append(txn, vfc18LayoutCmd(r, fb, strings.ToUpper(name), arity, key, other))
			default:
				txn = append(txn, vfc18LayoutCmd(r, fb, name, arity, key, other))
			}
		}
		seq = append(seq, txn)
	}
	return seq
}

func vfc18SeqToks(seq [][]vfc18Cmd) string {
	p := make([]string, len(seq))
	for i, t := range seq {
		p[i] = vfc18RToks(t)
	}
	return strings.Join(p, " | ")
}

// resolverSeqRun: ONE real resolver closure (what one parser run holds) over the whole sequence, each transaction
// through the real builder in cluster mode; judged per transaction on the REAL keys
func (w *vfc18World) resolverSeqRun(fb string, seq [][]vfc18Cmd) {
	s := w.s
	ro := NewRedisOutput(RedisOutputConfig{InputName: "in-1", CheckpointName: w.cp, BisyncEnabled: true, BatchCmdCount: 8,
		Redis: config.RedisConfig{Type: config.RedisTypeCluster}, TargetDb: -1})
	opened := 0
	ro.newRedisConn = func(context.Context) (client.Redis, error) {
		opened++
		return &vfc18LoopRedis{vfc18Redis: vfc18Redis{}, fbB: fb}, nil
	}
	resolver, closeResolver := ro.newBisyncCommandKeyResolver()
	defer closeResolver()
	replay := map[string]interface{}{"resolver_seq": vfc18SeqToks(seq), "fb": fb}
	for i, txn := range seq {
		truth := vfc18TruthOf(txn, fb)
		toks := vfc18Toks(txn)
		unit, err := buildBisyncReplayUnitWithMode(int64(i+1), 100, 200, len(txn) > 1, resolver, vfc18AofCmds(txn), bisyncSlotMode{})
		// the model's resolver is a function of the command: the same op as a single build
		if err == nil {
			s.Op("c18 build c "+fb+" "+toks, fmt.Sprintf("ok slot=%d tag=%s n=%d", unit.Slot, vfutil.HexS(unit.SlotTag), len(unit.Commands)))
		} else {
			s.Op("c18 build c "+fb+" "+toks, "err "+vfc18BuildErr(err))
		}
		want := truth.Determined && truth.OneSlot
		switch {
		case err == nil && !want:
			s.Violate("unit-accepted-not-single-slot", fmt.Sprintf("transaction #%d of a sequence through one resolver was accepted although its keys %q are undetermined or span slots (determined=%v oneSlot=%v)",
				i, truth.Keys, truth.Determined, truth.OneSlot), replay)
		case err != nil && want:
			s.Violate("single-slot-unit-refused", fmt.Sprintf("transaction #%d of a sequence through one resolver was refused although its keys %q share slot %d: %v", i, truth.Keys, truth.Slot, err), replay)
		case err == nil && int(unit.Slot) != truth.Slot:
			s.Violate("unit-slot-differs-from-hash-slot", fmt.Sprintf("transaction #%d: unit.Slot=%d HASH_SLOT=%d", i, unit.Slot, truth.Slot), replay)
		}
		if err == nil {
			s.Count("resolverseq_accepted")
		} else {
			s.Count("resolverseq_refused")
		}
	}
	if opened > 1 {
		s.Violate("tie-shape:resolver-opened-several-connections", fmt.Sprintf("%d introspection connections for one resolver", opened), replay)
	}
	s.Count("resolverseq_" + fb)
}

func (w *vfc18World) resolverSeqCases(r *vfutil.Rand, n int) {
	for _, l := range vfc18CorpusSub("seq") {
		f := strings.SplitN(l, " ", 2)
		if len(f) != 2 {
			continue
		}
		var seq [][]vfc18Cmd
		for _, part := range strings.Split(f[1], " | ") {
			seq = append(seq, vfc18ParseRToks(strings.Fields(part)))
		}
		w.resolverSeqRun(f[0], seq)
		w.s.Count("resolverseq_corpus")
	}
	for i := 0; i < n; i++ {
		fb := vfutil.Pick(r, []string{"nk", "nk", "st"})
		w.resolverSeqRun(fb, vfc18LayoutSeq(r, fb))
	}
}

// layoutLoopCases: the same sequences through the REAL parser (one resolver per run) and the real send loops
func (w *vfc18World) layoutLoopCases(r *vfutil.Rand, n int) {
	modes := []config.ReplayMode{config.ReplayModeSync, config.ReplayModePipeline, config.ReplayModeParallel}
	for i := 0; i < n; i++ {
		fb := vfutil.Pick(r, []string{"nk", "st"})
		seq := vfc18LayoutSeq(r, fb)
		txns := make([]vfc18LoopTxn, len(seq))
		for j, t := range seq {
			tr := vfc18TruthOf(t, fb)
			txns[j] = vfc18LoopTxn{cmds: t, accept: tr.Determined && tr.OneSlot, builderOK: tr.Determined && tr.OneSlot}
		}
		w.loopCase(r, vfutil.Pick(r, modes), fb, fb, "", txns)
		w.s.Count("loop_layout_" + fb)
	}
}

// ------------------------------------------------------------ finding C18-F1 (repaired: regression cases)

const vfc18F1Shape = "keyspec-store-option-not-as-redis-getkeys"

// findingOne: one command of a form on which keyspec's extractor and Redis's getkeys proc name different keys
// (Truth = Redis's positions), through the real builder with the tool's own tables, then — when the builder accepts
// what Redis calls cross-slot — through the real commit into the slot-checking node doubles
func (w *vfc18World) findingOne(r *vfutil.Rand, c vfc18Cmd, form string) {
	s := w.s
	cmds := []vfc18Cmd{c}
	w.nodes.register(c)
	truth := vfc18TruthOf(cmds, "none")
	replay := map[string]interface{}{"shape": vfc18F1Shape, "form": form, "f1": 1, "rcmds": vfc18RToks(cmds), "fb": "none"}
	unit, err := buildBisyncReplayUnitWithMode(1, 100, 200, false, defaultBisyncCommandKeyResolver, vfc18AofCmds(cmds), bisyncSlotMode{})
	s.Count("f1_" + form)
	switch {
	case err != nil && truth.OneSlot:
		s.Violate("single-slot-unit-refused", fmt.Sprintf("%s: Redis names the keys %q, all on slot %d; the builder refused: %v", form, truth.Keys, truth.Slot, err), replay)
	case err == nil && !truth.OneSlot:
		conn := &vfc18Redis{c: w.newCluster("none", 0)}
		w.nodes.take()
		_, _, derr := w.ro.execBisyncUnit(conn, "runid-f1", unit, true)
		blocks, _ := w.nodes.take()
		aborted := derr != nil && len(blocks) == 1 && blocks[0].Rejected != ""
		if aborted {
			s.Count("f1_sent_then_aborted_by_node")
		}
		s.Violate("unit-accepted-not-single-slot", fmt.Sprintf("%s: Redis names the keys %q on several slots; the builder accepted (slot %d); sent to the node and aborted there: %v", form, truth.Keys, unit.Slot, aborted), replay)
	default:
		s.Count("f1_agrees")
	}
}

func (w *vfc18World) findingCases(r *vfutil.Rand, n int) {
	for _, l := range vfc18CorpusSub("findings") {
		f := strings.Fields(l)
		if len(f) != 2 {
			continue
		}
		for _, c := range vfc18ParseRToks(f[1:]) {
			w.findingOne(r, c, f[0])
		}
	}
	tags := []string{"a", "t", "user:1"}
	for i := 0; i < n; i++ {
		main := vfutil.Pick(r, tags)
		k := func() []byte { return []byte(fmt.Sprintf("k%d{%s}", r.Intn(9), main)) }
		o := func() []byte { // sometimes on another slot
			if r.Bool() {
				return k()
			}
			return []byte(fmt.Sprintf("o%d{%s}", r.Intn(9), vfutil.Pick(r, tags)))
		}
		switch r.Intn(3) {
		case 0: // GEORADIUS … STORE a STOREDIST b : Redis (georadiusGetKeys) keeps the LAST
			a := [][]byte{k(), []byte("1"), []byte("2"), []byte("3"), []byte("km"), []byte("STORE"), o(), []byte("STOREDIST"), o()}
			w.findingOne(r, vfc18Cmd{Name: "georadius", Args: a, Truth: []int{0, 8}, Known: true, Class: "known"}, "geo-store-option-twice")
		case 1: // GEORADIUSBYMEMBER key <member spelling an option word> radius unit STORE dst : Redis scans from argv 5 on
			a := [][]byte{k(), []byte(vfutil.Pick(r, []string{"store", "STOREDIST"})), []byte("3"), []byte("km"), []byte("STORE"), k()}
			w.findingOne(r, vfc18Cmd{Name: "georadiusbymember", Args: a, Truth: []int{0, 5}, Known: true, Class: "known"}, "geo-member-spells-option")
		default: // SORT key STORE a STORE b : Redis (sortGetKeys) keeps the LAST
			a := [][]byte{k(), []byte("STORE"), o(), []byte("STORE"), k()}
			w.findingOne(r, vfc18Cmd{Name: "sort", Args: a, Truth: []int{0, 4}, Known: true, Class: "known"}, "sort-store-twice")
		}
	}
}

// vfc18CorpusSub: the lines of corpus/C18/<sub>/*.txt (the general corpus loop reads the top directory only)
func vfc18CorpusSub(sub string) []string {
	root := os.Getenv("VERIF_ROOT")
	if root == "" {
		root = "/verif"
	}
	files, _ := filepath.Glob(filepath.Join(root, "corpus", "C18", sub, "*.txt"))
	sort.Strings(files)
	var out []string
	for _, f := range files {
		b, err := os.ReadFile(f)
		if err != nil {
			continue
		}
		for _, l := range strings.Split(string(b), "\n") {
			if l = strings.TrimSpace(l); l != "" && !strings.HasPrefix(l, "#") {
				out = append(out, l)
			}
		}
	}
	return out
}

// ------------------------------------------------------------ C18's own parse ops (cluster mode)

// parseRun: a stream of judgeable transactions through the REAL parseAofReplayUnits in cluster mode (its own
// resolver closure, COMMAND GETKEYS answered by `fb`): the emitted units against the Lean parser model (op
// `c18 parse`: Bisync.parse, the definition refused_txn_emits_nothing is about) and, independently of the model,
// against the statement: the units are exactly the transactions before the first one that must be refused, each on
// its HASH_SLOT; of the refused transaction and of everything behind it NOTHING is emitted; the parser reports an
// error iff something is refused.
func (w *vfc18World) parseRun(fb string, txns []vfc18LoopTxn, wrapSingles []bool, start, seq0 int64) {
	s := w.s
	ro := NewRedisOutput(RedisOutputConfig{InputName: "in-1", CheckpointName: w.cp, BisyncEnabled: true, BatchCmdCount: 8,
		Redis: config.RedisConfig{Type: config.RedisTypeCluster}, TargetDb: -1})
	ro.newRedisConn = func(context.Context) (client.Redis, error) {
		return &vfc18LoopRedis{vfc18Redis: vfc18Redis{}, fbB: fb}, nil
	}
	var wire []byte
	var toks []string
	put := func(c vfc13Cmd) {
		wire = append(wire, vfc13Resp(c)...)
		toks = append(toks, fmt.Sprintf("%d@%s", start+int64(len(wire)), c.tok()))
	}
	seqToks := make([]string, len(txns))
	wraps := make([]string, len(txns))
	for i, t := range txns {
		seqToks[i] = vfc18RToks(t.cmds)
		wrap := len(t.cmds) > 1 || (i < len(wrapSingles) && wrapSingles[i])
		wraps[i] = "0"
		if wrap {
			wraps[i] = "1"
			put(vfc13C(vfutil.Pick(vfutil.NewRand(uint64(i)+uint64(start)), []string{"MULTI", "multi"})))
		}
		for _, c := range t.cmds {
			put(vfc13Cmd{Name: []byte(c.Name), Args: c.Args})
		}
		if wrap {
			put(vfc13C("EXEC"))
		}
	}
	replay := map[string]interface{}{"parse_txns": strings.Join(seqToks, " | "), "parse_wrap": strings.Join(wraps, ","), "fb": fb,
		"parse_start": fmt.Sprint(start), "parse_seq0": fmt.Sprint(seq0)}
	units, err := vfc13Parse(ro, start, seq0, wire)
	outs := make([]string, 0, len(units)+2)
	for _, u := range units {
		outs = append(outs, vfc13UnitTok(u))
	}
	status := vfc13ParseStatus(err)
	outs = append(outs, ";", status)
	s.Op(fmt.Sprintf("c18 parse %s %d %d %s", fb, start, seq0, strings.Join(toks, " ")), strings.Join(outs, " "))
	s.Count("parse_status_" + strings.SplitN(status, ":", 2)[0])

	firstRefused := len(txns)
	for i, t := range txns {
		if !t.builderOK {
			firstRefused = i
			break
		}
	}
	same := func(u *bisyncReplayUnit, t vfc18LoopTxn) bool {
		got := make([][][]byte, len(u.Commands))
		for i, c := range u.Commands {
			got[i] = append([][]byte{[]byte(c.Cmd)}, c.Args...)
		}
		return vfc18SameCmds(got, t.cmds)
	}
	for i, u := range units {
		switch {
		case i < firstRefused && i < len(txns) && same(u, txns[i]):
			if tr := vfc18TruthOf(txns[i].cmds, fb); int(u.Slot) != tr.Slot {
				s.Violate("unit-slot-differs-from-hash-slot", fmt.Sprintf("unit #%d: Slot=%d HASH_SLOT=%d", i, u.Slot, tr.Slot), replay)
			}
		case i >= firstRefused:
			s.Violate("unit-emitted-at-or-after-refusal", fmt.Sprintf("the parser emitted %d units although transaction #%d must be refused: nothing of it or behind it may be emitted (unit #%d: %s)",
				len(units), firstRefused, i, bisyncCommandSummary(u.Commands)), replay)
		default:
			s.Violate("partial-or-foreign-block", fmt.Sprintf("unit #%d is not source transaction #%d (split, merged or approximated): %s", i, i, vfc13UnitTok(u)), replay)
		}
	}
	stopped := err != nil && status != "eof"
	switch {
	case firstRefused < len(txns) && !stopped:
		s.Violate("refusal-did-not-stop-replay", fmt.Sprintf("transaction #%d is undetermined or multi-slot, the parser ended with %v", firstRefused, err), replay)
	case firstRefused == len(txns) && stopped:
		s.Violate("single-slot-unit-refused", "every transaction is routable and single-slot, yet the parser stopped: "+err.Error(), replay)
	case firstRefused == len(txns) && len(units) != len(txns):
		s.Violate("single-slot-unit-not-sent", fmt.Sprintf("%d units for %d acceptable transactions", len(units), len(txns)), replay)
	case firstRefused < len(txns) && len(units) < firstRefused:
		s.Violate("single-slot-unit-not-sent", fmt.Sprintf("%d units, the accepted prefix has %d transactions", len(units), firstRefused), replay)
	}
	if firstRefused < len(txns) {
		s.Count("parse_refusing_stream")
	} else {
		s.Count("parse_accepting_stream")
	}
}

func (w *vfc18World) parseCases(r *vfutil.Rand, n int) {
	for i := 0; i < n; i++ {
		fb := vfutil.Pick(r, []string{"none", "none", "first", "all", "err", "empty", "nk", "st"})
		var txns []vfc18LoopTxn
		if fb == "nk" || fb == "st" {
			for _, t := range vfc18LayoutSeq(r, fb) {
				tr := vfc18TruthOf(t, fb)
				txns = append(txns, vfc18LoopTxn{cmds: t, accept: tr.Determined && tr.OneSlot, builderOK: tr.Determined && tr.OneSlot})
			}
		} else {
			nt := r.Range(1, 6)
			bad := -1
			if r.Chance(2, 3) {
				bad = r.Intn(nt)
			}
			for j := 0; j < nt; j++ {
				txns = append(txns, vfc18LoopTxnGen(r, fb, fb, j != bad))
			}
		}
		wrap := make([]bool, len(txns))
		for j := range wrap {
			wrap[j] = r.Chance(1, 3)
		}
		w.parseRun(fb, txns, wrap, int64(r.Intn(5000)), int64(r.Range(1, 1000)))
	}
}

// ------------------------------------------------------------ movablekeys commands the tool's tables have no row for

// unlistedCases: ZUNION / ZINTER / ZDIFF / SINTERCARD / ZINTERCARD (numkeys first) and EVAL_RO / EVALSHA_RO (numkeys
// second) - the static tables decline, the target's COMMAND GETKEYS (fall-back n0 / n1: Redis's genericGetKeys,
// written here independently of Model/RedisKeys.lean, which the driver evaluates) decides: the unit is accepted iff
// the keys the target names share a slot with everything else, refused when it names none; through the real builder,
// the real cluster batcher and the real commit into the node doubles (replayOne)
func (w *vfc18World) unlistedCases(r *vfutil.Rand, n int) {
	tags := []string{"a", "t", "user:1", "b"}
	for i := 0; i < n; i++ {
		fb := vfutil.Pick(r, []string{"n0", "n0", "n1"})
		main := vfutil.Pick(r, tags)
		mixed := r.Chance(1, 3)
		key := func() []byte {
			t := main
			if mixed && r.Chance(1, 3) {
				t = vfutil.Pick(r, tags)
			}
			return []byte(fmt.Sprintf("k%d{%s}", r.Intn(9), t))
		}
		trailing := func() [][]byte {
			var a [][]byte
			for j, m := 0, r.Intn(3); j < m; j++ {
				a = append(a, []byte(vfutil.Pick(r, []string{"WITHSCORES", "LIMIT", "3", "AGGREGATE", "o1{zz}", "o2{a}"})))
			}
			return a
		}
		var cmds []vfc18Cmd
		for j, m := 0, r.Range(1, 3); j < m; j++ {
			if r.Chance(1, 4) {
				cmds = append(cmds, vfc18Cmd{Name: "set", Args: [][]byte{key(), []byte("v")}, Truth: []int{0}, Known: true, Class: "known"})
				continue
			}
			nk := r.Range(1, 3)
			count := strconv.Itoa(nk)
			switch r.Intn(10) {
			case 0:
				count = "0"
			case 1:
				count = strconv.Itoa(nk + r.Range(1, 4)) // more keys announced than arguments present (unless the trailing words fill up)
			case 2:
				count = vfutil.Pick(r, []string{"x", "", "-1"})
			}
			var a [][]byte
			name := vfutil.Pick(r, []string{"zunion", "zinter", "zdiff", "sintercard", "zintercard", "ZUNION", "ZInter"})
			if fb == "n1" {
				name = vfutil.Pick(r, []string{"eval_ro", "evalsha_ro", "EVAL_RO"})
				a = append(a, []byte("return 1"))
			}
			a = append(a, []byte(count))
			for q := 0; q < nk; q++ {
				a = append(a, key())
			}
			a = append(a, trailing()...)
			cmds = append(cmds, vfc18Cmd{Name: name, Args: a, Class: "unknown"})
			w.s.Count("unlisted_" + strings.ToLower(name))
		}
		w.replayOne(r, cmds, fb, "unlisted")
	}
}
