//go:build verif

package syncer

// C16 shim for the harness in package cmd (cmd/vf_c16_test.go): a syncer in the state
// ServiceReplica inspects (role, state, ReplicaLeader over a real channel), so that the
// real (*SyncerCmd).Sync can be driven without a Redis source.

import (
	"sync"

	"github.com/mgtv-tech/redis-GunYu/pkg/log"
	usync "github.com/mgtv-tech/redis-GunYu/pkg/sync"
)

type verifC16Input struct {
	mu  sync.Mutex
	ids []string
}

func (i *verifC16Input) Id() string                              { return "vf-input" }
func (i *verifC16Input) Run() error                              { return nil }
func (i *verifC16Input) Stop() error                             { return nil }
func (i *verifC16Input) SetOutput(Output)                        {}
func (i *verifC16Input) SetChannel(Channel)                      {}
func (i *verifC16Input) StateNotify(SyncState) usync.WaitChannel { return nil }
func (i *verifC16Input) RunIds() []string {
	i.mu.Lock()
	defer i.mu.Unlock()
	return i.ids
}

// VerifC16Syncer returns a syncer whose ServiceReplica serves `ch` as a replica leader, and
// a function closing the wait its handlers run under (what runLeader's exit does).
func VerifC16Syncer(ch Channel, ids []string, serving, started bool) (Syncer, func()) {
	leader := NewReplicaLeader(&verifC16Input{ids: ids}, ch)
	if started {
		leader.Start()
	}
	sy := &syncer{logger: log.WithLogger("[vf-syncer] "), wait: usync.NewWaitCloser(nil), leader: leader, channel: ch,
		role: SyncerRoleFollower, state: SyncerStateRun}
	if serving {
		sy.role = SyncerRoleLeader
	}
	return sy, func() { sy.wait.Close(nil) }
}
