//go:build verif

package syncer

// C18 harness, second part:
//   * the REAL path parseAofReplayUnits → sendBisyncSync / Pipeline / Parallel →
//     real cluster client → slot-checking node doubles, on streams of
//     transactions ("stops the replay, nothing of it sent" lives here);
//   * fault injection at the nodes (CROSSSLOT at queue time, error inside the
//     EXEC array, MOVED / ASK redirects);
//   * the snapshot phase: buildBisyncRdbReplayUnit in cluster mode (with and
//     without replace-hashtag) → execBisyncRdbUnit, and the cluster-global lane
//     (bisyncRdbGlobalTargets / execBisyncRdbGlobalUnit);
//   * more command shapes for the independent key-position oracle.

import (
	"bufio"
	"bytes"
	"context"
	"errors"
	"fmt"
	"github.com/mgtv-tech/redis-GunYu/pkg/filter"
	"github.com/mgtv-tech/redis-GunYu/pkg/vfc20"
	"io"
	"net"
	"strconv"
	"strings"
	"sync"
	"sync/atomic"
	"time"

	"github.com/mgtv-tech/redis-GunYu/config"
	"github.com/mgtv-tech/redis-GunYu/pkg/rdb"
	"github.com/mgtv-tech/redis-GunYu/pkg/redis/checkpoint"
	"github.com/mgtv-tech/redis-GunYu/pkg/redis/client"
	"github.com/mgtv-tech/redis-GunYu/pkg/redis/client/conn"
	"github.com/mgtv-tech/redis-GunYu/pkg/vfutil"
)

// ------------------------------------------------------------ more command shapes (Redis command reference)

func vfc18KeysN(r *vfutil.Rand, k func() []byte, n int) [][]byte {
	a := make([][]byte, n)
	for i := range a {
		a[i] = k()
	}
	return a
}

func init() {
	one := func(name string, rest ...string) vfc18Tmpl {
		return vfc18Tmpl{name, func(r *vfutil.Rand, k func() []byte) ([][]byte, []int) {
			a := [][]byte{k()}
			for _, x := range rest {
				a = append(a, []byte(x))
			}
			return a, []int{0}
		}}
	}
	numkeys := func(name string, lead []string, tail []string) vfc18Tmpl {
		// <lead…> numkeys key… <tail…>: keys follow the count
		return vfc18Tmpl{name, func(r *vfutil.Rand, k func() []byte) ([][]byte, []int) {
			n := r.Range(1, 3)
			var a [][]byte
			for _, x := range lead {
				a = append(a, []byte(x))
			}
			a = append(a, []byte(strconv.Itoa(n)))
			idx := vfc18Seq(len(a), n)
			a = append(a, vfc18KeysN(r, k, n)...)
			for _, x := range tail {
				a = append(a, []byte(x))
			}
			return a, idx
		}}
	}
	storeN := func(name string) vfc18Tmpl {
		// dst numkeys key…
		return vfc18Tmpl{name, func(r *vfutil.Rand, k func() []byte) ([][]byte, []int) {
			n := r.Range(1, 3)
			a := [][]byte{k(), []byte(strconv.Itoa(n))}
			idx := append([]int{0}, vfc18Seq(2, n)...)
			a = append(a, vfc18KeysN(r, k, n)...)
			return a, idx
		}}
	}
	allKeys := func(name string, lo, hi int) vfc18Tmpl {
		return vfc18Tmpl{name, func(r *vfutil.Rand, k func() []byte) ([][]byte, []int) {
			n := r.Range(lo, hi)
			return vfc18KeysN(r, k, n), vfc18Seq(0, n)
		}}
	}
	vfc18Tmpls = append(vfc18Tmpls,
		one("getdel"), one("getex", "PERSIST"), one("lpop"), one("rpop"), one("hincrby", "f", "2"), one("zincrby", "1", "m"),
		one("setrange", "0", "x"), one("xdel", "1-1"), one("xtrim", "MAXLEN", "10"), one("setex", "10", "v"), one("psetex", "10", "v"),
		one("setnx", "v"), one("incr"), one("decrby", "2"), one("ltrim", "0", "1"), one("lset", "0", "v"), one("spop"),
		one("zremrangebyscore", "0", "1"), one("zpopmin"), one("hsetnx", "f", "v"), one("hmset", "f", "v"), one("persist"),
		one("geoadd", "1", "2", "m"), one("json.set", "$", "1"), one("bf.add", "x"),
		allKeys("sinterstore", 2, 4), allKeys("sdiffstore", 2, 4),
		vfc18Tmpl{"renamenx", func(r *vfutil.Rand, k func() []byte) ([][]byte, []int) { return [][]byte{k(), k()}, []int{0, 1} }},
		vfc18Tmpl{"geosearchstore", func(r *vfutil.Rand, k func() []byte) ([][]byte, []int) {
			return [][]byte{k(), k(), []byte("FROMMEMBER"), k(), []byte("BYRADIUS"), []byte("1"), []byte("km")}, []int{0, 1}
		}},
		storeN("zinterstore"), storeN("zdiffstore"),
		vfc18Tmpl{"georadiusbymember", func(r *vfutil.Rand, k func() []byte) ([][]byte, []int) {
			a := [][]byte{k(), k(), []byte("3"), []byte("km"), []byte("STOREDIST"), k()}
			return a, []int{0, 5}
		}},
		numkeys("lmpop", nil, []string{"LEFT"}), numkeys("zmpop", nil, []string{"MIN"}),
		numkeys("blmpop", []string{"0"}, []string{"RIGHT"}), numkeys("bzmpop", []string{"0"}, []string{"MAX"}),
		numkeys("evalsha", []string{"0123456789abcdef0123456789abcdef01234567"}, []string{"arg"}),
		numkeys("fcall", []string{"myfunc"}, []string{"arg"}),
		numkeys("fcall_ro", []string{"myfunc"}, []string{"arg"}),
		// MSETEX numkeys key value [key value …] [NX|XX] [EX s|PX ms|…] (command reference, Redis 8.4)
		vfc18Tmpl{"msetex", func(r *vfutil.Rand, k func() []byte) ([][]byte, []int) {
			n := r.Range(1, 3)
			a := [][]byte{[]byte(strconv.Itoa(n))}
			var idx []int
			for i := 0; i < n; i++ {
				idx = append(idx, len(a))
				a = append(a, k(), k()) // the value looks like a key
			}
			if r.Bool() {
				a = append(a, []byte("EX"), []byte("10"))
			}
			return a, idx
		}},
		// CMS.MERGE / TDIGEST.MERGE dest numkeys src…: the modules declare the destination as the only key
		// (first=last=1), so a cluster node routes and slot-checks by it alone and COMMAND GETKEYS names it alone;
		// the sources follow as plain arguments (where they live is the module's business, see assumptions)
		vfc18Tmpl{"cms.merge", func(r *vfutil.Rand, k func() []byte) ([][]byte, []int) {
			n := r.Range(1, 3)
			return append([][]byte{k(), []byte(strconv.Itoa(n))}, vfc18KeysN(r, k, n)...), []int{0}
		}},
		vfc18Tmpl{"tdigest.merge", func(r *vfutil.Rand, k func() []byte) ([][]byte, []int) {
			n := r.Range(1, 3)
			return append([][]byte{k(), []byte(strconv.Itoa(n))}, vfc18KeysN(r, k, n)...), []int{0}
		}},
		vfc18Tmpl{"json.mset", func(r *vfutil.Rand, k func() []byte) ([][]byte, []int) {
			n := r.Range(1, 3)
			var a [][]byte
			var idx []int
			for i := 0; i < n; i++ {
				idx = append(idx, len(a))
				a = append(a, k(), []byte("$"), k())
			}
			return a, idx
		}},
		vfc18Tmpl{"xreadgroup", func(r *vfutil.Rand, k func() []byte) ([][]byte, []int) {
			n := r.Range(1, 2)
			a := [][]byte{[]byte("GROUP"), []byte("g"), []byte("c"), []byte("COUNT"), []byte("1"), []byte("STREAMS")}
			idx := vfc18Seq(len(a), n)
			a = append(a, vfc18KeysN(r, k, n)...)
			for i := 0; i < n; i++ {
				a = append(a, []byte(">"))
			}
			return a, idx
		}},
		vfc18Tmpl{"brpoplpush", func(r *vfutil.Rand, k func() []byte) ([][]byte, []int) {
			return [][]byte{k(), k(), []byte("0")}, []int{0, 1}
		}},
		vfc18Tmpl{"blmove", func(r *vfutil.Rand, k func() []byte) ([][]byte, []int) {
			return [][]byte{k(), k(), []byte("LEFT"), []byte("RIGHT"), []byte("0")}, []int{0, 1}
		}},
		vfc18Tmpl{"brpop", func(r *vfutil.Rand, k func() []byte) ([][]byte, []int) {
			n := r.Range(1, 3)
			return append(vfc18KeysN(r, k, n), []byte("0")), vfc18Seq(0, n)
		}},
		vfc18Tmpl{"bzpopmin", func(r *vfutil.Rand, k func() []byte) ([][]byte, []int) {
			n := r.Range(1, 3)
			return append(vfc18KeysN(r, k, n), []byte("0")), vfc18Seq(0, n)
		}},
	)
	vfc18Tmpls = append(vfc18Tmpls, vfc18MovableTmpls...)
}

// Session 5 — the forms of Redis 7's `movablekeys` write commands in which the keys MOVE with option words, written
// from Redis's own getkeys procs (src/db.c sortGetKeys, georadiusGetKeys, zunionInterDiffStoreGetKeys, evalGetKeys,
// functionGetKeys, lmpopGetKeys / blmpopGetKeys / zmpopGetKeys / bzmpopGetKeys): what a cluster node checks a queued
// command by. Each names a form the 81 earlier shapes do not have: option words before / between the keys, an option
// given twice (Redis: the LAST one counts), an argument that spells an option word where Redis does not look for one.
var vfc18MovableTmpls = []vfc18Tmpl{
	// GEORADIUS key lon lat radius unit [COUNT n] [ASC|DESC] (STORE|STOREDIST dst)+ : georadiusGetKeys scans from the first
	// option (argv 5) on, a store option consumes its argument, the LAST one names the destination (C18-F1, repaired 975110c)
	{"georadius", func(r *vfutil.Rand, k func() []byte) ([][]byte, []int) {
		a := [][]byte{k(), []byte("1"), []byte("2"), []byte("3"), []byte("km")}
		if r.Bool() {
			a = append(a, []byte("COUNT"), []byte("5"))
		}
		if r.Bool() {
			a = append(a, []byte(vfutil.Pick(r, []string{"ASC", "DESC"})))
		}
		last := -1
		for i, n := 0, r.Range(1, 2); i < n; i++ {
			a = append(a, []byte(vfutil.Pick(r, []string{"STORE", "store", "STOREDIST", "StoreDist"})), k())
			last = len(a) - 1
		}
		return a, []int{0, last}
	}},
	// GEORADIUSBYMEMBER key member radius unit … STORE dst, the MEMBER possibly spelling an option word (argv 2: not scanned by Redis)
	{"georadiusbymember", func(r *vfutil.Rand, k func() []byte) ([][]byte, []int) {
		member := []byte(vfutil.Pick(r, []string{"store", "STOREDIST", "m1", "Store"}))
		a := [][]byte{k(), member, []byte("3"), []byte("km")}
		if r.Bool() {
			a = append(a, []byte("WITHCOORD"))
		}
		a = append(a, []byte(vfutil.Pick(r, []string{"STORE", "STOREDIST"})), k())
		return a, []int{0, len(a) - 1}
	}},
	// SORT key [BY nosort] [LIMIT o c] [GET #] [ASC|DESC|ALPHA] (STORE dst)+ : sortGetKeys keeps the LAST store
	{"sort", func(r *vfutil.Rand, k func() []byte) ([][]byte, []int) {
		a := [][]byte{k()}
		if r.Bool() {
			a = append(a, []byte("BY"), []byte("nosort"))
		}
		if r.Bool() {
			a = append(a, []byte("LIMIT"), []byte("0"), []byte("10"))
		}
		if r.Bool() {
			a = append(a, []byte("GET"), []byte("#"))
		}
		if r.Bool() {
			a = append(a, []byte(vfutil.Pick(r, []string{"DESC", "ALPHA"})))
		}
		last := -1
		for i, n := 0, r.Range(1, 2); i < n; i++ {
			a = append(a, []byte(vfutil.Pick(r, []string{"STORE", "store"})), k())
			last = len(a) - 1
		}
		return a, []int{0, last}
	}},
	// Z*STORE dst numkeys key… [WEIGHTS w…] [AGGREGATE x]: a weight / aggregate word that looks like a key is none
	{"zinterstore", func(r *vfutil.Rand, k func() []byte) ([][]byte, []int) {
		n := r.Range(1, 3)
		a := [][]byte{k(), []byte(strconv.Itoa(n))}
		idx := append([]int{0}, vfc18Seq(2, n)...)
		a = append(a, vfc18KeysN(r, k, n)...)
		if r.Bool() {
			a = append(a, []byte("WEIGHTS"))
			for i := 0; i < n; i++ {
				a = append(a, []byte(strconv.Itoa(r.Range(1, 9))))
			}
		}
		if r.Bool() {
			a = append(a, []byte("AGGREGATE"), []byte(vfutil.Pick(r, []string{"SUM", "MIN", "MAX"})))
		}
		return a, idx
	}},
	// EVAL script numkeys key… arg…, the script text and the arguments spelling keys
	{"eval", func(r *vfutil.Rand, k func() []byte) ([][]byte, []int) {
		n := r.Range(1, 3)
		a := [][]byte{k(), []byte(strconv.Itoa(n))}
		idx := vfc18Seq(2, n)
		a = append(a, vfc18KeysN(r, k, n)...)
		a = append(a, vfc18KeysN(r, k, r.Range(0, 2))...)
		return a, idx
	}},
	// LMPOP numkeys key… LEFT|RIGHT [COUNT n]
	{"lmpop", func(r *vfutil.Rand, k func() []byte) ([][]byte, []int) {
		n := r.Range(1, 3)
		a := [][]byte{[]byte(strconv.Itoa(n))}
		idx := vfc18Seq(1, n)
		a = append(a, vfc18KeysN(r, k, n)...)
		a = append(a, []byte(vfutil.Pick(r, []string{"LEFT", "RIGHT"})))
		if r.Bool() {
			a = append(a, []byte("COUNT"), []byte("2"))
		}
		return a, idx
	}},
}

// ------------------------------------------------------------ the real loop against the node doubles

// builder-side COMMAND GETKEYS double (IterateNodes), independent of the client's
type vfc18LoopRedis struct {
	vfc18Redis
	fbB       string
	onClose   func()
	closeOnce sync.Once
}

// Close is reported once per connection: a run has ended — no lane worker, receiver or parser of it can send anything
// any more — when every connection it opened has been closed (the loops close a connection only after the goroutines
// using it have exited; a worker closes its own when it exits)
func (r *vfc18LoopRedis) Close() error {
	if r.onClose != nil {
		r.closeOnce.Do(r.onClose)
	}
	return nil
}

func (r *vfc18LoopRedis) IterateNodes(result func(string, interface{}, error), cmd string, args ...interface{}) {
	in := &vfc18Introspector{fb: r.fbB}
	in.IterateNodes(result, cmd, args...)
}

// vfc18LoopRun runs the real sendAofBisync over `wire` in real time (TCP to the
// node doubles cannot live in a synctest bubble). It ends on explicit conditions
// only: the loop returned by itself, or `ready()` holds (the nodes have every
// block a correct run delivers; then a short quiet period lets a run that
// delivers MORE show it — that period can only add evidence, a block it misses
// raises no alarm) and the pipe is closed so that the loop sees EOF with nothing
// buffered. If neither happens within vfc18LoopHardTimeout the run is reported
// as stalled (the caller retries; it does not judge a stalled run).
const vfc18LoopHardTimeout = 20 * time.Second

func vfc18LoopRun(ro *RedisOutput, nodes *vfc18Nodes, runID string, wire []byte, ready func() bool, hard time.Duration) (err error, stalled bool) {
	ctx, cancel := context.WithCancel(context.Background())
	defer cancel()
	pr, pw := io.Pipe()
	done := make(chan error, 1)
	go func() { done <- ro.sendAofBisync(ctx, runID, bufio.NewReaderSize(pr, 4096), 0, 0) }()
	wrote := make(chan struct{})
	go func() { pw.Write(wire); close(wrote) }()
	returned := false
	deadline := time.After(hard)
	tick := time.NewTicker(2 * time.Millisecond)
	defer tick.Stop()
wait:
	for {
		select {
		case err = <-done:
			returned = true
			break wait
		case <-deadline:
			stalled = true
			break wait
		case <-tick.C:
			select {
			case <-wrote:
				if ready() {
					break wait
				}
			default:
			}
		}
	}
	if !returned {
		if !stalled {
			last, quiet := nodes.reqCount(), 0
			for quiet < 10 {
				select {
				case err = <-done:
					returned = true
					quiet = 10
					continue
				case <-time.After(3 * time.Millisecond):
				}
				if n := nodes.reqCount(); n == last {
					quiet++
				} else {
					last, quiet = n, 0
				}
			}
		}
		if !returned {
			pw.Close()
			if stalled {
				cancel()
			}
			select {
			case err = <-done:
			case <-time.After(hard):
				err = errors.New("harness: sendAofBisync did not return after EOF and cancel")
				stalled = true
			}
		}
	}
	pr.Close()
	<-wrote
	return err, stalled
}

// settle waits until the nodes have seen no request for a while (lane workers
// of a loop that returned on an error may still be sending)
func (ns *vfc18Nodes) settle() {
	last, stable := ns.reqCount(), 0
	for stable < 5 {
		time.Sleep(3 * time.Millisecond)
		if n := ns.reqCount(); n == last {
			stable++
		} else {
			last, stable = n, 0
		}
	}
}

type vfc18LoopTxn struct {
	cmds      []vfc18Cmd
	accept    bool // determined and single-slot (generator truth + fall-backs)
	builderOK bool // … as the builder's fall-back sees it (false: the parser itself stops)
}

func vfc18EncodeTxns(txns []vfc18LoopTxn) []byte {
	var wire []byte
	for _, t := range txns {
		if len(t.cmds) > 1 {
			wire = append(wire, vfc13Resp(vfc13C("MULTI"))...)
		}
		for _, c := range t.cmds {
			wire = append(wire, vfc13Resp(vfc13Cmd{Name: []byte(c.Name), Args: c.Args})...)
		}
		if len(t.cmds) > 1 {
			wire = append(wire, vfc13Resp(vfc13C("EXEC"))...)
		}
	}
	return wire
}

// business part of a committed block: what lies between marker and record(s)
func vfc18Business(blk vfc18Block, nCtl int) [][][]byte {
	if len(blk.Cmds) < 1+nCtl {
		return nil
	}
	return blk.Cmds[1 : len(blk.Cmds)-nCtl]
}

func vfc18SameCmds(got [][][]byte, want []vfc18Cmd) bool {
	if len(got) != len(want) {
		return false
	}
	for i := range got {
		if strings.ToLower(string(got[i][0])) != strings.ToLower(want[i].Name) || len(got[i])-1 != len(want[i].Args) {
			return false
		}
		for j, a := range want[i].Args {
			if !bytes.Equal(got[i][1+j], a) {
				return false
			}
		}
	}
	return true
}

// vfc18LoopCase: a stream of judgeable transactions through the real loop.
func (w *vfc18World) loopCase(r *vfutil.Rand, mode config.ReplayMode, fbB, fbC string, inject string, txns []vfc18LoopTxn) {
	s := w.s
	for _, t := range txns {
		for _, c := range t.cmds {
			w.nodes.register(c)
		}
	}
	toks := make([]string, len(txns))
	for i, t := range txns {
		toks[i] = vfc18RToks(t.cmds)
	}
	replay := map[string]interface{}{"mode": string(mode), "fb_builder": fbB, "fb_client": fbC, "inject": inject, "txns": strings.Join(toks, " | ")}
	nAcc := 0 // accepted prefix: what a correct run delivers before it stops by itself or idles
	for nAcc < len(txns) && txns[nAcc].accept {
		nAcc++
	}
	// lanes of the parallel mode: 1 / 2 / 3 / many, and 0 = "ask the cluster" (no shards configured and the double does not
	// answer CLUSTER SHARDS: bisyncPipelineWorkerCount falls back to one lane)
	lanes := vfutil.Pick(r, []int{0, 1, 2, 2, 3, 16})
	replay["lanes"] = lanes
	s.Count(fmt.Sprintf("cfg_parallelism_%d", lanes))
	s.Count("cfg_replay_mode_" + string(mode))
	// one attempt = fresh output, own run id (blocks and the armed fault are matched by it)
	attempt := func(hard time.Duration) (blocks []vfc18Block, stray int, err error, stalled bool) {
		w.loopSeq++
		runID := fmt.Sprintf("runid-loop-%d", w.loopSeq)
		cl := w.newCluster(fbC, 0)
		if inject != "" {
			w.privSeq++
			cl = w.newCluster(fmt.Sprintf("%s#%d", fbC, w.privSeq), 0) // MOVED rewrites the client's slot map: private client
		}
		ro := NewRedisOutput(RedisOutputConfig{InputName: "in-1", CheckpointName: w.cp, BisyncEnabled: true, BatchCmdCount: 8,
			Redis: config.RedisConfig{Type: config.RedisTypeCluster}, ReplayMode: mode, Parallelism: lanes, TargetDb: -1})
		var opened, closed atomic.Int64
		ro.newRedisConn = func(ctx context.Context) (client.Redis, error) {
			if fbB == "connfail" && ctx.Done() == nil {
				// the parser's key resolver opens its introspection connection with context.Background()
				// (the senders pass the replay context): that connection cannot be opened
				s.Count("loop_introspection_conn_refused")
				return nil, errors.New("injected: introspection connection refused")
			}
			opened.Add(1)
			return &vfc18LoopRedis{vfc18Redis: vfc18Redis{c: cl}, fbB: fbB, onClose: func() { closed.Add(1) }}, nil
		}
		_, _, late := w.nodes.takeRun(runID)
		for i := 0; i < late; i++ {
			s.Count("loop_late_blocks_of_earlier_case")
		}
		w.nodes.mu.Lock()
		w.nodes.inject, w.nodes.injectRun, w.nodes.acceptOnce = "", runID, -1
		w.nodes.mu.Unlock()
		good := func(n int) func() bool { return func() bool { return w.nodes.goodCount(runID) >= n } }
		if inject == "" {
			err, stalled = vfc18LoopRun(ro, w.nodes, runID, vfc18EncodeTxns(txns), good(nAcc), hard)
		} else {
			// the fault must hit the block of txns[1]: sync mode, first transaction alone, then arm
			err, stalled = vfc18LoopRun(ro, w.nodes, runID, vfc18EncodeTxns(txns[:1]), good(1), hard)
			if !stalled && err == nil {
				// the pipe was closed on an idle loop and the loop reports a clean end instead of the parser's io.EOF:
				// not C18's business (counted; a REFUSAL reported as nil is refusal-did-not-stop-replay below)
				s.Count("loop_eof_reported_as_nil")
				err = io.EOF
			}
			if !stalled && errors.Is(err, io.EOF) {
				w.nodes.mu.Lock()
				w.nodes.inject = inject
				w.nodes.mu.Unlock()
				// moved/ask: every transaction ends in an accepted block; crossslot/execerr: the loop stops by itself
				err, stalled = vfc18LoopRun(ro, w.nodes, runID, vfc18EncodeTxns(txns[1:]), good(len(txns)), hard)
			}
		}
		// the run is over when every connection it opened is closed: then every block it can send HAS been recorded by a
		// node (a node records a block before it answers EXEC, a worker reads that answer before it exits, the loop closes
		// a connection after the goroutines using it have exited). An explicit condition, not a quiet window: whatever a slow
		// lane sends is waited for and judged with this case (sent-after-refusal included).
		joined := false
		for limit := time.Now().Add(hard); time.Now().Before(limit); time.Sleep(time.Millisecond) {
			if closed.Load() >= opened.Load() {
				joined = true
				break
			}
		}
		if joined {
			s.Count("loop_run_joined_all_connections_closed")
		} else {
			// a goroutine of the run still holds a connection: fall back to the quiet window (evidence only) and say so
			s.Count("loop_run_not_joined")
			w.nodes.settle()
		}
		blocks, stray, late = w.nodes.takeRun(runID)
		for i := 0; i < late; i++ {
			s.Count("loop_late_blocks_of_earlier_case")
		}
		return
	}
	hard := vfc18LoopHardTimeout
	if w.loopStalls > 0 {
		hard = 2 * time.Second // a confirmed stall was already reported: do not spend the budget on the next ones
	}
	blocks, stray, err, stalled := attempt(hard)
	if stalled && w.loopStalls == 0 {
		s.Count("loop_stalled_retry")
		blocks, stray, err, stalled = attempt(hard)
	}
	if stalled {
		// twice in a row: not the machine. The run is judged as it is (a loop that neither delivers
		// the accepted units nor returns is reported by the monitors below)
		w.loopStalls++
		s.Count("loop_stalled_twice")
	}
	s.Count("loop_" + string(mode))
	if inject != "" {
		s.Count("loop_inject_" + inject)
	}
	firstRefused := len(txns)
	for i, t := range txns {
		if !t.accept {
			firstRefused = i
			break
		}
	}
	stopped := err != nil && !errors.Is(err, io.EOF)
	nCtl := 2
	if mode == config.ReplayModeSync {
		nCtl = 1
	}
	if stray != 0 {
		s.Violate("request-outside-multi", fmt.Sprintf("%d commands reached a node outside MULTI/EXEC", stray), replay)
	}
	// every block is exactly one transaction of the accepted prefix, marker first, single-slot at its owner
	seen := map[int]int{}
	for _, blk := range blocks {
		if len(blk.Cmds) == 0 || !strings.EqualFold(string(blk.Cmds[0][0]), "set") || !checkpoint.IsBisyncMarkerKey(string(blk.Cmds[0][1])) {
			s.Violate("unit-block-shape", "a block without the marker first reached a node", replay)
			continue
		}
		biz := vfc18Business(blk, nCtl)
		which := -1
		for i, t := range txns {
			if vfc18SameCmds(biz, t.cmds) && seen[i] == 0 {
				which = i
				break
			}
		}
		if which < 0 {
			for i, t := range txns {
				if vfc18SameCmds(biz, t.cmds) {
					which = i
				}
			}
			if which >= 0 && (blk.Injected == "" && inject != "moved" && inject != "ask") {
				s.Violate("unit-sent-twice", fmt.Sprintf("transaction #%d reached the nodes in more than one block", which), replay)
			} else if which < 0 {
				s.Violate("partial-or-foreign-block", "a block reached a node that is not exactly one source transaction (split, merged or approximated): "+vfc18BlockToks(blk.Cmds), replay)
			}
			if which >= 0 {
				seen[which]++
			}
			continue
		}
		seen[which]++
		// in parallel mode a unit the CLIENT refuses fails on its lane while later units of other
		// slots may already be on theirs; the parser stopping (builder refusal) admits no later unit at all
		laneOvertake := mode == config.ReplayModeParallel && firstRefused < len(txns) && txns[firstRefused].builderOK && which > firstRefused
		if laneOvertake {
			s.Count("loop_parallel_lane_overtake")
		}
		if which >= firstRefused && !laneOvertake {
			s.Violate("sent-after-refusal", fmt.Sprintf("transaction #%d was sent although transaction #%d must stop the replay", which, firstRefused), replay)
		}
		if blk.Rejected != "" && blk.Injected == "" {
			s.Violate("node-rejected-block", "the slot-checking node refused a block the tool sent: "+blk.Rejected, replay)
		}
	}
	switch {
	case inject == "" || inject == "moved" || inject == "ask":
		if firstRefused < len(txns) && !stopped {
			s.Violate("refusal-did-not-stop-replay", fmt.Sprintf("transaction #%d is undetermined or multi-slot, yet sendAofBisync ended without an error (%v)", firstRefused, err), replay)
		}
		if firstRefused == len(txns) {
			if stopped {
				s.Violate("single-slot-unit-refused", "every transaction is routable and single-slot, yet the replay stopped: "+err.Error(), replay)
			}
			for i := range txns {
				if seen[i] == 0 {
					s.Violate("single-slot-unit-not-sent", fmt.Sprintf("transaction #%d never reached a node", i), replay)
				}
			}
			if inject != "" {
				// the redirected attempt may or may not have reached EXEC at the first node; what must
				// hold: it was not applied there, and every transaction is in exactly one accepted block
				goodB, inj := 0, 0
				for _, blk := range blocks {
					if blk.Injected != "" {
						inj++
					} else if blk.Rejected == "" {
						goodB++
					}
				}
				if goodB != len(txns) || inj > 1 {
					s.Violate("redirect-not-followed", fmt.Sprintf("%d accepted blocks (+%d redirected) for %d transactions with one %s redirect", goodB, inj, len(txns), inject), replay)
				}
			}
		}
	default: // crossslot / execerr at the node for txns[1]
		if !stopped {
			s.Violate("failed-commit-did-not-stop-replay", fmt.Sprintf("the node answered the commit of transaction #1 with an error (%s), yet sendAofBisync ended without one (%v; %d blocks)", inject, err, len(blocks)), replay)
		}
		for i := 2; i < len(txns); i++ {
			if seen[i] > 0 {
				s.Violate("sent-after-failed-commit", fmt.Sprintf("transaction #%d was sent after the commit of #1 had failed", i), replay)
			}
		}
	}
}

// a judgeable transaction for the loop: templates only, plus unknown commands
// whose keys come from the fall-backs
func vfc18LoopTxnGen(r *vfutil.Rand, fbB, fbC string, wantAccept bool) vfc18LoopTxn {
	for tries := 0; ; tries++ {
		cmds := vfc18GenTxn(r)
		ok := true
		for _, c := range cmds {
			if c.Class != "known" && c.Class != "unknown" {
				ok = false
			}
			switch strings.ToLower(c.Name) {
			case "publish", "debug": // on the command blacklist / sentinel handling: not C18's subject here
				ok = false
			}
		}
		if !ok {
			continue
		}
		tb := vfc18TruthOf(cmds, fbB)
		tc := vfc18TruthOf(cmds, fbC)
		accept := tb.Determined && tb.OneSlot && tc.Determined && tc.OneSlot
		// with diverging fall-backs an unknown command may be accepted by the builder and refused by the client
		if accept == wantAccept || tries > 200 {
			return vfc18LoopTxn{cmds: cmds, accept: accept, builderOK: tb.Determined && tb.OneSlot}
		}
	}
}

func (w *vfc18World) loopCases(r *vfutil.Rand, n int) {
	modes := []config.ReplayMode{config.ReplayModeSync, config.ReplayModePipeline, config.ReplayModeParallel}
	fbs := []string{"none", "none", "first", "all", "err", "connfail"}
	for i := 0; i < n; i++ {
		mode := vfutil.Pick(r, modes)
		fbB := vfutil.Pick(r, fbs)
		fbC := fbB
		if r.Chance(1, 5) {
			fbC = vfutil.Pick(r, fbs) // the two COMMAND GETKEYS sources answer differently
			w.s.Count("loop_diverging_getkeys")
		}
		nt := r.Range(2, 6)
		bad := -1
		if r.Chance(2, 3) {
			bad = r.Intn(nt)
		}
		txns := make([]vfc18LoopTxn, nt)
		for j := range txns {
			txns[j] = vfc18LoopTxnGen(r, fbB, fbC, j != bad)
		}
		w.loopCase(r, mode, fbB, fbC, "", txns)
	}
	// the builder accepts (its COMMAND GETKEYS names one key), the client refuses with
	// ErrCrossSlots (its COMMAND GETKEYS names two keys on different slots): the replay must stop there
	for i := 0; i < vfutil.Scale(12, 200); i++ {
		mode := vfutil.Pick(r, modes)
		nt := r.Range(3, 5)
		bad := r.Range(1, nt-2)
		txns := make([]vfc18LoopTxn, nt)
		for j := range txns {
			txns[j] = vfc18LoopTxnGen(r, "first", "all", true)
		}
		txns[bad] = vfc18LoopTxn{cmds: []vfc18Cmd{{Name: "custom.write", Args: [][]byte{[]byte("x{a}"), []byte("y{b}")}, Class: "unknown"}}, builderOK: true}
		w.loopCase(r, mode, "first", "all", "", txns)
		w.s.Count("loop_client_crossslot")
	}
	// the builder cannot open its introspection connection while the client's COMMAND GETKEYS works: a command
	// the tables do not know is undetermined for the builder, so the replay must stop there, nothing of it sent
	for i := 0; i < vfutil.Scale(12, 200); i++ {
		mode := vfutil.Pick(r, modes)
		fbC := vfutil.Pick(r, []string{"first", "all"})
		nt := r.Range(3, 5)
		bad := r.Range(1, nt-2)
		txns := make([]vfc18LoopTxn, nt)
		for j := range txns {
			for {
				txns[j] = vfc18LoopTxnGen(r, "connfail", fbC, true)
				known := true
				for _, c := range txns[j].cmds {
					known = known && c.Class == "known"
				}
				if known {
					break
				}
			}
		}
		tag := vfutil.Pick(r, []string{"a", "t", "user:1"})
		txns[bad] = vfc18LoopTxn{cmds: []vfc18Cmd{{Name: vfutil.Pick(r, []string{"custom.write", "foo"}),
			Args: [][]byte{[]byte("x{" + tag + "}"), []byte("v")}[:r.Range(1, 2)], Class: "unknown"}}}
		w.loopCase(r, mode, "connfail", fbC, "", txns)
		w.s.Count("loop_builder_connfail")
	}
	// faults at the node, sync mode (the block the fault hits must be known)
	for _, inj := range []string{"crossslot", "execerr", "moved", "ask"} {
		for i := 0; i < vfutil.Scale(6, 60); i++ {
			txns := make([]vfc18LoopTxn, 3)
			for j := range txns {
				txns[j] = vfc18LoopTxnGen(r, "none", "none", true)
			}
			if inj == "execerr" && len(txns[1].cmds) < 1 {
				continue
			}
			w.loopCase(r, config.ReplayModeSync, "none", "none", inj, txns)
		}
	}
}

// ------------------------------------------------------------ snapshot phase

type vfc18RdbParser struct {
	otype      int
	firstBin   bool
	splited    bool
	canRestore bool
	key        []byte
	cmds       [][]interface{} // name, args…
}

func (p *vfc18RdbParser) Type() int               { return p.otype }
func (p *vfc18RdbParser) RdbType() int            { return 0 }
func (p *vfc18RdbParser) ReadBuffer(*rdb.Loader)  {}
func (p *vfc18RdbParser) Key() []byte             { return p.key }
func (p *vfc18RdbParser) Value() []byte           { return nil }
func (p *vfc18RdbParser) CreateValueDump() []byte { return []byte("dump") }
func (p *vfc18RdbParser) ValueDumpSize() int      { return 4 }
func (p *vfc18RdbParser) FirstBin() bool          { return p.firstBin }
func (p *vfc18RdbParser) IsSplited() bool         { return p.splited }
func (p *vfc18RdbParser) DB() uint32              { return 0 }
func (p *vfc18RdbParser) CanRestore() bool        { return p.canRestore }
func (p *vfc18RdbParser) ExecCmd(cb rdb.RdbObjExecutor) {
	for _, c := range p.cmds {
		if err := cb(c[0].(string), c[1:]...); err != nil {
			panic(err)
		}
	}
}

// the target key as Redis would see it after replace-hashtag: first '{' and first '}' removed
func vfc18TargetKey(replace bool, k []byte) []byte {
	if !replace || len(k) == 0 {
		return k
	}
	out := append([]byte(nil), k...)
	if i := bytes.IndexByte(out, '{'); i >= 0 {
		out = append(out[:i:i], out[i+1:]...)
	}
	if i := bytes.IndexByte(out, '}'); i >= 0 {
		out = append(out[:i:i], out[i+1:]...)
	}
	return out
}

// rdbCases: buildBisyncRdbReplayUnit in cluster mode → execBisyncRdbUnit → nodes
type vfc18RdbCase struct {
	Replace, Restore, FirstBin, Splited, CanRestore, Expire bool
	KeyExists                                               string
	Key                                                     []byte
	Kind, N                                                 int // N: elements of the value = commands of the expanded unit
}

func (c vfc18RdbCase) replay() map[string]interface{} {
	return map[string]interface{}{"rdb": 1, "key": vfutil.Hex(c.Key), "replaceHashTag": c.Replace, "keyExists": c.KeyExists, "restore": c.Restore,
		"firstBin": c.FirstBin, "splited": c.Splited, "canRestore": c.CanRestore, "expire": c.Expire, "kind": c.Kind, "n": c.N}
}

func (w *vfc18World) rdbCases(r *vfutil.Rand, n int) {
	tags := [][]byte{[]byte("a"), []byte("user:1"), {0xff, 0x01}, []byte("t")}
	for i := 0; i < n; i++ {
		c := vfc18RdbCase{Replace: r.Bool(), KeyExists: vfutil.Pick(r, []string{"replace", "replace", "ignore", "", "", "error"}), Restore: r.Bool(),
			Key: vfc18Key(r, vfutil.Pick(r, tags)), FirstBin: r.Chance(3, 4), Splited: r.Chance(1, 4), Expire: r.Chance(1, 3),
			Kind: vfutil.Pick(r, []int{rdb.RdbObjectString, rdb.RdbObjectHash, rdb.RdbObjectList, rdb.RdbObjectZSet})}
		c.CanRestore = c.Restore && r.Bool()
		if len(c.Key) == 0 {
			c.Key = []byte("k")
		}
		// a value of many elements is expanded into as many commands: one unit, one block all the same
		switch x := r.Intn(12); {
		case x < 7:
			c.N = r.Range(1, 3)
		case x < 10:
			c.N = r.Range(4, 64)
		default:
			c.N = r.Range(65, 200)
		}
		w.rdbCase(c, i)
	}
}

func (w *vfc18World) rdbCase(c vfc18RdbCase, i int) {
	s := w.s
	key := c.Key
	s.Count(fmt.Sprintf("cfg_replaceHashTag_%v", c.Replace))
	s.Count("cfg_keyExists_" + map[bool]string{true: "default", false: c.KeyExists}[c.KeyExists == ""])
	s.Count(fmt.Sprintf("cfg_replayRdbEnableRestore_%v", c.Restore))
	p := &vfc18RdbParser{otype: c.Kind, firstBin: c.FirstBin, splited: c.Splited, canRestore: c.CanRestore, key: key}
	for j := 0; j < c.N; j++ {
		el := []byte(fmt.Sprintf("e%d", j))
		switch c.Kind {
		case rdb.RdbObjectString:
			p.cmds = [][]interface{}{{"SET", key, []byte("v")}}
		case rdb.RdbObjectHash:
			v := el
			if j == 1 {
				v = key // a value that looks like a key
			}
			p.cmds = append(p.cmds, []interface{}{"HSET", key, el, v})
		case rdb.RdbObjectList:
			p.cmds = append(p.cmds, []interface{}{"RPUSH", key, el, key})
		default:
			p.cmds = append(p.cmds, []interface{}{"ZADD", key, "1.5", el})
		}
	}
	e := &rdb.BinEntry{Key: key, ObjectParser: p}
	if c.Expire {
		e.ExpireAt = uint64(time.Now().UnixMilli()) + 100000
	}
	ro := NewRedisOutput(RedisOutputConfig{InputName: "in-1", CheckpointName: w.cp, BisyncEnabled: true, BatchCmdCount: 8,
		Redis: config.RedisConfig{Type: config.RedisTypeCluster, Version: "7.0.0"}, ReplaceHashTag: c.Replace, KeyExists: c.KeyExists,
		ReplayRdbEnableRestore: c.Restore, MaxProtoBulkLen: 1 << 20, TargetDb: -1})
	conn := &vfc18Redis{c: w.newCluster("none", 0)}
	unit, skip, err := ro.buildBisyncRdbReplayUnit(conn, 77, e, newBisyncRdbReplayState())
	if err != nil || skip || unit == nil {
		s.Count("rdb_skip_or_error")
		return
	}
	raw := make([]vfc18Cmd, len(p.cmds))
	for j, rc := range p.cmds {
		args, _ := bisyncArgsFromInterfaces(rc[1:])
		raw[j] = vfc18Cmd{Name: rc[0].(string), Args: args}
	}
	w.rdbJudge(ro, conn, e, unit, raw, c.Replace, c.KeyExists, true, c.replay(), fmt.Sprintf("runid-rdb-%d", i))
}

// key positions of the commands a snapshot unit consists of, written from the command reference
// (independent of the tool's tables): everything has its key first, except XGROUP <sub> key …
func vfc18RdbOracle(name string) ([]int, bool) {
	switch name {
	case "set", "hset", "rpush", "sadd", "zadd", "xadd", "xsetid", "xclaim", "restore", "del", "pexpire":
		return []int{0}, true
	case "xgroup":
		return []int{1}, true
	}
	return nil, false
}

// rdbJudge: one snapshot unit the real builder made from `e` — its command list against the model
// (op c18 rdbcmds, fed with what the object parser handed over), its slot, every key of every command
// (oracle positions, cross-checked with the tool's tables) on the target key, one block at the slot owner.
func (w *vfc18World) rdbJudge(ro *RedisOutput, conn client.Redis, e *rdb.BinEntry, unit *bisyncReplayUnit, raw []vfc18Cmd,
	replace bool, keyExists string, v5 bool, replay map[string]interface{}, run string) {
	s := w.s
	key := e.Key
	tk := vfc18TargetKey(replace, key)
	rep := "0"
	if replace {
		rep = "1"
	}
	b := func(x bool) string {
		if x {
			return "1"
		}
		return "0"
	}
	s.Op(fmt.Sprintf("c18 rdb 1 %s %s", rep, vfutil.Hex(key)), fmt.Sprintf("%s slot=%d tag=%s", vfutil.Hex(tk), unit.Slot, vfutil.HexS(unit.SlotTag)))
	s.Count("rdb_unit")
	// the command list itself against the model (ttl and dump arguments canonicalised)
	{
		rawToks := make([]string, len(raw))
		for j, rc := range raw {
			rawToks[j] = rc.tok()
		}
		got := make([]string, len(unit.Commands))
		for j, uc := range unit.Commands {
			vc := vfc18Cmd{Name: uc.Cmd, Args: append([][]byte(nil), uc.Args...)}
			switch uc.Cmd {
			case "restore":
				if len(vc.Args) >= 3 {
					vc.Args[1], vc.Args[2] = []byte("T"), []byte("D")
				}
			case "pexpire":
				if len(vc.Args) == 2 {
					vc.Args[1] = []byte("T")
				}
			}
			got[j] = vc.tok()
		}
		useRestore := ro.bisyncRdbUseRestore(e)
		if useRestore {
			s.Count("rdb_unit_restore_form")
		}
		s.Op(fmt.Sprintf("c18 rdbcmds %s %s %s %s %s %s %d %d %s %s", b(useRestore), b(e.FirstBin()), b(keyExists == "replace"), b(e.ExpireAt != 0), rep,
			b(v5), e.IdleTime, e.Freq, vfutil.Hex(key), strings.Join(rawToks, " ")), strings.Join(got, " "))
	}
	if len(unit.Commands) > 64 {
		s.Count("rdb_unit_over_64_commands")
	}
	want := vfc18HashSlot(tk)
	if int(unit.Slot) != want {
		s.Violate("rdb-unit-slot-differs-from-hash-slot", fmt.Sprintf("unit.Slot=%d, HASH_SLOT(target key %q)=%d", unit.Slot, tk, want), replay)
	}
	for _, uc := range unit.Commands {
		idx, ok := vfc18RdbOracle(uc.Cmd)
		if !ok {
			s.Violate("tie-shape:rdb-command-without-oracle", "the unit holds a command the harness has no key positions for: "+uc.Cmd, replay)
			continue
		}
		s.Count("rdb_cmd_" + uc.Cmd)
		if ti, tok := filter.CommandKeyIndexes(uc.Cmd, uc.Args); !tok || fmt.Sprint(ti) != fmt.Sprint(idx) {
			s.Violate("rdb-key-positions-differ", fmt.Sprintf("%s: the tool's tables name key positions %v (ok=%v), the command reference %v", uc.Cmd, ti, tok, idx), replay)
		}
		for _, ki := range idx {
			if ki >= len(uc.Args) || !bytes.Equal(uc.Args[ki], tk) {
				s.Violate("rdb-command-off-target-key", fmt.Sprintf("key position %d of %s %q is not the target key %q: the unit spans slots (or writes another key)", ki, uc.Cmd, uc.Args, tk), replay)
			} else if hs := vfc18HashSlot(uc.Args[ki]); hs != int(unit.Slot) {
				s.Violate("block-key-off-slot", fmt.Sprintf("key %q of %s hashes to %d, unit slot %d", uc.Args[ki], uc.Cmd, hs, unit.Slot), replay)
			}
		}
		w.nodes.register(vfc18Cmd{Name: uc.Cmd, Args: uc.Args, Truth: idx, Class: "known"})
	}
	w.nodes.take()
	derr := ro.execBisyncRdbUnit(conn, run, unit)
	all, stray := w.nodes.take() // synchronous call: everything it sent is here (blocks of other runs: late lane workers of the last loop case)
	var blocks []vfc18Block
	for _, b := range all {
		if b.Run == run {
			blocks = append(blocks, b)
		} else if len(b.Cmds) == 0 || !strings.EqualFold(string(b.Cmds[0][0]), "set") || !checkpoint.IsBisyncMarkerKey(string(b.Cmds[0][1])) {
			// a block that does not start with a marker is nobody's late unit: the snapshot unit was split
			s.Violate("rdb-block-without-marker", fmt.Sprintf("a block of %d commands without the marker first reached node %d during a snapshot unit of %d commands: the peer's stream shows it as a foreign transaction", len(b.Cmds), b.Node, len(unit.Commands)), replay)
		}
	}
	if derr != nil {
		s.Violate("single-slot-unit-refused", "snapshot unit on one key refused: "+derr.Error(), replay)
		return
	}
	if len(blocks) != 1 || stray != 0 || blocks[0].Rejected != "" || blocks[0].Node != w.ownerIdx(want) ||
		len(blocks[0].Cmds) != len(unit.Commands)+1 || vfc18HashSlot(blocks[0].Cmds[0][1]) != want {
		s.Violate("rdb-unit-block", fmt.Sprintf("%d blocks / %d stray; want one block of marker + %d commands at the owner of slot %d", len(blocks), stray, len(unit.Commands), want), replay)
	}
}

// realRdbCases: values of every type the builder produces — string, list, set, zset, hash, stream (entries,
// XSETID, a consumer group with a pending entry and a consumer: XGROUP CREATE names the key SECOND), module —
// written as a snapshot, read by the REAL rdb.Loader (optionally with a small bin threshold: split values),
// every bin through the real buildBisyncRdbReplayUnit in cluster mode. What the object parser hands over is
// captured from a second load of the same bytes and fed to the model.
func (w *vfc18World) realRdbCases(r *vfutil.Rand, n int) {
	for i := 0; i < n; i++ {
		w.realRdbCase(r.U64(), i)
	}
}

func (w *vfc18World) realRdbCase(sub uint64, i int) {
	s := w.s
	r := vfutil.NewRand(sub)
	tags := [][]byte{[]byte("a"), []byte("user:1"), {0xff, 0x01}, []byte("t")}
	key := vfc18Key(r, vfutil.Pick(r, tags))
	if len(key) == 0 {
		key = []byte("k")
	}
	replace := r.Chance(2, 3)
	keyExists := vfutil.Pick(r, []string{"replace", "replace", "", "", "ignore"})
	restore := r.Bool()
	ver := vfutil.Pick(r, []string{"7.0.0", "7.0.0", "4.0.0"})
	typ := vfutil.Pick(r, []int{0, 1, 2, 3, 4, 15, 15, 15, 7})
	var kv vfc20.KV
	nItems := r.Range(1, 5)
	if r.Chance(1, 5) {
		nItems = r.Range(30, 120)
	}
	switch typ {
	case 0:
		kv = vfc20.KV{Key: key, Type: 0, Str: []byte(fmt.Sprintf("v%d", r.Intn(1000)))}
	case 1, 2:
		kv = vfc20.KV{Key: key, Type: byte(typ)}
		for j := 0; j < nItems; j++ {
			kv.Items = append(kv.Items, []byte(fmt.Sprintf("m%d", j)))
		}
		if r.Chance(1, 3) {
			kv.Items[0] = key // a member that equals the key
		}
	case 3:
		kv = vfc20.KV{Key: key, Type: 3}
		for j := 0; j < nItems; j++ {
			kv.Items = append(kv.Items, []byte(fmt.Sprintf("z%d", j)), []byte(strconv.Itoa(r.Range(-50, 50))))
		}
	case 4:
		kv = vfc20.KV{Key: key, Type: 4}
		for j := 0; j < nItems; j++ {
			kv.Items = append(kv.Items, []byte(fmt.Sprintf("f%d", j)), []byte(fmt.Sprintf("v%d", j)))
		}
		if r.Chance(1, 3) {
			kv.Items[1] = key // a value that equals the key
		}
	case 15:
		kv = vfc20.SmallStreamG(string(key), vfutil.Pick(r, []string{"f", "field"}), vfutil.Pick(r, []string{"g", "g", "grp", ""}))
	default:
		kv = vfc20.ModuleValue(string(key))
	}
	if r.Chance(1, 3) {
		kv.ExpireAt = uint64(time.Now().UnixMilli()) + 100000
	}
	snap := vfc20.BuildRDB([]vfc20.KV{kv}, vfc20.Opts{})
	thr := 0
	if r.Chance(1, 3) {
		thr = vfutil.Pick(r, []int{16, 48}) // small bins: a value of many elements arrives in several entries
	}
	entsA, errA := vfc20.Load(snap, thr, ver)
	entsB, errB := vfc20.Load(snap, thr, ver)
	replay := map[string]interface{}{"realrdb": fmt.Sprint(sub)}
	if errA != nil || errB != nil || len(entsA) != len(entsB) || len(entsA) == 0 {
		s.Violate("tie-shape:rdb-writer-rejected", fmt.Sprintf("the loader refused the harness's snapshot (type %d): %v / %v", typ, errA, errB), replay)
		return
	}
	idle, freq := uint32(0), uint8(0)
	if r.Chance(1, 3) {
		idle = uint32(r.Range(1, 5000))
	}
	if r.Chance(1, 3) {
		freq = uint8(r.Range(1, 250))
	}
	ro := NewRedisOutput(RedisOutputConfig{InputName: "in-1", CheckpointName: w.cp, BisyncEnabled: true, BatchCmdCount: 8,
		Redis: config.RedisConfig{Type: config.RedisTypeCluster, Version: ver}, ReplaceHashTag: replace, KeyExists: keyExists,
		ReplayRdbEnableRestore: restore, MaxProtoBulkLen: 1 << 20, TargetDb: -1})
	conn := &vfc18Redis{c: w.newCluster("none", 0)}
	state := newBisyncRdbReplayState()
	s.Count(fmt.Sprintf("realrdb_type_%d", typ))
	for j, e := range entsA {
		if !bisyncRdbIsKeyedEntry(e) {
			continue
		}
		e.IdleTime, e.Freq = idle, freq
		entsB[j].IdleTime, entsB[j].Freq = idle, freq
		unit, skip, err := ro.buildBisyncRdbReplayUnit(conn, 77, e, state)
		if err != nil || skip || unit == nil {
			s.Count("realrdb_skip_or_error")
			continue
		}
		// what the object parser hands over (second load: parsers may be consumed by ExecCmd)
		var raw []vfc18Cmd
		func() {
			defer func() { recover() }()
			entsB[j].ObjectParser.ExecCmd(func(cmd string, args ...interface{}) error {
				a, err := bisyncArgsFromInterfaces(args)
				if err != nil {
					return err
				}
				raw = append(raw, vfc18Cmd{Name: cmd, Args: a})
				return nil
			})
		}()
		if len(entsA) > 1 {
			s.Count("realrdb_split_bin")
		}
		w.rdbJudge(ro, conn, e, unit, raw, replace, keyExists, ver != "4.0.0", replay, fmt.Sprintf("runid-rrdb-%d-%d", i, j))
	}
}

// globalCases: key-less snapshot entries (functions) go to every primary with
// a marker on a slot that primary serves
func (w *vfc18World) globalCases(r *vfutil.Rand, n int) {
	s := w.s
	for i := 0; i < n; i++ {
		// primaries own contiguous thirds, as the node doubles do; ranges listed in random order per shard
		var shards []*config.RedisClusterShard
		for j, a := range w.nodes.addrs {
			lo, hi := 0, 16383
			for sl := 0; sl < 16384; sl++ {
				if w.ownerIdx(sl) == j {
					lo = sl
					break
				}
			}
			for sl := 16383; sl >= 0; sl-- {
				if w.ownerIdx(sl) == j {
					hi = sl
					break
				}
			}
			mid := lo + r.Intn(hi-lo)
			rs := []config.RedisSlotRange{{Left: lo, Right: mid}, {Left: mid + 1, Right: hi}}
			if r.Bool() {
				rs[0], rs[1] = rs[1], rs[0]
			}
			shards = append(shards, &config.RedisClusterShard{Slots: config.RedisSlots{Ranges: rs}, Master: config.RedisNode{Address: a}})
		}
		rc := config.RedisConfig{Type: config.RedisTypeCluster, Version: "7.0.0"}
		rc.SetClusterShards(shards)
		ro := NewRedisOutput(RedisOutputConfig{InputName: "in-1", CheckpointName: w.cp, BisyncEnabled: true, Redis: rc, TargetDb: -1})
		ro.newRedisConnToAddress = func(_ context.Context, addr string) (client.Redis, error) {
			c, err := net.DialTimeout("tcp", addr, 2*time.Second)
			if err != nil {
				return nil, err
			}
			return conn.VerifNewRedisConn(c, config.RedisConfig{Type: config.RedisTypeStandalone}), nil
		}
		p := &vfc18RdbParser{otype: rdb.RdbObjectFunction, firstBin: true,
			cmds: [][]interface{}{{"FUNCTION", "LOAD", "REPLACE", []byte("#!lua name=f" + strconv.Itoa(i))}}}
		e := &rdb.BinEntry{ObjectParser: p}
		unit, skip, err := ro.buildBisyncRdbGlobalUnit(5, e)
		if err != nil || skip || unit == nil {
			s.Violate("global-unit-not-built", fmt.Sprint(err), map[string]interface{}{})
			continue
		}
		targets, err := ro.bisyncRdbGlobalTargets(nil)
		if err != nil {
			s.Violate("global-targets", err.Error(), map[string]interface{}{})
			continue
		}
		execTargets, err := ro.newBisyncRdbGlobalExecTargets(context.Background(), targets)
		if err != nil {
			s.Violate("global-targets", err.Error(), map[string]interface{}{})
			continue
		}
		w.nodes.take()
		glbRun := fmt.Sprintf("runid-glb-%d", i)
		derr := ro.execBisyncRdbGlobalUnit(glbRun, unit, execTargets)
		closeBisyncRdbGlobalExecTargets(execTargets)
		blocks, stray, _ := w.nodes.takeRun(glbRun)
		replay := map[string]interface{}{"shards": fmt.Sprint(shards[0].Slots.Ranges, shards[1].Slots.Ranges, shards[2].Slots.Ranges)}
		if derr != nil || stray != 0 || len(blocks) != len(w.nodes.addrs) {
			s.Violate("global-unit-blocks", fmt.Sprintf("err=%v, %d blocks, %d stray; want one block per primary", derr, len(blocks), stray), replay)
			continue
		}
		perNode := map[int]int{}
		for _, blk := range blocks {
			perNode[blk.Node]++
			if len(blk.Cmds) != 2 || !checkpoint.IsBisyncMarkerKey(string(blk.Cmds[0][1])) {
				s.Violate("global-unit-blocks", "block is not marker + the global command", replay)
				continue
			}
			if sl := vfc18HashSlot(blk.Cmds[0][1]); w.ownerIdx(sl) != blk.Node {
				s.Violate("global-marker-off-node", fmt.Sprintf("marker key of the block sent to primary %d hashes to slot %d, served by primary %d", blk.Node, sl, w.ownerIdx(sl)), replay)
			}
		}
		for j := range w.nodes.addrs {
			if perNode[j] != 1 {
				s.Violate("global-unit-blocks", fmt.Sprintf("primary %d received %d blocks", j, perNode[j]), replay)
			}
		}
		s.Count("global_unit")
	}
}
