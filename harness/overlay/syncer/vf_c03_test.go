//go:build verif

package syncer

// C03, replay-level correspondence (L2): the real RedisOutput.sendRdb
// (ParseRdb → keyed fan-out → rdbReplay → RdbReplay.Replay) against the
// in-process target double of pkg/vfc03, inside a synctest bubble (virtual
// clock, so RESTORE/PEXPIRE TTLs are exact). Snapshot bytes come from the Lean
// encoder for generated dataset descriptions. The request log of every worker
// connection is compared with the Lean model; the monitor compares the target's
// final keyspace with the dataset.

import (
	"bufio"
	"bytes"
	"context"
	"fmt"
	"math"
	"sort"
	"strconv"
	"strings"
	"sync"
	"testing"
	"testing/synctest"
	"time"

	"github.com/mgtv-tech/redis-GunYu/config"
	"github.com/mgtv-tech/redis-GunYu/pkg/rdb"
	redisclient "github.com/mgtv-tech/redis-GunYu/pkg/redis/client"
	"github.com/mgtv-tech/redis-GunYu/pkg/redis/client/proto"
	"github.com/mgtv-tech/redis-GunYu/pkg/redis/client/common"
	usync "github.com/mgtv-tech/redis-GunYu/pkg/sync"
	"github.com/mgtv-tech/redis-GunYu/pkg/vfc03"
	"github.com/mgtv-tech/redis-GunYu/pkg/vfutil"
)

// ---- client.Redis over the target double

type vfC03Reply struct {
	v   interface{}
	err error
}

type vfC03Redis struct {
	c       *vfc03.Conn
	pending []vfC03Reply
	// wireErr collects float arguments whose wire text (the real proto.Writer) does
	// not read back as the same double
	wireErr *[]string
}

// vfC03Wire renders the arguments with the real RESP writer of the client and
// checks every float64 argument: the text on the wire must parse back to exactly
// the same double, in the plain decimal / inf form Redis' strtod accepts.
func (f *vfC03Redis) checkWire(cmd string, args []interface{}) {
	tgMu.Lock()
	defer tgMu.Unlock()
	for _, a := range args {
		fl, ok := a.(float64)
		if !ok {
			continue
		}
		var buf bytes.Buffer
		w := proto.NewWriter(&buf, 256)
		if err := w.WriteArg(fl); err != nil {
			*f.wireErr = append(*f.wireErr, fmt.Sprintf("%s: float %v not writable: %v", cmd, fl, err))
			continue
		}
		w.Flush()
		// "$<n>\r\n<text>\r\n"
		parts := strings.SplitN(buf.String(), "\r\n", 3)
		if len(parts) < 2 {
			*f.wireErr = append(*f.wireErr, fmt.Sprintf("%s: bad bulk for %v", cmd, fl))
			continue
		}
		text := parts[1]
		back, err := strconv.ParseFloat(text, 64)
		if err != nil || math.Float64bits(back) != math.Float64bits(fl) && !(math.IsNaN(back) && math.IsNaN(fl)) {
			*f.wireErr = append(*f.wireErr, fmt.Sprintf("%s: float64 bits %d sent as %q which reads back as %v", cmd, math.Float64bits(fl), text, back))
		}
	}
}

var _ redisclient.Redis = (*vfC03Redis)(nil)

func (f *vfC03Redis) Close() error { return nil }
func (f *vfC03Redis) Do(cmd string, args ...interface{}) (interface{}, error) {
	f.checkWire(cmd, args)
	return f.c.Do(cmd, args...)
}
func (f *vfC03Redis) Send(cmd string, args ...interface{}) error {
	f.checkWire(cmd, args)
	v, err := f.c.Do(cmd, args...)
	f.pending = append(f.pending, vfC03Reply{v, err})
	return nil
}
func (f *vfC03Redis) SendAndFlush(cmd string, args ...interface{}) error { return f.Send(cmd, args...) }
func (f *vfC03Redis) Receive() (interface{}, error) {
	if len(f.pending) == 0 {
		return nil, fmt.Errorf("receive without request")
	}
	r := f.pending[0]
	f.pending = f.pending[1:]
	return r.v, r.err
}
func (f *vfC03Redis) ReceiveString() (string, error) { return common.String(f.Receive()) }
func (f *vfC03Redis) ReceiveBool() (bool, error)     { return common.Bool(f.Receive()) }
func (f *vfC03Redis) BufioReader() *bufio.Reader     { return nil }
func (f *vfC03Redis) BufioWriter() *bufio.Writer     { return nil }
func (f *vfC03Redis) Flush() error                   { return nil }
func (f *vfC03Redis) RedisType() config.RedisType    { return config.RedisTypeStandalone }
func (f *vfC03Redis) Addresses() []string            { return nil }
func (f *vfC03Redis) NewBatcher(bool) common.CmdBatcher {
	return nil
}
func (f *vfC03Redis) NewTxnBatcher() common.CmdBatcher { return nil }
func (f *vfC03Redis) IterateNodes(func(string, interface{}, error), string, ...interface{}) {
}

// ---- ChannelReader over a byte slice

type vfC03Reader struct {
	data []byte
	rd   *bufio.Reader
}

func (r *vfC03Reader) Start(wait usync.WaitCloser) {}
func (r *vfC03Reader) Left() int64                { return 5000 }
func (r *vfC03Reader) RunId() string              { return "vfc03runid" }
func (r *vfC03Reader) Size() int64                { return int64(len(r.data)) + 1 }
func (r *vfC03Reader) IoReader() *bufio.Reader    { return r.rd }
func (r *vfC03Reader) IsAof() bool                { return false }
func (r *vfC03Reader) Close()                     {}

type vfC03Cfg struct {
	thr     int
	tgt     int
	minor   int // target minor version (6.2: XGROUP CREATECONSUMER exists)
	fnex    int
	modaux  bool
	restore bool
	bulk    int
	par     int
	tdb     int
	dbmap   map[int]int
	now     uint64
	tick    int // ms of virtual time per request (0 = the clock stands still)
	rht     bool // ReplaceHashTag
	flt     *vfc03.FilterSpec
	vform   int // how cfg.Redis.Version is written: 0 "M.m.0", 1 "M.m", 2 "M" (minor 0 only), 3 "M.m.14"
}

// verStr: the configured target version string (the code compares components with util.VersionGE; a missing
// component counts as 0)
func (c vfC03Cfg) verStr() string {
	switch c.vform {
	case 1:
		return fmt.Sprintf("%d.%d", c.tgt, c.minor)
	case 2:
		if c.minor == 0 {
			return strconv.Itoa(c.tgt)
		}
	case 3:
		return fmt.Sprintf("%d.%d.14", c.tgt, c.minor)
	}
	return fmt.Sprintf("%d.%d.0", c.tgt, c.minor)
}

func (c vfC03Cfg) dbmapStr() string {
	if len(c.dbmap) == 0 {
		return "-"
	}
	var ks []int
	for k := range c.dbmap {
		ks = append(ks, k)
	}
	sort.Ints(ks)
	var p []string
	for _, k := range ks {
		p = append(p, fmt.Sprintf("%d>%d", k, c.dbmap[k]))
	}
	return strings.Join(p, ",")
}

func b2i(b bool) int {
	if b {
		return 1
	}
	return 0
}

// tgtTok: the target version token of the ops ("7", "6.2")
func (c vfC03Cfg) tgtTok() string {
	if c.minor == 0 {
		return strconv.Itoa(c.tgt)
	}
	return fmt.Sprintf("%d.%d", c.tgt, c.minor)
}

func (c vfC03Cfg) String() string {
	f := c.flt
	if f == nil {
		f = &vfc03.FilterSpec{}
	}
	return fmt.Sprintf("%d %s %d %d %d %d %d %d %s %d %d %d %s", c.thr, c.tgtTok(), c.fnex, b2i(c.modaux), b2i(c.restore), c.bulk, c.par, c.tdb, c.dbmapStr(), c.now, c.tick, b2i(c.rht), f.Tokens())
}

// filterConfig is the configuration handed to the real RedisOutput.
func (c vfC03Cfg) filterConfig() config.FilterConfig {
	fc := config.FilterConfig{}
	f := c.flt
	if f == nil {
		return fc
	}
	fc.DbBlacklist = append(fc.DbBlacklist, f.DbBlack...)
	if len(f.PBlack) > 0 || len(f.PWhite) > 0 {
		kf := &config.FilterKeyConfig{}
		for _, p := range f.PBlack {
			kf.PrefixKeyBlacklist = append(kf.PrefixKeyBlacklist, string(p))
		}
		for _, p := range f.PWhite {
			kf.PrefixKeyWhitelist = append(kf.PrefixKeyWhitelist, string(p))
		}
		fc.KeyFilter = kf
	}
	if len(f.SBlack) > 0 || len(f.SWhite) > 0 {
		sf := &config.FilterSlotConfig{}
		for _, r := range f.SBlack {
			sf.KeySlotBlacklist = append(sf.KeySlotBlacklist, []uint16{uint16(r[0]), uint16(r[1])})
		}
		for _, r := range f.SWhite {
			sf.KeySlotWhitelist = append(sf.KeySlotWhitelist, []uint16{uint16(r[0]), uint16(r[1])})
		}
		fc.SlotFilter = sf
	}
	return fc
}

func (c vfC03Cfg) mapDB(db int) int {
	if c.tdb != -1 {
		return c.tdb
	}
	if t, ok := c.dbmap[db]; ok {
		return t
	}
	return db
}

// dstKey: the key an entry is replayed to (ReplaceHashTag removes the first '{' and the first '}')
func (c vfC03Cfg) dstKey(k []byte) []byte {
	if !c.rht {
		return k
	}
	k = bytes.Replace(k, []byte("{"), nil, 1)
	return bytes.Replace(k, []byte("}"), nil, 1)
}

type vfC03Pre struct {
	db  int
	key []byte
	val *vfc03.Val
}

// vfC03Send runs the real sendRdb on data in a synctest bubble.
// the bubble starts at 2000-01-01 00:00:00 UTC; the replay starts at an odd millisecond
const vfC03Epoch = 946684800000
const vfC03Now = vfC03Epoch + 123457

func vfC03Send(t *testing.T, data []byte, c vfC03Cfg, pre []vfC03Pre) (tg *vfc03.Target, conns []*vfc03.Conn, wireErr []string, err error) {
	old := rdb.VerifSetMaxBinEntryBuffer(c.thr)
	defer rdb.VerifSetMaxBinEntryBuffer(old)
	synctest.Test(t, func(t *testing.T) {
		tg = vfc03.NewTarget()
		tg.Major = c.tgt
		tg.Minor = c.minor
		tg.Now = func() int64 { return time.Now().UnixMilli() }
		tg.TickMs = int64(c.tick)
		if c.tick > 0 {
			tg.Tick = func() { time.Sleep(time.Duration(c.tick) * time.Millisecond) }
		}
		for _, p := range pre {
			tg.Put(p.db, p.key, p.val)
		}
		policy := config.ModuleAuxPolicySkip
		if c.modaux {
			policy = config.ModuleAuxPolicyFail
		}
		ro := NewRedisOutput(RedisOutputConfig{
			InputName:              "vfc03",
			CheckpointName:         "redis-gunyu-checkpoint:vfc03",
			TargetDb:               c.tdb,
			TargetDbMap:            c.dbmap,
			KeyExists:              "replace",
			ReplaceHashTag:         c.rht,
			FunctionExists:         []string{"replace", "flush", "append"}[c.fnex],
			ModuleAuxPolicy:        policy,
			MaxProtoBulkLen:        c.bulk,
			ReplayRdbParallel:      c.par,
			ReplayRdbEnableRestore: c.restore,
			BatchTicker:            time.Hour,
			KeepaliveTicker:        time.Hour,
			UpdateCheckpointTicker: time.Hour,
			Filter:                 c.filterConfig(),
			Redis: config.RedisConfig{
				Type:    config.RedisTypeStandalone,
				Version: c.verStr(),
			},
		})
		ro.newRedisConn = func(context.Context) (redisclient.Redis, error) {
			cn := tg.NewConn()
			tgMu.Lock()
			conns = append(conns, cn)
			tgMu.Unlock()
			return &vfC03Redis{c: cn, wireErr: &wireErr}, nil
		}
		time.Sleep(time.Duration(c.now-vfC03Epoch) * time.Millisecond)
		if uint64(time.Now().UnixMilli()) != c.now {
			t.Fatalf("bubble clock %d != %d", time.Now().UnixMilli(), c.now)
		}
		rd := &vfC03Reader{data: data, rd: bufio.NewReader(bytes.NewReader(data))}
		err = ro.sendRdb(context.Background(), rd)
	})
	return
}

var tgMu sync.Mutex

// canonical order of the worker logs: sorted by their rendered content
func vfC03Logs(conns []*vfc03.Conn) []string {
	var joined []string
	for _, c := range conns {
		joined = append(joined, strings.Join(c.Log, "\n"))
	}
	sort.Strings(joined)
	var out []string
	for i, j := range joined {
		if j == "" {
			continue
		}
		for _, l := range strings.Split(j, "\n") {
			out = append(out, fmt.Sprintf("w%d %s", i, l))
		}
	}
	return out
}

func vfC03TTL(now, exp uint64) int64 {
	if exp == 0 {
		return 0
	}
	if now >= exp {
		return 1
	}
	return int64(exp - now)
}

func TestVerifC03Replay(t *testing.T) {
	s := vfutil.NewSession("C03replay")
	defer s.Close()
	r := vfutil.NewRand(vfutil.Seed() + 77)
	idx := 0
	top := func(name, rest string, out []string) {
		tagged := make([]string, len(out))
		for i, l := range out {
			tagged[i] = fmt.Sprintf("#%d %s", idx, l)
		}
		s.Op(fmt.Sprintf("%s %d %s", name, idx, rest), tagged...)
		idx++
	}
	const now = vfC03Now

	type kase struct {
		ds   *vfc03.Dataset
		cfg  vfC03Cfg
		pre  []vfC03Pre
		src  string
		desc string
	}
	var cases []kase

	randCfg := func(ds *vfc03.Dataset) vfC03Cfg {
		c := vfC03Cfg{thr: vfutil.Pick(r, []int{1, 20, 100, 16 << 20}), tgt: vfutil.Pick(r, []int{4, 5, 6, 7, 8}),
			fnex: r.Intn(3), modaux: r.Bool(), restore: r.Bool(), bulk: vfutil.Pick(r, []int{30, 120, 512 << 20}),
			par: r.Range(1, 4), tdb: -1, now: now}
		if c.tgt == 6 && r.Bool() {
			c.minor = 2
		}
		if c.tgt >= 7 && r.Chance(1, 3) {
			c.minor = 2 // 7.2 / 8.2: no gate lies there, the comparison must still say ">= 7", ">= 6.2"
		}
		c.vform = r.Intn(4)
		if r.Chance(1, 2) {
			// a clock that advances with every request (one lane, so that the instant each
			// entry's replay starts is a function of the request count)
			c.par, c.tick = 1, 1
		}
		if r.Chance(1, 6) {
			c.tdb = r.Intn(4)
		}
		if r.Chance(1, 3) {
			c.dbmap = map[int]int{}
			for _, k := range ds.Keys {
				if r.Chance(1, 2) {
					c.dbmap[k.DB] = r.Intn(12)
				}
			}
			if r.Chance(1, 2) {
				c.dbmap[0] = r.Intn(12)
			}
		}
		return c
	}
	// output filter: mostly aimed at keys of the dataset, preferably at the first key of a DB
	randFilter := func(ds *vfc03.Dataset) *vfc03.FilterSpec {
		f := &vfc03.FilterSpec{}
		if len(ds.Keys) == 0 || r.Chance(2, 5) {
			return f
		}
		var firsts []vfc03.ExpKey
		seen := map[int]bool{}
		for _, k := range ds.Keys {
			if !seen[k.DB] {
				seen[k.DB] = true
				firsts = append(firsts, k)
			}
		}
		pickKey := func() vfc03.ExpKey {
			if r.Bool() {
				return vfutil.Pick(r, firsts)
			}
			return vfutil.Pick(r, ds.Keys)
		}
		prefix := func() []byte {
			k := pickKey().Key
			if len(k) == 0 {
				return []byte("zz") // "" has no non-empty prefix
			}
			n := r.Range(1, vfutil.Min(3, len(k)))
			return append([]byte{}, k[:n]...)
		}
		if r.Chance(1, 5) {
			f.DbBlack = append(f.DbBlack, vfutil.Pick(r, ds.Keys).DB)
		}
		if r.Chance(1, 3) {
			for i := 0; i < r.Range(1, 2); i++ {
				f.PBlack = append(f.PBlack, prefix())
			}
		}
		if r.Chance(1, 6) {
			for i := 0; i < r.Range(1, 4); i++ {
				f.PWhite = append(f.PWhite, prefix())
			}
		}
		around := func() [2]int {
			sl := vfc03.HashSlot(pickKey().Key)
			return [2]int{vfutil.Max(0, sl-r.Intn(20)), vfutil.Min(16383, sl+r.Intn(20))}
		}
		if r.Chance(1, 4) {
			for i := 0; i < r.Range(1, 2); i++ {
				f.SBlack = append(f.SBlack, around())
			}
		}
		if r.Chance(1, 6) {
			for i := 0; i < r.Range(1, 3); i++ {
				f.SWhite = append(f.SWhite, around())
			}
			if r.Bool() {
				f.SWhite = append(f.SWhite, [2]int{0, r.Range(4000, 12000)})
			}
		}
		return f
	}
	randPre := func(ds *vfc03.Dataset, c vfC03Cfg) []vfC03Pre {
		var pre []vfC03Pre
		for _, k := range ds.Keys {
			if k.Kind == "stream" && r.Chance(1, 3) {
				// the re-sync case: the key already holds a STREAM whose last id lies above the
				// snapshot's, with a group and a pending entry - a missed DEL shows as XADD "equal or
				// smaller" / BUSYGROUP / surviving entries
				top := fmt.Sprintf("%d-7", uint64(1)<<63+uint64(r.Intn(1000)))
				pre = append(pre, vfC03Pre{c.mapDB(k.DB), c.dstKey(k.Key), &vfc03.Val{Kind: "stream", Stream: &vfc03.StreamVal{
					Entries: []vfc03.SEntry{{ID: top, Fields: [][]byte{[]byte("old"), []byte("entry")}}}, LastID: top,
					Groups: []vfc03.SGroup{{Name: []byte("oldgroup"), LastID: top, Consumers: [][]byte{[]byte("oldc")},
						Pel: []vfc03.SNack{{ID: top, Consumer: []byte("oldc"), Time: "946684000000", Count: "1"}}}}}}})
				s.Count("pre_existing_stream_with_group_at_a_stream_key")
				continue
			}
			if r.Chance(1, 4) {
				v := &vfc03.Val{Kind: "string", Str: []byte("old")}
				if r.Bool() {
					v = &vfc03.Val{Kind: "list", List: [][]byte{[]byte("o1"), []byte("o2")}, TTL: 5555, ExpAt: 5555}
				}
				pre = append(pre, vfC03Pre{c.mapDB(k.DB), c.dstKey(k.Key), v})
			}
		}
		if r.Chance(1, 3) {
			pre = append(pre, vfC03Pre{r.Intn(3), []byte("unrelated-" + fmt.Sprint(r.Intn(100))), &vfc03.Val{Kind: "string", Str: []byte("keep")}})
		}
		return pre
	}

	// ---- corpus: "l2 <cfg… now tick rht> <5 filter tokens> <npre> (<db> <hexkey>)* FILE" (pre-existing keys are strings "old")
	for _, l := range append(vfc03.ReplayOps(), vfutil.Corpus("C03")...) {
		f := strings.Fields(l)
		if len(f) < 20 || f[0] != "l2" {
			continue
		}
		var c vfC03Cfg
		var ma, re, npre int
		var dm string
		var tgtTok string
		fmt.Sscanf(strings.Join(f[1:11], " "), "%d %s %d %d %d %d %d %d %s %d", &c.thr, &tgtTok, &c.fnex, &ma, &re, &c.bulk, &c.par, &c.tdb, &dm, &c.now)
		if p := strings.SplitN(tgtTok, ".", 2); len(p) == 2 {
			c.tgt, _ = strconv.Atoi(p[0])
			c.minor, _ = strconv.Atoi(p[1])
		} else {
			c.tgt, _ = strconv.Atoi(tgtTok)
		}
		fmt.Sscanf(f[11], "%d", &c.tick)
		c.rht = f[12] == "1"
		flt, ferr := vfc03.ParseFilter(f[13:18])
		if ferr != nil {
			t.Fatalf("corpus line: %v: %q", ferr, l)
		}
		c.flt = flt
		fmt.Sscanf(f[18], "%d", &npre)
		c.modaux, c.restore = ma == 1, re == 1
		if dm != "-" {
			c.dbmap = map[int]int{}
			for _, p := range strings.Split(dm, ",") {
				var a, b int
				fmt.Sscanf(p, "%d>%d", &a, &b)
				c.dbmap[a] = b
			}
		}
		var pre []vfC03Pre
		for i := 0; i < npre; i++ {
			var db int
			fmt.Sscanf(f[19+2*i], "%d", &db)
			pre = append(pre, vfC03Pre{db, vfutil.UnHex(f[20+2*i]), &vfc03.Val{Kind: "string", Str: []byte("old")}})
		}
		cases = append(cases, kase{ds: nil, cfg: c, pre: pre, src: "corpus", desc: strings.Join(f[19+2*npre:], " ")})
	}

	g := vfc03.NewGen(r.Fork())
	n := vfutil.Scale(220, 4400)
	for i := 0; i < n; i++ {
		force := 0
		if i%3 == 1 {
			force = i/3 + 1 // every third file draws one of the forced degenerate-but-legal shapes, in turn
		}
		ds := g.File(vfc03.FileOpts{MaxKeys: 6, Now: now, MultiDB: true, Reserved: true, Modules: true, Force: force, NearExpiry: i%4 == 2,
			Huge: i == n/2 || (vfutil.Thorough() && i%500 == 7),
			Many: map[int]string{n/3: "slpmany", 2*n/3: "hlpmany"}[i], Tagged: i%8 == 3, Streams: i%5 == 1, Versions: []int{6, 7, 8, 9, 10, 11, 12, 13}})
		c := randCfg(ds)
		c.flt = randFilter(ds)
		if r.Chance(1, 4) || i%8 == 3 {
			// ReplaceHashTag, when the rewritten keys stay distinct per target DB
			c.rht = true
			seen := map[string]bool{}
			for _, k := range ds.Keys {
				id := fmt.Sprintf("%d/%s", c.mapDB(k.DB), c.dstKey(k.Key))
				if seen[id] {
					c.rht = false
				}
				seen[id] = true
			}
		}
		if i%4 == 2 {
			// keys that expire while the replay runs: keep one snapshot key per target cell (the model's
			// existence table does not know that an earlier key of the same cell has expired meanwhile)
			seen := map[string]bool{}
			for _, k := range ds.Keys {
				id := fmt.Sprintf("%d/%s", c.mapDB(k.DB), c.dstKey(k.Key))
				if seen[id] {
					c.tick = 0
				}
				seen[id] = true
			}
			if c.tick == 0 && r.Chance(2, 3) && len(seen) == len(ds.Keys) {
				c.par, c.tick = 1, 1
			}
			c.thr = vfutil.Pick(r, []int{1, 1, 20, 100}) // the first key is a hash table: split it
		}
		if ds.Many {
			c.tick = 0 // tens of thousands of requests: keep later keys' expiries ahead of the clock
			c.restore = false
		}
		cases = append(cases, kase{ds: ds, cfg: c, pre: randPre(ds, c), src: "gen", desc: ds.Desc})
	}
	maxDrift := int64(0)
	defer func() { s.Add("max_expiry_lateness_ms", int(maxDrift)) }()
	descs := make([]string, len(cases))
	for i, k := range cases {
		descs[i] = k.desc
	}
	outs, err := vfc03.Encode(descs)
	if err != nil {
		t.Fatalf("encode: %v", err)
	}
	for i, k := range cases {
		o := outs[i]
		if (o.Bad || o.File == nil) && k.src == "corpus" {
			// a replayed / recorded input that is not a well-formed dataset (e.g. stream ids not
			// increasing): nothing to judge
			s.Count("corpus_or_replay_not_wellformed")
			t.Logf("not a well-formed dataset description, skipped: %.200s", k.desc)
			continue
		}
		if o.Bad || o.File == nil {
			t.Fatalf("description rejected by the encoder: %s", k.desc)
		}
		c := k.cfg
		tg, conns, wireErr, err := vfC03Send(t, o.File, c, k.pre)
		for _, w := range wireErr {
			s.Violate("float-wire-text", w, map[string]interface{}{"desc": k.desc})
		}
		var preTok []string
		for _, p := range k.pre {
			preTok = append(preTok, fmt.Sprint(p.db), vfutil.Hex(p.key))
		}
		rest := fmt.Sprintf("%s %d %s", c.String(), len(k.pre), strings.TrimSpace(strings.Join(preTok, " ")+" "+k.desc))
		rest = strings.Join(strings.Fields(rest), " ")
		var lines []string
		if err != nil {
			lines = []string{"result err"}
		} else {
			lines = append(vfC03Logs(conns), "result ok")
		}
		top("l2", rest, lines)
		s.Count("l2_" + k.src)
		s.Count(fmt.Sprintf("par_%d", c.par))
		s.Count(fmt.Sprintf("restore_%d", b2i(c.restore)))
		s.Count(fmt.Sprintf("tick_%d", c.tick))
		s.Count(fmt.Sprintf("rht_%d", b2i(c.rht)))
		c.flt.RHT = c.rht // the monitor's filter decision looks at the TARGET key too (/repo e867911)
		// ---- dimension audit (session 5): one counter per option value that selects a branch
		s.Count(fmt.Sprintf("cfg_maxBinEntryBuffer_%d", c.thr))
		s.Count("cfg_targetVersion_" + c.tgtTok())
		s.Count(fmt.Sprintf("cfg_targetVersionForm_%d", c.vform))
		s.Count("cfg_functionExists_" + []string{"replace", "flush", "append"}[c.fnex])
		s.Count(fmt.Sprintf("cfg_moduleAuxPolicyFail_%d", b2i(c.modaux)))
		s.Count(fmt.Sprintf("cfg_replayRdbEnableRestore_%d", b2i(c.restore)))
		s.Count(fmt.Sprintf("cfg_maxProtoBulkLen_%d", c.bulk))
		s.Count(fmt.Sprintf("cfg_replayRdbParallel_%d", c.par))
		s.Count(fmt.Sprintf("cfg_replaceHashTag_%d", b2i(c.rht)))
		s.Count(fmt.Sprintf("cfg_targetDb_set_%d", b2i(c.tdb >= 0)))
		s.Count(fmt.Sprintf("cfg_targetDbMap_set_%d", b2i(len(c.dbmap) > 0)))
		s.Count(fmt.Sprintf("cfg_filter_dbBlacklist_%d", b2i(len(c.flt.DbBlack) > 0)))
		s.Count(fmt.Sprintf("cfg_filter_prefixBlack_%d", b2i(len(c.flt.PBlack) > 0)))
		s.Count(fmt.Sprintf("cfg_filter_prefixWhite_%d", b2i(len(c.flt.PWhite) > 0)))
		s.Count(fmt.Sprintf("cfg_filter_slotBlack_%d", b2i(len(c.flt.SBlack) > 0)))
		s.Count(fmt.Sprintf("cfg_filter_slotWhite_%d", b2i(len(c.flt.SWhite) > 0)))
		s.Count("cfg_keyExists_replace") // ignore / error: C20's subject (the property fixes replace)
		s.Count("cfg_redisType_standalone")
		if k.ds != nil {
			for _, d := range k.ds.Dims {
				s.Count("dim_forced_" + d)
			}
			if k.ds.Functions > 0 {
				s.Count("dim_function_libraries")
				s.Add("function_library_items", k.ds.Functions)
				// monitor: without an output filter every function library reaches a 7+ target as ONE
				// FUNCTION RESTORE with the policy's option word, and nothing reaches an older target
				noFilter := len(c.flt.DbBlack)+len(c.flt.PBlack)+len(c.flt.PWhite)+len(c.flt.SBlack)+len(c.flt.SWhite) == 0
				if frp := (map[string]interface{}{"op": "l2 " + rest}); noFilter && err == nil {
					wantN := 0
					if c.tgt >= 7 {
						wantN = k.ds.Functions
					}
					if len(tg.Funcs) != wantN {
						s.Violate("function-libraries", fmt.Sprintf("%d function libraries in the snapshot, target %s got %d FUNCTION requests", k.ds.Functions, c.tgtTok(), len(tg.Funcs)), frp)
					}
					// (the log renders arguments in hex)
					hxw := func(w string) string { return " " + vfutil.Hex([]byte(w)) }
					word := []string{hxw("REPLACE"), hxw("FLUSH"), ""}[c.fnex]
					for _, f := range tg.Funcs {
						up := strings.ToLower(f)
						if !strings.HasPrefix(up, "function"+hxw("RESTORE")+" ") || (word != "" && !strings.HasSuffix(up, word)) ||
							(word == "" && (strings.HasSuffix(up, hxw("REPLACE")) || strings.HasSuffix(up, hxw("FLUSH")))) {
							s.Violate("function-libraries", fmt.Sprintf("policy %d: request %.80s", c.fnex, f), frp)
						}
					}
				}
			}
		}
		s.Add("restore_bad_data_format_fallbacks", tg.BadFormat)
		// observation, not a verdict: pending ids whose entry is gone cannot be recreated by commands
		s.Add("xclaim_for_an_id_that_is_not_an_entry_of_the_stream(no_pending_entry_created)", tg.XclaimNoEntry)
		s.Add("xclaim_time_above_target_clock_clamped", tg.XclaimClamped)
		s.Add("keys_removed_by_the_target_clock_reaching_their_expiry", tg.ExpiredByClock)
		if len(o.File) > 1<<20 {
			s.Count("files_over_1MiB")
		} else if len(o.File) > 16384 {
			s.Count("files_over_16KiB")
		}
		replay := map[string]interface{}{"op": "l2 " + rest}
		// ---------------- monitor: the property itself, on the real code's output
		// a module value can only travel as a RESTORE payload, module aux data is refused under the
		// `fail` policy: those syncs are expected to end in an error (by design of the tool)
		expectFail := false
		if k.ds != nil {
			if k.ds.ModuleAux && c.modaux {
				expectFail = true
			}
			for j, ek := range k.ds.Keys {
				if ek.Kind == "mod2" && !c.flt.DbFiltered(ek.DB) && !c.flt.KeyFiltered(ek.Key) &&
					(!c.restore || 1+len(o.Keys[j].Ser)+10 > c.bulk) {
					expectFail = true
				}
			}
		}
		if expectFail {
			s.Count("expected_failures")
			if err == nil {
				s.Violate("module-sync-succeeded", "a snapshot with a module value that cannot be RESTOREd / refused module aux data was replayed without error", replay)
			}
			continue
		}
		if err != nil {
			s.Violate("full-sync-failed", fmt.Sprintf("sendRdb failed on a well-formed snapshot: %v", firstLine(err.Error())), replay)
			continue
		}
		if len(tg.Errors) > 0 {
			s.Violate("target-error-reply", "the target answered an error: "+tg.Errors[0], replay)
		}
		if k.ds == nil {
			// corpus case: expectation from the encoder's key list only (payload / presence)
			for _, m := range o.Keys {
				if c.flt.DbFiltered(m.DB) || c.flt.KeyFiltered(m.Key) {
					if _, ok := tg.DBs[c.mapDB(m.DB)][string(c.dstKey(m.Key))]; ok {
						s.Violate("filtered-key-written", fmt.Sprintf("filtered key %x present in db %d", m.Key, c.mapDB(m.DB)), replay)
					}
					continue
				}
				if vfC03TTL(c.now, m.ExpireAt) == 1 {
					continue
				}
				if _, ok := tg.DBs[c.mapDB(m.DB)][string(c.dstKey(m.Key))]; !ok {
					s.Violate("key-missing", fmt.Sprintf("key %x missing in db %d", m.Key, c.mapDB(m.DB)), replay)
				}
			}
			continue
		}
		want := map[string]string{}
		wantNoIdle := map[string]string{} // streams: the same without the consumers that own no pending entry
		for _, p := range k.pre {
			want[fmt.Sprintf("%d/%s", p.db, vfutil.Hex(p.key))] = p.val.Canon()
		}
		// the streams as the replay left them, before the monitor's normalisation blanks what the
		// property does not name (svv op: compared verbatim with the Lean denotation StreamE.xval)
		ordered := map[int]string{}
		lastOf := map[string]int{} // target cell -> the last snapshot key replayed to it (a DB map may merge DBs)
		for j, ek := range k.ds.Keys {
			if c.flt.DbFiltered(ek.DB) || c.flt.KeyFiltered(ek.Key) {
				continue
			}
			lastOf[fmt.Sprintf("%d/%s", c.mapDB(ek.DB), c.dstKey(ek.Key))] = j
		}
		for j, ek := range k.ds.Keys {
			if lastOf[fmt.Sprintf("%d/%s", c.mapDB(ek.DB), c.dstKey(ek.Key))] != j {
				continue
			}
			if v := tg.DBs[c.mapDB(ek.DB)][string(c.dstKey(ek.Key))]; v != nil && v.Kind == "stream" {
				ordered[j] = vfc03.OrderedStream(v.Stream)
			}
		}
		for _, ek := range k.ds.Keys {
			v := tg.DBs[c.mapDB(ek.DB)][string(c.dstKey(ek.Key))]
			vfc03.NormalizeStream(ek.Val, v, c.tgt, c.minor)
			if c.flt.DbFiltered(ek.DB) || c.flt.KeyFiltered(ek.Key) {
				continue
			}
			// C03: the key carries the source's absolute expiry. The expiry a request establishes on
			// the target (target clock at the request + TTL, or the absolute time of PEXPIREAT /
			// RESTORE ABSTTL) may be late by at most the time the entry's own requests had taken
			// (`Allow`), never early (3 ms of accounting slack either way).
			if v != nil && ek.ExpireAt != 0 && v.ExpAt != 0 {
				drift := v.ExpAt - int64(ek.ExpireAt)
				if drift >= -3 && drift <= v.Allow+3 {
					if drift > maxDrift {
						maxDrift = drift
					}
					v.ExpAt = int64(ek.ExpireAt)
				}
			}
		}
		got := map[string]string{}
		for _, l := range tg.Snapshot() {
			p := strings.SplitN(l, " ", 2)
			got[p[0]] = p[1]
		}
		for j, ek := range k.ds.Keys {
			s.Count("kind_" + ek.Kind)
			s.Distinct(ek.Kind + "/" + fmt.Sprint(len(ek.Val.Canon())%97))
			dk := c.dstKey(ek.Key)
			id := fmt.Sprintf("%d/%s", c.mapDB(ek.DB), vfutil.Hex(dk))
			if c.flt.DbFiltered(ek.DB) || c.flt.KeyFiltered(ek.Key) {
				// filtered out: must not reach the target (a pre-existing key stays as it was)
				s.Count("filtered_keys")
				if j == 0 || k.ds.Keys[j-1].DB != ek.DB {
					s.Count("filtered_first_of_db")
				}
				continue
			}
			s.Count("replayed_keys")
			ttl := vfC03TTL(c.now, ek.ExpireAt)
			if ttl != 1 && ek.ExpireAt != 0 && int64(ek.ExpireAt) <= tg.LastClock+2 {
				// (+2: a key with ONE millisecond left when its expiry is set gets `PEXPIRE 1`, which the double's
				// logical clock reads as "expires at once" - the same convention as for keys already past)
				// the key's expiry was reached WHILE the replay ran (clock advancing with every request): it
				// must be gone or be left with an expiry that has passed - never persistent, never later
				s.Count("keys_expiring_during_the_replay")
				delete(want, id)
				if v := tg.DBs[c.mapDB(ek.DB)][string(dk)]; v != nil {
					if v.TTL == 1 || (v.ExpAt != 0 && v.ExpAt <= tg.LastClock+3) {
						delete(got, id)
					} else {
						s.Violate("expired-key-survives", fmt.Sprintf("%s expires at %d, the replay ended at %d, the target holds it with expiry %d", id, ek.ExpireAt, tg.LastClock, v.ExpAt), replay)
						delete(got, id)
					}
				}
				continue
			}
			if ttl == 1 {
				// already past its expiry: must not survive the sync
				delete(want, id)
				s.Count("expired_keys")
				continue
			}
			v := tg.DBs[c.mapDB(ek.DB)][string(dk)]
			if v != nil && v.Kind == "restored" {
				s.Count("path_restore")
				m := o.Keys[j]
				body := append(append([]byte{byte(m.Type)}, m.Ser...), 6, 0)
				crc := vfc03.Crc64(body)
				for b := 0; b < 8; b++ {
					body = append(body, byte(crc>>(8*uint(b))))
				}
				exp := &vfc03.Val{Kind: "restored", Payload: body, ExpAt: int64(ek.ExpireAt)}
				if c.tgt >= 5 {
					if ek.Idle != 0 {
						exp.Idle = strconv.Itoa(ek.Idle)
					}
					if ek.Freq != 0 {
						exp.Freq = strconv.Itoa(ek.Freq)
					}
				}
				want[id] = exp.Canon()
			} else {
				s.Count("path_expand")
				e := *ek.Val
				e.ExpAt = int64(ek.ExpireAt)
				want[id] = e.Canon()
				if ek.Kind == "stream" {
					alt := *e.Stream
					alt.Groups = append([]vfc03.SGroup{}, alt.Groups...)
					for gi := range alt.Groups {
						alt.Groups[gi].Consumers = alt.Groups[gi].ConsumersWithPending
					}
					e.Stream = &alt
					wantNoIdle[id] = e.Canon()
				}
				// streams: the logical value the THEOREM ends in (Lean StreamE.xval, stream_roundtrip /
				// full_sync_streams) against what the real replay left in the target double - entries,
				// last id, counters, groups in creation order, pending entries in XCLAIM order ("svv" op)
				if ek.Kind == "stream" && v != nil && v.Kind == "stream" {
					for _, cn := range ek.Val.Shape.Counters() {
						s.Count("replayed_" + cn)
					}
					if _, mine := ordered[j]; !mine {
						s.Count("stream_cell_overwritten_by_later_key")
					} else if o.Keys[j].Sound {
						top("svv", fmt.Sprintf("%s %s", c.tgtTok(), ek.ObjDesc), []string{"val " + ordered[j]})
						s.Count("svv_stream_values_vs_spec")
					} else {
						s.Count("stream_not_sound_skipped")
					}
				}
			}
		}
		for id, w := range want {
			if gv, ok := got[id]; !ok {
				s.Violate("key-missing", "snapshot key not on the target: "+id, replay)
			} else if alt, ok := wantNoIdle[id]; gv != w && ok && gv == alt {
				// everything is there except consumers with an EMPTY pending list: no XGROUP CREATECONSUMER reached
				// a 6.2+ target (was known finding C03-F1 `stream-idle-consumer-dropped`, repaired in /repo ecb288f:
				// since then this is an ordinary violation, reported under a name the old finding does not match)
				rp := map[string]interface{}{"op": replay["op"], "cause": "consumer-with-empty-pel-not-recreated-on-expansion-path"}
				s.Violate("stream-idle-consumer-missing", fmt.Sprintf("%s: target has %.300s, dataset has %.300s", id, gv, w), rp)
			} else if gv != w {
				s.Violate("value-differs", fmt.Sprintf("%s: target has %.300s, dataset has %.300s", id, gv, w), replay)
			}
		}
		for id := range got {
			if _, ok := want[id]; !ok {
				s.Violate("extra-key", "target has a key the dataset does not: "+id, replay)
			}
		}
		wantScripts := len(k.ds.Scripts)
		if c.flt.DbFiltered(0) || c.flt.KeyFiltered([]byte("lua")) {
			wantScripts = 0 // the aux field "lua" goes through the same filter (DB 0, key "lua")
		}
		if wantScripts != len(tg.Scripts) {
			s.Violate("scripts", fmt.Sprintf("%d lua scripts expected, %d loaded", wantScripts, len(tg.Scripts)), replay)
		}
	}
}

func firstLine(s string) string {
	if i := strings.IndexByte(s, '\n'); i >= 0 {
		s = s[:i]
	}
	if len(s) > 200 {
		s = s[:200]
	}
	return s
}
