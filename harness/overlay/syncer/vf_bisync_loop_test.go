//go:build verif

package syncer

// Shared helper (C13, C14, C18): run the REAL bidirectional send loop —
// RedisOutput.sendAofBisync = parseAofReplayUnits + sendBisyncSync /
// sendBisyncPipeline / sendBisyncParallel (whichever ro.cfg.ReplayMode selects)
// — over an encoded replication stream, inside a testing/synctest bubble.

import (
	"bufio"
	"context"
	"io"
	"testing"
	"testing/synctest"
	"time"

	"github.com/mgtv-tech/redis-GunYu/pkg/redis/client"
	"github.com/mgtv-tech/redis-GunYu/pkg/redis/client/conn"
	"github.com/mgtv-tech/redis-GunYu/pkg/vfdoubles"
)

// vfBisyncLoopRun feeds `wire` (bytes of the source stream from startOffset) to
// ro.sendAofBisync and returns what the loop returned plus the requests the
// target double received during the run (MULTI blocks = unit commits,
// stand-alone requests = frontier HSET / journal DEL / index ZREM …).
//
//   - ro.newRedisConn is set to real RedisConns over tg.Dial() unless the
//     caller has already set it.
//   - settle >= 0: once parser, sender and receiver are durably blocked with the
//     whole wire consumed, `settle` of virtual time passes (lets the 100 ms
//     frontier ticker fire), then the pipe is closed (the parser sees EOF with
//     nothing buffered, so no unit is lost) and the context cancelled.
//   - settle < 0: the pipe is closed as soon as the wire has been written; the
//     loop ends on its own (final coordinator.flush() included). Units still
//     buffered between parser and sender at that instant may be dropped by the
//     code (EOF closes the wait group), exactly as at a source disconnect.
//   - ro.bisyncSeq / ro.bisyncOffset are left as the loop set them, so a second
//     call continues like a restart without a new StartPoint.
//   - fault injection: tg.FailAt / tg.CutAt / tg.Hook as usual.
func vfBisyncLoopRun(t *testing.T, ro *RedisOutput, tg *vfdoubles.Target, runID string, wire []byte,
	startOffset int64, settle time.Duration) (retErr error, newLog []vfdoubles.LogEntry) {
	n0 := tg.LogLen()
	synctest.Test(t, func(t *testing.T) {
		if ro.newRedisConn == nil {
			rc := ro.cfg.Redis
			ro.newRedisConn = func(ctx context.Context) (client.Redis, error) {
				return conn.VerifNewRedisConn(tg.Dial(), rc), nil
			}
			defer func() { ro.newRedisConn = nil }()
		}
		ctx, cancel := context.WithCancel(context.Background())
		defer cancel()
		pr, pw := io.Pipe()
		done := make(chan error, 1)
		go func() {
			done <- ro.sendAofBisync(ctx, runID, bufio.NewReaderSize(pr, 4096), startOffset, 0)
		}()
		wrote := make(chan struct{})
		go func() {
			defer close(wrote)
			if len(wire) > 0 {
				pw.Write(wire)
			}
			if settle < 0 {
				pw.Close()
			}
		}()
		if settle < 0 {
			retErr = <-done
		} else {
			synctest.Wait()
			if settle > 0 {
				time.Sleep(settle)
				synctest.Wait()
			}
			select {
			case retErr = <-done: // the loop stopped by itself (error)
			default:
				pw.Close()
				retErr = <-done
			}
			cancel()
		}
		pr.Close() // releases a writer still blocked because the loop stopped early
		<-wrote
		synctest.Wait()
		tg.CloseAll()
	})
	log := tg.LogCopy()
	if n0 > len(log) {
		n0 = len(log)
	}
	return retErr, log[n0:]
}
