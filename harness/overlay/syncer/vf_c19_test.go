//go:build verif

package syncer

// C19 (sender side): the REAL RedisOutput.sendAof / sendCmdsBatch with a cluster
// target configuration — client.NewRedis(clusterCfg) connected to the cluster
// double (pkg/vfdoubles/cluster.go) — in transactional and plain mode, blocking
// and pipelined, on generated streams while the double answers MOVED / ASK for
// chosen slots from chosen request counts on (migration between/during batches)
// and transactional batches span nodes (client-side CROSSSLOT).
//
//   monitors : per-node execution log of the double — transactional mode: no
//              command executed twice within one run; every command executed at
//              the key's holder; per key no inversion and no gap; a run that
//              ends without a target error executed everything.
//   tie      : the sender's retry/escalation decision table
//              (Model/ClusterSender.lean `sendFunc`): for the observed error
//              class the number of re-sends of the failing batch and the
//              final error class are compared with the model.
//
// Runs in real time (loopback TCP is not durably blocking inside a synctest
// bubble); the 1 s retry sleeps only occur in plain mode when a redirect cannot
// be followed, which the generator does not produce.

import (
	"bufio"
	"context"
	"errors"
	"fmt"
	"io"
	"os"
	"sort"
	"strings"
	"sync/atomic"
	"testing"
	"time"

	"github.com/mgtv-tech/redis-GunYu/config"
	"github.com/mgtv-tech/redis-GunYu/pkg/redis/client"
	"github.com/mgtv-tech/redis-GunYu/pkg/redis/client/common"
	"github.com/mgtv-tech/redis-GunYu/pkg/vfdoubles"
	"github.com/mgtv-tech/redis-GunYu/pkg/vfutil"
)

type vfoCmd struct {
	ID   int
	Key  int
	Key2 int // > 0: `mset key #id key2 #id` (index+1 into Keys), a command the cluster router refuses when the keys live on two nodes
}

type vfoScn struct {
	Name         string
	Keys         []string
	Txn          bool
	Pipeline     bool
	BC           int
	Cmds         []vfoCmd
	During       []vfdoubles.Sched
	Cross        bool   // transactional stream with a batch spanning two nodes
	NoFollow     bool   // plain mode with handleMoveErr/handleAskErr switched off in the configuration
	Fault        string // er | cb | ac injected at request FaultAt ("" = none)
	FaultAt      int
	CpBatch      bool // only the checkpoint ticker flushes: data commands and checkpoint HSETs share one batch
	CloseOutside bool // the run is closed from outside while the pipelined sender is blocked handing a dispatched batch to the receiver
	StallOn      bool // hold node StallNode until every command routed elsewhere has executed (the sender is then idle)
	StallNode    int
	Resume       bool // plain modes: EnableResumeFromBreakPoint, the checkpoint offset is stored on the target
	CpRetry      bool // resumable run whose FIRST checkpoint flush fails on the checkpoint key's redirect and is retried
	Restart      bool // when the run has ended with an error: a second run (new output, new client) from the position stored on the target
	Extra        []vfdoubles.Sched // further schedule entries (faults restricted to a node)
	CpMoved      bool              // the checkpoint key's slot has moved before the run (stale client map): the position write is a followed redirect
	SelfEnd      bool              // the input stays open until the run returns by itself
	CrossPut     bool // with PutErr: the refused command is `smove key key2 #id` over two nodes, refused with ErrCrossSlots (plain mode retries it)
	PutErr       bool // one command of the stream is refused by the router (MSET over two nodes): Exec/Dispatch return that error before sending
	// session 5: the refused command is ALONE in its flush (BatchCmdCount 1): no node batch exists, only the recorded Put error
	Lone     bool
	LoneLast bool   // it is the last command of the stream: nothing routable ever joins it in the queue
	CrossCmd string // del | unlink | mset | smove: the multi-key command over two nodes
	// session 5, dimension audit
	Dim       string // the drawn dimension (counter dim_<…>)
	FaultNode int    // > 0: the injected fault hits node FaultNode-1 only (0: whichever node serves request FaultAt)
	Layout    int    // nodes that own slots (0 = 3); the double has Nodes nodes, the others own nothing
	Nodes     int    // nodes of the double (0 = 3); a node beyond Layout is unknown to the client until a slot is moved to it
}

func (scn *vfoScn) layout() int {
	if scn.Layout > 0 {
		return scn.Layout
	}
	return 3
}

// pipelined: does the sender run pipelined? Transactional replay to a cluster with resuming from the
// target switches pipeline mode off (NewRedisOutput): every such batch carries the position, which only
// the blocking path sends after the data commands went through.
func (scn *vfoScn) pipelined() bool { return scn.Pipeline && !(scn.Txn && (scn.Resume || scn.CpRetry)) }

func vfoEncode(args ...string) []byte {
	var sb strings.Builder
	fmt.Fprintf(&sb, "*%d\r\n", len(args))
	for _, a := range args {
		fmt.Fprintf(&sb, "$%d\r\n%s\r\n", len(a), a)
	}
	return []byte(sb.String())
}

type vfoResult struct {
	Err      error
	Final    string
	Trace    []string
	Execs    []vfdoubles.ClusterExec
	Arrivals map[int]int
	Stalled  bool
	Ends     map[int]int64
	// Restart scenarios: the values above are those of the WHOLE history (both runs); run 1 alone:
	ZExec     int // index into Execs where run 2 starts (-1: no second run)
	Final1    string
	Err1      error
	Arrivals1 map[int]int
	MemCP     int64 // the in-memory position of the output when the run ended (-1: none)
}

// vfoObsClient wraps the real cluster client: every batcher logs, into the cluster double's global
// trace, when its Exec / Dispatch starts (B:<n>:<data ids>:<position or ->:<b|p>) and how Exec /
// Dispatch / Receive ended (E:<n>:<ok|rd|cs|ot>). Nothing else changes: Put, Exec, Dispatch and
// Receive are the real ones.
type vfoObsClient struct {
	client.Redis
	d   *vfdoubles.Cluster
	seq *int32
}

func (c *vfoObsClient) NewBatcher(pipeline bool) common.CmdBatcher {
	return &vfoObsBatcher{CmdBatcher: c.Redis.NewBatcher(pipeline), d: c.d, n: int(atomic.AddInt32(c.seq, 1)), off: "-"}
}

type vfoObsBatcher struct {
	common.CmdBatcher
	d   *vfdoubles.Cluster
	n   int
	ids []string
	off string
}

func vfoArgString(a interface{}) string {
	switch t := a.(type) {
	case []byte:
		return string(t)
	case string:
		return t
	}
	return fmt.Sprint(a)
}

func (b *vfoObsBatcher) Put(cmd string, args ...interface{}) error {
	switch strings.ToLower(cmd) {
	case "set", "mset":
		if len(args) >= 2 {
			if v := vfoArgString(args[1]); strings.HasPrefix(v, "#") {
				b.ids = append(b.ids, v[1:])
			}
		}
	case "smove":
		if len(args) >= 3 {
			if v := vfoArgString(args[2]); strings.HasPrefix(v, "#") {
				b.ids = append(b.ids, v[1:])
			}
		}
	case "hset":
		if len(args) >= 3 && strings.HasSuffix(vfoArgString(args[1]), "_offset") {
			b.off = vfoArgString(args[2])
		}
	}
	err := b.CmdBatcher.Put(cmd, args...)
	if err != nil {
		b.d.Log(fmt.Sprintf("PR:%d:%s", b.n, strings.ToLower(cmd))) // refused by the router: in no node batch
	}
	return err
}

func vfoErrTok(err error) string {
	switch {
	case err == nil:
		return "ok"
	case errors.Is(err, common.ErrMove) || errors.Is(err, common.ErrAsk):
		return "rd"
	case errors.Is(err, common.ErrCrossSlots):
		return "cs"
	}
	return "ot"
}

func (b *vfoObsBatcher) begin(kind string) {
	ids := "."
	if len(b.ids) > 0 {
		ids = strings.Join(b.ids, ",")
	}
	b.d.Log(fmt.Sprintf("B:%d:%s:%s:%s", b.n, ids, b.off, kind))
}

func (b *vfoObsBatcher) Exec() ([]interface{}, error) {
	b.begin("b")
	r, err := b.CmdBatcher.Exec()
	b.d.Log(fmt.Sprintf("E:%d:%s", b.n, vfoErrTok(err)))
	return r, err
}

func (b *vfoObsBatcher) Dispatch() error {
	b.begin("p")
	err := b.CmdBatcher.Dispatch()
	if err != nil {
		b.d.Log(fmt.Sprintf("E:%d:%s", b.n, vfoErrTok(err)))
	}
	return err
}

func (b *vfoObsBatcher) Receive() ([]interface{}, error) {
	r, err := b.CmdBatcher.Receive()
	b.d.Log(fmt.Sprintf("E:%d:%s", b.n, vfoErrTok(err)))
	return r, err
}

func vfoRun(scn *vfoScn) (*vfoResult, error) {
	nNodes := 3
	if scn.Nodes > 0 {
		nNodes = scn.Nodes
	}
	d, err := vfdoubles.NewCluster(nNodes, scn.Keys)
	if err != nil {
		return nil, err
	}
	defer d.Close()
	d.SetBaseLayout(scn.layout())
	// serve the client's initial CLUSTER SLOTS, park every later (asynchronous)
	// refresh: the client's map stays what it read at start, so redirects are
	// always needed once a slot has moved (and D22 cannot interfere)
	if !scn.CpRetry && scn.Dim != "unknown" {
		// (a MOVED to a node the client does not know makes it refresh SYNCHRONOUSLY inside handleMove: the gate would
		// park that request - the client sets no read timeout - so the refreshes run free in that dimension)
		d.EnablePark(1)
	}
	sc := append([]vfdoubles.Sched(nil), scn.During...)
	cpSlot := vfdoubles.ClusterSlot("vfcp")
	cpOwner := cpSlot * 3 / 16384
	cpNew := (cpOwner + 1) % 3
	if scn.CpRetry {
		// the checkpoint key's slot has moved to a node that is unreachable during the first
		// attempt (handleMove fails -> ErrMove -> the sender sleeps 1 s and re-sends the queue);
		// the client's asynchronous refresh is NOT parked here, the node is back before the retry
		sc = append(sc, vfdoubles.Sched{At: 0, Ev: vfdoubles.MigEv{Kind: "v", Slot: cpSlot, Dst: cpNew}},
			vfdoubles.Sched{At: 0, Ev: vfdoubles.MigEv{Kind: "x", Dst: cpNew}})
	}
	if scn.CpMoved {
		sc = append(sc, vfdoubles.Sched{At: 0, Ev: vfdoubles.MigEv{Kind: "v", Slot: cpSlot, Dst: cpNew}})
	}
	sc = append(sc, scn.Extra...)
	if scn.Fault != "" {
		fn := scn.FaultNode
		if scn.CpBatch {
			fn = scn.StallNode + 1 // the fault hits the data node, not the checkpoint node
		}
		sc = append(sc, vfdoubles.Sched{At: scn.FaultAt, Ev: vfdoubles.MigEv{Kind: "F", Key: scn.Fault, Slot: fn}})
	}
	sort.SliceStable(sc, func(i, j int) bool { return sc[i].At < sc[j].At })
	d.SetSchedule(sc)

	cfg := RedisOutputConfig{
		InputName: "vfc19", CheckpointName: "vfcp", RunId: "rid", CanTransaction: scn.Txn,
		EnableResumeFromBreakPoint: scn.CpRetry || scn.Resume, TargetDb: -1,
		BatchCmdCount: uint(scn.BC), BatchBufferSize: 1 << 30,
		BatchTicker: 15 * time.Millisecond, KeepaliveTicker: time.Hour, UpdateCheckpointTicker: time.Hour,
		ReplayPipeline: scn.Pipeline, ReplayRdbParallel: 1,
		Stats: config.OutputStats{DisableLog: true},
	}
	if scn.CpRetry || scn.Resume {
		cfg.UpdateCheckpointTicker = 25 * time.Millisecond
	}
	if scn.StallOn && !scn.CpBatch {
		// forced D29(a) construction: no periodic position writes, so that nothing of the sender is in
		// flight when the stalled node answers; the only position write that can follow is one sent
		// after the receiver saw the failure
		cfg.UpdateCheckpointTicker = time.Hour
	}
	if scn.CpBatch || scn.CpRetry || scn.CpMoved {
		// only the checkpoint ticker flushes: the data commands are in the flush that carries the position
		cfg.BatchTicker = time.Hour
		cfg.BatchCmdCount = 1000
	}
	cfg.Redis.Type = config.RedisTypeCluster
	cfg.Redis.Otype = config.RedisTypeCluster
	cfg.Redis.Addresses = config.SliceString(d.Addrs()[:scn.layout()]) // a node that owns nothing is not a start node
	cfg.Redis.ClusterOptions = &config.RedisClusterOptions{HandleMoveErr: !scn.NoFollow, HandleAskErr: !scn.NoFollow}
	ro := NewRedisOutput(cfg) // transactional + cluster: switches redirect following off
	cpStored := func() bool {
		_, ex, _ := d.Snapshot()
		for _, e := range ex {
			if len(e.Keys) == 1 && e.Keys[0] == "vfcp" && strings.HasSuffix(e.Field, "_offset") {
				return true
			}
		}
		return false
	}
	var batchSeq int32
	var connected atomic.Int32 // clients that have read their initial slot map
	observe := func(o *RedisOutput) {
		rc := o.cfg.Redis
		o.newRedisConn = func(ctx context.Context) (client.Redis, error) {
			cl, err := client.NewRedis(rc)
			connected.Add(1)
			if err != nil {
				return nil, err
			}
			var out client.Redis = &vfoObsClient{Redis: cl, d: d, seq: &batchSeq}
			if scn.StallOn && !scn.CpBatch {
				// sendAof closes the client as soon as the sender loop has returned; a position the sender
				// dispatched just before (asynchronously, through the node pipeline) would race with that
				// Close. Keep the client open until such a write has arrived, or 200 ms have passed without
				// one (the wait only gives a wrong write time to show, it never creates a verdict).
				out = &vfoHoldClose{Redis: out, until: cpStored}
			}
			return out, nil
		}
	}
	observe(ro)

	var stream []byte
	ids := make([]int, 0, len(scn.Cmds))
	ends := map[int]int64{} // command id -> stream offset after it
	for _, c := range scn.Cmds {
		if c.Key2 > 0 && (scn.CrossCmd == "del" || scn.CrossCmd == "unlink") {
			stream = append(stream, vfoEncode(scn.CrossCmd, scn.Keys[c.Key], scn.Keys[c.Key2-1])...)
		} else if c.Key2 > 0 && (scn.CrossPut || scn.CrossCmd == "smove") && scn.CrossCmd != "mset" {
			stream = append(stream, vfoEncode("smove", scn.Keys[c.Key], scn.Keys[c.Key2-1], fmt.Sprintf("#%d", c.ID))...)
		} else if c.Key2 > 0 {
			stream = append(stream, vfoEncode("mset", scn.Keys[c.Key], fmt.Sprintf("#%d", c.ID), scn.Keys[c.Key2-1], fmt.Sprintf("#%d", c.ID))...)
		} else {
			stream = append(stream, vfoEncode("set", scn.Keys[c.Key], fmt.Sprintf("#%d", c.ID))...)
		}
		ids = append(ids, c.ID)
		ends[c.ID] = int64(len(stream))
	}
	ctx, cancel := context.WithCancel(context.Background())
	defer cancel()
	pr, pw := io.Pipe()
	done := make(chan error, 1)
	go func() { done <- ro.sendAof(ctx, "rid", bufio.NewReaderSize(pr, 4096), 0, -1) }()
	go func() { pw.Write(stream) }()

	if scn.CpRetry {
		go func() {
			// bring the node back once the first attempt has been answered MOVED to it,
			// well inside the sender's 1 s back-off
			want := fmt.Sprintf(":m%d", cpNew)
			for i := 0; i < 20000; i++ {
				tr, _, _ := d.Snapshot()
				for _, e := range tr {
					if strings.HasPrefix(e, "q:") && strings.HasSuffix(e, want) {
						time.Sleep(300 * time.Millisecond)
						d.Apply(vfdoubles.MigEv{Kind: "u", Dst: cpNew})
						return
					}
				}
				time.Sleep(500 * time.Microsecond)
			}
		}()
	}
	if scn.StallOn {
		// the node that will answer MOVED is slow: its answers arrive when the sender has already
		// dispatched everything and sits idle in its select loop
		d.Stall(scn.StallNode)
		var others []int
		for _, c := range scn.Cmds {
			if vfdoubles.ClusterSlot(scn.Keys[c.Key])*3/16384 != scn.StallNode {
				others = append(others, c.ID)
			}
		}
		go func() {
			if scn.CloseOutside {
				// the node stays silent: the receiver waits for the first batch, the sender dispatches
				// ahead until the hand-over channel is full and blocks there; then the run is closed
				// from outside (leadership change, shutdown …). The node is released a little later, so
				// whatever was dispatched shows up in its execution log.
				for i := 0; i < 40000 && d.HeldCount() == 0; i++ {
					time.Sleep(250 * time.Microsecond)
				}
				time.Sleep(150 * time.Millisecond) // lets the sender fill the channel; only detection power depends on it
				cancel()
				// give a faulty sender time to dispatch again, then let the node answer (the client's
				// Close waits for its node pipeline, which waits for the node)
				time.Sleep(150 * time.Millisecond)
				d.Unstall(scn.StallNode)
				return
			}
			if scn.CpBatch {
				// the data node answers only after the checkpoint node has applied the offset - or,
				// when no offset comes although the data node has been holding its commands for
				// 300 ms, without it: that is the repaired sender (position only after the data went
				// through); the time only bounds how long a correct sender is kept waiting
				held := 0
				for i := 0; i < 40000 && !cpStored() && held < 1200; i++ {
					if d.HeldCount() > 0 {
						held++
					}
					time.Sleep(250 * time.Microsecond)
				}
			} else {
				for i := 0; i < 40000 && !d.AllExecuted(others); i++ {
					time.Sleep(250 * time.Microsecond)
				}
			}
			for i := 0; i < 40000 && d.HeldCount() == 0; i++ {
				time.Sleep(250 * time.Microsecond)
			}
			d.Unstall(scn.StallNode)
		}()
	}
	res := &vfoResult{}
	// No real-time decision: the input is closed only when every command has
	// EXECUTED (so nothing can be reported lost because of when the input ended),
	// or the run has already returned by itself (a reported error). Only a run
	// that does neither within the deadline is judged, as "sender-stalled".
	finished := false
	dl := time.Now().Add(12 * time.Second)
	refusals := func() int {
		tr, _, _ := d.Snapshot()
		n := 0
		for _, e := range tr {
			if strings.HasPrefix(e, "PR:") {
				n++
			}
		}
		return n
	}
	for !finished {
		if scn.LoneLast && refusals() >= 5 {
			// sendFunc makes at most three attempts on one flush: a fifth refusal of the (only) refused
			// command means that a flush holding it has returned nil and a later flush put it again - the
			// sender will never report it by itself. End the input: what the run returns now is its verdict.
			// (A count, not a time: a sender that reports the refusal returns before it.)
			break
		}
		if !scn.SelfEnd && !scn.LoneLast && d.AllExecuted(ids) {
			if !scn.CpRetry {
				break
			}
			// resumable run: also wait for the checkpoint offset to be stored
			_, ex, _ := d.Snapshot()
			stored := false
			for _, e := range ex {
				if len(e.Keys) == 1 && e.Keys[0] == "vfcp" && strings.HasSuffix(e.Field, "_offset") {
					stored = true
				}
			}
			if stored {
				break
			}
		}
		select {
		case res.Err = <-done:
			finished = true
		default:
			if time.Now().After(dl) {
				res.Stalled = true
				finished = true
				cancel()
				res.Err = <-done
			} else {
				time.Sleep(200 * time.Microsecond)
			}
		}
	}
	if scn.CloseOutside {
		// the run has returned: wait until the node's execution log is stable
		prev, same := -1, 0
		for i := 0; i < 400 && same < 20; i++ {
			_, ex, _ := d.Snapshot()
			if len(ex) == prev {
				same++
			} else {
				prev, same = len(ex), 0
			}
			time.Sleep(5 * time.Millisecond)
		}
	}
	early := finished // returned before the input ended: a target error was reported
	if !finished {
		pw.Close()
		select {
		case res.Err = <-done:
		case <-time.After(20 * time.Second):
			res.Stalled = true
			cancel()
			res.Err = <-done
		}
	}
	pr.Close()
	classify := func(err error, early bool) string {
		switch {
		case errors.Is(err, ErrRedisTypologyChanged):
			return "typology"
		case errors.Is(err, ErrBreak):
			return "break"
		case errors.Is(err, common.ErrMove) || errors.Is(err, common.ErrAsk):
			return "other" // plain mode: the raw redirect error closes the run
		case err != nil && scn.Lone && !errors.Is(err, io.EOF) && !strings.Contains(err.Error(), "err(EOF)"):
			return "other" // a reported target error is a reported error, whenever the input ended (EOF = the input ended)
		case !early:
			return "eof"
		}
		return "other"
	}
	res.Final = classify(res.Err, early)
	ro.cpGuard.RLock()
	res.MemCP = ro.checkpointInMem.Offset
	ro.cpGuard.RUnlock()
	res.ZExec = -1
	if scn.Restart && early && !res.Stalled {
		// the run reported an error: what the syncer does next is start again from the position stored
		// on the target (a new output, a new client that reads the slot map afresh)
		res.Final1, res.Err1, res.Arrivals1 = res.Final, res.Err, d.Arrivals()
		_, ex1, _ := d.Snapshot()
		res.ZExec = len(ex1)
		stored := int64(0)
		for _, e := range ex1 {
			if len(e.Keys) == 1 && e.Keys[0] == "vfcp" && strings.HasSuffix(e.Field, "_offset") {
				fmt.Sscan(e.Value, &stored) // the hash field holds the LAST value written
			}
		}
		d.Log("Z")
		d.ReleaseParked()
		d.EnablePark(1)
		ro2 := NewRedisOutput(cfg)
		observe(ro2)
		{
			// EnablePark(1) serves ONE CLUSTER SLOTS request and parks the next: a late request of the first run's client
			// (an inform still queued when it was closed) can take that one, and the INITIAL request of the second run's
			// client is parked - NewCluster never returns (seen once in ~30 runs: the harness hung until the test timeout).
			// Until the second client has connected, whatever is parked is released (infrastructure, no verdict).
			before := connected.Load()
			go func() {
				for i := 0; i < 4000 && connected.Load() == before; i++ {
					if d.WaitParked(5*time.Millisecond) && connected.Load() == before {
						d.ReleaseParked()
					}
				}
			}()
		}
		ctx2, cancel2 := context.WithCancel(context.Background())
		defer cancel2()
		pr2, pw2 := io.Pipe()
		done2 := make(chan error, 1)
		wrote := make(chan struct{})
		go func() { done2 <- ro2.sendAof(ctx2, "rid", bufio.NewReaderSize(pr2, 4096), stored, -1) }()
		go func() { pw2.Write(stream[stored:]); close(wrote) }()
		var need []int // commands the second run has to send
		for _, c := range scn.Cmds {
			if ends[c.ID] > stored {
				need = append(need, c.ID)
			}
		}
		again := func() bool {
			_, ex, _ := d.Snapshot()
			got := map[int]bool{}
			for _, e := range ex[res.ZExec:] {
				got[e.ID] = true
			}
			for _, id := range need {
				if !got[id] {
					return false
				}
			}
			return true
		}
		fin2 := false
		dl2 := time.Now().Add(12 * time.Second)
		for !fin2 && !again() {
			select {
			case res.Err = <-done2:
				fin2 = true
			default:
				if time.Now().After(dl2) {
					res.Stalled, fin2 = true, true
					cancel2()
					res.Err = <-done2
				} else {
					time.Sleep(200 * time.Microsecond)
				}
			}
		}
		early2 := fin2
		if !fin2 {
			select {
			case <-wrote:
			case <-time.After(5 * time.Second):
			}
			pw2.Close()
			select {
			case res.Err = <-done2:
			case <-time.After(20 * time.Second):
				res.Stalled = true
				cancel2()
				res.Err = <-done2
			}
		}
		pr2.Close()
		res.Final = classify(res.Err, early2)
	}
	res.Trace, res.Execs, _ = d.Snapshot()
	res.Arrivals = d.Arrivals()
	res.Ends = ends
	if os.Getenv("VERIF_DEBUG") != "" && (scn.CpRetry || (scn.Resume && scn.NoFollow)) {
		fmt.Printf("VFDEBUG cp-retry err=%v final=%s\n  trace=%s\n", res.Err, res.Final, strings.Join(res.Trace, " "))
		for _, e := range res.Execs {
			fmt.Printf("  exec node=%d id=%d keys=%v field=%s value=%s\n", e.Node, e.ID, e.Keys, e.Field, e.Value)
		}
	}
	return res, nil
}

// vfoHoldClose delays Close of the real cluster client (see vfoRun).
type vfoHoldClose struct {
	client.Redis
	until func() bool
}

func (h *vfoHoldClose) Close() error {
	for i := 0; i < 400 && !h.until(); i++ {
		time.Sleep(500 * time.Microsecond)
	}
	return h.Redis.Close()
}

type vfoViol struct{ what, detail, mechanism string }

func vfoMonitor1(scn *vfoScn, res *vfoResult) []vfoViol {
	var out []vfoViol
	keyOf := map[int]int{}
	perKey := map[int][]int{} // source ids per key
	for _, c := range scn.Cmds {
		keyOf[c.ID] = c.Key
		perKey[c.Key] = append(perKey[c.Key], c.ID)
	}
	count := map[int]int{}
	last := map[int]int{}
	has := map[int]bool{}
	for _, e := range res.Execs {
		if e.ID < 0 {
			continue
		}
		for i := range e.Keys {
			if e.Holder[i] != e.Node {
				out = append(out, vfoViol{"exec-not-at-holder", fmt.Sprintf("cmd %d executed at node %d, key lives at node %d", e.ID, e.Node, e.Holder[i]), ""})
			}
		}
		count[e.ID]++
		k := keyOf[e.ID]
		if count[e.ID] > 1 && scn.Txn {
			out = append(out, vfoViol{"txn-double-exec", fmt.Sprintf("cmd %d executed %d times within one run", e.ID, count[e.ID]), ""})
		} else {
			if count[e.ID] > 1 {
				// plain mode: the sender re-sent a failed batch (a repeated suffix): the
				// per-key order check restarts at this command
				for kk := range last {
					if last[kk] >= e.ID {
						last[kk] = e.ID - 1
					}
				}
			}
			if has[k] && e.ID < last[k] {
				out = append(out, vfoViol{"per-key-inversion", fmt.Sprintf("key %s: cmd %d took effect after cmd %d", scn.Keys[k], e.ID, last[k]), ""})
			}
			// no gap: every earlier command of this key has executed already — unless
			// the run reports an error (a reported restart covers the hole: in pipelined
			// mode batches already in flight execute past a failed one)
			for _, id := range perKey[k] {
				if res.Final != "eof" {
					break
				}
				if id >= e.ID {
					break
				}
				if count[id] == 0 {
					out = append(out, vfoViol{"per-key-gap", fmt.Sprintf("key %s: cmd %d took effect although cmd %d never did", scn.Keys[k], e.ID, id), ""})
					break
				}
			}
		}
		if !has[k] || e.ID > last[k] {
			last[k] = e.ID
		}
		has[k] = true
	}
	if res.Final == "eof" && !res.Stalled {
		for _, c := range scn.Cmds {
			if count[c.ID] == 0 {
				out = append(out, vfoViol{"lost-command", fmt.Sprintf("run ended without a target error but cmd %d was never executed", c.ID), ""})
				break
			}
		}
	}
	// resumable run: an offset stored in the checkpoint hash is useless (run id "?" on the next
	// start) unless the run id / version fields were stored for this run before it
	hasRunID := false
	for _, e := range res.Execs {
		if len(e.Keys) == 1 && e.Keys[0] == "vfcp" {
			if strings.HasSuffix(e.Field, "_runid") {
				hasRunID = true
			} else if strings.HasSuffix(e.Field, "_offset") && !hasRunID {
				out = append(out, vfoViol{"checkpoint-offset-without-runid", "hset vfcp " + e.Field + " took effect, but the run id / version fields of this run were never stored (the failed first attempt carried them, the re-sent batch did not)", ""})
				break
			}
		}
	}
	// the position stored on the target must not cover a command that never took effect: a restart
	// resumes behind it (silent loss)
	maxCp := int64(-1)
	for _, e := range res.Execs {
		if len(e.Keys) == 1 && e.Keys[0] == "vfcp" && strings.HasSuffix(e.Field, "_offset") {
			var n int64
			if _, err := fmt.Sscan(e.Value, &n); err == nil && n > maxCp {
				maxCp = n
			}
		}
	}
	if maxCp >= 0 {
		for _, c := range scn.Cmds {
			if res.Ends[c.ID] <= maxCp && count[c.ID] == 0 {
				// mechanism, read off the global trace: was the covering offset applied before the
				// node's failing answer to this command (both travelled in one batch, node batches
				// run concurrently), or was it sent after that answer (sender went on after a failure)?
				cpPos, failPos, k := -1, -1, 0
				var cpExecs []vfdoubles.ClusterExec
				for _, e := range res.Execs {
					if e.ID < 0 {
						cpExecs = append(cpExecs, e)
					}
				}
				for i, ev := range res.Trace {
					p := strings.Split(ev, ":")
					if p[0] != "q" || len(p) != 5 {
						continue
					}
					if p[2] == "-1" && p[4] == "x" {
						if k < len(cpExecs) && cpPos < 0 && strings.HasSuffix(cpExecs[k].Field, "_offset") {
							var n int64
							fmt.Sscan(cpExecs[k].Value, &n)
							if n >= res.Ends[c.ID] {
								cpPos = i
							}
						}
						k++
					} else if p[2] == fmt.Sprint(c.ID) && p[4] != "x" && failPos < 0 {
						failPos = i
					}
				}
				mech := "offset-sent-after-failed-answer"
				if failPos < 0 {
					mech = "command-never-reached-a-node"
				} else if cpPos >= 0 && cpPos < failPos {
					mech = "offset-applied-before-failed-answer"
				}
				if scn.Txn && !scn.Pipeline {
					// one node, one pipeline (the cluster client does not send MULTI/EXEC): the position
					// travelled behind the failing command in the same write
					mech = "offset-in-same-pipeline-as-failed-command"
				}
				if scn.Pipeline && !(scn.StallOn && !scn.CpBatch) && !(scn.Lone && mech == "command-never-reached-a-node") {
					// pipelined mode dispatches positions (checkpoint ticker) while earlier data batches
					// are dispatched but not yet acknowledged; whether such a write reaches its node before
					// or after another node's failing answer is a matter of arrival order, which the
					// nodes' trace cannot tell from "sent after the failure was seen". Only the forced
					// construction (sender idle, no periodic position writes) can assert the latter.
					mech = "pipelined-position-before-acknowledgement"
				}
				out = append(out, vfoViol{"checkpoint-ahead-of-execution", fmt.Sprintf("stored offset %d covers cmd %d (ends at %d), which never took effect (%s); run ended with %s (%v)",
					maxCp, c.ID, res.Ends[c.ID], mech, res.Final, res.Err), mech})
				break
			}
		}
	}
	// session 5: the IN-MEMORY position (no resuming from the target) must not cover a command that no node executed
	// either: the next run of this output resumes behind it. Judged on the lone-refused scenarios, where no batch is in
	// flight when the position moves (the pipelined in-memory position moving at Dispatch is part of C19-F2).
	if scn.Lone && !scn.Resume {
		for _, c := range scn.Cmds {
			if c.Key2 > 0 && count[c.ID] == 0 && res.MemCP >= res.Ends[c.ID] {
				out = append(out, vfoViol{"position-ahead-of-execution", fmt.Sprintf("the in-memory position %d covers cmd %d `%s %s %s` (ends at %d), refused by the router at Put (keys on two nodes) and executed by no node: "+
					"its flush - the command alone in the batcher, no node batch - returned nil; run ended with %s (%v); the next run resumes behind the command",
					res.MemCP, c.ID, scn.CrossCmd, scn.Keys[c.Key], scn.Keys[c.Key2-1], res.Ends[c.ID], res.Final, res.Err), "empty-batcher-shortcut-ignores-refused-put"})
			}
		}
	}
	if scn.Txn {
		// transactional mode never follows a redirect nor re-sends: a command reaches a node once
		for _, c := range scn.Cmds {
			if res.Arrivals[c.ID] > 1 {
				out = append(out, vfoViol{"txn-batch-dispatched-twice", fmt.Sprintf("cmd %d reached a node %d times within one run (its batch was dispatched again)", c.ID, res.Arrivals[c.ID]), ""})
				break
			}
		}
	}
	if res.Stalled {
		out = append(out, vfoViol{"sender-stalled", fmt.Sprintf("sendAof neither finished the stream nor returned (err=%v)", res.Err), ""})
	}
	// session 5 (dimension audit, the `final=other` flake): sendAof returns nil ONLY for ... nothing - the end of the input is
	// an EOF error, a close from outside the context's error. A nil after a batch has ended with an error (seen by Exec, by
	// Dispatch or by the pipelined receiver) is a failed batch that was never reported: the caller takes the run for done.
	if res.Err == nil && !res.Stalled && !scn.CloseOutside {
		lastE := ""
		for _, ev := range res.Trace {
			if strings.HasPrefix(ev, "E:") {
				lastE = ev
			}
		}
		if p := strings.Split(lastE, ":"); len(p) == 3 && p[2] != "ok" {
			out = append(out, vfoViol{"failed-batch-not-reported", fmt.Sprintf("sendAof returned nil although batch %s ended with an error (%s): the error the run was closed with was not yet recorded when it was read (pkg/sync waitCloser.Close published `closed` before the error)", p[1], p[2]), ""})
		}
	}
	return out
}

// vfoErrorReply: did a node answer an ERROR REPLY (not a redirect) to a data command? (see the client
// harness, vfcErrorReply: outside the fault alphabet of the never-skip statements; injected connection
// faults cb / ac are cuts, not error replies)
func vfoErrorReply(trace []string) bool {
	fault := ""
	for _, ev := range trace {
		p := strings.Split(ev, ":")
		switch {
		case p[0] == "F" && len(p) == 2:
			fault = p[1]
		case p[0] == "q" && len(p) == 5 && p[4] == "e":
			if fault != "cb" && fault != "ac" {
				return true
			}
			fault = ""
		}
	}
	return false
}

// vfoMonitor: the monitors of one run (vfoMonitor1) on the first run; for a scenario with a restart
// also the second run and the whole history; per-key never-skip over the whole history.
func vfoMonitor(scn *vfoScn, res *vfoResult) []vfoViol {
	keysOf := func(c vfoCmd) []int {
		if c.Key2 > 0 {
			return []int{c.Key, c.Key2 - 1}
		}
		return []int{c.Key}
	}
	var out []vfoViol
	if res.ZExec < 0 {
		out = vfoMonitor1(scn, res)
	} else {
		r1 := *res
		r1.Execs, r1.Final, r1.Err, r1.Arrivals, r1.ZExec = res.Execs[:res.ZExec], res.Final1, res.Err1, res.Arrivals1, -1
		for i, ev := range res.Trace {
			if ev == "Z" {
				r1.Trace = res.Trace[:i]
				break
			}
		}
		out = vfoMonitor1(scn, &r1)
		// second run: at the holder, nothing twice in transactional mode
		cnt := map[int]int{}
		for _, e := range res.Execs[res.ZExec:] {
			if e.ID < 0 {
				continue
			}
			for i := range e.Keys {
				if e.Holder[i] != e.Node {
					out = append(out, vfoViol{"exec-not-at-holder", fmt.Sprintf("after the restart: cmd %d executed at node %d, key lives at node %d", e.ID, e.Node, e.Holder[i]), ""})
				}
			}
			cnt[e.ID]++
			if cnt[e.ID] > 1 && scn.Txn {
				out = append(out, vfoViol{"txn-double-exec", fmt.Sprintf("after the restart: cmd %d executed %d times within one run", e.ID, cnt[e.ID]), ""})
			}
		}
		// the whole history: a restart resumes at the stored position - nothing may be lost behind it
		if res.Final == "eof" && !res.Stalled {
			ever := map[int]bool{}
			for _, e := range res.Execs {
				ever[e.ID] = true
			}
			for _, c := range scn.Cmds {
				if !ever[c.ID] {
					out = append(out, vfoViol{"lost-command", fmt.Sprintf("the run after the restart ended without a target error but cmd %d was never executed (first run ended with %s)", c.ID, res.Final1), ""})
					break
				}
			}
		}
		if res.Stalled {
			out = append(out, vfoViol{"sender-stalled", fmt.Sprintf("the run after the restart neither finished the stream nor returned (err=%v)", res.Err), ""})
		}
	}
	// the FINAL value (Props.C19.exec_effective_prefix on the double's own log): below the position stored on the
	// target the last execution of a key is its last command below that position - a restart resumes at the
	// stored position and never repairs what lies below it. Blocking modes (the stored position of pipelined
	// modes is C19-F2).
	if !scn.pipelined() && !vfoErrorReply(res.Trace) {
		lastStored := int64(-1)
		for _, e := range res.Execs {
			if len(e.Keys) == 1 && e.Keys[0] == "vfcp" && strings.HasSuffix(e.Field, "_offset") {
				fmt.Sscan(e.Value, &lastStored)
			}
		}
		top := map[int]int{} // key -> its last command below the stored position
		for _, c := range scn.Cmds {
			if res.Ends[c.ID] <= lastStored {
				for _, k := range keysOf(c) {
					top[k] = c.ID
				}
			}
		}
		lastExec := map[int]int{} // key -> the command executed last
		for _, e := range res.Execs {
			if e.ID < 0 {
				continue
			}
			for _, c := range scn.Cmds {
				if c.ID == e.ID {
					for _, k := range keysOf(c) {
						lastExec[k] = e.ID
					}
				}
			}
		}
		for k, m := range top {
			if le, ok := lastExec[k]; ok && le < m {
				out = append(out, vfoViol{"stale-value-below-stored-position", fmt.Sprintf("key %s: the last command that took effect is cmd %d, after cmd %d had taken effect; the stored offset %d covers cmd %d, so no restart sends it again",
					scn.Keys[k], le, m, lastStored, m), ""})
				break
			}
		}
	}
	// never skips (Props.C19.exec_never_skip / exec_downward_closed, on the double's own log, every run of
	// the scenario): when a command of a key takes effect every earlier command of that key has taken
	// effect before. Blocking modes (pipelined: C19-F1), no error replies.
	if !scn.pipelined() && !vfoErrorReply(res.Trace) {
		perKey := map[int][]int{}
		kOf := map[int][]int{}
		for _, c := range scn.Cmds {
			kOf[c.ID] = keysOf(c)
			for _, k := range keysOf(c) {
				perKey[k] = append(perKey[k], c.ID)
			}
		}
		done := map[int]bool{}
	skip:
		for _, e := range res.Execs {
			if e.ID < 0 {
				continue
			}
			for _, k := range kOf[e.ID] {
				for _, id := range perKey[k] {
					if id >= e.ID {
						break
					}
					if !done[id] {
						out = append(out, vfoViol{"per-key-skip", fmt.Sprintf("key %s: cmd %d took effect although the earlier cmd %d of that key had not", scn.Keys[k], e.ID, id), ""})
						break skip
					}
				}
			}
			done[e.ID] = true
		}
	}
	return out
}

// ---------------------------------------------------------------- operational model (Model/ClusterExec.lean)

// vfoExecOp translates the observed history of a BLOCKING scenario (real sendCmdsBatch, real cluster
// client; batch boundaries from vfoObsClient, node answers from the double) into the events of the
// operational model: B / x r c / A / F / ps px pr pc / d / R (see lean/GunYu/Drive/C19.lean). `split`
// is 1: the model is the current sender, whose position write goes in a batch of its own after the
// data batch was acknowledged; a position riding with data, or applied before the acknowledgement, is
// not a step of it. The segment events / log / stored position printed by the driver are computed
// here from the same observations.
func vfoExecOp(tag string, scn *vfoScn, res *vfoResult) (string, []string, string) {
	split := 1
	if scn.layout() != 3 || scn.Nodes > 3 {
		return "", nil, "layout"
	}
	if scn.Lone {
		return "", nil, "lone-refused" // no attempt reaches a node: Model/ClusterFlush.lean (op c19f), not ClusterExec
	}
	if scn.pipelined() {
		// a pipelined run is several attempts in flight; only the single-flush scenarios (one Dispatch that
		// carries data and position) are one attempt: replayed with split = 0, the sender whose position
		// rides with the data
		if !scn.CpBatch {
			return "", nil, "mode"
		}
		split = 0
	}
	if vfoErrorReply(res.Trace) {
		return "", nil, "error-reply"
	}
	n := len(scn.Cmds)
	pos := map[string]int{}
	grp := make([]string, n)
	for i, c := range scn.Cmds {
		if c.Key2 > 0 && !scn.CrossPut {
			return "", nil, "multi-key"
		}
		pos[fmt.Sprint(c.ID)] = i
		grp[i] = fmt.Sprint(c.Key)
	}
	posOfOffset := func(v string) (int, bool) {
		var off int64
		if _, err := fmt.Sscan(v, &off); err != nil {
			return 0, false
		}
		if off == 0 {
			return 0, true
		}
		for i, c := range scn.Cmds {
			if res.Ends[c.ID] == off {
				return i + 1, true
			}
		}
		return 0, false
	}
	var cpExecs []vfdoubles.ClusterExec
	for _, e := range res.Execs {
		if e.ID < 0 {
			cpExecs = append(cpExecs, e)
		}
	}
	// the node queue of a command in an attempt: the node its first request of that attempt reached
	type att struct {
		p, q                                    int
		dataN, posN                             string
		route                                   map[int]int
		answered, redirected, done              map[int]bool
		app                                     []string
		acked, gone, posSent, posRedir, posAppl bool
		posAcked                                bool
	}
	// pre-pass: routes
	var routes []map[int]int
	{
		var cur map[int]int
		seen := map[int]bool{}
		for _, ev := range res.Trace {
			p := strings.Split(ev, ":")
			switch {
			case p[0] == "B" && len(p) == 5 && p[2] != ".":
				cur, seen = map[int]int{}, map[int]bool{}
				routes = append(routes, cur)
			case p[0] == "q" && len(p) == 5 && p[2] != "-1" && cur != nil:
				i, ok := pos[p[2]]
				if ok && !seen[i] {
					seen[i] = true
					var nd int
					fmt.Sscan(p[1], &nd)
					cur[i] = nd
				}
			}
		}
	}
	var evs, log []string
	var segs []vfdoubles.ExecSeg
	quiet := true
	atoiL := func(x []string) []int {
		out := make([]int, len(x))
		for i, v := range x {
			fmt.Sscan(v, &out[i])
		}
		return out
	}
	var a *att
	cur, stored, ai, ck := 0, 0, 0, 0
	ignored := map[string]bool{}
	join := func(x []string) string {
		if len(x) == 0 {
			return "."
		}
		return strings.Join(x, ",")
	}
	b2i := func(b bool) int {
		if b {
			return 1
		}
		return 0
	}
	allDone := func() bool {
		for i := a.p; i < a.q; i++ {
			if !a.done[i] {
				return false
			}
		}
		return true
	}
	success := func() bool { return a.acked && !a.gone && (!a.posSent || (a.posAppl && a.posAcked)) }
	closeDone := func() {
		evs = append(evs, "d")
		segs = append(segs, vfdoubles.ExecSeg{Kind: 'o', P: a.p, Q: a.q, Store: a.posAppl, App: atoiL(a.app)})
		cur = a.q
		if a.posAppl {
			stored = a.q
		}
		a = nil
	}
	closeCut := func(restart bool) {
		if restart && a.posAppl && allDone() {
			segs = append(segs, vfdoubles.ExecSeg{Kind: 'o', P: a.p, Q: a.q, Store: true, App: atoiL(a.app)})
			cur = a.q
		} else {
			segs = append(segs, vfdoubles.ExecSeg{Kind: 'c', P: a.p, Q: a.q, Store: a.posAppl, App: atoiL(a.app)})
		}
		if a.posAppl {
			stored = a.q
		}
		a = nil
	}
	restart := func() {
		if a != nil {
			if success() {
				closeDone()
			} else {
				closeCut(true)
			}
		}
		evs, segs = append(evs, "R"), append(segs, vfdoubles.ExecSeg{Kind: 's'})
		cur = stored
	}
	open := func(p, q int, dataN string, ride bool, rt map[int]int) {
		a = &att{p: p, q: q, dataN: dataN, route: rt, answered: map[int]bool{}, redirected: map[int]bool{}, done: map[int]bool{}}
		rs := make([]string, 0, q-p)
		for i := p; i < q; i++ {
			nd, ok := rt[i]
			if !ok {
				// never reached a node in this attempt: the queue of another command of its key, else one of its own
				nd = 100 + scn.Cmds[i].Key
				for j := p; j < q; j++ {
					if v, ok2 := rt[j]; ok2 && scn.Cmds[j].Key == scn.Cmds[i].Key {
						nd = v
					}
				}
			}
			rs = append(rs, fmt.Sprint(nd))
		}
		evs = append(evs, fmt.Sprintf("B:%d:%d:%d:%s", p, q, b2i(ride), join(rs)))
	}
	for _, ev := range res.Trace {
		p := strings.Split(ev, ":")
		switch p[0] {
		case "Z":
			restart()
		case "B":
			if len(p) != 5 {
				return "", nil, "parse"
			}
			ids, off := p[2], p[3]
			switch {
			case ids != ".":
				if a != nil {
					if success() {
						closeDone()
					} else if a.gone {
						closeCut(false) // sendFunc's retry
					} else {
						return "", nil, "overlapping-batches"
					}
				}
				l := strings.Split(ids, ",")
				p0, ok := pos[l[0]]
				if !ok {
					return "", nil, "unknown-id"
				}
				for j, id := range l {
					if pos[id] != p0+j {
						return "", nil, "not-contiguous"
					}
				}
				var rt map[int]int
				if ai < len(routes) {
					rt = routes[ai]
				}
				ai++
				open(p0, p0+len(l), p[1], off != "-", rt)
				if off != "-" {
					a.posN, a.posSent = p[1], true
				}
			case off != "-":
				// a position batch right after an acknowledged data batch belongs to that attempt (sendFuncOnce's
				// second batch, or a later flush of the still unchanged position); after a complete attempt it
				// is a flush of its own
				if a != nil && a.posSent && success() {
					closeDone()
				}
				if a == nil {
					// position-only flush: the queue is empty
					open(cur, cur, "", false, nil)
					evs, a.acked = append(evs, "A"), true
				}
				evs = append(evs, "ps")
				a.posN, a.posSent = p[1], true
			default:
				ignored[p[1]] = true
			}
		case "E":
			if len(p) != 3 || ignored[p[1]] {
				continue
			}
			if a == nil {
				return "", nil, "stray-result"
			}
			fail := "F:ot"
			if p[2] == "rd" {
				fail = "F:rd"
			} else if p[2] == "cs" {
				fail = "F:cs"
			}
			switch {
			case p[1] == a.dataN && p[1] == a.posN: // data and position in one batch
				if p[2] == "ok" {
					evs, a.acked, a.posAcked = append(evs, "A"), true, true
				} else {
					evs, a.gone = append(evs, fail), true
				}
			case p[1] == a.dataN:
				if p[2] == "ok" {
					evs, a.acked = append(evs, "A"), true
				} else {
					evs, a.gone = append(evs, fail), true
				}
			case p[1] == a.posN:
				if p[2] == "ok" {
					a.posAcked = true
				} else {
					evs, a.gone = append(evs, fail), true
				}
			default:
				return "", nil, "stray-result"
			}
		case "q":
			if len(p) != 5 {
				continue
			}
			if p[2] == "-1" {
				switch p[4][0] {
				case 'x':
					if ck >= len(cpExecs) {
						return "", nil, "cp-count"
					}
					ce := cpExecs[ck]
					ck++
					if !strings.HasSuffix(ce.Field, "_offset") {
						continue
					}
					if a == nil {
						return "", nil, "stray-position"
					}
					if a.posRedir {
						evs = append(evs, "pc")
					} else {
						evs = append(evs, "px")
					}
					a.posAppl = true
					if q, ok := posOfOffset(ce.Value); !ok || q != a.q {
						return "", nil, "position-value" // the monitor checkpoint-ahead judges it; not a step of the model
					}
				case 'm', 'a':
					if a != nil && !a.posRedir && !a.posAppl {
						evs, a.posRedir = append(evs, "pr"), true
					}
				}
				continue
			}
			i, ok := pos[p[2]]
			if !ok {
				continue
			}
			if a == nil || i < a.p || i >= a.q {
				return "", nil, "stray-answer"
			}
			switch {
			case !a.answered[i]:
				a.answered[i] = true
				switch p[4][0] {
				case 'x':
					for j := a.p; j < i; j++ {
						if grp[j] == grp[i] && a.redirected[j] && !a.done[j] {
							quiet = false
						}
					}
					evs, a.done[i] = append(evs, fmt.Sprintf("x:%d", i)), true
					a.app, log = append(a.app, fmt.Sprint(i)), append(log, fmt.Sprint(i))
				case 'm', 'a':
					evs, a.redirected[i] = append(evs, fmt.Sprintf("r:%d", i)), true
				}
			case a.redirected[i] && !a.done[i]:
				if p[4] == "x" {
					evs, a.done[i] = append(evs, fmt.Sprintf("c:%d", i)), true
					a.app, log = append(a.app, fmt.Sprint(i)), append(log, fmt.Sprint(i))
				}
			default:
				return "", nil, "re-arrival"
			}
		}
	}
	restart()
	segLine, autoLine := vfdoubles.ExecExpect(grp, segs)
	op := fmt.Sprintf("c19x %s %d %d %s %s", tag, split, n, strings.Join(grp, ","), strings.Join(evs, " "))
	return op, []string{tag + " accept", fmt.Sprintf("%s quiet %v", tag, quiet), tag + " segs " + segLine,
		tag + " " + autoLine, tag + " log " + join(log), fmt.Sprintf("%s stored %d", tag, stored)}, ""
}

// same-node tags for transactional scenarios: the sender puts a whole batch
// on one node or fails with CROSSSLOT
func vfoTagsOnNode(node int, n int, salt string) []string {
	var out []string
	for i := 0; len(out) < n && i < 10000; i++ {
		t := fmt.Sprintf("o%d%s", i, salt)
		if vfdoubles.ClusterSlot("{"+t+"}")*3/16384 == node {
			out = append(out, t)
		}
	}
	return out
}

// vfoTagsOn: hash tags whose slot lives on `node` of an m-node base layout
func vfoTagsOn(node, m, n int, salt string) []string {
	var out []string
	for i := 0; len(out) < n && i < 100000; i++ {
		t := fmt.Sprintf("o%d%s", i, salt)
		if vfdoubles.ClusterSlot("{"+t+"}")*m/16384 == node {
			out = append(out, t)
		}
	}
	return out
}

// vfoDim: the dimensions of the session-5 audit, one forced scenario each (self-contained, not the generic generator):
//
//	cut:<txn|plain>-<block|pipe>:<resume|mem>:<data|cp|same>:<cb|ac>:<at>   the connection of the data node / of the
//	      checkpoint key's node (data elsewhere / data on it too) is cut before / after request <at> is applied
//	size:<mode>:<resume|mem>:<n>:<bc>      a stream of exactly n commands with BatchCmdCount bc (1, bc, bc+1), one slot moves
//	oneslot:<mode>:<resume|mem>            every key carries ONE hash tag (one slot); the slot migrates during the stream
//	unknown:<mode>:<resume|mem>            a fourth node that owns nothing (unknown to the client); a slot is assigned to it
//	nodes:<1|2>:<mode>:<resume|mem>        clusters of one and two nodes
func vfoDim(r *vfutil.Rand, name string, force string) *vfoScn {
	f := strings.Split(force, ":")
	scn := &vfoScn{Name: name, Dim: f[0], BC: 3}
	mode := f[1]
	if f[0] == "nodes" {
		mode = f[2]
	}
	scn.Txn, scn.Pipeline = strings.HasPrefix(mode, "txn"), strings.HasSuffix(mode, "pipe")
	for _, x := range f {
		if x == "resume" {
			scn.Resume = true
		}
	}
	m := 3
	cpNode := func() int { return vfdoubles.ClusterSlot("vfcp") * m / 16384 }
	addKeys := func(node, tags, per int, salt string) [][]int {
		var out [][]int
		for _, tg := range vfoTagsOn(node, m, tags, name+salt) {
			var ks []int
			for j := 0; j < per; j++ {
				ks = append(ks, len(scn.Keys))
				scn.Keys = append(scn.Keys, fmt.Sprintf("k%d{%s}", j, tg))
			}
			out = append(out, ks)
		}
		return out
	}
	stream := func(n int, groups [][]int) {
		for i := 0; i < n; i++ {
			g := groups[r.Intn(len(groups))]
			scn.Cmds = append(scn.Cmds, vfoCmd{ID: i + 1, Key: vfutil.Pick(r, g)})
		}
	}
	move := func(key int, at int, dst int) {
		slot := vfdoubles.ClusterSlot(scn.Keys[key])
		if !scn.Txn && r.Bool() && dst < m {
			scn.During = append(scn.During, vfdoubles.Sched{At: at, Ev: vfdoubles.MigEv{Kind: "g", Slot: slot, Dst: dst}},
				vfdoubles.Sched{At: at + 1, Ev: vfdoubles.MigEv{Kind: "k", Key: scn.Keys[key]}},
				vfdoubles.Sched{At: at + 3, Ev: vfdoubles.MigEv{Kind: "f", Slot: slot}})
		} else {
			scn.During = append(scn.During, vfdoubles.Sched{At: at, Ev: vfdoubles.MigEv{Kind: "v", Slot: slot, Dst: dst}})
		}
	}
	switch f[0] {
	case "cut":
		var at int
		fmt.Sscan(f[5], &at)
		scn.Fault, scn.FaultAt = f[4], at
		dn := (cpNode() + 1) % 3
		if f[3] == "same" {
			dn = cpNode()
		}
		var groups [][]int
		if scn.Txn || f[3] == "same" {
			groups = addKeys(dn, 2, 2, "")
		} else {
			groups = append(addKeys(dn, 1, 2, ""), addKeys((cpNode()+2)%3, 1, 2, "b")...) // plain: two data nodes
		}
		// long enough that commands remain unsent when the run stops, and the input stays open until the run has
		// returned by itself: the final error class is read off a run that ended because of the cut
		stream(24, groups)
		scn.SelfEnd = true
		scn.FaultNode = dn + 1
		if f[3] == "cp" {
			scn.FaultNode = cpNode() + 1
		}
	case "size":
		var n, bc int
		fmt.Sscan(f[3], &n)
		fmt.Sscan(f[4], &bc)
		scn.BC = bc
		var groups [][]int
		if scn.Txn {
			groups = addKeys(r.Intn(3), 2, 1, "")
		} else {
			groups = append(addKeys(0, 1, 1, ""), append(addKeys(1, 1, 1, "b"), addKeys(2, 1, 1, "c")...)...)
		}
		stream(n, groups)
		own := vfdoubles.ClusterSlot(scn.Keys[scn.Cmds[0].Key]) * 3 / 16384
		move(scn.Cmds[0].Key, r.Intn(n), (own+1+r.Intn(2))%3)
	case "oneslot":
		groups := addKeys(r.Intn(3), 1, 3, "") // three keys, ONE hash tag
		stream(r.Range(6, 10), groups)
		own := vfdoubles.ClusterSlot(scn.Keys[0]) * 3 / 16384
		move(0, r.Intn(4), (own+1+r.Intn(2))%3)
	case "unknown":
		scn.Nodes = 4
		var groups [][]int
		if scn.Txn {
			groups = addKeys(r.Intn(3), 2, 1, "")
		} else {
			groups = append(addKeys(0, 1, 2, ""), addKeys(1, 1, 1, "b")...)
		}
		stream(r.Range(5, 9), groups)
		scn.During = append(scn.During, vfdoubles.Sched{At: r.Intn(4), Ev: vfdoubles.MigEv{Kind: "v", Slot: vfdoubles.ClusterSlot(scn.Keys[0]), Dst: 3}})
	case "cpdown":
		// the checkpoint key's node goes DOWN alone (listener and connections closed), the data lives on the other nodes
		scn.Resume = true
		var groups [][]int
		if scn.Txn {
			groups = addKeys((cpNode()+1)%3, 2, 2, "")
		} else {
			groups = append(addKeys((cpNode()+1)%3, 1, 2, ""), addKeys((cpNode()+2)%3, 1, 2, "b")...)
		}
		stream(24, groups)
		scn.SelfEnd = true
		scn.During = append(scn.During, vfdoubles.Sched{At: r.Range(1, 6), Ev: vfdoubles.MigEv{Kind: "x", Dst: cpNode()}})
	case "hole":
		// a hole in the slot map: the slot of one key becomes unassigned during the stream (-CLUSTERDOWN from every node)
		var groups [][]int
		if scn.Txn {
			groups = addKeys(r.Intn(3), 2, 1, "")
		} else {
			groups = append(addKeys(0, 1, 1, ""), addKeys(1, 1, 1, "b")...)
		}
		stream(24, groups)
		scn.SelfEnd = true
		scn.Cmds[5].Key = 0
		scn.During = append(scn.During, vfdoubles.Sched{At: r.Range(1, 4), Ev: vfdoubles.MigEv{Kind: "h", Slot: vfdoubles.ClusterSlot(scn.Keys[0])}})
	case "nodes":
		fmt.Sscan(f[1], &m)
		scn.Layout, scn.Nodes = m, m
		var groups [][]int
		for nd := 0; nd < m; nd++ {
			if scn.Txn && nd > 0 {
				break
			}
			groups = append(groups, addKeys(nd, 1, 2, fmt.Sprint("n", nd))...)
		}
		stream(r.Range(4, 8), groups)
		if m == 2 {
			own := vfdoubles.ClusterSlot(scn.Keys[0]) * 2 / 16384
			scn.During = append(scn.During, vfdoubles.Sched{At: r.Intn(3), Ev: vfdoubles.MigEv{Kind: "v", Slot: vfdoubles.ClusterSlot(scn.Keys[0]), Dst: 1 - own}})
		}
	}
	return scn
}

// vfoDimList: every combination of the audit's dimensions (thorough tier runs all, quick a seeded sample)
func vfoDimList() []string {
	var out []string
	modes := []string{"plain-block", "plain-pipe", "txn-block", "txn-pipe"}
	for _, md := range modes {
		for _, rs := range []string{"resume", "mem"} {
			for _, nk := range []string{"data", "cp", "same"} {
				if nk == "cp" && rs == "mem" {
					continue // no position is written to the checkpoint key's node
				}
				for _, ft := range []string{"cb", "ac"} {
					for at := 0; at <= 8; at++ {
						out = append(out, fmt.Sprintf("cut:%s:%s:%s:%s:%d", md, rs, nk, ft, at))
					}
				}
			}
			for _, sz := range [][2]int{{1, 1}, {1, 3}, {3, 3}, {4, 3}, {2, 1}, {6, 3}, {7, 3}} {
				out = append(out, fmt.Sprintf("size:%s:%s:%d:%d", md, rs, sz[0], sz[1]))
			}
			out = append(out, fmt.Sprintf("hole:%s:%s", md, rs))
			if rs == "resume" {
				out = append(out, fmt.Sprintf("cpdown:%s:%s", md, rs))
			}
			out = append(out, fmt.Sprintf("oneslot:%s:%s", md, rs), fmt.Sprintf("unknown:%s:%s", md, rs),
				fmt.Sprintf("nodes:1:%s:%s", md, rs), fmt.Sprintf("nodes:2:%s:%s", md, rs))
		}
	}
	return out
}

func vfoGen(r *vfutil.Rand, name string, force string) *vfoScn {
	if i := strings.Index(force, ":"); i > 0 && force[:i] != "lone-cross" {
		return vfoDim(r, name, force)
	}
	scn := &vfoScn{Name: name, BC: r.Range(1, 5)}
	switch force {
	case "txn-block-resume":
		// transactional, blocking, resumable: the batch carries the position; the cluster client drops
		// MULTI/EXEC, so data and position are one plain pipeline on the checkpoint key's node
		scn.Txn, scn.Resume = true, true
	case "txn-pipe-resume":
		// transactional, PIPELINED, resumable: the position rides in the one-node pipeline behind the data
		scn.Txn, scn.Pipeline, scn.Resume = true, true, true
	case "txn-block":
		scn.Txn = true
	case "txn-pipe":
		scn.Txn, scn.Pipeline = true, true
	case "txn-cross":
		scn.Txn, scn.Cross, scn.Pipeline = true, true, r.Bool()
	case "cp-retry":
		scn.CpRetry = true
	case "nofollow-block":
		scn.NoFollow = true
	case "close-outside":
		scn.Txn, scn.Pipeline, scn.CloseOutside = true, true, true
	case "cpbatch-block", "cpbatch-block-1", "cpbatch-block-2":
		scn.CpBatch, scn.Resume, scn.Fault = true, true, "er"
	case "cpbatch-pipe":
		scn.CpBatch, scn.Resume, scn.Fault, scn.Pipeline = true, true, "er", true
	case "nofollow-pipe":
		scn.NoFollow, scn.Pipeline = true, true
	case "chase-ac":
		// plain, blocking, redirects followed: the slot of every command has moved (stale client map); the new
		// node applies the FOLLOWED request of the first command and closes the connection before replying
	case "cp-chase-ac":
		// plain, blocking, resumable: the checkpoint key's slot has moved; the followed position write is applied
		// by the new node, its reply is lost; whatever the sender sends next is cut after one command; then a
		// second run from the stored position
		scn.Resume, scn.Restart, scn.CpMoved, scn.SelfEnd = true, true, true, true
	case "restart-txn-block":
		// transactional, blocking, resumable; a slot moves during the run (redirects are not followed in this
		// mode): the run reports a restart; the second run starts from the position stored on the target
		scn.Txn, scn.Resume, scn.Restart = true, true, true
	case "restart-plain-block":
		// plain, blocking, resumable; a connection is lost in the middle of a batch: the run ends with that
		// error; second run from the stored position
		scn.Resume, scn.Restart, scn.Fault = true, true, vfutil.Pick(r, []string{"cb", "ac"})
	case "plain-block-crossput":
		// a two-key command over two nodes: Put refuses it with ErrCrossSlots, which the plain sender retries
		scn.PutErr, scn.CrossPut = true, true
	case "cpbatch-pipe-cb":
		// as cpbatch-pipe, the data node's connection is lost (no error reply): the one Dispatch that carries
		// data and position is replayed through the operational model WITHOUT the split: a cut that stores
		scn.CpBatch, scn.Resume, scn.Fault, scn.Pipeline = true, true, "cb", true
	case "txn-pipe-puterr", "plain-pipe-puterr", "txn-block-puterr":
		// one command of the stream is refused by the cluster router (MSET over two nodes): Exec / Dispatch
		// return that error, which is not a redirect: the pipelined sender dispatches the queue again
		scn.Txn, scn.Pipeline, scn.PutErr = force != "plain-pipe-puterr", force != "txn-block-puterr", true
	case "fault":
		scn.Txn, scn.Pipeline = r.Bool(), r.Bool()
		scn.Fault = vfutil.Pick(r, []string{"er", "cb", "ac"})
		scn.BC = r.Range(1, 2)
	default:
		scn.Txn = r.Chance(1, 2)
		scn.Pipeline = r.Bool()
		scn.Cross = scn.Txn && r.Chance(1, 6)
		if r.Chance(1, 4) {
			scn.Fault = vfutil.Pick(r, []string{"er", "cb", "ac"})
			scn.BC = r.Range(1, 2)
			scn.Cross = false
		}
	}
	if !scn.Txn && !scn.CpRetry && (force == "nofollow-pipe" || force == "nofollow-block" || r.Bool()) {
		scn.Resume = true
	}
	if strings.HasPrefix(force, "lone-cross:") {
		// lone-cross:<txn|plain>-<block|pipe>:<del|unlink|mset|smove>:<mid|last>[:resume] - a multi-key command whose
		// keys live on two nodes, alone in its flush (BatchCmdCount 1): the router refuses it at Put, the batcher has
		// no node batch; in the middle of the stream or as its last command
		f := strings.Split(force, ":")
		*scn = vfoScn{Name: name, BC: 1, PutErr: true, Lone: true, CrossCmd: f[2], LoneLast: f[3] == "last", Resume: len(f) > 4}
		scn.Txn, scn.Pipeline = strings.HasPrefix(f[1], "txn"), strings.HasSuffix(f[1], "pipe")
		scn.CrossPut = f[2] != "mset" // the router's error is ErrCrossSlots except for MSET
		scn.SelfEnd = !scn.LoneLast   // in the middle: the run reports it by itself (with the next flush at the latest)
	}
	cpNode := vfdoubles.ClusterSlot("vfcp") * 3 / 16384
	switch force {
	case "chase-ac":
		x := r.Intn(3)
		dst := (x + 1 + r.Intn(2)) % 3
		tg := vfoTagsOnNode(x, 1, name)[0]
		scn.Keys = []string{fmt.Sprintf("k0{%s}", tg)}
		scn.BC = 1
		for i := 0; i < 4; i++ {
			scn.Cmds = append(scn.Cmds, vfoCmd{ID: i + 1, Key: 0})
		}
		scn.During = []vfdoubles.Sched{{At: 0, Ev: vfdoubles.MigEv{Kind: "v", Slot: vfdoubles.ClusterSlot(scn.Keys[0]), Dst: dst}}}
		scn.Extra = []vfdoubles.Sched{{At: 0, Ev: vfdoubles.MigEv{Kind: "F", Key: "ac", Slot: dst + 1}}}
		return scn
	case "cp-chase-ac":
		// data on the node that is neither the checkpoint key's old nor its new node; requests: 0-2 data, 3-4 run id
		// and offset at the old node (MOVED), 5 followed run id, 6 followed offset (applied, no reply), 7 first
		// command of whatever is sent next, 8 second one (connection cut before it is applied)
		cpNew, x := (cpNode+1)%3, (cpNode+2)%3
		tg := vfoTagsOnNode(x, 1, name)[0]
		scn.Keys = []string{fmt.Sprintf("k0{%s}", tg)}
		for i := 0; i < 3; i++ {
			scn.Cmds = append(scn.Cmds, vfoCmd{ID: i + 1, Key: 0})
		}
		scn.Extra = []vfdoubles.Sched{{At: 6, Ev: vfdoubles.MigEv{Kind: "F", Key: "ac", Slot: cpNew + 1}},
			{At: 8, Ev: vfdoubles.MigEv{Kind: "F", Key: "cb", Slot: x + 1}}}
		return scn
	}
	var tags []string
	if scn.CloseOutside {
		scn.StallOn, scn.StallNode = true, r.Intn(3)
		tags = vfoTagsOnNode(scn.StallNode, 2, name)
	} else if scn.CpBatch {
		// all data on one node that is not the checkpoint key's node
		scn.StallOn, scn.StallNode = true, (cpNode+1)%3
		tags = vfoTagsOnNode(scn.StallNode, 2, name)
	} else if scn.CpRetry {
		tags = vfoTagsOnNode(vfdoubles.ClusterSlot("vfcp")*3/16384, 2, name)
		scn.BC = 50
	} else if scn.Txn && scn.Restart {
		// one tag: when its slot moves all data moves together, so the run after the restart (fresh slot
		// map) still has one-node batches; the checkpoint key stays where it is (its own batch)
		tags = vfoTagsOnNode(cpNode, 1, name)
	} else if scn.Txn && scn.Resume {
		tags = vfoTagsOnNode(cpNode, r.Range(2, 3), name) // a transactional batch is one node: the checkpoint key's
	} else if scn.Txn {
		tags = vfoTagsOnNode(r.Intn(3), r.Range(2, 3), name)
	} else {
		for t := 0; t < r.Range(2, 4); t++ {
			tags = append(tags, fmt.Sprintf("p%d%s", t, name))
		}
	}
	tagKeys := make([][]int, len(tags))
	for t, tg := range tags {
		for j := 0; j < r.Range(1, 2); j++ {
			tagKeys[t] = append(tagKeys[t], len(scn.Keys))
			scn.Keys = append(scn.Keys, fmt.Sprintf("k%d{%s}", j, tg))
		}
	}
	n := r.Range(4, 16)
	if scn.Fault != "" {
		// long enough that commands remain unsent when the run stops (the final
		// error class is then read off a run that returned by itself)
		n = 24
		scn.FaultAt = r.Intn(2)
	}
	if scn.Restart {
		n = r.Range(8, 16)
		scn.BC = r.Range(2, 4)
		if scn.Fault != "" {
			scn.FaultAt = r.Range(2, n/2)
		}
	}
	if scn.NoFollow {
		scn.BC = r.Range(2, 3)
		n = r.Range(6, 10)
	}
	if scn.CpBatch {
		n, scn.FaultAt = 6, 0
		// exactly one / two data commands queued when the position is flushed
		if force == "cpbatch-block-1" {
			n = 1
		} else if force == "cpbatch-block-2" {
			n = 2
		}
	}
	if scn.CloseOutside {
		n, scn.BC = 8, 1
	}
	if scn.Lone {
		n = r.Range(3, 6)
	}
	for i := 0; i < n; i++ {
		t := r.Intn(len(tags))
		scn.Cmds = append(scn.Cmds, vfoCmd{ID: i + 1, Key: vfutil.Pick(r, tagKeys[t])})
	}
	if scn.PutErr {
		// one key on another node; the command in the middle of the stream is an MSET over both
		bi := len(scn.Cmds) / 2
		if scn.LoneLast {
			bi = len(scn.Cmds) - 1
		}
		base := vfdoubles.ClusterSlot(scn.Keys[scn.Cmds[bi].Key]) * 3 / 16384
		other := vfoTagsOnNode((base+1)%3, 1, name+"y")
		scn.Keys = append(scn.Keys, fmt.Sprintf("ky{%s}", other[0]))
		scn.Cmds[bi].Key2 = len(scn.Keys)
		if scn.Lone {
			scn.BC = 1
		} else if scn.BC < 2 {
			scn.BC = 2
		}
		return scn
	}
	if scn.Cross {
		// one key on another node, used in the middle of the stream
		base := vfdoubles.ClusterSlot(scn.Keys[0]) * 3 / 16384
		other := vfoTagsOnNode((base+1)%3, 1, name+"x")
		scn.Keys = append(scn.Keys, fmt.Sprintf("kx{%s}", other[0]))
		scn.Cmds[len(scn.Cmds)/2].Key = len(scn.Keys) - 1
		if scn.BC < 2 {
			scn.BC = 2
		}
		return scn
	}
	if scn.Fault != "" || scn.CpRetry || scn.CloseOutside {
		return scn // faults on a stable cluster; cp-retry has its own schedule
	}
	// migration schedule by request count; a slot never returns to a node it left
	nev := r.Range(1, 3)
	if force != "" {
		nev = 1
	}
	used := map[int]bool{}
	at := 0
	for e := 0; e < nev; e++ {
		t := r.Intn(len(tags))
		if used[t] {
			continue
		}
		used[t] = true
		slot := vfdoubles.ClusterSlot(scn.Keys[tagKeys[t][0]])
		own := slot * 3 / 16384
		dst := (own + 1 + r.Intn(2)) % 3
		at += r.Intn(n/2 + 1)
		if force != "" {
			at = r.Intn(n / 2)
		}
		if force == "txn-block-resume" || force == "txn-pipe-resume" {
			// the slot of the first command has moved before the run starts: its first batch carries a
			// command answered MOVED (not followed) and, behind it in the same pipeline, the position
			at = 0
			scn.Cmds[0].Key = tagKeys[t][0]
		}
		if force == "nofollow-pipe" {
			at = 0
			scn.StallOn, scn.StallNode = true, own
			// the commands of the moved slot come last in the stream: when their batch is answered
			// (MOVED, after the stall) everything else has been received and the sender loop is idle
			inTag := func(k int) bool {
				for _, x := range tagKeys[t] {
					if x == k {
						return true
					}
				}
				return false
			}
			var first, lastPart []vfoCmd
			for _, c := range scn.Cmds {
				if inTag(c.Key) {
					lastPart = append(lastPart, c)
				} else {
					first = append(first, c)
				}
			}
			if len(lastPart) == 0 {
				lastPart = append(lastPart, vfoCmd{Key: tagKeys[t][0]})
			}
			if len(first) == 0 {
				first = append(first, vfoCmd{Key: tagKeys[(t+1)%len(tags)][0]})
			}
			scn.Cmds = append(first, lastPart...)
			for i := range scn.Cmds {
				scn.Cmds[i].ID = i + 1
			}
		}
		if !scn.Txn && !scn.NoFollow && r.Bool() {
			scn.During = append(scn.During, vfdoubles.Sched{At: at, Ev: vfdoubles.MigEv{Kind: "g", Slot: slot, Dst: dst}})
			for _, k := range tagKeys[t] {
				if r.Bool() {
					scn.During = append(scn.During, vfdoubles.Sched{At: at + r.Intn(3), Ev: vfdoubles.MigEv{Kind: "k", Key: scn.Keys[k]}})
				}
			}
			if r.Bool() {
				scn.During = append(scn.During, vfdoubles.Sched{At: at + 3 + r.Intn(4), Ev: vfdoubles.MigEv{Kind: "f", Slot: slot}})
			}
		} else {
			scn.During = append(scn.During, vfdoubles.Sched{At: at, Ev: vfdoubles.MigEv{Kind: "v", Slot: slot, Dst: dst}})
		}
	}
	return scn
}

func vfoOne(t *testing.T, s *vfutil.Session, idx int, scn *vfoScn) (nops int) {
	nops = 1
	// the tag is the scenario's NAME (stable across runs: the number of ops a scenario yields depends on its outcome, so
	// an op index does not identify it); VERIF_C19_DUMP=<tag> prints the scenario, VERIF_C19_ONLY=<name> runs it alone
	tag := "#" + scn.Name
	_ = idx
	res, err := vfoRun(scn)
	if err != nil {
		s.Count("run_error")
		s.Op("c19o "+tag+" 0 0 none send always", tag+" harness-error")
		return
	}
	redirects := 0
	trace1 := res.Trace
	for i, e := range res.Trace {
		if e == "Z" {
			trace1 = res.Trace[:i]
			break
		}
	}
	for _, e := range trace1 {
		p := strings.Split(e, ":")
		if p[0] == "q" && (p[4][0] == 'm' || p[4][0] == 'a') {
			redirects++
			s.Count("out_" + map[byte]string{'m': "moved", 'a': "ask"}[p[4][0]])
		}
		if p[0] == "q" && p[4] == "x" {
			s.Count("out_exec")
		}
	}
	// the error class of the failing batch, where it surfaces (sendFuncOnce = Exec/Dispatch, or
	// the pipelined receiver) and whether every attempt fails (cluster state) or only the first (fault)
	faulted := false
	for _, e := range trace1 {
		if strings.HasPrefix(e, "F:") {
			faulted = true
		}
	}
	follows := !scn.Txn && !scn.NoFollow
	cls, path, pers := "none", "send", "always"
	switch {
	case scn.PutErr && scn.CrossPut:
		cls = "crossslot"
	case scn.PutErr:
		cls = "other" // the router's error, returned by Exec / Dispatch before anything is sent; every attempt fails
	case scn.Txn && scn.Cross:
		cls = "crossslot"
	case scn.CloseOutside:
		cls = "closed" // sendFuncOnce fails because the run was closed: reported at once, nothing re-sent
	case scn.CpRetry:
		// the position batch is answered MOVED to an unreachable node once, the re-sent queue goes through
		cls, pers = "redirect", "once"
	case faulted:
		cls, pers = "other", "once"
		if scn.pipelined() {
			path = "recv"
		}
	case scn.Dim == "cpdown" || scn.Dim == "hole":
		// a node that stays down / a slot that stays unassigned: every attempt fails with an ordinary error
		cls = "other"
		if scn.pipelined() {
			path = "recv"
		}
	case !follows && redirects > 0:
		cls = "redirect"
		if scn.pipelined() {
			path = "recv"
		}
	}
	// re-sends of a batch: a client that follows redirects makes every command arrive once per
	// send plus once per redirect, so count executions; one that does not, arrivals
	maxN := 0
	execs1, arrivals1 := res.Execs, res.Arrivals
	if res.ZExec >= 0 {
		execs1, arrivals1 = res.Execs[:res.ZExec], res.Arrivals1 // the first run: the one whose decision is compared
	}
	if follows || faulted {
		cnt := map[int]int{}
		for _, e := range execs1 {
			cnt[e.ID]++
			if e.ID >= 0 && cnt[e.ID] > maxN {
				maxN = cnt[e.ID]
			}
		}
	} else {
		for id, n := range arrivals1 {
			if id >= 0 && n > maxN {
				maxN = n
			}
		}
	}
	resends := 0
	if maxN > 1 {
		resends = maxN - 1
	}
	putErrOp, putErrLine := "", ""
	if scn.PutErr {
		// a batch refused by the router never reaches a node: its attempts are read off the client wrapper
		// (B tokens that carry the refused command), what reached the nodes off the double's arrivals
		bad := 0
		for _, c := range scn.Cmds {
			if c.Key2 > 0 {
				bad = c.ID
			}
		}
		attempts := 0
		var batchIDs []string
		for _, e := range trace1 {
			p := strings.Split(e, ":")
			if p[0] != "B" || len(p) != 5 {
				continue
			}
			l := strings.Split(p[2], ",")
			for _, id := range l {
				if id == fmt.Sprint(bad) {
					attempts++
					batchIDs = l
				}
			}
		}
		if scn.Lone {
			// the refused command is alone in the batcher: a sender that reports the refusal never calls Exec / Dispatch
			// on it (no B token); every attempt puts it once
			attempts = 0
			for _, e := range trace1 {
				if strings.HasPrefix(e, "PR:") {
					attempts++
				}
			}
			s.Count("lone_refused_" + scn.CrossCmd)
		}
		resends = 0
		if attempts > 1 {
			resends = attempts - 1
		}
		var puts, reached []string
		keyOfID := map[string]vfoCmd{}
		for _, c := range scn.Cmds {
			keyOfID[fmt.Sprint(c.ID)] = c
		}
		for _, id := range batchIDs {
			c := keyOfID[id]
			if c.Key2 > 0 {
				puts = append(puts, "r")
				continue
			}
			puts = append(puts, fmt.Sprint(vfdoubles.ClusterSlot(scn.Keys[c.Key])*3/16384))
			// the commands of the refused batch come after every acknowledged one: any arrival is of this batch
			for i := 0; i < arrivals1[c.ID]; i++ {
				reached = append(reached, fmt.Sprint(vfdoubles.ClusterSlot(scn.Keys[c.Key])*3/16384))
			}
		}
		sub := "."
		if len(reached) > 0 {
			sub = strings.Join(reached, ",")
		}
		putErrOp = fmt.Sprintf("c19s %%s %d %d %d %s %d -,-,-,-,-,-", vfoB2i(scn.Txn), vfoB2i(scn.pipelined()), vfoB2i(scn.Txn), strings.Join(puts, ","), vfoB2i(scn.CrossPut))
		putErrLine = fmt.Sprintf("%%s attempts=%d submitted=%s final=%s", attempts, sub, res.Final)
		if scn.Lone {
			putErrOp, putErrLine = "", "" // c19s is about a batch WITH node batches; the lone flush is op c19o + the monitors
		}
		if scn.Txn && len(reached) > 0 {
			s.Violate("txn-dispatch-failed-but-submitted", fmt.Sprintf("the batch with cmd %d was refused by the router (every Exec/Dispatch of it failed) but commands of it reached node(s) %s", bad, sub),
				map[string]interface{}{"scenario": fmt.Sprintf("%+v", *scn), "trace": strings.Join(res.Trace, " ")})
		}
	}
	final1 := res.Final
	if res.ZExec >= 0 {
		final1 = res.Final1
	}
	if scn.Txn && cls == "redirect" && final1 != "typology" && !res.Stalled {
		// transactional cluster output: a redirect must end the run with ErrRedisTypologyChanged whoever sees it
		// (sendFunc / handleError -> handleDirectError); keep what is needed to look at a run that did not
		if f, e := os.OpenFile(vfutil.OutDir()+"/C19out.anomalies.txt", os.O_APPEND|os.O_CREATE|os.O_WRONLY, 0o644); e == nil {
			fmt.Fprintf(f, "%s final=%s path=%s err=%v\n  scenario=%+v\n  trace=%s\n", tag, final1, path, res.Err, *scn, strings.Join(res.Trace, " "))
			f.Close()
		}
		s.Count("anomaly_txn_redirect_not_typology")
	}
	if os.Getenv("VERIF_C19_DUMP") == tag {
		fmt.Printf("VFDUMP %s scenario=%+v\n  err=%v final=%s cls=%s path=%s\n  trace=%s\n", tag, *scn, res.Err, res.Final, cls, path, strings.Join(res.Trace, " "))
	}
	s.Op(fmt.Sprintf("c19o %s %d %d %s %s %s", tag, vfoB2i(scn.Txn), vfoB2i(scn.pipelined()), cls, path, pers),
		fmt.Sprintf("%s resends=%d final=%s", tag, resends, final1))
	nops = 1
	if xop, xlines, why := vfoExecOp(tag+".x", scn, res); xop != "" {
		s.Op(xop, xlines...)
		nops++
		s.Count("exec_model_traces")
		for _, w := range [][2]string{{" r:", "refused"}, {" c:", "followed"}, {" F:rd", "fail_redirect"}, {" F:ot", "fail_other"},
			{" ps", "position_batch"}, {" pr", "position_refused"}, {" pc", "position_followed"}, {" R B:", "restart_resend"}, {" F:cs", "fail_crossslot"}} {
			if strings.Contains(xop, w[0]) {
				s.Count("exec_model_" + w[1])
			}
		}
		for _, l := range xlines {
			if strings.Contains(l, "disc=false") {
				s.Count("exec_model_disc_false")
			}
		}
	} else {
		s.Count("exec_model_skipped_" + why)
	}
	if putErrOp != "" {
		t2 := tag + ".s"
		s.Op(fmt.Sprintf(putErrOp, t2), fmt.Sprintf(putErrLine, t2))
		nops++
		s.Count("puterr_traces")
	}
	mode := "plain"
	if scn.Txn {
		mode = "txn"
	}
	if scn.pipelined() {
		mode += "_pipe"
	} else {
		mode += "_block"
	}
	s.Count("mode_" + mode)
	if scn.Dim != "" {
		s.Count("dim_" + scn.Dim)
		if scn.Dim == "cut" {
			s.Count(fmt.Sprintf("dim_cut_at_%d", scn.FaultAt))
			s.Count("dim_cut_" + scn.Fault + "_" + map[bool]string{true: "fired", false: "not-reached"}[faulted])
		}
	}
	// configuration options that reach the sender / the cluster client, by value (dimension audit)
	s.Count(fmt.Sprintf("cfg_enableTransaction_%v", scn.Txn))
	s.Count(fmt.Sprintf("cfg_replayMode_pipeline_%v", scn.Pipeline))
	s.Count(fmt.Sprintf("cfg_pipeline_effective_%v", scn.pipelined()))
	s.Count(fmt.Sprintf("cfg_resumeFromBreakPoint_%v", scn.Resume || scn.CpRetry))
	s.Count(fmt.Sprintf("cfg_handleMoveAskErr_%v", !scn.NoFollow && !scn.Txn))
	if scn.BC >= 6 {
		s.Count("cfg_batchCmdCount_many")
	} else {
		s.Count(fmt.Sprintf("cfg_batchCmdCount_%d", scn.BC))
	}
	s.Count(fmt.Sprintf("cfg_flushBy_%s", map[bool]string{true: "checkpointTicker", false: "count+batchTicker"}[scn.CpBatch || scn.CpRetry || scn.CpMoved]))
	s.Count(fmt.Sprintf("cfg_nodes_%d_of_%d", scn.layout(), map[bool]int{true: scn.Nodes, false: 3}[scn.Nodes > 0]))
	s.Count("final_" + res.Final)
	s.Count("class_" + cls)
	if scn.Fault != "" {
		s.Count("fault_" + scn.Fault)
	}
	if scn.NoFollow {
		s.Count("nofollow")
	}
	if redirects > 0 || scn.Cross || faulted {
		s.Distinct(scn.Name + " " + strings.Join(res.Trace, " "))
	}
	seen := map[string]bool{}
	for _, v := range vfoMonitor(scn, res) {
		s.Count("viol_" + v.what)
		if seen[v.what] {
			continue
		}
		seen[v.what] = true
		s.Violate(v.what, v.detail, map[string]interface{}{
			"scenario": fmt.Sprintf("%+v", *scn), "mode": mode, "final": res.Final, "err": fmt.Sprint(res.Err), "mechanism": v.mechanism,
			"trace": strings.Join(res.Trace, " "),
		})
	}
	return nops
}

func vfoB2i(b bool) int {
	if b {
		return 1
	}
	return 0
}

func TestVerifC19Out(t *testing.T) {
	s := vfutil.NewSession("C19out")
	defer s.Close()
	r := vfutil.NewRand(vfutil.Seed() + 1919)
	idx := 0
	// every mode with a redirect / cross-slot batch at least a few times
	forced := []string{"txn-block-resume", "txn-block", "txn-block", "txn-block", "txn-pipe", "txn-pipe", "txn-cross", "txn-cross",
		"nofollow-block", "nofollow-pipe", "cpbatch-block", "cpbatch-block-1", "cpbatch-block-2", "cpbatch-pipe", "close-outside", "fault", "fault", "fault", "fault", "fault", "fault",
		"txn-pipe-resume", "chase-ac", "cp-chase-ac", "plain-block-crossput", "cpbatch-pipe-cb", "restart-txn-block", "restart-txn-block", "restart-plain-block", "restart-plain-block", "txn-pipe-puterr", "plain-pipe-puterr", "txn-block-puterr",
		// session 5: a multi-key command over two nodes ALONE in its flush, in every sender mode
		"lone-cross:txn-block:del:mid", "lone-cross:txn-block:unlink:last", "lone-cross:txn-pipe:smove:mid", "lone-cross:txn-pipe:del:last",
		"lone-cross:plain-block:del:mid", "lone-cross:plain-block:mset:last", "lone-cross:plain-pipe:unlink:mid", "lone-cross:plain-pipe:del:last",
		"lone-cross:txn-block:mset:last:resume", "lone-cross:plain-block:mset:last:resume"}
	if only := os.Getenv("VERIF_C19_ONLY"); only != "" {
		forced = []string{only}
	}
	for fi, f := range forced {
		idx += vfoOne(t, s, idx, vfoGen(r.Fork(), fmt.Sprintf("f%d", fi), f))
	}
	{
		// repaired defect (94a8b6c): the checkpoint run-id fields were lost when the first checkpoint
		// flush of a run was re-sent after a failed redirect (monitor checkpoint-offset-without-runid)
		idx += vfoOne(t, s, idx, vfoGen(r.Fork(), "fcpretry", "cp-retry"))
	}
	if os.Getenv("VERIF_C19_ONLY") == "" {
		// session 5, dimension audit: connection cut at every request index x node x mode x resume; exact batch sizes; one
		// slot for every key; a node the client does not know; clusters of one and two nodes
		dims := vfoDimList()
		rd := vfutil.NewRand(vfutil.Seed() + 4242)
		// quick: 30 of the non-cut dimensions and 40 cuts, drawn without repetition; thorough: all
		var pick []int
		if vfutil.Tier() == "thorough" {
			for j := range dims {
				pick = append(pick, j)
			}
		} else {
			var cuts, others []int
			for j, dm := range dims {
				if strings.HasPrefix(dm, "cut:") {
					cuts = append(cuts, j)
				} else {
					others = append(others, j)
				}
			}
			shuffle := func(a []int) {
				for i := len(a) - 1; i > 0; i-- {
					j := rd.Intn(i + 1)
					a[i], a[j] = a[j], a[i]
				}
			}
			shuffle(cuts)
			shuffle(others)
			pick = append(append(pick, others[:30]...), cuts[:40]...)
		}
		for _, di := range pick {
			idx += vfoOne(t, s, idx, vfoGen(rd.Fork(), fmt.Sprintf("d%d", di), dims[di]))
		}
	}
	n := vfutil.Scale(60, 4000)
	for i := 0; i < n; i++ {
		idx += vfoOne(t, s, idx, vfoGen(r.Fork(), fmt.Sprintf("g%d", i), ""))
	}
}
