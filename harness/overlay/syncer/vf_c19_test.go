//go:build verif

package syncer

// C19 (sender side): the REAL RedisOutput.sendAof / sendCmdsBatch with a cluster
// target configuration — client.NewRedis(clusterCfg) connected to the cluster
// double (pkg/vfdoubles/cluster.go) — in transactional and plain mode, blocking
// and pipelined, on generated streams while the double answers MOVED / ASK for
// chosen slots from chosen request counts on (migration between/during batches)
// and transactional batches span nodes (client-side CROSSSLOT).
//
//   monitors : per-node execution log of the double — transactional mode: no
//              command executed twice within one run; every command executed at
//              the key's holder; per key no inversion and no gap; a run that
//              ends without a target error executed everything.
//   tie      : the sender's retry/escalation decision table
//              (Model/ClusterSender.lean `sendFunc`): for the observed error
//              class the number of re-sends of the failing batch and the
//              final error class are compared with the model.
//
// Runs in real time (loopback TCP is not durably blocking inside a synctest
// bubble); the 1 s retry sleeps only occur in plain mode when a redirect cannot
// be followed, which the generator does not produce.

import (
	"bufio"
	"context"
	"errors"
	"fmt"
	"io"
	"os"
	"sort"
	"strings"
	"testing"
	"time"

	"github.com/mgtv-tech/redis-GunYu/config"
	"github.com/mgtv-tech/redis-GunYu/pkg/redis/client"
	"github.com/mgtv-tech/redis-GunYu/pkg/redis/client/common"
	"github.com/mgtv-tech/redis-GunYu/pkg/vfdoubles"
	"github.com/mgtv-tech/redis-GunYu/pkg/vfutil"
)

type vfoCmd struct {
	ID  int
	Key int
}

type vfoScn struct {
	Name         string
	Keys         []string
	Txn          bool
	Pipeline     bool
	BC           int
	Cmds         []vfoCmd
	During       []vfdoubles.Sched
	Cross        bool   // transactional stream with a batch spanning two nodes
	NoFollow     bool   // plain mode with handleMoveErr/handleAskErr switched off in the configuration
	Fault        string // er | cb | ac injected at request FaultAt ("" = none)
	FaultAt      int
	CpBatch      bool // only the checkpoint ticker flushes: data commands and checkpoint HSETs share one batch
	CloseOutside bool // the run is closed from outside while the pipelined sender is blocked handing a dispatched batch to the receiver
	StallOn      bool // hold node StallNode until every command routed elsewhere has executed (the sender is then idle)
	StallNode    int
	Resume       bool // plain modes: EnableResumeFromBreakPoint, the checkpoint offset is stored on the target
	CpRetry      bool // resumable run whose FIRST checkpoint flush fails on the checkpoint key's redirect and is retried
}

func vfoEncode(args ...string) []byte {
	var sb strings.Builder
	fmt.Fprintf(&sb, "*%d\r\n", len(args))
	for _, a := range args {
		fmt.Fprintf(&sb, "$%d\r\n%s\r\n", len(a), a)
	}
	return []byte(sb.String())
}

type vfoResult struct {
	Err      error
	Final    string
	Trace    []string
	Execs    []vfdoubles.ClusterExec
	Arrivals map[int]int
	Stalled  bool
	Ends     map[int]int64
}

func vfoRun(scn *vfoScn) (*vfoResult, error) {
	d, err := vfdoubles.NewCluster(3, scn.Keys)
	if err != nil {
		return nil, err
	}
	defer d.Close()
	d.SetBaseLayout(3)
	// serve the client's initial CLUSTER SLOTS, park every later (asynchronous)
	// refresh: the client's map stays what it read at start, so redirects are
	// always needed once a slot has moved (and D22 cannot interfere)
	if !scn.CpRetry {
		d.EnablePark(1)
	}
	sc := append([]vfdoubles.Sched(nil), scn.During...)
	cpSlot := vfdoubles.ClusterSlot("vfcp")
	cpOwner := cpSlot * 3 / 16384
	cpNew := (cpOwner + 1) % 3
	if scn.CpRetry {
		// the checkpoint key's slot has moved to a node that is unreachable during the first
		// attempt (handleMove fails -> ErrMove -> the sender sleeps 1 s and re-sends the queue);
		// the client's asynchronous refresh is NOT parked here, the node is back before the retry
		sc = append(sc, vfdoubles.Sched{At: 0, Ev: vfdoubles.MigEv{Kind: "v", Slot: cpSlot, Dst: cpNew}},
			vfdoubles.Sched{At: 0, Ev: vfdoubles.MigEv{Kind: "x", Dst: cpNew}})
	}
	if scn.Fault != "" {
		fn := 0
		if scn.CpBatch {
			fn = scn.StallNode + 1 // the fault hits the data node, not the checkpoint node
		}
		sc = append(sc, vfdoubles.Sched{At: scn.FaultAt, Ev: vfdoubles.MigEv{Kind: "F", Key: scn.Fault, Slot: fn}})
	}
	sort.SliceStable(sc, func(i, j int) bool { return sc[i].At < sc[j].At })
	d.SetSchedule(sc)

	cfg := RedisOutputConfig{
		InputName: "vfc19", CheckpointName: "vfcp", RunId: "rid", CanTransaction: scn.Txn,
		EnableResumeFromBreakPoint: scn.CpRetry || scn.Resume, TargetDb: -1,
		BatchCmdCount: uint(scn.BC), BatchBufferSize: 1 << 30,
		BatchTicker: 15 * time.Millisecond, KeepaliveTicker: time.Hour, UpdateCheckpointTicker: time.Hour,
		ReplayPipeline: scn.Pipeline, ReplayRdbParallel: 1,
		Stats: config.OutputStats{DisableLog: true},
	}
	if scn.CpRetry || scn.Resume {
		cfg.UpdateCheckpointTicker = 25 * time.Millisecond
	}
	if scn.StallOn && !scn.CpBatch {
		// forced D29(a) construction: no periodic position writes, so that nothing of the sender is in
		// flight when the stalled node answers; the only position write that can follow is one sent
		// after the receiver saw the failure
		cfg.UpdateCheckpointTicker = time.Hour
	}
	if scn.CpBatch || scn.CpRetry {
		// only the checkpoint ticker flushes: the data commands are in the flush that carries the position
		cfg.BatchTicker = time.Hour
		cfg.BatchCmdCount = 1000
	}
	cfg.Redis.Type = config.RedisTypeCluster
	cfg.Redis.Otype = config.RedisTypeCluster
	cfg.Redis.Addresses = config.SliceString(d.Addrs())
	cfg.Redis.ClusterOptions = &config.RedisClusterOptions{HandleMoveErr: !scn.NoFollow, HandleAskErr: !scn.NoFollow}
	ro := NewRedisOutput(cfg) // transactional + cluster: switches redirect following off
	cpStored := func() bool {
		_, ex, _ := d.Snapshot()
		for _, e := range ex {
			if len(e.Keys) == 1 && e.Keys[0] == "vfcp" && strings.HasSuffix(e.Field, "_offset") {
				return true
			}
		}
		return false
	}
	if scn.StallOn && !scn.CpBatch {
		// sendAof closes the client as soon as the sender loop has returned; a position the sender
		// dispatched just before (asynchronously, through the node pipeline) would race with that
		// Close. Keep the client open until such a write has arrived, or 200 ms have passed without
		// one (the wait only gives a wrong write time to show, it never creates a verdict).
		rc := ro.cfg.Redis
		ro.newRedisConn = func(ctx context.Context) (client.Redis, error) {
			cl, err := client.NewRedis(rc)
			if err != nil {
				return nil, err
			}
			return &vfoHoldClose{Redis: cl, until: cpStored}, nil
		}
	}

	var stream []byte
	ids := make([]int, 0, len(scn.Cmds))
	ends := map[int]int64{} // command id -> stream offset after it
	for _, c := range scn.Cmds {
		stream = append(stream, vfoEncode("set", scn.Keys[c.Key], fmt.Sprintf("#%d", c.ID))...)
		ids = append(ids, c.ID)
		ends[c.ID] = int64(len(stream))
	}
	ctx, cancel := context.WithCancel(context.Background())
	defer cancel()
	pr, pw := io.Pipe()
	done := make(chan error, 1)
	go func() { done <- ro.sendAof(ctx, "rid", bufio.NewReaderSize(pr, 4096), 0, -1) }()
	go func() { pw.Write(stream) }()

	if scn.CpRetry {
		go func() {
			// bring the node back once the first attempt has been answered MOVED to it,
			// well inside the sender's 1 s back-off
			want := fmt.Sprintf(":m%d", cpNew)
			for i := 0; i < 20000; i++ {
				tr, _, _ := d.Snapshot()
				for _, e := range tr {
					if strings.HasPrefix(e, "q:") && strings.HasSuffix(e, want) {
						time.Sleep(300 * time.Millisecond)
						d.Apply(vfdoubles.MigEv{Kind: "u", Dst: cpNew})
						return
					}
				}
				time.Sleep(500 * time.Microsecond)
			}
		}()
	}
	if scn.StallOn {
		// the node that will answer MOVED is slow: its answers arrive when the sender has already
		// dispatched everything and sits idle in its select loop
		d.Stall(scn.StallNode)
		var others []int
		for _, c := range scn.Cmds {
			if vfdoubles.ClusterSlot(scn.Keys[c.Key])*3/16384 != scn.StallNode {
				others = append(others, c.ID)
			}
		}
		go func() {
			if scn.CloseOutside {
				// the node stays silent: the receiver waits for the first batch, the sender dispatches
				// ahead until the hand-over channel is full and blocks there; then the run is closed
				// from outside (leadership change, shutdown …). The node is released a little later, so
				// whatever was dispatched shows up in its execution log.
				for i := 0; i < 40000 && d.HeldCount() == 0; i++ {
					time.Sleep(250 * time.Microsecond)
				}
				time.Sleep(150 * time.Millisecond) // lets the sender fill the channel; only detection power depends on it
				cancel()
				// give a faulty sender time to dispatch again, then let the node answer (the client's
				// Close waits for its node pipeline, which waits for the node)
				time.Sleep(150 * time.Millisecond)
				d.Unstall(scn.StallNode)
				return
			}
			if scn.CpBatch {
				// the data node answers only after the checkpoint node has applied the offset - or,
				// when no offset comes although the data node has been holding its commands for
				// 300 ms, without it: that is the repaired sender (position only after the data went
				// through); the time only bounds how long a correct sender is kept waiting
				held := 0
				for i := 0; i < 40000 && !cpStored() && held < 1200; i++ {
					if d.HeldCount() > 0 {
						held++
					}
					time.Sleep(250 * time.Microsecond)
				}
			} else {
				for i := 0; i < 40000 && !d.AllExecuted(others); i++ {
					time.Sleep(250 * time.Microsecond)
				}
			}
			for i := 0; i < 40000 && d.HeldCount() == 0; i++ {
				time.Sleep(250 * time.Microsecond)
			}
			d.Unstall(scn.StallNode)
		}()
	}
	res := &vfoResult{}
	// No real-time decision: the input is closed only when every command has
	// EXECUTED (so nothing can be reported lost because of when the input ended),
	// or the run has already returned by itself (a reported error). Only a run
	// that does neither within the deadline is judged, as "sender-stalled".
	finished := false
	dl := time.Now().Add(12 * time.Second)
	for !finished {
		if d.AllExecuted(ids) {
			if !scn.CpRetry {
				break
			}
			// resumable run: also wait for the checkpoint offset to be stored
			_, ex, _ := d.Snapshot()
			stored := false
			for _, e := range ex {
				if len(e.Keys) == 1 && e.Keys[0] == "vfcp" && strings.HasSuffix(e.Field, "_offset") {
					stored = true
				}
			}
			if stored {
				break
			}
		}
		select {
		case res.Err = <-done:
			finished = true
		default:
			if time.Now().After(dl) {
				res.Stalled = true
				finished = true
				cancel()
				res.Err = <-done
			} else {
				time.Sleep(200 * time.Microsecond)
			}
		}
	}
	if scn.CloseOutside {
		// the run has returned: wait until the node's execution log is stable
		prev, same := -1, 0
		for i := 0; i < 400 && same < 20; i++ {
			_, ex, _ := d.Snapshot()
			if len(ex) == prev {
				same++
			} else {
				prev, same = len(ex), 0
			}
			time.Sleep(5 * time.Millisecond)
		}
	}
	early := finished // returned before the input ended: a target error was reported
	if !finished {
		pw.Close()
		select {
		case res.Err = <-done:
		case <-time.After(20 * time.Second):
			res.Stalled = true
			cancel()
			res.Err = <-done
		}
	}
	pr.Close()
	switch {
	case errors.Is(res.Err, ErrRedisTypologyChanged):
		res.Final = "typology"
	case errors.Is(res.Err, ErrBreak):
		res.Final = "break"
	case errors.Is(res.Err, common.ErrMove) || errors.Is(res.Err, common.ErrAsk):
		res.Final = "other" // plain mode: the raw redirect error closes the run
	case !early:
		res.Final = "eof"
	default:
		res.Final = "other"
	}
	res.Trace, res.Execs, _ = d.Snapshot()
	res.Arrivals = d.Arrivals()
	res.Ends = ends
	if os.Getenv("VERIF_DEBUG") != "" && (scn.CpRetry || (scn.Resume && scn.NoFollow)) {
		fmt.Printf("VFDEBUG cp-retry err=%v final=%s\n  trace=%s\n", res.Err, res.Final, strings.Join(res.Trace, " "))
		for _, e := range res.Execs {
			fmt.Printf("  exec node=%d id=%d keys=%v field=%s value=%s\n", e.Node, e.ID, e.Keys, e.Field, e.Value)
		}
	}
	return res, nil
}

// vfoHoldClose delays Close of the real cluster client (see vfoRun).
type vfoHoldClose struct {
	client.Redis
	until func() bool
}

func (h *vfoHoldClose) Close() error {
	for i := 0; i < 400 && !h.until(); i++ {
		time.Sleep(500 * time.Microsecond)
	}
	return h.Redis.Close()
}

type vfoViol struct{ what, detail, mechanism string }

func vfoMonitor(scn *vfoScn, res *vfoResult) []vfoViol {
	var out []vfoViol
	keyOf := map[int]int{}
	perKey := map[int][]int{} // source ids per key
	for _, c := range scn.Cmds {
		keyOf[c.ID] = c.Key
		perKey[c.Key] = append(perKey[c.Key], c.ID)
	}
	count := map[int]int{}
	last := map[int]int{}
	has := map[int]bool{}
	for _, e := range res.Execs {
		if e.ID < 0 {
			continue
		}
		for i := range e.Keys {
			if e.Holder[i] != e.Node {
				out = append(out, vfoViol{"exec-not-at-holder", fmt.Sprintf("cmd %d executed at node %d, key lives at node %d", e.ID, e.Node, e.Holder[i]), ""})
			}
		}
		count[e.ID]++
		k := keyOf[e.ID]
		if count[e.ID] > 1 && scn.Txn {
			out = append(out, vfoViol{"txn-double-exec", fmt.Sprintf("cmd %d executed %d times within one run", e.ID, count[e.ID]), ""})
		} else {
			if count[e.ID] > 1 {
				// plain mode: the sender re-sent a failed batch (a repeated suffix): the
				// per-key order check restarts at this command
				for kk := range last {
					if last[kk] >= e.ID {
						last[kk] = e.ID - 1
					}
				}
			}
			if has[k] && e.ID < last[k] {
				out = append(out, vfoViol{"per-key-inversion", fmt.Sprintf("key %s: cmd %d took effect after cmd %d", scn.Keys[k], e.ID, last[k]), ""})
			}
			// no gap: every earlier command of this key has executed already — unless
			// the run reports an error (a reported restart covers the hole: in pipelined
			// mode batches already in flight execute past a failed one)
			for _, id := range perKey[k] {
				if res.Final != "eof" {
					break
				}
				if id >= e.ID {
					break
				}
				if count[id] == 0 {
					out = append(out, vfoViol{"per-key-gap", fmt.Sprintf("key %s: cmd %d took effect although cmd %d never did", scn.Keys[k], e.ID, id), ""})
					break
				}
			}
		}
		if !has[k] || e.ID > last[k] {
			last[k] = e.ID
		}
		has[k] = true
	}
	if res.Final == "eof" && !res.Stalled {
		for _, c := range scn.Cmds {
			if count[c.ID] == 0 {
				out = append(out, vfoViol{"lost-command", fmt.Sprintf("run ended without a target error but cmd %d was never executed", c.ID), ""})
				break
			}
		}
	}
	// resumable run: an offset stored in the checkpoint hash is useless (run id "?" on the next
	// start) unless the run id / version fields were stored for this run before it
	hasRunID := false
	for _, e := range res.Execs {
		if len(e.Keys) == 1 && e.Keys[0] == "vfcp" {
			if strings.HasSuffix(e.Field, "_runid") {
				hasRunID = true
			} else if strings.HasSuffix(e.Field, "_offset") && !hasRunID {
				out = append(out, vfoViol{"checkpoint-offset-without-runid", "hset vfcp " + e.Field + " took effect, but the run id / version fields of this run were never stored (the failed first attempt carried them, the re-sent batch did not)", ""})
				break
			}
		}
	}
	// the position stored on the target must not cover a command that never took effect: a restart
	// resumes behind it (silent loss)
	maxCp := int64(-1)
	for _, e := range res.Execs {
		if len(e.Keys) == 1 && e.Keys[0] == "vfcp" && strings.HasSuffix(e.Field, "_offset") {
			var n int64
			if _, err := fmt.Sscan(e.Value, &n); err == nil && n > maxCp {
				maxCp = n
			}
		}
	}
	if maxCp >= 0 {
		for _, c := range scn.Cmds {
			if res.Ends[c.ID] <= maxCp && count[c.ID] == 0 {
				// mechanism, read off the global trace: was the covering offset applied before the
				// node's failing answer to this command (both travelled in one batch, node batches
				// run concurrently), or was it sent after that answer (sender went on after a failure)?
				cpPos, failPos, k := -1, -1, 0
				var cpExecs []vfdoubles.ClusterExec
				for _, e := range res.Execs {
					if e.ID < 0 {
						cpExecs = append(cpExecs, e)
					}
				}
				for i, ev := range res.Trace {
					p := strings.Split(ev, ":")
					if p[0] != "q" || len(p) != 5 {
						continue
					}
					if p[2] == "-1" && p[4] == "x" {
						if k < len(cpExecs) && cpPos < 0 && strings.HasSuffix(cpExecs[k].Field, "_offset") {
							var n int64
							fmt.Sscan(cpExecs[k].Value, &n)
							if n >= res.Ends[c.ID] {
								cpPos = i
							}
						}
						k++
					} else if p[2] == fmt.Sprint(c.ID) && p[4] != "x" && failPos < 0 {
						failPos = i
					}
				}
				mech := "offset-sent-after-failed-answer"
				if failPos < 0 {
					mech = "command-never-reached-a-node"
				} else if cpPos >= 0 && cpPos < failPos {
					mech = "offset-applied-before-failed-answer"
				}
				if scn.Txn && !scn.Pipeline {
					// one node, one pipeline (the cluster client does not send MULTI/EXEC): the position
					// travelled behind the failing command in the same write
					mech = "offset-in-same-pipeline-as-failed-command"
				}
				if scn.Pipeline && !(scn.StallOn && !scn.CpBatch) {
					// pipelined mode dispatches positions (checkpoint ticker) while earlier data batches
					// are dispatched but not yet acknowledged; whether such a write reaches its node before
					// or after another node's failing answer is a matter of arrival order, which the
					// nodes' trace cannot tell from "sent after the failure was seen". Only the forced
					// construction (sender idle, no periodic position writes) can assert the latter.
					mech = "pipelined-position-before-acknowledgement"
				}
				out = append(out, vfoViol{"checkpoint-ahead-of-execution", fmt.Sprintf("stored offset %d covers cmd %d (ends at %d), which never took effect (%s); run ended with %s (%v)",
					maxCp, c.ID, res.Ends[c.ID], mech, res.Final, res.Err), mech})
				break
			}
		}
	}
	if scn.Txn {
		// transactional mode never follows a redirect nor re-sends: a command reaches a node once
		for _, c := range scn.Cmds {
			if res.Arrivals[c.ID] > 1 {
				out = append(out, vfoViol{"txn-batch-dispatched-twice", fmt.Sprintf("cmd %d reached a node %d times within one run (its batch was dispatched again)", c.ID, res.Arrivals[c.ID]), ""})
				break
			}
		}
	}
	if res.Stalled {
		out = append(out, vfoViol{"sender-stalled", fmt.Sprintf("sendAof neither finished the stream nor returned (err=%v)", res.Err), ""})
	}
	return out
}

// same-node tags for transactional scenarios: the sender puts a whole batch
// on one node or fails with CROSSSLOT
func vfoTagsOnNode(node int, n int, salt string) []string {
	var out []string
	for i := 0; len(out) < n && i < 10000; i++ {
		t := fmt.Sprintf("o%d%s", i, salt)
		if vfdoubles.ClusterSlot("{"+t+"}")*3/16384 == node {
			out = append(out, t)
		}
	}
	return out
}

func vfoGen(r *vfutil.Rand, name string, force string) *vfoScn {
	scn := &vfoScn{Name: name, BC: r.Range(1, 5)}
	switch force {
	case "txn-block-resume":
		// transactional, blocking, resumable: the batch carries the position; the cluster client drops
		// MULTI/EXEC, so data and position are one plain pipeline on the checkpoint key's node
		scn.Txn, scn.Resume = true, true
	case "txn-block":
		scn.Txn = true
	case "txn-pipe":
		scn.Txn, scn.Pipeline = true, true
	case "txn-cross":
		scn.Txn, scn.Cross, scn.Pipeline = true, true, r.Bool()
	case "cp-retry":
		scn.CpRetry = true
	case "nofollow-block":
		scn.NoFollow = true
	case "close-outside":
		scn.Txn, scn.Pipeline, scn.CloseOutside = true, true, true
	case "cpbatch-block", "cpbatch-block-1", "cpbatch-block-2":
		scn.CpBatch, scn.Resume, scn.Fault = true, true, "er"
	case "cpbatch-pipe":
		scn.CpBatch, scn.Resume, scn.Fault, scn.Pipeline = true, true, "er", true
	case "nofollow-pipe":
		scn.NoFollow, scn.Pipeline = true, true
	case "fault":
		scn.Txn, scn.Pipeline = r.Bool(), r.Bool()
		scn.Fault = vfutil.Pick(r, []string{"er", "cb", "ac"})
		scn.BC = r.Range(1, 2)
	default:
		scn.Txn = r.Chance(1, 2)
		scn.Pipeline = r.Bool()
		scn.Cross = scn.Txn && r.Chance(1, 6)
		if r.Chance(1, 4) {
			scn.Fault = vfutil.Pick(r, []string{"er", "cb", "ac"})
			scn.BC = r.Range(1, 2)
			scn.Cross = false
		}
	}
	if !scn.Txn && !scn.CpRetry && (force == "nofollow-pipe" || force == "nofollow-block" || r.Bool()) {
		scn.Resume = true
	}
	cpNode := vfdoubles.ClusterSlot("vfcp") * 3 / 16384
	var tags []string
	if scn.CloseOutside {
		scn.StallOn, scn.StallNode = true, r.Intn(3)
		tags = vfoTagsOnNode(scn.StallNode, 2, name)
	} else if scn.CpBatch {
		// all data on one node that is not the checkpoint key's node
		scn.StallOn, scn.StallNode = true, (cpNode+1)%3
		tags = vfoTagsOnNode(scn.StallNode, 2, name)
	} else if scn.CpRetry {
		tags = vfoTagsOnNode(vfdoubles.ClusterSlot("vfcp")*3/16384, 2, name)
		scn.BC = 50
	} else if scn.Txn && scn.Resume {
		tags = vfoTagsOnNode(cpNode, r.Range(2, 3), name) // a transactional batch is one node: the checkpoint key's
	} else if scn.Txn {
		tags = vfoTagsOnNode(r.Intn(3), r.Range(2, 3), name)
	} else {
		for t := 0; t < r.Range(2, 4); t++ {
			tags = append(tags, fmt.Sprintf("p%d%s", t, name))
		}
	}
	tagKeys := make([][]int, len(tags))
	for t, tg := range tags {
		for j := 0; j < r.Range(1, 2); j++ {
			tagKeys[t] = append(tagKeys[t], len(scn.Keys))
			scn.Keys = append(scn.Keys, fmt.Sprintf("k%d{%s}", j, tg))
		}
	}
	n := r.Range(4, 16)
	if scn.Fault != "" {
		// long enough that commands remain unsent when the run stops (the final
		// error class is then read off a run that returned by itself)
		n = 24
		scn.FaultAt = r.Intn(2)
	}
	if scn.NoFollow {
		scn.BC = r.Range(2, 3)
		n = r.Range(6, 10)
	}
	if scn.CpBatch {
		n, scn.FaultAt = 6, 0
		// exactly one / two data commands queued when the position is flushed
		if force == "cpbatch-block-1" {
			n = 1
		} else if force == "cpbatch-block-2" {
			n = 2
		}
	}
	if scn.CloseOutside {
		n, scn.BC = 8, 1
	}
	for i := 0; i < n; i++ {
		t := r.Intn(len(tags))
		scn.Cmds = append(scn.Cmds, vfoCmd{ID: i + 1, Key: vfutil.Pick(r, tagKeys[t])})
	}
	if scn.Cross {
		// one key on another node, used in the middle of the stream
		base := vfdoubles.ClusterSlot(scn.Keys[0]) * 3 / 16384
		other := vfoTagsOnNode((base+1)%3, 1, name+"x")
		scn.Keys = append(scn.Keys, fmt.Sprintf("kx{%s}", other[0]))
		scn.Cmds[len(scn.Cmds)/2].Key = len(scn.Keys) - 1
		if scn.BC < 2 {
			scn.BC = 2
		}
		return scn
	}
	if scn.Fault != "" || scn.CpRetry || scn.CloseOutside {
		return scn // faults on a stable cluster; cp-retry has its own schedule
	}
	// migration schedule by request count; a slot never returns to a node it left
	nev := r.Range(1, 3)
	if force != "" {
		nev = 1
	}
	used := map[int]bool{}
	at := 0
	for e := 0; e < nev; e++ {
		t := r.Intn(len(tags))
		if used[t] {
			continue
		}
		used[t] = true
		slot := vfdoubles.ClusterSlot(scn.Keys[tagKeys[t][0]])
		own := slot * 3 / 16384
		dst := (own + 1 + r.Intn(2)) % 3
		at += r.Intn(n/2 + 1)
		if force != "" {
			at = r.Intn(n / 2)
		}
		if force == "txn-block-resume" {
			// the slot of the first command has moved before the run starts: its first batch carries a
			// command answered MOVED (not followed) and, behind it in the same pipeline, the position
			at = 0
			scn.Cmds[0].Key = tagKeys[t][0]
		}
		if force == "nofollow-pipe" {
			at = 0
			scn.StallOn, scn.StallNode = true, own
			// the commands of the moved slot come last in the stream: when their batch is answered
			// (MOVED, after the stall) everything else has been received and the sender loop is idle
			inTag := func(k int) bool {
				for _, x := range tagKeys[t] {
					if x == k {
						return true
					}
				}
				return false
			}
			var first, lastPart []vfoCmd
			for _, c := range scn.Cmds {
				if inTag(c.Key) {
					lastPart = append(lastPart, c)
				} else {
					first = append(first, c)
				}
			}
			if len(lastPart) == 0 {
				lastPart = append(lastPart, vfoCmd{Key: tagKeys[t][0]})
			}
			if len(first) == 0 {
				first = append(first, vfoCmd{Key: tagKeys[(t+1)%len(tags)][0]})
			}
			scn.Cmds = append(first, lastPart...)
			for i := range scn.Cmds {
				scn.Cmds[i].ID = i + 1
			}
		}
		if !scn.Txn && !scn.NoFollow && r.Bool() {
			scn.During = append(scn.During, vfdoubles.Sched{At: at, Ev: vfdoubles.MigEv{Kind: "g", Slot: slot, Dst: dst}})
			for _, k := range tagKeys[t] {
				if r.Bool() {
					scn.During = append(scn.During, vfdoubles.Sched{At: at + r.Intn(3), Ev: vfdoubles.MigEv{Kind: "k", Key: scn.Keys[k]}})
				}
			}
			if r.Bool() {
				scn.During = append(scn.During, vfdoubles.Sched{At: at + 3 + r.Intn(4), Ev: vfdoubles.MigEv{Kind: "f", Slot: slot}})
			}
		} else {
			scn.During = append(scn.During, vfdoubles.Sched{At: at, Ev: vfdoubles.MigEv{Kind: "v", Slot: slot, Dst: dst}})
		}
	}
	return scn
}

func vfoOne(t *testing.T, s *vfutil.Session, idx int, scn *vfoScn) {
	tag := fmt.Sprintf("#%d", idx)
	res, err := vfoRun(scn)
	if err != nil {
		s.Count("run_error")
		s.Op("c19o "+tag+" 0 0 none send always", tag+" harness-error")
		return
	}
	redirects := 0
	for _, e := range res.Trace {
		p := strings.Split(e, ":")
		if p[0] == "q" && (p[4][0] == 'm' || p[4][0] == 'a') {
			redirects++
			s.Count("out_" + map[byte]string{'m': "moved", 'a': "ask"}[p[4][0]])
		}
		if p[0] == "q" && p[4] == "x" {
			s.Count("out_exec")
		}
	}
	// the error class of the failing batch, where it surfaces (sendFuncOnce = Exec/Dispatch, or
	// the pipelined receiver) and whether every attempt fails (cluster state) or only the first (fault)
	faulted := false
	for _, e := range res.Trace {
		if strings.HasPrefix(e, "F:") {
			faulted = true
		}
	}
	follows := !scn.Txn && !scn.NoFollow
	cls, path, pers := "none", "send", "always"
	switch {
	case scn.Txn && scn.Cross:
		cls = "crossslot"
	case scn.CloseOutside:
		cls = "closed" // sendFuncOnce fails because the run was closed: reported at once, nothing re-sent
	case scn.CpRetry:
		// the position batch is answered MOVED to an unreachable node once, the re-sent queue goes through
		cls, pers = "redirect", "once"
	case faulted:
		cls, pers = "other", "once"
		if scn.Pipeline {
			path = "recv"
		}
	case !follows && redirects > 0:
		cls = "redirect"
		if scn.Pipeline {
			path = "recv"
		}
	}
	// re-sends of a batch: a client that follows redirects makes every command arrive once per
	// send plus once per redirect, so count executions; one that does not, arrivals
	maxN := 0
	if follows || faulted {
		cnt := map[int]int{}
		for _, e := range res.Execs {
			cnt[e.ID]++
			if e.ID >= 0 && cnt[e.ID] > maxN {
				maxN = cnt[e.ID]
			}
		}
	} else {
		for id, n := range res.Arrivals {
			if id >= 0 && n > maxN {
				maxN = n
			}
		}
	}
	resends := 0
	if maxN > 1 {
		resends = maxN - 1
	}
	s.Op(fmt.Sprintf("c19o %s %d %d %s %s %s", tag, vfoB2i(scn.Txn), vfoB2i(scn.Pipeline), cls, path, pers),
		fmt.Sprintf("%s resends=%d final=%s", tag, resends, res.Final))
	mode := "plain"
	if scn.Txn {
		mode = "txn"
	}
	if scn.Pipeline {
		mode += "_pipe"
	} else {
		mode += "_block"
	}
	s.Count("mode_" + mode)
	s.Count("final_" + res.Final)
	s.Count("class_" + cls)
	if scn.Fault != "" {
		s.Count("fault_" + scn.Fault)
	}
	if scn.NoFollow {
		s.Count("nofollow")
	}
	if redirects > 0 || scn.Cross || faulted {
		s.Distinct(scn.Name + " " + strings.Join(res.Trace, " "))
	}
	seen := map[string]bool{}
	for _, v := range vfoMonitor(scn, res) {
		s.Count("viol_" + v.what)
		if seen[v.what] {
			continue
		}
		seen[v.what] = true
		s.Violate(v.what, v.detail, map[string]interface{}{
			"scenario": fmt.Sprintf("%+v", *scn), "mode": mode, "final": res.Final, "err": fmt.Sprint(res.Err), "mechanism": v.mechanism,
			"trace": strings.Join(res.Trace, " "),
		})
	}
}

func vfoB2i(b bool) int {
	if b {
		return 1
	}
	return 0
}

func TestVerifC19Out(t *testing.T) {
	s := vfutil.NewSession("C19out")
	defer s.Close()
	r := vfutil.NewRand(vfutil.Seed() + 1919)
	idx := 0
	// every mode with a redirect / cross-slot batch at least a few times
	forced := []string{"txn-block-resume", "txn-block", "txn-block", "txn-block", "txn-pipe", "txn-pipe", "txn-cross", "txn-cross",
		"nofollow-block", "nofollow-pipe", "cpbatch-block", "cpbatch-block-1", "cpbatch-block-2", "cpbatch-pipe", "close-outside", "fault", "fault", "fault", "fault", "fault", "fault"}
	if only := os.Getenv("VERIF_C19_ONLY"); only != "" {
		forced = []string{only}
	}
	for _, f := range forced {
		vfoOne(t, s, idx, vfoGen(r.Fork(), fmt.Sprintf("f%d", idx), f))
		idx++
	}
	{
		// repaired defect (94a8b6c): the checkpoint run-id fields were lost when the first checkpoint
		// flush of a run was re-sent after a failed redirect (monitor checkpoint-offset-without-runid)
		vfoOne(t, s, idx, vfoGen(r.Fork(), fmt.Sprintf("f%d", idx), "cp-retry"))
		idx++
	}
	n := vfutil.Scale(60, 4000)
	for i := 0; i < n; i++ {
		vfoOne(t, s, idx, vfoGen(r.Fork(), fmt.Sprintf("g%d", i), ""))
		idx++
	}
}
