//go:build verif

package syncer

// C17 - RedisOutput.SetRunId over the life of ONE RedisOutput when the source fails over AGAIN between two calls
// (lean/GunYu/Model/BookRunIdSeq.lean srRun, Props/C17RunIdSeq.lean; op c17sq of lean/GunYu/Drive/C17Seq.lean).
//
// The real SetRunId of one RedisOutput is called with the id of each failover in turn, under virtual time, against the
// target double. Error replies are planted on WRITE requests of chosen attempts (the attempt stops after k writes) and
// on READ requests (the first request of an attempt: the SELECT of GetCheckpointHash; the attempt fails with all - or
// none - of its writes applied, the only way an attempt that has nothing left to write can fail: AttemptF.rfail).
// Tie: per attempt the applied requests, per call the return value and the in-memory field, the position the next start
// reads under the ids reported at the end - vs the model. Monitors (lost / smaller / other database only):
//   setrunid-second-failover-loses-position   at every failover the position was readable under the ids reported after
//       it, yet the start after the last call reads none / less / elsewhere. replay.class tells the situation apart:
//       "field-current" (every failover learnt while cfg.RunId was the master id: Props.C17.setRunIdSeq_partial says
//       impossible), "stale-field-db0-records-gone" (finding C17-F1, Props.C17.setRunIdSeq_stmt_refuted),
//       "stale-field-other" (field behind the label, but the old records still present or the position outside DB 0:
//       UpdateCheckpoint finds / merges the position, no loss expected).

import (
	"context"
	"fmt"
	"os"
	"strconv"
	"strings"
	"testing"
	"testing/synctest"

	"github.com/mgtv-tech/redis-GunYu/config"
	"github.com/mgtv-tech/redis-GunYu/pkg/redis/checkpoint"
	"github.com/mgtv-tech/redis-GunYu/pkg/redis/client"
	"github.com/mgtv-tech/redis-GunYu/pkg/vfdoubles"
	"github.com/mgtv-tech/redis-GunYu/pkg/vfutil"
)

// fate of one attempt: w >= 0: the (w+1)-th write request gets an error reply; rd: the first request gets one;
// tail: the LAST request of the attempt gets one after all writes (a read that follows them does not exist in
// UpdateCheckpoint, so this is the error reply to the final write = w = writes-1; kept for the distribution)
type vfSqFate struct {
	w  int
	rd bool
}

type vfSqCase struct {
	seed   uint64
	db0    bool
	twoDbs bool
	nfo    int // failovers after the first call
}

func vfSqParse(op string) (uint64, bool) {
	if !strings.HasPrefix(op, "c17sqcase ") {
		return 0, false
	}
	for _, tok := range strings.Fields(op)[1:] {
		if strings.HasPrefix(tok, "seed=") {
			v, err := strconv.ParseUint(tok[5:], 10, 64)
			return v, err == nil
		}
	}
	return 0, false
}

func vfC17Seq(t *testing.T, s *vfutil.Session, seed uint64, tag *int, src string) {
	r := vfutil.NewRand(seed)
	key := config.CheckpointKey
	old := vfSysId(r)
	ncalls := r.Range(2, 3)
	news := make([]string, ncalls)
	for i := range news {
		news[i] = vfSysId(r)
	}
	st := &checkpoint.VfState{}
	st.Hash = append(st.Hash, [2]string{old, key})
	top := int64(r.Range(1000, 900000))
	dbs := []int{0}
	if r.Chance(1, 3) {
		dbs[0] = 1 + r.Intn(5)
	}
	if r.Bool() {
		dbs = append(dbs, 6+r.Intn(3))
	}
	for i, d := range dbs {
		st.Items = append(st.Items, checkpoint.VfItem{Db: d, Key: key, Fields: [][2]string{{old + "_runid", old}, {old + "_version", config.Version},
			{old + "_offset", strconv.FormatInt(top-int64(i)*40, 10)}}})
	}
	tg0 := vfdoubles.NewTarget()
	st.Seed(tg0)
	base := tg0.LogCopy()
	tg0.CloseAll()

	// the plan: per call three fates. The interesting shape (one case in two): the first call's first attempt stops
	// at its LAST write or one before (hash repointed, old records deleted or about to be), the other attempts fail on
	// their first request - the call fails with the field behind the label
	plan := make([][]vfSqFate, ncalls)
	for c := range plan {
		for i := 0; i < 3; i++ {
			f := vfSqFate{w: -1}
			switch r.Intn(5) {
			case 0:
				f.w = r.Intn(2)
			case 1:
				f.w = r.Range(2, 5)
			case 2:
				f.rd = true
			}
			plan[c] = append(plan[c], f)
		}
	}
	if r.Bool() {
		c := r.Intn(ncalls - 1)
		plan[c] = []vfSqFate{{w: r.Range(2, 2+len(dbs)+1)}, {w: -1, rd: true}, {w: -1, rd: true}}
	}
	const msg = "LOADING Redis is loading the dataset in memory"
	type result struct {
		log     []vfdoubles.LogEntry
		callEnd []int
		rets    []error
		runIds  []string
		pends   []string
	}
	run := func(faults map[int]string) *result {
		res := &result{}
		synctest.Test(t, func(t *testing.T) {
			tf := vfdoubles.Replay(base, 0)
			for k, v := range faults {
				tf.FailAt[k] = v
			}
			ro := vfSysOutput(tf, key, old)
			for c := 0; c < ncalls; c++ {
				err := ro.SetRunId(context.Background(), news[c])
				res.rets = append(res.rets, err)
				res.runIds = append(res.runIds, ro.cfg.RunId)
				res.pends = append(res.pends, ro.pendingRunId)
				res.callEnd = append(res.callEnd, tf.LogLen())
			}
			tf.CloseAll()
			res.log = tf.LogCopy()
		})
		return res
	}
	segments := func(res *result, c int) [][2]int {
		lo := len(base)
		if c > 0 {
			lo = res.callEnd[c-1]
		}
		var segs [][2]int
		for i := lo; i < res.callEnd[c]; i++ {
			if len(segs) == 0 || res.log[i].Conn != res.log[segs[len(segs)-1][0]].Conn {
				segs = append(segs, [2]int{i, i + 1})
			} else {
				segs[len(segs)-1][1] = i + 1
			}
		}
		return segs
	}
	faults := map[int]string{}
	readFault := map[int]bool{}
	done := map[[2]int]bool{}
	var res *result
	for round := 0; round < 16; round++ {
		res = run(faults)
		planted := false
		for c := 0; c < ncalls && !planted; c++ {
			for i, sg := range segments(res, c) {
				if i >= len(plan[c]) || done[[2]int{c, i}] {
					continue
				}
				done[[2]int{c, i}] = true
				f := plan[c][i]
				if f.rd {
					faults[sg[0]] = msg
					readFault[sg[0]] = true
					planted = true
					break
				}
				if f.w < 0 {
					continue
				}
				ws := 0
				for j := sg[0]; j < sg[1]; j++ {
					if _, ok := checkpoint.VfRenderWrite(res.log[j]); ok {
						if ws == f.w {
							faults[j] = msg
							planted = true
							break
						}
						ws++
					}
				}
				if planted {
					break
				}
			}
		}
		if !planted {
			break
		}
	}
	failed := map[int]bool{}
	for j := range faults {
		failed[j] = true
	}
	*tag++
	var steps []string
	var out []string
	mas, sec := news[0], old
	field := old
	pend := ""
	class := "field-current"
	readable := true
	stateAt := func(n int) *vfdoubles.Target { return vfdoubles.ReplayFaults(res.log[:n], 0, false, faults) }
	for c := 0; c < ncalls; c++ {
		if c > 0 {
			// the failover: learnt while the field is / is not the master id; is the position readable afterwards?
			tgc := stateAt(res.callEnd[c-1])
			p := checkpoint.VfStartPoint(tgc, []string{news[c], mas})
			tgc.CloseAll()
			if o, d, ok := vfPosOff(p); !ok || o < top || d != strconv.Itoa(dbs[0]) {
				readable = false // two failovers with no relabel in between: the position is labelled with an id no longer reported
			}
			if field != mas && class != "stale-field-db0-records-gone" {
				class = "stale-field-other"
				if dbs[0] == 0 {
					tgd := stateAt(res.callEnd[c-1])
					dump := checkpoint.VfDumpState(tgd)
					tgd.CloseAll()
					gone := true
					for _, it := range dump.Items {
						for _, fv := range it.Fields {
							if it.Key == key && strings.HasPrefix(fv[0], field+"_") {
								gone = false
							}
						}
					}
					if gone {
						class = "stale-field-db0-records-gone"
					}
				}
			}
			sec, mas = mas, news[c]
			steps = append(steps, "F/"+vfutil.HexS(news[c]))
			out = append(out, fmt.Sprintf("#%d failover %s", *tag, vfutil.HexS(news[c])))
			s.Count("sq_failovers")
		}
		segs := segments(res, c)
		var atts []string
		for i, sg := range segs {
			// the relabel proper starts at the SELECT before `hget <hash> <id of the call>`
			mainAt := -1
			for j := sg[0]; j < sg[1]; j++ {
				e := res.log[j]
				if e.Cmd() == "hget" && len(e.Args) == 3 && string(e.Args[1]) == config.CheckpointKeyHashKey && string(e.Args[2]) == news[c] {
					mainAt = j - 1
					break
				}
			}
			finDue := pend != "" && pend != news[c]
			if !finDue && mainAt < 0 {
				mainAt = sg[0] // the attempt failed at its first request
			}
			fate := func(lo, hi int, what string, last bool) string {
				a := vfSrSegment(res.log[lo:hi], failed, lo)
				hasFault, rf := false, false
				for j := lo; j < hi; j++ {
					hasFault = hasFault || failed[j]
					rf = rf || readFault[j]
				}
				a.done = !hasFault && (!last || (i == len(segs)-1 && res.rets[c] == nil))
				f := 0
				if rf {
					f = 1
					s.Count("sq_read_faults")
				}
				out = append(out, fmt.Sprintf("#%d %s n=%d done=%v", *tag, what, a.k, a.done))
				for _, l := range a.lines {
					out = append(out, fmt.Sprintf("#%d %s", *tag, l))
				}
				return fmt.Sprintf("%d:%d:%s:%s:%d", a.k, a.now, vfDots(a.o1), vfDots(a.o2), f)
			}
			ff, mf := "_", "_"
			if finDue {
				hi := sg[1]
				if mainAt >= 0 {
					hi = mainAt
				}
				ff = fate(sg[0], hi, "fin", false)
				s.Count("sq_finishing_steps")
			}
			if mainAt >= 0 {
				mf = fate(mainAt, sg[1], "att", true)
				pend = news[c]
			}
			atts = append(atts, ff+"|"+mf)
		}
		as := "_"
		if len(atts) > 0 {
			as = strings.Join(atts, "+")
		}
		steps = append(steps, "C/"+as)
		out = append(out, fmt.Sprintf("#%d call ret=%v runId=%s pend=%s", *tag, res.rets[c] == nil, vfutil.HexS(res.runIds[c]), vfSqPend(res.pends[c])))
		field = res.runIds[c]
		pend = res.pends[c]
		if res.rets[c] != nil {
			s.Count("sq_calls_failed")
			if field != mas {
				s.Count("sq_calls_failed_field_behind")
			}
		}
	}
	after := stateAt(len(res.log))
	p := checkpoint.VfStartPoint(after, []string{mas, sec})
	after.CloseAll()
	out = append(out, fmt.Sprintf("#%d end runId=%s pend=%s ids=%s,%s sp=%s", *tag, vfutil.HexS(field), vfSqPend(pend), vfutil.HexS(mas), vfutil.HexS(sec), p))
	s.Op(fmt.Sprintf("c17sp %d %s %s %s %s %s %s %s", *tag, vfutil.HexS(config.Version), vfutil.HexS(key), vfutil.HexS(old), vfutil.HexS(news[0]), vfutil.HexS(old),
		strings.Join(steps, ";"), st.Encode()), out...)
	s.Count("sq_cases")
	s.Count("sq_class_" + class)
	s.Add("sq_faults", len(faults))
	s.Distinct(fmt.Sprintf("sq|%d|%s|%d|%v|%d", ncalls, class, len(dbs), dbs[0] == 0, len(faults)))
	if !readable {
		s.Count("sq_unreadable_after_failover")
		return
	}
	want := fmt.Sprintf("%d@%d", top, dbs[0])
	if o, d, ok := vfPosOff(p); !ok || o < top || d != strconv.Itoa(dbs[0]) {
		s.Violate("setrunid-second-failover-loses-position", fmt.Sprintf("position %s labelled %s..; one RedisOutput, SetRunId called with the ids %v in turn (a failover of the source between two calls; after each failover the position WAS readable under the reported ids), error replies at requests %v (read requests: %v), return values %v, cfg.RunId after each call %v: the next start (ids [%s.., %s..]) reads %s (%s, source %s)",
			want, old[:6], vfSqShort(news), vfSqKeys(faults), vfSqKeysB(readFault), vfSqErrs(res.rets), vfSqShort(res.runIds), mas[:6], sec[:6], p, class, src),
			map[string]interface{}{"op": fmt.Sprintf("c17sqcase seed=%d", seed), "class": class, "before": want, "after": p})
	}
}

func vfSqPend(p string) string {
	if p == "" {
		return "-"
	}
	return vfutil.HexS(p)
}

func vfSqShort(xs []string) []string {
	o := make([]string, len(xs))
	for i, x := range xs {
		o[i] = x
		if len(x) > 6 {
			o[i] = x[:6]
		}
	}
	return o
}

func vfSqKeys(m map[int]string) []int {
	var o []int
	for k := range m {
		o = append(o, k)
	}
	sortInts(o)
	return o
}

func vfSqKeysB(m map[int]bool) []int {
	var o []int
	for k := range m {
		o = append(o, k)
	}
	sortInts(o)
	return o
}

func sortInts(o []int) {
	for i := 1; i < len(o); i++ {
		for j := i; j > 0 && o[j] < o[j-1]; j-- {
			o[j], o[j-1] = o[j-1], o[j]
		}
	}
}

func vfSqErrs(es []error) []bool {
	o := make([]bool, len(es))
	for i, e := range es {
		o[i] = e == nil
	}
	return o
}

// option resumeFromBreakPoint = false (not bidirectional): newOutput leaves CheckpointName "" - the output keeps no
// bookkeeping on the target. A failover inside the process still calls SetRunId(new id): nothing may be written to the
// target (monitor setrunid-writes-without-checkpoint-name; the key "" and an entry of the checkpoint hash would be).
func vfC17NoResume(t *testing.T, s *vfutil.Session, r *vfutil.Rand) {
	old, new := vfSysId(r), vfSysId(r)
	tg := vfdoubles.NewTarget()
	tg.Seed(0, "set", "user", "1")
	if r.Bool() {
		tg.Seed(0, "set", "", "a user key with the empty name")
	}
	n0 := tg.LogLen()
	var err error
	var field string
	synctest.Test(t, func(t *testing.T) {
		ro := NewRedisOutput(RedisOutputConfig{InputName: "vf", CheckpointName: "", RunId: old, EnableResumeFromBreakPoint: false, Redis: checkpoint.VfRedisCfg()})
		ro.newRedisConn = func(ctx context.Context) (client.Redis, error) { return checkpoint.VfConn(tg), nil }
		err = ro.SetRunId(context.Background(), new)
		field = ro.cfg.RunId
		tg.CloseAll()
	})
	s.Count("cfg_resumeFromBreakPoint_false")
	var ws []string
	for _, e := range tg.LogCopy()[n0:] {
		if l, ok := checkpoint.VfRenderWrite(e); ok {
			ws = append(ws, l)
		}
	}
	if len(ws) > 0 || err != nil || field != new {
		s.Violate("setrunid-writes-without-checkpoint-name", fmt.Sprintf("resumeFromBreakPoint false, CheckpointName \"\": SetRunId(%s..) returned %v, cfg.RunId %s.., and issued %d write requests to the target: %v", new[:6], err, field[:6], len(ws), ws),
			map[string]interface{}{"op": "c17noresume", "writes": len(ws)})
	}
}

func TestVerifC17Seq(t *testing.T) {
	s := vfutil.NewSession("C17sq")
	defer s.Close()
	r := vfutil.NewRand(vfutil.Seed() ^ 0x5171)
	tag := 0
	if rp := os.Getenv("VERIF_REPLAY"); rp != "" {
		b, _ := os.ReadFile(rp)
		op := string(b)
		if i := strings.Index(op, "c17sqcase "); i >= 0 {
			op = op[i:]
			if j := strings.IndexAny(op, "\"\n"); j >= 0 {
				op = op[:j]
			}
			if seed, ok := vfSqParse(op); ok {
				vfC17Seq(t, s, seed, &tag, "replay")
			}
		}
		return
	}
	for _, l := range vfutil.Corpus("C17") {
		if seed, ok := vfSqParse(l); ok {
			vfC17Seq(t, s, seed, &tag, "corpus")
		}
	}
	for i := 0; i < 4; i++ {
		vfC17NoResume(t, s, r.Fork())
	}
	for i, n := 0, vfutil.Scale(80, 800); i < n; i++ {
		vfC17Seq(t, s, r.U64(), &tag, "gen")
	}
}
