//go:build verif

package syncer

// C04, session 4 — the EXTENDED frame grammar (Model/RdbFrameX.lean: LZF strings, streams of all four layouts,
// module values, module-aux sections, text-float sorted sets, the chunk continuation of big hashes), the LZF output
// buffer (Model/RdbLzf.lean) and the global lane of cluster bidirectional replay (Model/RdbFanoutG.lean).
//
//   x1  the REAL rdb.ParseRdb (worker child; chunk threshold lowered through rdb.VerifSetMaxBinEntryBuffer, with and
//       without WithFailOnModuleAux) vs the Lean model on every truncation, on every position overwritten with a
//       seed-chosen set of byte values (thorough: all 255 others), on seeded alterations, and the whole channel
//       transcript on the intact file / cuts / altered footers — for generated files that CONTAIN the constructs.
//       NO Go-side walker decides "inside the model" any more: every outcome is compared. The one parameter of the
//       model, strconv.ParseFloat's verdict on a text score, travels with the op (fl=…), computed by strconv itself.
//   x2  the real LZF string reader vs Model/RdbLzf.run: ok/err, output length, and the bytes it allocated against the
//       model's requests (first make, per growth a chunk + a re-allocation) — inputs that are valid, damaged, declare
//       more than they produce, and cross the 64 MiB step.
//   x3  the pipeline (SendRdb) on the LZF / split-hash file: truncations and overwritten bytes, monitor as in section 2.

import (
	"bytes"
	"encoding/binary"
	"fmt"
	"runtime"
	"sort"
	"strconv"
	"strings"
	"sync/atomic"
	"testing"

	"github.com/mgtv-tech/redis-GunYu/pkg/digest"
	"github.com/mgtv-tech/redis-GunYu/pkg/rdb"
	"github.com/mgtv-tech/redis-GunYu/pkg/vfc20"
	"github.com/mgtv-tech/redis-GunYu/pkg/vfutil"
)

// ---------------------------------------------------------------- the real parser with options

// vfC04XTok: rdb.ParseRdb with the chunk threshold `maxBuf` (≤ 0: production value) and the module-aux policy;
// chanMode: the whole channel transcript instead of the first terminal.
func vfC04XTok(f []byte, maxBuf int, failAux bool, chanMode bool) string {
	if maxBuf > 0 {
		old := rdb.VerifSetMaxBinEntryBuffer(maxBuf)
		defer rdb.VerifSetMaxBinEntryBuffer(old)
	}
	var opts []rdb.RdbParseOption
	if failAux {
		opts = append(opts, rdb.WithFailOnModuleAux())
	}
	var rb atomic.Int64
	pipe := rdb.ParseRdb(bytes.NewReader(f), &rb, 16, opts...)
	n := 0
	tok := ""
	var terms []string
	for e := range pipe {
		switch {
		case e.Err != nil:
			terms = append(terms, "E")
			if tok == "" {
				tok = fmt.Sprintf("e%d", n)
			}
		case e.Done:
			terms = append(terms, "D")
			if tok == "" {
				tok = fmt.Sprintf("d%d", n)
			}
		case len(terms) > 0:
			terms = append(terms, "k")
		default:
			n++
		}
	}
	if chanMode {
		if len(terms) == 0 {
			terms = []string{"x"}
		}
		return fmt.Sprintf("%d:%s", n, strings.Join(terms, ","))
	}
	if tok == "" {
		tok = fmt.Sprintf("x%d", n)
	}
	return tok
}

// vfC04XWorker: the request kinds of the worker child added in session 4.
func vfC04XWorker(rq vfC04Req, data []byte) (rp vfC04Resp) {
	switch rq.Kind {
	case "xparse":
		rp.Tok = vfC04XTok(data, rq.MaxBuf, rq.FailAux, false)
	case "xchan":
		rp.Tok = vfC04XTok(data, rq.MaxBuf, rq.FailAux, true)
	case "xtruncs":
		// every prefix of data, one token each
		toks := make([]string, 0, len(data)+1)
		for k := 0; k <= len(data); k++ {
			toks = append(toks, vfC04XTok(data[:k], rq.MaxBuf, rq.FailAux, false))
		}
		rp.Tok = strings.Join(toks, ",")
	case "xsets":
		// data with byte Size overwritten with each value of Segs (hex), one token each
		vals := vfutil.UnHex(rq.Segs)
		toks := make([]string, 0, len(vals))
		for _, v := range vals {
			g := append([]byte(nil), data...)
			g[rq.Size] = v
			toks = append(toks, vfC04XTok(g, rq.MaxBuf, rq.FailAux, false))
		}
		rp.Tok = strings.Join(toks, ",")
	case "lzfx":
		// the real string reader on C3 <inlen> <outlen> <in>, in = the segments "hex*count,…" of Data: ok/err, length, bytes allocated
		in := vfC04SegBytes(rq.Segs)
		b := append([]byte{0xC3}, vfc20.EncLen(uint64(len(in)))...)
		b = append(b, vfc20.EncLen(uint64(rq.Size))...)
		b = append(b, in...)
		in = nil
		var m0, m1 runtime.MemStats
		rd := rdb.NewRdbReader(bytes.NewReader(b))
		runtime.GC()
		runtime.ReadMemStats(&m0)
		out, err := rd.ReadString()
		runtime.ReadMemStats(&m1)
		if err == nil {
			rp.Tok = fmt.Sprintf("ok %d %d", len(out), m1.TotalAlloc-m0.TotalAlloc)
		} else {
			rp.Tok = fmt.Sprintf("err 0 %d", m1.TotalAlloc-m0.TotalAlloc)
		}
	}
	return
}

// vfC04LzfProduced: how many bytes an LZF decoder has produced when it stops on `in` declared as `outlen` bytes (end of
// input, a run that does not fit the declared length, a reference before the start, input ending inside a run) — the
// monitor's own walk, independent of pkg/rdb and of the Lean model.
func vfC04LzfProduced(in []byte, outlen int64) int64 {
	if outlen > int64(len(in))*264 {
		return 0
	}
	i, o := 0, int64(0)
	for i < len(in) {
		ctrl := int(in[i])
		i++
		if ctrl < 32 {
			n := ctrl + 1
			if i+n > len(in) || o+int64(n) > outlen {
				return o
			}
			i += n
			o += int64(n)
			continue
		}
		l := ctrl >> 5
		if l == 7 {
			if i >= len(in) {
				return o
			}
			l += int(in[i])
			i++
		}
		if i >= len(in) {
			return o
		}
		ref := o - int64((ctrl&0x1f)<<8) - int64(in[i]) - 1
		i++
		if ref < 0 || o+int64(l+2) > outlen {
			return o
		}
		o += int64(l + 2)
	}
	return o
}

func vfC04SegBytes(segs string) []byte {
	var in []byte
	for _, sg := range strings.Split(segs, ",") {
		p := strings.SplitN(sg, "*", 2)
		unit := vfutil.UnHex(p[0])
		n := 1
		if len(p) == 2 {
			n, _ = strconv.Atoi(p[1])
		}
		for i := 0; i < n; i++ {
			in = append(in, unit...)
		}
	}
	return in
}

// ---------------------------------------------------------------- the float predicate travels with the op

func vfC04FloatAlpha(c byte) bool {
	switch {
	case '0' <= c && c <= '9', 'a' <= c && c <= 'f', 'A' <= c && c <= 'F':
		return true
	}
	return strings.IndexByte("+-._xXpPiInNtTyY", c) >= 0
}

// vfC04FloatCands: every text of g that `ReadFloat` could hand to strconv.ParseFloat — a length byte 1..252 followed by
// that many bytes of the float alphabet — between positions from and to, with strconv's own verdict.
func vfC04FloatCands(g []byte, from, to int, into map[string]bool) {
	if from < 0 {
		from = 0
	}
	for p := from; p <= to && p < len(g); p++ {
		n := int(g[p])
		if n == 0 || n > 252 || p+1+n > len(g) {
			continue
		}
		txt := g[p+1 : p+1+n]
		ok := true
		for _, c := range txt {
			if !vfC04FloatAlpha(c) {
				ok = false
				break
			}
		}
		if !ok {
			continue
		}
		if _, seen := into[string(txt)]; !seen {
			_, err := strconv.ParseFloat(string(txt), 64)
			into[string(txt)] = err == nil
		}
	}
}

func vfC04FlTok(m map[string]bool) string {
	if len(m) == 0 {
		return ""
	}
	var ks []string
	for k := range m {
		ks = append(ks, k)
	}
	sort.Strings(ks)
	var parts []string
	for _, k := range ks {
		v := "0"
		if m[k] {
			v = "1"
		}
		parts = append(parts, vfutil.Hex([]byte(k))+":"+v)
	}
	return " fl=" + strings.Join(parts, ",")
}

// ---------------------------------------------------------------- generated files that contain the constructs

func vfC04Asm(ver int, parts ...[]byte) []byte {
	var b bytes.Buffer
	fmt.Fprintf(&b, "REDIS%04d", ver)
	for _, p := range parts {
		b.Write(p)
	}
	b.WriteByte(0xFF)
	c := digest.New()
	c.Write(b.Bytes())
	var e [8]byte
	binary.LittleEndian.PutUint64(e[:], c.Sum64())
	b.Write(e[:])
	return b.Bytes()
}

func vfC04Cat(parts ...[]byte) []byte {
	var out []byte
	for _, p := range parts {
		out = append(out, p...)
	}
	return out
}

func vfC04S(s string) []byte { return vfc20.EncStr([]byte(s)) }

// vfC04Lzf: the on-disk form C3 <inlen> <outlen> <compressed> of n times the byte c (one literal + one back reference)
func vfC04Lzf(c byte, n int) []byte { return vfc20.LZFString("x", c, n).Raw }

// vfC04StreamRaw: a stream value in the layout of RDB type t (15, 19, 21, 26) as StreamParser.ReadBuffer walks it: one
// node, three lengths, (first id, max deleted id, entries added), one group with one pending entry and one consumer with
// (an active time and) one pending id, (the IDMP section).
func vfC04StreamRaw(t int) []byte { return vfC04StreamRawBig(t, -1, nil) }

// vfC04StreamRawBig: as vfC04StreamRaw with count number `which` (0 nodes, 1 groups, 2 global PEL, 3 consumer PEL) written as `big`
func vfC04StreamRawBig(t int, which int, big []byte) []byte {
	cnt := func(i int, n uint64) []byte {
		if i == which {
			return big
		}
		return vfc20.EncLen(n)
	}
	id := make([]byte, 16)
	binary.BigEndian.PutUint64(id, 1000)
	id[15] = 1
	node := []byte{0x07, 0, 0, 0, 0, 0, 0xFF} // ReadBuffer does not look inside the listpack
	raw := vfC04Cat(cnt(0, 1), vfc20.EncStr(id), vfc20.EncStr(node), vfc20.EncLen(2), vfc20.EncLen(1005), vfc20.EncLen(0))
	if t >= 19 {
		raw = vfC04Cat(raw, vfc20.EncLen(1000), vfc20.EncLen(1), vfc20.EncLen(0), vfc20.EncLen(0), vfc20.EncLen(2))
	}
	raw = vfC04Cat(raw, cnt(1, 1), vfC04S("grp"), vfc20.EncLen(1005), vfc20.EncLen(0))
	if t >= 19 {
		raw = append(raw, vfc20.EncLen(2)...)
	}
	raw = vfC04Cat(raw, cnt(2, 1), id, []byte{5, 0, 0, 0, 0, 0, 0, 0}, vfc20.EncLen(1)) // global PEL
	raw = vfC04Cat(raw, vfc20.EncLen(1), vfC04S("c1"), make([]byte, 8))                        // consumer, seen time
	if t >= 21 {
		raw = append(raw, make([]byte, 8)...) // active time
	}
	raw = vfC04Cat(raw, cnt(3, 1), id) // consumer PEL
	if t >= 26 {
		raw = vfC04Cat(raw, vfc20.EncLen(60), vfc20.EncLen(100), vfc20.EncLen(1), vfC04S("prod"), vfc20.EncLen(1), vfC04S("iid"),
			vfc20.EncLen(1000), vfc20.EncLen(1), vfc20.EncLen(1), vfc20.EncLen(0))
	}
	return raw
}

type vfC04XFile struct {
	Name    string
	Data    []byte
	MaxBuf  int
	FailAux bool
	KVs     []vfc20.KV // non-nil: the file can go through the pipeline (x3)
	Light   bool       // only truncations and transcripts (the same bytes as another entry, another threshold)
}

func vfC04XFiles() []vfC04XFile {
	kv := func(t byte, key []byte, val []byte) []byte { return vfC04Cat([]byte{t}, key, val) }
	// LZF strings as value, as KEY, as list element; a hash split into chunks (threshold 10 bytes); text floats; zset2; intset-style ints
	lzf := vfC04Asm(9, []byte{0xFE, 0},
		kv(0, vfC04S("a"), vfC04Lzf('a', 40)),
		kv(0, vfC04Lzf('k', 20), vfC04S("v")),
		kv(1, vfC04S("l"), vfC04Cat(vfc20.EncLen(2), vfC04Lzf('b', 12), vfC04S("x"))),
		kv(4, vfC04S("h"), vfC04Cat(vfc20.EncLen(4), vfC04S("f1"), vfC04S("v1"), vfC04S("f2"), vfC04S("v2"), vfC04S("f3"), vfC04S("v3"), vfC04S("f4"), vfC04S("v4"))),
		kv(3, vfC04S("z"), vfC04Cat(vfc20.EncLen(3), vfC04S("m1"), []byte{3, '1', '.', '5'}, vfC04S("m2"), []byte{4, '-', '2', 'e', '3'}, vfC04S("m3"), []byte{254})),
		kv(5, vfC04S("y"), vfC04Cat(vfc20.EncLen(1), vfC04S("m"), []byte{0, 0, 0, 0, 0, 0, 0xF0, 0x3F})),
		kv(2, vfC04S("s"), vfC04Cat(vfc20.EncLen(2), []byte{0xC0, 5}, []byte{0xC1, 0x39, 0x30})),
	)
	streams := vfC04Asm(12, []byte{0xFE, 0},
		kv(15, vfC04S("s1"), vfc20.SmallStreamX("s1").Raw),
		kv(19, vfC04S("s2"), vfC04StreamRaw(19)),
		[]byte{0xFC, 1, 2, 3, 4, 5, 6, 7, 8},
		kv(21, vfC04S("s3"), vfC04StreamRaw(21)),
		kv(26, vfC04S("s4"), vfC04StreamRaw(26)),
		kv(0, vfC04S("t"), vfC04S("end")),
	)
	modval := vfC04Cat([]byte{0x81, 0x4d, 0x79, 0x6d, 0x6f, 0x64, 0x2d, 0x61, 0x01},
		vfc20.EncLen(2), vfc20.EncLen(42), // uint
		vfc20.EncLen(1), vfc20.EncLen(7), // sint
		vfc20.EncLen(5), vfC04S("mv"), // string
		vfc20.EncLen(3), []byte{0, 0, 0x80, 0x3F}, // float
		vfc20.EncLen(4), []byte{0, 0, 0, 0, 0, 0, 0xF0, 0x3F}, // double
		vfc20.EncLen(9),          // an opcode the reader does not know: skipped over
		vfc20.EncLen(5), vfC04Lzf('q', 9), // a compressed string field
		vfc20.EncLen(0))
	aux := vfC04Cat([]byte{0xF7}, []byte{0x81, 0x4d, 0x79, 0x6d, 0x6f, 0x64, 0x2d, 0x61, 0x01}, vfc20.EncLen(2), vfc20.EncLen(1),
		vfc20.EncLen(5), vfC04S("auxdata"), vfc20.EncLen(0))
	modules := vfC04Asm(9, []byte{0xFE, 0},
		kv(0, vfC04S("k0"), vfC04S("v0")),
		kv(7, vfC04S("m"), modval),
		kv(0, vfC04S("k1"), vfC04S("v1")))
	modaux := vfC04Asm(9, aux, []byte{0xFE, 0},
		kv(0, vfC04S("k0"), vfC04S("v0")),
		kv(7, vfC04S("m"), modval))
	// a file the generator of section 1-3 can describe: goes through the pipeline as well (values are checked on the target)
	pipeKVs := []vfc20.KV{
		vfc20.LZFString("lz", 'a', 40),
		{DB: 0, Key: []byte("hh"), Type: 4, Items: [][]byte{[]byte("f1"), []byte("v1"), []byte("f2"), []byte("v2"), []byte("f3"), []byte("v3"),
			[]byte("f4"), []byte("v4"), []byte("f5"), []byte("v5")}},
		{DB: 0, Key: []byte("k"), Type: 0, Str: []byte("v")},
	}
	return []vfC04XFile{
		{Name: "xlzf", Data: lzf, MaxBuf: 10},
		{Name: "xlzf13", Data: lzf, MaxBuf: 13, Light: true}, // the third pair brings the chunk to exactly 13 bytes: `>` not `>=`
		{Name: "xlzf6", Data: lzf, MaxBuf: 6, Light: true},   // a chunk per pair
		{Name: "xlzfprod", Data: lzf, Light: true},           // the production threshold: one entry
		{Name: "xstreams", Data: streams},
		{Name: "xmodules", Data: modules},
		{Name: "xmodaux", Data: modaux},
		{Name: "xmodauxfail", Data: modaux, FailAux: true},
		{Name: "xpipe", Data: vfc20.BuildRDB(pipeKVs, vfc20.Opts{}), MaxBuf: 12, KVs: pipeKVs},
	}
}

// ---------------------------------------------------------------- x1: real parser vs extended model

func vfC04XParseGuarded(s *vfutil.Session, f vfC04XFile, g []byte, kind string) string {
	rp, died, tail := vfC04W.call(vfC04Req{Kind: kind, Data: vfutil.Hex(g), MaxBuf: f.MaxBuf, FailAux: f.FailAux})
	if died != "" {
		s.Count("viol_" + died)
		s.Violate(died, "damaged snapshot: rdb.ParseRdb does not return an error, the process dies ("+died+"): "+tail,
			map[string]interface{}{"scenario": "xparse", "file": f.Name, "maxbuf": f.MaxBuf, "failaux": f.FailAux, "rdb": vfutil.Hex(g)})
		return "!" + died
	}
	return rp.Tok
}

func vfC04XHead(op string, maxVer int, f vfC04XFile) string {
	aux := 0
	if f.FailAux {
		aux = 1
	}
	mb := f.MaxBuf
	if mb <= 0 {
		mb = rdb.VerifMaxBinEntryBuffer()
	}
	return fmt.Sprintf("%s %d %d %d", op, maxVer, mb, aux)
}

func vfC04XMonitorTok(s *vfutil.Session, f vfC04XFile, what string, g []byte, tok string, mayBeDone bool) {
	rpl := map[string]interface{}{"scenario": what, "file": f.Name, "maxbuf": f.MaxBuf, "failaux": f.FailAux, "rdb": vfutil.Hex(g)}
	if strings.HasPrefix(tok, "x") {
		s.Count("viol_parser-no-terminal")
		s.Violate("parser-no-terminal", "rdb.ParseRdb closed its channel without a Done or Err entry ("+tok+")", rpl)
	}
	if strings.HasPrefix(tok, "d") && !mayBeDone {
		s.Count("viol_alteration-accepted")
		s.Violate("alteration-accepted", fmt.Sprintf("%s: damaged input parses to Done (%s)", f.Name, tok), rpl)
	}
}

func vfC04Extended(t *testing.T, s *vfutil.Session, mark func(string), rnd *vfutil.Rand, maxVer int, phase func(string)) {
	phase("x1")
	for _, f := range vfC04XFiles() {
		data := f.Data
		s.Add("x_sweep_file_bytes", len(data))
		intact := vfC04XTok(data, f.MaxBuf, f.FailAux, false)
		if f.FailAux {
			if !strings.HasPrefix(intact, "e") {
				s.Violate("module-aux-policy-ignored", f.Name+": a module-aux section with failOnModuleAux parses to "+intact, map[string]interface{}{"rdb": vfutil.Hex(data)})
			}
		} else if !strings.HasPrefix(intact, "d") {
			s.Violate("generator-rdb-rejected", f.Name+": "+intact, map[string]interface{}{"rdb": vfutil.Hex(data)})
			continue
		}
		s.Count("x_files")
		base := map[string]bool{}
		vfC04FloatCands(data, 0, len(data), base)
		// every truncation
		// (one request to the worker child for all of them; if the child dies on the batch, one by one to name the input)
		var toks []string
		mark("xtruncs " + f.Name)
		if rp, died, _ := vfC04W.call(vfC04Req{Kind: "xtruncs", Data: vfutil.Hex(data), MaxBuf: f.MaxBuf, FailAux: f.FailAux}); died == "" {
			toks = strings.Split(rp.Tok, ",")
		}
		for k := 0; k <= len(data); k++ {
			if len(toks) <= k {
				mark(fmt.Sprintf("xtrunc %s %d", f.Name, k))
				toks = append(toks, vfC04XParseGuarded(s, f, data[:k], "xparse"))
			}
			vfC04XMonitorTok(s, f, "xtrunc", data[:k], toks[k], k == len(data) && !f.FailAux)
			s.Count("x_parse_truncations")
		}
		s.Op(vfC04XHead("c04xtrunc", maxVer, f)+" "+vfutil.Hex(data)+vfC04FlTok(base), strings.Join(toks, ","))
		// the whole channel transcript: intact, cuts near the end and elsewhere, altered footer / EOF opcode, bytes appended
		{
			gs := [][]byte{data}
			for k := len(data) - 10; k < len(data); k++ {
				gs = append(gs, data[:k])
			}
			for j := 0; j < 5; j++ {
				gs = append(gs, data[:rnd.Intn(len(data))])
			}
			for pos := len(data) - 9; pos < len(data); pos++ {
				g := append([]byte(nil), data...)
				g[pos] ^= byte(rnd.Range(1, 255))
				gs = append(gs, g)
			}
			gs = append(gs, append(append([]byte(nil), data...), 0))
			for _, g := range gs {
				mark("xchan " + f.Name)
				tok := vfC04XParseGuarded(s, f, g, "xchan")
				if strings.HasPrefix(tok, "!") {
					continue
				}
				if strings.HasSuffix(tok, ":x") {
					s.Count("viol_parser-no-terminal")
					s.Violate("parser-no-terminal", "rdb.ParseRdb closed its channel without a Done or Err entry ("+tok+")",
						map[string]interface{}{"scenario": "xchan", "file": f.Name, "rdb": vfutil.Hex(g)})
				}
				if strings.Contains(tok, "k") || strings.Contains(tok, "D,") {
					s.Count("viol_chan-after-done")
					s.Violate("chan-after-done", "rdb.ParseRdb sent something after Done, or an entry after a terminal ("+tok+")",
						map[string]interface{}{"scenario": "xchan", "file": f.Name, "rdb": vfutil.Hex(g)})
				}
				m := map[string]bool{}
				vfC04FloatCands(g, 0, len(g), m)
				s.Op(vfC04XHead("c04xchan", maxVer, f)+" "+vfutil.Hex(g)+vfC04FlTok(m), tok)
				s.Count("x_chan_transcripts")
			}
		}
		if f.Light {
			continue
		}
		// every position overwritten: the values that make lengths / counts / encodings (all 14), XOR masks chosen by the
		// seed (thorough: every other value)
		for pos := 0; pos < len(data); pos++ {
			var vals []byte
			if vfutil.Thorough() {
				for v := 0; v < 256; v++ {
					if byte(v) != data[pos] {
						vals = append(vals, byte(v))
					}
				}
			} else {
				seen := map[byte]bool{data[pos]: true}
				for _, v := range vfC04SetValues {
					if !seen[byte(v)] {
						seen[byte(v)] = true
						vals = append(vals, byte(v))
					}
				}
				for _, m := range []int{0x01, 0x80, 0x40, 0xFF} {
					if v := data[pos] ^ byte(m); !seen[v] {
						seen[v] = true
						vals = append(vals, v)
					}
				}
				// steered, on every seed: the values of the neighbouring bytes (inlen := outlen, a length := the next length …) and ±1
				for _, d := range []int{-2, -1, 1, 2} {
					if q := pos + d; q >= 0 && q < len(data) && !seen[data[q]] {
						seen[data[q]] = true
						vals = append(vals, data[q])
					}
				}
				for _, v := range []byte{data[pos] + 1, data[pos] - 1} {
					if !seen[v] {
						seen[v] = true
						vals = append(vals, v)
					}
				}
				for j := 0; j < 10; j++ {
					if v := byte(rnd.Intn(256)); !seen[v] {
						seen[v] = true
						vals = append(vals, v)
					}
				}
			}
			fl := map[string]bool{}
			for k, v := range base {
				fl[k] = v
			}
			toks = nil
			mark(fmt.Sprintf("xsets %s %d", f.Name, pos))
			if rp, died, _ := vfC04W.call(vfC04Req{Kind: "xsets", Data: vfutil.Hex(data), Size: int64(pos), Segs: vfutil.Hex(vals), MaxBuf: f.MaxBuf, FailAux: f.FailAux}); died == "" {
				toks = strings.Split(rp.Tok, ",")
			}
			for i, v := range vals {
				g := append([]byte(nil), data...)
				g[pos] = v
				vfC04FloatCands(g, pos-253, pos, fl)
				if len(toks) <= i {
					mark(fmt.Sprintf("xset %s %d %02x", f.Name, pos, v))
					toks = append(toks, vfC04XParseGuarded(s, f, g, "xparse"))
				}
				zero := pos >= len(data)-8 && bytes.Equal(g[len(g)-8:], make([]byte, 8))
				vfC04XMonitorTok(s, f, "xset", g, toks[i], zero && !f.FailAux)
				s.Count("x_parse_alterations")
			}
			s.Op(fmt.Sprintf("%s %s %d %s%s", vfC04XHead("c04xset", maxVer, f), vfutil.Hex(data), pos, vfutil.Hex(vals), vfC04FlTok(fl)), strings.Join(toks, ","))
			s.Distinct(fmt.Sprintf("xset/%s/%d", f.Name, pos))
		}
		// seeded alterations: two bytes, a byte removed / inserted, a run of bytes duplicated
		for j := 0; j < vfutil.Scale(120, 1500); j++ {
			g := append([]byte(nil), data...)
			pos := rnd.Intn(len(g))
			switch rnd.Intn(4) {
			case 0:
				g[pos] ^= byte(rnd.Range(1, 255))
				g[rnd.Intn(len(g))] = byte(vfC04SetValues[rnd.Intn(len(vfC04SetValues))])
			case 1:
				g = append(g[:pos], g[pos+1:]...)
			case 2:
				g = append(g[:pos], append([]byte{byte(rnd.Intn(256))}, g[pos:]...)...)
			default:
				n := rnd.Range(1, 12)
				if pos+n > len(g) {
					n = len(g) - pos
				}
				g = append(g[:pos+n], append(append([]byte(nil), g[pos:pos+n]...), g[pos+n:]...)...)
			}
			if bytes.Equal(g, data) {
				continue
			}
			mark(fmt.Sprintf("xseeded %s %d", f.Name, j))
			tok := vfC04XParseGuarded(s, f, g, "xparse")
			if strings.HasPrefix(tok, "!") {
				continue
			}
			vfC04XMonitorTok(s, f, "xseeded", g, tok, len(g) >= 8 && bytes.Equal(g[len(g)-8:], make([]byte, 8)))
			m := map[string]bool{}
			vfC04FloatCands(g, 0, len(g), m)
			s.Op(vfC04XHead("c04xparse", maxVer, f)+" "+vfutil.Hex(g)+vfC04FlTok(m), tok)
			s.Count("x_parse_seeded_alterations")
		}
	}

	// steered inputs (every tier, every seed): an LZF string whose compressed and declared lengths are EQUAL, intact and with its
	// back reference reaching before the start (a reader that falls back to "stored uncompressed" accepts the second);
	// a stream with a count ≥ 2^63 at each of the four loop counts that ReadBuffer converts with int()
	{
		kvp := func(t byte, key []byte, val []byte) []byte { return vfC04Cat([]byte{t}, key, val) }
		eq := []byte{0xC3, 5, 5, 0x01, 'a', 'b', 0x20, 0x01}  // "ab" + reference (3 bytes, distance 2): 5 in, 5 out
		bad := []byte{0xC3, 5, 5, 0x01, 'a', 'b', 0x20, 0x09} // distance 10: before the start
		var gs [][]byte
		for _, v := range [][]byte{eq, bad} {
			gs = append(gs, vfC04Asm(9, []byte{0xFE, 0}, kvp(0, vfC04S("e"), v), kvp(0, vfC04S("k"), vfC04S("v"))),
				vfC04Asm(9, []byte{0xFE, 0}, kvp(0, v, vfC04S("val")), kvp(1, vfC04S("l"), vfC04Cat(vfc20.EncLen(1), v))))
		}
		huge := []byte{0x81, 0x80, 0, 0, 0, 0, 0, 0, 0}
		for which := 0; which < 4; which++ {
			for _, t := range []int{15, 21} {
				gs = append(gs, vfC04Asm(12, []byte{0xFE, 0}, kvp(byte(t), vfC04S("s"), vfC04StreamRawBig(t, which, huge)), kvp(0, vfC04S("k"), vfC04S("v"))))
			}
		}
		f := vfC04XFile{Name: "xsteered"}
		for _, g := range gs {
			mark("xsteered")
			tok := vfC04XParseGuarded(s, f, g, "xparse")
			if strings.HasPrefix(tok, "!") {
				continue
			}
			if strings.HasPrefix(tok, "x") {
				s.Count("viol_parser-no-terminal")
				s.Violate("parser-no-terminal", "rdb.ParseRdb closed its channel without a Done or Err entry ("+tok+")",
					map[string]interface{}{"scenario": "xsteered", "rdb": vfutil.Hex(g)})
			}
			m := map[string]bool{}
			vfC04FloatCands(g, 0, len(g), m)
			s.Op(vfC04XHead("c04xparse", maxVer, f)+" "+vfutil.Hex(g)+vfC04FlTok(m), tok)
			s.Count("x_steered_inputs")
		}
	}

	phase("x2")
	// ------------------------------------------------ x2. the LZF reader and its output buffer
	{
		step := int64(rdb.VerifReadBytesStep)
		type lz struct {
			segs   string // "hex*count,…"
			outlen int64
		}
		lit := func(b ...byte) string { return vfutil.Hex(append([]byte{byte(len(b) - 1)}, b...)) }
		refsOverStep := int(step/264) + 2000 // maximal back references (264 bytes per 3) that carry the output past one step
		cases := []lz{
			{lit('a') + "e00000", 10},             // "a" + back reference of 9: ok
			{lit('a') + "e00000", 11},             // declares one more than it produces
			{lit('a') + "e00000", 9},              // declares one less: the last run does not fit
			{lit('a') + "e00001", 10},             // reference before the start of the output
			{lit('a') + "e000", 10},               // input ends inside a back reference
			{"05" + vfutil.Hex([]byte("abc")), 6}, // literal run longer than the input
			{"-", 0},
			{"-", 5},
			{lit('x', 'y', 'z') + ",2001*40", 3 + 40*3},        // overlapping short references
			{lit('q') + ",e0ff00*100", 1 + 100*264},            // maximal references: 264 bytes per 3
			{lit('q') + ",e0ff00*100", 1<<32 - 1},              // the same input declaring 4 GiB − 1: refused by the guard
			{"0000*524288", 256 << 20},                         // 1 MiB of input declaring 256 MiB, produces 512 KiB: the buffer must follow the output
			{fmt.Sprintf("%s,e0ff00*%d", lit('q'), refsOverStep), 190 << 20}, // crosses the 64 MiB step: the buffer grows once
		}
		if vfutil.Thorough() {
			cases = append(cases,
				lz{fmt.Sprintf("%s,e0ff00*%d", lit('q'), 2*refsOverStep), 380 << 20},               // two growth steps
				lz{fmt.Sprintf("%s,e0ff00*%d,0000*1800000", lit('q'), refsOverStep), 1 << 30}, // past one step, then declaring 1 GiB: one step ahead, not 1 GiB
				lz{"0000*2097152", 1 << 30})                                                      // 4 MiB of input declaring 1 GiB
		}
		for i := 0; i < 12; i++ {
			// a random valid stream, then (half of the time) one byte of it altered / the declared length moved
			var in []byte
			out := 0
			for k := 0; k < rnd.Range(1, 6); k++ {
				if out == 0 || rnd.Bool() {
					n := rnd.Range(1, 8)
					in = append(in, byte(n-1))
					in = append(in, rnd.Bytes(n)...)
					out += n
				} else {
					l := rnd.Range(0, 9)
					d := rnd.Intn(out)
					if l < 7 {
						in = append(in, byte(l<<5)|byte(d>>8), byte(d))
					} else {
						in = append(in, 0xE0|byte(d>>8), byte(l-7), byte(d))
					}
					out += l + 2
				}
			}
			declared := int64(out)
			switch rnd.Intn(4) {
			case 0:
				in[rnd.Intn(len(in))] ^= byte(rnd.Range(1, 255))
			case 1:
				declared += int64(rnd.Range(-3, 300))
				if declared < 0 {
					declared = 0
				}
			}
			cases = append(cases, lz{vfutil.Hex(in), declared})
		}
		for _, c := range cases {
			mark(fmt.Sprintf("lzfx %d %.40s", c.outlen, c.segs))
			rp, died, tail := vfC04W.call(vfC04Req{Kind: "lzfx", Segs: c.segs, Size: c.outlen})
			rpl := map[string]interface{}{"scenario": "lzfx", "outlen": c.outlen, "segs": c.segs}
			if died != "" {
				s.Count("viol_" + died)
				s.Violate(died, fmt.Sprintf("LZF string declaring %d bytes: the process dies (%s)", c.outlen, tail), rpl)
				continue
			}
			var okS string
			var ln, delta int64
			fmt.Sscanf(rp.Tok, "%s %d %d", &okS, &ln, &delta)
			impl := "err within"
			if okS == "ok" {
				impl = fmt.Sprintf("ok %d within", ln)
			}
			s.Op(fmt.Sprintf("c04lzfseg %d %d %s %d", step, c.outlen, c.segs, delta), impl)
			// monitor (theorem lzf_buffer_follows_output read on the real reader): what was allocated follows the bytes PRODUCED,
			// not the declared length — while the output stays within one step nothing beyond the first buffer
			// (min(declared, step)) is needed; beyond, a constant factor of (produced + step)
			in := vfC04SegBytes(c.segs)
			produced := vfC04LzfProduced(in, c.outlen)
			bound := 8*(produced+264+step) + int64(len(in)) + (256 << 10)
			if produced+264 <= step {
				first := c.outlen
				if first > step {
					first = step
				}
				if c.outlen > int64(len(in))*264 {
					first = 0
				}
				bound = first + 2*int64(len(in)) + (256 << 10)
			}
			if delta > bound {
				s.Count("viol_alloc-unbounded")
				s.Violate("alloc-unbounded", fmt.Sprintf("LZF string: %d compressed bytes declaring %d, %d bytes really produced: %d bytes allocated (bound %d) — "+
					"the output buffer is sized by the declared length, not by the bytes produced", len(in), c.outlen, produced, delta, bound), rpl)
			}
			s.Count("x_lzf_points")
			if delta > 64<<20 {
				s.Count("x_lzf_points_over_one_step")
			}
		}
	}

	phase("x3")
	// ------------------------------------------------ x3. the pipeline on the LZF / split-hash file
	for _, f := range vfC04XFiles() {
		if f.KVs == nil {
			continue
		}
		data := f.Data
		ci := 0
		pick := func() vfC04Opts {
			o := vfC04DefaultOpts()
			o.Parallel = 1 + ci%4
			o.PipeSize = []int{1024, 1, 2, 8}[(ci/4)%4]
			o.Bisync = (ci/3)%2 == 1
			o.Restore = (ci/5)%2 == 1
			o.Resume = ci%7 != 6
			o.MaxBuf = f.MaxBuf
			o.Pol = vfC04Pols[ci%len(vfC04Pols)]
			ci++
			return o
		}
		// the intact file under every keyExists policy, restore on / off, 1–3 workers: every chunk of the split hash must arrive
		cleanOK := true
		for i := 0; i < 12; i++ {
			o := pick()
			o.Restore = i%2 == 0
			mark("x-send-intact " + o.String())
			r := vfC04SendD("send", f.KVs, data, int64(len(data)), o)
			vfC04Monitor(s, "x-send-intact", f.Name, data, o, r)
			s.Count("x_send_intact")
			if r.Err != nil || !r.Cp || !r.AllApplied {
				s.Violate("clean-run-failed", fmt.Sprintf("%s intact (split hash, LZF): err=%v cp=%v all=%v missing=%q", f.Name, r.Err, r.Cp, r.AllApplied, r.Missing),
					map[string]interface{}{"scenario": "x-send-intact", "file": f.Name, "rdb": vfutil.Hex(data), "opts": o.String()})
				cleanOK = false
			}
		}
		if !cleanOK {
			continue
		}
		for k := 0; k < len(data); k++ {
			o := pick()
			mark(fmt.Sprintf("x-send-trunc %s %d", f.Name, k))
			r := vfC04SendD("send", f.KVs, data[:k], int64(len(data)), o)
			vfC04Monitor(s, "x-send-trunc", f.Name, data[:k], o, r)
			s.Count("x_send_truncations")
		}
		for pos := 9; pos < len(data)-8; pos++ {
			for _, v := range []byte{data[pos] ^ 0x01, data[pos] ^ 0x80, byte(vfC04SetValues[(pos+int(vfutil.Seed()))%len(vfC04SetValues)])} {
				if v == data[pos] {
					continue
				}
				g := append([]byte(nil), data...)
				g[pos] = v
				if _, risky := vfc20.Classify(g); risky {
					continue
				}
				o := pick()
				mark(fmt.Sprintf("x-send-set %s %d %02x", f.Name, pos, v))
				r := vfC04SendD("send", f.KVs, g, int64(len(g)), o)
				vfC04Monitor(s, "x-send-altered", f.Name, g, o, r)
				s.Count("x_send_alterations")
			}
		}
	}
}
