//go:build verif

package syncer

// C16, hypothesis hq ("the leader's channel run id is never the literal ?"): where the id comes
// from. The REAL redis.GetRunIds and (*StandaloneRedis).SendPSync talk over loopback TCP to a
// RESP double that answers `INFO replication` / `PSYNC` with generated texts (well-formed,
// duplicated / reordered / prefixed keys, ids that are 40 hex digits, "?", empty, with blanks;
// replies CONTINUE [id], FULLRESYNC id offset, malformed ones). One op per call:
//
//   ids <hex INFO body>                      -> ids id1=<hex> id2=<hex>
//   psy <hex reply line> <hex asked id> <off> -> psy ok id=<hex> off=<n> full=<0|1>  |  psy err
//
// compared with Model/ReplicaIdSrc.lean getRunIds / parsePsync. Monitor (independent of the
// model): an id the real functions return is "", the id asked with, or occurs verbatim in the
// text the double sent.

import (
	"bufio"
	"fmt"
	"net"
	"strconv"
	"strings"
	"sync"
	"testing"

	"github.com/mgtv-tech/redis-GunYu/config"
	"github.com/mgtv-tech/redis-GunYu/pkg/redis"
	"github.com/mgtv-tech/redis-GunYu/pkg/vfutil"
)

type c16IdSrc struct {
	ln    net.Listener
	mu    sync.Mutex
	info  string
	reply string
}

func (s *c16IdSrc) set(info, reply string) {
	s.mu.Lock()
	s.info, s.reply = info, reply
	s.mu.Unlock()
}

func (s *c16IdSrc) serve(c net.Conn) {
	defer c.Close()
	br := bufio.NewReader(c)
	bw := bufio.NewWriter(c)
	for {
		args, err := c16ReadCmd(br)
		if err != nil {
			return
		}
		if len(args) == 0 {
			continue
		}
		s.mu.Lock()
		info, reply := s.info, s.reply
		s.mu.Unlock()
		switch strings.ToLower(args[0]) {
		case "ping":
			bw.WriteString("+PONG\r\n")
		case "info":
			fmt.Fprintf(bw, "$%d\r\n%s\r\n", len(info), info)
		case "psync":
			bw.WriteString("+" + reply + "\r\n")
		default:
			bw.WriteString("+OK\r\n")
		}
		if bw.Flush() != nil {
			return
		}
	}
}

// one command as the client library sends it (RESP array of bulk strings)
func c16ReadCmd(br *bufio.Reader) ([]string, error) {
	line, err := br.ReadString('\n')
	if err != nil {
		return nil, err
	}
	line = strings.TrimRight(line, "\r\n")
	if line == "" {
		return []string{}, nil
	}
	if line[0] != '*' {
		return strings.Fields(line), nil
	}
	n, err := strconv.Atoi(line[1:])
	if err != nil {
		return nil, err
	}
	args := make([]string, 0, n)
	for i := 0; i < n; i++ {
		l, err := br.ReadString('\n')
		if err != nil {
			return nil, err
		}
		l = strings.TrimRight(l, "\r\n")
		if len(l) == 0 || l[0] != '$' {
			return nil, fmt.Errorf("bad bulk header %q", l)
		}
		sz, err := strconv.Atoi(l[1:])
		if err != nil {
			return nil, err
		}
		buf := make([]byte, sz+2)
		for got := 0; got < len(buf); {
			k, err := br.Read(buf[got:])
			if err != nil {
				return nil, err
			}
			got += k
		}
		args = append(args, string(buf[:sz]))
	}
	return args, nil
}

func c16HexId(r *vfutil.Rand) string {
	const hexd = "0123456789abcdef"
	b := make([]byte, 40)
	for i := range b {
		b[i] = hexd[r.Intn(16)]
	}
	return string(b)
}

func c16GenId(r *vfutil.Rand) string {
	switch r.Intn(10) {
	case 0:
		return "?"
	case 1:
		return ""
	case 2:
		return "0000000000000000000000000000000000000000"
	case 3:
		return "id" + strconv.Itoa(r.Intn(100))
	case 4:
		return c16HexId(r)[:r.Range(1, 39)]
	default:
		return c16HexId(r)
	}
}

func c16GenInfo(r *vfutil.Rand) string {
	var lines []string
	if r.Chance(3, 4) {
		lines = append(lines, "# Replication", "role:master", "connected_slaves:"+strconv.Itoa(r.Intn(3)))
	}
	keys := []string{"master_replid:", "master_replid2:"}
	if r.Chance(1, 5) {
		keys = []string{"master_replid2:", "master_replid:"}
	}
	for _, k := range keys {
		if r.Chance(1, 8) {
			continue // line missing (a pre-4.0 server)
		}
		lines = append(lines, k+c16GenId(r))
		if r.Chance(1, 8) {
			lines = append(lines, k+c16GenId(r)) // twice: the last one wins
		}
	}
	if r.Chance(1, 4) {
		lines = append(lines, "xmaster_replid:"+c16GenId(r), " master_replid:"+c16GenId(r), "master_replid :"+c16GenId(r), "MASTER_REPLID:"+c16GenId(r))
	}
	lines = append(lines, "master_repl_offset:"+strconv.Itoa(r.Intn(100000)), "repl_backlog_active:1")
	sep := "\r\n"
	if r.Chance(1, 10) {
		sep = "\n" // not the separator GetRunIds splits at
	}
	body := strings.Join(lines, sep)
	if r.Chance(3, 4) {
		body += sep
	}
	return body
}

func c16GenReply(r *vfutil.Rand) string {
	id := c16GenId(r)
	off := strconv.Itoa(r.Intn(1 << 20))
	switch r.Intn(14) {
	case 0:
		return "CONTINUE"
	case 1, 2:
		return "CONTINUE " + id
	case 3:
		return "continue " + id
	case 4:
		return "CONTINUE  " + id // two blanks: the id field is empty
	case 5, 6, 7:
		return "FULLRESYNC " + id + " " + off
	case 8:
		return "fullresync " + id + " " + off
	case 9:
		return "FULLRESYNC " + id // no offset
	case 10:
		return "FULLRESYNC " + id + " " + vfutil.Pick(r, []string{"x", "", "12a", "9223372036854775808", "-5", "+7"})
	case 11:
		return "FULLRESYNC " + id + " " + off + " extra"
	case 12:
		return vfutil.Pick(r, []string{"NOMASTERLINK Can't SYNC while not connected with my master", "OK", "", "CONTINUED x", " CONTINUE"})
	default:
		return "FULLRESYNC  " + id + " " + off // two blanks: the id field is empty, the id is read as the offset
	}
}

func TestVerifC16Ids(t *testing.T) {
	s := vfutil.NewSession("C16ids")
	defer s.Close()
	r := vfutil.NewRand(c16Mix(vfutil.Seed()) ^ 0x1d5)
	ln, err := net.Listen("tcp", "127.0.0.1:0")
	if err != nil {
		t.Fatal(err)
	}
	defer ln.Close()
	src := &c16IdSrc{ln: ln}
	go func() {
		for {
			c, err := ln.Accept()
			if err != nil {
				return
			}
			go src.serve(c)
		}
	}()
	cfg := config.RedisConfig{Addresses: []string{ln.Addr().String()}, Type: config.RedisTypeStandalone}
	n := vfutil.Scale(300, 6000)
	for i := 0; i < n; i++ {
		info, reply := c16GenInfo(r), c16GenReply(r)
		asked := c16GenId(r)
		off := int64(r.Range(-1, 5000))
		if r.Chance(1, 6) {
			off = -1
		}
		src.set(info, reply)
		cli, err := redis.NewStandaloneRedis(cfg)
		if err != nil {
			t.Fatalf("c16ids: cannot connect to the double: %v", err)
		}
		id1, id2, err := redis.GetRunIds(cli.Client())
		if err != nil {
			t.Fatalf("c16ids: GetRunIds: %v", err)
		}
		s.Op("ids "+vfutil.HexS(info), fmt.Sprintf("ids id1=%s id2=%s", vfutil.HexS(id1), vfutil.HexS(id2)))
		// reference (independent of the Lean model): the value of the LAST line that starts with the key
		w1, w2 := "", ""
		for _, l := range strings.Split(info, "\r\n") {
			if strings.HasPrefix(l, "master_replid:") {
				w1 = l[len("master_replid:"):]
			}
			if strings.HasPrefix(l, "master_replid2:") {
				w2 = l[len("master_replid2:"):]
			}
		}
		if id1 != w1 || id2 != w2 {
			s.Violate("source-id-misread", fmt.Sprintf("GetRunIds returned (%q, %q), INFO says master_replid=%q master_replid2=%q", id1, id2, w1, w2),
				map[string]interface{}{"info": info})
		}
		for _, id := range []string{id1, id2} {
			if id != "" && !strings.Contains(info, id) {
				s.Violate("id-not-from-source", fmt.Sprintf("GetRunIds returned %q, which the INFO text does not contain", id), map[string]interface{}{"info": info})
			}
		}
		pid, poff, wait, perr := cli.SendPSync(asked, off)
		out := "psy err"
		// reference: +CONTINUE [id] keeps the asked id unless a non-empty one is given; +FULLRESYNC id offset
		if f := strings.Split(reply, " "); perr == nil {
			wantId, wantFull := asked, false
			switch strings.ToLower(f[0]) {
			case "continue":
				if len(f) >= 2 && f[1] != "" {
					wantId = f[1]
				}
			case "fullresync":
				if len(f) >= 3 {
					wantId, wantFull = f[1], true
				}
			default:
				wantId = "\x00no reply of this kind is accepted"
			}
			if pid != wantId || (wait != nil) != wantFull {
				s.Violate("source-id-misread", fmt.Sprintf("SendPSync(%q, %d) read the reply %q as id %q full=%v", asked, off, reply, pid, wait != nil),
					map[string]interface{}{"reply": reply, "asked": asked, "off": off})
			}
		}
		if perr == nil {
			out = fmt.Sprintf("psy ok id=%s off=%d full=%s", vfutil.HexS(pid), poff, c16B(wait != nil))
			if pid != "" && pid != asked && !strings.Contains(reply, pid) {
				s.Violate("id-not-from-source", fmt.Sprintf("SendPSync returned id %q, neither asked with nor in the reply", pid), map[string]interface{}{"reply": reply})
			}
			if pid == "?" {
				s.Count("psync_id_is_q")
			}
		}
		s.Op(fmt.Sprintf("psy %s %s %d", vfutil.HexS(reply), vfutil.HexS(asked), off), out)
		cli.Close()
		s.Count("cases")
		if id1 == "?" {
			s.Count("info_id_is_q")
		}
		if id1 == "" {
			s.Count("info_id_missing")
		}
		if perr != nil {
			s.Count("psync_err")
		} else if wait != nil {
			s.Count("psync_full")
		} else {
			s.Count("psync_continue")
		}
		s.Distinct(fmt.Sprintf("%d|%d|%v|%v", len(id1), len(id2), perr == nil, wait != nil))
	}
}
