//go:build verif

package syncer

// C11 (session 5): the slot-deriving call sites of package syncer driven DYNAMICALLY with adversarial keys; the slot
// each site RECORDS (unit.Slot, unit.SlotTag) is compared with the independent bitwise HASH_SLOT of the key the unit
// writes, and accept/refuse of a two-key unit with "do the two keys share HASH_SLOT". Harness entry C11sites.

import (
	"bytes"
	"fmt"
	"testing"

	"github.com/mgtv-tech/redis-GunYu/config"
	"github.com/mgtv-tech/redis-GunYu/pkg/filter"
	"github.com/mgtv-tech/redis-GunYu/pkg/rdb"
	"github.com/mgtv-tech/redis-GunYu/pkg/redis/checkpoint"
	"github.com/mgtv-tech/redis-GunYu/pkg/vfutil"
)

func vfC11Crc(b []byte) uint16 {
	var crc uint16
	for _, c := range b {
		crc ^= uint16(c) << 8
		for i := 0; i < 8; i++ {
			if crc&0x8000 != 0 {
				crc = crc<<1 ^ 0x1021
			} else {
				crc <<= 1
			}
		}
	}
	return crc
}

func vfC11Slot(k []byte) uint16 {
	if s := bytes.IndexByte(k, '{'); s >= 0 {
		if e := bytes.IndexByte(k[s+1:], '}'); e > 0 {
			return vfC11Crc(k[s+1:s+1+e]) % 16384
		}
	}
	return vfC11Crc(k) % 16384
}

// the key a snapshot entry is written under with replace-hashtag: first '{' and the first '}' of the result removed
func vfC11Target(replace bool, k []byte) []byte {
	if !replace {
		return k
	}
	out := append([]byte(nil), k...)
	if i := bytes.IndexByte(out, '{'); i >= 0 {
		out = append(out[:i:i], out[i+1:]...)
	}
	if i := bytes.IndexByte(out, '}'); i >= 0 {
		out = append(out[:i:i], out[i+1:]...)
	}
	return out
}

// keys a "normalising" site would treat differently from the key itself: white space and NUL at the ends, upper case,
// several brace pairs, empty first tag, '}' before '{', non-UTF-8, a tag that is white space
func vfC11AdvKey(r *vfutil.Rand) []byte {
	fixed := []string{" k", "k ", "\tk\n", "k\x00", "\x00k", "K", "k", "{a}{b}", "{}{b}", "{a{b}", "}a{b}", "a}b{tag}c", "{ }x", "{ tag }", "{TAG}", "{tag}",
		"user:{1} ", " user:{1}", "{\xff\xfe}", "\xc3{\xa9}", "{{a}}", "{a}}", "x{}", "{", "}", "{}", "", "foo{bar}{zap}", "foo{}{bar}", "{\x00}"}
	switch r.Intn(4) {
	case 0:
		return []byte(vfutil.Pick(r, fixed))
	case 1:
		return append(append([]byte(vfutil.Pick(r, []string{"", " ", "\x00", "\n", "A"})), []byte(vfutil.Pick(r, fixed))...), vfutil.Pick(r, []string{"", " ", "\x00", "\r\n", "Z"})...)
	default:
		var b []byte
		for i, n := 0, r.Intn(5); i <= n; i++ {
			for j, m := 0, r.Intn(4); j < m; j++ {
				b = append(b, vfutil.Pick(r, []byte{'a', 'B', ' ', 0, 0xff, 0xc3, byte(r.U64())}))
			}
			if i < n {
				b = append(b, vfutil.Pick(r, []byte{'{', '}'}))
			}
		}
		return b
	}
}

type vfC11Parser struct {
	key []byte
}

func (p *vfC11Parser) Type() int               { return rdb.RdbObjectString }
func (p *vfC11Parser) RdbType() int            { return 0 }
func (p *vfC11Parser) ReadBuffer(*rdb.Loader)  {}
func (p *vfC11Parser) Key() []byte             { return p.key }
func (p *vfC11Parser) Value() []byte           { return []byte("v") }
func (p *vfC11Parser) CreateValueDump() []byte { return []byte("dump") }
func (p *vfC11Parser) ValueDumpSize() int      { return 4 }
func (p *vfC11Parser) FirstBin() bool          { return true }
func (p *vfC11Parser) IsSplited() bool         { return false }
func (p *vfC11Parser) DB() uint32              { return 0 }
func (p *vfC11Parser) CanRestore() bool        { return false }
func (p *vfC11Parser) ExecCmd(cb rdb.RdbObjExecutor) {
	if err := cb("SET", p.key, []byte("v")); err != nil {
		panic(err)
	}
}

func TestVerifC11sites(t *testing.T) {
	s := vfutil.NewSession("C11sites")
	defer s.Close()
	r := vfutil.NewRand(vfutil.Seed() ^ 0xc1151)
	ros := map[bool]*RedisOutput{}
	for _, rep := range []bool{false, true} {
		ros[rep] = NewRedisOutput(RedisOutputConfig{InputName: "in-c11", CheckpointName: "cp", BisyncEnabled: true,
			Redis: config.RedisConfig{Type: config.RedisTypeCluster, Version: "7.0.0"}, ReplaceHashTag: rep, KeyExists: "replace",
			ReplayRdbEnableRestore: false, MaxProtoBulkLen: 1 << 20, TargetDb: -1})
	}
	n := vfutil.Scale(4000, 60000)
	for i := 0; i < n; i++ {
		key := vfC11AdvKey(r)
		want := vfC11Slot(key)
		hx := vfutil.Hex(key)
		// (1) the incremental unit builder, cluster mode (single-slot units)
		got1 := -1
		unit, err := buildBisyncReplayUnitWithMode(int64(i), 0, 10, false, nil,
			[]bisyncAofCommand{{Cmd: "set", Args: [][]byte{append([]byte(nil), key...), []byte("v")}}}, bisyncSlotMode{})
		if err != nil || unit == nil {
			s.Violate("site-unit-refused", fmt.Sprintf("buildBisyncReplayUnitWithMode refused SET %q v: %v", key, err), map[string]interface{}{"key_hex": hx, "site": "buildBisyncReplayUnitWithMode"})
		} else {
			got1 = int(unit.Slot)
			if unit.Slot != want || unit.SlotTag != checkpoint.BisyncSlotTag(want) {
				s.Violate("site-slot", fmt.Sprintf("buildBisyncReplayUnitWithMode: unit of SET %q records slot %d tag %q, HASH_SLOT(key) = %d (tag %q): marker, commands and checkpoint of the unit go to another slot than the key", key, unit.Slot, unit.SlotTag, want, checkpoint.BisyncSlotTag(want)),
					map[string]interface{}{"key_hex": hx, "site": "buildBisyncReplayUnitWithMode", "got": unit.Slot, "want": want})
			}
		}
		// (2) a second key: the unit is accepted exactly when both keys share HASH_SLOT
		key2 := vfC11AdvKey(r)
		if r.Chance(1, 2) { // same tag, other decoration
			if s0 := bytes.IndexByte(key, '{'); s0 >= 0 {
				if e0 := bytes.IndexByte(key[s0+1:], '}'); e0 > 0 {
					key2 = append(append([]byte(vfutil.Pick(r, []string{"", " ", "x}", "\x00"})), key[s0:s0+1+e0+1]...), vfutil.Pick(r, []string{"", " ", "{y}", "}"})...)
				}
			}
		}
		same := vfC11Slot(key2) == want
		u2, err2 := buildBisyncReplayUnitWithMode(int64(i), 0, 10, false, nil,
			[]bisyncAofCommand{{Cmd: "del", Args: [][]byte{append([]byte(nil), key...), append([]byte(nil), key2...)}}}, bisyncSlotMode{})
		s.Count(fmt.Sprintf("pair_same_%v", same))
		if (err2 == nil) != same {
			s.Violate("site-pair", fmt.Sprintf("buildBisyncReplayUnitWithMode DEL %q %q: accepted=%v, the keys share HASH_SLOT=%v (%d / %d)", key, key2, err2 == nil, same, want, vfC11Slot(key2)),
				map[string]interface{}{"key_hex": hx, "key2_hex": vfutil.Hex(key2), "site": "buildBisyncReplayUnitWithMode", "accepted": err2 == nil, "same_slot": same})
		} else if err2 == nil && u2.Slot != want {
			s.Violate("site-slot", fmt.Sprintf("buildBisyncReplayUnitWithMode DEL %q %q records slot %d, HASH_SLOT = %d", key, key2, u2.Slot, want),
				map[string]interface{}{"key_hex": hx, "key2_hex": vfutil.Hex(key2), "site": "buildBisyncReplayUnitWithMode", "got": u2.Slot, "want": want})
		}
		// (3) the snapshot unit builder, cluster mode, replace-hashtag off / on: the slot of the key it WRITES
		got3 := -1
		rep := r.Bool()
		tk := vfC11Target(rep, key)
		want3 := vfC11Slot(tk)
		e := &rdb.BinEntry{Key: append([]byte(nil), key...), ObjectParser: &vfC11Parser{key: append([]byte(nil), key...)}}
		u3, skip, err3 := ros[rep].buildBisyncRdbReplayUnit(nil, 77, e, newBisyncRdbReplayState())
		if err3 != nil || skip || u3 == nil {
			s.Count("rdb_unit_skip_or_error")
		} else {
			got3 = int(u3.Slot)
			s.Count(fmt.Sprintf("rdb_unit_replace_%v", rep))
			if u3.Slot != want3 {
				s.Violate("site-slot", fmt.Sprintf("buildBisyncRdbReplayUnit(replaceHashTag=%v) entry %q is written as %q: unit records slot %d, HASH_SLOT(target key) = %d", rep, key, tk, u3.Slot, want3),
					map[string]interface{}{"key_hex": hx, "site": "buildBisyncRdbReplayUnit", "replaceHashTag": rep, "got": u3.Slot, "want": want3})
			}
		}
		// (4) the filter's slot test (filter.FilterSlot -> RangeList.IsSlotInList -> KeyToSlot): a black list of exactly
		// HASH_SLOT(key) must reject the key, a white list of exactly that slot must accept it, its neighbours the opposite
		{
			nb := (want + 1) % 16384
			fb, fw, fn := &filter.RedisKeyFilter{}, &filter.RedisKeyFilter{}, &filter.RedisKeyFilter{}
			fb.InsertSlotBlackList([][]uint16{{want}})
			fw.InsertSlotWhiteList([][]uint16{{want}})
			fn.InsertSlotBlackList([][]uint16{{nb}})
			gb, gw, gn := fb.FilterSlot(string(key)), fw.FilterSlot(string(key)), fn.FilterSlot(string(key))
			s.Count("filter_slot_site")
			if !gb || gw || gn {
				s.Violate("site-slot", fmt.Sprintf("filter.FilterSlot(%q): black list [%d] rejects=%v (must), white list [%d] rejects=%v (must not), black list [%d] rejects=%v (must not); HASH_SLOT(key) = %d: the filter places the key in another slot (or in none)", key, want, gb, want, gw, nb, gn, want),
					map[string]interface{}{"key_hex": hx, "site": "filter.FilterSlot", "want_slot": want, "black_rejects": gb, "white_rejects": gw, "neighbour_black_rejects": gn})
			}
		}
		// the Lean model on the same keys: line = recorded slot, recorded slot, oracle (driver prints keyToSlot clusterHash spec)
		if got1 >= 0 {
			s.Op("slot "+hx, fmt.Sprintf("%d %d %d", got1, got1, want))
		}
		if got3 >= 0 {
			s.Op("slot "+vfutil.Hex(tk), fmt.Sprintf("%d %d %d", got3, got3, want3))
		}
		if bytes.IndexByte(key, '{') >= 0 && bytes.IndexByte(key, '}') >= 0 {
			s.Distinct(string(key))
		}
	}
}
