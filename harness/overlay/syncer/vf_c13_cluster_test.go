//go:build verif

package syncer

// C13, session 5: the closed loop with a CLUSTER pair. Two clusters of three masters each (C18's slot-checking node
// doubles over loopback TCP), every master with its own replication stream (a C13 site double per node). Client
// transactions (single-slot, spread over the slots of all three masters) are written at cluster A; one syncer per
// source master - the REAL sendAofBisync in cluster mode (parseAofReplayUnits with the cluster slot mode, sync /
// pipeline / parallel send loop with 2 lanes: lane routing unit.Slot % lanes, the real cluster client and its
// transaction batcher) - carries them to cluster B; what each master of B received is executed at ITS site double
// (propagation rewrites, after a day the lazy expiry of the marker ahead of the SET); then the opposite syncers read
// the streams of B's masters with the same real code against cluster A, and so on for a second round.
// Judged on the implementation alone: every commit block is marker-led, accepted by the node that owns the unit's
// slot, holds exactly one client transaction, each client transaction arrives exactly once, nothing a syncer wrote at
// a master comes back as a unit, no syncer stops, and the second pass of either direction sends nothing (quiescence).
// A run the harness could not finish in time (loopback stall) is counted and NOT judged. replay.rerun = "clusterloop".

import (
	"context"
	"fmt"
	"strings"
	"sync/atomic"
	"testing"

	"github.com/mgtv-tech/redis-GunYu/config"
	"github.com/mgtv-tech/redis-GunYu/pkg/redis/checkpoint"
	"github.com/mgtv-tech/redis-GunYu/pkg/redis/client"
	"github.com/mgtv-tech/redis-GunYu/pkg/vfutil"
)

type vfc13Cluster struct {
	name  string
	w     *vfc18World
	sites []*vfc13Site
	pos   []int // per master: blocks of its stream the syncer of that master has read
	cp    string
}

func vfc13NewCluster(t *testing.T, s *vfutil.Session, name, cp string) *vfc13Cluster {
	nodes, err := vfc18StartNodes(3)
	if err != nil {
		t.Fatal(err)
	}
	c := &vfc13Cluster{name: name, cp: cp, w: &vfc18World{s: s, nodes: nodes, n: 3, cp: cp}, pos: make([]int, 3)}
	for i := 0; i < 3; i++ {
		c.sites = append(c.sites, vfc13NewSite(vfc13RedisCfg{false, true, true}))
	}
	return c
}

func (c *vfc13Cluster) close() {
	for _, cl := range c.w.clusters {
		cl.Close()
	}
	c.w.nodes.close()
}

func vfc13SameBiz(biz [][][]byte, cmds []vfc13Cmd) bool {
	if len(biz) != len(cmds) {
		return false
	}
	for i := range biz {
		if !strings.EqualFold(string(biz[i][0]), string(cmds[i].Name)) || len(biz[i])-1 != len(cmds[i].Args) {
			return false
		}
		for j, a := range cmds[i].Args {
			if string(biz[i][1+j]) != string(a) {
				return false
			}
		}
	}
	return true
}

// forward: one syncer per master of `src` reads what that master has propagated since its last pass and commits at `dst`
func vfc13ClusterForward(s *vfutil.Session, mode config.ReplayMode, src, dst *vfc13Cluster, round int, replay map[string]interface{}) (committed int, ok bool) {
	nCtl := 1
	if mode != config.ReplayModeSync {
		nCtl = 2
	}
	for i, site := range src.sites {
		blocks := site.stream[src.pos[i]:]
		if len(blocks) == 0 {
			continue
		}
		var wire []byte
		due := 0
		for _, b := range blocks {
			for _, c := range b.wire() {
				wire = append(wire, vfc13Resp(c)...)
			}
			if b.tag[0] == 'f' {
				due++
			}
		}
		src.pos[i] += len(blocks)
		runID := fmt.Sprintf("runid-c13-%s%d-r%d-%s", src.name, i, round, mode)
		cl := dst.w.newCluster("none", 0)
		ro := NewRedisOutput(RedisOutputConfig{InputName: fmt.Sprintf("in-%s%d", src.name, i), CheckpointName: src.cp, BisyncEnabled: true, BatchCmdCount: 8,
			Redis: config.RedisConfig{Type: config.RedisTypeCluster}, ReplayMode: mode, Parallelism: 2, TargetDb: -1})
		var opened, closed atomic.Int64
		ro.newRedisConn = func(ctx context.Context) (client.Redis, error) {
			opened.Add(1)
			return &vfc18LoopRedis{vfc18Redis: vfc18Redis{c: cl}, fbB: "none", onClose: func() { closed.Add(1) }}, nil
		}
		dst.w.nodes.takeRun(runID)
		err, stalled := vfc18LoopRun(ro, dst.w.nodes, runID, wire, func() bool { return dst.w.nodes.goodCount(runID) >= due }, vfc18LoopHardTimeout)
		if stalled {
			s.Count("cluster_loop_stalled_not_judged")
			return committed, false
		}
		dst.w.nodes.settle()
		got, stray, _ := dst.w.nodes.takeRun(runID)
		if st := vfc13ParseStatus(err); st != "eof" && st != "nil" {
			s.Violate("tool-block-halts-opposite-link", fmt.Sprintf("cluster pair: the syncer of master %s%d stopped: %s", src.name, i, st), replay)
			return committed, false
		}
		if stray > 0 {
			s.Violate("bookkeeping-inside-multi", fmt.Sprintf("cluster pair: %d data commands reached the nodes outside a MULTI block", stray), replay)
		}
		seen := map[int]int{}
		for _, blk := range got {
			if len(blk.Cmds) < 1+nCtl || !strings.EqualFold(string(blk.Cmds[0][0]), "set") || !checkpoint.IsBisyncMarkerKey(string(blk.Cmds[0][1])) {
				s.Violate("snapshot-block-without-marker", "cluster pair: a block without the marker first reached a master", replay)
				continue
			}
			if blk.Rejected != "" {
				s.Violate("tie-shape:commit-shape", "cluster pair: a commit block was refused by the master it was sent to: "+blk.Rejected, replay)
				continue
			}
			biz := blk.Cmds[1 : len(blk.Cmds)-nCtl]
			which := -1
			for j, b := range blocks {
				if vfc13SameBiz(biz, b.cmds) {
					which = j
					break
				}
			}
			if which < 0 || blocks[which].tag[0] != 'f' {
				tag := "?"
				if which >= 0 {
					tag = blocks[which].tag
				}
				s.Violate("tool-block-came-back-as-unit", fmt.Sprintf("cluster pair: the syncer of master %s%d committed a unit that is no client block of its stream (%s): %s", src.name, i, tag, vfc18BlockToks(biz)), replay)
				continue
			}
			seen[which]++
			// the master that received the block propagates it into ITS stream
			cmds := make([]vfc13Cmd, len(blk.Cmds))
			for k, c := range blk.Cmds {
				cmds[k] = vfc13Cmd{Name: c[0], Args: c[1:]}
			}
			slot := vfc18HashSlot(blk.Cmds[0][1])
			if dst.w.nodes.ownerIdx(slot) != blk.Node {
				s.Violate("tie-shape:commit-shape", "cluster pair: a commit block was accepted by a master that does not own the marker's slot", replay)
			}
			dst.sites[blk.Node].exec(true, cmds, func(int) string { return "t0" })
			committed++
			s.Count(fmt.Sprintf("cluster_loop_commit_%s_node%d", mode, blk.Node))
		}
		for j, b := range blocks {
			if b.tag[0] != 'f' {
				continue
			}
			if seen[j] == 0 {
				s.Violate("foreign-block-suppressed", fmt.Sprintf("cluster pair: the client block %s of master %s%d was consumed without being committed", b.tok(), src.name, i), replay)
			} else if seen[j] > 1 {
				s.Violate("write-applied-twice", fmt.Sprintf("cluster pair: the client block %s was committed %d times", b.tok(), seen[j]), replay)
			}
		}
	}
	return committed, true
}

func vfc13ClusterProbe(t *testing.T, s *vfutil.Session) {
	for _, mode := range []config.ReplayMode{config.ReplayModeSync, config.ReplayModePipeline, config.ReplayModeParallel} {
		replay := map[string]interface{}{"mode": string(mode), "rerun": "clusterloop"}
		a := vfc13NewCluster(t, s, "A", "redis-gunyu-checkpoint-bisync:00000000000000000000c1a0")
		b := vfc13NewCluster(t, s, "B", "redis-gunyu-checkpoint-bisync:00000000000000000000c1b0")
		func() {
			defer a.close()
			defer b.close()
			id := 0
			write := func(c *vfc13Cluster, tagName string, n int) {
				var cmds []vfc13Cmd
				for k := 0; k < n; k++ {
					switch k % 3 {
					case 0:
						cmds = append(cmds, vfc13C("SET", "{"+tagName+"}k", fmt.Sprintf("v%d", id)))
					case 1:
						cmds = append(cmds, vfc13C("INCRBY", "{"+tagName+"}n", "5"))
					default:
						cmds = append(cmds, vfc13C("RPUSH", "{"+tagName+"}l", fmt.Sprintf("e%d", id)))
					}
				}
				for _, cm := range cmds {
					for _, cl := range []*vfc13Cluster{a, b} {
						cl.w.nodes.register(vfc18Cmd{Name: strings.ToLower(string(cm.Name)), Args: cm.Args, Truth: []int{0}, Known: true, Class: "known"})
					}
				}
				node := c.w.nodes.ownerIdx(vfc18HashSlot([]byte("{" + tagName + "}k")))
				tg := fmt.Sprintf("f%d", id)
				id++
				c.sites[node].exec(n > 1, cmds, func(int) string { return tg })
			}
			for round := 0; round < 2; round++ {
				// client writes at A (and a few at B), spread over the masters: tags a..h hash to all three slot ranges
				for ti, tn := range []string{"a", "b", "c", "d", "e", "f", "g", "h"} {
					write(a, tn, 1+ti%4)
				}
				write(b, "x", 2)
				write(b, "y", 1)
				nAB, ok := vfc13ClusterForward(s, mode, a, b, round, replay)
				if !ok {
					return
				}
				nBA, ok := vfc13ClusterForward(s, mode, b, a, round, replay)
				if !ok {
					return
				}
				if nAB != 8 || nBA != 2 {
					s.Violate("write-not-applied-exactly-once", fmt.Sprintf("cluster pair round %d: %d units A->B (want 8), %d units B->A (want 2)", round, nAB, nBA), replay)
				}
				// what the links wrote is read by the opposite syncers: nothing may come out, then nothing is left
				for pass := 0; pass < 2; pass++ {
					n1, ok1 := vfc13ClusterForward(s, mode, a, b, 10+round*2+pass, replay)
					n2, ok2 := vfc13ClusterForward(s, mode, b, a, 10+round*2+pass, replay)
					if !ok1 || !ok2 {
						return
					}
					if n1+n2 != 0 {
						s.Violate("no-quiescence", fmt.Sprintf("cluster pair: %d units were committed after the last client write had been forwarded", n1+n2), replay)
					}
				}
				// a day passes at every master: the markers expire, unreaped (second round: DEL/UNLINK marker ahead of the SET)
				for _, cl := range []*vfc13Cluster{a, b} {
					for _, st := range cl.sites {
						st.now += 86400000 + 17
					}
				}
			}
			s.Count("cluster_loop_" + string(mode))
		}()
	}
}
