//go:build verif

package syncer

// C13 harness: two sites, two links, closed loop.
//
//   site    = vfc13Site: a store + clock + replication stream. What a write
//             propagates is computed by vfc13Propagate, the harness-side twin of
//             the Lean `propagate` (diffed against it by the `props` ops).
//   link    = the REAL parseAofReplayUnits over the encoded stream of the
//             source site, the REAL execBisyncUnit / execBisyncRdbUnit (and the
//             real frontier coordinator / checkpoint functions for bookkeeping)
//             through a real RedisConn into the shared target double, whose
//             request log is what gets executed at the destination site.
//   monitor = nothing the tool wrote comes back as a unit; every foreign
//             command/transaction comes out of the parser; exactly once;
//             quiescence.

import (
	"bufio"
	"bytes"
	"context"
	"encoding/json"
	"errors"
	"fmt"
	"io"
	"os"
	"sort"
	"strconv"
	"strings"
	"testing"
	"time"

	"github.com/mgtv-tech/redis-GunYu/config"
	"github.com/mgtv-tech/redis-GunYu/pkg/log"
	"github.com/mgtv-tech/redis-GunYu/pkg/redis/checkpoint"
	"github.com/mgtv-tech/redis-GunYu/pkg/redis/client"
	"github.com/mgtv-tech/redis-GunYu/pkg/redis/client/conn"
	"github.com/mgtv-tech/redis-GunYu/pkg/redis/keyspec"
	usync "github.com/mgtv-tech/redis-GunYu/pkg/sync"
	"github.com/mgtv-tech/redis-GunYu/pkg/vfdoubles"
	"github.com/mgtv-tech/redis-GunYu/pkg/vfutil"
)

// ------------------------------------------------------------ commands / tokens

type vfc13Cmd struct {
	Name []byte
	Args [][]byte
}

func vfc13C(name string, args ...string) vfc13Cmd {
	c := vfc13Cmd{Name: []byte(name)}
	for _, a := range args {
		c.Args = append(c.Args, []byte(a))
	}
	return c
}

func (c vfc13Cmd) tok() string {
	parts := []string{vfutil.Hex(c.Name)}
	for _, a := range c.Args {
		parts = append(parts, vfutil.Hex(a))
	}
	return strings.Join(parts, ",")
}

func vfc13CmdsTok(cs []vfc13Cmd) string {
	p := make([]string, len(cs))
	for i, c := range cs {
		p[i] = c.tok()
	}
	return strings.Join(p, "/")
}

func (c vfc13Cmd) lower() string { return vfc13Lower(string(c.Name)) }

func vfc13Lower(s string) string {
	b := []byte(s)
	for i, x := range b {
		if x >= 'A' && x <= 'Z' {
			b[i] = x + 32
		}
	}
	return string(b)
}

func vfc13Upper(s []byte) string {
	b := append([]byte(nil), s...)
	for i, x := range b {
		if x >= 'a' && x <= 'z' {
			b[i] = x - 32
		}
	}
	return string(b)
}

func vfc13Resp(c vfc13Cmd) []byte {
	var b bytes.Buffer
	fmt.Fprintf(&b, "*%d\r\n", len(c.Args)+1)
	fmt.Fprintf(&b, "$%d\r\n%s\r\n", len(c.Name), c.Name)
	for _, a := range c.Args {
		fmt.Fprintf(&b, "$%d\r\n", len(a))
		b.Write(a)
		b.WriteString("\r\n")
	}
	return b.Bytes()
}

// ------------------------------------------------------------ site double (twin of the Lean `propagate`)

type vfc13RedisCfg struct{ lazyUnlink, atomicUnits, setPxat bool }

func (c vfc13RedisCfg) bits() string {
	b := func(x bool) string {
		if x {
			return "1"
		}
		return "0"
	}
	return b(c.lazyUnlink) + b(c.atomicUnits) + b(c.setPxat)
}

type vfc13Entry struct {
	kind    string
	members [][]byte
	exp     int64 // -1 = none
}

type vfc13Block struct {
	multi bool
	cmds  []vfc13Cmd
	tag   string // f<id> | t<id> | snap | book | sel (a SELECT the master wrote ahead of a write in another database)
	db    int    // database the block was written in (histories with databases; 0 otherwise)
}

func (b vfc13Block) tok() string {
	if b.multi {
		return "M:" + vfc13CmdsTok(b.cmds)
	}
	return "S:" + b.cmds[0].tok()
}

// wire: the commands as they appear in the stream
func (b vfc13Block) wire() []vfc13Cmd {
	if !b.multi {
		return b.cmds
	}
	out := []vfc13Cmd{vfc13C("MULTI")}
	out = append(out, b.cmds...)
	return append(out, vfc13C("EXEC"))
}

type vfc13Site struct {
	cfg    vfc13RedisCfg
	store  map[string]*vfc13Entry
	now    int64
	stream []vfc13Block
	db     int // database of the last write of the replication stream (histories with databases)
}

// selectDB: the next write at this site is made in database d. A master writes SELECT d into its replication stream
// ahead of the first write in another database than the previous one. The double keeps ONE keyspace (its databases
// alias): what is judged in a history with databases is which database a unit is committed in, not key states.
func (s *vfc13Site) selectDB(d int) {
	if s.db == d {
		return
	}
	s.db = d
	s.stream = append(s.stream, vfc13Block{cmds: []vfc13Cmd{vfc13C("SELECT", strconv.Itoa(d))}, tag: "sel", db: d})
}

func vfc13NewSite(cfg vfc13RedisCfg) *vfc13Site {
	return &vfc13Site{cfg: cfg, store: map[string]*vfc13Entry{}}
}

func (s *vfc13Site) delCmd(k []byte) vfc13Cmd {
	if s.cfg.lazyUnlink {
		return vfc13Cmd{Name: []byte("unlink"), Args: [][]byte{k}}
	}
	return vfc13Cmd{Name: []byte("del"), Args: [][]byte{k}}
}

func (s *vfc13Site) lazyExpire(k []byte) []vfc13Cmd {
	e := s.store[string(k)]
	if e != nil && e.exp >= 0 && e.exp <= s.now {
		delete(s.store, string(k))
		return []vfc13Cmd{s.delCmd(k)}
	}
	return nil
}

func vfc13DecNat(b []byte) (int64, bool) {
	if len(b) == 0 || len(b) > 17 {
		return 0, false
	}
	for _, c := range b {
		if c < '0' || c > '9' {
			return 0, false
		}
	}
	v, err := strconv.ParseInt(string(b), 10, 64)
	return v, err == nil
}

func vfc13Has(ms [][]byte, m []byte) bool {
	for _, x := range ms {
		if bytes.Equal(x, m) {
			return true
		}
	}
	return false
}

func vfc13FieldNames(fv [][]byte) [][]byte {
	var out [][]byte
	for i := 0; i+1 < len(fv); i += 2 {
		out = append(out, fv[i])
	}
	return out
}

func (s *vfc13Site) touchKind(kind string, k []byte, ms [][]byte) bool {
	e := s.store[string(k)]
	if e == nil {
		ne := &vfc13Entry{kind: kind, exp: -1}
		for _, m := range ms {
			if !vfc13Has(ne.members, m) {
				ne.members = append(ne.members, m)
			}
		}
		s.store[string(k)] = ne
		return true
	}
	if e.kind != kind {
		return false
	}
	for _, m := range ms {
		if !vfc13Has(e.members, m) {
			e.members = append(e.members, m)
		}
	}
	return true
}

func (s *vfc13Site) remMembers(kind string, c vfc13Cmd, k []byte, ms [][]byte, pre []vfc13Cmd) []vfc13Cmd {
	e := s.store[string(k)]
	if e == nil || e.kind != kind {
		return pre
	}
	any := false
	for _, m := range ms {
		if vfc13Has(e.members, m) {
			any = true
		}
	}
	if !any {
		return pre
	}
	var left [][]byte
	for _, m := range e.members {
		if !vfc13Has(ms, m) {
			left = append(left, m)
		}
	}
	if len(left) == 0 {
		delete(s.store, string(k))
	} else {
		e.members = left
	}
	return append(pre, c)
}

// vfc13Propagate: what the master writes to its replication stream for c.
func (s *vfc13Site) propagate(c vfc13Cmd) []vfc13Cmd {
	n := c.lower()
	switch n {
	case "set":
		if len(c.Args) < 2 {
			return nil
		}
		k, v, opts := c.Args[0], c.Args[1], c.Args[2:]
		var nx, xx, keepttl, bad bool
		exp := int64(-1)
		for i := 0; i < len(opts) && !bad; i++ {
			switch u := vfc13Upper(opts[i]); u {
			case "NX":
				nx = true
			case "XX":
				xx = true
			case "GET":
			case "KEEPTTL":
				keepttl = true
			case "EX", "PX", "EXAT", "PXAT":
				if i+1 >= len(opts) {
					bad = true
					break
				}
				val, ok := vfc13DecNat(opts[i+1])
				if !ok || val == 0 || exp >= 0 {
					bad = true
					break
				}
				switch u {
				case "EX":
					exp = s.now + val*1000
				case "PX":
					exp = s.now + val
				case "EXAT":
					exp = val * 1000
				default:
					exp = val
				}
				i++
			default:
				bad = true
			}
		}
		if bad || (nx && xx) || (keepttl && exp >= 0) {
			return nil
		}
		pre := s.lazyExpire(k)
		old := s.store[string(k)]
		if (nx && old != nil) || (xx && old == nil) {
			return pre
		}
		var kept [][]byte
		for _, o := range opts {
			if vfc13Upper(o) != "GET" {
				kept = append(kept, o)
			}
		}
		if exp >= 0 {
			s.store[string(k)] = &vfc13Entry{kind: "str", exp: exp}
			if s.cfg.setPxat {
				return append(pre, vfc13Cmd{Name: []byte("set"), Args: [][]byte{k, v, []byte("PXAT"), []byte(strconv.FormatInt(exp, 10))}})
			}
			return append(pre, vfc13Cmd{Name: c.Name, Args: append([][]byte{k, v}, kept...)})
		}
		ne := &vfc13Entry{kind: "str", exp: -1}
		if keepttl && old != nil {
			ne.exp = old.exp
		}
		s.store[string(k)] = ne
		return append(pre, vfc13Cmd{Name: c.Name, Args: append([][]byte{k, v}, kept...)})
	case "del", "unlink":
		var pre []vfc13Cmd
		for _, k := range c.Args {
			pre = append(pre, s.lazyExpire(k)...)
		}
		hit := false
		for _, k := range c.Args {
			if s.store[string(k)] != nil {
				hit = true
			}
		}
		if !hit {
			return pre
		}
		for _, k := range c.Args {
			delete(s.store, string(k))
		}
		return append(pre, c)
	case "expire", "pexpire", "expireat", "pexpireat":
		if len(c.Args) != 2 {
			return []vfc13Cmd{c}
		}
		k := c.Args[0]
		val, ok := vfc13DecNat(c.Args[1])
		if !ok {
			return nil
		}
		var abs int64
		switch n {
		case "expire":
			abs = s.now + val*1000
		case "pexpire":
			abs = s.now + val
		case "expireat":
			abs = val * 1000
		default:
			abs = val
		}
		pre := s.lazyExpire(k)
		e := s.store[string(k)]
		if e == nil {
			return pre
		}
		if abs <= s.now {
			delete(s.store, string(k))
			return append(pre, s.delCmd(k))
		}
		e.exp = abs
		return append(pre, vfc13Cmd{Name: []byte("pexpireat"), Args: [][]byte{k, []byte(strconv.FormatInt(abs, 10))}})
	case "persist":
		if len(c.Args) != 1 {
			return nil
		}
		pre := s.lazyExpire(c.Args[0])
		e := s.store[string(c.Args[0])]
		if e != nil && e.exp >= 0 {
			e.exp = -1
			return append(pre, c)
		}
		return pre
	case "hset", "hmset":
		if len(c.Args) < 1 {
			return nil
		}
		pre := s.lazyExpire(c.Args[0])
		if !s.touchKind("hash", c.Args[0], vfc13FieldNames(c.Args[1:])) {
			return pre
		}
		return append(pre, c)
	case "hdel", "srem", "zrem":
		if len(c.Args) < 1 {
			return nil
		}
		kind := map[string]string{"hdel": "hash", "srem": "set", "zrem": "zset"}[n]
		pre := s.lazyExpire(c.Args[0])
		return s.remMembers(kind, c, c.Args[0], c.Args[1:], pre)
	case "sadd":
		if len(c.Args) < 1 {
			return nil
		}
		k, ms := c.Args[0], c.Args[1:]
		pre := s.lazyExpire(k)
		e := s.store[string(k)]
		fresh := false
		if e == nil {
			fresh = len(ms) > 0
		} else {
			for _, m := range ms {
				if !vfc13Has(e.members, m) {
					fresh = true
				}
			}
		}
		if e != nil && e.kind != "set" {
			return pre
		}
		if !fresh {
			return pre
		}
		s.touchKind("set", k, ms)
		return append(pre, c)
	case "zadd":
		if len(c.Args) < 1 {
			return nil
		}
		pre := s.lazyExpire(c.Args[0])
		sm := c.Args[1:]
		var members [][]byte
		for i := 1; i < len(sm); i += 2 {
			members = append(members, sm[i])
		}
		if !s.touchKind("zset", c.Args[0], members) {
			return pre
		}
		return append(pre, c)
	case "restore":
		if len(c.Args) < 3 {
			return nil
		}
		k, t, payload, opts := c.Args[0], c.Args[1], c.Args[2], c.Args[3:]
		val, ok := vfc13DecNat(t)
		if !ok {
			return nil
		}
		replace, absttl := false, false
		for _, o := range opts {
			switch vfc13Upper(o) {
			case "REPLACE":
				replace = true
			case "ABSTTL":
				absttl = true
			}
		}
		pre := s.lazyExpire(k)
		if s.store[string(k)] != nil && !replace {
			return pre
		}
		exp := int64(-1)
		if val != 0 {
			if absttl {
				exp = val
			} else {
				exp = s.now + val
			}
		}
		out := c
		if val != 0 && !absttl {
			args := [][]byte{k, []byte(strconv.FormatInt(s.now+val, 10)), payload}
			args = append(args, opts...)
			args = append(args, []byte("ABSTTL"))
			out = vfc13Cmd{Name: c.Name, Args: args}
		}
		s.store[string(k)] = &vfc13Entry{kind: "other", exp: exp}
		return append(pre, out)
	}
	keys, _ := keyspec.CommandKeys(string(c.Name), c.Args)
	var pre []vfc13Cmd
	for _, k := range keys {
		pre = append(pre, s.lazyExpire([]byte(k))...)
	}
	if len(keys) > 0 && s.store[keys[0]] == nil {
		s.store[keys[0]] = &vfc13Entry{kind: "other", exp: -1}
	}
	return append(pre, c)
}

// exec runs one execution (plain command or MULTI/EXEC) and appends its blocks.
func (s *vfc13Site) exec(isTxn bool, cmds []vfc13Cmd, tag func(i int) string) []vfc13Block {
	var eff []vfc13Cmd
	for _, c := range cmds {
		eff = append(eff, s.propagate(c)...)
	}
	var blocks []vfc13Block
	switch {
	case s.cfg.atomicUnits:
		if len(eff) == 1 {
			blocks = []vfc13Block{{cmds: eff}}
		} else if len(eff) > 1 {
			blocks = []vfc13Block{{multi: true, cmds: eff}}
		}
	case isTxn:
		if len(cmds) > 0 {
			blocks = []vfc13Block{{multi: true, cmds: eff}}
		}
	default:
		for _, e := range eff {
			blocks = append(blocks, vfc13Block{cmds: []vfc13Cmd{e}})
		}
	}
	for i := range blocks {
		blocks[i].tag = tag(i)
		blocks[i].db = s.db
	}
	s.stream = append(s.stream, blocks...)
	return blocks
}

func (s *vfc13Site) activeExpire(k []byte, tag func(i int) string) []vfc13Block {
	var blocks []vfc13Block
	for i, e := range s.lazyExpire(k) {
		blocks = append(blocks, vfc13Block{cmds: []vfc13Cmd{e}, tag: tag(i), db: s.db})
	}
	s.stream = append(s.stream, blocks...)
	return blocks
}

// ------------------------------------------------------------ running the real parser

func vfc13BuildErr(m string) string {
	switch {
	case strings.Contains(m, "empty replay unit"):
		return "empty"
	case strings.Contains(m, "resolve keys for command"):
		return "resolve"
	case strings.Contains(m, "is not slot-routable"):
		return "notRoutable"
	case strings.Contains(m, "has no routed keys"):
		return "noKeys"
	case strings.Contains(m, "is cross-slot"):
		return "crossSlot"
	case strings.Contains(m, "no business keys"):
		return "noBusinessKeys"
	}
	return "other"
}

func vfc13ParseStatus(err error) string {
	if err == nil {
		return "nil" // a clean end reported where the parser stopped on something (EOF at least)
	}
	m := err.Error()
	switch {
	case strings.Contains(m, "unexpected EOF while parsing transaction"):
		return "eof-in-txn"
	case errors.Is(err, io.EOF):
		return "eof"
	case strings.Contains(m, "nested MULTI"):
		return "err-nested-multi"
	case strings.Contains(m, "EXEC without MULTI"):
		return "err-exec-without-multi"
	case strings.Contains(m, "select command len(args)"):
		return "err-select-args"
	case strings.Contains(m, "parse db error"):
		return "err-select-parse"
	case strings.Contains(m, "build replay unit failed"):
		return "err-build-" + vfc13BuildErr(m)
	}
	return "err-other:" + m
}

func vfc13UnitTok(u *bisyncReplayUnit) string {
	cs := make([]vfc13Cmd, len(u.Commands))
	for i, c := range u.Commands {
		cs[i] = vfc13Cmd{Name: []byte(c.Cmd), Args: c.Args}
	}
	t := "s"
	if u.SourceTxn {
		t = "t"
	}
	return fmt.Sprintf("U%d:%d-%d:%s:%d:%s", u.Seq, u.StartOffset, u.EndOffset, t, u.Slot, vfc13CmdsTok(cs))
}

// vfc13Parse runs the real parser over an encoded command list.
func vfc13Parse(ro *RedisOutput, start int64, seq0 int64, wire []byte) ([]*bisyncReplayUnit, error) {
	ro.bisyncSeq.Store(seq0 - 1)
	wait := usync.NewWaitCloser(nil)
	unitBuf := make(chan *bisyncReplayUnit, 4096)
	err := ro.parseAofReplayUnits(wait, bufio.NewReader(bytes.NewReader(wire)), start, unitBuf)
	var units []*bisyncReplayUnit
	for u := range unitBuf {
		units = append(units, u)
	}
	return units, err
}

type vfc13FbIntrospector struct{ fb string }

func (f *vfc13FbIntrospector) reply(args [][]byte) ([]string, error) {
	switch f.fb {
	case "err":
		return nil, errors.New("ERR Invalid command specified")
	case "first":
		if len(args) > 0 {
			return []string{string(args[0])}, nil
		}
	case "all":
		out := make([]string, 0, len(args))
		for _, a := range args {
			out = append(out, string(a))
		}
		return out, nil
	}
	return nil, nil
}

// vfc13FbRedis answers COMMAND GETKEYS for the parser's resolver connection.
type vfc13FbRedis struct {
	vfc18Redis
	in *vfc13FbIntrospector
}

func (r *vfc13FbRedis) RedisType() config.RedisType { return config.RedisTypeStandalone }
func (r *vfc13FbRedis) IterateNodes(result func(string, interface{}, error), cmd string, args ...interface{}) {
	var raw [][]byte
	for _, a := range args[2:] {
		raw = append(raw, a.([]byte))
	}
	keys, err := r.in.reply(raw)
	if err != nil {
		result("node-a", nil, err)
		return
	}
	reply := make([]interface{}, 0, len(keys))
	for _, k := range keys {
		reply = append(reply, []byte(k))
	}
	result("node-a", reply, nil)
}

func vfc13NewOutput(cluster bool, fb string, cp string, pb []string, dbbl []int, tg *vfdoubles.Target) *RedisOutput {
	cfg := RedisOutputConfig{InputName: "in-1", CheckpointName: cp, BisyncEnabled: true, BatchCmdCount: 8, TargetDb: -1}
	cfg.Redis.Type = config.RedisTypeStandalone
	if cluster {
		cfg.Redis.Type = config.RedisTypeCluster
	}
	if len(pb) > 0 {
		cfg.Filter.KeyFilter = &config.FilterKeyConfig{PrefixKeyBlacklist: pb}
	}
	cfg.Filter.DbBlacklist = dbbl
	ro := NewRedisOutput(cfg)
	rc := ro.cfg.Redis
	ro.newRedisConn = func(ctx context.Context) (client.Redis, error) {
		if tg != nil {
			return conn.VerifNewRedisConn(tg.Dial(), rc), nil
		}
		return &vfc13FbRedis{in: &vfc13FbIntrospector{fb: fb}}, nil
	}
	return ro
}

// ------------------------------------------------------------ generators

var vfc13Reserved = []string{"redis-gunyu-bisync:", "redis-gunyu-checkpoint", "/redis-gunyu"}

func vfc13IsReserved(k []byte) bool {
	for _, p := range vfc13Reserved {
		if bytes.HasPrefix(k, []byte(p)) {
			return true
		}
	}
	return false
}

// business keys: small pools so that histories collide on keys; a key name is
// bound to one type (type conflicts between the sites are not the property)
func vfc13BizKey(r *vfutil.Rand) []byte {
	switch r.Intn(14) {
	case 0:
		return []byte("redis-gunyu-bisyn") // one byte short of the reserved prefix
	case 1:
		return []byte("redis-gunyu-bisyncX:marker:{slot-59e4}") // prefix without the colon
	case 2:
		return []byte("Redis-gunyu-bisync:x:marker:{t}")
	case 3:
		return []byte("x:redis-gunyu-bisync:c:marker:{t}")
	case 4:
		return []byte{0xff, 0x00, '{', 'a', '}'}
	case 5:
		return []byte("redis-gunyu-checkpoin")
	default:
		return []byte(fmt.Sprintf("k%d", r.Intn(5)))
	}
}

func vfc13TypedKey(r *vfutil.Rand, kind string) []byte {
	return []byte(fmt.Sprintf("%s%d", kind, r.Intn(3)))
}

// any key, whatever its type (DEL, EXPIRE, …)
func vfc13AnyKey(r *vfutil.Rand) []byte {
	if r.Chance(1, 2) {
		return vfc13BizKey(r)
	}
	return vfc13TypedKey(r, vfutil.Pick(r, []string{"h", "e", "z", "l", "n", "o"}))
}

// values: include byte-identical copies of marker values and of control keys
func vfc13Value(r *vfutil.Rand, w *vfc13World) []byte {
	switch r.Intn(8) {
	case 0:
		if w != nil && len(w.markerValues) > 0 {
			return vfutil.Pick(r, w.markerValues)
		}
		return []byte(`{"version":"1","run_id":"r","syncer_id":"in-1","unit_seq":1,"start_offset":0,"end_offset":10,"slot":0,"digest":"0"}`)
	case 1:
		return []byte(checkpoint.BisyncMarkerKey("redis-gunyu-checkpoint-bisync:00", checkpoint.BisyncSlotTag(0)))
	case 2:
		return []byte("redis-gunyu-checkpoint-hash")
	case 3:
		return r.Bytes(r.Intn(5))
	default:
		return []byte(strconv.Itoa(r.Intn(100)))
	}
}

// one client data command on non-reserved keys
func vfc13ClientCmd(r *vfutil.Rand, w *vfc13World) vfc13Cmd {
	k := vfc13BizKey(r)
	ak := vfc13AnyKey(r)
	v := vfc13Value(r, w)
	name := func(s string) []byte {
		if r.Chance(1, 5) {
			return []byte(strings.ToUpper(s))
		}
		return []byte(s)
	}
	switch r.Intn(24) {
	case 0, 1, 2:
		return vfc13Cmd{Name: name("set"), Args: [][]byte{k, v}}
	case 3:
		return vfc13Cmd{Name: name("set"), Args: [][]byte{k, v, []byte("PX"), []byte(strconv.Itoa(r.Range(1, 500)))}}
	case 4:
		return vfc13Cmd{Name: name("set"), Args: [][]byte{k, v, []byte("ex"), []byte(strconv.Itoa(r.Range(1, 3)))}}
	case 5:
		return vfc13Cmd{Name: name("set"), Args: [][]byte{k, v, []byte("NX")}}
	case 6:
		return vfc13Cmd{Name: name("set"), Args: [][]byte{k, v, []byte("XX"), []byte("GET")}}
	case 7:
		return vfc13Cmd{Name: name("set"), Args: [][]byte{k, v, []byte("KEEPTTL")}}
	case 8:
		return vfc13Cmd{Name: name("del"), Args: [][]byte{ak, vfc13AnyKey(r)}}
	case 9:
		return vfc13Cmd{Name: name("unlink"), Args: [][]byte{ak}}
	case 10:
		return vfc13Cmd{Name: name("expire"), Args: [][]byte{ak, []byte(strconv.Itoa(r.Intn(3)))}}
	case 11:
		return vfc13Cmd{Name: name("pexpire"), Args: [][]byte{ak, []byte(strconv.Itoa(r.Range(0, 400)))}}
	case 12:
		return vfc13Cmd{Name: name("pexpireat"), Args: [][]byte{ak, []byte(strconv.Itoa(r.Range(0, 3000)))}}
	case 13:
		return vfc13Cmd{Name: name("persist"), Args: [][]byte{ak}}
	case 14:
		return vfc13Cmd{Name: name("hset"), Args: [][]byte{vfc13TypedKey(r, "h"), []byte("f" + strconv.Itoa(r.Intn(3))), v}}
	case 15:
		return vfc13Cmd{Name: name("hdel"), Args: [][]byte{vfc13TypedKey(r, "h"), []byte("f" + strconv.Itoa(r.Intn(3)))}}
	case 16:
		return vfc13Cmd{Name: name("sadd"), Args: [][]byte{vfc13TypedKey(r, "e"), []byte("m" + strconv.Itoa(r.Intn(3)))}}
	case 17:
		return vfc13Cmd{Name: name("srem"), Args: [][]byte{vfc13TypedKey(r, "e"), []byte("m" + strconv.Itoa(r.Intn(3)))}}
	case 18:
		return vfc13Cmd{Name: name("zadd"), Args: [][]byte{vfc13TypedKey(r, "z"), []byte("1"), []byte("m" + strconv.Itoa(r.Intn(3)))}}
	case 19:
		return vfc13Cmd{Name: name("zrem"), Args: [][]byte{vfc13TypedKey(r, "z"), []byte("m" + strconv.Itoa(r.Intn(3)))}}
	case 20:
		return vfc13Cmd{Name: name("incrby"), Args: [][]byte{vfc13TypedKey(r, "n"), []byte("3")}}
	case 21:
		return vfc13Cmd{Name: name("rpush"), Args: [][]byte{vfc13TypedKey(r, "l"), v}}
	case 22:
		return vfc13Cmd{Name: name("restore"), Args: [][]byte{vfc13TypedKey(r, "o"), []byte(strconv.Itoa(r.Intn(300))), r.Bytes(6), []byte("REPLACE")}}
	default:
		return vfc13Cmd{Name: name("mset"), Args: [][]byte{k, v, vfc13BizKey(r), vfc13Value(r, w)}}
	}
}

// ------------------------------------------------------------ the world

type vfc13Link struct {
	src, dst int
	cp       string
	pos      int
	off      int64
	cpos     int   // blocks consumed when the last unit was committed: where a restarted syncer resumes
	coff     int64 // … its byte offset (what the commit record persists as end offset)
	halted   bool
	mode     config.ReplayMode
	ro       *RedisOutput
	tg       *vfdoubles.Target
	logMark  int
	dbBlack  int      // database this link's filter black-lists (-1: none)
	retired  bool     // the syncer switched its recovery format: its life under namespace `cp` is over (see retire)
	names    []string // further namespace names this syncer generated (the one a format switch moves to)
}

// a fresh real connection into the link's target double
func (l *vfc13Link) dial() client.Redis { return conn.VerifNewRedisConn(l.tg.Dial(), l.ro.cfg.Redis) }

type vfc13World struct {
	t            *testing.T
	s            *vfutil.Session
	sites        [2]*vfc13Site
	links        [2]*vfc13Link // links[i] reads site i
	nextID       int
	evs          []string
	outcomes     []string
	commits      []string
	commitCount  map[string]int
	foreignOK    map[int]bool // foreign block id → generator vouches it is outside the reserved namespace
	markerValues [][]byte
	fb           string
	viol         bool
	cuts         bool   // this history injects connection cuts and takes resume points from the real StartPoint
	rewound      bool   // a restart resumed BEFORE the last committed unit (allowed in pipeline / parallel mode): repeats are allowed from then on
	rerun        string // how VERIF_REPLAY re-runs this world: "hist <subseed> <events>" | "script <line>"
	dbs          bool   // a history with DATABASES: clients write in databases 0 / 1 / 3, SELECT blocks in the streams, the exactly-once monitor also asks WHERE a unit was committed (D31); no Lean world op (the model has one keyspace)
	reqDB        int    // database of the tool request being applied
	flt          bool   // a history with USER FILTERS on both links (key prefix black list tmp:, command black list, slot black list of one key, on link B also database 3): what must come out of a client block is its projection by the filter (vfc13FltProject); no Lean world op (the world model has the default filter)
}

// ---- user filters inside the generated histories (dimension audit, session 5)

var vfc13FltSlotKey = "user:5" // the one key the slot black list withholds

func vfc13FltKeyFiltered(k []byte) bool {
	return strings.HasPrefix(string(k), "tmp:") || vfc18HashSlot(k) == vfc18HashSlot([]byte(vfc13FltSlotKey))
}

// vfc13FltProject: what the configured filters let through of the commands of a client block, as the configuration
// documents it (independent of pkg/filter): the command black list drops LPUSH; DEL / UNLINK keep the keys that pass,
// MSET the pairs whose key passes; any other command goes as a whole unless one of its keys is withheld
func (w *vfc13World) fltProject(cmds []vfc13Cmd) []vfc13Cmd {
	var out []vfc13Cmd
	for _, c := range cmds {
		n := c.lower()
		if n == "lpush" {
			continue
		}
		switch n {
		case "del", "unlink":
			p := vfc13Cmd{Name: c.Name}
			for _, k := range c.Args {
				if !vfc13FltKeyFiltered(k) {
					p.Args = append(p.Args, k)
				}
			}
			if len(p.Args) > 0 {
				out = append(out, p)
			}
		case "mset":
			p := vfc13Cmd{Name: c.Name}
			for i := 0; i+1 < len(c.Args); i += 2 {
				if !vfc13FltKeyFiltered(c.Args[i]) {
					p.Args = append(p.Args, c.Args[i], c.Args[i+1])
				}
			}
			if len(p.Args) > 0 {
				out = append(out, p)
			}
		default:
			if len(c.Args) > 0 && vfc13FltKeyFiltered(c.Args[0]) {
				continue
			}
			out = append(out, c)
		}
	}
	return out
}

// fltCmd: client commands that meet the filters (keys user:N / tmp:N; multi-key DEL / UNLINK / MSET; LPUSH)
func vfc13FltCmd(r *vfutil.Rand) vfc13Cmd {
	key := func() string {
		if r.Chance(2, 5) {
			return fmt.Sprintf("tmp:%d", r.Intn(4))
		}
		return fmt.Sprintf("user:%d", r.Intn(7))
	}
	switch r.Intn(6) {
	case 0, 1:
		args := []string{}
		for i, n := 0, r.Range(1, 4); i < n; i++ {
			args = append(args, key())
		}
		return vfc13C(vfutil.Pick(r, []string{"DEL", "UNLINK"}), args...)
	case 2, 3:
		args := []string{}
		for i, n := 0, r.Range(1, 4); i < n; i++ {
			args = append(args, key(), fmt.Sprintf("v%d", r.Intn(100)))
		}
		return vfc13C("MSET", args...)
	case 4:
		return vfc13C("LPUSH", "l0", "x")
	default:
		return vfc13C("SET", key(), fmt.Sprintf("v%d", r.Intn(100)))
	}
}

// violate: Session.Violate with the world's re-run recipe in the replay record
func (w *vfc13World) violate(what, detail string, m map[string]interface{}) {
	if m == nil {
		m = map[string]interface{}{}
	}
	m["rerun"] = w.rerun
	w.s.Violate(what, detail, m)
}

func vfc13SiteName(i int) string { return string(rune('A' + i)) }

func vfc13ModeName(m config.ReplayMode) string {
	if m == "" {
		return string(config.ReplayModeSync)
	}
	return string(m)
}

func vfc13NewWorld(t *testing.T, s *vfutil.Session, r *vfutil.Rand, ca, cb vfc13RedisCfg, fb string, mode config.ReplayMode) *vfc13World {
	w := &vfc13World{t: t, s: s, commitCount: map[string]int{}, foreignOK: map[int]bool{}, fb: fb}
	w.sites[0], w.sites[1] = vfc13NewSite(ca), vfc13NewSite(cb)
	for i := 0; i < 2; i++ {
		cp := fmt.Sprintf("redis-gunyu-checkpoint-bisync:%024x", r.U64())
		tg := vfdoubles.NewTarget()
		tg.Lenient = true
		ro := vfc13NewOutput(false, fb, cp, nil, nil, tg)
		ro.cfg.ReplayMode = mode
		ro.cfg.InputName = "in-" + vfc13SiteName(i) // the two links are two syncers: own input name, own run id ("runid-A" / "runid-B")
		// the root checkpoint a finished full sync leaves at the target (state of the double only): the real StartPoint reads it
		rid := "runid-" + vfc13SiteName(i)
		tg.Seed(0, "hset", cp, rid+"_runid", rid, rid+"_version", config.Version, rid+"_offset", "0", "bisync_mode", vfc13ModeName(mode))
		w.links[i] = &vfc13Link{src: i, dst: 1 - i, cp: cp, ro: ro, tg: tg, mode: mode, dbBlack: -1}
	}
	return w
}

func (w *vfc13World) foreignTag(ok bool) func(i int) string {
	return func(i int) string {
		id := w.nextID
		w.nextID++
		w.foreignOK[id] = ok
		return fmt.Sprintf("f%d", id)
	}
}

func (w *vfc13World) client(site int, isTxn bool, cmds []vfc13Cmd, vouch bool) {
	if isTxn {
		w.evs = append(w.evs, fmt.Sprintf("m%s:%s", vfc13SiteName(site), vfc13CmdsTok(cmds)))
	} else {
		w.evs = append(w.evs, fmt.Sprintf("c%s:%s", vfc13SiteName(site), cmds[0].tok()))
	}
	w.sites[site].exec(isTxn, cmds, w.foreignTag(vouch))
}

func (w *vfc13World) tick(site int, dt int64) {
	w.evs = append(w.evs, fmt.Sprintf("t%s:%d", vfc13SiteName(site), dt))
	w.sites[site].now += dt
}

func (w *vfc13World) expire(site int, k []byte) {
	w.evs = append(w.evs, fmt.Sprintf("x%s:%s", vfc13SiteName(site), vfutil.Hex(k)))
	if bytes.HasPrefix(k, []byte("redis-gunyu-bisync:")) || bytes.HasPrefix(k, []byte("redis-gunyu-checkpoint")) {
		// a bookkeeping key (a marker) expiring: not a write of this site's clients
		w.sites[site].activeExpire(k, func(int) string { return "book" })
		return
	}
	w.sites[site].activeExpire(k, w.foreignTag(!vfc13IsReserved(k)))
}

// one thing the tool sent to the destination: a MULTI … EXEC block or a
// stand-alone request
type vfc13Req struct {
	multi bool
	cmds  []vfc13Cmd
	db    int // database the target connection had selected when the request (the EXEC of a block) arrived
}

// vfc13GroupLog turns target-double log entries into requests in arrival
// order; reads are dropped (they are not propagated by a master).
func vfc13GroupLog(entries []vfdoubles.LogEntry) []vfc13Req {
	var out []vfc13Req
	var cur []vfc13Cmd
	in := false
	for _, e := range entries {
		c := vfc13Cmd{Name: e.Args[0], Args: e.Args[1:]}
		switch e.Cmd() {
		case "multi":
			in, cur = true, nil
		case "exec":
			out = append(out, vfc13Req{multi: true, cmds: cur, db: e.DB})
			in = false
		case "select", "hget", "hgetall", "hmget", "exists", "info", "ping", "zrangebyscore", "zrange", "zcard", "zscore", "get", "command", "type", "ttl", "pttl", "scan", "keys", "dbsize":
		default:
			if in {
				cur = append(cur, c)
			} else {
				out = append(out, vfc13Req{cmds: []vfc13Cmd{c}, db: e.DB})
			}
		}
	}
	return out
}

// newRequests: what the link's target double received since the last call
func (l *vfc13Link) newRequests() []vfc13Req {
	log := l.tg.LogCopy()
	if l.logMark > len(log) {
		l.logMark = len(log)
	}
	out := vfc13GroupLog(log[l.logMark:])
	l.logMark = len(log)
	return out
}

// classify a stand-alone bookkeeping request into the model's vocabulary
// (the namespace is the link's own or one its syncer generated for a format switch)
func (w *vfc13World) bookToken(l *vfc13Link, c vfc13Cmd) (string, bool) {
	for _, cp := range append([]string{l.cp}, l.names...) {
		if tok, ok := w.bookTokenFor(cp, c); ok {
			return tok, true
		}
	}
	return "", false
}

// vfc13PlainNsKey: a latest / index / journal key of namespace cp (a control key that never carries an expiry)
func vfc13PlainNsKey(cp, k string) bool {
	pre := checkpoint.BisyncKeyPrefix + ":" + cp + ":"
	if !strings.HasPrefix(k, pre) {
		return false
	}
	rest := k[len(pre):]
	for _, lit := range []string{"latest:{", "index:{"} {
		if strings.HasPrefix(rest, lit) && strings.HasSuffix(rest, "}") {
			tag := rest[len(lit) : len(rest)-1]
			return checkpoint.BisyncLatestCheckpointKey(cp, tag) == k || checkpoint.BisyncCommitIndexKey(cp, tag) == k
		}
	}
	if strings.HasPrefix(rest, "commit:{") {
		body := rest[len("commit:{"):]
		i := strings.Index(body, "}:")
		if i < 0 {
			return false
		}
		seq, err := strconv.ParseInt(body[i+2:], 10, 64)
		return err == nil && seq >= 0 && checkpoint.BisyncCommitRecordKey(cp, body[:i], seq) == k
	}
	return false
}

func (w *vfc13World) bookTokenFor(cp string, c vfc13Cmd) (string, bool) {
	name := c.lower()
	if len(c.Args) == 0 {
		return "", false
	}
	k := string(c.Args[0])
	hexl := func(bs [][]byte) string { return vfutil.HexList(bs) }
	switch {
	case name == "hset" && k == checkpoint.BisyncFrontierKey(cp):
		return fmt.Sprintf("fs:%s:%s", vfutil.HexS(cp), hexl(c.Args[1:])), true
	case name == "del" && len(c.Args) == 1 && checkpoint.IsBisyncCommitKey(k):
		// redis-gunyu-bisync:<cp>:commit:{<tag>}:<seq>
		rest := strings.TrimPrefix(k, checkpoint.BisyncKeyPrefix+":"+cp+":commit:{")
		i := strings.Index(rest, "}:")
		if i < 0 {
			return "", false
		}
		seq, err := strconv.ParseInt(rest[i+2:], 10, 64)
		if err != nil || checkpoint.BisyncCommitRecordKey(cp, rest[:i], seq) != k {
			return "", false
		}
		return fmt.Sprintf("jd:%s:%s:%d", vfutil.HexS(cp), vfutil.HexS(rest[:i]), seq), true
	case name == "zrem" && checkpoint.IsBisyncCommitIndexKey(k):
		rest := strings.TrimPrefix(k, checkpoint.BisyncKeyPrefix+":"+cp+":index:{")
		tag := strings.TrimSuffix(rest, "}")
		if checkpoint.BisyncCommitIndexKey(cp, tag) != k {
			return "", false
		}
		return fmt.Sprintf("ir:%s:%s:%s", vfutil.HexS(cp), vfutil.HexS(tag), hexl(c.Args[1:])), true
	case (name == "hset" || name == "hsetnx") && k == config.CheckpointKeyHashKey && len(c.Args) == 3:
		nx := "0"
		if name == "hsetnx" {
			nx = "1"
		}
		return fmt.Sprintf("hs:%s:%s:%s", vfutil.Hex(c.Args[1]), vfutil.Hex(c.Args[2]), nx), true
	case name == "hdel" && k == config.CheckpointKeyHashKey && len(c.Args) == 2:
		return fmt.Sprintf("hd:%s", vfutil.Hex(c.Args[1])), true
	case name == "del" && len(c.Args) == 1 && k == checkpoint.BisyncFrontierKey(cp):
		return fmt.Sprintf("fd:%s", vfutil.HexS(cp)), true
	case name == "del" && len(c.Args) == 2 && k == cp && string(c.Args[1]) == checkpoint.BisyncFrontierKey(cp):
		// cleanupBisyncNamespace: the root keys of a retired namespace
		return fmt.Sprintf("rd:%s", vfutil.HexS(cp)), true
	case name == "del" && len(c.Args) == 1 && checkpoint.IsBisyncLatestKey(k):
		// ResetStartPoint: the latest record of a recovery slot, one DEL per slot
		rest := strings.TrimPrefix(k, checkpoint.BisyncKeyPrefix+":"+cp+":latest:{")
		tag := strings.TrimSuffix(rest, "}")
		if checkpoint.BisyncLatestCheckpointKey(cp, tag) != k {
			return "", false
		}
		return fmt.Sprintf("ld:%s:%s", vfutil.HexS(cp), vfutil.HexS(tag)), true
	case name == "del" && len(c.Args) == 1 && checkpoint.IsBisyncMarkerKey(k):
		// cleanupBisyncNamespace: the marker of a retired namespace, ALONE in its DEL (it is the one control key with an expiry)
		rest := strings.TrimPrefix(k, checkpoint.BisyncKeyPrefix+":"+cp+":marker:{")
		tag := strings.TrimSuffix(rest, "}")
		if checkpoint.BisyncMarkerKey(cp, tag) != k {
			return "", false
		}
		return fmt.Sprintf("md:%s:%s", vfutil.HexS(cp), vfutil.HexS(tag)), true
	case name == "del" && len(c.Args) >= 1:
		// cleanupBisyncNamespace: latest / index / journal keys of a retired namespace, several per DEL; none carries an expiry
		for _, a := range c.Args {
			if !vfc13PlainNsKey(cp, string(a)) {
				return "", false
			}
		}
		return fmt.Sprintf("nd:%s:%s", vfutil.HexS(cp), hexl(c.Args)), true
	case name == "hset" && k == cp:
		return fmt.Sprintf("rs:%s:%s", vfutil.HexS(cp), hexl(c.Args[1:])), true
	case name == "hdel" && k == cp:
		return fmt.Sprintf("rh:%s:%s", vfutil.HexS(cp), hexl(c.Args[1:])), true
	case name == "hset" && checkpoint.IsBisyncLatestKey(k):
		rest := strings.TrimPrefix(k, checkpoint.BisyncKeyPrefix+":"+cp+":latest:{")
		tag := strings.TrimSuffix(rest, "}")
		if checkpoint.BisyncLatestCheckpointKey(cp, tag) != k {
			return "", false
		}
		return fmt.Sprintf("ls:%s:%s:%s", vfutil.HexS(cp), vfutil.HexS(tag), hexl(c.Args[1:])), true
	}
	return "", false
}

// applyToolRequests: everything the tool sent outside a unit commit is
// executed at the destination site (so that the opposite link meets it) and
// reported to the model: a stand-alone request of the bookkeeping vocabulary
// as a `b` event, anything else (a MULTI block without marker, an unknown
// request) as a raw `r` event plus a violation — the tool's bookkeeping must
// be stand-alone requests of known forms, only those are proved to be skipped.
func (w *vfc13World) applyToolRequest(l *vfc13Link, q vfc13Req) {
	name := vfc13SiteName(l.src)
	if w.dbs {
		w.sites[l.dst].selectDB(q.db)
	}
	if !q.multi {
		c := q.cmds[0]
		if tok, ok := w.bookToken(l, c); ok {
			w.evs = append(w.evs, fmt.Sprintf("b%s:%s", name, tok))
			w.sites[l.dst].exec(false, []vfc13Cmd{c}, func(int) string { return "book" })
			w.s.Count("book_" + strings.SplitN(tok, ":", 2)[0])
			return
		}
		w.violate("tie-shape:unmodelled-bookkeeping-traffic", "the tool wrote a stand-alone request the model has no form for: "+c.tok(),
			map[string]interface{}{"cmd": c.tok()})
		w.viol = true
		w.evs = append(w.evs, fmt.Sprintf("r%s:0:%s", name, c.tok()))
		w.sites[l.dst].exec(false, []vfc13Cmd{c}, func(int) string { return "book" })
		return
	}
	w.violate("bookkeeping-inside-multi", "the tool sent a MULTI/EXEC block that is not a unit commit (no marker first): "+vfc13CmdsTok(q.cmds),
		map[string]interface{}{"cmds": vfc13CmdsTok(q.cmds), "link": name})
	w.viol = true
	w.evs = append(w.evs, fmt.Sprintf("r%s:1:%s", name, vfc13CmdsTok(q.cmds)))
	w.sites[l.dst].exec(true, q.cmds, func(int) string { return "book" })
}

// link B (reading site 1) of a history with databases AND filters black-lists database 3
func src1DbBlack(l *vfc13Link, blk vfc13Block) bool {
	return l.dbBlack >= 0 && blk.db == l.dbBlack
}

func vfc13IsMarkerSet(c vfc13Cmd) bool {
	return c.lower() == "set" && len(c.Args) == 4 && checkpoint.IsBisyncMarkerKey(string(c.Args[0]))
}

func (w *vfc13World) skipBlock(l *vfc13Link, kind string, blk vfc13Block) {
	name := vfc13SiteName(l.src)
	w.evs = append(w.evs, fmt.Sprintf("l%s:%s:-:.", name, kind))
	w.s.Count("link_skip_" + blk.tag[:1])
	if blk.tag[0] == 'f' {
		var id int
		fmt.Sscanf(blk.tag, "f%d", &id)
		owed := len(blk.cmds) > 0
		if w.flt {
			owed = len(w.fltProject(blk.cmds)) > 0
		}
		if w.dbs && src1DbBlack(l, blk) {
			owed = false // the user's database black list of this link withholds it
		}
		if w.foreignOK[id] && owed {
			w.violate("foreign-block-suppressed", "a client/expiry block outside the reserved namespace was consumed by the link without being committed at the other site",
				map[string]interface{}{"block": blk.tok(), "tag": blk.tag, "site": name, "redis": w.sites[l.src].cfg.bits()})
			w.viol = true
		}
	}
}

// linkRun: the link reading site `src` runs the REAL send loop
// (parseAofReplayUnits + sendBisyncSync/Pipeline/Parallel) over its next n blocks.
func (w *vfc13World) linkRun(r *vfutil.Rand, src int, n int) bool {
	l := w.links[src]
	name := vfc13SiteName(src)
	kind := "j"
	if l.mode == config.ReplayModeSync || l.mode == "" {
		kind = "l"
	}
	avail := len(w.sites[src].stream) - l.pos
	if l.halted || l.retired || avail <= 0 {
		return false
	}
	if n > avail {
		n = avail
	}
	blocks := w.sites[src].stream[l.pos : l.pos+n]
	var wire []byte
	ends := make([]int64, n)
	for i, blk := range blocks {
		for _, c := range blk.wire() {
			wire = append(wire, vfc13Resp(c)...)
		}
		ends[i] = l.off + int64(len(wire))
	}
	settle := time.Duration(0)
	if r.Chance(1, 3) {
		settle = 150 * time.Millisecond // lets the frontier ticker fire
	}
	l.newRequests()
	cut := false
	if w.cuts && r.Chance(1, 4) {
		// the target connection drops after a few more requests: units already executed stay executed, replies are lost
		l.tg.CutAt = l.tg.LogLen() + r.Range(2, 6+6*n)
	}
	err, log := vfBisyncLoopRun(w.t, l.ro, l.tg, "runid-"+name, wire, l.off, settle)
	if l.tg.CutAt >= 0 && l.tg.LogLen() >= l.tg.CutAt {
		cut = true // the cut was reached: whatever the loop returned (a target connection's EOF looks like the source's), it was interrupted
		w.s.Count("loop_run_cut")
	}
	l.tg.CutAt = -1
	l.logMark = l.tg.LogLen()
	status := vfc13ParseStatus(err)
	if status == "nil" {
		// the loop reports a clean end: read on like after EOF; a refusal lost this way leaves
		// foreign blocks uncommitted (foreign-block-suppressed) and the model halts where the tool does not
		w.s.Count("loop_returned_nil")
		status = "eof"
	}
	w.s.Count("loop_run_" + string(l.mode))
	next := 0
	for _, q := range vfc13GroupLog(log) {
		if !q.multi || len(q.cmds) == 0 || !vfc13IsMarkerSet(q.cmds[0]) {
			w.applyToolRequest(l, q)
			continue
		}
		txn := q.cmds
		mv := txn[0].Args[1]
		var m checkpoint.BisyncMarker
		if json.Unmarshal(mv, &m) != nil {
			w.violate("marker-value-malformed", "marker value is not JSON", map[string]interface{}{"cmds": vfc13CmdsTok(txn)})
			w.viol = true
			continue
		}
		j := -1
		for i := next; i < n; i++ {
			if ends[i] == m.EndOffset {
				j = i
				break
			}
		}
		if j < 0 {
			w.violate("commit-for-unknown-block", fmt.Sprintf("a unit with end offset %d was committed; no unread block ends there (already committed, or not a block boundary)", m.EndOffset),
				map[string]interface{}{"cmds": vfc13CmdsTok(txn), "link": name})
			w.viol = true
			continue
		}
		for i := next; i < j; i++ {
			w.skipBlock(l, kind, blocks[i])
		}
		next = j + 1
		w.reqDB = q.db
		w.commitBlock(l, kind, blocks[j], txn, m)
		l.cpos, l.coff = l.pos+j+1, ends[j]
	}
	if status == "eof" && !cut {
		for i := next; i < n; i++ {
			w.skipBlock(l, kind, blocks[i])
		}
		l.pos += n
		l.off = ends[n-1]
		return true
	}
	if cut && !strings.HasPrefix(status, "err-build") {
		// the connection dropped (not a refusal): what was executed is executed; the syncer starts again
		// from wherever the REAL StartPoint says
		if next > 0 {
			l.pos += next
			l.off = ends[next-1]
		}
		w.s.Count("loop_cut_" + strings.SplitN(status, ":", 2)[0])
		w.realRestart(r, src)
		return true
	}
	// the loop stopped with an error: the model finds the block it stops at
	l.halted = true
	w.s.Count("link_halt")
	toolOnly := true
	for i := next; i < n; i++ {
		w.evs = append(w.evs, fmt.Sprintf("l%s:%s:-:.", name, kind))
		if blocks[i].tag[0] == 'f' {
			toolOnly = false
		}
	}
	w.outcomes = append(w.outcomes, "L"+name+":halt:"+status)
	if toolOnly {
		w.violate("tool-block-halts-opposite-link", "only blocks the tool wrote were left to read, yet the opposite link stopped: "+status,
			map[string]interface{}{"link": name, "status": status})
		w.viol = true
	}
	return true
}

// restart: the syncer of the link reading `src` restarts (or its input reconnects): it resumes behind the
// last unit it committed with a fresh parser; blocks it had passed over since are read again; a stop is forgotten
func (w *vfc13World) restart(src int) {
	l := w.links[src]
	if l.retired {
		return
	}
	w.evs = append(w.evs, fmt.Sprintf("R%s:%d:%d", vfc13SiteName(src), l.cpos, l.ro.bisyncSeq.Load()+1))
	l.pos, l.off, l.halted = l.cpos, l.coff, false
	w.s.Count("link_restart")
}

// blockStart: byte offset at which block i of site `src`'s stream starts
func (w *vfc13World) blockStart(src, i int) int64 {
	var off int64
	for _, blk := range w.sites[src].stream[:i] {
		for _, c := range blk.wire() {
			off += int64(len(vfc13Resp(c)))
		}
	}
	return off
}

// realRestart: the resume point comes from the REAL RedisOutput.StartPoint (bisyncStartPoint: latest records in
// sync mode, frontier snapshot + journal otherwise; the in-memory fast path when the same process asks again)
// evaluated on the link's target double — a fresh process (new RedisOutput) or the same one. What StartPoint
// writes (frontier save, journal clean-up) is bookkeeping traffic like any other. A resume point BEFORE the last
// committed unit is allowed (pipeline / parallel): from then on units may repeat, nothing else may change.
func (w *vfc13World) realRestart(r *vfutil.Rand, src int) {
	l := w.links[src]
	if l.retired {
		return
	}
	name := vfc13SiteName(src)
	ro := l.ro
	fresh := r.Bool()
	if fresh {
		ro = vfc13NewOutput(false, w.fb, l.cp, nil, nil, l.tg)
		ro.cfg.ReplayMode = l.mode
		ro.cfg.InputName = "in-" + name
	}
	l.tg.CutAt = -1
	l.newRequests()
	oldSeq, oldOff := ro.bisyncSeq.Load(), ro.bisyncOffset.Load()
	keep := func() { // no restart after all: the same process goes on as it was
		if !fresh {
			ro.bisyncSeq.Store(oldSeq)
			ro.bisyncOffset.Store(oldOff)
		}
	}
	sp, err := ro.StartPoint(context.Background(), []string{"runid-" + name, "0000000000000000000000000000000000000000"})
	l.tg.CloseAll()
	for _, q := range l.newRequests() {
		w.applyToolRequest(l, q)
	}
	kind := "same"
	if fresh {
		kind = "fresh"
	}
	if err != nil || sp.RunId != "runid-"+name {
		// no usable point (the bookkeeping events of this history rewrote or deleted the root): the tool would
		// resynchronise in full — not a restart of this model; the link goes on where it was
		w.s.Count("real_restart_no_point_" + kind)
		keep()
		return
	}
	p := -1
	for i := 0; i <= len(w.sites[src].stream); i++ {
		if w.blockStart(src, i) == sp.Offset {
			p = i
			break
		}
	}
	switch {
	case p < 0:
		w.violate("resume-off-block-boundary", fmt.Sprintf("StartPoint (%s process) resumes at offset %d, which is no block boundary of the source stream", kind, sp.Offset),
			map[string]interface{}{"link": name})
		w.viol = true
		keep()
		return
	case p > l.pos:
		// the resume point lies beyond what the harness has accounted for as read: the blocks in between were
		// passed over by the interrupted run (reported offsets include them), or - after a restart that had rewound -
		// they were committed in an EARLIER life whose journal records the start point has joined with this life's.
		// A client block among them that was never committed is lost for good: foreign-block-suppressed (skipBlock).
		// One that was committed before is not suppressed; but the model's restart does not move forward over blocks
		// it would commit (Ev.restart resumes at a block already reached), so this start is not taken: the link goes
		// on where it was (repeats are allowed since the rewind).
		repeated := false
		for i := l.pos; i < p; i++ {
			b := w.sites[src].stream[i]
			if b.tag[0] == 'f' && len(b.cmds) > 0 && w.commitCount[b.tag] > 0 {
				repeated = true
			}
		}
		if repeated {
			for i := l.pos; i < p; i++ {
				b := w.sites[src].stream[i]
				var id int
				fmt.Sscanf(b.tag, "f%d", &id)
				if b.tag[0] == 'f' && len(b.cmds) > 0 && w.commitCount[b.tag] == 0 && w.foreignOK[id] {
					w.violate("foreign-block-suppressed", "the start point moved past a client block outside the reserved namespace that was never committed at the other site",
						map[string]interface{}{"block": b.tok(), "tag": b.tag, "site": name, "redis": w.sites[l.src].cfg.bits()})
					w.viol = true
				}
			}
			w.s.Count("real_restart_ahead_over_units_of_an_earlier_life_" + kind)
			keep()
			return
		}
		lk := "j"
		if l.mode == config.ReplayModeSync || l.mode == "" {
			lk = "l"
		}
		for i := l.pos; i < p; i++ {
			w.skipBlock(l, lk, w.sites[src].stream[i]) // flags foreign-block-suppressed for a client block
		}
		l.pos = p
		w.s.Count("real_restart_beyond_accounted_" + kind)
	}
	switch {
	case p < l.cpos:
		w.rewound = true
		w.s.Count("real_restart_rewinds_" + kind)
	default:
		w.s.Count("real_restart_exact_" + kind)
	}
	w.evs = append(w.evs, fmt.Sprintf("R%s:%d:%d", name, p, ro.bisyncSeq.Load()+1))
	l.ro = ro
	l.pos, l.off, l.halted = p, sp.Offset, false
	if p < l.cpos {
		l.cpos, l.coff = p, sp.Offset
	}
	w.s.Count("link_real_restart")
}

// commitBlock: the MULTI block the target double received for the unit of
// `blk` is judged, executed at the destination site, and reported.
func (w *vfc13World) commitBlock(l *vfc13Link, kind string, blk vfc13Block, txn []vfc13Cmd, m checkpoint.BisyncMarker) {
	name := vfc13SiteName(l.src)
	replay := map[string]interface{}{"block": blk.tok(), "tag": blk.tag, "site": name, "redis": w.sites[l.src].cfg.bits(), "mode": string(l.mode)}
	w.s.Count("link_emit_" + blk.tag[:1])
	if blk.tag[0] != 'f' {
		w.violate("tool-block-came-back-as-unit", "something the tool wrote at this site came back as a replay unit: "+blk.tag+" "+blk.tok(), replay)
		w.viol = true
	}
	nCtl := 1
	if kind == "j" {
		nCtl = 2
	}
	if len(txn) < 1+nCtl {
		w.violate("tie-shape:commit-shape", "committed transaction is not marker + business commands + record(+index)", replay)
		w.viol = true
		return
	}
	business := txn[1 : len(txn)-nCtl]
	rec := txn[len(txn)-nCtl]
	okShape := rec.lower() == "hset" && len(rec.Args) > 0
	if kind == "l" {
		okShape = okShape && checkpoint.IsBisyncLatestKey(string(rec.Args[0]))
	} else {
		idx := txn[len(txn)-1]
		okShape = okShape && checkpoint.IsBisyncCommitKey(string(rec.Args[0])) && idx.lower() == "zadd" && len(idx.Args) == 3 &&
			checkpoint.IsBisyncCommitIndexKey(string(idx.Args[0]))
	}
	if !okShape {
		w.violate("tie-shape:commit-shape", "committed transaction is not marker + business commands + record(+index)", replay)
		w.viol = true
		return
	}
	// the business commands are the block's commands (names lower-cased), nothing else
	wantCmds := blk.cmds
	if w.flt {
		wantCmds = w.fltProject(blk.cmds)
	}
	same := len(business) == len(wantCmds)
	for i := 0; same && i < len(business); i++ {
		if business[i].lower() != wantCmds[i].lower() || len(business[i].Args) != len(wantCmds[i].Args) {
			same = false
			break
		}
		for k := range business[i].Args {
			if !bytes.Equal(business[i].Args[k], wantCmds[i].Args[k]) {
				same = false
			}
		}
	}
	if w.dbs && blk.tag[0] == 'f' && src1DbBlack(l, blk) {
		w.s.Count("observation_block_of_black_listed_database_forwarded_after_a_restart_without_select")
	}
	if !same && blk.tag[0] == 'f' {
		var id int
		fmt.Sscanf(blk.tag, "f%d", &id)
		if w.foreignOK[id] {
			w.violate("unit-content-differs", "the unit committed for a client block does not hold exactly the block's commands", replay)
			w.viol = true
		}
	}
	mv := txn[0].Args[1]
	w.markerValues = append(w.markerValues, mv)
	fields := rec.Args[1:]
	w.evs = append(w.evs, fmt.Sprintf("l%s:%s:%s:%s", name, kind, vfutil.Hex(mv), vfutil.HexList(fields)))
	lc := make([]vfc13Cmd, len(business))
	copy(lc, business)
	t := "s"
	if blk.multi {
		t = "t"
	}
	w.outcomes = append(w.outcomes, fmt.Sprintf("L%s:emit:%s:U%d:%d-%d:%s:%d:%s", name, blk.tag, m.UnitSeq, m.StartOffset, m.EndOffset, t, m.Slot, vfc13CmdsTok(lc)))
	id := strings.TrimLeft(blk.tag, "ft")
	if blk.tag == "snap" || blk.tag == "book" {
		id = "0"
	}
	if w.dbs {
		if blk.tag[0] == 'f' && blk.db != w.reqDB {
			// the exactly-once monitor with databases: the write was applied at the other site - in another database.
			// The known shape (D31): nothing selects the unit's database, everything lands in the connection's DB 0.
			shape := fmt.Sprintf("src_db=%d committed in dst_db=%d", blk.db, w.reqDB)
			if blk.db != 0 && w.reqDB == 0 {
				shape = "src_db!=0 committed in dst_db=0"
			}
			w.violate("unit-applied-in-other-database",
				fmt.Sprintf("closed loop: the client block %s written in DB %d at site %s was committed in DB %d at the other site", blk.tag, blk.db, name, w.reqDB),
				map[string]interface{}{"shape": shape, "src_db": blk.db, "dst_db": w.reqDB, "mode": string(l.mode), "link": name, "block": blk.tok()})
			w.s.Count("closed_loop_unit_in_other_database")
		} else if blk.tag[0] == 'f' {
			w.s.Count(fmt.Sprintf("closed_loop_unit_in_source_database_%d", blk.db))
		}
		w.sites[l.dst].selectDB(w.reqDB)
	}
	w.sites[l.dst].exec(true, txn, func(int) string { return "t" + id })
	w.commits = append(w.commits, blk.tag+"@"+vfc13SiteName(l.dst))
	w.commitCount[blk.tag]++
	if blk.tag[0] == 'f' && w.commitCount[blk.tag] > 1 && !w.rewound {
		w.violate("write-applied-twice", "the unit of block "+blk.tag+" was committed more than once", replay)
		w.viol = true
	}
}

// snapshot: the link from `src` commits one snapshot-phase unit at the other site
func (w *vfc13World) snapshot(src int, cmds []vfc13Cmd) {
	l := w.links[src]
	if l.retired {
		return
	}
	name := vfc13SiteName(src)
	aof := make([]bisyncAofCommand, len(cmds))
	for i, c := range cmds {
		aof[i] = bisyncAofCommand{Cmd: c.lower(), Args: c.Args}
	}
	u := &bisyncReplayUnit{Seq: 1, StartOffset: l.off, EndOffset: l.off, Slot: 0, SlotTag: checkpoint.BisyncSlotTag(0),
		Digest: bisyncDigest(aof), Commands: aof}
	l.newRequests()
	if err := l.ro.execBisyncRdbUnit(l.dial(), "runid-"+name, u); err != nil {
		w.violate("commit-failed", err.Error(), map[string]interface{}{"cmds": vfc13CmdsTok(cmds)})
		return
	}
	reqs := l.newRequests()
	for _, q := range reqs {
		if q.multi && (len(q.cmds) == 0 || !vfc13IsMarkerSet(q.cmds[0])) {
			// the peer's stream shows this block as a client transaction: the opposite link sends it back
			w.violate("snapshot-block-without-marker", fmt.Sprintf("a MULTI block of %d commands without the marker first was sent for a snapshot unit of %d commands (%d requests in all)", len(q.cmds), len(cmds), len(reqs)),
				map[string]interface{}{"cmds": vfc13CmdsTok(cmds)})
			w.viol = true
		}
	}
	if len(reqs) != 1 || !reqs[0].multi || len(reqs[0].cmds) != len(cmds)+1 {
		w.violate("commit-not-one-transaction", "snapshot unit", map[string]interface{}{"cmds": vfc13CmdsTok(cmds)})
		return
	}
	txn := reqs[0].cmds
	mv := txn[0].Args[1]
	var m checkpoint.BisyncMarker
	if json.Unmarshal(mv, &m) != nil || m.RecordType != "rdb" {
		w.violate("marker-value-malformed", "snapshot marker is not record_type=rdb", map[string]interface{}{})
	}
	w.markerValues = append(w.markerValues, mv)
	lc := make([]vfc13Cmd, len(cmds))
	for i, c := range cmds {
		lc[i] = vfc13Cmd{Name: []byte(c.lower()), Args: c.Args}
	}
	w.evs = append(w.evs, fmt.Sprintf("s%s:%s:%s", name, vfutil.Hex(mv), vfc13CmdsTok(lc)))
	if w.dbs {
		w.sites[l.dst].selectDB(reqs[0].db)
	}
	w.sites[l.dst].exec(true, txn, func(int) string { return "snap" })
	w.s.Count("snapshot_unit")
}

// namespace / checkpoint bookkeeping through the real checkpoint functions
func (w *vfc13World) namespaceBookkeeping(r *vfutil.Rand, src int) {
	l := w.links[src]
	if l.retired {
		return
	}
	l.newRequests()
	c := l.dial()
	rid := "runid-" + vfc13SiteName(src)
	switch r.Intn(7) {
	case 0:
		checkpoint.SetCheckpointHash(c, rid, l.cp)
	case 1:
		checkpoint.SaveBisyncNamespaceMode(c, l.cp, checkpoint.BisyncModeSync)
	case 2:
		checkpoint.DelCheckpointHash(c, "runid-old")
	case 3:
		checkpoint.SetCheckpoint(c, &checkpoint.CheckpointInfo{Key: l.cp, RunId: rid, Offset: l.off, Version: "1"})
	case 4:
		checkpoint.UpdateCheckpoint(c, l.cp, []string{rid + "-new", rid})
	case 5:
		checkpoint.DelCheckpoint(c, l.cp, rid+"-gone")
	default:
		// a frontier save as the coordinator's flush makes it: the frontier this process has REPORTED (bisyncSeq /
		// bisyncOffset are what flush stores after saving). An invented numbering (seq 1 at the read position) is not a
		// state the tool can produce and made the real StartPoint resume inside an earlier life's units.
		if seq, off := l.ro.bisyncSeq.Load(), l.ro.bisyncOffset.Load(); l.mode != config.ReplayModeSync && l.mode != "" && seq > 0 && off >= 0 {
			checkpoint.SaveBisyncFrontierSnapshot(c, checkpoint.BisyncFrontierKey(l.cp),
				&checkpoint.BisyncFrontierSnapshot{Version: config.Version, RunID: rid, UnitSeq: seq, Offset: off, MTime: time.Now().UnixNano()})
		} else {
			checkpoint.SaveBisyncNamespaceMode(c, l.cp, checkpoint.BisyncModeFromReplayMode(l.mode))
		}
	}
	for _, q := range l.newRequests() {
		w.applyToolRequest(l, q)
	}
}

// retire: the syncer of the link reading `src` is started again with the OTHER recovery format (sync <->
// pipeline / parallel). The REAL (*syncer).resolveBisyncCheckpointNameWithClient runs on the link's target
// double: a new namespace name from the real NewBisyncCheckpointName, seeded from the old recovery state,
// the checkpoint hash repointed, the old namespace cleaned up (cleanupBisyncNamespace: journal records,
// marker / latest / index keys, root keys). Everything it writes is bookkeeping traffic the opposite link
// must pass over — also when the old marker has logically expired and Redis propagates its deletion ahead
// of the DEL that touched it. The syncer's life under the old namespace ends here (the model has one name
// per link): the link reads no further block in this history.
func (w *vfc13World) retire(r *vfutil.Rand, src int) {
	l := w.links[src]
	if l.retired {
		return
	}
	name := vfc13SiteName(src)
	rid := "runid-" + name
	cur := checkpoint.BisyncModeFromReplayMode(l.mode)
	desired := checkpoint.BisyncModePipeline
	if r.Bool() {
		desired = checkpoint.BisyncModeParallel
	}
	if cur.UsesFrontier() {
		desired = checkpoint.BisyncModeSync
	}
	// what the first start of this syncer left in the checkpoint hash (state of the double only)
	l.tg.CutAt = -1
	l.tg.Seed(0, "hset", config.CheckpointKeyHashKey, rid, l.cp)
	l.newRequests()
	sy := &syncer{cfg: SyncerConfig{Output: l.ro.cfg.Redis}, logger: log.WithLogger("[vf] ")}
	c := l.dial()
	newName, err := sy.resolveBisyncCheckpointNameWithClient(c, []string{rid, "0000000000000000000000000000000000000000"}, desired, []uint16{0})
	c.Close()
	l.tg.CloseAll()
	reqs := l.newRequests()
	if err != nil {
		// no authoritative state to seed the new namespace from (nothing committed yet, a bookkeeping event of
		// this history rewrote the root): the switch is refused, nothing may have been cleaned up
		w.s.Count("retire_refused")
	} else if newName == l.cp {
		w.s.Count("retire_in_place")
	} else {
		w.s.Count("retire_migrated_to_" + string(desired))
		if !strings.HasPrefix(newName, checkpoint.BisyncCheckpointKeyPrefix+":") || strings.ContainsAny(newName[len(checkpoint.BisyncCheckpointKeyPrefix)+1:], "{}:") {
			w.violate("tie-shape:generated-name-malformed", "the namespace name of the format switch is not <prefix>:<hex>: "+newName, map[string]interface{}{"name": newName})
			w.viol = true
		}
		l.names = append(l.names, newName)
	}
	// the name the switch STARTED to write, should it have failed half-way
	for _, q := range reqs {
		for _, cm := range q.cmds {
			if (cm.lower() == "hset" || cm.lower() == "hsetnx") && len(cm.Args) == 3 && string(cm.Args[0]) == config.CheckpointKeyHashKey {
				l.names = append(l.names, string(cm.Args[2]))
			} else if cm.lower() == "hset" && len(cm.Args) > 0 && strings.HasPrefix(string(cm.Args[0]), checkpoint.BisyncCheckpointKeyPrefix+":") &&
				!strings.Contains(string(cm.Args[0])[len(checkpoint.BisyncCheckpointKeyPrefix)+1:], ":") {
				l.names = append(l.names, string(cm.Args[0]))
			}
		}
	}
	markerGone := false
	if e, ok := w.sites[l.dst].store[checkpoint.BisyncMarkerKey(l.cp, checkpoint.BisyncSlotTag(0))]; ok && e.exp >= 0 && e.exp <= w.sites[l.dst].now {
		markerGone = true
	}
	for _, q := range reqs {
		w.applyToolRequest(l, q)
	}
	if err == nil && newName != l.cp {
		if markerGone {
			w.s.Count("retire_with_marker_expired_unreaped")
		}
		l.retired = true
	}
}

// resync: the source of the link reading `src` answered FULLRESYNC. The REAL RedisOutput.ResetStartPoint runs on
// the link's target double: DelCheckpoint of every id, purgeBisyncRecoveryState (journal records, index members,
// frontier), the latest record of every recovery slot - all of it bookkeeping traffic the OPPOSITE link, which goes
// on running, must pass over (also a day after this link's last commit, its marker expired but not reaped). The
// full resynchronisation that follows is another history (the model has no event for it): this link reads no
// further block here.
func (w *vfc13World) resync(r *vfutil.Rand, src int) {
	l := w.links[src]
	if l.retired {
		return
	}
	rid := "runid-" + vfc13SiteName(src)
	l.tg.CutAt = -1
	l.newRequests()
	err := l.ro.ResetStartPoint(context.Background(), []string{rid, "0000000000000000000000000000000000000000"})
	l.tg.CloseAll()
	if err != nil {
		w.s.Count("resync_reset_failed")
	}
	for _, q := range l.newRequests() {
		w.applyToolRequest(l, q)
	}
	l.retired = true
	w.s.Count("resync_reset_start_point")
}

// ha: high availability without etcd - the tool registers itself and campaigns on its INPUT Redis, i.e. it writes
// keys with an expiry under /redis-gunyu into the stream its own link reads (pkg/cluster/redis_cluster.go Register:
// SET <registry key> <id> EX ttl every ttl/4, DEL on exit; redis_election.go: scripts whose effects are SET … EX,
// EXPIRE, DEL). Tool traffic: nothing of it may come out as a replay unit, whatever expiry the keys carry.
func (w *vfc13World) ha(r *vfutil.Rand, site int) {
	reg := "/redis-gunyu/g1/registry/" + vfutil.Pick(r, []string{"10.0.0.1:18001", "10.0.0.2:18001"})
	el := "/redis-gunyu/g1/election"
	var c vfc13Cmd
	switch r.Intn(6) {
	case 0, 1:
		c = vfc13C("SET", reg, "id", "EX", "10")
	case 2:
		c = vfc13C("DEL", reg)
	case 3:
		c = vfc13C("SET", el, "id", "EX", "10")
	case 4:
		c = vfc13C("EXPIRE", el, "10")
	default:
		c = vfc13C("DEL", el)
	}
	w.haCmd(site, c)
}

func (w *vfc13World) haCmd(site int, c vfc13Cmd) {
	// Ev.toolRaw of the link whose DESTINATION is this site: executed here, tagged as tool traffic
	w.evs = append(w.evs, fmt.Sprintf("r%s:0:%s", vfc13SiteName(1-site), c.tok()))
	w.sites[site].exec(false, []vfc13Cmd{c}, func(int) string { return "book" })
	w.s.Count("ha_" + c.lower())
}

func (w *vfc13World) pendingForeign() int {
	n := 0
	for i := 0; i < 2; i++ {
		l := w.links[i]
		if l.halted || l.retired {
			continue
		}
		for _, b := range w.sites[i].stream[l.pos:] {
			if b.tag[0] == 'f' {
				n++
			}
		}
	}
	return n
}

func (w *vfc13World) streamTok(i int) string {
	st := w.sites[i].stream
	if len(st) == 0 {
		return "."
	}
	p := make([]string, len(st))
	for j, b := range st {
		p[j] = b.tag + "=" + b.tok()
	}
	return strings.Join(p, " ")
}

func (w *vfc13World) finish() {
	if w.flt {
		w.s.Count("history_with_user_filters")
		return
	}
	if w.dbs {
		// the Lean world has one keyspace per site and no SELECT blocks: a history with databases is judged by the
		// monitors on the implementation (no loop, nothing suppressed, each once, quiescence, and the database)
		w.s.Count("history_with_databases")
		return
	}
	commits := "."
	if len(w.commits) > 0 {
		commits = strings.Join(w.commits, ",")
	}
	outs := "."
	if len(w.outcomes) > 0 {
		outs = strings.Join(w.outcomes, " ")
	}
	op := fmt.Sprintf("c13 world %s %s s %s %s %s %s", w.sites[0].cfg.bits(), w.sites[1].cfg.bits(), w.fb,
		vfutil.HexS(w.links[0].cp), vfutil.HexS(w.links[1].cp), strings.Join(w.evs, " "))
	w.s.Op(op, outs+" ; commits="+commits+" ; A="+w.streamTok(0)+" ; B="+w.streamTok(1))
}

// drain: no more client writes; run the links until both have read everything
func (w *vfc13World) drain(r *vfutil.Rand) {
	if r.Chance(1, 3) {
		w.restart(r.Intn(2)) // a restart in the quiet phase must not make anything come out twice
	}
	pending := w.pendingForeign()
	emittedBefore := len(w.commits)
	unread := 0
	for i := 0; i < 2; i++ {
		unread += len(w.sites[i].stream) - w.links[i].pos
	}
	// every unread block is read once, and each pending client block adds at
	// most one more block to read: a handful of rounds suffices
	maxRounds := 2*(unread+pending) + 8
	rounds := 0
	for {
		progressed := false
		for i := 0; i < 2; i++ {
			if w.linkRun(r, i, 1<<30) {
				progressed = true
			}
		}
		if !progressed {
			break
		}
		rounds++
		if rounds > maxRounds {
			w.violate("no-quiescence", fmt.Sprintf("links still have work after %d rounds without client writes (%d blocks were unread when the writes stopped)", rounds, unread),
				map[string]interface{}{"events": strings.Join(w.evs, " ")})
			w.viol = true
			break
		}
	}
	if got := len(w.commits) - emittedBefore; got > pending && !w.rewound {
		w.violate("no-quiescence", fmt.Sprintf("%d units were committed during the drain, only %d foreign blocks were pending", got, pending),
			map[string]interface{}{"events": strings.Join(w.evs, " ")})
		w.viol = true
	}
	// every vouched foreign block consumed by a live link was applied exactly once
	for i := 0; i < 2; i++ {
		l := w.links[i]
		for _, b := range w.sites[i].stream[:l.pos] {
			if b.tag[0] != 'f' {
				continue
			}
			var id int
			fmt.Sscanf(b.tag, "f%d", &id)
			if w.foreignOK[id] && len(b.cmds) > 0 && (w.commitCount[b.tag] < 1 || (w.commitCount[b.tag] != 1 && !w.rewound)) {
				w.violate("write-not-applied-exactly-once", fmt.Sprintf("block %s applied %d times at the other site", b.tag, w.commitCount[b.tag]),
					map[string]interface{}{"events": strings.Join(w.evs, " ")})
				w.viol = true
			}
		}
	}
}

// runHistory: a generated client history at both sites with the links running
// the real send loop in between, then a drain.
func vfc13RunHistory(t *testing.T, s *vfutil.Session, sub uint64, nEv int) bool {
	return vfc13RunHistoryOpt(t, s, sub, nEv, false)
}

// vfc13RunHistoryOpt: dbs = a history with databases (see vfc13World.dbs); the generator draws nothing extra when dbs is
// false, so the histories without databases are the ones of the earlier sessions
func vfc13RunHistoryOpt(t *testing.T, s *vfutil.Session, sub uint64, nEv int, dbs bool) bool {
	return vfc13RunHistoryOpt2(t, s, sub, nEv, dbs, false)
}

// flt = a history with user filters on both links (see vfc13World.flt); with dbs also a database black list on link B
func vfc13RunHistoryOpt2(t *testing.T, s *vfutil.Session, sub uint64, nEv int, dbs, flt bool) bool {
	r := vfutil.NewRand(sub)
	cfgs := func() vfc13RedisCfg { return vfc13RedisCfg{r.Bool(), r.Chance(3, 4), r.Chance(3, 4)} }
	mode := vfutil.Pick(r, []config.ReplayMode{config.ReplayModeSync, config.ReplayModePipeline, config.ReplayModeParallel})
	w := vfc13NewWorld(t, s, r, cfgs(), cfgs(), "none", mode)
	w.rerun = fmt.Sprintf("hist %d %d", sub, nEv)
	w.dbs = dbs
	if dbs {
		w.rerun = fmt.Sprintf("histdb %d %d", sub, nEv)
	}
	if flt {
		w.flt = true
		w.rerun = fmt.Sprintf("histflt %d %d %v", sub, nEv, dbs)
		slot := uint16(vfc18HashSlot([]byte(vfc13FltSlotKey)))
		for i, l := range w.links {
			cfg := l.ro.cfg
			cfg.Filter.KeyFilter = &config.FilterKeyConfig{PrefixKeyBlacklist: []string{"tmp:"}}
			cfg.Filter.CmdBlacklist = []string{"lpush"}
			cfg.Filter.SlotFilter = &config.FilterSlotConfig{KeySlotBlacklist: [][]uint16{{slot, slot}}}
			if dbs && i == 1 {
				cfg.Filter.DbBlacklist = []int{3}
				l.dbBlack = 3
				s.Count("cfg_filter_dbBlacklist_3")
			}
			ro := NewRedisOutput(cfg)
			ro.newRedisConn = l.ro.newRedisConn
			l.ro = ro
		}
		s.Count("cfg_filter_prefixKeyBlacklist_tmp")
		s.Count("cfg_filter_cmdBlacklist_lpush")
		s.Count("cfg_filter_slotBlacklist_one_slot")
	}
	w.cuts = r.Chance(1, 3)
	if w.cuts {
		s.Count("history_with_cuts_and_real_startpoint")
	}
	s.Count("history_mode_" + string(mode))
	for i := 0; i < nEv; i++ {
		site := r.Intn(2)
		if w.dbs && r.Chance(1, 3) {
			// the clients of this site go on in another database
			w.sites[site].selectDB(vfutil.Pick(r, []int{0, 0, 1, 3}))
		}
		if w.flt && r.Chance(1, 3) {
			// client writes that meet the filters: single commands and transactions of 2-4
			if r.Bool() {
				w.client(site, false, []vfc13Cmd{vfc13FltCmd(r)}, true)
			} else {
				cs := make([]vfc13Cmd, r.Range(2, 4))
				for j := range cs {
					cs[j] = vfc13FltCmd(r)
				}
				w.client(site, true, cs, true)
			}
			s.Count("history_flt_client_write_meeting_the_filters")
			continue
		}
		switch x := r.Intn(100); {
		case x < 30:
			w.client(site, false, []vfc13Cmd{vfc13ClientCmd(r, w)}, true)
		case x < 42:
			n := r.Intn(4)
			if r.Chance(1, 6) {
				n = r.Range(9, 40) // long transactions: beyond BatchCmdCount and the unit channel
				if r.Chance(1, 3) {
					n = r.Range(65, 200) // … and beyond any plausible size rule in the recognition of their mirror
					s.Count("very_long_client_txn")
				}
				s.Count("long_client_txn")
			}
			cmds := make([]vfc13Cmd, n)
			for j := range cmds {
				cmds[j] = vfc13ClientCmd(r, w)
			}
			w.client(site, true, cmds, true)
		case x < 45:
			// a client poking the reserved namespace (not vouched for)
			k := []byte(vfutil.Pick(r, []string{"redis-gunyu-bisync:x", "redis-gunyu-checkpoint-x", checkpoint.BisyncMarkerKey(w.links[1-site].cp, checkpoint.BisyncSlotTag(0))}))
			w.client(site, false, []vfc13Cmd{{Name: []byte("set"), Args: [][]byte{k, []byte("v")}}}, false)
		case x < 55:
			w.tick(site, int64(r.Range(1, 600)))
		case x < 58:
			w.tick(site, int64(86400000+r.Intn(5000))) // a day: markers expire
		case x < 64:
			k := vfc13BizKey(r)
			if r.Chance(1, 3) {
				k = []byte(checkpoint.BisyncMarkerKey(w.links[1-site].cp, checkpoint.BisyncSlotTag(0)))
			}
			w.expire(site, k)
		case x < 86:
			w.linkRun(r, site, r.Range(1, 6))
		case x < 90:
			if w.cuts && r.Bool() {
				w.realRestart(r, site)
			} else {
				w.restart(site)
			}
		case x < 94:
			// a snapshot unit: the expanded commands of one value (1…150 of them), one MULTI with the rdb marker
			ns := 1
			if r.Chance(1, 2) {
				ns = r.Range(2, 5)
			} else if r.Chance(1, 3) {
				ns = r.Range(65, 150)
				s.Count("snapshot_unit_over_64_commands")
			}
			sc := make([]vfc13Cmd, ns)
			for j := range sc {
				sc[j] = vfc13ClientCmd(r, w)
			}
			w.snapshot(site, sc)
		case x < 96:
			w.ha(r, site)
		default:
			w.namespaceBookkeeping(r, site)
		}
	}
	if !w.cuts && r.Chance(1, 3) {
		// epilogue: one syncer is started again with the other recovery format (namespace migration and
		// clean-up through the real code), in half of the cases a day after its last commit, the marker
		// of the old namespace expired but not reaped
		site := r.Intn(2)
		if w.links[site].cpos == 0 {
			w.client(site, false, []vfc13Cmd{vfc13ClientCmd(r, w)}, true)
			w.linkRun(r, site, 1<<30)
		}
		if r.Bool() {
			w.tick(1-site, int64(86400000+r.Intn(5000)))
		}
		if r.Bool() {
			w.retire(r, site)
			s.Count("history_with_format_switch")
		} else {
			w.resync(r, site)
			s.Count("history_with_full_resync")
		}
	}
	w.drain(r)
	w.finish()
	s.Add("world_blocks", len(w.sites[0].stream)+len(w.sites[1].stream))
	return w.viol
}

// ------------------------------------------------------------ the test

func TestVerifC13(t *testing.T) {
	s := vfutil.NewSession("C13")
	defer s.Close()
	r := vfutil.NewRand(vfutil.Seed())
	cp := "redis-gunyu-checkpoint-bisync:0123456789abcdef01234567"
	tag := checkpoint.BisyncSlotTag(77)

	// ---- VERIF_REPLAY: re-run the one history / script / probe a replay file names
	if rp := os.Getenv("VERIF_REPLAY"); rp != "" {
		raw, err := os.ReadFile(rp)
		if err != nil {
			t.Fatalf("replay file: %v", err)
		}
		var doc struct {
			Replay map[string]interface{} `json:"replay"`
		}
		if err := json.Unmarshal(raw, &doc); err != nil {
			t.Fatalf("replay file: %v", err)
		}
		rerun, _ := doc.Replay["rerun"].(string)
		f := strings.SplitN(rerun, " ", 2)
		switch {
		case f[0] == "hist" && len(f) == 2:
			var sub uint64
			var nEv int
			fmt.Sscanf(f[1], "%d %d", &sub, &nEv)
			vfc13RunHistory(t, s, sub, nEv)
			s.Count("replayed_history")
			return
		case f[0] == "histdb" && len(f) == 2:
			var sub uint64
			var nEv int
			fmt.Sscanf(f[1], "%d %d", &sub, &nEv)
			vfc13RunHistoryOpt(t, s, sub, nEv, true)
			s.Count("replayed_history_with_databases")
			return
		case f[0] == "histflt" && len(f) == 2:
			var sub uint64
			var nEv int
			var dbs bool
			fmt.Sscanf(f[1], "%d %d %t", &sub, &nEv, &dbs)
			vfc13RunHistoryOpt2(t, s, sub, nEv, dbs, true)
			s.Count("replayed_history_with_filters")
			return
		case f[0] == "script" && len(f) == 2:
			vfc13RunScript(t, s, f[1])
			s.Count("replayed_script")
			return
		case f[0] == "dbprobe":
			vfc13DbProbe(t, s)
			s.Count("replayed_dbprobe")
			return
		case f[0] == "partialfilter":
			var sub uint64
			if len(f) == 2 {
				fmt.Sscanf(f[1], "%d", &sub)
			}
			if sub > 2 {
				vfc13PfCase(t, s, vfc13PfGen(vfutil.NewRand(sub)), fmt.Sprintf("partialfilter %d", sub))
			} else {
				vfc13PartialFilterProbe(t, s, 0)
			}
			s.Count("replayed_partialfilter")
			return
		case f[0] == "dims":
			vfc13DimsProbe(t, s)
			s.Count("replayed_dims")
			return
		case f[0] == "clusterloop":
			vfc13ClusterProbe(t, s)
			s.Count("replayed_clusterloop")
			return
		case f[0] == "nearmiss":
			vfc13NearMissProbe(t, s, r)
			s.Count("replayed_nearmiss")
			return
		case f[0] == "hashtagplain":
			vfc13HashTagPlainProbe(t, s)
			s.Count("replayed_hashtagplain")
			return
		case f[0] == "hashtagprobe":
			vfc13HashTagProbe(t, s)
			s.Count("replayed_hashtagprobe")
			return
		}
		t.Logf("replay file %s carries no re-run recipe; running the whole suite", rp)
	}

	// ---- namespace predicates on keys around the reserved prefixes
	keys := [][]byte{
		[]byte(checkpoint.BisyncMarkerKey(cp, tag)), []byte(checkpoint.BisyncLatestCheckpointKey(cp, tag)),
		[]byte(checkpoint.BisyncCommitRecordKey(cp, tag, 9)), []byte(checkpoint.BisyncCommitIndexKey(cp, tag)),
		[]byte(checkpoint.BisyncRdbRecordKey(cp, tag, 9)), []byte(checkpoint.BisyncFrontierKey(cp)), []byte(cp),
		[]byte(config.CheckpointKeyHashKey), []byte("redis-gunyu-bisync"), []byte("redis-gunyu-bisync:"), []byte("redis-gunyu-bisync::marker:{"),
		[]byte("redis-gunyu-bisyncX:marker:{"), []byte("x:marker:{"), []byte(":marker:{redis-gunyu-bisync:"), []byte("redis-gunyu-checkpoin"),
		[]byte("/redis-gunyu/x"), {}, {0xff},
	}
	for i := 0; i < vfutil.Scale(400, 20000); i++ {
		var k []byte
		if i < len(keys) {
			k = keys[i]
		} else {
			parts := []string{"redis-gunyu-bisync", ":", "redis-gunyu-checkpoint", ":marker:{", ":latest:{", ":commit:{", ":rdb:{", ":index:{", "x", "}", "{", ":", "marker"}
			for j, n := 0, r.Intn(5); j < n; j++ {
				k = append(k, vfutil.Pick(r, parts)...)
			}
			if r.Chance(1, 6) {
				k = append(k, r.Bytes(2)...)
			}
		}
		ks := string(k)
		b := func(x bool) string {
			if x {
				return "1"
			}
			return "0"
		}
		s.Op("c13 ns "+vfutil.Hex(k), fmt.Sprintf("m=%s l=%s c=%s r=%s i=%s ns=%s", b(checkpoint.IsBisyncMarkerKey(ks)), b(checkpoint.IsBisyncLatestKey(ks)),
			b(checkpoint.IsBisyncCommitKey(ks)), b(checkpoint.IsBisyncRdbRecordKey(ks)), b(checkpoint.IsBisyncCommitIndexKey(ks)), b(isBisyncNamespaceKey(ks))))
		// command-level predicates with this key in first / later position
		for _, c := range []vfc13Cmd{
			{Name: []byte("set"), Args: [][]byte{k, []byte("v")}}, {Name: []byte("SET"), Args: [][]byte{k, []byte("v"), []byte("px"), []byte("1")}},
			{Name: []byte("set"), Args: [][]byte{k}}, {Name: []byte("del"), Args: [][]byte{[]byte("a"), k}}, {Name: []byte("UNLINK"), Args: [][]byte{k}},
			{Name: []byte("hset"), Args: [][]byte{[]byte("a"), k}}, {Name: []byte("del")},
		} {
			ac := bisyncAofCommand{Cmd: string(c.Name), Args: c.Args}
			exp := (c.lower() == "del" || c.lower() == "unlink") && len(c.Args) == 1 && checkpoint.IsBisyncMarkerKey(string(c.Args[0]))
			s.Op("c13 cmd "+c.tok(), fmt.Sprintf("touch=%s marker=%s expiry=%s", b(touchesBisyncNamespace(ac)), b(isBisyncMarkerCommand(ac)), b(exp)))
		}
	}

	// ---- the site double against the Lean propagate
	for i := 0; i < vfutil.Scale(600, 30000); i++ {
		cfg := vfc13RedisCfg{r.Bool(), r.Bool(), r.Bool()}
		site := vfc13NewSite(cfg)
		site.now = int64(r.Intn(1000))
		now0 := site.now
		var script []string
		for j, n := 0, r.Range(1, 14); j < n; j++ {
			switch x := r.Intn(10); {
			case x < 5:
				c := vfc13ClientCmd(r, nil)
				script = append(script, "C:"+c.tok())
				site.exec(false, []vfc13Cmd{c}, func(int) string { return "" })
			case x < 7:
				m := r.Intn(4)
				cmds := make([]vfc13Cmd, m)
				for q := range cmds {
					cmds[q] = vfc13ClientCmd(r, nil)
				}
				script = append(script, "M:"+vfc13CmdsTok(cmds))
				site.exec(true, cmds, func(int) string { return "" })
			case x < 9:
				dt := int64(r.Range(1, 800))
				script = append(script, fmt.Sprintf("T:%d", dt))
				site.now += dt
			default:
				k := vfc13BizKey(r)
				script = append(script, "X:"+vfutil.Hex(k))
				site.activeExpire(k, func(int) string { return "" })
			}
		}
		out := "."
		if len(site.stream) > 0 {
			p := make([]string, len(site.stream))
			for j, b := range site.stream {
				p[j] = b.tok()
			}
			out = strings.Join(p, " ")
		}
		s.Op(fmt.Sprintf("c13 props %s %d %s", cfg.bits(), now0, strings.Join(script, " ")), out)
	}

	// ---- parser correspondence on generated streams (any mix, incl. malformed framing)
	for i := 0; i < vfutil.Scale(1500, 60000); i++ {
		cluster := r.Chance(1, 3)
		fb := vfutil.Pick(r, []string{"none", "none", "err", "first", "all"})
		var pb []string
		if r.Chance(1, 4) {
			pb = []string{"k1", "redis-gunyu-bisync:"}
		}
		var dbbl []int
		if r.Chance(1, 6) {
			dbbl = []int{2}
		}
		ro := vfc13NewOutput(cluster, fb, cp, pb, dbbl, nil)
		var stream []vfc13Cmd
		for j, n := 0, r.Range(1, 12); j < n; j++ {
			switch x := r.Intn(40); {
			case x < 14:
				stream = append(stream, vfc13ClientCmd(r, nil))
			case x < 20:
				stream = append(stream, vfc13C("MULTI"))
				m := r.Intn(4)
				if r.Chance(1, 5) {
					m = r.Range(9, 40)
					if r.Chance(1, 3) {
						m = r.Range(65, 200)
					}
				}
				for q := 0; q < m; q++ {
					stream = append(stream, vfc13ClientCmd(r, nil))
				}
				if r.Chance(9, 10) {
					stream = append(stream, vfc13C("exec"))
				}
			case x < 26:
				// a mirrored transaction as the tool writes it (possibly after expiry of the marker)
				stream = append(stream, vfc13C("multi"))
				if r.Chance(1, 3) {
					stream = append(stream, vfc13C(vfutil.Pick(r, []string{"del", "UNLINK"}), checkpoint.BisyncMarkerKey(cp, tag)))
				}
				mk := checkpoint.BisyncMarkerKey(cp, tag)
				if r.Chance(1, 5) {
					// session 5: NEAR MISSES of the two recognised shapes ahead of / instead of the marker SET - none of them is a
					// lazy expiry of the marker or a marker write, so the block is a client transaction and must come out as a unit
					// (the tool never writes these; a master never propagates them for a commit): a DEL / UNLINK naming the marker
					// AND another key (either order), the expiry twice, the DEL of a control key that is not a marker, a key-less
					// DEL, a SET of the marker without a value, a non-SET write of the marker, the marker key in another case
					near := [][]vfc13Cmd{
						{vfc13C("del", mk, "k1")}, {vfc13C("UNLINK", "k1", mk)}, {vfc13C("del", mk, mk)},
						{vfc13C("del", mk), vfc13C("unlink", mk)},
						{vfc13C("del", checkpoint.BisyncLatestCheckpointKey(cp, tag))}, {vfc13C("del")},
						{vfc13C("set", mk)}, {vfc13C("setex", mk, "10", "mv")}, {vfc13C("getset", mk, "mv")},
						{vfc13C("set", strings.ToUpper(mk[:1]) + mk[1:], "mv", "PXAT", "99999")},
						{vfc13C("expire", mk, "10")},
					}
					stream = append(stream, vfutil.Pick(r, near)...)
					s.Count("parse_mirror_near_miss")
				}
				if r.Chance(9, 10) {
					stream = append(stream, vfc13C("set", mk, "mv", "PXAT", "99999"))
				}
				nb := r.Intn(3)
				if r.Chance(1, 4) {
					nb = r.Range(9, 40) // the mirror of a long client transaction
					if r.Chance(1, 3) {
						nb = r.Range(62, 200)
						s.Count("parse_very_long_mirror")
					}
				}
				for q := 0; q < nb; q++ {
					stream = append(stream, vfc13ClientCmd(r, nil))
				}
				stream = append(stream, vfc13C("hset", checkpoint.BisyncLatestCheckpointKey(cp, tag), "version", "1"))
				stream = append(stream, vfc13C("EXEC"))
			case x < 30:
				stream = append(stream, vfutil.Pick(r, []vfc13Cmd{
					vfc13C("hset", checkpoint.BisyncFrontierKey(cp), "version", "1"), vfc13C("del", checkpoint.BisyncCommitRecordKey(cp, tag, 3)),
					vfc13C("zrem", checkpoint.BisyncCommitIndexKey(cp, tag), "m"), vfc13C("DEL", checkpoint.BisyncMarkerKey(cp, tag)),
					vfc13C("unlink", checkpoint.BisyncMarkerKey(cp, tag)), vfc13C("hset", config.CheckpointKeyHashKey, "r", cp),
					vfc13C("set", checkpoint.BisyncMarkerKey(cp, tag), "mv", "PXAT", "5"), vfc13C("del", "k1", checkpoint.BisyncFrontierKey(cp)),
				}))
			case x < 33:
				stream = append(stream, vfutil.Pick(r, []vfc13Cmd{vfc13C("PING"), vfc13C("select", "0"), vfc13C("SELECT", "2"), vfc13C("select", "1"),
					vfc13C("select", "-1"), vfc13C("select", "x"), vfc13C("select"), vfc13C("publish", "__sentinel__:hello", "x"),
					vfc13C("publish", "chan", "x"), vfc13C("flushall"), vfc13C("replconf", "getack", "*")}))
			case x < 35:
				stream = append(stream, vfc13C("exec"))
			case x < 36:
				stream = append(stream, vfc13C("multi"), vfc13C("multi"))
			case x < 38:
				stream = append(stream, vfutil.Pick(r, []vfc13Cmd{vfc13C("custom.write", "k1", "v"), vfc13C("foo"), vfc13C("rename", "k1", "k2"),
					vfc13C("rename", "{a}1", "{b}2"), vfc13C("del", "{a}1", "{b}2")}))
			default:
				stream = append(stream, vfc13ClientCmd(r, nil))
			}
		}
		start := int64(r.Intn(5000))
		seq0 := int64(r.Range(1, 1000))
		var wire []byte
		toks := make([]string, len(stream))
		for j, c := range stream {
			wire = append(wire, vfc13Resp(c)...)
			toks[j] = fmt.Sprintf("%d@%s", start+int64(len(wire)), c.tok())
		}
		units, err := vfc13Parse(ro, start, seq0, wire)
		outs := make([]string, 0, len(units)+2)
		for _, u := range units {
			outs = append(outs, vfc13UnitTok(u))
		}
		status := vfc13ParseStatus(err)
		outs = append(outs, ";", status)
		mode := "s"
		if cluster {
			mode = "c"
		}
		pbTok := "."
		if len(pb) > 0 {
			pbTok = vfutil.HexS(pb[0]) + "," + vfutil.HexS(pb[1])
		}
		dbTok := "."
		if len(dbbl) > 0 {
			dbTok = "2"
		}
		s.Op(fmt.Sprintf("c13 parse %s %s %s %s %d %d %s", mode, fb, pbTok, dbTok, start, seq0, strings.Join(toks, " ")), strings.Join(outs, " "))
		s.Count("parse_status_" + strings.SplitN(status, ":", 2)[0])
		s.Add("parse_units", len(units))
	}

	// ---- checkpoint names: the real NewBisyncCheckpointName against the model (the random bytes are read back
	// from the name), and the checkpoint hash under sequences of real starts
	vfc13Names(t, s, r)

	// ---- databases: a write made in DB n at one site must be applied in DB n at the other
	vfc13DbProbe(t, s)

	// ---- replaceHashTag x namespace filter of the snapshot phase (vf_c13_hashtag_test.go)
	vfc13HashTagProbe(t, s)
	vfc13HashTagPlainProbe(t, s)

	// ---- links with a partial key filter: projected DEL / UNLINK / MSET held between parser and sender (vf_c13_partial_test.go)
	vfc13PartialFilterProbe(t, s, 0)

	// ---- dimension audit: forced degenerate inputs, transaction sizes, option values (vf_c13_dims_test.go)
	vfc13DimsProbe(t, s)

	// ---- the closed loop with a CLUSTER pair (vf_c13_cluster_test.go)
	vfc13ClusterProbe(t, s)

	// ---- near misses of a mirrored transaction: a monitor on the implementation alone (vf_c13_nearmiss_test.go)
	vfc13NearMissProbe(t, s, r)

	// ---- corpus (scripted histories) then generated histories
	for _, l := range vfutil.Corpus("C13") {
		if vfc13RunScript(t, s, l) {
			s.Count("corpus_violation")
		}
	}
	for i := 0; i < vfutil.Scale(250, 6000); i++ {
		sub := r.U64()
		vfc13RunHistory(t, s, sub, r.Range(10, 70))
		s.Count("histories")
	}
	// ---- histories with DATABASES (session 5): the same closed loop, clients writing in databases 0 / 1 / 3; the
	// exactly-once monitor also asks in which database a unit was committed (known finding D31)
	rd := vfutil.NewRand(vfutil.Seed() ^ 0x5d31)
	for i := 0; i < vfutil.Scale(40, 1200); i++ {
		vfc13RunHistoryOpt(t, s, rd.U64(), rd.Range(10, 70), true)
	}
	// ---- histories with USER FILTERS on both links (dimension audit): half of them also with databases and a database black list
	rf := vfutil.NewRand(vfutil.Seed() ^ 0xf117)
	for i := 0; i < vfutil.Scale(40, 1200); i++ {
		if vfc13RunHistoryOpt2(t, s, rf.U64(), rf.Range(10, 70), i%2 == 1, true) {
			s.Count("history_with_user_filters_violating")
		}
	}
}

// vfc13RunScript replays a corpus history: tokens
//
//	cfg=<bitsA>,<bitsB> kind=<l|j|p> (sync | pipeline | parallel send loop)  c<S>:<cmd>  m<S>:<cmd>/…  t<S>:<dt>  x<S>:<hexkey>  l<S>  R<S>  Q<S> (format switch)  F<S> (FULLRESYNC: ResetStartPoint)  H<S>:<cmd> (registry / election traffic)
func vfc13RunScript(t *testing.T, s *vfutil.Session, line string) bool {
	r := vfutil.NewRand(7)
	ca, cb := vfc13RedisCfg{false, true, true}, vfc13RedisCfg{false, true, true}
	kind := "l"
	toks := strings.Fields(line)
	parseBits := func(b string) vfc13RedisCfg { return vfc13RedisCfg{b[0] == '1', b[1] == '1', b[2] == '1'} }
	var evs []string
	for _, t := range toks {
		switch {
		case strings.HasPrefix(t, "cfg="):
			p := strings.Split(t[4:], ",")
			ca, cb = parseBits(p[0]), parseBits(p[1])
		case strings.HasPrefix(t, "kind="):
			kind = t[5:]
		default:
			evs = append(evs, t)
		}
	}
	mode := config.ReplayModeSync
	if kind == "j" {
		mode = config.ReplayModePipeline
	} else if kind == "p" {
		mode = config.ReplayModeParallel
	}
	w := vfc13NewWorld(t, s, r, ca, cb, "none", mode)
	w.rerun = "script " + line
	parseCmd := func(tok string) vfc13Cmd {
		parts := strings.Split(tok, ",")
		c := vfc13Cmd{Name: vfutil.UnHex(parts[0])}
		for _, p := range parts[1:] {
			c.Args = append(c.Args, vfutil.UnHex(p))
		}
		return c
	}
	for _, e := range evs {
		site := int(e[1] - 'A')
		body := ""
		if len(e) > 3 {
			body = e[3:]
		}
		switch e[0] {
		case 'c':
			w.client(site, false, []vfc13Cmd{parseCmd(body)}, true)
		case 'm':
			var cmds []vfc13Cmd
			if body != "" {
				for _, c := range strings.Split(body, "/") {
					cmds = append(cmds, parseCmd(c))
				}
			}
			w.client(site, true, cmds, true)
		case 't':
			dt, _ := strconv.ParseInt(body, 10, 64)
			w.tick(site, dt)
		case 'x':
			w.expire(site, vfutil.UnHex(body))
		case 'l':
			w.linkRun(r, site, 1)
		case 'R':
			w.restart(site)
		case 'Q':
			// the syncer of this link switches its recovery format (real resolveBisyncCheckpointNameWithClient)
			w.retire(r, site)
		case 'F':
			// the source of this link answered FULLRESYNC (real ResetStartPoint)
			w.resync(r, site)
		case 'H':
			// the tool's registry / election traffic on the input Redis at this site
			w.haCmd(site, parseCmd(body))
		}
	}
	w.finish()
	return w.viol
}

// vfc13NameBuf: the random bytes of a generated name "<prefix>:<hex>" (nil, false when it has another form)
func vfc13NameBuf(name string) ([]byte, bool) {
	pre := checkpoint.BisyncCheckpointKeyPrefix + ":"
	if !strings.HasPrefix(name, pre) {
		return nil, false
	}
	h := name[len(pre):]
	if len(h)%2 != 0 || strings.ToLower(h) != h {
		return nil, false
	}
	buf := make([]byte, len(h)/2)
	for i := range buf {
		v, err := strconv.ParseUint(h[2*i:2*i+2], 16, 8)
		if err != nil {
			return nil, false
		}
		buf[i] = byte(v)
	}
	return buf, true
}

// vfc13Names: (1) NewBisyncCheckpointName vs the Lean newCpName; (2) sequences of starts against one target
// double through the REAL resolveBisyncCheckpointNameWithClient (create / read back / recovery-format switch)
// and the REAL UpdateCheckpoint: the names they come up with and the checkpoint hash afterwards vs the Lean
// runStarts. Monitor (the property needs it: a marker key is recognised by its first brace pair): every name
// is "<reserved prefix>…" without a brace.
func vfc13Names(t *testing.T, s *vfutil.Session, r *vfutil.Rand) {
	for i := 0; i < vfutil.Scale(200, 5000); i++ {
		name, err := checkpoint.NewBisyncCheckpointName()
		buf, ok := vfc13NameBuf(name)
		if err != nil || !ok || len(buf) != 12 || strings.ContainsAny(name, "{}") || !strings.HasPrefix(name, config.CheckpointKey) {
			s.Violate("tie-shape:generated-name-malformed", fmt.Sprintf("NewBisyncCheckpointName returned %q (%v): not <reserved prefix>:<24 hex digits>", name, err), map[string]interface{}{"name": name})
			continue
		}
		s.Op("c13 cpname "+vfutil.Hex(buf), vfutil.HexS(name))
		s.Count("cpname_generated")
	}
	zero := "0000000000000000000000000000000000000000"
	for i := 0; i < vfutil.Scale(60, 2000); i++ {
		tg := vfdoubles.NewTarget()
		tg.Lenient = true
		rc := checkpoint.VfRedisCfg()
		sy := &syncer{cfg: SyncerConfig{Output: rc}, logger: log.WithLogger("[vf] ")}
		// run ids of equal length (real ones are 40 hex digits): fetchCheckpoint matches hash fields by id PREFIX
		ids := []string{fmt.Sprintf("rid%05d", r.Intn(100000))}
		var toks, names []string
		bad := false
		for j, n := 0, r.Range(1, 5); j < n && !bad; j++ {
			// the source's run id: unchanged, or a new one with the previous as second id (a failover)
			id1, id2 := ids[len(ids)-1], zero
			if r.Chance(1, 3) {
				id1, id2 = fmt.Sprintf("rid%05d", r.Intn(100000)), ids[len(ids)-1]
				ids = append(ids, id1)
			}
			mark := tg.LogLen()
			cli := conn.VerifNewRedisConn(tg.Dial(), rc)
			var name, tok string
			switch k := r.Intn(10); {
			case k < 7:
				// a bidirectional syncer; mode drawn so that a stored namespace of the other family is switched
				mode := vfutil.Pick(r, []checkpoint.BisyncMode{checkpoint.BisyncModeSync, checkpoint.BisyncModeSync, checkpoint.BisyncModePipeline})
				before, _, _ := checkpoint.GetCheckpointHash(conn.VerifNewRedisConn(tg.Dial(), rc), []string{id1, id2})
				nm, err := sy.resolveBisyncCheckpointNameWithClient(cli, []string{id1, id2}, mode, []uint16{0})
				if err != nil {
					// no authoritative state to seed the other format from: the start fails, nothing is learnt
					s.Count("names_start_refused")
					bad = true
					break
				}
				name = nm
				buf := []byte{}
				if before != "" && nm != before {
					s.Count("names_format_switch")
				}
				if nm != before {
					b, ok := vfc13NameBuf(nm)
					if !ok {
						s.Violate("tie-shape:generated-name-malformed", "a start came up with "+nm, map[string]interface{}{"name": nm})
						bad = true
						break
					}
					buf = b
				}
				if before == "" {
					s.Count("names_created")
				} else if nm == before {
					s.Count("names_read_back")
				}
				// the op carries the INPUTS only (ids, the random bytes, the desired recovery family): whether the start
				// switches the format, and what UpdateCheckpoint relabels and drops, the model computes
				fam := "s"
				if mode.UsesFrontier() {
					fam = "f"
				}
				tok = fmt.Sprintf("b:%s:%s:%s:%s", vfutil.HexS(id1), vfutil.HexS(id2), vfutil.Hex(buf), fam)
				// recovery state under the name, so that a later start with the other format finds a seed
				if mode == checkpoint.BisyncModeSync {
					rec := &checkpoint.BisyncCommitRecord{Key: checkpoint.BisyncLatestCheckpointKey(nm, checkpoint.BisyncSlotTag(0)), RecordType: "latest",
						Version: config.Version, RunID: id1, SyncerID: "in", UnitSeq: int64(j + 1), StartOffset: 10, EndOffset: int64(20 + j), MTime: 5}
					args := []string{"hset", rec.Key}
					for _, a := range rec.HashArgs() {
						args = append(args, fmt.Sprint(a))
					}
					tg.Seed(0, args...)
				} else {
					tg.Seed(0, "hset", checkpoint.BisyncFrontierKey(nm), "version", config.Version, "run_id", id1, "unit_seq", strconv.Itoa(j+1), "end_offset", strconv.Itoa(20+j), "mtime", "5")
				}
			case k < 9:
				name, tok = config.CheckpointKey, fmt.Sprintf("p:%s:%s", vfutil.HexS(id1), vfutil.HexS(id2))
				s.Count("names_plain")
			default:
				name = choseKeyInSlots(config.CheckpointKey, &config.RedisSlots{Ranges: []config.RedisSlotRange{{Left: r.Intn(8000), Right: 8000 + r.Intn(8000)}}})
				tok = fmt.Sprintf("s:%s:%s:%s", vfutil.HexS(id1), vfutil.HexS(id2), vfutil.HexS(strings.TrimPrefix(name, config.CheckpointKey+"-")))
				s.Count("names_plain_slot")
			}
			if bad {
				break
			}
			// the real UpdateCheckpoint (root checkpoints exist only as the real code wrote them)
			um := tg.LogLen()
			if err := checkpoint.UpdateCheckpoint(conn.VerifNewRedisConn(tg.Dial(), rc), name, []string{id1, id2}); err != nil {
				s.Count("names_update_failed")
			}
			for _, e := range tg.LogCopy()[um:] {
				if len(e.Args) >= 2 && string(e.Args[1]) == config.CheckpointKeyHashKey {
					switch e.Cmd() {
					case "hset":
						s.Count("names_relabelled")
					case "hdel":
						s.Count("names_old_id_dropped")
					}
				}
			}
			_ = mark
			toks = append(toks, tok)
			names = append(names, vfutil.HexS(name))
			if strings.ContainsAny(name, "{}") || !strings.HasPrefix(name, config.CheckpointKey) {
				s.Violate("tie-shape:generated-name-malformed", "a start came up with the checkpoint name "+name, map[string]interface{}{"name": name})
			}
		}
		tg.CloseAll()
		if bad || len(toks) == 0 {
			continue
		}
		hf := tg.HashFields(0, config.CheckpointKeyHashKey)
		var hs []string
		for k, v := range hf {
			hs = append(hs, vfutil.HexS(k)+"="+vfutil.HexS(v))
		}
		sort.Strings(hs)
		hash := "."
		if len(hs) > 0 {
			hash = strings.Join(hs, ",")
		}
		s.Op("c13 names "+strings.Join(toks, " "), strings.Join(names, " ")+" ; "+hash)
		s.Count("names_sequences")
	}
}

// vfc13DbProbe: what a master propagates for client writes in DB 3 (SELECT 3,
// then the commands) goes through the real send loop; the monitor compares the
// database each unit is executed in at the target with the database it was
// written in at the source.
func vfc13DbProbe(t *testing.T, s *vfutil.Session) {
	type probe struct {
		stream []vfc13Cmd
		wantDB []int
	}
	probes := []probe{
		{[]vfc13Cmd{vfc13C("SELECT", "3"), vfc13C("SET", "k0", "v"), vfc13C("MULTI"), vfc13C("INCRBY", "n0", "1"), vfc13C("EXEC"),
			vfc13C("SELECT", "0"), vfc13C("SET", "k1", "v")}, []int{3, 3, 0}},
		// two non-zero databases, transactions in each, back and forth
		{[]vfc13Cmd{vfc13C("SELECT", "1"), vfc13C("SET", "a", "1"), vfc13C("SELECT", "5"), vfc13C("MULTI"), vfc13C("SET", "b", "1"), vfc13C("SET", "c", "2"),
			vfc13C("DEL", "a"), vfc13C("EXEC"), vfc13C("RPUSH", "d", "1"), vfc13C("SELECT", "1"), vfc13C("MULTI"), vfc13C("INCR", "e"), vfc13C("EXEC"),
			vfc13C("SELECT", "0"), vfc13C("MULTI"), vfc13C("SET", "f", "1"), vfc13C("EXEC"), vfc13C("SELECT", "5"), vfc13C("DEL", "b")}, []int{1, 5, 5, 1, 0, 5}},
	}
	// why D31 is not a one-line repair (see known_findings.d/C13.json): a parser that RESUMES behind a SELECT does not
	// know the database — the real parser, started at the offset behind "SELECT 3", hands on "SET a 1" with Db = -1
	// (a partial resynchronisation does not repeat the SELECT). Measured, not judged.
	{
		ro := vfc13NewOutput(false, "none", "redis-gunyu-checkpoint-bisync:00000000000000000000db99", nil, nil, nil)
		sel := vfc13Resp(vfc13C("SELECT", "3"))
		units, _ := vfc13Parse(ro, int64(len(sel)), 1, vfc13Resp(vfc13C("SET", "a", "1")))
		if len(units) == 1 && len(units[0].Commands) == 1 {
			s.Count(fmt.Sprintf("db_of_unit_parsed_from_resume_offset_%d", units[0].Commands[0].Db))
		}
		units, _ = vfc13Parse(ro, 0, 1, append(sel, vfc13Resp(vfc13C("SET", "a", "1"))...))
		if len(units) == 1 && len(units[0].Commands) == 1 {
			s.Count(fmt.Sprintf("db_of_unit_parsed_behind_select_%d", units[0].Commands[0].Db))
		}
	}
	for _, mode := range []config.ReplayMode{config.ReplayModeSync, config.ReplayModePipeline, config.ReplayModeParallel} {
		for dir, site := range []string{"A", "B"} { // both links of a pair
			for pi, pr := range probes {
				cp := fmt.Sprintf("redis-gunyu-checkpoint-bisync:0000000000000000000%ddb0%d", dir, pi)
				tg := vfdoubles.NewTarget()
				tg.Lenient = true
				ro := vfc13NewOutput(false, "none", cp, nil, nil, tg)
				ro.cfg.ReplayMode = mode
				ro.cfg.InputName = "in-" + site
				var wire []byte
				for _, c := range pr.stream {
					wire = append(wire, vfc13Resp(c)...)
				}
				base := map[string]interface{}{"mode": string(mode), "link": site, "probe": pi, "rerun": "dbprobe"}
				err, log := vfBisyncLoopRun(t, ro, tg, "runid-db-"+site, wire, 0, 0)
				if st := vfc13ParseStatus(err); st != "eof" {
					s.Violate("db-probe-failed", st, base)
					continue
				}
				unit := 0
				for _, e := range log {
					if e.Cmd() != "exec" {
						continue
					}
					if unit < len(pr.wantDB) && e.DB != pr.wantDB[unit] {
						// the known shape (D31): nothing selects the unit's database, everything lands in the connection's DB 0.
						// Any other pairing (e.g. a DB-0 write landing in DB 3 after a half repair) is a different finding.
						shape := fmt.Sprintf("src_db=%d committed in dst_db=%d", pr.wantDB[unit], e.DB)
						if pr.wantDB[unit] != 0 && e.DB == 0 {
							shape = "src_db!=0 committed in dst_db=0"
						}
						s.Violate("unit-applied-in-other-database",
							fmt.Sprintf("a write made in DB %d at the source was committed in DB %d at the other site (the unit carries Db=%d)", pr.wantDB[unit], e.DB, pr.wantDB[unit]),
							map[string]interface{}{"shape": shape, "src_db": pr.wantDB[unit], "dst_db": e.DB, "mode": string(mode), "link": site, "probe": pi,
								"stream": vfc13CmdsTok(pr.stream), "rerun": "dbprobe"})
					}
					unit++
				}
				if unit != len(pr.wantDB) {
					s.Violate("db-probe-failed", fmt.Sprintf("%d units committed, want %d", unit, len(pr.wantDB)), base)
				}
				s.Count("db_probe_" + string(mode))
			}
		}
	}
}
