//go:build verif

package syncer

// C13, session 5, dimension audit (reviews/s5tasks/DIMENSION_AUDIT.md): forced cases for dimensions the generators
// did not draw (or left to chance). Every case is counted (cfg_* / dim_*) and judged on the implementation.
// replay.rerun = "dims".

import (
	"fmt"
	"strings"
	"testing"

	"github.com/mgtv-tech/redis-GunYu/config"
	"github.com/mgtv-tech/redis-GunYu/pkg/redis/checkpoint"
	"github.com/mgtv-tech/redis-GunYu/pkg/vfutil"
)

// one block through the real parser: `want` units (or the builder's refusal, which stops the replay and loses nothing silently)
func vfc13DimParse(s *vfutil.Session, name string, cluster bool, stream []vfc13Cmd, want int, wantCmds int) {
	cp := "redis-gunyu-checkpoint-bisync:0123456789abcdef01234567"
	var wire []byte
	for _, c := range stream {
		wire = append(wire, vfc13Resp(c)...)
	}
	ro := vfc13NewOutput(cluster, "none", cp, nil, nil, nil)
	units, err := vfc13Parse(ro, 0, 1, wire)
	status := vfc13ParseStatus(err)
	replay := map[string]interface{}{"shape": name, "cluster": cluster, "stream": vfc13CmdsTok(stream), "status": status, "rerun": "dims"}
	s.Count("dim_" + name)
	if strings.HasPrefix(status, "err-build") {
		s.Count("dim_refused_by_builder_" + name)
		return
	}
	if status != "eof" {
		s.Violate("tool-block-halts-opposite-link", fmt.Sprintf("dimension %s: the parser stopped on a client block: %s", name, status), replay)
		return
	}
	if len(units) != want {
		s.Violate("foreign-block-suppressed", fmt.Sprintf("dimension %s: %d units, want %d", name, len(units), want), replay)
		return
	}
	if want == 1 && len(units[0].Commands) != wantCmds {
		s.Violate("unit-content-differs", fmt.Sprintf("dimension %s: the unit holds %d commands, the client block %d", name, len(units[0].Commands), wantCmds), replay)
	}
}

func vfc13DimsProbe(t *testing.T, s *vfutil.Session) {
	// ---- degenerate but legal inputs: the empty key, the empty value; commands whose first argument is not a key
	for _, cluster := range []bool{false, true} {
		tagc := "s"
		if cluster {
			tagc = "c"
		}
		one := func(name string, c vfc13Cmd) { vfc13DimParse(s, name+"_"+tagc, cluster, []vfc13Cmd{c}, 1, 1) }
		one("empty_key_set", vfc13C("SET", "", "v"))
		one("empty_key_del", vfc13C("DEL", ""))
		one("empty_value", vfc13C("SET", "k1", ""))
		one("empty_key_and_value", vfc13C("SET", "", ""))
		one("empty_hash_tag", vfc13C("SET", "{}k", "v"))
		one("first_arg_not_key_bitop", vfc13C("BITOP", "AND", "{a}d", "{a}s1", "{a}s2"))
		one("first_arg_not_key_eval", vfc13C("EVAL", "return redis.call('set',KEYS[1],'v')", "1", "k1"))
		one("first_arg_not_key_xgroup", vfc13C("XGROUP", "CREATE", "s0", "g", "$", "MKSTREAM"))
		one("first_arg_not_key_zunionstore_numkeys", vfc13C("ZUNIONSTORE", "{a}d", "2", "{a}z1", "{a}z2"))
		one("first_arg_not_key_object_like_word", vfc13C("BITOP", "NOT", "k1", "k2"))
		vfc13DimParse(s, "empty_key_in_txn_"+tagc, cluster, []vfc13Cmd{vfc13C("MULTI"), vfc13C("SET", "", "v"), vfc13C("DEL", ""), vfc13C("EXEC")}, 1, 2)
		vfc13DimParse(s, "empty_txn_"+tagc, cluster, []vfc13Cmd{vfc13C("MULTI"), vfc13C("EXEC")}, 0, 0)
		// OBSERVATION (not judged as a violation: the namespace is reserved whatever the checkpoint name): a client
		// transaction led by a SET of a key that looks like a marker of ANOTHER namespace is passed over as a whole
		{
			cp := "redis-gunyu-checkpoint-bisync:0123456789abcdef01234567"
			other := checkpoint.BisyncMarkerKey("redis-gunyu-checkpoint-bisync:ffffffffffffffffffffffff", "slot-0")
			stream := []vfc13Cmd{vfc13C("MULTI"), vfc13C("SET", other, "client"), vfc13C("SET", "k1", "v"), vfc13C("EXEC")}
			var wire []byte
			for _, c := range stream {
				wire = append(wire, vfc13Resp(c)...)
			}
			units, _ := vfc13Parse(vfc13NewOutput(cluster, "none", cp, nil, nil, nil), 0, 1, wire)
			s.Count(fmt.Sprintf("observation_client_txn_led_by_marker_of_other_namespace_units_%d_%s", len(units), tagc))
			// … and a key that merely CONTAINS the control-key shape of another namespace behind a client prefix is a client key
			vfc13DimParse(s, "lookalike_control_key_behind_client_prefix_"+tagc, cluster, []vfc13Cmd{vfc13C("SET", "app:"+other, "v")}, 1, 1)
			vfc13DimParse(s, "lookalike_latest_record_as_value_"+tagc, cluster, []vfc13Cmd{vfc13C("SET", "k1", checkpoint.BisyncLatestCheckpointKey("x", "slot-0"))}, 1, 1)
		}
	}

	// ---- client transactions of 1 / 64 / 65 / 1000 commands through the whole closed loop, all three replay modes,
	// BatchCmdCount 1 / 8 / 64 (unit channel of 2 / 16 / 128), and both sites under the SAME checkpoint name
	// (a misconfiguration: observation - the two links store their records at different sites, nothing collides)
	for mi, mode := range []config.ReplayMode{config.ReplayModeSync, config.ReplayModePipeline, config.ReplayModeParallel} {
		for ni, n := range []int{1, 64, 65, 1000} {
			r := vfutil.NewRand(uint64(1000 + mi*10 + ni))
			rc := vfc13RedisCfg{false, true, true}
			w := vfc13NewWorld(t, s, r, rc, rc, "none", mode)
			w.rerun = "dims"
			batch := []int{1, 8, 64}[(mi+ni)%3]
			sameName := ni == 1
			for _, l := range w.links {
				l.ro.cfg.BatchCmdCount = uint(batch)
			}
			if sameName {
				// rebuild link B under link A's name (its root record seeded as vfc13NewWorld does)
				lb := w.links[1]
				lb.cp = w.links[0].cp
				lb.ro = vfc13NewOutput(false, "none", lb.cp, nil, nil, lb.tg)
				lb.ro.cfg.ReplayMode = mode
				lb.ro.cfg.InputName = "in-B"
				lb.ro.cfg.BatchCmdCount = uint(batch)
				lb.tg.Seed(0, "hset", lb.cp, "runid-B_runid", "runid-B", "runid-B_version", config.Version, "runid-B_offset", "0", "bisync_mode", vfc13ModeName(mode))
				s.Count("cfg_same_checkpoint_name_both_links")
			}
			s.Count(fmt.Sprintf("cfg_batchCmdCount_%d", batch))
			s.Count(fmt.Sprintf("dim_client_txn_of_%d_%s", n, mode))
			cmds := make([]vfc13Cmd, n)
			for i := range cmds {
				cmds[i] = vfc13C("SET", fmt.Sprintf("k%d", i%5), fmt.Sprintf("v%d", i))
			}
			w.client(0, n > 1, cmds, true)
			w.client(1, false, []vfc13Cmd{vfc13C("INCRBY", "n0", "5")}, true)
			if n == 65 {
				// a restart of one link while the other is MID-UNIT: link A's target connection drops 3 requests into the
				// MULTI of its 65-command unit (requests executed or not, replies lost; it resumes from the REAL StartPoint),
				// and link B's syncer restarts at that moment
				w.links[0].tg.CutAt = w.links[0].tg.LogLen() + 3
				w.linkRun(r, 0, 1<<30)
				w.restart(1)
				s.Count("dim_restart_of_one_link_while_the_other_is_mid_unit_" + string(mode))
			}
			w.linkRun(r, 0, 1<<30)
			if n == 64 || n == 1000 {
				// the marker is gone before the opposite parser sees the block: a day passes and the expiry cycle reaps it
				// (DEL / UNLINK marker as a block of its own in the stream) between the commit and the opposite link's read
				w.tick(1, 86400000+7)
				w.expire(1, []byte(checkpoint.BisyncMarkerKey(w.links[0].cp, checkpoint.BisyncSlotTag(0))))
				s.Count("dim_marker_expired_and_reaped_before_the_opposite_link_reads")
			}
			w.linkRun(r, 1, 1<<30)
			w.tick(1, 86400000+5)
			w.client(0, n > 1, cmds, true) // its mirror at B now carries the lazy expiry of the marker ahead of the SET
			w.drain(r)
			w.finish()
		}
	}
}
