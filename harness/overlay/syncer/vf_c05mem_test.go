//go:build verif

package syncer

// C05 (memory backend) — sequential correspondence + monitor.
//
// Generated operation sequences are executed against the real MemoryChannel
// inside a testing/synctest bubble: writers run their real Start/ingest loop fed
// by a step reader, readers run their real Start/copy loop into the real pipe,
// and after every operation synctest.Wait() lets every goroutine run until it
// is durably blocked, which makes the state after each op a function of the op
// sequence (readers have copied everything that is available, a writer is
// either ready for the next chunk, finished, or blocked on capacity).
// Every answer and every byte is written to the line protocol (compared with the
// Lean model) and checked against independent Go bookkeeping (monitor).

import (
	"hash/fnv"
	"errors"
	"fmt"
	"io"
	"os"
	"runtime"
	"sort"
	"strconv"
	"strings"
	"sync/atomic"
	"testing"
	"testing/synctest"
	"time"

	usync "github.com/mgtv-tech/redis-GunYu/pkg/sync"
	"github.com/mgtv-tech/redis-GunYu/pkg/vfutil"
)

type c05mStepReader struct {
	req  chan struct{}
	data chan []byte
	fail chan struct{} // closed: the source connection fails (Read returns an error)
}

func newC05mStepReader() *c05mStepReader {
	return &c05mStepReader{req: make(chan struct{}, 1), data: make(chan []byte), fail: make(chan struct{})}
}

var errC05mSource = errors.New("source connection failed")

func (r *c05mStepReader) Read(p []byte) (int, error) {
	select {
	case r.req <- struct{}{}:
	default:
	}
	var d []byte
	var ok bool
	select {
	case d, ok = <-r.data:
	case <-r.fail:
		return 0, errC05mSource
	}
	if !ok {
		return 0, io.EOF
	}
	if len(d) > len(p) {
		panic("c05mStepReader: chunk larger than buffer")
	}
	return copy(p, d), nil
}

// ready: the writer's ingest loop is waiting for the next chunk.
func (r *c05mStepReader) ready() bool {
	select {
	case <-r.req:
		return true
	default:
		return false
	}
}

type c05mPending struct {
	done chan struct{}
	n    int
	err  error
	buf  []byte
}

type c05mReader struct {
	rd      ChannelReader
	wait    usync.WaitCloser
	isAof   bool
	start   int64
	pos     int64
	stream  *c05mStream // the stream history it was opened on
	snapS   *c05mSnap   // the snapshot it was opened on
	closed  bool
	started bool
	pipeCap int  // capacity of its pipe (Available() when empty)
	mustEnd bool // invalidated: must end or fail (reset, snapshot lost, writer ended without successor)
	mayEnd  bool // its writer was replaced since it was opened: may end or follow on
	pending *c05mPending
}

// c05mStream is the oracle's record of one contiguous stream history.
type c05mStream struct {
	base  int64
	bytes []byte
}

// c05mSnap is the oracle's record of one snapshot.
type c05mSnap struct {
	left, size int64
	bytes      []byte
	done, live bool
}

type c05mem struct {
	s       *vfutil.Session
	r       *vfutil.Rand
	mc      *MemoryChannel
	logSize int64
	maxSize int64
	runId   string
	nextId  int
	// oracle
	stream *c05mStream // current stream history (nil: none held)
	snapS  *c05mSnap   // current snapshot (nil: none)
	// live objects
	aofW                   AofChannelWriter
	aofSR                  *c05mStepReader
	rdbW                   RdbChannelWriter
	rdbSR                  *c05mStepReader
	aofBlocked             []byte // chunk of a stream append that is waiting for capacity
	rdbBlocked             []byte // chunk of a snapshot append that is waiting for capacity
	readers                map[int]*c05mReader
	nextRid                int
	opIdx                  int
	trace                  []string
	manySegs, pinnedClosed bool
	caseNo                 int
}

func (d *c05mem) emit(op string, out ...string) {
	idx := d.opIdx
	d.opIdx++
	d.trace = append(d.trace, op)
	lines := make([]string, len(out))
	for i, o := range out {
		lines[i] = fmt.Sprintf("#%d %s", idx, o)
	}
	d.s.Op(op, lines...)
}

func (d *c05mem) replay(extra map[string]interface{}) map[string]interface{} {
	m := map[string]interface{}{"backend": "memory", "ops": strings.Join(d.trace, " ; ")}
	for k, v := range extra {
		m[k] = v
	}
	return m
}

func (d *c05mem) right() int64 {
	if d.stream == nil {
		return -1
	}
	return d.stream.base + int64(len(d.stream.bytes))
}

func (d *c05mem) snapOffered() bool { return d.snapS != nil && (d.snapS.done || d.snapS.live) }

func c05mDash(s string) string {
	if s == "" {
		return "-"
	}
	return s
}

// ---------------------------------------------------------------- observations

func (d *c05mem) heldLeft() int64 {
	mc := d.mc
	mc.mux.RLock()
	defer mc.mux.RUnlock()
	if l, _, ok := mc.continuousAofRangeLocked(); ok {
		return l
	}
	return 1 << 60
}

func (d *c05mem) query(probes []int64) {
	mc := d.mc
	ps := make([]string, len(probes))
	bits := make([]byte, len(probes))
	for i, p := range probes {
		ps[i] = strconv.FormatInt(p, 10)
		if mc.IsValidOffset(Offset{RunId: d.runId, Offset: p}) {
			bits[i] = '1'
		} else {
			bits[i] = '0'
		}
	}
	v := string(bits)
	if v == "" {
		v = "-"
	}
	l, r := mc.GetOffsetRange(d.runId)
	rl, rs := mc.GetRdb(d.runId)
	sp, _ := mc.StartPoint(nil)
	sp2, _ := mc.StartPoint([]string{"zz", d.runId})
	q := 0
	if mc.IsValidOffset(Offset{RunId: "?", Offset: 5}) {
		q = 1
	}
	o := 0
	if mc.IsValidOffset(Offset{RunId: "other", Offset: d.right()}) {
		o = 1
	}
	d.emit("mq "+strings.Join(ps, ","),
		fmt.Sprintf("run=%s range=%d,%d rdb=%d,%d sp=%s,%d sp2=%s,%d q=%d other=%d valid=%s",
			c05mDash(mc.RunId()), l, r, rl, rs, c05mDash(sp.RunId), sp.Offset, c05mDash(sp2.RunId), sp2.Offset, q, o, v))

	held := d.heldLeft()
	for i, p := range probes {
		if bits[i] != '1' {
			continue
		}
		d.s.Count("mon_valid_probe")
		ok := false
		if d.stream != nil && p >= held && p <= d.right() {
			ok = true
		}
		if d.snapOffered() && p <= d.snapS.left {
			ok = true
		}
		if !ok {
			d.s.Violate("valid-not-readable", fmt.Sprintf("IsValidOffset(%d)=true but no held bytes/snapshot cover it (held aof [%d,%d], snapshot %+v)",
				p, held, d.right(), d.snapS), d.replay(map[string]interface{}{"offset": p}))
		}
		// the snapshot's own offset is the position a completed replay leaves: "a read
		// from there onward" needs the log to start there (or no log yet); once the
		// collector dropped that part of the log the offset must not be valid (a reader
		// there would be the snapshot again, never followed by the stream) — D30
		if ok && d.snapOffered() && p == d.snapS.left && held != 1<<60 && !(p >= held && p <= d.right()) {
			d.s.Violate("valid-not-readable", fmt.Sprintf("IsValidOffset(%d)=true: it is the snapshot's own offset, but the held log [%d,%d] no longer starts there — the source bytes from %d onward cannot be read", p, held, d.right(), p),
				d.replay(map[string]interface{}{"offset": p}))
		}
	}
	if rl != -1 || rs != -1 {
		d.s.Count("mon_rdb_offered")
		if !(d.snapOffered() && rl == d.snapS.left && rs == d.snapS.size) {
			d.s.Violate("snapshot-offered-incomplete", fmt.Sprintf("GetRdb()=(%d,%d) but snapshot is %+v", rl, rs, d.snapS), d.replay(nil))
		}
	}
}

func c05mSegs(segs []*memorySegment) string {
	var out []string
	for _, s := range segs {
		c := 0
		if s.blob.isClosed() {
			c = 1
		}
		out = append(out, fmt.Sprintf("%d:%d:%d:%d", s.left, s.blob.len(), c, s.readers.Load()))
	}
	if len(out) == 0 {
		return "-"
	}
	return strings.Join(out, ",")
}

func (d *c05mem) dump() {
	mc := d.mc
	mc.mux.RLock()
	rdb := "-"
	if mc.rdb != nil {
		rp := 0
		if mc.rdb.replayable {
			rp = 1
		}
		rdb = fmt.Sprintf("%d:%d:%d[%s]", mc.rdb.left, mc.rdb.size, rp, c05mSegs(mc.rdb.segments))
	}
	aw, rw := 0, 0
	if mc.aofWriter != nil {
		aw = 1
	}
	if mc.rdbWriter != nil {
		rw = 1
	}
	if len(mc.aofSegs) >= 3 {
		d.manySegs = true
	}
	for _, sg := range mc.aofSegs {
		if sg.blob.isClosed() && sg.readers.Load() > 0 {
			d.pinnedClosed = true
		}
	}
	// the bytes the OFFERED snapshot holds (all its segments, in order) — printed for the
	// comparison with the model's ghost of the bytes RECEIVED (Model/StoreMemRecv.lean), and
	// monitored against the harness' own account of what it fed and the writer took
	recv := "-"
	if mc.rdb != nil && mc.rdb.replayable {
		var held []byte
		for _, sg := range mc.rdb.segments {
			sg.blob.mu.Lock()
			held = append(held, sg.blob.data...)
			sg.blob.mu.Unlock()
		}
		h := fnv.New64a()
		h.Write(held)
		recv = fmt.Sprintf("%d:%d:%d:%d", mc.rdb.left, mc.rdb.size, len(held), h.Sum64())
		d.s.Count("mon_snapshot_held_checked")
		if d.snapS == nil || string(held) != string(d.snapS.bytes) {
			var want []byte
			if d.snapS != nil {
				want = d.snapS.bytes
			}
			defer func() {
				d.s.Violate("snapshot-bytes-wrong", fmt.Sprintf("the offered snapshot (%d,%d) holds %x, received for it: %x", mc.rdb.left, mc.rdb.size, held, want), d.replay(nil))
			}()
		}
	}
	line := fmt.Sprintf("segs=%s rdb=%s total=%d aw=%d rw=%d recv=%s", c05mSegs(mc.aofSegs), rdb, mc.totalSize, aw, rw, recv)
	mc.mux.RUnlock()
	d.emit("mdump", line)
}

func (d *c05mem) probes() []int64 {
	set := map[int64]struct{}{}
	add := func(x int64) {
		for _, y := range []int64{x - 1, x, x + 1} {
			if y >= 0 {
				set[y] = struct{}{}
			}
		}
	}
	if d.stream != nil {
		add(d.stream.base)
		add(d.right())
		add(d.stream.base + int64(d.r.Intn(len(d.stream.bytes)+1)))
	}
	if d.snapS != nil {
		add(d.snapS.left)
	}
	l, r := d.mc.GetOffsetRange(d.runId)
	if l >= 0 {
		add(l)
		add(r)
	}
	add(int64(d.r.Intn(3000)))
	out := make([]int64, 0, len(set))
	for k := range set {
		out = append(out, k)
	}
	sort.Slice(out, func(i, j int) bool { return out[i] < out[j] })
	return out
}

func (d *c05mem) observe() {
	d.afterOp()
	d.query(d.probes())
	d.dump()
}

// ---------------------------------------------------------------- operations

func (d *c05mem) resetOracle() {
	for _, vr := range d.readers {
		vr.mustEnd = true
	}
	d.stream, d.snapS = nil, nil
}

func (d *c05mem) dropWriters() {
	if d.aofSR != nil {
		close(d.aofSR.data)
	}
	if d.rdbSR != nil {
		close(d.rdbSR.data)
	}
	d.aofW, d.aofSR, d.rdbW, d.rdbSR = nil, nil, nil, nil
	d.aofBlocked, d.rdbBlocked = nil, nil
}

func (d *c05mem) opNew(logSize, maxSize int64) {
	d.mc = NewMemoryChannel(MemoryConf{InputId: "vf", MaxSize: maxSize, LogSize: logSize}).(*MemoryChannel)
	d.logSize, d.maxSize = logSize, maxSize
	d.runId = ""
	d.readers = nil
	d.resetOracle()
	d.aofW, d.aofSR, d.rdbW, d.rdbSR = nil, nil, nil, nil
	d.readers = map[int]*c05mReader{}
	d.nextRid = 0
	d.trace = nil
	mm := maxSize
	if mm < 0 {
		mm = 0 // the configuration's "unlimited" is -1; the model's is 0
	}
	d.emit(fmt.Sprintf("mnew %d %d", logSize, mm), "ok")
}

func (d *c05mem) opSetRun(id string) {
	d.mc.SetRunId(id)
	d.runId = id
	synctest.Wait()
	d.emit("msetrun "+id, "ok")
}

func (d *c05mem) opDelRun(id string) {
	d.mc.DelRunId(id)
	if id == "" || id == "?" || d.runId == "" || id == d.runId {
		d.resetOracle()
		d.dropWriters()
		d.runId = ""
	}
	synctest.Wait()
	d.emit("mdelrun "+c05mDash(id), "ok")
}

func (d *c05mem) opRdbWriter(off, size int64) {
	sr := newC05mStepReader()
	w, err := d.mc.NewRdbWriter(sr, off, size)
	d.resetOracle()
	d.dropWriters()
	res := "err"
	if err == nil {
		res = "ok"
		d.rdbW, d.rdbSR = w, sr
		d.snapS = &c05mSnap{left: off, size: size, live: true}
		w.Start()
	}
	synctest.Wait()
	if err == nil {
		sr.ready()
	}
	d.emit(fmt.Sprintf("mrdbw %d %d", off, size), res)
}

// firstSegPinned: the oldest stream segment is not the writer's current one (so it is
// what blocks the writer: closed and referenced by a reader)
func (d *c05mem) firstSegPinned() bool {
	mc := d.mc
	mc.mux.RLock()
	defer mc.mux.RUnlock()
	if len(mc.aofSegs) == 0 || mc.aofWriter == nil {
		return false
	}
	return mc.aofSegs[0] != mc.aofWriter.currentSegment() && mc.aofSegs[0].readers.Load() > 0
}

func (d *c05mem) writerDone(w RdbChannelWriter) bool {
	switch x := w.(type) {
	case *MemoryRdbWriter:
		return x.wait.IsClosed()
	case *MemoryAofWriter:
		return x.wait.IsClosed()
	}
	return false
}

func (d *c05mem) opRdbAppend(chunk []byte) {
	w, sr := d.rdbW, d.rdbSR
	before := c05mRdbWritten(w)
	sr.data <- chunk
	synctest.Wait()
	res := "ok"
	switch {
	case sr.ready():
	case d.writerDone(w):
		res = "done"
	default:
		res = "blocked"
	}
	n := c05mRdbWritten(w) - before
	if res == "blocked" {
		d.emit("mrdba "+vfutil.Hex(chunk), fmt.Sprintf("blocked %d", n))
		d.s.Count("rdb_append_blocked")
		if n != 0 {
			// the writer took a prefix of the chunk (whole pieces) before it had to wait: those
			// bytes are received, the rest waits in the writer
			d.s.Count("rdb_append_blocked_after_prefix")
			if n < 0 || n > int64(len(chunk)) {
				d.s.Violate("harness", fmt.Sprintf("blocked append reports %d of %d bytes", n, len(chunk)), d.replay(nil))
				n = 0
			}
			d.snapS.bytes = append(d.snapS.bytes, chunk[:n]...)
		}
		d.rdbBlocked = chunk[n:]
		return
	}
	d.snapS.bytes = append(d.snapS.bytes, chunk...)
	if res == "done" {
		d.snapS.live = false
		d.snapS.done = int64(len(d.snapS.bytes)) == d.snapS.size
		close(sr.data)
		d.rdbW, d.rdbSR = nil, nil
	}
	d.emit("mrdba "+vfutil.Hex(chunk), res)
}

// opRdbFail: the source connection fails while the snapshot is being received
// (the writer's Read returns an error): finishRdb(writer, err)
func (d *c05mem) opRdbFail() {
	sr := d.rdbSR
	close(sr.fail)
	synctest.Wait()
	close(sr.data)
	d.rdbW, d.rdbSR = nil, nil
	d.snapS.live = false
	d.snapS.done = false // a failed writer's snapshot is dropped
	for _, vr := range d.readers {
		if vr.snapS == d.snapS {
			vr.mustEnd = true
		}
	}
	synctest.Wait()
	d.emit("mrdbf", "ok")
}

func (d *c05mem) opRdbClose() {
	w, sr := d.rdbW, d.rdbSR
	w.Close()
	close(sr.data)
	d.rdbBlocked = nil // a chunk the writer was blocked on is dropped with it (io.EOF)
	d.rdbW, d.rdbSR = nil, nil
	d.snapS.live = false
	d.snapS.done = int64(len(d.snapS.bytes)) == d.snapS.size
	if !d.snapS.done { // the snapshot is lost: its readers must end or fail
		for _, vr := range d.readers {
			if vr.snapS == d.snapS {
				vr.mustEnd = true
			}
		}
	}
	synctest.Wait()
	d.emit("mrdbc", "ok")
}

func (d *c05mem) opAofWriter(off int64) {
	sr := newC05mStepReader()
	w, err := d.mc.NewAofWritter(sr, off)
	res := "err"
	if err == nil {
		res = "ok"
		if d.aofSR != nil {
			close(d.aofSR.data)
		}
		d.aofBlocked = nil // the replaced writer's blocked chunk is dropped (io.EOF), never appended
		d.aofW, d.aofSR = w, sr
		if d.stream == nil || off != d.right() {
			// accepted although not continuing the recorded history: the channel
			// held no stream segment any more; a new history starts here
			for _, vr := range d.readers {
				if vr.isAof {
					vr.mustEnd = true
				}
			}
			d.stream = &c05mStream{base: off}
			d.s.Count("aof_new_history")
		} else {
			for _, vr := range d.readers {
				if vr.isAof {
					vr.mayEnd = true
				}
			}
		}
		w.Start()
	}
	synctest.Wait()
	if err == nil {
		sr.ready()
	}
	d.emit(fmt.Sprintf("maofw %d", off), res)
}

func (d *c05mem) opAofAppend(chunk []byte) {
	w, sr := d.aofW, d.aofSR
	before := d.right()
	sr.data <- chunk
	synctest.Wait()
	if sr.ready() {
		d.stream.bytes = append(d.stream.bytes, chunk...)
		d.emit("maofa "+vfutil.Hex(chunk), "ok")
		return
	}
	// blocked on capacity (single-piece appends: nothing was appended yet); the
	// writer stays blocked until something frees space
	n := c05mAofRight(w) - before
	d.emit("maofa "+vfutil.Hex(chunk), fmt.Sprintf("blocked %d", n))
	d.s.Count("aof_append_blocked")
	if n != 0 {
		d.s.Violate("harness", "blocked append was expected to be a single piece", d.replay(nil))
	}
	d.aofBlocked = chunk
}

// afterOp: a blocked writer may have been woken by the op that just ran.
func (d *c05mem) afterOp() {
	if d.aofBlocked != nil && d.aofSR != nil && d.aofSR.ready() {
		d.stream.bytes = append(d.stream.bytes, d.aofBlocked...)
		d.aofBlocked = nil
		d.s.Count("aof_append_unblocked")
	}
	if d.rdbBlocked != nil && d.rdbSR != nil {
		w := d.rdbW
		switch {
		case d.rdbSR.ready():
			d.snapS.bytes = append(d.snapS.bytes, d.rdbBlocked...)
			d.rdbBlocked = nil
			d.s.Count("rdb_append_unblocked")
		case d.writerDone(w):
			d.snapS.bytes = append(d.snapS.bytes, d.rdbBlocked...)
			d.rdbBlocked = nil
			d.snapS.live = false
			d.snapS.done = int64(len(d.snapS.bytes)) == d.snapS.size
			close(d.rdbSR.data)
			d.rdbW, d.rdbSR = nil, nil
			d.s.Count("rdb_append_unblocked")
		}
	}
}

func (d *c05mem) opAofClose() {
	w, sr := d.aofW, d.aofSR
	for _, vr := range d.readers {
		if vr.isAof && vr.started {
			vr.mustEnd = true
		}
	}
	w.Close()
	close(sr.data)
	d.aofBlocked = nil // a chunk the writer was blocked on is dropped with it (io.EOF)
	d.aofW, d.aofSR = nil, nil
	synctest.Wait()
	d.emit("maofc", "ok")
}

// bytes of the current snapshot / stream that are in the channel (read from the
// writer's current segment: its right edge is the total appended so far)
func c05mRdbWritten(w RdbChannelWriter) int64 { return w.(*MemoryRdbWriter).currentSegment().right() }
func c05mAofRight(w AofChannelWriter) int64   { return w.(*MemoryAofWriter).currentSegment().right() }

func (d *c05mem) opOpen(off int64) {
	rid := d.nextRid
	d.nextRid++
	op := fmt.Sprintf("mopen %d %d", rid, off)
	valid := d.mc.IsValidOffset(Offset{RunId: d.runId, Offset: off})
	rd, err := d.mc.NewReader(Offset{RunId: d.runId, Offset: off})
	if err != nil {
		cls := "other"
		if os.IsNotExist(err) {
			cls = "notexist"
		}
		d.emit(op, "err "+cls)
		if valid {
			d.s.Violate("valid-not-readable", fmt.Sprintf("IsValidOffset(%d)=true but NewReader failed: %v", off, err), d.replay(map[string]interface{}{"offset": off}))
		}
		return
	}
	vr := &c05mReader{rd: rd, wait: usync.NewWaitCloser(nil), isAof: rd.IsAof(), start: off, stream: d.stream, snapS: d.snapS}
	d.readers[rid] = vr
	if mr, ok := rd.(*MemoryReader); ok {
		vr.pipeCap, _ = mr.pipeW.Available()
	}
	synctest.Wait()
	if vr.isAof {
		vr.pos = off
		if vr.stream == nil {
			vr.stream = &c05mStream{base: -1}
		}
		d.emit(op, fmt.Sprintf("aof %d", rd.Left()))
		d.s.Count("open_aof")
	} else {
		d.emit(op, fmt.Sprintf("rdb %d %d", rd.Left(), rd.Size()))
		d.s.Count("open_rdb")
		if !(d.snapS != nil && rd.Left() == d.snapS.left && rd.Size() == d.snapS.size) {
			d.s.Violate("snapshot-reader-mismatch", "snapshot reader does not describe the snapshot that was written", d.replay(nil))
		}
	}
	if !valid {
		d.s.Violate("reader-for-invalid-offset", fmt.Sprintf("NewReader(%d) succeeded although IsValidOffset is false", off), d.replay(nil))
	}
}

// opStart: ChannelReader.Start — the copy goroutine begins (callers do this
// right after NewReader; the harness sometimes delays it, which is the window
// in which a reader holds its reference without copying).
func (d *c05mem) opStart(rid int) {
	vr := d.readers[rid]
	vr.rd.Start(vr.wait)
	vr.started = true
	if vr.isAof && d.aofW == nil {
		vr.mustEnd = true // no writer to follow: drains what is held and ends
	}
	synctest.Wait()
	d.emit(fmt.Sprintf("mstart %d", rid), "ok")
}

func (d *c05mem) invalidated(vr *c05mReader) bool { return vr.closed || vr.mustEnd }

func (d *c05mem) opRead(rid int, n int) {
	vr := d.readers[rid]
	op := fmt.Sprintf("mread %d %d", rid, n)
	// Never leave a Read pending (what a pending Read returns depends on how the
	// scheduler interleaves it with the copy goroutine): ask the pipe first.
	wouldBlock := false
	if mr, ok := vr.rd.(*MemoryReader); ok && vr.rd.IoReader().Buffered() == 0 {
		if avail, err := mr.pipeW.Available(); err == nil && avail == vr.pipeCap {
			wouldBlock = true
		}
	}
	if wouldBlock {
		d.emit(op, "blocked")
		d.s.Count("read_blocked")
		if !vr.started {
			// not started yet: nothing is copied, nothing can be said
		} else if d.invalidated(vr) {
			d.s.Violate("invalidated-reader-hangs", fmt.Sprintf("reader %d (start %d, pos %d) was invalidated but neither ends nor fails", rid, vr.start, vr.pos),
				d.replay(map[string]interface{}{"reader": rid}))
		} else if vr.isAof && vr.stream == d.stream && vr.pos < d.right() || !vr.isAof && vr.pos < int64(len(vr.snapS.bytes)) {
			d.s.Violate("reader-stuck", fmt.Sprintf("reader %d (start %d, pos %d) does not deliver although bytes are held (right %d)", rid, vr.start, vr.pos, d.right()),
				d.replay(map[string]interface{}{"reader": rid}))
		}
		return
	}
	p := &c05mPending{buf: make([]byte, n)}
	p.n, p.err = vr.rd.IoReader().Read(p.buf)
	inval := d.invalidated(vr)
	if p.n > 0 {
		b := p.buf[:p.n]
		var want []byte
		if vr.isAof {
			if h := vr.stream; h != nil && vr.pos >= h.base && vr.pos+int64(p.n) <= h.base+int64(len(h.bytes)) {
				want = h.bytes[vr.pos-h.base : vr.pos-h.base+int64(p.n)]
			}
		} else if h := vr.snapS; h != nil && vr.pos+int64(p.n) <= int64(len(h.bytes)) {
			want = h.bytes[vr.pos : vr.pos+int64(p.n)]
		}
		d.s.Add("mon_bytes_checked", p.n)
		if want == nil || string(want) != string(b) {
			d.s.Violate("wrong-bytes", fmt.Sprintf("reader %d at %d delivered %x, written there: %x (invalidated=%v)", rid, vr.pos, b, want, inval),
				d.replay(map[string]interface{}{"reader": rid, "offset": vr.pos}))
		}
		vr.pos += int64(p.n)
		d.emit(op, "data "+vfutil.Hex(b))
		return
	}
	if errors.Is(p.err, io.EOF) {
		d.emit(op, "eof")
		if !inval && !vr.mayEnd && (vr.isAof || vr.pos < vr.snapS.size) {
			d.s.Violate("reader-ended", fmt.Sprintf("reader %d (start %d, pos %d) ended without being invalidated", rid, vr.start, vr.pos), d.replay(map[string]interface{}{"reader": rid}))
		}
		return
	}
	d.emit(op, "err")
	if !inval {
		d.s.Violate("reader-failed", fmt.Sprintf("reader %d (start %d, pos %d) failed without being invalidated: %v", rid, vr.start, vr.pos, p.err), d.replay(map[string]interface{}{"reader": rid}))
	}
}

func (d *c05mem) opClose(rid int) {
	vr := d.readers[rid]
	vr.rd.Close()
	vr.wait.Close(nil)
	vr.closed = true
	synctest.Wait()
	d.emit(fmt.Sprintf("mclose %d", rid), "ok")
}

// ---------------------------------------------------------------- generator

func (d *c05mem) liveReaders() []int {
	var ids []int
	for id, vr := range d.readers {
		if !vr.closed {
			ids = append(ids, id)
		}
	}
	sort.Ints(ids)
	return ids
}

// copyLoopRunning: some reader's copy goroutine exists (started, not closed by the harness)
func (d *c05mem) copyLoopRunning() bool {
	for _, vr := range d.readers {
		if vr.started && !vr.closed {
			return true
		}
	}
	return false
}

func c05mSegLen(seg *memorySegment) int {
	if seg == nil {
		return 0
	}
	return seg.blob.len()
}

// pieceLimit bounds a chunk so that the append is a single mutex-protected
// piece whenever the collector could run inside it: between two pieces of one
// append the copy goroutines run concurrently with the writer, and what the
// collector may remove then depends on the scheduler (outside a sequential
// harness). Multi-piece appends are kept when nothing has to be collected.
func (d *c05mem) pieceLimit(want int, segLen int) int {
	if d.maxSize <= 0 {
		return want
	}
	d.mc.mux.RLock()
	total := d.mc.totalSize
	d.mc.mux.RUnlock()
	if total+int64(want) <= d.maxSize {
		return want
	}
	lim := int(d.logSize) - segLen
	if lim <= 0 {
		lim = int(d.logSize)
	}
	if want < lim {
		return want
	}
	d.s.Count("append_limited_to_one_piece")
	return lim
}

func (d *c05mem) chunk(max int) []byte {
	if max < 1 {
		max = 1
	}
	n := 1 + d.r.Intn(max)
	if d.r.Chance(1, 6) {
		n = 1 + d.r.Intn(4)
	}
	if n > max {
		n = max
	}
	return d.r.Bytes(n)
}

func (d *c05mem) step() bool {
	r := d.r
	if d.runId == "" {
		d.nextId++
		d.opSetRun(fmt.Sprintf("id%d", d.nextId))
		return true
	}
	live := d.liveReaders()
	type cand struct {
		w int
		f func()
	}
	var cs []cand
	add := func(w int, f func()) { cs = append(cs, cand{w, f}) }

	if d.aofW != nil && d.aofBlocked == nil {
		add(35, func() {
			max := int(d.logSize) / 2
			if r.Chance(1, 5) {
				max = int(d.logSize) * 2
			}
			d.opAofAppend(d.chunk(d.pieceLimit(max, c05mSegLen(d.aofW.(*MemoryAofWriter).currentSegment()))))
			d.s.Count("op_aof_append")
		})
		add(2, func() { d.opAofClose(); d.s.Count("op_aof_close") })
		add(2, func() {
			off := d.right()
			if r.Chance(1, 4) {
				off += int64(r.Intn(5)) - 2 // discontinuous: must be refused
			}
			d.opAofWriter(off)
			d.s.Count("op_aof_replace")
		})
	} else if d.aofW != nil && d.aofBlocked != nil && d.firstSegPinned() {
		// the writer is blocked on capacity: it can still be closed or replaced (its
		// blocked chunk is dropped then). Only while the OLDEST segment is pinned by a
		// reader: when the writer's own current segment is the oldest one, the dying
		// writer may or may not run one more collector pass (ensureCapacityLocked selects
		// between `spaceNotify` and `done`, both ready) and drop the segment it just
		// closed — retention only, but not a function of the operations
		add(3, func() { d.opAofClose(); d.s.Count("op_aof_close_blocked") })
		add(3, func() { d.opAofWriter(d.right()); d.s.Count("op_aof_replace_blocked") })
	} else if d.aofW == nil && d.rdbW == nil {
		add(12, func() {
			off := int64(100 + r.Intn(900))
			if d.stream != nil {
				off = d.right()
			} else if d.snapS != nil {
				off = d.snapS.left
			}
			if d.stream != nil && r.Chance(1, 5) {
				off += int64(r.Intn(5)) - 2
			}
			d.opAofWriter(off)
			d.s.Count("op_aof_writer")
		})
	}
	if d.rdbW != nil && d.rdbBlocked == nil {
		add(30, func() {
			rem := d.snapS.size - int64(len(d.snapS.bytes))
			n := int64(1 + r.Intn(int(rem)))
			if r.Chance(1, 3) {
				n = rem
			}
			// while no copy goroutine runs (every open reader is unstarted: it only pins its
			// segment) nothing races with the writer between two pieces of one append: such
			// appends are NOT limited to one piece, so that a snapshot append can block after
			// it took a prefix of its chunk (`blocked n`, n > 0)
			if d.copyLoopRunning() {
				if lim := int64(d.pieceLimit(int(n), c05mSegLen(d.rdbW.(*MemoryRdbWriter).currentSegment()))); n > lim {
					n = lim
				}
			} else {
				d.s.Count("rdb_append_multi_piece_allowed")
			}
			d.opRdbAppend(r.Bytes(int(n)))
			d.s.Count("op_rdb_append")
		})
		add(2, func() { d.opRdbClose(); d.s.Count("op_rdb_close_early") })
		add(2, func() { d.opRdbFail(); d.s.Count("op_rdb_fail") })
	} else if d.rdbW != nil && d.rdbBlocked != nil {
		add(3, func() { d.opRdbClose(); d.s.Count("op_rdb_close_blocked") })
	}
	add(2, func() {
		if d.aofW != nil && d.aofBlocked == nil && r.Chance(1, 2) {
			d.opAofClose()
			d.observe()
		}
		d.opRdbWriter(int64(100+r.Intn(900)), int64(1+r.Intn(int(3*d.logSize))))
		d.s.Count("op_rdb_writer")
	})
	if len(live) < 6 {
		add(8, func() {
			var off int64
			l, rr := d.mc.GetOffsetRange(d.runId)
			switch {
			case l >= 0 && r.Chance(7, 10):
				off = l + int64(r.Intn(int(rr-l+1)))
				if r.Chance(1, 4) {
					off = rr
				}
			case d.snapS != nil && r.Chance(1, 2):
				off = d.snapS.left - int64(r.Intn(3))
			default:
				off = int64(r.Intn(2500))
			}
			if off < 0 {
				off = 0
			}
			rid := d.nextRid
			d.opOpen(off)
			if vr, ok := d.readers[rid]; ok && !r.Chance(1, 5) {
				_ = vr
				d.observe()
				d.opStart(rid)
			}
		})
	}
	var unstarted []int
	for _, id := range live {
		if !d.readers[id].started {
			unstarted = append(unstarted, id)
		}
	}
	if len(unstarted) > 0 {
		add(4, func() { d.opStart(vfutil.Pick(r, unstarted)); d.s.Count("op_start_delayed") })
	}
	if len(live) > 0 {
		add(30, func() {
			rid := vfutil.Pick(r, live)
			d.opRead(rid, 1+r.Intn(int(d.logSize)+8))
			d.s.Count("op_read")
		})
		add(3, func() { d.opClose(vfutil.Pick(r, live)); d.s.Count("op_reader_close") })
	}
	add(1, func() {
		id := d.runId
		if r.Chance(1, 4) {
			id = "zz" // a foreign id: must be ignored
		}
		d.opDelRun(id)
		d.s.Count("op_delrun")
	})
	add(1, func() {
		d.nextId++
		d.opSetRun(fmt.Sprintf("id%d", d.nextId))
		d.s.Count("op_switch_id")
	})
	tot := 0
	for _, c := range cs {
		tot += c.w
	}
	k := r.Intn(tot)
	for _, c := range cs {
		if k < c.w {
			c.f()
			return true
		}
		k -= c.w
	}
	return false
}

func (d *c05mem) finishCase() {
	d.caseNo++
	if d.manySegs && d.pinnedClosed {
		d.s.Distinct(fmt.Sprintf("mem-%d-%d", vfutil.Seed(), d.caseNo))
	}
	d.manySegs, d.pinnedClosed = false, false
	for _, id := range d.liveReaders() {
		vr := d.readers[id]
		vr.rd.Close()
		vr.wait.Close(nil)
	}
	d.mc.Close()
	d.dropWriters()
	synctest.Wait()
}

func (d *c05mem) runCase(nops int) {
	ls := int64(vfutil.Pick(d.r, []int{32, 48, 64, 128, 256}))
	ms := ls * int64(3+d.r.Intn(5))
	msKind := "n_segments"
	if d.r.Chance(1, 8) {
		ms = 0
		msKind = "0"
		if d.r.Chance(1, 2) {
			ms = -1 // the configuration's "unlimited"
			msKind = "minus_1"
		}
	} else if d.caseNo%6 == 2 {
		// dimension audit: the configuration clamps LogSize to MaxSize - the boundary LogSize == MaxSize
		// (ONE segment is the whole budget) and two segments
		ms = ls * int64(1+d.r.Intn(2))
		msKind = "one_or_two_segments"
	}
	if d.caseNo%12 == 5 {
		ls = int64(vfutil.Pick(d.r, []int{1, 2, 8})) // a segment of one / two / eight bytes
		if ms > 0 && ms < ls {
			ms = ls
		}
	}
	d.s.Count(fmt.Sprintf("cfg_LogSize_%d", ls))
	d.s.Count("cfg_MaxSize_" + msKind)
	d.opNew(ls, ms)
	for i := 0; i < nops; i++ {
		if d.step() {
			d.observe()
		}
	}
	d.finishCase()
}

func (d *c05mem) runScript(script string) {
	for _, op := range strings.Split(script, ";") {
		f := strings.Fields(op)
		if len(f) == 0 {
			continue
		}
		num := func(i int) int64 { v, _ := strconv.ParseInt(f[i], 10, 64); return v }
		switch f[0] {
		case "mnew":
			d.opNew(num(1), num(2))
			continue
		case "msetrun":
			d.opSetRun(f[1])
		case "mdelrun":
			id := f[1]
			if id == "-" {
				id = ""
			}
			d.opDelRun(id)
		case "mrdbw":
			d.opRdbWriter(num(1), num(2))
		case "mrdba":
			if d.rdbW != nil && d.rdbBlocked == nil {
				d.opRdbAppend(vfutil.UnHex(f[1]))
			}
		case "mrdbf":
			if d.rdbW != nil && d.rdbBlocked == nil {
				d.opRdbFail()
			}
		case "mrdbc":
			if d.rdbW != nil {
				d.opRdbClose()
			}
		case "maofw":
			d.opAofWriter(num(1))
		case "maofa":
			if d.aofW != nil && d.aofBlocked == nil {
				d.opAofAppend(vfutil.UnHex(f[1]))
			}
		case "maofc":
			if d.aofW != nil {
				d.opAofClose()
			}
		case "mopen":
			d.nextRid = int(num(1))
			d.opOpen(num(2))
		case "mstart":
			if vr, ok := d.readers[int(num(1))]; ok && !vr.started {
				d.opStart(int(num(1)))
			}
		case "mread":
			if _, ok := d.readers[int(num(1))]; ok {
				d.opRead(int(num(1)), int(num(2)))
			}
		case "mclose":
			if _, ok := d.readers[int(num(1))]; ok {
				d.opClose(int(num(1)))
			}
		default:
			continue
		}
		d.observe()
	}
	d.finishCase()
}

// c05mEndless is a source that always has one more byte.
type c05mEndless struct{ n atomic.Int64 }

func (e *c05mEndless) Read(p []byte) (int, error) {
	p[0] = byte(e.n.Add(1))
	return 1, nil
}

// c05mStress: real goroutines, no bubble (support for the tie, not part of the
// model correspondence). A stream writer ingesting an endless 1-byte-per-read
// source is closed from another goroutine at a random instant; afterwards every
// indexed segment must be closed — a segment left open with no writer makes
// every reader that reaches its end wait forever although later segments follow.
func c05mStress(s *vfutil.Session, r *vfutil.Rand, iters int) {
	for i := 0; i < iters; i++ {
		mc := NewMemoryChannel(MemoryConf{InputId: "vf", MaxSize: 0, LogSize: 4}).(*MemoryChannel)
		mc.SetRunId("id1")
		src := &c05mEndless{}
		w, err := mc.NewAofWritter(src, 100)
		if err != nil {
			continue
		}
		w.Start()
		spin := r.Intn(3000)
		for k := 0; k < spin; k++ {
			runtime.Gosched()
		}
		w.Close()
		// let the ingest goroutine run into the closed writer
		for k := 0; k < 200; k++ {
			runtime.Gosched()
		}
		time.Sleep(200 * time.Microsecond)
		mc.mux.RLock()
		open := -1
		for idx, seg := range mc.aofSegs {
			if !seg.blob.isClosed() {
				open = idx
			}
		}
		n := len(mc.aofSegs)
		mc.mux.RUnlock()
		s.Count("stress_iterations")
		if open >= 0 {
			s.Violate("unclosed-segment-after-writer-close",
				fmt.Sprintf("after AofWriter.Close() segment %d of %d is still open and has no writer: a reader reaching its end waits forever", open, n),
				map[string]interface{}{"backend": "memory", "scenario": "close races with a rotating append", "iteration": i})
			mc.Close()
			return
		}
		mc.Close()
	}
}

func TestVerifC05mem(t *testing.T) {
	s := vfutil.NewSession("C05mem")
	defer s.Close()
	d := &c05mem{s: s, r: vfutil.NewRand(vfutil.Seed() + 77)}
	// thorough tier: the binary is built with -race; reports of the race runtime become results
	rl := vfutil.StartRaceLog("C05mem")
	defer rl.Finish(s, func() map[string]interface{} {
		tr := d.trace
		if len(tr) > 40 {
			tr = tr[len(tr)-40:]
		}
		return map[string]interface{}{"backend": "mem", "steps": strings.Join(tr, " ; ")}
	})
	// whole-test watchdog: write the summary (with the last ops) and stop
	limit := time.Duration(vfutil.Scale(150, 1500)) * time.Second
	wd := time.AfterFunc(limit, func() {
		tr := d.trace
		if len(tr) > 40 {
			tr = tr[len(tr)-40:]
		}
		// an infrastructure failure (broken tie), not a violation
		vfutil.WatchdogExit(s, fmt.Sprintf("the harness did not finish within %v; last ops: %s", limit, strings.Join(tr, " ; ")))
	})
	defer wd.Stop()

	for _, l := range vfutil.Corpus("C05") {
		if strings.HasPrefix(l, "mnew") {
			line := l
			synctest.Test(t, func(t *testing.T) { d.runScript(line) })
			s.Count("corpus_cases")
		}
	}
	cases := vfutil.Scale(250, 1500)
	if v, err := strconv.Atoi(os.Getenv("VERIF_CASES")); err == nil {
		cases = v
	}
	for c := 0; c < cases; c++ {
		synctest.Test(t, func(t *testing.T) { d.runCase(vfutil.Scale(150, 250)) })
		s.Count("cases")
	}
	c05mStress(s, d.r, vfutil.Scale(1500, 20000))
}
