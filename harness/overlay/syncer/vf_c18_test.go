//go:build verif

package syncer

// C18 harness: the replay-unit builder, the committed transaction and the
// cluster client's transaction batcher on generated commands/transactions,
// end to end through real TCP connections into slot-recording node doubles.
// Oracle: an independent bitwise CRC16 HASH_SLOT over key positions known to
// the generator (not to the code under test).

import (
	"bufio"
	"encoding/json"
	"errors"
	"fmt"
	"io"
	"net"
	"os"
	"strconv"
	"strings"
	"sync"
	"testing"

	"github.com/mgtv-tech/redis-GunYu/config"
	"github.com/mgtv-tech/redis-GunYu/pkg/redis/checkpoint"
	"github.com/mgtv-tech/redis-GunYu/pkg/redis/client"
	cluster "github.com/mgtv-tech/redis-GunYu/pkg/redis/client/cluster"
	rediscommon "github.com/mgtv-tech/redis-GunYu/pkg/redis/client/common"
	"github.com/mgtv-tech/redis-GunYu/pkg/vfutil"
)

// ------------------------------------------------------------ oracle

func vfc18Crc16(b []byte) uint16 {
	var crc uint16
	for _, c := range b {
		crc ^= uint16(c) << 8
		for i := 0; i < 8; i++ {
			if crc&0x8000 != 0 {
				crc = (crc << 1) ^ 0x1021
			} else {
				crc <<= 1
			}
		}
	}
	return crc
}

// vfc18HashSlot is Redis Cluster's HASH_SLOT (first '{', first following '}',
// non-empty content).
func vfc18HashSlot(k []byte) int {
	s := -1
	for i, c := range k {
		if c == '{' {
			s = i
			break
		}
	}
	if s >= 0 {
		for e := s + 1; e < len(k); e++ {
			if k[e] == '}' {
				if e != s+1 {
					return int(vfc18Crc16(k[s+1:e]) % 16384)
				}
				break
			}
		}
	}
	return int(vfc18Crc16(k) % 16384)
}

// ------------------------------------------------------------ node double

type vfc18Block struct {
	Node     int
	Cmds     [][][]byte // queued commands (name first)
	Rejected string     // non-empty: the node refused the block itself (CROSSSLOT / MOVED: not served here)
	Injected string     // non-empty: a fault the harness asked for
	Run      string     // run id in the block's marker ("" when the first command is no marker)
}

// vfc18Nodes: cluster node doubles. Each node serves the slots ownerIdx says,
// and — like a real cluster node — refuses at queue time a command whose keys
// (positions registered by the generator in `truth`, first argument for the
// tool's own SET/HSET/ZADD) are not served here (-MOVED) or do not share the
// block's slot (-CROSSSLOT), and then answers EXEC with -EXECABORT.
type vfc18Nodes struct {
	mu     sync.Mutex
	lns    []net.Listener
	addrs  []string
	blocks []vfc18Block
	stray  int // commands received outside MULTI…EXEC
	reqs   int // every request received (for quiescence detection)

	truth   map[string][]int // lower(name)+"\x00"+args → key positions
	enforce bool
	// view: node idx's OWN key extraction for a command neither the generator's table nor the tool's control-key rule
	// covers (vf_c18_nodes_test.go: every node answers COMMAND GETKEYS in its own way and checks blocks by that
	// answer, like a real node checks them with its own command table); unknown = the node does not know the command
	view func(idx int, cmd [][]byte) (keys [][]byte, unknown bool)
	// getkeysAns: node idx's answer to COMMAND GETKEYS <cmd> <args…> sent to it over the wire (the REAL Cluster.commandGetKeys:
	// getRandomNode + do); queries / queryKeys record which node was asked, in order, and the keys it named (nil: none / error)
	getkeysAns func(idx int, cmd [][]byte) (keys []string, err error, garbage bool)
	queries    []int
	queryKeys  [][]string
	// one-shot fault for the next block that reaches any node:
	//   crossslot (queue-time error + EXECABORT), execerr (error entry inside the EXEC array),
	//   moved / ask (redirect the whole block to the next node once)
	inject     string
	injectRun  string // … only a block whose marker carries this run id (a late block of an earlier case must not take it)
	acceptOnce int    // node index that accepts its next block whatever the slots (redirect target); -1 = none
}

func (ns *vfc18Nodes) ownerIdx(slot int) int { return slot * len(ns.addrs) / 16384 }

func vfc18TruthKey(cmd [][]byte) string {
	parts := make([]string, len(cmd))
	for i, a := range cmd {
		if i == 0 {
			parts[i] = strings.ToLower(string(a))
		} else {
			parts[i] = string(a)
		}
	}
	return strings.Join(parts, "\x00")
}

func (ns *vfc18Nodes) register(c vfc18Cmd) {
	if c.Class != "known" {
		return
	}
	ns.mu.Lock()
	if ns.truth == nil {
		ns.truth = map[string][]int{}
	}
	cmd := append([][]byte{[]byte(c.Name)}, c.Args...)
	ns.truth[vfc18TruthKey(cmd)] = c.Truth
	ns.mu.Unlock()
}

// keysOf: the key positions the node knows for a queued command (nil = unknown)
func (ns *vfc18Nodes) keysOf(cmd [][]byte) [][]byte {
	name := strings.ToLower(string(cmd[0]))
	if idx, ok := ns.truth[vfc18TruthKey(cmd)]; ok {
		var ks [][]byte
		for _, i := range idx {
			if 1+i < len(cmd) {
				ks = append(ks, cmd[1+i])
			}
		}
		return ks
	}
	if len(cmd) > 1 && (name == "set" || name == "hset" || name == "zadd") &&
		strings.HasPrefix(string(cmd[1]), checkpoint.BisyncKeyPrefix+":") {
		return [][]byte{cmd[1]}
	}
	return nil
}

func vfc18ReadCmd(br *bufio.Reader) ([][]byte, error) {
	line, err := br.ReadString('\n')
	if err != nil {
		return nil, err
	}
	line = strings.TrimRight(line, "\r\n")
	if len(line) == 0 || line[0] != '*' {
		return nil, fmt.Errorf("bad array header %q", line)
	}
	n, err := strconv.Atoi(line[1:])
	if err != nil {
		return nil, err
	}
	out := make([][]byte, 0, n)
	for i := 0; i < n; i++ {
		h, err := br.ReadString('\n')
		if err != nil {
			return nil, err
		}
		h = strings.TrimRight(h, "\r\n")
		if len(h) == 0 || h[0] != '$' {
			return nil, fmt.Errorf("bad bulk header %q", h)
		}
		l, err := strconv.Atoi(h[1:])
		if err != nil {
			return nil, err
		}
		buf := make([]byte, l+2)
		if _, err := io.ReadFull(br, buf); err != nil {
			return nil, err
		}
		out = append(out, buf[:l])
	}
	return out, nil
}

func vfc18StartNodes(n int) (*vfc18Nodes, error) {
	ns := &vfc18Nodes{acceptOnce: -1, enforce: true}
	for i := 0; i < n; i++ {
		ln, err := net.Listen("tcp", "127.0.0.1:0")
		if err != nil {
			return nil, err
		}
		ns.lns = append(ns.lns, ln)
		ns.addrs = append(ns.addrs, ln.Addr().String())
		idx := i
		go func() {
			for {
				c, err := ln.Accept()
				if err != nil {
					return
				}
				go ns.serve(idx, c)
			}
		}()
	}
	return ns, nil
}

func (ns *vfc18Nodes) serve(idx int, c net.Conn) {
	defer c.Close()
	br := bufio.NewReader(c)
	bw := bufio.NewWriter(c)
	inMulti := false
	var cur [][][]byte
	blockSlot := -1
	rejected, injected, run := "", "", ""
	accept := false
	for {
		cmd, err := vfc18ReadCmd(br)
		if err != nil {
			return
		}
		if len(cmd) == 0 {
			continue
		}
		ns.mu.Lock()
		ns.reqs++
		ns.mu.Unlock()
		name := strings.ToLower(string(cmd[0]))
		switch {
		case name == "asking":
			accept = true
			bw.WriteString("+OK\r\n")
		case name == "multi":
			inMulti = true
			cur, blockSlot, rejected, injected, run = nil, -1, "", "", ""
			ns.mu.Lock()
			if ns.acceptOnce == idx {
				accept = true
				ns.acceptOnce = -1
			}
			ns.mu.Unlock()
			bw.WriteString("+OK\r\n")
		case name == "exec":
			ns.mu.Lock()
			ns.blocks = append(ns.blocks, vfc18Block{Node: idx, Cmds: cur, Rejected: rejected, Injected: injected, Run: run})
			ns.mu.Unlock()
			switch {
			case rejected != "" || injected == "crossslot" || injected == "moved" || injected == "ask":
				bw.WriteString("-EXECABORT Transaction discarded because of previous errors.\r\n")
			case injected == "execerr":
				fmt.Fprintf(bw, "*%d\r\n", len(cur))
				for i := range cur {
					if i == 1 {
						bw.WriteString("-ERR injected failure of a queued command\r\n")
					} else {
						bw.WriteString("+OK\r\n")
					}
				}
			default:
				fmt.Fprintf(bw, "*%d\r\n", len(cur))
				for range cur {
					bw.WriteString("+OK\r\n")
				}
			}
			inMulti, accept = false, false
			cur = nil
		case inMulti:
			cur = append(cur, cmd)
			reply := "+QUEUED\r\n"
			ns.mu.Lock()
			if len(cur) == 1 {
				// the marker names the run the block belongs to; the one-shot fault is decided here
				if len(cmd) > 2 && name == "set" && checkpoint.IsBisyncMarkerKey(string(cmd[1])) {
					if m, err := checkpoint.DecodeBisyncMarker(string(cmd[2])); err == nil && m != nil {
						run = m.RunID
					}
				}
				if ns.inject != "" && !accept && (ns.injectRun == "" || ns.injectRun == run) {
					injected = ns.inject
					ns.inject = ""
				}
			}
			enforce := ns.enforce && !accept
			var keys [][]byte
			unknownCmd := false
			if enforce {
				keys = ns.keysOf(cmd)
				if keys == nil && ns.view != nil {
					keys, unknownCmd = ns.view(idx, cmd)
				}
			}
			next := ns.addrs[(idx+1)%len(ns.addrs)]
			ns.mu.Unlock()
			switch {
			case injected == "moved" && len(cur) == 1:
				ns.mu.Lock()
				ns.acceptOnce = (idx + 1) % len(ns.addrs)
				ns.mu.Unlock()
				reply = fmt.Sprintf("-MOVED %d %s\r\n", vfc18HashSlot(cmd[1]), next)
			case injected == "ask" && len(cur) == 1:
				reply = fmt.Sprintf("-ASK %d %s\r\n", vfc18HashSlot(cmd[1]), next)
			case injected == "crossslot" && len(cur) == 2:
				reply = "-CROSSSLOT Keys in request don't hash to the same slot\r\n"
			default:
				// like a cluster node (getNodeByQuery): an unknown command is an error; keys on different slots (within
				// the command, or against the block's slot) are -CROSSSLOT whoever serves them; a slot not served here is -MOVED
				cmdSlot, cross := -1, false
				for _, k := range keys {
					sl := vfc18HashSlot(k)
					if cmdSlot < 0 {
						cmdSlot = sl
					} else if sl != cmdSlot {
						cross = true
					}
				}
				switch {
				case unknownCmd:
					if rejected == "" {
						rejected = "unknown-command"
					}
					reply = "-ERR unknown command\r\n"
				case cross || (cmdSlot >= 0 && blockSlot >= 0 && cmdSlot != blockSlot):
					if rejected == "" {
						rejected = "crossslot"
					}
					reply = "-CROSSSLOT Keys in request don't hash to the same slot\r\n"
				case cmdSlot >= 0 && ns.ownerIdx(cmdSlot) != idx:
					if rejected == "" {
						rejected = "moved"
					}
					reply = fmt.Sprintf("-MOVED %d %s\r\n", cmdSlot, ns.addrs[ns.ownerIdx(cmdSlot)])
				case cmdSlot >= 0 && blockSlot < 0:
					blockSlot = cmdSlot
				}
			}
			bw.WriteString(reply)
		case name == "command" && len(cmd) >= 3 && strings.EqualFold(string(cmd[1]), "getkeys"):
			// introspection, not a write: answered by THIS node in its own way, and recorded
			ns.mu.Lock()
			ans := ns.getkeysAns
			ns.mu.Unlock()
			var keys []string
			var aerr error
			garbage := false
			if ans == nil {
				aerr = errors.New("ERR Invalid command specified")
			} else {
				keys, aerr, garbage = ans(idx, cmd[2:])
			}
			ns.mu.Lock()
			ns.queries = append(ns.queries, idx)
			if garbage || aerr != nil || len(keys) == 0 {
				ns.queryKeys = append(ns.queryKeys, nil)
			} else {
				ns.queryKeys = append(ns.queryKeys, keys)
			}
			ns.mu.Unlock()
			switch {
			case garbage:
				bw.WriteString(":7\r\n")
			case aerr != nil:
				bw.WriteString("-" + aerr.Error() + "\r\n")
			default:
				fmt.Fprintf(bw, "*%d\r\n", len(keys))
				for _, k := range keys {
					fmt.Fprintf(bw, "$%d\r\n%s\r\n", len(k), k)
				}
			}
		default:
			ns.mu.Lock()
			ns.stray++
			ns.mu.Unlock()
			bw.WriteString("+OK\r\n")
		}
		if br.Buffered() == 0 {
			bw.Flush()
		}
	}
}

func (ns *vfc18Nodes) reqCount() int {
	ns.mu.Lock()
	defer ns.mu.Unlock()
	return ns.reqs
}

func (ns *vfc18Nodes) take() ([]vfc18Block, int) {
	ns.mu.Lock()
	defer ns.mu.Unlock()
	b, s := ns.blocks, ns.stray
	ns.blocks, ns.stray = nil, 0
	return b, s
}

// takeRun: the blocks of one run (marker run id); blocks of other runs — lane workers of an
// earlier case that were still sending when its loop returned — are dropped and counted
func (ns *vfc18Nodes) takeRun(run string) (mine []vfc18Block, stray int, late int) {
	all, stray := ns.take()
	for _, b := range all {
		if b.Run == run {
			mine = append(mine, b)
		} else {
			late++
		}
	}
	return mine, stray, late
}

// goodCount: blocks of the run the nodes have accepted so far (no fault, no rejection)
func (ns *vfc18Nodes) goodCount(run string) int {
	ns.mu.Lock()
	defer ns.mu.Unlock()
	n := 0
	for _, b := range ns.blocks {
		if b.Run == run && b.Injected == "" && b.Rejected == "" {
			n++
		}
	}
	return n
}

func (ns *vfc18Nodes) close() {
	for _, l := range ns.lns {
		l.Close()
	}
}

// vfc18Redis is a client.Redis whose transaction batcher is the real cluster
// client's.
type vfc18Redis struct{ c *cluster.Cluster }

func (r *vfc18Redis) Close() error                                                          { return nil }
// Do: reads and the tool's own bookkeeping (frontier HSET … on redis-gunyu keys) are not C18's subject and are
// answered here; anything else is a DATA command outside a transaction and goes through the real cluster client
// to the node doubles, which count it ("stray"): a unit must never be replayed in part or command by command
func (r *vfc18Redis) Do(cmd string, args ...interface{}) (interface{}, error) {
	switch strings.ToLower(cmd) {
	case "exists", "info", "select", "command", "hget", "hgetall", "hmget", "get", "zrangebyscore", "zrange", "ping", "cluster", "type":
		return "OK", nil
	}
	if len(args) > 0 {
		k := ""
		switch x := args[0].(type) {
		case []byte:
			k = string(x)
		case string:
			k = x
		}
		if strings.HasPrefix(k, "redis-gunyu") || strings.HasPrefix(k, "/redis-gunyu") {
			return "OK", nil
		}
	}
	if r.c == nil {
		return "OK", nil
	}
	return r.c.Do(cmd, args...)
}
func (r *vfc18Redis) Send(string, ...interface{}) error                                     { return nil }
func (r *vfc18Redis) SendAndFlush(string, ...interface{}) error                             { return nil }
func (r *vfc18Redis) Receive() (interface{}, error)                                         { return "OK", nil }
func (r *vfc18Redis) ReceiveString() (string, error)                                        { return "OK", nil }
func (r *vfc18Redis) ReceiveBool() (bool, error)                                            { return true, nil }
func (r *vfc18Redis) BufioReader() *bufio.Reader                                            { return nil }
func (r *vfc18Redis) BufioWriter() *bufio.Writer                                            { return nil }
func (r *vfc18Redis) Flush() error                                                          { return nil }
func (r *vfc18Redis) RedisType() config.RedisType                                           { return config.RedisTypeCluster }
func (r *vfc18Redis) Addresses() []string                                                   { return nil }
func (r *vfc18Redis) NewBatcher(bool) rediscommon.CmdBatcher                                { return &vfc18NopBatcher{} }
func (r *vfc18Redis) NewTxnBatcher() rediscommon.CmdBatcher                                 { return r.c.NewTxnBatcher() }
func (r *vfc18Redis) IterateNodes(func(string, interface{}, error), string, ...interface{}) {}

var _ client.Redis = (*vfc18Redis)(nil)

// vfc18NopBatcher: the coordinator's non-transactional bookkeeping (frontier
// HSET goes through Do; journal DEL / index ZREM through this) is not C18's subject
type vfc18NopBatcher struct{ n int }

func (b *vfc18NopBatcher) Put(string, ...interface{}) error { b.n++; return nil }
func (b *vfc18NopBatcher) Len() int                         { return b.n }
func (b *vfc18NopBatcher) Dispatch() error                  { return nil }
func (b *vfc18NopBatcher) Receive() ([]interface{}, error)  { return make([]interface{}, b.n), nil }
func (b *vfc18NopBatcher) Exec() ([]interface{}, error)     { return make([]interface{}, b.n), nil }

// ------------------------------------------------------------ fall-back (COMMAND GETKEYS double)

// vfc18Fb answers for commands the static tables do not resolve.
func vfc18Fb(id string, args [][]byte) ([]string, error) {
	switch id {
	case "err":
		return nil, errors.New("ERR Invalid command specified")
	case "first":
		if len(args) > 0 {
			return []string{string(args[0])}, nil
		}
		return nil, nil
	case "all":
		out := make([]string, 0, len(args))
		for _, a := range args {
			out = append(out, string(a))
		}
		return out, nil
	case "nk":
		// a module command in the ZUNIONSTORE layout: dst numkeys key… [option…] — the key positions depend on the
		// CONTENT of an argument, not on name and arity (session 5: a resolver that remembers positions per name/arity)
		if len(args) < 2 {
			return nil, errors.New("ERR wrong number of arguments")
		}
		n := vfc18Digits(args[1])
		if n < 1 || 2+n > len(args) {
			return nil, errors.New("ERR Invalid arguments specified for command")
		}
		out := []string{string(args[0])}
		for _, a := range args[2 : 2+n] {
			out = append(out, string(a))
		}
		return out, nil
	case "n0", "n1":
		// Redis's genericGetKeys for the movablekeys commands the tool's tables have NO row for: numkeys at argument 0
		// (ZUNION / ZINTER / ZDIFF / SINTERCARD / ZINTERCARD numkeys key…) or 1 (EVAL_RO / EVALSHA_RO script numkeys key…),
		// the keys follow the count; a count that is no positive number or exceeds the arguments present: no keys
		c := 0
		if id == "n1" {
			c = 1
		}
		if len(args) <= c {
			return nil, nil
		}
		n := vfc18Digits(args[c])
		if len(args[c]) == 0 || n < 1 || n > len(args)-(c+1) {
			return nil, nil
		}
		out := make([]string, 0, n)
		for _, a := range args[c+1 : c+1+n] {
			out = append(out, string(a))
		}
		return out, nil
	case "st":
		// the SORT layout: key … [STORE dst] …, the LAST store option names the destination
		if len(args) == 0 {
			return nil, nil
		}
		out := []string{string(args[0])}
		dst := -1
		for i := 1; i < len(args); i++ {
			if strings.EqualFold(string(args[i]), "store") && i+1 < len(args) {
				dst = i + 1
				i++
			}
		}
		if dst >= 0 {
			out = append(out, string(args[dst]))
		}
		return out, nil
	}
	return nil, nil // "none", "empty"
}

// digits only (as keyspec.parseCommandInt and the Lean driver read a count); -1 otherwise, 0 for ""
func vfc18Digits(b []byte) int {
	v := 0
	for _, c := range b {
		if c < '0' || c > '9' || v > 1<<20 {
			return -1
		}
		v = v*10 + int(c-'0')
	}
	return v
}

type vfc18Introspector struct{ fb string }

func (f *vfc18Introspector) IterateNodes(result func(string, interface{}, error), cmd string, args ...interface{}) {
	// args = "getkeys", <cmd>, <args…>
	var raw [][]byte
	for _, a := range args[2:] {
		raw = append(raw, a.([]byte))
	}
	keys, err := vfc18Fb(f.fb, raw)
	if err != nil {
		result("node-a", nil, err)
		return
	}
	reply := make([]interface{}, 0, len(keys))
	for _, k := range keys {
		reply = append(reply, []byte(k))
	}
	result("node-a", reply, nil)
}

// ------------------------------------------------------------ generator

type vfc18Cmd struct {
	Name  string
	Args  [][]byte
	Truth []int  // key positions known to the generator (class "known")
	Known bool   // command is in the supported set and well-formed
	Class string // known | unknown (fall-back only) | malformed | corpus
}

func (c vfc18Cmd) tok() string {
	parts := []string{vfutil.HexS(c.Name)}
	for _, a := range c.Args {
		parts = append(parts, vfutil.Hex(a))
	}
	return strings.Join(parts, ",")
}

// rtok: tok() plus what the generator knows — K<i.j>=<cmd> (known command, key positions),
// U=<cmd> (unknown to the tables: fall-back only); corpus lines and replay files use it
func (c vfc18Cmd) rtok() string {
	switch {
	case c.Known && c.Class == "known":
		idx := make([]string, len(c.Truth))
		for i, x := range c.Truth {
			idx[i] = strconv.Itoa(x)
		}
		return "K" + strings.Join(idx, ".") + "=" + c.tok()
	case c.Class == "unknown":
		return "U=" + c.tok()
	}
	return c.tok()
}

func vfc18RToks(cmds []vfc18Cmd) string {
	p := make([]string, len(cmds))
	for i, c := range cmds {
		p[i] = c.rtok()
	}
	return strings.Join(p, " ")
}

func vfc18ParseRToks(toks []string) []vfc18Cmd {
	var cmds []vfc18Cmd
	for _, tok := range toks {
		var truthIdx []int
		hasTruth, unknown := false, false
		if strings.HasPrefix(tok, "U=") {
			unknown, tok = true, tok[2:]
		} else if strings.HasPrefix(tok, "K") && strings.Contains(tok, "=") {
			eq := strings.Index(tok, "=")
			for _, x := range strings.Split(tok[1:eq], ".") {
				if n, err := strconv.Atoi(x); err == nil {
					truthIdx = append(truthIdx, n)
				}
			}
			tok = tok[eq+1:]
			hasTruth = true
		}
		parts := strings.Split(tok, ",")
		c := vfc18Cmd{Name: string(vfutil.UnHex(parts[0])), Class: "corpus"}
		for _, p := range parts[1:] {
			c.Args = append(c.Args, vfutil.UnHex(p))
		}
		c.Truth = []int{}
		if hasTruth {
			c.Truth, c.Known, c.Class = truthIdx, true, "known"
		}
		if unknown {
			c.Class = "unknown"
		}
		cmds = append(cmds, c)
	}
	return cmds
}

func vfc18Filler(r *vfutil.Rand) []byte {
	n := r.Intn(4)
	b := make([]byte, n)
	for i := range b {
		switch r.Intn(5) {
		case 0:
			b[i] = byte(r.U64())
			if b[i] == '{' || b[i] == '}' {
				b[i] = 'z'
			}
		case 1:
			b[i] = byte(0x80 + r.Intn(0x80))
		default:
			b[i] = byte('a' + r.Intn(26))
		}
	}
	return b
}

// vfc18Key: a key around tag `t` in one of many brace arrangements; some keep
// the tag effective (same slot), some do not.
func vfc18Key(r *vfutil.Rand, t []byte) []byte {
	f := vfc18Filler
	cat := func(parts ...[]byte) []byte {
		var b []byte
		for _, p := range parts {
			b = append(b, p...)
		}
		return b
	}
	L, R := []byte("{"), []byte("}")
	switch r.Intn(16) {
	case 0, 1, 2, 3:
		return cat(f(r), L, t, R, f(r)) // pre{t}post
	case 4:
		return cat(L, t, R) // {t}
	case 5:
		return cat(f(r), L, t, R, L, f(r), R) // {t}{other}
	case 6:
		return cat(f(r), L, t, R, f(r), R, f(r)) // {t}…}
	case 7:
		return cat(L, t, R, L, t, R)
	case 8:
		return cat(L, R, L, t, R) // {}{t}: whole key hashed
	case 9:
		return cat(f(r), L, f(r), L, t, R) // {x{t}: tag is "x{t"
	case 10:
		return cat(R, f(r), L, t, R) // }…{t}
	case 11:
		return cat(f(r), L, t) // no closing brace
	case 12:
		return cat(t) // bare tag (same slot as {t} only if t has no braces)
	case 13:
		return cat(L, f(r), R, L, t, R) // {other}{t}
	case 14:
		return r.Bytes(r.Intn(12))
	default:
		return cat(f(r), L, t, R, f(r))
	}
}

type vfc18Tmpl struct {
	name string
	gen  func(r *vfutil.Rand, key func() []byte) ([][]byte, []int)
}

func vfc18Val(r *vfutil.Rand) []byte {
	switch r.Intn(6) {
	case 0:
		return []byte("{v}")
	case 1:
		return r.Bytes(r.Intn(6))
	default:
		return []byte(strconv.Itoa(r.Intn(1000)))
	}
}

func vfc18Seq(lo, n int) []int {
	out := make([]int, 0, n)
	for i := 0; i < n; i++ {
		out = append(out, lo+i)
	}
	return out
}

// the supported command shapes with their key positions as Redis defines them
// (written from the Redis command reference, independently of pkg/redis/keyspec)
var vfc18Tmpls = []vfc18Tmpl{
	{"set", func(r *vfutil.Rand, k func() []byte) ([][]byte, []int) {
		a := [][]byte{k(), vfc18Val(r)}
		switch r.Intn(5) {
		case 0:
			a = append(a, []byte("EX"), []byte("100"))
		case 1:
			a = append(a, []byte("PXAT"), []byte("1893456000000"))
		case 2:
			a = append(a, []byte("NX"))
		case 3:
			a = append(a, []byte("KEEPTTL"), []byte("GET"))
		}
		return a, []int{0}
	}},
	{"incrby", func(r *vfutil.Rand, k func() []byte) ([][]byte, []int) { return [][]byte{k(), []byte("5")}, []int{0} }},
	{"append", func(r *vfutil.Rand, k func() []byte) ([][]byte, []int) { return [][]byte{k(), vfc18Val(r)}, []int{0} }},
	{"hset", func(r *vfutil.Rand, k func() []byte) ([][]byte, []int) {
		return [][]byte{k(), []byte("f"), vfc18Val(r), k(), vfc18Val(r)}, []int{0}
	}},
	{"zadd", func(r *vfutil.Rand, k func() []byte) ([][]byte, []int) {
		return [][]byte{k(), []byte("1.5"), k()}, []int{0}
	}},
	{"sadd", func(r *vfutil.Rand, k func() []byte) ([][]byte, []int) { return [][]byte{k(), k(), k()}, []int{0} }},
	{"rpush", func(r *vfutil.Rand, k func() []byte) ([][]byte, []int) { return [][]byte{k(), vfc18Val(r)}, []int{0} }},
	{"pexpireat", func(r *vfutil.Rand, k func() []byte) ([][]byte, []int) {
		return [][]byte{k(), []byte("1893456000000")}, []int{0}
	}},
	{"expire", func(r *vfutil.Rand, k func() []byte) ([][]byte, []int) { return [][]byte{k(), []byte("10")}, []int{0} }},
	{"restore", func(r *vfutil.Rand, k func() []byte) ([][]byte, []int) {
		return [][]byte{k(), []byte("0"), r.Bytes(8), []byte("REPLACE")}, []int{0}
	}},
	{"xadd", func(r *vfutil.Rand, k func() []byte) ([][]byte, []int) {
		return [][]byte{k(), []byte("*"), []byte("f"), vfc18Val(r)}, []int{0}
	}},
	{"pfadd", func(r *vfutil.Rand, k func() []byte) ([][]byte, []int) { return [][]byte{k(), k()}, []int{0} }},
	{"del", func(r *vfutil.Rand, k func() []byte) ([][]byte, []int) {
		n := r.Range(1, 4)
		a := make([][]byte, n)
		for i := range a {
			a[i] = k()
		}
		return a, vfc18Seq(0, n)
	}},
	{"unlink", func(r *vfutil.Rand, k func() []byte) ([][]byte, []int) {
		n := r.Range(1, 3)
		a := make([][]byte, n)
		for i := range a {
			a[i] = k()
		}
		return a, vfc18Seq(0, n)
	}},
	{"mset", func(r *vfutil.Rand, k func() []byte) ([][]byte, []int) {
		n := r.Range(1, 3)
		var a [][]byte
		var idx []int
		for i := 0; i < n; i++ {
			idx = append(idx, len(a))
			a = append(a, k(), k()) // values that look like keys
		}
		return a, idx
	}},
	{"msetnx", func(r *vfutil.Rand, k func() []byte) ([][]byte, []int) {
		return [][]byte{k(), vfc18Val(r), k(), vfc18Val(r)}, []int{0, 2}
	}},
	{"rename", func(r *vfutil.Rand, k func() []byte) ([][]byte, []int) { return [][]byte{k(), k()}, []int{0, 1} }},
	{"copy", func(r *vfutil.Rand, k func() []byte) ([][]byte, []int) { return [][]byte{k(), k()}, []int{0, 1} }},
	{"smove", func(r *vfutil.Rand, k func() []byte) ([][]byte, []int) { return [][]byte{k(), k(), k()}, []int{0, 1} }},
	{"rpoplpush", func(r *vfutil.Rand, k func() []byte) ([][]byte, []int) { return [][]byte{k(), k()}, []int{0, 1} }},
	{"lmove", func(r *vfutil.Rand, k func() []byte) ([][]byte, []int) {
		return [][]byte{k(), k(), []byte("LEFT"), []byte("RIGHT")}, []int{0, 1}
	}},
	{"sunionstore", func(r *vfutil.Rand, k func() []byte) ([][]byte, []int) {
		n := r.Range(2, 4)
		a := make([][]byte, n)
		for i := range a {
			a[i] = k()
		}
		return a, vfc18Seq(0, n)
	}},
	{"pfmerge", func(r *vfutil.Rand, k func() []byte) ([][]byte, []int) {
		return [][]byte{k(), k(), k()}, []int{0, 1, 2}
	}},
	{"bitop", func(r *vfutil.Rand, k func() []byte) ([][]byte, []int) {
		return [][]byte{[]byte("AND"), k(), k(), k()}, []int{1, 2, 3}
	}},
	{"zunionstore", func(r *vfutil.Rand, k func() []byte) ([][]byte, []int) {
		n := r.Range(1, 3)
		a := [][]byte{k(), []byte(strconv.Itoa(n))}
		idx := []int{0}
		for i := 0; i < n; i++ {
			idx = append(idx, len(a))
			a = append(a, k())
		}
		if r.Bool() {
			a = append(a, []byte("WEIGHTS"))
			for i := 0; i < n; i++ {
				a = append(a, []byte("2"))
			}
		}
		return a, idx
	}},
	{"zrangestore", func(r *vfutil.Rand, k func() []byte) ([][]byte, []int) {
		return [][]byte{k(), k(), []byte("0"), []byte("-1")}, []int{0, 1}
	}},
	{"sort", func(r *vfutil.Rand, k func() []byte) ([][]byte, []int) {
		a := [][]byte{k()}
		if r.Bool() {
			a = append(a, []byte("LIMIT"), []byte("0"), []byte("5"))
		}
		if r.Bool() {
			a = append(a, []byte("ALPHA"))
		}
		a = append(a, []byte("STORE"), k())
		return a, []int{0, len(a) - 1}
	}},
	{"georadius", func(r *vfutil.Rand, k func() []byte) ([][]byte, []int) {
		a := [][]byte{k(), []byte("1"), []byte("2"), []byte("3"), []byte("km"), []byte("STORE"), k()}
		return a, []int{0, 6}
	}},
	{"xgroup", func(r *vfutil.Rand, k func() []byte) ([][]byte, []int) {
		return [][]byte{[]byte("CREATE"), k(), []byte("g"), []byte("$")}, []int{1}
	}},
	{"eval", func(r *vfutil.Rand, k func() []byte) ([][]byte, []int) {
		n := r.Range(1, 3)
		a := [][]byte{[]byte("return 1"), []byte(strconv.Itoa(n))}
		idx := []int{}
		for i := 0; i < n; i++ {
			idx = append(idx, len(a))
			a = append(a, k())
		}
		a = append(a, k()) // a non-key argument that looks like a key
		return a, idx
	}},
}

// vfc18GenCmd returns one command. class: "known" (template), "unknown"
// (not in the tables, resolved by the fall-back only), "malformed".
func vfc18GenCmd(r *vfutil.Rand, key func() []byte) (vfc18Cmd, string) {
	switch x := r.Intn(20); {
	case x == 0:
		names := []string{"custom.write", "publish", "foo", "debug"}
		n := vfutil.Pick(r, names)
		na := r.Intn(3)
		args := make([][]byte, na)
		for i := range args {
			args[i] = key()
		}
		return vfc18Cmd{Name: n, Args: args, Class: "unknown"}, "unknown"
	case x == 1:
		// right name, wrong shape
		switch r.Intn(6) {
		case 0:
			return vfc18Cmd{Name: "set", Class: "malformed"}, "malformed"
		case 1:
			return vfc18Cmd{Name: "zunionstore", Args: [][]byte{key(), []byte("5"), key()}, Class: "malformed"}, "malformed"
		case 2:
			return vfc18Cmd{Name: "zunionstore", Args: [][]byte{key(), []byte("x"), key()}, Class: "malformed"}, "malformed"
		case 3:
			return vfc18Cmd{Name: "bitop", Args: [][]byte{[]byte("NOT")}, Class: "malformed"}, "malformed"
		case 4:
			return vfc18Cmd{Name: "sort", Args: [][]byte{key(), []byte("STORE")}, Class: "malformed"}, "malformed"
		default:
			return vfc18Cmd{Name: "xgroup", Args: [][]byte{[]byte("HELP")}, Class: "malformed"}, "malformed"
		}
	default:
		t := vfutil.Pick(r, vfc18Tmpls)
		args, idx := t.gen(r, key)
		name := t.name
		if r.Chance(1, 6) {
			name = strings.ToUpper(name)
		} else if r.Chance(1, 8) {
			name = strings.ToUpper(name[:1]) + name[1:] // mixed case
		}
		return vfc18Cmd{Name: name, Args: args, Truth: idx, Known: true, Class: "known"}, "known"
	}
}

// vfc18GenTxn returns a command list. With probability ~1/2 every key is drawn
// around one tag (mostly single-slot), otherwise tags are mixed.
func vfc18GenTxn(r *vfutil.Rand) []vfc18Cmd {
	tags := [][]byte{[]byte("a"), []byte("user:1"), []byte("t"), {0xff, 0x01}, []byte("slot-59e4"), []byte("x y")}
	main := vfutil.Pick(r, tags)
	mixed := r.Chance(1, 3)
	key := func() []byte {
		t := main
		if mixed && r.Chance(1, 3) {
			t = vfutil.Pick(r, tags)
		}
		if !mixed {
			// arrangements that keep `t` effective, most of the time
			if r.Chance(9, 10) {
				f := vfc18Filler
				switch r.Intn(5) {
				case 0:
					return append(append(append(f(r), '{'), t...), '}')
				case 1:
					return append(append([]byte{'{'}, t...), append([]byte{'}', '{'}, append(f(r), '}')...)...)
				case 2:
					return append(append(append(append(f(r), '{'), t...), '}'), append(f(r), '}')...)
				default:
					return append(append(append(append(f(r), '{'), t...), '}'), f(r)...)
				}
			}
		}
		return vfc18Key(r, t)
	}
	n := 1
	if r.Chance(2, 3) {
		n = r.Range(1, 4)
	}
	out := make([]vfc18Cmd, 0, n)
	for i := 0; i < n; i++ {
		c, _ := vfc18GenCmd(r, key)
		out = append(out, c)
	}
	return out
}

func vfc18Toks(cmds []vfc18Cmd) string {
	p := make([]string, len(cmds))
	for i, c := range cmds {
		p[i] = c.tok()
	}
	return strings.Join(p, " ")
}

func vfc18AofCmds(cmds []vfc18Cmd) []bisyncAofCommand {
	out := make([]bisyncAofCommand, len(cmds))
	for i, c := range cmds {
		args := make([][]byte, len(c.Args))
		for j, a := range c.Args {
			args[j] = append([]byte(nil), a...)
		}
		out[i] = bisyncAofCommand{Cmd: c.Name, Args: args}
	}
	return out
}

func vfc18BuildErr(err error) string {
	if err == nil {
		return "ok"
	}
	m := err.Error()
	switch {
	case strings.Contains(m, "empty replay unit"):
		return "empty"
	case strings.Contains(m, "resolve keys for command"):
		return "resolve"
	case strings.Contains(m, "is not slot-routable"):
		return "notRoutable"
	case strings.Contains(m, "has no routed keys"):
		return "noKeys"
	case strings.Contains(m, "is cross-slot"):
		return "crossSlot"
	case strings.Contains(m, "no business keys"):
		return "noBusinessKeys"
	}
	return "other:" + m
}

// truth of a transaction: are all commands determined, and do all keys share a slot?
type vfc18Truth struct {
	Determined bool // every command's keys are known (template or fall-back)
	Judgeable  bool // no malformed command (those have no ground truth)
	Keys       [][]byte
	OneSlot    bool
	Slot       int
}

func vfc18TruthOf(cmds []vfc18Cmd, fb string) vfc18Truth {
	t := vfc18Truth{Determined: len(cmds) > 0, Judgeable: true, OneSlot: true, Slot: -1}
	for _, c := range cmds {
		var keys [][]byte
		switch {
		case c.Known && c.Class == "known":
			for _, i := range c.Truth {
				keys = append(keys, c.Args[i])
			}
		case c.Class == "unknown":
			ks, err := vfc18Fb(fb, c.Args)
			if err != nil || len(ks) == 0 || len(c.Args) == 0 {
				t.Determined = false
			}
			for _, k := range ks {
				keys = append(keys, []byte(k))
			}
		default:
			t.Judgeable = false
		}
		if len(keys) == 0 {
			t.Determined = false
		}
		for _, k := range keys {
			s := vfc18HashSlot(k)
			if t.Slot < 0 {
				t.Slot = s
			} else if s != t.Slot {
				t.OneSlot = false
			}
			t.Keys = append(t.Keys, k)
		}
	}
	return t
}

type vfc18World struct {
	s                   *vfutil.Session
	nodes               *vfc18Nodes
	n                   int
	cp                  string
	ro                  *RedisOutput
	clusters            map[string]*cluster.Cluster
	nodesHook           func(cmd string, args ...interface{}) ([]string, error) // COMMAND GETKEYS of the "nodes" client (vf_c18_nodes_test.go)
	nodesReal           bool                                                    // … or the REAL commandGetKeys against the node doubles
	privSeq             int
	loopSeq, loopStalls int
}

// owner of a slot in the client's slot map: equal ranges over n nodes
func (w *vfc18World) ownerIdx(slot int) int { return slot * w.n / 16384 }

// newCluster returns the cluster client for a fall-back behaviour and a hole
// pattern; clients are cached (each owns node pipelines and TCP connections).
func (w *vfc18World) newCluster(fb string, hole int) *cluster.Cluster {
	key := fmt.Sprintf("%s/%d", fb, hole)
	if c, ok := w.clusters[key]; ok {
		return c
	}
	c := cluster.VerifNewStaticCluster(w.nodes.addrs, func(slot int) int {
		if slot%1000 < hole {
			return -1
		}
		return w.ownerIdx(slot)
	}, func(cmd string, args ...interface{}) ([]string, error) {
		var raw [][]byte
		for _, a := range args {
			switch x := a.(type) {
			case []byte:
				raw = append(raw, x)
			case string:
				raw = append(raw, []byte(x))
			}
		}
		return vfc18Fb(strings.SplitN(fb, "#", 2)[0], raw)
	})
	if w.clusters == nil {
		w.clusters = map[string]*cluster.Cluster{}
	}
	w.clusters[key] = c
	return c
}

func vfc18PutErr(err error) string {
	if errors.Is(err, rediscommon.ErrCrossSlots) {
		return "err-cross"
	}
	return "err-other"
}

func vfc18ArgsToIface(args [][]byte) []interface{} {
	out := make([]interface{}, len(args))
	for i, a := range args {
		out[i] = a
	}
	return out
}

func vfc18BlockToks(b [][][]byte) string {
	p := make([]string, len(b))
	for i, c := range b {
		q := make([]string, len(c))
		for j, a := range c {
			q[j] = vfutil.Hex(a)
		}
		p[i] = strings.Join(q, ",")
	}
	return strings.Join(p, " ")
}

var errVfc18NoVerdict = errors.New("no builder verdict")

// txnOne: the cluster client's batcher directly on a command list
// (re-validation agrees with the builder's verdict `berr`; pass errVfc18NoVerdict
// to skip that comparison).
func (w *vfc18World) txnOne(r *vfutil.Rand, cmds []vfc18Cmd, fb string, err error, replay map[string]interface{}) {
	s := w.s
	toks := vfc18Toks(cmds)
	hole := 0
	if r.Chance(1, 12) {
		hole = vfutil.Pick(r, []int{1, 137, 400})
	}
	cl := w.newCluster(fb, hole)
	b := cl.NewTxnBatcher()
	var ptoks []string
	putFailed := false
	for _, c := range cmds {
		before := b.Len()
		perr := b.Put(c.Name, vfc18ArgsToIface(c.Args)...)
		if perr != nil {
			ptoks = append(ptoks, vfc18PutErr(perr))
			putFailed = true
			break
		}
		if b.Len() == before {
			ptoks = append(ptoks, "skip")
		} else {
			ptoks = append(ptoks, "ok")
		}
	}
	info, _ := cluster.VerifTxnState(b)
	slotS, nodeS := "-", "-"
	if len(info.Cmds) > 0 {
		slotS = strconv.Itoa(info.Slot)
		for i, a := range w.nodes.addrs {
			if a == info.Node {
				nodeS = strconv.Itoa(i)
			}
		}
	}
	s.Op(fmt.Sprintf("c18 txn %d %d %s %s", w.n, hole, fb, toks),
		strings.Join(ptoks, " ")+fmt.Sprintf(" ; n=%d slot=%s node=%s", len(info.Cmds), slotS, nodeS))
	if putFailed {
		s.Count("put_refused")
		// a refused batcher must never send
		if derr := b.Dispatch(); derr == nil {
			s.Violate("dispatch-after-refused-put", "Dispatch returned nil after Put had failed", replay)
		}
		if st, _ := cluster.VerifTxnState(b); st.Submitted {
			s.Violate("dispatch-after-refused-put", "a request was submitted after Put had failed", replay)
		}
	} else {
		s.Count("put_accepted")
	}
	plain := true
	for _, c := range cmds {
		switch strings.ToUpper(c.Name) {
		case "PING", "CLUSTER", "INFO", "SELECT", "MGET", "MSET", "MSETNX", "MULTI", "EXEC":
			plain = false
		}
		if len(c.Args) == 0 {
			plain = false
		}
	}
	if err != errVfc18NoVerdict && hole == 0 && plain && len(cmds) > 0 && (err == nil) != !putFailed {
		s.Violate("client-revalidation-disagrees", fmt.Sprintf("builder err=%v, batcher refused=%v", err, putFailed), replay)
	}

}

// one transaction through builder → dispatch → cluster batcher → node double
func (w *vfc18World) replayOne(r *vfutil.Rand, cmds []vfc18Cmd, fb string, src string) {
	s := w.s
	toks := vfc18Toks(cmds)
	truth := vfc18TruthOf(cmds, fb)
	for _, c := range cmds {
		w.nodes.register(c)
	}
	replay := map[string]interface{}{"cmds": toks, "rcmds": vfc18RToks(cmds), "fb": fb}
	resolver := func(cmd string, args [][]byte) ([]string, bool, error) {
		return resolveBisyncCommandKeys(&vfc18Introspector{fb: fb}, cmd, args)
	}

	// ---- builder, cluster mode and standalone mode
	seq := int64(r.Range(1, 1<<30))
	unit, err := buildBisyncReplayUnitWithMode(seq, 100, 200, len(cmds) > 1, resolver, vfc18AofCmds(cmds), bisyncSlotMode{})
	res := vfc18BuildErr(err)
	if err == nil {
		s.Op("c18 build c "+fb+" "+toks, fmt.Sprintf("ok slot=%d tag=%s n=%d", unit.Slot, vfutil.HexS(unit.SlotTag), len(unit.Commands)))
	} else {
		s.Op("c18 build c "+fb+" "+toks, "err "+res)
	}
	s.Count("build_" + strings.SplitN(res, ":", 2)[0])
	s.Count("src_" + src)
	if r.Chance(1, 8) {
		zero := uint16(0)
		su, serr := buildBisyncReplayUnitWithMode(seq, 100, 200, false, resolver, vfc18AofCmds(cmds),
			bisyncSlotMode{forceSlot: &zero, allowCrossSlot: true})
		if serr == nil {
			s.Op("c18 build s "+fb+" "+toks, fmt.Sprintf("ok slot=%d tag=%s n=%d", su.Slot, vfutil.HexS(su.SlotTag), len(su.Commands)))
		} else {
			s.Op("c18 build s "+fb+" "+toks, "err "+vfc18BuildErr(serr))
		}
	}

	// ---- monitor: the property on the builder's verdict
	if truth.Judgeable {
		want := truth.Determined && truth.OneSlot
		if err == nil && !want {
			s.Violate("unit-accepted-not-single-slot", fmt.Sprintf("builder accepted a transaction whose keys are undetermined or span slots (determined=%v oneSlot=%v)", truth.Determined, truth.OneSlot), replay)
		}
		if err != nil && want {
			s.Violate("single-slot-unit-refused", "builder refused a routable single-slot transaction: "+err.Error(), replay)
		}
		if err == nil && want {
			if int(unit.Slot) != truth.Slot {
				s.Violate("unit-slot-differs-from-hash-slot", fmt.Sprintf("unit.Slot=%d HASH_SLOT=%d", unit.Slot, truth.Slot), replay)
			}
			s.Distinct(toks)
		}
	} else {
		s.Count("txn_with_malformed")
	}

	w.txnOne(r, cmds, fb, err, replay)

	// ---- end to end: dispatchBisyncUnit / execBisyncRdbUnit through the real batcher and TCP
	if err != nil {
		return
	}
	kind := vfutil.Pick(r, []string{"l", "j", "r"})
	conn := &vfc18Redis{c: w.newCluster(fb, 0)}
	w.nodes.take()
	var derr error
	switch kind {
	case "l", "j":
		_, _, derr = w.ro.execBisyncUnit(conn, "runid-1", unit, kind == "l")
	default:
		derr = w.ro.execBisyncRdbUnit(conn, "runid-1", unit)
	}
	blocks, stray := w.nodes.take()
	replay["kind"] = kind
	if derr != nil {
		s.Op(fmt.Sprintf("c18 replay %s %s %d 6d76 . %d 0 %s %s", kind, vfutil.HexS(w.cp), seq, w.n, fb, toks), "none")
		if truth.Judgeable && truth.Determined && truth.OneSlot {
			s.Violate("single-slot-unit-refused", "commit of an accepted unit failed: "+derr.Error(), replay)
		}
		if len(blocks) != 0 || stray != 0 {
			s.Violate("request-issued-for-refused-unit", fmt.Sprintf("%d blocks, %d stray commands reached a node although the commit failed", len(blocks), stray), replay)
		}
		return
	}
	s.Count("commit_" + kind)
	if len(blocks) != 1 || stray != 0 {
		s.Violate("unit-not-one-multi-block", fmt.Sprintf("%d MULTI blocks and %d commands outside MULTI reached the nodes", len(blocks), stray), replay)
		return
	}
	blk := blocks[0]
	if blk.Rejected != "" {
		s.Violate("node-rejected-block", "the slot-checking node refused a block the tool sent ("+blk.Rejected+") although the commit reported success", replay)
	}
	// canonicalise: marker value and record fields are payload, checked separately
	canon := make([][][]byte, len(blk.Cmds))
	for i, c := range blk.Cmds {
		cc := append([][]byte(nil), c...)
		if i == 0 && len(cc) >= 3 {
			var m checkpoint.BisyncMarker
			if json.Unmarshal(cc[2], &m) != nil || m.UnitSeq != seq || m.Slot != unit.Slot || m.Digest != unit.Digest {
				s.Violate("marker-value-malformed", "marker does not decode to the unit it was written for", replay)
			}
			cc[2] = []byte("mv")
		}
		if kind != "r" && i == len(unit.Commands)+1 && len(cc) >= 2 && strings.EqualFold(string(cc[0]), "hset") {
			cc = cc[:2] // record fields are payload (the commit-shape ops compare them)
		}
		canon[i] = cc
	}
	// model side is given the record fields as "." and prints key only; so print ours the same way
	s.Op(fmt.Sprintf("c18 replay %s %s %d 6d76 . %d 0 %s %s", kind, vfutil.HexS(w.cp), seq, w.n, fb, toks),
		fmt.Sprintf("sent node=%d slot=%d %s", blk.Node, unit.Slot, vfc18BlockToks(canon)))

	// ---- monitor on what the node received: one slot for every key
	if blk.Node != w.ownerIdx(int(unit.Slot)) {
		s.Violate("unit-sent-to-wrong-node", fmt.Sprintf("node %d, owner %d", blk.Node, w.ownerIdx(int(unit.Slot))), replay)
	}
	nCtl := 2
	if kind == "j" {
		nCtl = 3
	} else if kind == "r" {
		nCtl = 1
	}
	if len(blk.Cmds) != len(cmds)+nCtl {
		s.Violate("tie-shape:unit-block-shape", fmt.Sprintf("block has %d commands, want %d", len(blk.Cmds), len(cmds)+nCtl), replay)
		return
	}
	checkKey := func(k []byte, what string) {
		if hs := vfc18HashSlot(k); hs != int(unit.Slot) {
			s.Violate("block-key-off-slot", fmt.Sprintf("%s key %q hashes to %d, unit slot %d", what, k, hs, unit.Slot), replay)
		}
	}
	checkKey(blk.Cmds[0][1], "marker")
	if !checkpoint.IsBisyncMarkerKey(string(blk.Cmds[0][1])) || !strings.EqualFold(string(blk.Cmds[0][0]), "set") {
		s.Violate("unit-block-shape", "first command is not the marker SET", replay)
	}
	for i := range cmds {
		got := blk.Cmds[1+i]
		if truth.Judgeable && cmds[i].Known {
			for _, ki := range cmds[i].Truth {
				checkKey(got[1+ki], "business")
			}
		}
	}
	for i := 1 + len(cmds); i < len(blk.Cmds); i++ {
		checkKey(blk.Cmds[i][1], "record/index")
	}
}

func vfc18OkEmpty(cmd string, args [][]byte) ([]string, bool, error) {
	if keys, ok, _ := defaultBisyncCommandKeyResolver(cmd, args); ok {
		return keys, true, nil
	}
	return nil, true, nil
}

// replayFile re-runs the one case a replay file (replays/C18-*.json) describes.
func (w *vfc18World) replayFile(t *testing.T, r *vfutil.Rand, path string) bool {
	s := w.s
	raw, err := os.ReadFile(path)
	if err != nil {
		t.Fatalf("replay file: %v", err)
	}
	var doc struct {
		What   string                 `json:"what"`
		Replay map[string]interface{} `json:"replay"`
	}
	if err := json.Unmarshal(raw, &doc); err != nil {
		t.Fatalf("replay file: %v", err)
	}
	m := doc.Replay
	str := func(k string) string {
		if v, ok := m[k]; ok {
			return fmt.Sprint(v)
		}
		return ""
	}
	flag := func(k string) bool { v, _ := m[k].(bool); return v }
	num := func(k string) int { v, _ := m[k].(float64); return int(v) }
	switch {
	case str("parse_txns") != "":
		var txns []vfc18LoopTxn
		for _, part := range strings.Split(str("parse_txns"), " | ") {
			cmds := vfc18ParseRToks(strings.Fields(part))
			tb := vfc18TruthOf(cmds, str("fb"))
			txns = append(txns, vfc18LoopTxn{cmds: cmds, accept: tb.Determined && tb.OneSlot, builderOK: tb.Determined && tb.OneSlot})
		}
		var wrap []bool
		for _, x := range strings.Split(str("parse_wrap"), ",") {
			wrap = append(wrap, x == "1")
		}
		st, _ := strconv.ParseInt(str("parse_start"), 10, 64)
		sq, _ := strconv.ParseInt(str("parse_seq0"), 10, 64)
		w.parseRun(str("fb"), txns, wrap, st, sq)
		s.Count("replayed_parse_case")
		return true
	case m["f1"] != nil:
		for _, c := range vfc18ParseRToks(strings.Fields(str("rcmds"))) {
			w.findingOne(r, c, str("form"))
		}
		s.Count("replayed_f1_case")
		return true
	case str("resolver_seq") != "":
		var seq [][]vfc18Cmd
		for _, part := range strings.Split(str("resolver_seq"), " | ") {
			seq = append(seq, vfc18ParseRToks(strings.Fields(part)))
		}
		w.resolverSeqRun(str("fb"), seq)
		s.Count("replayed_resolver_seq")
		return true
	case str("nodes_fbs") != "":
		cmds := vfc18ParseRToks(strings.Fields(str("rcmds")))
		for i := 0; i < 6; i++ { // the commit kind is drawn
			w.nodesReal = m["nodes_real"] != nil
			w.nodesRun(r, cmds, strings.Split(str("nodes_fbs"), ","), vfc18ParseInts(str("nodes_order")), vfc18ParseInts(str("nodes_picks")))
			w.nodesReal = false
		}
		s.Count("replayed_nodes_case")
		return true
	case str("txns") != "":
		var txns []vfc18LoopTxn
		for _, part := range strings.Split(str("txns"), " | ") {
			cmds := vfc18ParseRToks(strings.Fields(part))
			tb, tc := vfc18TruthOf(cmds, str("fb_builder")), vfc18TruthOf(cmds, str("fb_client"))
			txns = append(txns, vfc18LoopTxn{cmds: cmds, accept: tb.Determined && tb.OneSlot && tc.Determined && tc.OneSlot, builderOK: tb.Determined && tb.OneSlot})
		}
		for i := 0; i < 3; i++ { // timing may matter: a few times
			w.loopCase(r, config.ReplayMode(str("mode")), str("fb_builder"), str("fb_client"), str("inject"), txns)
		}
		s.Count("replayed_loop_case")
	case m["rdb"] != nil:
		w.rdbCase(vfc18RdbCase{Replace: flag("replaceHashTag"), Restore: flag("restore"), FirstBin: flag("firstBin"), Splited: flag("splited"),
			CanRestore: flag("canRestore"), Expire: flag("expire"), KeyExists: str("keyExists"), Key: vfutil.UnHex(str("key")), Kind: num("kind"), N: num("n")}, 0)
		s.Count("replayed_rdb_case")
	case m["realrdb"] != nil:
		sub, _ := strconv.ParseUint(str("realrdb"), 10, 64)
		w.realRdbCase(sub, 0)
		s.Count("replayed_real_rdb_case")
	case m["shards"] != nil:
		w.globalCases(r, 20) // the case is the slot layout, drawn again: the lane has no other input
		s.Count("replayed_global_cases")
	case str("rcmds") != "" || str("cmds") != "":
		toks := str("rcmds")
		if toks == "" {
			toks = str("cmds")
		}
		cmds := vfc18ParseRToks(strings.Fields(toks))
		switch {
		case m["okempty"] != nil:
			_, berr := buildBisyncReplayUnitWithMode(1, 0, 1, false, vfc18OkEmpty, vfc18AofCmds(cmds), bisyncSlotMode{})
			if tr := vfc18TruthOf(cmds, "none"); berr == nil && tr.Judgeable && !(tr.Determined && tr.OneSlot) {
				s.Violate("unit-accepted-undetermined", "builder accepted (replayed case)", m)
			}
		case m["txn_only"] != nil:
			for i := 0; i < 24; i++ { // slot-map holes are drawn per call
				w.txnOne(r, cmds, str("fb"), errVfc18NoVerdict, m)
			}
		default:
			fb := str("fb")
			if fb == "" {
				fb = "none"
			}
			for i := 0; i < 24; i++ { // commit kind and slot-map holes are drawn per call
				w.replayOne(r, cmds, fb, "replay")
			}
		}
		s.Count("replayed_cmds_case")
	default:
		s.Count("replay_file_not_rerunnable")
		t.Logf("replay file %s (%s) describes a table/wiring check that every run repeats; running the whole suite", path, doc.What)
		return false
	}
	return true
}

func TestVerifC18(t *testing.T) {
	s := vfutil.NewSession("C18")
	defer s.Close()
	r := vfutil.NewRand(vfutil.Seed())

	// ---- the whole tag table, and every control key constructor on it
	cpNames := []string{"redis-gunyu-checkpoint-bisync:0123456789abcdef01234567", "redis-gunyu-checkpoint-bisync:ffffffffffffffffffffffff"}
	for slot := 0; slot < 16384; slot++ {
		tag := checkpoint.BisyncSlotTag(uint16(slot))
		s.Op(fmt.Sprintf("c18 tag %d", slot), vfutil.HexS(tag))
		if vfc18HashSlot([]byte("{"+tag+"}")) != slot {
			s.Violate("slot-tag-misses-slot", fmt.Sprintf("tag %q for slot %d hashes to %d", tag, slot, vfc18HashSlot([]byte("{"+tag+"}"))), map[string]interface{}{"slot": slot})
		}
		cp := cpNames[slot%2]
		for _, k := range []string{
			checkpoint.BisyncMarkerKey(cp, tag), checkpoint.BisyncLatestCheckpointKey(cp, tag),
			checkpoint.BisyncCommitIndexKey(cp, tag), checkpoint.BisyncCommitRecordKey(cp, tag, int64(slot)+1),
			checkpoint.BisyncRdbRecordKey(cp, tag, int64(slot)+1),
		} {
			if vfc18HashSlot([]byte(k)) != slot {
				s.Violate("control-key-off-slot", fmt.Sprintf("%q hashes to %d, want %d", k, vfc18HashSlot([]byte(k)), slot), map[string]interface{}{"slot": slot, "key": k})
			}
		}
	}
	// checkpoint names the tool generates are brace-free (assumption of unit_single_slot)
	for i := 0; i < 200; i++ {
		n, err := checkpoint.NewBisyncCheckpointName()
		if err != nil || strings.ContainsAny(n, "{}") || !strings.HasPrefix(n, config.CheckpointKey) {
			s.Violate("checkpoint-name-shape", fmt.Sprintf("generated checkpoint name %q (err %v)", n, err), map[string]interface{}{"name": n})
		}
	}
	// slot mode wiring
	{
		roC := NewRedisOutput(RedisOutputConfig{InputName: "i", Redis: config.RedisConfig{Type: config.RedisTypeCluster}})
		roS := NewRedisOutput(RedisOutputConfig{InputName: "i", Redis: config.RedisConfig{Type: config.RedisTypeStandalone}})
		mc, ms := roC.bisyncSlotMode(), roS.bisyncSlotMode()
		if mc.forceSlot != nil || mc.allowCrossSlot || ms.forceSlot == nil || *ms.forceSlot != 0 || !ms.allowCrossSlot {
			s.Violate("slot-mode-wiring", "bisyncSlotMode() differs from {cluster: strict, standalone: slot 0 / cross-slot allowed}", map[string]interface{}{})
		}
	}

	nodes, err := vfc18StartNodes(3)
	if err != nil {
		t.Fatal(err)
	}
	defer nodes.close()
	cp := cpNames[0]
	w := &vfc18World{s: s, nodes: nodes, n: 3, cp: cp,
		ro: NewRedisOutput(RedisOutputConfig{InputName: "in-1", CheckpointName: cp, BisyncEnabled: true,
			Redis: config.RedisConfig{Type: config.RedisTypeCluster}, BatchCmdCount: 8})}
	defer func() {
		for _, c := range w.clusters {
			c.Close()
		}
	}()

	if rp := os.Getenv("VERIF_REPLAY"); rp != "" {
		if w.replayFile(t, r, rp) {
			return
		}
	}

	// ---- commit shapes (dispatch order) with a recording batcher, all three kinds
	for i := 0; i < vfutil.Scale(300, 3000); i++ {
		cmds := vfc18GenTxn(r)
		unit := &bisyncReplayUnit{Seq: int64(r.Range(1, 1<<20)), StartOffset: 5, EndOffset: 9, Slot: uint16(r.Intn(16384)),
			Digest: "00000000deadbeef", Commands: vfc18AofCmds(cmds)}
		unit.SlotTag = checkpoint.BisyncSlotTag(unit.Slot)
		kind := vfutil.Pick(r, []string{"l", "j", "r"})
		rec := &vfc18RecRedis{}
		var derr error
		if kind == "r" {
			derr = w.ro.execBisyncRdbUnit(rec, "runid-1", unit)
		} else {
			_, _, _, derr = w.ro.dispatchBisyncUnit(rec, "runid-1", unit, kind == "l")
		}
		if derr != nil || len(rec.b.puts) == 0 {
			s.Violate("commit-failed-on-recording-batcher", fmt.Sprint(derr), map[string]interface{}{"cmds": vfc18Toks(cmds)})
			continue
		}
		puts := rec.b.puts
		nCtlPuts := map[string]int{"l": 2, "j": 3, "r": 1}[kind]
		if len(puts[0]) < 3 || !strings.EqualFold(string(puts[0][0]), "set") || !checkpoint.IsBisyncMarkerKey(string(puts[0][1])) || len(puts) != len(cmds)+nCtlPuts {
			q := make([]string, len(puts[0]))
			for k2, a := range puts[0] {
				q[k2] = vfutil.Hex(a)
			}
			s.Violate("unit-block-shape", fmt.Sprintf("the commit of a unit of %d commands queued %d commands, the first of them %s: not the marker SET, the business commands and the records",
				len(cmds), len(puts), strings.Join(q, ",")), map[string]interface{}{"cmds": vfc18Toks(cmds), "rcmds": vfc18RToks(cmds), "fb": "none", "kind": kind})
			continue
		}
		mv := puts[0][2]
		var fields [][]byte
		if kind != "r" {
			fields = puts[len(cmds)+1][2:]
		}
		toks := make([]string, len(puts))
		for j, p := range puts {
			q := make([]string, len(p))
			for k2, a := range p {
				q[k2] = vfutil.Hex(a)
			}
			toks[j] = strings.Join(q, ",")
		}
		s.Op(fmt.Sprintf("c18 commit %s %s %d %d %s %s %s", kind, vfutil.HexS(cp), unit.Slot, unit.Seq, vfutil.Hex(mv),
			vfutil.HexList(fields), vfc18Toks(cmds)), strings.Join(toks, " "))
		s.Count("commitshape_" + kind)
	}

	// ---- builder branches the tool's own resolver cannot reach: a custom
	// resolver answering ok with no keys, and the empty command list
	okEmpty := vfc18OkEmpty
	for i := 0; i < vfutil.Scale(600, 6000); i++ {
		cmds := vfc18GenTxn(r)
		if i%3 == 0 && len(cmds) >= 1 {
			// a command outside the tables behind / between single-slot ones (its argument on the same tag: only "no keys" can refuse it)
			k0 := []byte("k{a}")
			for _, c := range cmds {
				if c.Known && len(c.Truth) > 0 {
					k0 = c.Args[c.Truth[0]]
				}
			}
			u := vfc18Cmd{Name: "custom.write", Args: [][]byte{k0}, Class: "unknown"}
			pos := r.Intn(len(cmds) + 1)
			cmds = append(cmds[:pos:pos], append([]vfc18Cmd{u}, cmds[pos:]...)...)
		}
		_, berr := buildBisyncReplayUnitWithMode(1, 0, 1, false, okEmpty, vfc18AofCmds(cmds), bisyncSlotMode{})
		res := vfc18BuildErr(berr)
		if berr == nil {
			res = "ok"
		}
		s.Count("okempty_" + res)
		// a command for which the resolver names no key is undetermined, wherever it stands in the transaction
		// (the tool's own resolver never answers "ok, no keys"; a custom one may)
		if tr := vfc18TruthOf(cmds, "none"); berr == nil && tr.Judgeable && !(tr.Determined && tr.OneSlot) {
			s.Violate("unit-accepted-undetermined", fmt.Sprintf("with a resolver that answers 'no keys' for commands outside the tables, the builder accepted a transaction with such a command or with keys on several slots (determined=%v oneSlot=%v)", tr.Determined, tr.OneSlot),
				map[string]interface{}{"cmds": vfc18Toks(cmds), "rcmds": vfc18RToks(cmds), "okempty": 1})
		}
		if berr == nil {
			u, _ := buildBisyncReplayUnitWithMode(1, 0, 1, false, okEmpty, vfc18AofCmds(cmds), bisyncSlotMode{})
			s.Op("c18 build c okempty "+vfc18Toks(cmds), fmt.Sprintf("ok slot=%d tag=%s n=%d", u.Slot, vfutil.HexS(u.SlotTag), len(u.Commands)))
		} else {
			s.Op("c18 build c okempty "+vfc18Toks(cmds), "err "+res)
		}
	}
	if _, berr := buildBisyncReplayUnitWithMode(1, 0, 1, false, nil, nil, bisyncSlotMode{}); true {
		s.Op("c18 build c none", "err "+vfc18BuildErr(berr))
	}

	// ---- the real parser + send loops into the node doubles; snapshot phase; global lane
	w.loopCases(r, vfutil.Scale(60, 1500))
	w.rdbCases(r, vfutil.Scale(300, 6000))
	w.realRdbCases(r, vfutil.Scale(300, 5000))
	w.globalCases(r, vfutil.Scale(10, 100))
	// ---- nodes that answer COMMAND GETKEYS differently / with errors; the cluster's transaction flag
	w.nodesCases(r, vfutil.Scale(500, 20000))
	w.flagCases(r, vfutil.Scale(200, 5000))
	// ---- session 5: sequences through ONE resolver instance (key positions that depend on the arguments' content)
	w.resolverSeqCases(r, vfutil.Scale(300, 6000))
	w.layoutLoopCases(r, vfutil.Scale(12, 300))
	w.findingCases(r, vfutil.Scale(60, 600)) // known finding C18-F1 (kept apart from the general generator)
	w.parseCases(r, vfutil.Scale(600, 20000)) // C18's own tie of the parser model (cluster mode)
	w.dimensionCases(r) // degenerate-but-legal inputs, forced (vf_c18_dim_test.go)
	w.unlistedCases(r, vfutil.Scale(400, 8000)) // movablekeys commands without a row in the tool's tables: resolved by the target or refused

	// ---- corpus, then generated transactions
	for _, l := range vfutil.Corpus("C18") {
		// corpus line: <fb> <cmd> <cmd>…  (Known/Truth unknown: correspondence + end-to-end monitors only)
		f := strings.Fields(l)
		if len(f) < 2 {
			continue
		}
		cmds := vfc18ParseRToks(f[1:])
		w.replayOne(r, cmds, f[0], "corpus")
	}
	fbs := []string{"none", "none", "none", "err", "first", "all", "empty"}
	for i := 0; i < vfutil.Scale(4000, 120000); i++ {
		w.replayOne(r, vfc18GenTxn(r), vfutil.Pick(r, fbs), "gen")
	}
	// the command names chooseNodeWithCmdAndKeys treats specially, batcher only
	special := []string{"ping", "PING", "cluster", "info", "select", "SELECT", "mget", "mset", "MSETNX", "msetnx"}
	for i := 0; i < vfutil.Scale(600, 10000); i++ {
		cmds := vfc18GenTxn(r)
		pos := r.Intn(len(cmds) + 1)
		sp := vfc18Cmd{Name: vfutil.Pick(r, special), Class: "corpus"}
		for j, na := 0, r.Intn(5); j < na; j++ {
			sp.Args = append(sp.Args, vfc18Key(r, []byte("a")))
		}
		cmds = append(cmds[:pos:pos], append([]vfc18Cmd{sp}, cmds[pos:]...)...)
		sfb := vfutil.Pick(r, fbs)
		w.txnOne(r, cmds, sfb, errVfc18NoVerdict, map[string]interface{}{"cmds": vfc18Toks(cmds), "rcmds": vfc18RToks(cmds), "fb": sfb, "txn_only": 1})
		s.Count("txn_special_" + strings.ToLower(sp.Name))
	}
	// filter-reduced transactions: the real key filter projects DEL/UNLINK/MSET
	// and drops whole commands; what is left goes to the builder
	fro := NewRedisOutput(RedisOutputConfig{InputName: "in-1", CheckpointName: cp, BisyncEnabled: true,
		Redis:  config.RedisConfig{Type: config.RedisTypeCluster},
		Filter: config.FilterConfig{KeyFilter: &config.FilterKeyConfig{PrefixKeyBlacklist: []string{"q", "{t}"}}}})
	for i := 0; i < vfutil.Scale(1500, 40000); i++ {
		cmds := vfc18GenTxn(r)
		var reduced []vfc18Cmd
		for _, c := range cmds {
			na, reject := fro.outFilter.FilterCmdKey(strings.ToLower(c.Name), c.Args)
			if reject {
				s.Count("filter_dropped_cmd")
				continue
			}
			rc := vfc18Cmd{Name: c.Name, Args: na, Known: c.Known, Truth: c.Truth, Class: c.Class}
			if len(na) != len(c.Args) {
				s.Count("filter_projected_cmd")
				switch strings.ToLower(c.Name) {
				case "del", "unlink":
					rc.Truth = vfc18Seq(0, len(na))
				case "mset":
					rc.Truth = nil
					for j := 0; j < len(na); j += 2 {
						rc.Truth = append(rc.Truth, j)
					}
				default:
					rc.Known, rc.Truth, rc.Class = false, []int{}, "corpus"
				}
			}
			reduced = append(reduced, rc)
		}
		if len(reduced) == 0 {
			continue
		}
		w.replayOne(r, reduced, "none", "filtered")
	}
}

// vfc18RecRedis records what is put into the transaction batcher.
type vfc18RecBatcher struct{ puts [][][]byte }

func (b *vfc18RecBatcher) Put(cmd string, args ...interface{}) error {
	p := [][]byte{[]byte(cmd)}
	for _, a := range args {
		switch x := a.(type) {
		case []byte:
			p = append(p, append([]byte(nil), x...))
		case string:
			p = append(p, []byte(x))
		default:
			p = append(p, []byte(fmt.Sprint(x)))
		}
	}
	b.puts = append(b.puts, p)
	return nil
}
func (b *vfc18RecBatcher) Len() int        { return len(b.puts) }
func (b *vfc18RecBatcher) Dispatch() error { return nil }
func (b *vfc18RecBatcher) Receive() ([]interface{}, error) {
	replies := []interface{}{"OK"}
	inner := make([]interface{}, len(b.puts))
	for i := range b.puts {
		replies = append(replies, "QUEUED")
		inner[i] = "OK"
	}
	return append(replies, inner), nil
}
func (b *vfc18RecBatcher) Exec() ([]interface{}, error) { return b.Receive() }

type vfc18RecRedis struct {
	vfc18Redis
	b *vfc18RecBatcher
}

func (r *vfc18RecRedis) NewTxnBatcher() rediscommon.CmdBatcher {
	r.b = &vfc18RecBatcher{}
	return r.b
}
