//go:build verif

package syncer

// C05 — the observation point of the property, driven through the real
// wrappers: Channel.NewAofWritter/NewRdbWriter + Start (real ingest loops),
// Channel.NewReader + ChannelReader.Start (real pump / copy loop, real pipe,
// bufio) + IoReader(), ChannelReader.Close / the syncer's WaitCloser, and the
// run-id wrappers IsValidOffset / GetOffsetRange / GetRdb / StartPoint — for the
// disk backend (StoreChannel over the real Storer) and the memory backend alike.
// Monitor only (the goroutines run in real time; which segment a pump holds at a
// given instant is not a function of the op sequence, so nothing is compared
// with the Lean model here):
//   * every byte delivered at offset x is the byte appended at x / of the snapshot,
//   * a reader is never more than a deadline behind the writer while bytes are held,
//   * answers for a foreign run id are negative, "?" is valid exactly on an empty cache,
//   * StartPoint(ids) at a reconnect leaves open readers working,
//   * closing a reader (its own Close, or the syncer's WaitCloser) releases every
//     segment reference (disk: rwRef back to the writer's own),
//   * large data: segments of 12-40 KiB, snapshots > 3 x 8 KiB, > 1 MiB through one
//     reader's pipe with a lagging consumer (the ring buffer wraps),
//   * a concurrent phase: writer, two followers, an opener/closer and the collector
//     run as real goroutines; GetReader may only refuse with os.ErrNotExist itself
//     (never with a path error for a segment that was collected under its hands).

import (
	"bytes"
	"context"
	"errors"
	"fmt"
	"io"
	"net"
	"os"
	"path/filepath"
	"runtime"
	"sync"
	"sync/atomic"
	"testing"
	"time"

	"github.com/mgtv-tech/redis-GunYu/config"
	"github.com/mgtv-tech/redis-GunYu/pkg/log"
	"github.com/mgtv-tech/redis-GunYu/pkg/redis"
	usync "github.com/mgtv-tech/redis-GunYu/pkg/sync"
	"github.com/mgtv-tech/redis-GunYu/pkg/vfutil"
)

func c05cByte(salt uint64, off int64) byte {
	x := salt*0x9E3779B97F4A7C15 + uint64(off)
	x ^= x >> 33
	x *= 0xff51afd7ed558ccd
	x ^= x >> 29
	return byte(x)
}

func c05cSeg(salt uint64, from int64, n int) []byte {
	b := make([]byte, n)
	for i := range b {
		b[i] = c05cByte(salt, from+int64(i))
	}
	return b
}

// c05cFeed feeds a writer's ingest loop: Push blocks until the bytes were taken.
type c05cFeed struct {
	mu     sync.Mutex
	cond   *sync.Cond
	buf    []byte
	closed bool
}

func newC05cFeed() *c05cFeed { f := &c05cFeed{}; f.cond = sync.NewCond(&f.mu); return f }

func (f *c05cFeed) Read(p []byte) (int, error) {
	f.mu.Lock()
	defer f.mu.Unlock()
	for len(f.buf) == 0 && !f.closed {
		f.cond.Wait()
	}
	if len(f.buf) == 0 {
		return 0, io.EOF
	}
	n := copy(p, f.buf)
	f.buf = f.buf[n:]
	f.cond.Broadcast()
	return n, nil
}

func (f *c05cFeed) Push(b []byte) {
	f.mu.Lock()
	f.buf = append(f.buf, b...)
	f.cond.Broadcast()
	f.mu.Unlock()
}

func (f *c05cFeed) Close() error {
	f.mu.Lock()
	f.closed = true
	f.cond.Broadcast()
	f.mu.Unlock()
	return nil
}

var c05cOpIdx int // index of the next line sent to the model (the driver numbers its answers)

type c05chan struct {
	s     *vfutil.Session
	r     *vfutil.Rand
	bk    string
	ch    Channel
	salt  uint64
	id    string
	trace []string
	followNo int
	hangs int // hangs reported: each costs its full budget, a few are enough
	budgets []*vfutil.Budget
}

// budget: a deadline in reference polls, not in wall-clock time (vfutil.StartBudget);
// the budgets of a scenario are stopped when the next one starts
func (c *c05chan) budget(d time.Duration) *vfutil.Budget {
	b := vfutil.StartBudget(d)
	c.budgets = append(c.budgets, b)
	return b
}

func (c *c05chan) after(d time.Duration) <-chan struct{} { return c.budget(d).Done() }

func (c *c05chan) stopBudgets() {
	for _, b := range c.budgets {
		if b.Hard() {
			vfutil.Infra("hard wall-clock limit of a budget expired")
		}
		b.Stop()
	}
	c.budgets = nil
}

func (c *c05chan) note(format string, a ...interface{}) {
	c.trace = append(c.trace, fmt.Sprintf(format, a...))
	if len(c.trace) > 60 {
		c.trace = c.trace[len(c.trace)-60:]
	}
}

func (c *c05chan) replay() map[string]interface{} {
	return map[string]interface{}{"backend": c.bk, "steps": fmt.Sprint(c.trace)}
}

func c05cNew(bk, dir string, logSize, maxSize int64) Channel {
	if config.GetSyncerConfig().Channel == nil {
		config.GetSyncerConfig().Channel = &config.ChannelConfig{}
	}
	// channel.verifyCrc is PROCESS-GLOBAL configuration read by StoreChannel.NewReader at every open:
	// off unless the scenario turns it on after this call (scenarios whose snapshots carry no RDB footer keep it off)
	config.GetSyncerConfig().Channel.VerifyCrc = false
	if bk == "disk" {
		ch := NewStoreChannel(StorerConf{InputId: "vf", Dir: dir, MaxSize: maxSize, LogSize: logSize}).(*StoreChannel)
		ch.storer.VerifStopCollector()
		return ch
	}
	return NewMemoryChannel(MemoryConf{InputId: "vf", MaxSize: maxSize, LogSize: logSize})
}

// waitRight waits until the channel reports `right` as the end of the range.
func (c *c05chan) waitRight(right int64) bool {
	b := vfutil.StartBudget(20 * time.Second)
	defer b.Stop()
	for !b.Expired() {
		if _, r := c.ch.GetOffsetRange(c.id); r == right {
			return true
		}
		time.Sleep(200 * time.Microsecond)
	}
	_, r := c.ch.GetOffsetRange(c.id)
	return r == right
}

// readExactly reads n bytes from rd within the deadline; returns what it got.
func c05cRead(rd ChannelReader, n int, deadline time.Duration) ([]byte, error, bool) {
	type res struct {
		b   []byte
		err error
	}
	done := make(chan res, 1)
	go func() {
		defer func() { // a panic inside the pipe is a failure of the read, with a replay
			if r := recover(); r != nil {
				done <- res{nil, fmt.Errorf("panic in the reader: %v", r)}
			}
		}()
		b := make([]byte, n)
		k, err := io.ReadFull(rd.IoReader(), b)
		done <- res{b[:k], err}
	}()
	b := vfutil.StartBudget(deadline)
	defer b.Stop()
	select {
	case x := <-done:
		return x.b, x.err, true
	case <-b.Done():
		select {
		case x := <-done:
			return x.b, x.err, true
		default:
		}
		if b.Hard() {
			vfutil.Infra("hard wall-clock limit expired in a read")
		}
		return nil, nil, false
	}
}

func (c *c05chan) checkBytes(what string, from int64, got []byte) {
	for i, b := range got {
		if b != c05cByte(c.salt, from+int64(i)) {
			c.s.Violate("wrong-bytes", fmt.Sprintf("%s: offset %d delivered as %02x, appended there: %02x", what, from+int64(i), b, c05cByte(c.salt, from+int64(i))), c.replay())
			return
		}
	}
	c.s.Add("mon_bytes_checked", len(got))
}

func (c *c05chan) refsHeld() int32 {
	sc, ok := c.ch.(*StoreChannel)
	if !ok {
		mc := c.ch.(*MemoryChannel)
		mc.mux.RLock()
		defer mc.mux.RUnlock()
		var n int32
		for _, s := range mc.aofSegs {
			n += s.readers.Load()
		}
		if mc.rdb != nil {
			for _, s := range mc.rdb.segments {
				n += s.readers.Load()
			}
		}
		return n
	}
	var n int32
	for _, v := range sc.storer.VerifRefs() {
		n += v
	}
	return n
}

// waitRefs waits until the total of references equals want.
func (c *c05chan) waitRefs(want int32) (int32, bool) {
	b := vfutil.StartBudget(10 * time.Second)
	defer b.Stop()
	var got int32
	for !b.Expired() {
		if got = c.refsHeld(); got == want {
			return got, true
		}
		time.Sleep(time.Millisecond)
	}
	return got, false
}

// ------------------------------------------------------------------ scenario 1: wrappers, followers, reconnect, leak check

func (c *c05chan) scenarioFollow(dir string, logSize int64, chunkMax int, total int) {
	r := c.r
	c.trace = nil
	c.stopBudgets()
	c.salt = r.U64() % 100000
	c.id = fmt.Sprintf("run%d", r.Intn(1000))
	c.ch = c05cNew(c.bk, dir, logSize, 0)
	defer c.ch.Close()
	ch := c.ch
	c.note("new %s logSize=%d", c.bk, logSize)

	// an empty cache: "?" is valid, nothing else
	// (what the wrappers answer for "?" is not part of C05's statement: noted only)
	if !ch.IsValidOffset(Offset{RunId: "?", Offset: 7}) {
		c.s.Count("note_wrapper_initial_offset")
	}
	ch.SetRunId(c.id)
	start := int64(100 + r.Intn(900))
	// snapshot first (some cases); one source connection feeds both writers
	withSnap := r.Chance(1, 2)
	// dimension audit: the non-default option channel.verifyCrc on the real-goroutine path (stream-only cases:
	// the generated snapshots carry no RDB checksum footer)
	verify := !withSnap && r.Chance(1, 2)
	c.followNo++
	if c.followNo%3 == 1 { // forced, not left to chance: at least every third case is a verifying stream-only case
		withSnap, verify = false, true
	}
	config.GetSyncerConfig().Channel.VerifyCrc = verify
	c.s.Count(fmt.Sprintf("cfg_verifyCrc_%v_follow_%s", verify, c.bk))
	c.note("verifyCrc=%v", verify)
	feed := newC05cFeed()
	preStream := 0
	var snap []byte
	if withSnap {
		size := 1 + r.Intn(3*chunkMax)
		snap = r.Bytes(size)
		w, err := ch.NewRdbWriter(feed, start, int64(size))
		if err != nil {
			c.s.Violate("harness", err.Error(), c.replay())
			return
		}
		c.note("rdbw %d %d", start, size)
		// a reader that follows the snapshot WHILE it is written
		rd, rerr := ch.NewReader(Offset{RunId: c.id, Offset: start - 1})
		wait := usync.NewWaitCloser(nil)
		if rerr == nil {
			rd.Start(wait)
		}
		w.Start()
		// like the source does: the stream follows the snapshot on the same
		// connection, the first stream bytes arrive together with the last snapshot bytes
		preStream = 1 + r.Intn(chunkMax)
		for at := 0; at < size; {
			n := 1 + r.Intn(chunkMax)
			if at+n >= size {
				n = size - at
				feed.Push(append(append([]byte(nil), snap[at:at+n]...), c05cSeg(c.salt, start, preStream)...))
			} else {
				feed.Push(snap[at : at+n])
			}
			at += n
		}
		wdone := make(chan error, 1)
		go func() { wdone <- w.Wait(wait.Context()) }()
		select {
		case werr := <-wdone:
			if werr != nil {
				c.s.Violate("snapshot-writer-failed", werr.Error(), c.replay())
			}
		case <-c.after(5 * time.Second):
			c.s.Violate("snapshot-writer-stuck", fmt.Sprintf("all %d announced snapshot bytes (followed by %d stream bytes on the same connection) were fed, the writer does not finish", size, preStream), c.replay())
			wait.Close(nil)
			w.Close()
			feed.Close()
			return
		}
		w.Close()
		if rerr != nil {
			c.s.Violate("valid-not-readable", fmt.Sprintf("snapshot being written at %d: NewReader(%d) failed: %v", start, start-1, rerr), c.replay())
		} else {
			if rd.IsAof() || rd.Size() != int64(size) || rd.Left() != start {
				c.s.Violate("snapshot-reader-mismatch", fmt.Sprintf("reader for %d: aof=%v left=%d size=%d", start-1, rd.IsAof(), rd.Left(), rd.Size()), c.replay())
			} else {
				got, err, ok := c05cRead(rd, size, 5*time.Second)
				if !ok || err != nil || string(got) != string(snap) {
					c.s.Violate("snapshot-bytes", fmt.Sprintf("snapshot reader following the writer: finished=%v err=%v, %d of %d bytes, equal=%v", ok, err, len(got), size, string(got) == string(snap)), c.replay())
				}
				c.s.Add("mon_snapshot_bytes_checked", len(got))
			}
			rd.Close()
			wait.Close(nil)
		}
		// the statement is "offered only while all of its bytes are present": an offer
		// must be THE complete snapshot; not offering it is allowed (noted)
		if l, sz := ch.GetRdb(c.id); l == -1 && sz == -1 {
			c.s.Count("note_complete_snapshot_not_offered")
		} else if l != start || sz != int64(size) {
			c.s.Violate("snapshot-offer-wrong", fmt.Sprintf("GetRdb = (%d,%d), the only snapshot received is (%d,%d)", l, sz, start, size), c.replay())
		}
		if l, sz := ch.GetRdb("someone-else"); l != -1 || sz != -1 {
			c.s.Violate("foreign-id-answer", fmt.Sprintf("GetRdb(other id) = (%d,%d)", l, sz), c.replay())
		}
	}

	w, err := ch.NewAofWritter(feed, start)
	if err != nil {
		c.s.Violate("harness", err.Error(), c.replay())
		return
	}
	w.Start()
	c.note("aofw %d", start)
	right := start + int64(preStream)
	if preStream > 0 && !c.waitRight(right) {
		_, rr := ch.GetOffsetRange(c.id)
		c.s.Violate("writer-stuck", fmt.Sprintf("the %d stream bytes that followed the snapshot on the connection are not in the cache (range ends at %d, expected %d)", preStream, rr, right), c.replay())
		return
	}
	push := func(n int) {
		feed.Push(c05cSeg(c.salt, right, n))
		right += int64(n)
		if !c.waitRight(right) {
			_, rr := ch.GetOffsetRange(c.id)
			c.s.Violate("writer-stuck", fmt.Sprintf("appended up to %d, the channel reports %d", right, rr), c.replay())
		}
	}
	push(1 + r.Intn(chunkMax))

	type follower struct {
		rd   ChannelReader
		wait usync.WaitCloser
		pos  int64
	}
	open := func(off int64) *follower {
		rd, err := ch.NewReader(Offset{RunId: c.id, Offset: off})
		c.note("open %d", off)
		if err != nil {
			if ch.IsValidOffset(Offset{RunId: c.id, Offset: off}) {
				c.s.Violate("valid-not-readable", fmt.Sprintf("IsValidOffset(%d) but NewReader failed: %v", off, err), c.replay())
			}
			return nil
		}
		if !rd.IsAof() || rd.Left() != off || rd.RunId() != c.id {
			c.s.Violate("reader-mismatch", fmt.Sprintf("reader for %d: aof=%v left=%d id=%s", off, rd.IsAof(), rd.Left(), rd.RunId()), c.replay())
		}
		f := &follower{rd: rd, wait: usync.NewWaitCloser(nil), pos: off}
		rd.Start(f.wait)
		return f
	}
	catchUp := func(f *follower, what string) bool {
		n := int(right - f.pos)
		if n <= 0 {
			return true
		}
		got, err, ok := c05cRead(f.rd, n, 5*time.Second)
		if !ok || err != nil {
			c.s.Violate("reader-stalls-behind-writer", fmt.Sprintf("%s: reader at %d does not reach %d (finished=%v err=%v)", what, f.pos, right, ok, err), c.replay())
			return false
		}
		c.checkBytes(what, f.pos, got)
		f.pos += int64(len(got))
		return true
	}

	fs := []*follower{open(start), open(start + (right-start)/2), open(right)}
	for at := 0; at < total; {
		n := 1 + r.Intn(chunkMax)
		push(n)
		at += n
		// the wrappers, at a reconnect of the source: StartPoint must not disturb anything
		if r.Chance(1, 4) {
			sp, err := ch.StartPoint([]string{"", "?", c.id})
			c.note("startpoint at %d", right)
			// C05 states nothing about StartPoint's answer (C06 does); what matters here is
			// that the call leaves the open readers and the writer alone (followers below)
			if err != nil || sp.RunId != c.id || sp.Offset != right {
				c.s.Count("note_startpoint_answer")
			}
			// an unknown id: never answered with that id (memory: "?",-1; disk: the
			// current id with offset 0, which the callers test against the ids they asked for)
			if sp2, _ := ch.StartPoint([]string{"nobody"}); sp2.RunId == "nobody" {
				c.s.Count("note_startpoint_answer")
			}
		}
		if ch.IsValidOffset(Offset{RunId: "someone-else", Offset: right}) || ch.IsValidOffset(Offset{RunId: "", Offset: right}) && c.id != "" {
			c.s.Violate("foreign-id-valid", fmt.Sprintf("IsValidOffset(other id, %d) = true", right), c.replay())
		}
		// "?" (a consumer that has nothing) is valid exactly while no snapshot is offered
		if ch.IsValidOffset(Offset{RunId: "?", Offset: right}) != !withSnap {
			c.s.Count("note_wrapper_initial_offset")
		}
		if l, rr := ch.GetOffsetRange("someone-else"); l != -1 || rr != -1 {
			c.s.Violate("foreign-id-answer", fmt.Sprintf("GetOffsetRange(other id) = (%d,%d)", l, rr), c.replay())
		}
		if !ch.IsValidOffset(Offset{RunId: c.id, Offset: right}) || ch.IsValidOffset(Offset{RunId: c.id, Offset: right + 1}) {
			c.s.Violate("wrapper-range", fmt.Sprintf("validity at the right edge %d is wrong", right), c.replay())
		}
		if r.Chance(1, 3) {
			for i, f := range fs {
				if f != nil && !catchUp(f, fmt.Sprintf("follower %d", i)) {
					fs[i].rd.Close()
					fs[i].wait.Close(nil)
					fs[i] = nil
				}
			}
		}
	}
	for i, f := range fs {
		if f != nil {
			catchUp(f, fmt.Sprintf("follower %d (final)", i))
		}
	}
	// leak check: one follower closed by its own Close, the others by the syncer's WaitCloser
	writerRefs := int32(0)
	if c.bk == "disk" {
		writerRefs = 1
	}
	// (a reader closed by its consumer notices it when its pump next writes to the pipe)
	if fs[0] != nil {
		fs[0].rd.Close()
		push(1 + r.Intn(chunkMax))
	}
	for i, f := range fs {
		if f != nil && i != 0 {
			f.wait.Close(nil)
		}
	}
	c.note("followers closed")
	// collectability is not in C05's statement; the reference discipline is part of the
	// TIE (in the model only open readers and the writer hold references): compared
	// with the model's count, a difference is a correspondence failure
	got, _ := c.waitRefs(writerRefs)
	c.s.Op(fmt.Sprintf("c5refs %s 0 %d", c.bk, writerRefs), fmt.Sprintf("#%d refs %d", c05cOpIdx, got))
	c05cOpIdx++
	for i, f := range fs {
		if f != nil {
			f.rd.Close()
			f.wait.Close(nil)
			fs[i] = nil
		}
	}
	w.Close()
	feed.Close()
	c.s.Count("scenario_follow_" + c.bk)
}

// ------------------------------------------------------------------ scenario (session 5): the source FAILS, the input reconnects

// c05cErrFeed: a source connection that ends with a NON-EOF error (connection reset, i/o
// timeout - how a source connection usually ends), after everything pushed was taken
type c05cErrFeed struct{ *c05cFeed }

func (f c05cErrFeed) Read(p []byte) (int, error) {
	n, err := f.c05cFeed.Read(p)
	if err != nil {
		return n, errors.New("read tcp 10.0.0.1:6379: connection reset by peer")
	}
	return n, nil
}

// c05cZeroFeed: a source whose Read returns (0, nil) every other call - legal for an io.Reader
// (the ingest loops must neither append nor fail on it)
type c05cZeroFeed struct {
	src io.Reader
	n   *int
}

func (f c05cZeroFeed) Read(p []byte) (int, error) {
	*f.n++
	if *f.n%2 == 1 {
		return 0, nil
	}
	return f.src.Read(p)
}

// scenarioSourceError: the stream writer ends because its source fails; the input reconnects and
// a new writer continues at the same offset (what RedisInput.run does after every connection
// loss). A reader opened BELOW the boundary - before or after the replacement... here: after it,
// so nothing invalidates it - must deliver the bytes up to the new writer's end: "a reader opened
// at X delivers precisely the source bytes from X onward ... and keeps following the live writer".
func (c *c05chan) scenarioSourceError(dir string, first int, eof bool) {
	c.trace = nil
	c.stopBudgets()
	c.salt = c.r.U64() % 100000
	c.id = fmt.Sprintf("run%d", c.r.Intn(1000))
	c.ch = c05cNew(c.bk, dir, 64, 0)
	defer c.ch.Close()
	ch := c.ch
	c.note("new %s logSize=64", c.bk)
	ch.SetRunId(c.id)
	start := int64(100)
	f1 := newC05cFeed()
	var src io.Reader = c05cErrFeed{f1}
	if eof {
		src = f1
	}
	c.s.Count(fmt.Sprintf("cfg_source_ends_by_eof_%v_%s", eof, c.bk))
	verify := c.r.Chance(1, 2)
	config.GetSyncerConfig().Channel.VerifyCrc = verify
	c.s.Count(fmt.Sprintf("cfg_verifyCrc_%v_source_error_%s", verify, c.bk))
	zero := c.r.Chance(1, 2)
	var zn int
	if zero {
		src = c05cZeroFeed{src, &zn}
		c.s.Count("cfg_source_zero_length_reads_" + c.bk)
	}
	c.note("verifyCrc=%v zeroReads=%v", verify, zero)
	w1, err := ch.NewAofWritter(src, start)
	if err != nil {
		c.s.Violate("harness", err.Error(), c.replay())
		return
	}
	w1.Start()
	f1.Push(c05cSeg(c.salt, start, first))
	end := start + int64(first)
	if !c.waitRight(end) {
		c.s.Violate("writer-stalls", fmt.Sprintf("%d bytes pushed at %d are not stored", first, start), c.replay())
		return
	}
	f1.Close()
	c.note("aofw %d ; append %d ; the source fails (eof=%v)", start, first, eof)
	ctx, cancel := context.WithCancel(context.Background())
	bw := c.budget(20 * time.Second)
	go func() { <-bw.Done(); cancel() }()
	w1.Wait(ctx)
	cancel()
	f2 := newC05cFeed()
	w2, err := ch.NewAofWritter(f2, end)
	if err != nil {
		c.s.Violate("continuing-writer-refused", fmt.Sprintf("NewAofWritter(%d) after the source failed at %d: %v", end, end, err), c.replay())
		return
	}
	w2.Start()
	defer func() { w2.Close(); f2.Close() }()
	more := 1 + c.r.Intn(40)
	f2.Push(c05cSeg(c.salt, end, more))
	if !c.waitRight(end + int64(more)) {
		c.s.Violate("writer-stalls", fmt.Sprintf("%d bytes pushed at %d are not stored", more, end), c.replay())
		return
	}
	c.note("aofw %d (reconnect) ; append %d", end, more)
	from := start + int64(c.r.Intn(first))
	if !ch.IsValidOffset(Offset{RunId: c.id, Offset: from}) {
		c.s.Count("note_source_error_offset_invalid")
		return
	}
	rd, rerr := ch.NewReader(Offset{RunId: c.id, Offset: from})
	if rerr != nil {
		c.s.Violate("valid-but-unreadable", fmt.Sprintf("offset %d is valid but NewReader fails: %v", from, rerr), c.replay())
		return
	}
	wait := usync.NewWaitCloser(nil)
	rd.Start(wait)
	defer func() { rd.Close(); wait.Close(nil) }()
	want := int(end) + more - int(from)
	c.note("open %d ; read %d", from, want)
	got, gerr, returned := c05cRead(rd, want, 10*time.Second)
	c.checkBytes("reader across a failed source's boundary", from, got)
	switch {
	case !returned:
		c.s.Violate("reader-stalls", fmt.Sprintf("reader opened at %d after the writer was replaced (source failed at %d, new writer appended %d bytes) does not deliver", from, end, more), c.replay())
	case len(got) < want:
		c.s.Violate("reader-fails-without-invalidation", fmt.Sprintf("reader opened at %d AFTER the writer was replaced (the source failed at %d, the input reconnected, the new writer appended up to %d; "+
			"range %d..%d, offset valid) delivered %d of %d bytes and then failed with the DEAD writer's error %q: nothing invalidated this reader", from, end, end+int64(more), start, end+int64(more), len(got), want, fmt.Sprint(gerr)), c.replay())
	}
	c.s.Count("scenario_source_error_" + c.bk)
}

// ------------------------------------------------------------------ scenario 2: > 1 MiB through one pipe with a lagging consumer

func (c *c05chan) scenarioLarge(dir string) {
	r := c.r
	c.trace = nil
	c.stopBudgets()
	c.salt = r.U64() % 100000
	c.id = "big"
	logSize := int64(12*1024 + r.Intn(28*1024))
	if c.bk == "mem" && r.Bool() {
		logSize = 0 // no rotation at all
	}
	c.ch = c05cNew(c.bk, dir, logSize, 0)
	defer c.ch.Close()
	ch := c.ch
	ch.SetRunId(c.id)
	c.note("large %s logSize=%d", c.bk, logSize)
	start := int64(5000)
	feed := newC05cFeed()
	w, err := ch.NewAofWritter(feed, start)
	if err != nil {
		c.s.Violate("harness", err.Error(), c.replay())
		return
	}
	w.Start()
	rd, err := ch.NewReader(Offset{RunId: c.id, Offset: start})
	if err != nil {
		c.s.Violate("valid-not-readable", err.Error(), c.replay())
		return
	}
	wait := usync.NewWaitCloser(nil)
	rd.Start(wait)
	total := 2*1024*1024 + 600*1024 // more than pipe + buffered reader hold: the pipe's ring wraps
	right := start
	pos := start
	for int(right-start) < total {
		n := 3000 + r.Intn(30000)
		feed.Push(c05cSeg(c.salt, right, n))
		right += int64(n)
		if !c.waitRight(right) {
			c.s.Violate("writer-stuck", fmt.Sprintf("appended up to %d", right), c.replay())
			break
		}
		// a parsing consumer (ReadSlice/Peek): the buffered reader is topped up while it
		// still holds bytes, so the pipe is drained only partly and its ring wraps
		if br := rd.IoReader(); r.Bool() {
			need := br.Buffered() + 1 + r.Intn(3000)
			if int64(need) <= right-pos && need <= br.Size() {
				type pres struct {
					b   []byte
					err error
				}
				done := make(chan pres, 1)
				go func() {
					defer func() {
						if r := recover(); r != nil {
							done <- pres{nil, fmt.Errorf("panic in the reader: %v", r)}
						}
					}()
					b, err := br.Peek(need)
					done <- pres{append([]byte(nil), b...), err}
				}()
				select {
				case x := <-done:
					if x.err != nil {
						c.s.Violate("reader-failed", fmt.Sprintf("large: Peek(%d) at %d (writer at %d): %v", need, pos, right, x.err), c.replay())
					} else {
						c.checkBytes("large/peek", pos, x.b)
					}
				case <-c.after(5 * time.Second):
					c.s.Violate("reader-stalls-behind-writer", fmt.Sprintf("large: Peek(%d) at %d (writer at %d) does not return", need, pos, right), c.replay())
				}
			}
		}
		// the consumer lags (more than the pipe holds, in the end): it takes about a
		// sixth of what arrives, in odd pieces
		k := n / 6
		got, err, ok := c05cRead(rd, k, 5*time.Second)
		if !ok || err != nil {
			what := "reader-stalls-behind-writer"
			if err != nil {
				what = "reader-failed"
			}
			c.s.Violate(what, fmt.Sprintf("large: reader at %d (writer at %d) finished=%v err=%v", pos, right, ok, err), c.replay())
			break
		}
		c.checkBytes("large/lagging", pos, got)
		pos += int64(len(got))
	}
	if n := int(right - pos); n > 0 {
		got, err, ok := c05cRead(rd, n, 10*time.Second)
		if !ok || err != nil {
			what := "reader-stalls-behind-writer"
			if err != nil {
				what = "reader-failed"
			}
			c.s.Violate(what, fmt.Sprintf("large: final catch-up from %d to %d finished=%v err=%v", pos, right, ok, err), c.replay())
		} else {
			c.checkBytes("large/catch-up", pos, got)
		}
	}
	rd.Close()
	wait.Close(nil)
	w.Close()
	feed.Close()
	c.s.Count("scenario_large_" + c.bk)
}

// ------------------------------------------------------------------ scenario 4: invalidation seen by the CONSUMER

// c05cConsumer reads from IoReader() — the property's observation point — until the
// reader ends or fails.
type c05cConsumer struct {
	name string
	rd   ChannelReader
	wait usync.WaitCloser
	from int64
	size int // > 0: a snapshot reader
	mu   sync.Mutex
	got  []byte
	gate chan struct{} // a snapshot consumer pauses half way until the gate opens
	done chan error
}

func (k *c05cConsumer) n() int { k.mu.Lock(); defer k.mu.Unlock(); return len(k.got) }

func (k *c05cConsumer) run() {
	defer func() {
		if r := recover(); r != nil {
			k.done <- fmt.Errorf("panic in the reader: %v", r)
		}
	}()
	buf := make([]byte, 512)
	for {
		if k.size > 0 {
			if k.n() >= k.size {
				k.done <- nil
				return
			}
			if k.n() >= k.size/2 && k.gate != nil {
				<-k.gate
				k.gate = nil
			}
		}
		want := len(buf)
		if k.size > 0 && k.size-k.n() < want {
			want = k.size - k.n()
		}
		n, err := k.rd.IoReader().Read(buf[:want])
		k.mu.Lock()
		k.got = append(k.got, buf[:n]...)
		k.mu.Unlock()
		if err != nil {
			k.done <- err
			return
		}
	}
}

// scenarioInvalidate: started readers with consumers blocked on IoReader() (at the
// tail, behind it, in the middle of a snapshot); then the cache is reset (new
// snapshot, replication-id switch, delete) or the writer is replaced. Every
// consumer must END or FAIL (after a writer replacement: or keep following), and
// whatever it was given must be the bytes written at its offsets.
func (c *c05chan) scenarioInvalidate(dir string, kind int) {
	r := c.r
	c.trace = nil
	c.stopBudgets()
	c.salt = r.U64() % 100000
	c.id = "inv"
	logSize := int64(vfutil.Pick(r, []int{64, 256}))
	c.ch = c05cNew(c.bk, dir, logSize, 0)
	defer func() {
		if c.ch != nil {
			c.ch.Close()
		}
	}()
	ch := c.ch
	ch.SetRunId(c.id)
	kinds := []string{"writer replacement", "new snapshot", "replication-id switch", "delete"}
	c.note("invalidate %s by %s logSize=%d", c.bk, kinds[kind], logSize)
	start := int64(100 + r.Intn(900))
	feed := newC05cFeed()
	var snap []byte
	if r.Bool() {
		size := 400 + r.Intn(3000)
		snap = r.Bytes(size)
		w, err := ch.NewRdbWriter(feed, start, int64(size))
		if err != nil {
			return
		}
		w.Start()
		feed.Push(snap)
		wdone := make(chan error, 1)
		wctx := usync.NewWaitCloser(nil)
		go func() { wdone <- w.Wait(wctx.Context()) }()
		select {
		case <-wdone:
		case <-c.after(20 * time.Second):
			c.s.Count("note_snapshot_writer_slow")
			wctx.Close(nil)
			return
		}
		w.Close()
		c.note("snapshot %d %d", start, size)
	}
	w, err := ch.NewAofWritter(feed, start)
	if err != nil {
		return
	}
	w.Start()
	right := start
	push := func(n int) bool {
		feed.Push(c05cSeg(c.salt, right, n))
		right += int64(n)
		return c.waitRight(right)
	}
	for i := 0; i < 4; i++ {
		if !push(20 + r.Intn(int(logSize))) {
			c.s.Count("note_writer_slow")
			return
		}
	}
	var cons []*c05cConsumer
	open := func(name string, off int64, wantSnap bool) {
		rd, err := ch.NewReader(Offset{RunId: c.id, Offset: off})
		if err != nil {
			if ch.IsValidOffset(Offset{RunId: c.id, Offset: off}) {
				c.s.Violate("valid-not-readable", fmt.Sprintf("IsValidOffset(%d) but NewReader failed: %v", off, err), c.replay())
			}
			return
		}
		k := &c05cConsumer{name: name, rd: rd, wait: usync.NewWaitCloser(nil), from: off, done: make(chan error, 1)}
		if !rd.IsAof() {
			k.size = int(rd.Size())
			k.gate = make(chan struct{})
			k.from = 0
		} else if wantSnap {
			rd.Close()
			return
		}
		rd.Start(k.wait)
		go k.run()
		cons = append(cons, k)
		c.note("consumer %s at %d (snapshot %v)", name, off, k.size > 0)
	}
	if snap != nil {
		open("snapshot", start-1, true)
	}
	open("behind", start+(right-start)/3, false)
	open("tail", right, false)
	push(10 + r.Intn(50))
	// every stream consumer reaches the tail and blocks there
	dl := c.budget(20 * time.Second)
	for _, k := range cons {
		for k.size == 0 && int64(k.n()) < right-k.from && !dl.Expired() {
			time.Sleep(time.Millisecond)
		}
		if k.size == 0 && int64(k.n()) < right-k.from {
			c.s.Violate("reader-stalls-behind-writer", fmt.Sprintf("consumer %s opened at %d has %d bytes, the writer is at %d", k.name, k.from, k.n(), right), c.replay())
			return
		}
	}
	// ---- the invalidation (guarded: the reset itself must not hang on the readers it closes)
	right0 := right
	var w2 AofChannelWriter
	feed2 := newC05cFeed()
	invDone := make(chan struct{})
	go func() {
		defer close(invDone)
		switch kind {
		case 0:
			w.Close()
			if w2, err = ch.NewAofWritter(feed2, right); err == nil {
				w2.Start()
				feed2.Push(c05cSeg(c.salt, right, 300))
				right += 300
				c.waitRight(right)
			}
		case 1:
			w.Close()
			ch.NewRdbWriter(feed2, right+5000, 100)
		case 2:
			w.Close()
			ch.SetRunId("inv2")
		case 3:
			w.Close()
			ch.DelRunId(c.id)
		}
	}()
	select {
	case <-invDone:
	case <-c.after(15 * time.Second):
		c.s.Violate("invalidated-reader-hangs", fmt.Sprintf("%s with %d started readers at the tail (cache [%d,%d]): the call does not return and the readers' consumers stay blocked on IoReader()", kinds[kind], len(cons), start, right0), c.replay())
		c.hangs++
		c.ch = nil // wedged: leave it behind
		return
	}
	c.note("invalidated at %d", right0)
	for _, k := range cons {
		if k.gate != nil {
			close(k.gate)
		}
	}
	for _, k := range cons {
		ended := false
		var kerr error
		dl := c.budget(10 * time.Second)
		for !dl.Expired() && !ended {
			select {
			case kerr = <-k.done:
				ended = true
			case <-time.After(2 * time.Millisecond):
				// after a writer replacement a reader may also keep following
				if kind == 0 && k.size == 0 && int64(k.n()) >= right-k.from {
					ended = true
				}
			}
		}
		if !ended {
			c.hangs++
			c.s.Violate("invalidated-reader-hangs", fmt.Sprintf("%s: consumer %s (opened at %d, %d bytes delivered, cache ended at %d) neither ends nor fails — blocked on IoReader()", kinds[kind], k.name, k.from, k.n(), right0), c.replay())
		}
		_ = kerr
		// whatever it delivered: the bytes written at its offsets, nothing else
		k.mu.Lock()
		got := append([]byte(nil), k.got...)
		k.mu.Unlock()
		if k.size > 0 {
			if len(got) > len(snap) || string(got) != string(snap[:len(got)]) {
				c.s.Violate("wrong-bytes", fmt.Sprintf("%s: the snapshot consumer was given %d bytes that are not a prefix of the snapshot", kinds[kind], len(got)), c.replay())
			}
			c.s.Add("mon_snapshot_bytes_checked", len(got))
		} else {
			if kind != 0 && int64(len(got)) > right0-k.from {
				c.s.Violate("wrong-bytes", fmt.Sprintf("%s: consumer %s opened at %d was given %d bytes, the history it read ended at %d", kinds[kind], k.name, k.from, len(got), right0), c.replay())
			}
			c.checkBytes("invalidate/"+k.name, k.from, got)
		}
		k.rd.Close()
		k.wait.Close(nil)
	}
	if w2 != nil {
		w2.Close()
	}
	feed.Close()
	feed2.Close()
	c.s.Count("scenario_invalidate_" + c.bk)
}

// scenarioInvalidateLiveSnapshot: a consumer replays a snapshot WHILE it is received
// (it has everything written so far and waits for more); the source reconnects and
// the cache is reset (new snapshot, id switch, delete): the consumer must end or
// fail, and what it got is a prefix of the snapshot.
func (c *c05chan) scenarioInvalidateLiveSnapshot(dir string, kind int) {
	r := c.r
	c.trace = nil
	c.stopBudgets()
	c.id = "invs"
	c.ch = c05cNew(c.bk, dir, 256, 0)
	defer func() {
		if c.ch != nil {
			c.ch.Close()
		}
	}()
	ch := c.ch
	ch.SetRunId(c.id)
	kinds := []string{"", "new snapshot", "replication-id switch", "delete"}
	start := int64(100 + r.Intn(900))
	size := 2000 + r.Intn(20000)
	snap := r.Bytes(size)
	half := size/4 + r.Intn(size/2)
	c.note("invalidate %s live snapshot (%d,%d) after %d bytes by %s", c.bk, start, size, half, kinds[kind])
	feed := newC05cFeed()
	w, err := ch.NewRdbWriter(feed, start, int64(size))
	if err != nil {
		return
	}
	w.Start()
	feed.Push(snap[:half])
	rd, err := ch.NewReader(Offset{RunId: c.id, Offset: start - 1})
	if err != nil {
		if ch.IsValidOffset(Offset{RunId: c.id, Offset: start - 1}) {
			c.s.Violate("valid-not-readable", fmt.Sprintf("snapshot being received at %d: NewReader(%d) failed: %v", start, start-1, err), c.replay())
		}
		w.Close()
		return
	}
	if rd.IsAof() {
		rd.Close()
		w.Close()
		return
	}
	k := &c05cConsumer{name: "live snapshot", rd: rd, wait: usync.NewWaitCloser(nil), size: size, done: make(chan error, 1)}
	rd.Start(k.wait)
	go k.run()
	dl := c.budget(20 * time.Second)
	for k.n() < half && !dl.Expired() {
		time.Sleep(time.Millisecond)
	}
	if k.n() < half {
		c.s.Violate("reader-stalls-behind-writer", fmt.Sprintf("snapshot (%d,%d): %d bytes received, the consumer replaying it has %d", start, size, half, k.n()), c.replay())
		w.Close()
		return
	}
	feed2 := newC05cFeed()
	invDone := make(chan struct{})
	go func() {
		defer close(invDone)
		w.Close() // the source connection is gone
		switch kind {
		case 1:
			ch.NewRdbWriter(feed2, start+7000, 100)
		case 2:
			ch.SetRunId("invs2")
		case 3:
			ch.DelRunId(c.id)
		}
	}()
	hang := func(detail string) {
		c.s.Violate("invalidated-reader-hangs", detail, c.replay())
		c.hangs++
	}
	select {
	case <-invDone:
	case <-c.after(15 * time.Second):
		hang(fmt.Sprintf("%s while a consumer replays the snapshot being received: the call does not return", kinds[kind]))
		c.ch = nil
		return
	}
	select {
	case <-k.done:
	case <-c.after(10 * time.Second):
		hang(fmt.Sprintf("%s: the consumer replaying the snapshot being received (%d of %d bytes) neither ends nor fails — blocked on IoReader()", kinds[kind], k.n(), size))
	}
	k.mu.Lock()
	got := append([]byte(nil), k.got...)
	k.mu.Unlock()
	if len(got) > half || string(got) != string(snap[:len(got)]) {
		c.s.Violate("wrong-bytes", fmt.Sprintf("%s: the snapshot consumer was given %d bytes, %d were received; prefix of the snapshot: %v", kinds[kind], len(got), half, len(got) <= size && string(got) == string(snap[:len(got)])), c.replay())
	}
	c.s.Add("mon_snapshot_bytes_checked", len(got))
	rd.Close()
	k.wait.Close(nil)
	feed.Close()
	feed2.Close()
	c.s.Count("scenario_invalidate_live_snapshot_" + c.bk)
}

// ------------------------------------------------------------------ scenario 5: a reader opened while the snapshot writer finishes

// scenarioSnapshotRace: small snapshots (as after a FULLRESYNC of a small source);
// readers are opened continuously while the writer goroutine writes the last
// bytes and commits the file (rename). While the offset is reported valid — before
// and after the call — opening a reader there must not fail.
func (c *c05chan) scenarioSnapshotRace(dir string, iters int) {
	r := c.r
	c.trace = nil
	c.stopBudgets()
	c.id = "race"
	c.ch = c05cNew(c.bk, dir, 256, 0)
	defer c.ch.Close()
	ch := c.ch
	ch.SetRunId(c.id)
	for it := 0; it < iters; it++ {
		start := int64(1000 + it*500)
		size := 70 + r.Intn(90)
		snap := r.Bytes(size)
		feed := newC05cFeed()
		w, err := ch.NewRdbWriter(feed, start, int64(size))
		if err != nil {
			return
		}
		stop := make(chan struct{})
		var wg sync.WaitGroup
		var failure atomic.Pointer[string]
		var opened atomic.Int64
		off := Offset{RunId: c.id, Offset: start}
		wg.Add(1)
		go func() {
			defer wg.Done()
			for {
				select {
				case <-stop:
					return
				default:
				}
				v1 := ch.IsValidOffset(off)
				rd, err := ch.NewReader(off)
				v2 := ch.IsValidOffset(off)
				if err != nil {
					if v1 && v2 && failure.Load() == nil {
						m := fmt.Sprintf("snapshot (%d,%d): IsValidOffset(%d) is true before and after, NewReader(%d) failed: %v", start, size, start, start, err)
						failure.Store(&m)
					}
					continue
				}
				opened.Add(1)
				wt := usync.NewWaitCloser(nil)
				rd.Start(wt)
				rd.Close()
				wt.Close(nil)
			}
		}()
		w.Start()
		feed.Push(snap[:size/2])
		runtime.Gosched()
		feed.Push(snap[size/2:])
		wdone := make(chan error, 1)
		wctx := usync.NewWaitCloser(nil)
		go func() { wdone <- w.Wait(wctx.Context()) }()
		select {
		case <-wdone:
		case <-c.after(20 * time.Second):
			c.s.Count("note_snapshot_writer_slow")
			wctx.Close(nil)
		}
		close(stop)
		wg.Wait()
		w.Close()
		feed.Close()
		c.s.Add("race_readers_opened", int(opened.Load()))
		if m := failure.Load(); m != nil {
			c.note("iteration %d", it)
			c.s.Violate("valid-not-readable", *m, c.replay())
			break
		}
	}
	c.s.Count("scenario_snapshot_race_" + c.bk)
}

// ------------------------------------------------------------------ scenario 3: real concurrency

func (c *c05chan) scenarioConcurrent(dir string, d time.Duration) {
	r := c.r
	c.trace = nil
	c.stopBudgets()
	c.salt = r.U64() % 100000
	c.id = "conc"
	logSize := int64(256)
	maxSize := int64(4096)
	c.ch = c05cNew(c.bk, dir, logSize, maxSize)
	ch := c.ch
	defer ch.Close()
	ch.SetRunId(c.id)
	c.note("concurrent %s", c.bk)
	start := int64(1000)
	feed := newC05cFeed()
	w, err := ch.NewAofWritter(feed, start)
	if err != nil {
		return
	}
	w.Start()
	var right atomic.Int64
	right.Store(start)
	stop := make(chan struct{})
	var wg sync.WaitGroup
	viol := func(what, detail string) { c.s.Violate(what, detail, c.replay()) }

	// writer
	wg.Add(1)
	go func() {
		defer wg.Done()
		rr := vfutil.NewRand(c.salt + 1)
		for {
			select {
			case <-stop:
				return
			default:
			}
			n := 1 + rr.Intn(200)
			at := right.Load()
			feed.Push(c05cSeg(c.salt, at, n))
			right.Store(at + int64(n))
			time.Sleep(50 * time.Microsecond)
		}
	}()
	// collector (disk: the memory backend collects inside appends)
	if sc, ok := ch.(*StoreChannel); ok {
		wg.Add(1)
		go func() {
			defer wg.Done()
			for {
				select {
				case <-stop:
					return
				default:
				}
				sc.storer.VerifGcLog()
				runtime.Gosched()
			}
		}()
	}
	// two followers
	for i := 0; i < 2; i++ {
		wg.Add(1)
		go func(i int) {
			defer wg.Done()
			rd, err := ch.NewReader(Offset{RunId: c.id, Offset: start})
			if err != nil {
				return // already collected: fine
			}
			wait := usync.NewWaitCloser(nil)
			rd.Start(wait)
			defer func() { rd.Close(); wait.Close(nil) }()
			pos := start
			for {
				select {
				case <-stop:
					return
				default:
				}
				n := int(right.Load() - pos)
				if n <= 0 {
					time.Sleep(100 * time.Microsecond)
					continue
				}
				if n > 3000 {
					n = 3000
				}
				got, err, ok := c05cRead(rd, n, 5*time.Second)
				if !ok || err != nil {
					viol("reader-stalls-behind-writer", fmt.Sprintf("concurrent follower %d at %d (writer at %d): finished=%v err=%v", i, pos, right.Load(), ok, err))
					return
				}
				c.checkBytes(fmt.Sprintf("concurrent follower %d", i), pos, got)
				pos += int64(len(got))
			}
		}(i)
	}
	// openers / closers at the left edge (where the collector works)
	for k := 0; k < 3; k++ {
		wg.Add(1)
		go func(k int) {
			defer wg.Done()
			rr := vfutil.NewRand(c.salt + 2 + uint64(k))
			for {
				select {
				case <-stop:
					return
				default:
				}
				l, rgt := ch.GetOffsetRange(c.id)
				if l < 0 {
					continue
				}
				off := l + int64(rr.Intn(40))
				if off > rgt {
					off = rgt
				}
				rd, err := ch.NewReader(Offset{RunId: c.id, Offset: off})
				c.s.Count("concurrent_opens")
				if err != nil {
					if err != os.ErrNotExist && !errors.Is(err, ErrCorrupted) {
						viol("reader-open-raced-with-collector", fmt.Sprintf("NewReader(%d) failed with %q: the offset passed the range check but its segment vanished before it was referenced", off, err.Error()))
						return
					}
					continue
				}
				wait := usync.NewWaitCloser(nil)
				rd.Start(wait)
				n := int(right.Load() - off)
				if n > 400 {
					n = 400
				}
				if n > 0 {
					got, err, ok := c05cRead(rd, n, 5*time.Second)
					if !ok || err != nil {
						viol("reader-stalls-behind-writer", fmt.Sprintf("concurrent opener: reader opened at %d: finished=%v err=%v", off, ok, err))
						rd.Close()
						wait.Close(nil)
						return
					}
					c.checkBytes("concurrent opener", off, got)
				}
				rd.Close()
				wait.Close(nil)
			}
		}(k)
	}
	time.Sleep(d)
	close(stop)
	feed.Close()
	wg.Wait()
	w.Close()
	c.s.Count("scenario_concurrent_" + c.bk)
}

func TestVerifC05chan(t *testing.T) {
	s := vfutil.NewSession("C05chan")
	defer s.Close()
	limit := time.Duration(vfutil.Scale(150, 1200)) * time.Second
	cur := &c05chan{}
	// thorough tier: the binary is built with -race; reports of the race runtime become results
	// (a race between two accesses of the code under test = violation data-race, replay = backend + steps)
	rl := vfutil.StartRaceLog("C05chan")
	defer rl.Finish(s, func() map[string]interface{} { return map[string]interface{}{"steps": fmt.Sprint(cur.trace)} })
	wd := time.AfterFunc(limit, func() {
		// an infrastructure failure (broken tie), not a violation
		vfutil.WatchdogExit(s, fmt.Sprintf("the harness did not finish within %v; steps: %v", limit, cur.trace))
	})
	defer wd.Stop()
	r := vfutil.NewRand(vfutil.Seed() + 55)
	// debugging aid: VERIF_C05CHAN_ONLY=<kind>:<n> runs only scenarioInvalidate(kind) n times on disk
	if only := os.Getenv("VERIF_C05CHAN_ONLY"); only != "" {
		var kind, n int
		fmt.Sscanf(only, "%d:%d", &kind, &n)
		c := &c05chan{s: s, r: r, bk: "disk"}
		cur = c
		for i := 0; i < n && c.hangs < 3; i++ {
			c.scenarioInvalidate(t.TempDir(), kind)
		}
		c.stopBudgets()
		return
	}
	for _, bk := range []string{"disk", "mem"} {
		c := &c05chan{s: s, r: r, bk: bk}
		cur = c
		for i := 0; i < vfutil.Scale(6, 60); i++ {
			rl.Mark(fmt.Sprintf("%s/follow#%d seed=%d", bk, i, vfutil.Seed()))
			logSize := int64(vfutil.Pick(r, []int{64, 256, 1024, 6000}))
			chunkMax := vfutil.Pick(r, []int{40, 300, 5000, 9000})
			c.scenarioFollow(t.TempDir(), logSize, chunkMax, vfutil.Pick(r, []int{2000, 20000}))
		}
		for i := 0; i < vfutil.Scale(4, 20); i++ {
			rl.Mark(fmt.Sprintf("%s/source-error#%d seed=%d", bk, i, vfutil.Seed()))
			c.scenarioSourceError(t.TempDir(), vfutil.Pick(r, []int{10, 48, 49, 120}), i%4 == 3)
		}
		for i := 0; i < vfutil.Scale(1, 6); i++ {
			rl.Mark(fmt.Sprintf("%s/large#%d seed=%d", bk, i, vfutil.Seed()))
			c.scenarioLarge(t.TempDir())
		}
		for i := 0; i < vfutil.Scale(2, 10); i++ {
			rl.Mark(fmt.Sprintf("%s/concurrent#%d seed=%d", bk, i, vfutil.Seed()))
			c.scenarioConcurrent(t.TempDir(), time.Duration(vfutil.Scale(700, 3000))*time.Millisecond)
		}
		for i := 0; i < vfutil.Scale(8, 60) && c.hangs < 3; i++ {
			rl.Mark(fmt.Sprintf("%s/invalidate(kind %d)#%d seed=%d", bk, i%4, i, vfutil.Seed()))
			c.scenarioInvalidate(t.TempDir(), i%4)
		}
		for i := 0; i < vfutil.Scale(3, 30) && c.hangs < 3; i++ {
			rl.Mark(fmt.Sprintf("%s/invalidate-live-snapshot(kind %d)#%d seed=%d", bk, 1+i%3, i, vfutil.Seed()))
			c.scenarioInvalidateLiveSnapshot(t.TempDir(), 1+i%3)
		}
		rl.Mark(fmt.Sprintf("%s/snapshot-race seed=%d", bk, vfutil.Seed()))
		c.scenarioSnapshotRace(t.TempDir(), vfutil.Scale(300, 3000))
		c.stopBudgets()
	}
	rl.Mark("abandoned-writers")
	c05cAbandonedWriters(t, s)
	for _, m := range vfutil.InfraFailures() {
		t.Errorf("C05chan harness infrastructure (no statement about the cache): %s", m)
	}
}

// c05cAbandonedWriters drives the REAL RedisInput.syncData with a run scope that is already
// closed when the source goroutine starts (the output failed, or readChannel could not open its
// reader, while syncData was creating the writer): `sync()` then returns at its first test. The
// writer syncData has created is registered in the cache at construction. Whatever the input does,
// the cache must not go on OFFERING a snapshot nobody will ever write ("a cached snapshot is
// offered for replay only while all of its bytes are present"): the next run's callers' protocol
// (`ask` with no writer open, Proofs/StoreCaller.lean) and every consumer that replays it rely on it.
func c05cAbandonedWriters(t *testing.T, s *vfutil.Session) {
	tmp := t.TempDir()
	ln, err := net.Listen("tcp", "127.0.0.1:0")
	if err != nil {
		vfutil.Infra("abandoned-writer scenario: no loopback listener: " + err.Error())
		return
	}
	defer ln.Close()
	go func() { // a source that answers PING and nothing else
		for {
			c, err := ln.Accept()
			if err != nil {
				return
			}
			go func(c net.Conn) {
				defer c.Close()
				buf := make([]byte, 256)
				for {
					n, err := c.Read(buf)
					if err != nil {
						return
					}
					if bytes.Contains(bytes.ToLower(buf[:n]), []byte("ping")) {
						c.Write([]byte("+PONG\r\n"))
					}
				}
			}(c)
		}
	}()
	yml := fmt.Sprintf("input:\n  redis:\n    addresses: [\"%s\"]\noutput:\n  redis:\n    addresses: [\"%s\"]\nchannel:\n  storer:\n    dirPath: %s\nlog:\n  level: panic\n",
		ln.Addr().String(), ln.Addr().String(), filepath.Join(tmp, "cfgdir"))
	yp := filepath.Join(tmp, "cfg.yaml")
	if err := os.WriteFile(yp, []byte(yml), 0o644); err != nil {
		vfutil.Infra("abandoned-writer scenario: " + err.Error())
		return
	}
	if err := config.InitSyncerConfig(yp); err != nil {
		vfutil.Infra("abandoned-writer scenario: config: " + err.Error())
		return
	}
	log.InitLog(*config.GetSyncerConfig().Log)
	for _, bk := range []string{"disk", "mem"} {
		for _, full := range []bool{true, false} {
			dir := filepath.Join(tmp, fmt.Sprintf("%s-%v", bk, full))
			os.MkdirAll(dir, 0o777)
			ch := c05cNew(bk, dir, 1024, 0)
			ch.SetRunId("run1")
			ri := NewRedisInput(*config.GetSyncerConfig().Input.Redis)
			ri.SetChannel(ch)
			cli, err := redis.NewStandaloneRedis(ri.cfg)
			if err != nil {
				vfutil.Infra("abandoned-writer scenario: source double: " + err.Error())
				return
			}
			scope := usync.NewWaitCloserFromParent(ri.wait, nil)
			scope.Close(errors.New("the output failed while the input was creating its writer"))
			config.GetSyncerConfig().Input.RdbLimiter() <- struct{}{} // fetchInput holds the limiter when it calls syncData
			done := make(chan struct{})
			go func() { defer close(done); ri.syncData(scope, cli, full, 100, 1000); scope.WgWait() }()
			if !vfutil.Wait(done, 10*time.Second) {
				s.Violate("hang", "RedisInput.syncData with a closed run scope did not return", map[string]interface{}{"scenario": "abandoned-writer", "backend": bk, "full": full})
				continue
			}
			s.Count("abandoned_writer_runs")
			replay := map[string]interface{}{"scenario": "abandoned-writer", "backend": bk, "fullSync": full,
				"steps": "SetRunId(run1); run scope closed; RedisInput.syncData(scope, cli, full, rdbSize=100, offset=1000); scope.WgWait()"}
			rl, rs := ch.GetRdb("run1")
			if rl != -1 || rs != -1 {
				// the run is over: nothing will ever feed this snapshot. Does a consumer that replays it get anything?
				detail := fmt.Sprintf("the run ended (its scope was closed before the source goroutine started) but GetRdb()=(%d,%d) is still offered with 0 of %d bytes present and no writer running: syncData returned without closing the writer it had created", rl, rs, rs)
				if rd, err := ch.NewReader(Offset{RunId: "run1", Offset: rl - 10}); err == nil {
					w := usync.NewWaitCloser(nil)
					rd.Start(w)
					got := make(chan int, 1)
					go func() { b := make([]byte, 16); n, _ := io.ReadFull(rd.IoReader(), b); got <- n }()
					select {
					case n := <-got:
						detail += fmt.Sprintf("; a reader opened at %d ended after %d bytes", rl-10, n)
					case <-vfutil.StartBudget(2 * time.Second).Done():
						detail += fmt.Sprintf("; IsValidOffset(%d)=%v and a reader opened there (snapshot %d,%d) waits for bytes that never come", rl-10, ch.IsValidOffset(Offset{RunId: "run1", Offset: rl - 10}), rd.Left(), rd.Size())
					}
					w.Close(nil)
					rd.Close()
				}
				s.Violate("snapshot-offered-incomplete", detail, replay)
			}
			if !full {
				// a stream writer left behind is replaced by the next NewAofWritter (both backends close the old one): noted only
				if l, r := ch.GetOffsetRange("run1"); l != -1 || r != -1 {
					s.Count("abandoned_stream_writer_left_in_index")
				}
			}
			ch.Close()
		}
	}
}
