//go:build verif

package syncer

// C04, session 5.
//
//   s1  ENUMERATED SCHEDULES of the real sendRdb (distributor / replay workers / error lane) instead of repeated runs:
//       the target double gates every replay worker at the first request of each snapshot entry; after every decision
//       everything else runs to quiescence (synctest.Wait); the controller then takes ONE decision — release worker i
//       (it applies the entry it holds), answer the held request with an error, cancel the parent context — and ALL
//       sequences of decisions are enumerated (odometer over the decision tree; after a fault Go's `select` decides
//       whether a worker takes another entry, the tree is followed as the runtime makes it). Every run gives a trace
//       `w<i>:<entry>` / `f<i>:<entry>` / `x` that the Lean event system follows (op c04trace): it must be ABLE to take
//       each step (refinement: real traces ⊆ model traces), and result, checkpoint and the MULTIPLICITY of every entry
//       (requests per key received by the double, against an undisturbed run; list entries with equal elements make a
//       second application visible in the values too) must be the model's. Go monitor: the values monitor of section 3
//       (incomplete-reported-ok / incomplete-checkpointed) on every enumerated run.
//   s2  the fan-out scenarios of section 3 carry `mult=1`: result, checkpoint AND twice / once of the real run
//       against the model (c04fan / c04fang).
//   s3  the leftover of an aborted replay beside a LATER replay of the same RedisOutput (Props/C04S.lean:
//       later_replay_independent): first SendRdb aborted by a target error / cancellation with rdbPipe so small that
//       rdb.ParseRdb stays blocked in `pipe <- entry`, then a second SendRdb on the SAME RedisOutput and target with a
//       fresh reader while the stale goroutine is still there: judged by the same monitors, exactly-once included, and
//       tied to the model's clean run.

import (
	"bufio"
	"bytes"
	"context"
	"fmt"
	"io"
	"sort"
	"strings"
	"sync"
	"testing"
	"testing/synctest"
	"time"

	"github.com/mgtv-tech/redis-GunYu/config"
	"github.com/mgtv-tech/redis-GunYu/pkg/rdb"
	"github.com/mgtv-tech/redis-GunYu/pkg/redis/client"
	"github.com/mgtv-tech/redis-GunYu/pkg/redis/client/conn"
	"github.com/mgtv-tech/redis-GunYu/pkg/util"
	"github.com/mgtv-tech/redis-GunYu/pkg/vfc20"
	"github.com/mgtv-tech/redis-GunYu/pkg/vfdoubles"
	"github.com/mgtv-tech/redis-GunYu/pkg/vfutil"
)

// vfC04SFile: m keyed entries (no AUX: every entry has a key) whose FNV routes over `par` workers are `want`.
// Values: strings and lists with EQUAL elements (RPUSH twice ≠ once), one with an expiry.
func vfC04SFile(par int, want []int) vfC04File {
	fut := uint64(vfc20.BubbleNowMs + 3600_000)
	var kvs []vfc20.KV
	used := map[string]bool{}
	for j, w := range want {
		var key string
		for c := 0; ; c++ {
			key = fmt.Sprintf("sk%d:%d", j, c)
			if !used[key] && int(util.FnvHash([]byte(key))%uint32(par)) == w {
				break
			}
		}
		used[key] = true
		kv := vfc20.KV{DB: 0, Key: []byte(key)}
		switch j % 3 {
		case 0:
			kv.Type, kv.Str = 0, []byte(fmt.Sprintf("v%d", j))
		case 1:
			kv.Type, kv.Items = 1, [][]byte{[]byte("e"), []byte("e")}
		default:
			kv.Type, kv.Items, kv.ExpireAt = 1, [][]byte{[]byte("x"), []byte("y"), []byte("x")}, fut
		}
		kvs = append(kvs, kv)
	}
	return vfC04File{Name: fmt.Sprintf("sched%d_%v", par, want), KVs: kvs}
}

type vfC04SRun struct {
	Err     error
	Cp      bool
	Trace   []string       // every decision: p (bytes of the next entry released to the parser), w<i>:<e>, f<i>:<e>, x
	Counts  []map[string]int // per entry: rendered keyed COMMAND -> requests the double executed (not failed, not left in an unexecuted MULTI)
	Widths  []int          // number of options at each decision point
	Hang    string
	Leak    bool
	All     bool
	Missing []string
}

type vfC04SHold struct {
	conn, entry, idx int
	ch               chan string
}

// vfC04SCfg: one configuration of the enumeration
type vfC04SCfg struct {
	par, ps int
	want    []int
	bisync  bool
	restore bool
	gate    bool // the parser's input is released entry by entry (decision `p`): the pipe a worker looks at after a
	// cancellation is EMPTY or NOT as the schedule says — both outcomes of its `select` are forced, not awaited
	cluster bool // bidirectional replay onto a cluster target: the global lane replays the AUX lua script on every primary
	emptyKey bool // one entry's key is "" (a key like any other: routed by its hash)
}

// vfC04Gated: an io.Reader that has the bytes the controller released
type vfC04Gated struct {
	ch  chan []byte
	buf []byte
}

func (g *vfC04Gated) Read(p []byte) (int, error) {
	for len(g.buf) == 0 {
		b, ok := <-g.ch
		if !ok {
			return 0, io.EOF
		}
		g.buf = b
	}
	n := copy(p, g.buf)
	g.buf = g.buf[n:]
	return n, nil
}

// vfC04SLuaKey names the AUX lua script in the list of visible entries ("" is a legal key of a keyed entry)
const vfC04SLuaKey = "\x00<aux lua>"

// vfC04SEntries: what the enumeration can SEE of the entries the real loader produces: keyed entries (by their key) and
// the AUX lua script; other AUX fields are skipped by the replay without a request (buildBisyncRdbGlobalUnit) — they are
// not part of the traced system. Returns per visible entry: key (vfC04SLuaKey = the lua script), worker (n = global lane), global flag.
func vfC04SEntries(data []byte, par int, cluster bool, kvs []vfc20.KV) (keys []string, worker []int, glob []int) {
	bins, err := vfc20.Load(data, 0, "7.0.0")
	if err != nil {
		return
	}
	isKey := map[string]bool{}
	for _, kv := range kvs {
		isKey[string(kv.Key)] = true
	}
	for _, e := range bins {
		switch {
		case isKey[string(e.Key)]:
			keys = append(keys, string(e.Key))
			worker = append(worker, int(util.FnvHash(e.Key)%uint32(par)))
			glob = append(glob, 0)
		case cluster && e.ObjectParser != nil && e.ObjectParser.Type() == rdb.RdbObjectAux && string(e.Key) == "lua":
			keys = append(keys, vfC04SLuaKey)
			worker = append(worker, par)
			glob = append(glob, 1)
		}
	}
	return
}

// vfC04SchedRun: one run of the real SendRdb under the decision sequence `choices` (beyond its end: option 0)
func vfC04SchedRun(t *testing.T, f vfC04File, keys []string, worker []int, cf vfC04SCfg, choices []int) (res vfC04SRun) {
	par, pipeSize, bisync, restore := cf.par, cf.ps, cf.bisync, cf.restore
	oldPipe := config.RdbPipeSize
	config.RdbPipeSize = pipeSize
	defer func() { config.RdbPipeSize = oldPipe }()
	data := f.bytes()
	lua := string(f.Opts.Lua)
	finished := false
	defer func() {
		if r := recover(); r != nil {
			msg := fmt.Sprint(r)
			if finished && strings.Contains(msg, "blocked goroutines remain") {
				res.Leak = true
				return
			}
			res.Hang = msg
		}
	}()
	keyIdx := map[string]int{}
	luaIdx := -1
	for j, k := range keys {
		if k == vfC04SLuaKey {
			luaIdx = j
		} else {
			keyIdx[k] = j
		}
	}
	// where the parser has the bytes of entry k complete (gate): prefixes of the file built from the first k values
	var segs [][]byte
	if cf.gate {
		prev := 0
		okSeg := true
		for k := 1; k <= len(f.KVs); k++ {
			pf := vfc20.BuildRDB(f.KVs[:k], f.Opts)
			off := len(pf) - 9
			if off <= prev || off > len(data) || !bytes.Equal(pf[:off], data[:off]) {
				okSeg = false
				break
			}
			segs = append(segs, data[prev:off])
			prev = off
		}
		if !okSeg {
			segs = nil
			prev = 0
		}
		segs = append(segs, data[prev:])
	}
	synctest.Test(t, func(t *testing.T) {
		vfc20.SettleClock()
		tg := vfdoubles.NewTarget()
		tg.SetNow(time.Now().UnixMilli())
		c := &vfc20.Case{Mode: "wplain", Pol: "replace", Restore: restore, MaxBulk: 1 << 29, Ver: "7.0.0"}
		if bisync {
			c.Mode = "bisync"
		}
		tg.FailExecToo = true
		tg.AcceptScripts = true
		ro := vfC20Output(c, tg, par)
		if cf.cluster {
			rcfg := config.RedisConfig{Type: config.RedisTypeCluster, Version: "7.0.0", ClusterOptions: &config.RedisClusterOptions{}}
			rcfg.SetClusterShards([]*config.RedisClusterShard{
				{Slots: config.RedisSlots{Ranges: []config.RedisSlotRange{{Left: 0, Right: 8191}}}, Master: config.RedisNode{Address: "10.0.0.1:6379"}},
				{Slots: config.RedisSlots{Ranges: []config.RedisSlotRange{{Left: 8192, Right: 16383}}}, Master: config.RedisNode{Address: "10.0.0.2:6379"}},
			})
			ro.cfg.Redis = rcfg
			rc := config.RedisConfig{}
			ro.newRedisConn = func(ctx context.Context) (client.Redis, error) {
				return conn.VerifNewRedisConn(tg.Dial(), rc), nil
			}
			ro.newRedisConnToAddress = func(ctx context.Context, addr string) (client.Redis, error) {
				return conn.VerifNewRedisConn(tg.Dial(), rc), nil
			}
		}
		ctx, cancel := context.WithCancel(context.Background())
		defer cancel()
		nSeed := tg.LogLen()

		var mu sync.Mutex
		started := map[int]bool{}     // entry -> its first request has been seen (an entry is gated ONCE, at its first request)
		held := map[int]*vfC04SHold{} // connection -> hold
		failNow := map[int]string{}   // request index -> injected error text
		entryOf := func(e vfdoubles.LogEntry) int {
			if luaIdx >= 0 && e.Cmd() == "script" && len(e.Args) == 3 && string(e.Args[2]) == lua {
				return luaIdx
			}
			if len(e.Args) < 2 {
				return -1
			}
			if j, ok := keyIdx[string(e.Args[1])]; ok {
				return j
			}
			return -1
		}
		tg.Hook = func(idx int, e vfdoubles.LogEntry) {
			j := entryOf(e)
			if j < 0 {
				return
			}
			mu.Lock()
			if started[j] {
				mu.Unlock()
				return
			}
			started[j] = true
			h := &vfC04SHold{conn: e.Conn, entry: j, idx: idx, ch: make(chan string, 1)}
			held[e.Conn] = h
			mu.Unlock()
			msg := <-h.ch
			if msg != "" {
				mu.Lock()
				failNow[idx] = msg
				mu.Unlock()
			}
		}
		tg.HookFail = func(idx int, e vfdoubles.LogEntry) string {
			mu.Lock()
			defer mu.Unlock()
			return failNow[idx]
		}

		done := make(chan error, 1)
		var src io.Reader = bytes.NewReader(data)
		var gated *vfC04Gated
		fed := 0
		if cf.gate {
			gated = &vfC04Gated{ch: make(chan []byte, len(segs)+1)}
			src = gated
		}
		feedClosed := false
		closeFeed := func() {
			if gated != nil && !feedClosed {
				feedClosed = true
				close(gated.ch)
			}
		}
		go func() {
			done <- ro.SendRdb(ctx, &vfC04Reader{r: bufio.NewReaderSize(src, 4096), size: int64(len(data))})
		}()
		fault := false
		returned := false
		idle := 0
		for step := 0; !returned; {
			synctest.Wait()
			select {
			case res.Err = <-done:
				returned = true
				continue
			default:
			}
			mu.Lock()
			var hs []*vfC04SHold
			for _, h := range held {
				hs = append(hs, h)
			}
			mu.Unlock()
			canFeed := gated != nil && fed < len(segs)
			if len(hs) == 0 && !canFeed {
				// nothing is held, nothing to feed and SendRdb has not returned: it sleeps on a timer (virtual time) — let a second pass
				idle++
				if idle > 900 {
					res.Hang = "SendRdb had not returned after 15 virtual minutes with no worker held"
					cancel()
					res.Err = <-done
					returned = true
					continue
				}
				select {
				case res.Err = <-done:
					returned = true
				case <-time.After(time.Second):
				}
				continue
			}
			sort.Slice(hs, func(a, b int) bool { return worker[hs[a].entry] < worker[hs[b].entry] })
			type opt struct {
				kind string
				h    *vfC04SHold
			}
			var opts []opt
			for _, h := range hs {
				opts = append(opts, opt{"w", h})
			}
			if canFeed {
				opts = append(opts, opt{"p", nil})
			}
			if !fault {
				opts = append(opts, opt{"x", nil})
				for _, h := range hs {
					opts = append(opts, opt{"f", h})
				}
			}
			ch := 0
			if step < len(choices) {
				ch = choices[step] % len(opts)
			}
			res.Widths = append(res.Widths, len(opts))
			step++
			o := opts[ch]
			switch o.kind {
			case "x":
				fault = true
				cancel()
				res.Trace = append(res.Trace, "x")
			case "p":
				gated.ch <- segs[fed]
				fed++
				if fed == len(segs) {
					closeFeed()
				}
				res.Trace = append(res.Trace, "p")
			default:
				mu.Lock()
				delete(held, o.h.conn)
				mu.Unlock()
				msg := ""
				if o.kind == "f" {
					fault = true
					msg = vfC04FailMsgs[(step+o.h.entry)%len(vfC04FailMsgs)]
				}
				res.Trace = append(res.Trace, fmt.Sprintf("%s%d:%d", o.kind, worker[o.h.entry], o.h.entry))
				o.h.ch <- msg
			}
		}
		closeFeed()
		synctest.Wait()
		// SendRdb has returned. A worker still held here was NOT awaited (its entry is not applied: the values monitor
		// speaks); what it does once released no longer belongs to the replay — the log is judged as it is now.
		log := tg.LogCopy()[nSeed:]
		mu.Lock()
		for cn, h := range held {
			res.Trace = append(res.Trace, fmt.Sprintf("left%d:%d", worker[h.entry], h.entry))
			delete(held, cn)
			h.ch <- ""
		}
		mu.Unlock()
		tg.CloseAll()
		for _, e := range log {
			if e.Cmd() == "hset" && len(e.Args) > 2 && string(e.Args[1]) == "vfcp" {
				for _, a := range e.Args[2:] {
					if string(a) == "vfrun_offset" {
						res.Cp = true
					}
				}
			}
		}
		if bisync && ro.bisyncOffset.Load() == vfC04Left {
			res.Cp = true
		}
		res.Counts = make([]map[string]int, len(keys))
		for j := range res.Counts {
			res.Counts[j] = map[string]int{}
		}
		type pend struct {
			j   int
			cmd string
		}
		pending := map[int][]pend{}
		for i, e := range log {
			failed := failNow[nSeed+i] != ""
			switch {
			case e.Cmd() == "exec":
				if !failed {
					for _, p := range pending[e.Conn] {
						res.Counts[p.j][p.cmd]++
					}
				}
				delete(pending, e.Conn)
			case e.Cmd() == "multi" || e.Cmd() == "discard":
				delete(pending, e.Conn)
			default:
				if j := entryOf(e); j >= 0 && !failed {
					if e.Queued {
						pending[e.Conn] = append(pending[e.Conn], pend{j, e.String()})
					} else {
						res.Counts[j][e.String()]++
					}
				}
			}
		}
		res.All = true
		for _, kv := range f.KVs {
			want := vfc20.ExpectVal(kv, restore, vfc20.BubbleNowMs)
			if !vfc20.SameVal(want, tg.Get(kv.DB, string(kv.Key))) {
				res.All = false
				res.Missing = append(res.Missing, string(kv.Key))
			}
		}
		finished = true
	})
	return
}

// vfC04SMult: how often entry j was applied, per COMMAND against the undisturbed run: 0 = some command of it was not
// executed, 1 = every command exactly as often as one application sends it, 2 = some command more often (or one the
// undisturbed run never sends)
func vfC04SMult(got, ref map[string]int) int {
	m := 1
	for k, n := range ref {
		if got[k] > n {
			return 2
		}
		if got[k] < n {
			m = 0
		}
	}
	for k := range got {
		if _, ok := ref[k]; !ok {
			return 2
		}
	}
	return m
}

func vfC04SNext(choices, widths []int) []int {
	// odometer over the decision tree: the last decision that has another option
	c := make([]int, len(widths))
	copy(c, choices)
	for d := len(widths) - 1; d >= 0; d-- {
		if c[d]%widths[d]+1 < widths[d] {
			c[d] = c[d]%widths[d] + 1
			return c[:d+1]
		}
	}
	return nil
}

func vfC04Session5(t *testing.T, s *vfutil.Session, mark func(string), phase func(string)) {
	phase("s1")
	cfgs := []vfC04SCfg{
		{par: 2, ps: 1024, want: []int{0, 1, 0}},
		{par: 2, ps: 1, want: []int{0, 1, 1}, restore: true},
		{par: 2, ps: 2, want: []int{1, 0, 1}, bisync: true},
		{par: 1, ps: 1, want: []int{0, 0, 0}},
		{par: 2, ps: 1024, want: []int{0, 1, 0, 1}, restore: true},
		{par: 3, ps: 3, want: []int{0, 1, 2, 0}},
		{par: 2, ps: 1, want: []int{0, 0, 1}, bisync: true, restore: true},
		// the parser's input released entry by entry: cancellation meets a worker whose pipe is empty / is not, as scheduled
		{par: 2, ps: 1024, want: []int{0, 1, 0}, gate: true},
		{par: 1, ps: 1, want: []int{0, 0, 0}, gate: true, restore: true},
		// cluster target, bidirectional: the global lane (worker n) replays the AUX lua script on every primary
		{par: 2, ps: 1024, want: []int{0, 1}, bisync: true, cluster: true},
		{par: 1, ps: 2, want: []int{0, 0}, bisync: true, cluster: true, gate: true},
		// dimension audit: an entry with the EMPTY key among the others (8 workers: more than entries; pipe of 1)
		{par: 2, ps: 1, want: []int{int(util.FnvHash(nil) % 2), 1, 0}, emptyKey: true},
		{par: 8, ps: 1, want: []int{int(util.FnvHash(nil) % 8), 3, 6}, emptyKey: true, restore: true},
	}
	if vfutil.Thorough() {
		cfgs = append(cfgs, vfC04SCfg{par: 3, ps: 1, want: []int{2, 1, 0}, bisync: true}, vfC04SCfg{par: 2, ps: 2, want: []int{0, 1, 0}, restore: true},
			vfC04SCfg{par: 3, ps: 1024, want: []int{0, 1, 2, 1, 0}}, vfC04SCfg{par: 4, ps: 4, want: []int{0, 1, 2, 3}, bisync: true, restore: true},
			vfC04SCfg{par: 2, ps: 1, want: []int{1, 1, 0, 0, 1}}, vfC04SCfg{par: 2, ps: 2, want: []int{0, 1, 1, 0}, gate: true},
			vfC04SCfg{par: 3, ps: 3, want: []int{0, 1, 2}, bisync: true, cluster: true})
	}
	budget := vfutil.Scale(500, 2500) // runs per configuration (counted, not timed)
	for _, cf := range cfgs {
		f := vfC04SFile(cf.par, cf.want)
		if cf.cluster {
			f.Opts = vfc20.Opts{Aux: true, Lua: []byte("return 1")}
			f.Name += "_cluster"
		}
		if cf.gate {
			f.Name += "_gated"
		}
		if cf.emptyKey {
			f.KVs[0].Key = []byte{}
			f.Name += "_emptykey"
		}
		data := f.bytes()
		keys, worker, glob := vfC04SEntries(data, cf.par, cf.cluster, f.KVs)
		nWant := len(cf.want)
		if cf.cluster {
			nWant++
		}
		if len(keys) != nWant {
			s.Violate("generator-rdb-rejected", f.Name+": the loader produced "+fmt.Sprint(len(keys))+" visible entries", map[string]interface{}{"rdb": vfutil.Hex(data)})
			continue
		}
		cw := cf.ps / cf.par
		if cw < 1 {
			cw = 1
		}
		var rs, gs []string
		for j := range keys {
			if glob[j] == 1 {
				rs = append(rs, "0")
			} else {
				rs = append(rs, fmt.Sprint(worker[j]))
			}
			gs = append(gs, fmt.Sprint(glob[j]))
		}
		head := fmt.Sprintf("c04trace n=%d c0=%d cw=%d routes=%s", cf.par, cf.ps+1, cw+1, strings.Join(rs, ","))
		if cf.cluster {
			head += " glob=" + strings.Join(gs, ",")
		}
		var ref []map[string]int
		var choices []int
		runs, exhausted := 0, false
		for ; runs < budget; runs++ {
			mark(fmt.Sprintf("sched %s %v", f.Name, choices))
			r := vfC04SchedRun(t, f, keys, worker, cf, choices)
			rp := map[string]interface{}{"scenario": "enumerated-schedule", "file": f.Name, "rdb": vfutil.Hex(data), "parallel": cf.par, "pipe": cf.ps,
				"bisync": cf.bisync, "restore": cf.restore, "cluster": cf.cluster, "gated": cf.gate, "choices": fmt.Sprint(choices), "trace": strings.Join(r.Trace, ",")}
			if r.Hang != "" {
				s.Count("viol_hang")
				s.Violate("hang", "enumerated schedule: SendRdb did not return: "+r.Hang, rp)
				break
			}
			if r.Leak {
				s.Count("observed_parser_goroutine_left_blocked_after_abort")
			}
			if ref == nil {
				// the first run takes option 0 everywhere: no fault — the undisturbed replay, the reference of the request counts
				if r.Err != nil || !r.Cp || !r.All {
					s.Violate("clean-run-failed", fmt.Sprintf("enumerated schedule, undisturbed: err=%v cp=%v all=%v missing=%q trace=%v", r.Err, r.Cp, r.All, r.Missing, r.Trace), rp)
					break
				}
				ref = r.Counts
				for _, m := range ref {
					if len(m) == 0 {
						ref = nil
					}
				}
				if ref == nil {
					s.Violate("clean-run-failed", "enumerated schedule: an entry without a request of its own in the undisturbed run", rp)
					break
				}
			}
			ap := make([]string, len(ref))
			twice, once := false, true
			for j := range ref {
				m := vfC04SMult(r.Counts[j], ref[j])
				ap[j] = fmt.Sprint(m)
				twice = twice || m > 1
				once = once && m == 1
			}
			// the property's monitor on the values, as in section 3
			if !r.All {
				s.Count("incomplete_replays")
				if r.Err == nil {
					s.Count("viol_incomplete-reported-ok")
					s.Violate("incomplete-reported-ok", fmt.Sprintf("enumerated schedule %v: keys %q not applied but SendRdb returned nil (checkpoint=%v)", r.Trace, r.Missing, r.Cp), rp)
				}
				if r.Cp {
					s.Count("viol_incomplete-checkpointed")
					s.Violate("incomplete-checkpointed", fmt.Sprintf("enumerated schedule %v: keys %q not applied but the resume position was advanced (err=%v)", r.Trace, r.Missing, r.Err), rp)
				}
			} else {
				s.Count("complete_replays")
			}
			if cf.cluster && (r.Err == nil || r.Cp) && ap[0] == "0" && glob[0] == 1 {
				// the lua script is an entry too (not visible in the key values): recorded without it on every primary
				s.Count("viol_incomplete-reported-ok")
				s.Violate("incomplete-reported-ok", fmt.Sprintf("enumerated schedule %v: the AUX lua script was not loaded on every primary but the replay was recorded (err=%v cp=%v)", r.Trace, r.Err, r.Cp), rp)
			}
			if (r.Cp || r.Err == nil) && !once {
				// recorded, values right (else the monitor above has spoken), but some command was not executed exactly as often
				// as one application sends it: not a violation of C04 by itself (a correct retry re-applies an entry) — the tie DIFFs
				s.Count("observed_recorded_with_other_multiplicity")
			}
			if twice {
				s.Count("observed_entry_applied_twice")
			}
			// the model follows the worker events; `p` (bytes released to the parser) is the environment's move: the model's
			// parser runs as far as the next traced step needs
			var mt []string
			kind := "clean"
			afterX, took := false, false
			for _, e := range r.Trace {
				if e == "p" {
					continue
				}
				mt = append(mt, e)
				if e == "x" {
					kind = "cancel"
					afterX = true
				} else if e[0] == 'f' {
					kind = "fail"
				} else if afterX && e[0] == 'w' {
					took = true
				}
			}
			if afterX {
				if took {
					s.Count("sched_after_cancel_a_worker_went_on")
				} else {
					s.Count("sched_after_cancel_no_worker_went_on")
				}
			}
			tr := "."
			if len(mt) > 0 {
				tr = strings.Join(mt, ",")
			}
			res := "ok"
			if r.Err != nil {
				res = "err"
			}
			cp := 0
			if r.Cp {
				cp = 1
			}
			s.Op(head+" trace="+tr, fmt.Sprintf("res=%s cp=%d applied=%s trace=ok", res, cp, strings.Join(ap, ",")))
			s.Count("sched_runs")
			s.Add("sched_decisions", len(r.Widths))
			s.Count("sched_" + kind)
			s.Distinct("sched/" + f.Name + "/" + strings.Join(r.Trace, ","))
			choices = vfC04SNext(choices, r.Widths)
			if choices == nil {
				exhausted = true
				runs++
				break
			}
		}
		if exhausted {
			s.Count("sched_trees_exhausted")
		} else {
			s.Count("sched_trees_cut_by_budget")
		}
	}

	phase("sd")
	// ------------------------------------------------ sd. dimension audit: degenerate-but-legal snapshots through the whole pipeline
	{
		type dcase struct {
			name     string
			f        vfC04File
			par, ps  int
			bis      bool
			complete bool // the intact file must be replayed, recorded, every key there
		}
		one := []vfc20.KV{{DB: 0, Key: []byte(""), Type: 0, Str: []byte("")}}
		mixed := vfC04Files()[0]
		nocrc := vfC04File{Name: "mixed-nocrc", KVs: mixed.KVs, Opts: vfc20.Opts{Aux: true, ResizeDB: true, NoCRC: true}}
		for di, d := range []dcase{
			{"empty-snapshot", vfC04File{Name: "empty"}, 2, 1024, false, true},
			{"empty-snapshot-nocrc", vfC04File{Name: "empty-nocrc", Opts: vfc20.Opts{NoCRC: true}}, 1, 1, true, true},
			{"empty-key-empty-value", vfC04File{Name: "emptykv", KVs: one}, 4, 1, false, true},
			{"empty-key-empty-value-nocrc-bisync", vfC04File{Name: "emptykv-nocrc", KVs: one, Opts: vfc20.Opts{NoCRC: true}}, 1, 1024, true, true},
			{"checksum-disabled", nocrc, 3, 2, false, true},
		} {
			data := d.f.bytes()
			o := vfC04DefaultOpts()
			o.Parallel, o.PipeSize, o.Bisync, o.Restore = d.par, d.ps, d.bis, di%2 == 1
			mark("degenerate " + d.name)
			r := vfC04Send(t, d.f.KVs, data, int64(len(data)), o)
			vfC04Monitor(s, "degenerate-"+d.name, d.f.Name, data, o, r)
			s.Count("degenerate_" + d.name)
			if r.Err != nil || !r.Cp || !r.AllApplied {
				s.Violate("clean-run-failed", fmt.Sprintf("%s, intact: err=%v cp=%v all=%v missing=%q", d.name, r.Err, r.Cp, r.AllApplied, r.Missing),
					map[string]interface{}{"scenario": "degenerate", "file": d.f.Name, "rdb": vfutil.Hex(data), "opts": o.String()})
				continue
			}
			s.Op(vfC04FanOp(data, o, "clean"), vfC04ResTok(r))
			// every truncation of it — in particular 0 bytes, the 9 header bytes alone, the EOF opcode without / with half a footer,
			// and for the checksum-disabled files every cut (the zero footer refuses nothing but a cut) — parser and pipeline
			for k := 0; k < len(data); k++ {
				if tok := vfC04ParseTok(data[:k]); strings.HasPrefix(tok, "d") {
					s.Count("viol_truncation-accepted")
					s.Violate("truncation-accepted", fmt.Sprintf("%s cut at %d of %d bytes parses to Done (%s)", d.name, k, len(data), tok),
						map[string]interface{}{"scenario": "trunc", "file": d.f.Name, "rdb": vfutil.Hex(data[:k])})
				}
				if len(data) > 60 && k > 12 && k < len(data)-12 && (k+di)%5 != 0 {
					continue // the long file: parser at every cut, pipeline at every 5th + both ends
				}
				ot := o
				ot.Parallel = 1 + k%3
				rt := vfC04Send(t, d.f.KVs, data[:k], int64(len(data)), ot)
				vfC04Monitor(s, "degenerate-truncated-"+d.name, d.f.Name, data[:k], ot, rt)
				if rt.Err == nil {
					s.Count("viol_truncation-replayed-ok")
					s.Violate("truncation-replayed-ok", fmt.Sprintf("%s cut at %d of %d bytes: SendRdb returned nil (checkpoint=%v)", d.name, k, len(data), rt.Cp),
						map[string]interface{}{"scenario": "degenerate-truncated", "file": d.f.Name, "rdb": vfutil.Hex(data[:k]), "opts": ot.String()})
				}
				switch k {
				case 0:
					s.Count("degenerate_file_of_0_bytes")
				case 9:
					s.Count("degenerate_file_of_exactly_the_9_header_bytes")
				case 10:
					s.Count("degenerate_file_of_10_bytes")
				}
				if k == len(data)-8 {
					s.Count("degenerate_eof_opcode_without_footer")
				}
				s.Count("degenerate_truncations")
			}
		}
	}

	phase("s3")
	// ------------------------------------------------ s3. a later replay beside the leftover of an aborted one
	{
		files := vfC04Files()
		for si, sc := range []struct {
			par, ps int
			bis     bool
			how     string
		}{{1, 1, false, "fail"}, {2, 1, false, "cancel"}, {2, 2, true, "fail"}, {3, 1, false, "fail"}, {1, 1, true, "cancel"}} {
			f := files[si%2]
			data := f.bytes()
			nreq := 3 + si
			mark(fmt.Sprintf("second-replay %d", si))
			first, second := vfC04SecondReplay(t, f, sc.par, sc.ps, sc.bis, sc.how, nreq)
			o := vfC04DefaultOpts()
			o.Parallel, o.PipeSize, o.Bisync = sc.par, sc.ps, sc.bis
			if first.Hang != "" || second.Hang != "" {
				s.Count("viol_hang")
				s.Violate("hang", "second replay beside an aborted one: "+first.Hang+second.Hang,
					map[string]interface{}{"scenario": "second-replay-after-abort", "file": f.Name, "rdb": vfutil.Hex(data), "opts": o.String(), "abort": sc.how, "at": nreq})
				continue
			}
			tag := fmt.Sprintf("(first replay: %s at request #%d)", sc.how, nreq)
			vfC04Monitor(s, "first-replay-aborted"+tag, f.Name, data, o, first)
			if first.Err == nil {
				s.Count("second_replay_first_not_aborted")
				continue
			}
			vfC04Monitor(s, "second-replay-after-abort"+tag, f.Name, data, o, second)
			s.Op(vfC04FanOp(data, o, "clean"), vfC04ResTok(second))
			s.Count("second_replay_after_abort")
			if second.Leak || first.Leak {
				s.Count("second_replay_beside_a_blocked_parser")
			}
		}
	}
}

// vfC04SecondReplay: SendRdb aborted at request #at (error reply / parent cancel), then — in the same bubble, on the SAME
// RedisOutput and target, the goroutines of the first replay left as they are — a second SendRdb with a fresh reader.
func vfC04SecondReplay(t *testing.T, f vfC04File, par, pipeSize int, bisync bool, how string, at int) (first, second vfC04Res) {
	oldPipe := config.RdbPipeSize
	config.RdbPipeSize = pipeSize
	defer func() { config.RdbPipeSize = oldPipe }()
	data := f.bytes()
	finished := false
	defer func() {
		if r := recover(); r != nil {
			msg := fmt.Sprint(r)
			if finished && strings.Contains(msg, "blocked goroutines remain") {
				first.Leak = true
				return
			}
			second.Hang = msg
		}
	}()
	synctest.Test(t, func(t *testing.T) {
		vfc20.SettleClock()
		tg := vfdoubles.NewTarget()
		tg.SetNow(time.Now().UnixMilli())
		c := &vfc20.Case{Mode: "wplain", Pol: "replace", Restore: false, MaxBulk: 1 << 29, Ver: "7.0.0"}
		if bisync {
			c.Mode = "bisync"
		}
		tg.FailExecToo = true
		tg.AcceptScripts = true
		ro := vfC20Output(c, tg, par)
		nSeed := tg.LogLen()
		ctx1, cancel1 := context.WithCancel(context.Background())
		defer cancel1()
		if how == "fail" {
			tg.FailAt[nSeed+at] = vfC04FailMsgs[at%len(vfC04FailMsgs)]
		} else {
			tg.Hook = func(idx int, e vfdoubles.LogEntry) {
				if idx == nSeed+at {
					cancel1()
				}
			}
		}
		judge := func(from int, err error) (r vfC04Res) {
			r.Err = err
			log := tg.LogCopy()[from:]
			r.NReq = len(log)
			for _, e := range log {
				if e.Cmd() == "hset" && len(e.Args) > 2 && string(e.Args[1]) == "vfcp" {
					for _, a := range e.Args[2:] {
						if string(a) == "vfrun_offset" {
							r.Cp = true
						}
					}
				}
			}
			r.AllApplied = true
			for _, kv := range f.KVs {
				want := vfc20.ExpectVal(kv, false, vfc20.BubbleNowMs)
				if !vfc20.SameVal(want, tg.Get(kv.DB, string(kv.Key))) {
					r.AllApplied = false
					r.Missing = append(r.Missing, string(kv.Key))
				}
			}
			return
		}
		err1 := ro.SendRdb(ctx1, &vfC04Reader{r: bufio.NewReaderSize(bytes.NewReader(data), 4096), size: int64(len(data))})
		synctest.Wait()
		first = judge(nSeed, err1)
		if bisync && err1 != nil && ro.bisyncOffset.Load() == vfC04Left {
			first.Cp = true
		}
		tg.Hook = nil
		n2 := tg.LogLen()
		ctx2, cancel2 := context.WithCancel(context.Background())
		defer cancel2()
		err2 := ro.SendRdb(ctx2, &vfC04Reader{r: bufio.NewReaderSize(bytes.NewReader(data), 4096), size: int64(len(data))})
		synctest.Wait()
		tg.CloseAll()
		second = judge(n2, err2)
		finished = true
	})
	return
}
