//go:build verif

package syncer

// C20 at the syncer level: the REAL worker loops RedisOutput.rdbReplay (plain)
// and RedisOutput.rdbReplayBisync (buildBisyncRdbReplayUnit with skippedKey +
// execBisyncRdbUnit) consume the entries the REAL rdb.Loader produced, against
// the shared target double with pre-populated keys in two DBs.
// Same line protocol and monitor as pkg/rdbrestore (pkg/vfc20/case.go), modes
// "wplain" and "bisync": no per-entry lines, SELECTs included, the bisync
// marker SET canonicalised to "marker".

import (
	"bufio"
	"bytes"
	"context"
	"encoding/json"
	"fmt"
	"io"
	"os"
	"strings"
	"testing"
	"testing/synctest"
	"time"

	"github.com/mgtv-tech/redis-GunYu/config"
	"github.com/mgtv-tech/redis-GunYu/pkg/rdb"
	"github.com/mgtv-tech/redis-GunYu/pkg/redis/client"
	"github.com/mgtv-tech/redis-GunYu/pkg/redis/client/conn"
	"github.com/mgtv-tech/redis-GunYu/pkg/util"
	"github.com/mgtv-tech/redis-GunYu/pkg/vfc20"
	"github.com/mgtv-tech/redis-GunYu/pkg/vfdoubles"
	"github.com/mgtv-tech/redis-GunYu/pkg/vfutil"
)

func vfC20Output(c *vfc20.Case, tg *vfdoubles.Target, parallel int) *RedisOutput {
	pol, perr := c.RealPol()
	if perr != nil {
		panic(perr)
	}
	cfg := RedisOutputConfig{
		InputName:                  "vf",
		CheckpointName:             "vfcp",
		RunId:                      "vfrun",
		BisyncEnabled:              c.Mode == "bisync",
		EnableResumeFromBreakPoint: true,
		TargetDb:                   c.TDB - 1,
		TargetDbMap:                c.DBMapGo(),
		KeyExists:                  pol,
		KeyExistsLog:               c.Log,
		ReplaceHashTag:             c.HashTag,
		MaxProtoBulkLen:            c.MaxBulk,
		ReplayRdbEnableRestore:     c.Restore,
		ReplayRdbParallel:          parallel,
		Stats:                      config.OutputStats{DisableLog: true},
	}
	cfg.Filter.DbBlacklist = c.FDB
	if len(c.FPre) > 0 {
		kf := &config.FilterKeyConfig{}
		for _, p := range c.FPre {
			kf.PrefixKeyBlacklist = append(kf.PrefixKeyBlacklist, string(vfutil.UnHex(p)))
		}
		cfg.Filter.KeyFilter = kf
	}
	cfg.Redis.Type = config.RedisTypeStandalone
	cfg.Redis.Otype = config.RedisTypeStandalone
	cfg.Redis.Addresses = config.SliceString{"double:0"}
	cfg.Redis.Version = c.Ver
	ro := NewRedisOutput(cfg)
	rc := ro.cfg.Redis
	ro.newRedisConn = func(ctx context.Context) (client.Redis, error) {
		return conn.VerifNewRedisConn(tg.Dial(), rc), nil
	}
	return ro
}

func vfC20Run(t *testing.T, c *vfc20.Case) *vfc20.Run {
	res := c.Prepare()
	if res.LoadErr != nil {
		return res
	}
	synctest.Test(t, func(t *testing.T) {
		vfc20.SettleClock()
		tg := vfdoubles.NewTarget()
		tg.XGroupKey = true
		tg.SetNow(time.Now().UnixMilli())
		for _, p := range c.Pre {
			vfc20.SeedPre(tg, p)
		}
		for _, b := range c.Bad {
			tg.BadRestore[string(vfutil.UnHex(b))] = true
		}
		res.Snapshot(tg, c, res.Before)
		if c.Cut > 0 {
			// the first attempt: the first Cut entries, then the worker's input ends (the run died / was cancelled there)
			first := c.Prepare()
			n := c.Cut
			if n > len(first.Bins) {
				n = len(first.Bins)
			}
			ro0 := vfC20Output(c, tg, 1)
			p0 := make(chan *rdb.BinEntry, n+1)
			for _, e := range first.Bins[:n] {
				p0 <- e
			}
			close(p0)
			if c.Mode == "bisync" {
				ro0.rdbReplayBisync(context.Background(), "vfrun", 5000, p0)
			} else {
				ro0.rdbReplay(context.Background(), p0)
			}
			synctest.Wait()
			tg.CloseAll()
			res.Orig = res.Before
			res.Before = map[vfc20.DK]*vfdoubles.Val{}
			res.Snapshot(tg, c, res.Before) // what the restart finds
		}
		nSeed := tg.LogLen()
		ro := vfC20Output(c, tg, 1)
		if c.FaultAt > 0 {
			at := nSeed + c.FaultAt - 1
			switch c.FaultKind {
			case "err":
				tg.FailAt = map[int]string{at: "ERR injected fault (not BUSYKEY, not a payload error)"}
				tg.FailExecToo = true
			case "drop":
				tg.DropAt = map[int]bool{at: true}
			case "lose":
				tg.LoseReplyAt = map[int]bool{at: true}
			}
		}
		if c.Slow > 0 {
			slow := time.Duration(c.Slow) * time.Millisecond
			tick := c.Tick
			tg.Hook = func(idx int, e vfdoubles.LogEntry) {
				time.Sleep(slow)
				if tick {
					tg.SetNow(time.Now().UnixMilli()) // the target's clock runs: keys expire during the run
				}
			}
		}
		if c.Window != "" {
			fired := false
			wk := string(vfutil.UnHex(c.Window))
			tg.Hook = func(idx int, e vfdoubles.LogEntry) {
				if e.Cmd() == "multi" && !fired {
					fired = true
					tg.Seed(e.DB, "set", wk, "CONCURRENT") // another client, between probe and EXEC
				}
			}
		}
		pipe := make(chan *rdb.BinEntry, len(res.Bins)+1)
		for _, e := range res.Bins {
			pipe <- e
		}
		close(pipe)
		var err error
		if c.Mode == "bisync" {
			err = ro.rdbReplayBisync(context.Background(), "vfrun", 5000, pipe)
		} else {
			err = ro.rdbReplay(context.Background(), pipe)
		}
		en, key := vfc20.ErrEnum(err)
		res.Final, res.FailKey = en, key
		if err != nil {
			res.ErrText = err.Error()
		}
		synctest.Wait()
		tg.CloseAll()
		res.Log = tg.LogCopy()[nSeed:]
		res.Snapshot(tg, c, res.After)
	})
	return res
}

// vfC20ParserLeft: failed SendRdb runs that left the parser goroutine blocked (observation, see vfC20RunSend)
var vfC20ParserLeft int

// vfC20RunSend: the REAL SendRdb (parser → distributor → c.Parallel workers)
// on the snapshot bytes, plain or bidirectional.
func vfC20RunSend(t *testing.T, c *vfc20.Case) (res *vfc20.Run) {
	res = c.Prepare()
	if res.LoadErr != nil {
		return res
	}
	data := vfc20.BuildRDB(c.KVList(), vfc20.Opts{Aux: true})
	if c.Thr > 0 {
		old := rdb.VerifSetMaxBinEntryBuffer(c.Thr)
		defer rdb.VerifSetMaxBinEntryBuffer(old)
	}
	if c.PipeSize > 0 {
		oldPipe := config.RdbPipeSize
		config.RdbPipeSize = c.PipeSize
		defer func() { config.RdbPipeSize = oldPipe }()
	}
	// a FAILED SendRdb leaves the snapshot parser's goroutine blocked on its full pipe for ever (rdb.ParseRdb has no
	// context; visible only with a small RdbPipeSize): the bubble then cannot end cleanly. The results were taken before.
	defer func() {
		if p := recover(); p != nil {
			if !strings.Contains(fmt.Sprint(p), "blocked goroutines remain") || res.Final == "ok" || res.Final == "" {
				panic(p)
			}
			vfC20ParserLeft++
		}
	}()
	synctest.Test(t, func(t *testing.T) {
		vfc20.SettleClock()
		tg := vfdoubles.NewTarget()
		tg.XGroupKey = true
		tg.SetNow(time.Now().UnixMilli())
		for _, p := range c.Pre {
			vfc20.SeedPre(tg, p)
		}
		res.Snapshot(tg, c, res.Before)
		nSeed := tg.LogLen()
		if c.Slow > 0 {
			// a slow target: the workers wait for every reply, their pipes stay full while the distributor sends
			slow := time.Duration(c.Slow) * time.Millisecond
			tg.Hook = func(idx int, e vfdoubles.LogEntry) { time.Sleep(slow) }
		}
		cc := *c
		if c.Mode == "sendbisync" {
			cc.Mode = "bisync"
		}
		ro := vfC20Output(&cc, tg, c.Parallel)
		var err error
		if c.Gate > 0 && c.Gate < len(data) {
			pr, pw := io.Pipe()
			done := make(chan error, 1)
			go func() {
				done <- ro.SendRdb(context.Background(), &vfC04Reader{r: bufio.NewReaderSize(pr, 4096), size: int64(len(data))})
			}()
			w1 := make(chan struct{})
			go func() { pw.Write(data[:c.Gate]); close(w1) }()
			finished := false
			select {
			case <-w1:
			case err = <-done:
				finished = true
			}
			if !finished {
				synctest.Wait() // parser, distributor and workers have done all they can with the first part
				go func() { pw.Write(data[c.Gate:]); pw.Close() }()
				err = <-done
			}
			pr.Close()
		} else if c.PipeSize > 0 {
			// back-pressure runs: a SendRdb that never returns must become a verdict, not a test timeout. The wait is in
			// VIRTUAL time: the timer fires only when every goroutine of the run is blocked for good.
			pctx, pcancel := context.WithCancel(context.Background())
			done := make(chan error, 1)
			go func() {
				done <- ro.SendRdb(pctx, &vfC04Reader{r: bufio.NewReaderSize(bytes.NewReader(data), 4096), size: int64(len(data))})
			}()
			select {
			case err = <-done:
				pcancel()
			case <-time.After(10 * time.Minute):
				res.Final = "hang"
				res.Log = tg.LogCopy()[nSeed:]
				res.Snapshot(tg, c, res.After)
				pcancel() // ends the statistics goroutine; what is blocked without the context stays blocked
				synctest.Wait()
				tg.CloseAll()
				return
			}
		} else {
			err = ro.SendRdb(context.Background(), &vfC04Reader{r: bufio.NewReaderSize(bytes.NewReader(data), 4096), size: int64(len(data))})
		}
		en, key := vfc20.ErrEnum(err)
		res.Final, res.FailKey = en, key
		if err != nil {
			res.ErrText = err.Error()
		}
		synctest.Wait()
		tg.CloseAll()
		res.Log = tg.LogCopy()[nSeed:]
		res.Snapshot(tg, c, res.After)
	})
	return res
}

func TestVerifC20Syncer(t *testing.T) {
	s := vfutil.NewSession("C20S")
	defer s.Close()
	defer func() { s.Add("observed_parser_goroutine_left_blocked_after_failed_sendrdb", vfC20ParserLeft) }()
	idx := 0
	run := func(c *vfc20.Case, src string) {
		r := vfC20Run(t, c)
		if r.LoadErr != nil {
			s.Violate("generator-rdb-rejected", r.LoadErr.Error(), c.Replay())
			return
		}
		if c.Cut > 0 {
			found := r.Before
			r.Before = r.Orig // the model's answer lines speak about the original target
			vfc20.Emit(s, idx, c, r)
			idx++
			r.Before = found
			vfc20.CheckRerun(s, c, r, r.Orig)
			vfc20.Stats(s, c, r, src)
			return
		}
		vfc20.Emit(s, idx, c, r)
		idx++
		vfc20.Monitors(s, c, r)
		vfc20.Stats(s, c, r, src)
	}
	// the REAL SendRdb with c.Parallel workers: order-free monitors, the routing partition against the model
	send := func(c *vfc20.Case, src string) {
		r := vfC20RunSend(t, c)
		if r.LoadErr != nil {
			s.Violate("generator-rdb-rejected", r.LoadErr.Error(), c.Replay())
			return
		}
		if !vfc20.CheckTerminated(s, c, r, "") {
			return
		}
		if !c.Collides() {
			vfc20.CheckParallel(s, c, r)
		}
		vfc20.CheckCells(s, c, r)
		if vfc20.EmitRoute(s, idx, c, r) {
			idx++
			s.Count("route_partition_compared")
		}
		if c.Collides() && vfc20.EmitPin(s, idx, c, r) {
			idx++
			s.Count("collide_pin_compared")
		}
		vfc20.Stats(s, c, r, src)
	}
	if p := os.Getenv("VERIF_REPLAY"); p != "" {
		if b, err := os.ReadFile(p); err == nil {
			var rp struct {
				Replay struct {
					Case string `json:"case"`
				} `json:"replay"`
			}
			if json.Unmarshal(b, &rp) == nil && rp.Replay.Case != "" {
				var c vfc20.Case
				if json.Unmarshal([]byte(rp.Replay.Case), &c) == nil && (c.Mode == "send" || c.Mode == "sendbisync") {
					for rep := 0; rep < 50; rep++ {
						send(&c, "replay")
					}
				} else if json.Unmarshal([]byte(rp.Replay.Case), &c) == nil && c.FaultAt > 0 {
					cc := c
					cc.FaultAt, cc.FaultKind = 0, ""
					vfc20.CheckFault(s, &c, vfC20Run(t, &cc), vfC20Run(t, &c))
				} else if json.Unmarshal([]byte(rp.Replay.Case), &c) == nil && c.Tick {
					vfc20.CheckExpiryKept(s, &c, vfC20Run(t, &c))
				} else if json.Unmarshal([]byte(rp.Replay.Case), &c) == nil && c.Mode != "plain" && c.Mode != "" {
					run(&c, "replay")
				}
			}
		}
	}
	for _, l := range vfutil.Corpus("C20") {
		if strings.HasPrefix(l, "send ") || strings.HasPrefix(l, "sendbisync ") {
			var c vfc20.Case
			if err := json.Unmarshal([]byte(l[strings.Index(l, " ")+1:]), &c); err != nil {
				t.Fatalf("corpus line: %v", err)
			}
			send(&c, "corpus")
			continue
		}
		for _, mode := range []string{"wplain", "bisync"} {
			if !strings.HasPrefix(l, "plain ") && !strings.HasPrefix(l, mode+" ") {
				continue
			}
			var c vfc20.Case
			if err := json.Unmarshal([]byte(l[strings.Index(l, " ")+1:]), &c); err != nil {
				t.Fatalf("corpus line: %v", err)
			}
			c.Mode = mode
			run(&c, "corpus")
		}
	}
	for _, mode := range []string{"wplain", "bisync"} {
		for _, c := range vfc20.Exhaustive(mode) {
			run(c, "exhaustive")
		}
		for _, c := range vfc20.ExhaustiveTwins(mode) {
			run(c, "exhaustive-twins")
		}
		for _, c := range vfc20.ExhaustivePolicyStrings(mode) {
			run(c, "exhaustive-policy-strings")
		}
		for _, c := range vfc20.ExhaustiveHashTag(mode) {
			run(c, "exhaustive-hashtag")
		}
	}
	for _, mode := range []string{"wplain", "bisync"} {
		for _, c := range vfc20.ExhaustiveBad(mode) {
			run(c, "exhaustive-bad-data")
		}
		for _, c := range vfc20.ExhaustiveModule(mode) {
			run(c, "exhaustive-module")
		}
		for _, c := range vfc20.ExhaustiveEmpty(mode) {
			run(c, "exhaustive-empty-collection")
		}
		for _, c := range vfc20.ExhaustiveExpiry(mode) {
			run(c, "exhaustive-expiry-boundary")
		}
		for _, c := range vfc20.ExhaustiveBig(mode) {
			run(c, "exhaustive-big")
		}
		for _, c := range vfc20.ExhaustiveRerun(mode) {
			run(c, "exhaustive-rerun")
		}
		// two snapshot keys on ONE target cell (TargetDb, non-injective TargetDbMap, replaceHashTag, a key twice); output filters
		for _, c := range vfc20.ExhaustiveCollide(mode) {
			run(c, "exhaustive-collide")
		}
		for _, c := range vfc20.ExhaustiveFilter(mode) {
			run(c, "exhaustive-filter")
		}
	}
	// … and the same through the real SendRdb with 3 workers: the colliding keys hash to different workers by their
	// SOURCE names ("{a}b0" / "ab0"), to one worker by the key they are replayed to
	for _, mode := range []string{"send", "sendbisync"} {
		for _, c := range vfc20.ExhaustiveCollide(mode) {
			c.Parallel = 3
			for rep := 0; rep < vfutil.Scale(2, 6); rep++ {
				cc := *c
				if rep > 0 {
					n := len(vfc20.BuildRDB(cc.KVList(), vfc20.Opts{Aux: true}))
					cc.Gate = 30 + (rep*37)%(n-40)
				}
				send(&cc, "exhaustive-collide-send")
			}
		}
		for i, c := range vfc20.ExhaustiveFilter(mode) {
			c.Parallel = 2 + i%2
			send(c, "exhaustive-filter-send")
		}
	}
	// back-pressure: pipes of 1-2 entries per worker, a slow target
	for _, mode := range []string{"send", "sendbisync"} {
		for _, c := range vfc20.BackPressure(mode) {
			send(c, "send-backpressure")
		}
	}
	// DIMENSION AUDIT: the ladder table (no fault: compared with the model), then EVERY request of every row meeting a fault
	for _, mode := range []string{"wplain", "bisync"} {
		for li, c := range vfc20.Ladder(mode) {
			clean := vfC20Run(t, c)
			if clean.LoadErr != nil {
				s.Violate("generator-rdb-rejected", clean.LoadErr.Error(), c.Replay())
				continue
			}
			vfc20.Emit(s, idx, c, clean)
			idx++
			vfc20.Monitors(s, c, clean)
			vfc20.Stats(s, c, clean, "ladder")
			kinds := []string{"err", "drop", "lose"}
			for k := 1; k <= len(clean.Log); k++ {
				// quick tier: every request with one kind (rotating), thorough: all three
				for ki, kind := range kinds {
					if vfutil.Scale(1, 3) == 1 && (li+k)%3 != ki {
						continue
					}
					fc := *c
					fc.FaultAt, fc.FaultKind = k, kind
					r := vfC20Run(t, &fc)
					if r.LoadErr != nil {
						continue
					}
					vfc20.CheckFault(s, &fc, clean, r)
					s.Count("case_ladder-fault")
					s.Count("fault_on_" + clean.Log[k-1].Cmd())
				}
			}
		}
		for _, c := range vfc20.ExpiryBetweenChunks(mode) {
			r := vfC20Run(t, c)
			if r.LoadErr != nil {
				s.Violate("generator-rdb-rejected", r.LoadErr.Error(), c.Replay())
				continue
			}
			vfc20.CheckExpiryKept(s, c, r)
			vfc20.Stats(s, c, r, "expiry-between-chunks")
		}
	}
	// a worker FAILS while the distributor is blocked on full pipes: SendRdb returns, with the worker's error
	for _, mode := range []string{"send", "sendbisync"} {
		for _, c := range vfc20.BackPressureFail(mode) {
			r := vfC20RunSend(t, c)
			if r.LoadErr != nil {
				s.Violate("generator-rdb-rejected", r.LoadErr.Error(), c.Replay())
				continue
			}
			want := "err-exists"
			if c.Pol != "error" {
				want = "err-module"
			}
			if vfc20.CheckTerminated(s, c, r, want) {
				vfc20.CheckParallel(s, c, r)
				vfc20.CheckCells(s, c, r)
			}
			vfc20.Stats(s, c, r, "send-backpressure-fail")
		}
	}
	// util.FnvHash (the distributor's hash) against the model's fnv32a
	{
		rf := vfutil.NewRand(vfutil.Seed() + 4242)
		keys := [][]byte{nil, []byte("{a}b0"), []byte("ab0"), []byte("k")}
		for i := 0; i < vfutil.Scale(300, 3000); i++ {
			keys = append(keys, rf.Bytes(rf.Range(0, 40)))
		}
		for _, k := range keys {
			hk := vfutil.Hex(k)
			if len(k) == 0 {
				hk = "-"
			}
			s.Op("c20fnv "+hk, fmt.Sprintf("%d", util.FnvHash(k)))
			idx++
		}
		s.Count("fnv_compared")
	}
	// a client write between the EXISTS probe and the unit's EXEC (bidirectional, RESTORE path)
	for _, pol := range []string{"replace", "ignore", "error"} {
		for _, ty := range []int{0, 1, 4} {
			c := vfc20.Exhaustive("bisync")[0]
			c.Pol, c.Restore, c.Thr, c.Pre = pol, true, 0, nil
			c.KVs[0].Type, c.KVs[0].Exp = ty, 2
			c.KVs[0].Str, c.KVs[0].Items = "", nil
			if ty == 0 {
				c.KVs[0].Str = vfutil.HexS("val")
			} else {
				c.KVs[0].Items = []string{vfutil.HexS("f1"), vfutil.HexS("v1")}
			}
			c.Window = c.KVs[0].Key
			r := vfC20Run(t, c)
			if r.LoadErr != nil {
				s.Violate("generator-rdb-rejected", r.LoadErr.Error(), c.Replay())
				continue
			}
			vfc20.CheckWindow(s, c, r)
			s.Count("case_window")
		}
	}
	// a slow source: the snapshot arrives in two parts with quiescence in between, at EVERY byte offset;
	// split values, tagged keys ({{k0}} loses one brace pair per rewriting), 1-2 workers
	for _, ht := range []bool{true, false} {
		for _, pol := range []string{"ignore", "replace", "error"} {
			for _, par := range []int{1, 2} {
				base := vfc20.Case{Mode: "send", Pol: pol, Thr: 1, MaxBulk: 1 << 29, Ver: "7.0.0", Parallel: par, HashTag: ht,
					KVs: []vfc20.KVSpec{
						{Key: vfutil.HexS("{{k0}}"), Type: 4, Items: []string{vfutil.HexS("f0"), vfutil.HexS("a"), vfutil.HexS("f1"), vfutil.HexS("b"), vfutil.HexS("f2"), vfutil.HexS("c")}},
						{Key: vfutil.HexS("{k1"), Type: 4, Exp: 2, Items: []string{vfutil.HexS("f0"), vfutil.HexS("d"), vfutil.HexS("f1"), vfutil.HexS("e")}},
						{DB: 1, Key: vfutil.HexS("k2{t}"), Type: 4, Items: []string{vfutil.HexS("f0"), vfutil.HexS("g"), vfutil.HexS("f1"), vfutil.HexS("h")}},
					}}
				if pol != "replace" || par == 1 {
					base.Pre = []vfc20.Pre{{Key: vfutil.Hex(base.TKey([]byte("{k1"))), Kind: "hash"}}
				}
				n := len(vfc20.BuildRDB(base.KVList(), vfc20.Opts{Aux: true}))
				step := vfutil.Scale(2, 1)
				for g := 40; g < n-9; g += step {
					c := base
					c.Gate = g
					r := vfC20RunSend(t, &c)
					if r.LoadErr != nil {
						continue
					}
					vfc20.CheckParallel(s, &c, r)
					s.Count("case_send-gated")
				}
			}
		}
	}
	// the real SendRdb with several workers under every policy, split values included
	rs := vfutil.NewRand(vfutil.Seed() + 991)
	ns := vfutil.Scale(250, 4000)
	for i := 0; i < ns; i++ {
		c := vfc20.GenCase(rs.Fork(), "send", 2)
		if i%3 == 2 {
			c.Mode = "sendbisync"
		}
		c.Bad, c.Window = nil, ""
		c.Parallel = 2 + i%2
		if i%4 == 0 {
			// several split hashes so that chunks of different keys interleave across workers
			c.Thr = 1
			for j := 0; j < 3; j++ {
				key := vfutil.HexS(fmt.Sprintf("sh%d", j))
				c.KVs = append(c.KVs, vfc20.KVSpec{DB: 1, Key: key, Type: 4, Items: []string{vfutil.HexS("a"), vfutil.HexS("1"), vfutil.HexS("b"), vfutil.HexS("2"), vfutil.HexS("c"), vfutil.HexS("3")}})
				if j != 1 {
					c.Pre = append(c.Pre, vfc20.Pre{DB: 1, Key: key, Kind: "hash"})
				}
			}
		}
		if i%5 == 1 {
			c = vfc20.GenCollide(rs.Fork(), c.Mode)
			c.Parallel = 2 + i%3
			if i%2 == 0 {
				c.Gate = 30 + rs.Intn(60)
			}
		}
		send(c, "send-parallel")
	}
	r := vfutil.NewRand(vfutil.Seed() + 77)
	n := vfutil.Scale(1200, 20000)
	for i := 0; i < n; i++ {
		mode := "bisync"
		if i%3 == 0 {
			mode = "wplain"
		}
		if i%6 == 5 {
			run(vfc20.GenCollide(r.Fork(), mode), "random-collide")
			continue
		}
		run(vfc20.GenCase(r.Fork(), mode, 2), "random")
	}
}
