//go:build verif

package syncer

// C20 at the syncer level: the REAL worker loops RedisOutput.rdbReplay (plain)
// and RedisOutput.rdbReplayBisync (buildBisyncRdbReplayUnit with skippedKey +
// execBisyncRdbUnit) consume the entries the REAL rdb.Loader produced, against
// the shared target double with pre-populated keys in two DBs.
// Same line protocol and monitor as pkg/rdbrestore (pkg/vfc20/case.go), modes
// "wplain" and "bisync": no per-entry lines, SELECTs included, the bisync
// marker SET canonicalised to "marker".

import (
	"context"
	"encoding/json"
	"os"
	"strings"
	"testing"
	"testing/synctest"
	"time"

	"github.com/mgtv-tech/redis-GunYu/config"
	"github.com/mgtv-tech/redis-GunYu/pkg/rdb"
	"github.com/mgtv-tech/redis-GunYu/pkg/redis/client"
	"github.com/mgtv-tech/redis-GunYu/pkg/redis/client/conn"
	"github.com/mgtv-tech/redis-GunYu/pkg/vfc20"
	"github.com/mgtv-tech/redis-GunYu/pkg/vfdoubles"
	"github.com/mgtv-tech/redis-GunYu/pkg/vfutil"
)

func vfC20Output(c *vfc20.Case, tg *vfdoubles.Target, parallel int) *RedisOutput {
	cfg := RedisOutputConfig{
		InputName:                  "vf",
		CheckpointName:             "vfcp",
		RunId:                      "vfrun",
		BisyncEnabled:              c.Mode == "bisync",
		EnableResumeFromBreakPoint: true,
		TargetDb:                   -1,
		KeyExists:                  c.Pol,
		MaxProtoBulkLen:            c.MaxBulk,
		ReplayRdbEnableRestore:     c.Restore,
		ReplayRdbParallel:          parallel,
		Stats:                      config.OutputStats{DisableLog: true},
	}
	cfg.Redis.Type = config.RedisTypeStandalone
	cfg.Redis.Otype = config.RedisTypeStandalone
	cfg.Redis.Addresses = config.SliceString{"double:0"}
	cfg.Redis.Version = c.Ver
	ro := NewRedisOutput(cfg)
	rc := ro.cfg.Redis
	ro.newRedisConn = func(ctx context.Context) (client.Redis, error) {
		return conn.VerifNewRedisConn(tg.Dial(), rc), nil
	}
	return ro
}

func vfC20Run(t *testing.T, c *vfc20.Case) *vfc20.Run {
	res := c.Prepare()
	if res.LoadErr != nil {
		return res
	}
	synctest.Test(t, func(t *testing.T) {
		tg := vfdoubles.NewTarget()
		tg.SetNow(time.Now().UnixMilli())
		for _, p := range c.Pre {
			vfc20.SeedPre(tg, p)
		}
		res.Snapshot(tg, c, res.Before)
		nSeed := tg.LogLen()
		ro := vfC20Output(c, tg, 1)
		pipe := make(chan *rdb.BinEntry, len(res.Bins)+1)
		for _, e := range res.Bins {
			pipe <- e
		}
		close(pipe)
		var err error
		if c.Mode == "bisync" {
			err = ro.rdbReplayBisync(context.Background(), "vfrun", 5000, pipe)
		} else {
			err = ro.rdbReplay(context.Background(), pipe)
		}
		en, key := vfc20.ErrEnum(err)
		res.Final, res.FailKey = en, key
		if err != nil {
			res.ErrText = err.Error()
		}
		synctest.Wait()
		tg.CloseAll()
		res.Log = tg.LogCopy()[nSeed:]
		res.Snapshot(tg, c, res.After)
	})
	return res
}

func TestVerifC20Syncer(t *testing.T) {
	s := vfutil.NewSession("C20S")
	defer s.Close()
	idx := 0
	run := func(c *vfc20.Case, src string) {
		r := vfC20Run(t, c)
		if r.LoadErr != nil {
			s.Violate("generator-rdb-rejected", r.LoadErr.Error(), c.Replay())
			return
		}
		vfc20.Emit(s, idx, c, r)
		idx++
		vfc20.Check(s, c, r)
		vfc20.Stats(s, c, r, src)
	}
	if p := os.Getenv("VERIF_REPLAY"); p != "" {
		if b, err := os.ReadFile(p); err == nil {
			var rp struct {
				Replay struct {
					Case string `json:"case"`
				} `json:"replay"`
			}
			if json.Unmarshal(b, &rp) == nil && rp.Replay.Case != "" {
				var c vfc20.Case
				if json.Unmarshal([]byte(rp.Replay.Case), &c) == nil && c.Mode != "plain" && c.Mode != "" {
					run(&c, "replay")
				}
			}
		}
	}
	for _, l := range vfutil.Corpus("C20") {
		for _, mode := range []string{"wplain", "bisync"} {
			if !strings.HasPrefix(l, "plain ") && !strings.HasPrefix(l, mode+" ") {
				continue
			}
			var c vfc20.Case
			if err := json.Unmarshal([]byte(l[strings.Index(l, " ")+1:]), &c); err != nil {
				t.Fatalf("corpus line: %v", err)
			}
			c.Mode = mode
			run(&c, "corpus")
		}
	}
	for _, mode := range []string{"wplain", "bisync"} {
		for _, c := range vfc20.Exhaustive(mode) {
			run(c, "exhaustive")
		}
	}
	r := vfutil.NewRand(vfutil.Seed() + 77)
	n := vfutil.Scale(1200, 20000)
	for i := 0; i < n; i++ {
		mode := "bisync"
		if i%3 == 0 {
			mode = "wplain"
		}
		run(vfc20.GenCase(r.Fork(), mode, 2), "random")
	}
}
