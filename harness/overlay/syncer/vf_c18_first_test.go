//go:build verif

package syncer

// C18 — first use of the slot-tag table under concurrency (seeded C18-r8-m1).
//
// checkpoint.BisyncSlotTag builds its 16384-entry table on first use; the table is process-global, so only the very
// first use in a process can show a caller that does not wait for the build. The test re-executes its own binary
// (one fresh process per case, GOMAXPROCS 1 / 2 / 4 / 8): as the FIRST thing the child does, 8 goroutines released
// by one barrier ask for slot tags — half through checkpoint.BisyncSlotTag, half through the real builder
// (buildBisyncReplayUnitWithMode in cluster mode on a key of a known slot) — and report what they read. The parent
// checks every answer with the independent bitwise HASH_SLOT: the tag is non-empty, "{tag}" hashes to the slot, and
// the marker / latest / index / commit-record keys made from it hash to the slot. Monitor `first-use-slot-tag`,
// replay = the child's seed and GOMAXPROCS (re-run by --replay). Under the thorough tier the binary is built with
// -race (go_flags_thorough): a data race reported by a child is a violation too. Each tag read is also an op
// `c18 tag <slot>` for the Lean driver.

import (
	"bufio"
	"bytes"
	"encoding/json"
	"fmt"
	"os"
	"os/exec"
	"strconv"
	"strings"
	"sync"
	"testing"

	"github.com/mgtv-tech/redis-GunYu/pkg/redis/checkpoint"
	"github.com/mgtv-tech/redis-GunYu/pkg/vfutil"
)

const vfc18FirstEnv = "VERIF_C18_FIRST_CHILD"

const vfc18FirstCp = "redis-gunyu-checkpoint-bisync:0123456789abcdef01234567"

// the child: nothing of the package has touched the table yet
func vfc18FirstChild(seed uint64) {
	const n = 8
	r := vfutil.NewRand(seed)
	type ask struct {
		viaBuilder bool
		slot       int
		key        []byte
	}
	asks := make([]ask, n)
	for i := range asks {
		if i%2 == 0 {
			asks[i] = ask{slot: r.Intn(16384)}
		} else {
			k := []byte(fmt.Sprintf("k%d{t%d}", r.Intn(9), r.Intn(5000)))
			asks[i] = ask{viaBuilder: true, key: k, slot: vfc18HashSlot(k)}
		}
	}
	start := make(chan struct{})
	out := make([]string, n)
	var wg sync.WaitGroup
	for i := range asks {
		wg.Add(1)
		go func(i int) {
			defer wg.Done()
			a := asks[i]
			<-start
			tag, slot, kind := "", a.slot, "tag"
			if a.viaBuilder {
				kind = "build"
				u, err := buildBisyncReplayUnitWithMode(1, 0, 1, false, nil, []bisyncAofCommand{{Cmd: "set", Args: [][]byte{a.key, []byte("v")}}}, bisyncSlotMode{})
				if err != nil {
					out[i] = fmt.Sprintf("C18FIRST %s %d err %s", kind, a.slot, vfutil.HexS(err.Error()))
					return
				}
				tag, slot = u.SlotTag, int(u.Slot)
			} else {
				tag = checkpoint.BisyncSlotTag(uint16(a.slot))
			}
			keys := []string{checkpoint.BisyncMarkerKey(vfc18FirstCp, tag), checkpoint.BisyncLatestCheckpointKey(vfc18FirstCp, tag),
				checkpoint.BisyncCommitIndexKey(vfc18FirstCp, tag), checkpoint.BisyncCommitRecordKey(vfc18FirstCp, tag, 7)}
			ks := make([]string, len(keys))
			for j, k := range keys {
				ks[j] = strconv.Itoa(vfc18HashSlot([]byte(k)))
			}
			out[i] = fmt.Sprintf("C18FIRST %s %d %d ok %s %s", kind, a.slot, slot, vfutil.HexS(tag), strings.Join(ks, ","))
		}(i)
	}
	close(start)
	wg.Wait()
	for _, l := range out {
		fmt.Println(l)
	}
}

func TestVerifC18First(t *testing.T) {
	if v := os.Getenv(vfc18FirstEnv); v != "" {
		seed, _ := strconv.ParseUint(v, 10, 64)
		vfc18FirstChild(seed)
		return
	}
	s := vfutil.NewSession("C18first")
	defer s.Close()
	r := vfutil.NewRand(vfutil.Seed())
	type cse struct {
		seed  uint64
		procs int
	}
	var cases []cse
	if rp := os.Getenv("VERIF_REPLAY"); rp != "" {
		var doc struct {
			Replay map[string]interface{} `json:"replay"`
		}
		if raw, err := os.ReadFile(rp); err == nil && json.Unmarshal(raw, &doc) == nil && doc.Replay["first_use"] != nil {
			sd, _ := strconv.ParseUint(fmt.Sprint(doc.Replay["child_seed"]), 10, 64)
			p, _ := doc.Replay["gomaxprocs"].(float64)
			for i := 0; i < 8; i++ { // scheduling is drawn by the machine: a few times
				cases = append(cases, cse{sd, int(p)})
			}
			s.Count("replayed_first_use_case")
		}
	}
	if len(cases) == 0 {
		for i, n := 0, vfutil.Scale(12, 60); i < n; i++ {
			cases = append(cases, cse{r.U64() % (1 << 40), []int{1, 2, 4, 8}[i%4]})
		}
	}
	for _, c := range cases {
		replay := map[string]interface{}{"first_use": 1, "child_seed": fmt.Sprint(c.seed), "gomaxprocs": c.procs}
		cmd := exec.Command(os.Args[0], "-test.run=^TestVerifC18First$", "-test.count=1", "-test.timeout=120s")
		cmd.Env = append(os.Environ(), vfc18FirstEnv+"="+strconv.FormatUint(c.seed, 10), "GOMAXPROCS="+strconv.Itoa(c.procs))
		var stdout, stderr bytes.Buffer
		cmd.Stdout, cmd.Stderr = &stdout, &stderr
		err := cmd.Run()
		s.Count(fmt.Sprintf("first_use_child_gomaxprocs_%d", c.procs))
		lines := 0
		sc := bufio.NewScanner(bytes.NewReader(stdout.Bytes()))
		sc.Buffer(make([]byte, 1<<20), 1<<20)
		for sc.Scan() {
			f := strings.Fields(sc.Text())
			if len(f) < 4 || f[0] != "C18FIRST" {
				continue
			}
			lines++
			want, _ := strconv.Atoi(f[2])
			if f[3] == "err" || len(f) < 7 {
				msg := ""
				if len(f) > 4 {
					msg = string(vfutil.UnHex(f[4]))
				}
				replay["slot"] = want
				s.Violate("first-use-slot-tag", fmt.Sprintf("first use in a fresh process, 8 goroutines at once (GOMAXPROCS=%d): the builder refused a single-key command of slot %d: %s", c.procs, want, msg), replay)
				continue
			}
			slot, _ := strconv.Atoi(f[3])
			tag := string(vfutil.UnHex(f[5]))
			s.Op(fmt.Sprintf("c18 tag %d", slot), f[5])
			s.Count("first_use_answers_" + f[1])
			bad := ""
			switch {
			case slot != want:
				bad = fmt.Sprintf("the unit's slot is %d, HASH_SLOT of its key is %d", slot, want)
			case tag == "":
				bad = "the slot tag read is EMPTY (the table was read before it was built)"
			case vfc18HashSlot([]byte("{"+tag+"}")) != slot:
				bad = fmt.Sprintf("HASH_SLOT({%s}) = %d", tag, vfc18HashSlot([]byte("{"+tag+"}")))
			}
			if bad == "" {
				for j, ks := range strings.Split(f[6], ",") {
					if n, _ := strconv.Atoi(ks); n != slot {
						bad = fmt.Sprintf("control key #%d (marker, latest, index, commit record) made from tag %q hashes to slot %d", j, tag, n)
						break
					}
				}
			}
			if bad != "" {
				rp := map[string]interface{}{"first_use": 1, "child_seed": fmt.Sprint(c.seed), "gomaxprocs": c.procs, "slot": slot, "tag": tag, "via": f[1]}
				s.Violate("first-use-slot-tag", fmt.Sprintf("first use in a fresh process, 8 goroutines at once (GOMAXPROCS=%d), slot %d asked through %s: %s — the unit's control keys leave the unit's slot and the cluster batcher refuses a single-slot command",
					c.procs, slot, f[1], bad), rp)
			}
		}
		if strings.Contains(stderr.String(), "DATA RACE") {
			s.Violate("first-use-slot-tag", "the race detector reports a data race in the child (first use of the slot-tag table by 8 goroutines): "+vfc18Tail(stderr.String(), 1500), replay)
		} else if err != nil || lines != 8 {
			// the child did not run to its end: infrastructure, not a verdict
			// (an op the model cannot answer alike: a broken tie, never a violation with a failing input)
			s.Count("first_use_child_failed")
			s.Op("c18 tag child-did-not-report", fmt.Sprintf("child exit %v, %d of 8 answers; stderr: %s", err, lines, strings.ReplaceAll(vfc18Tail(stderr.String(), 600), "\n", " | ")))
		}
	}
}

func vfc18Tail(s string, n int) string {
	if len(s) > n {
		return s[len(s)-n:]
	}
	return s
}
