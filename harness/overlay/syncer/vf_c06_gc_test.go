//go:build verif

package syncer

// C06 session C06d (session 5): collector x (re)connection, ENUMERATED.
//
// One REAL pass of the disk collector (Storer.gcLog, what the 30 s job runs) is placed at every point of
// one real RedisInput.run() at which it can run between two calls on the channel:
//
//	pt 0  no pass (baseline)
//	pt 1  after channel.StartPoint, before IsValidOffset
//	pt 2  after IsValidOffset / before GetRdb
//	pt 3  after the last query before PSYNC (IsValidOffset / GetRdb) was answered: the pass runs during the
//	      PSYNC round trip, before DelRunId / SetRunId                                (N9's window)
//	pt 4  after SetRunId, before the writer is created
//	pt 5  after the writer was created, before the reader is created      (N4's window)
//
// for every scenario (stored position inside the OLD part of the cached log, inside its NEWEST part,
// before the cached snapshot, no position at all) and two size limits (`all`: everything goes;
// `part`: the snapshot and the oldest segments go, the newest stay). Every combination runs in every
// check run (6 x 4 x 2 = 48 real connections + 48 follow-up connections without a pass).
//
// Compared with the Lean model `syncMetaG` (Model/PsyncMach.lean; op `gcp`): the decision taken on the
// images of the cache each call saw (read through the channel's own query API at that moment), the
// PSYNC line, the reply, DelRunId / run id, the writer's and the reader's start offset.
// Judged by monitors: request offset = writer start + 1; a log delivery starts exactly at the stored
// offset under the stored id and all its bytes are the history's; a cached snapshot handed over is the
// one that was cached, complete; the log the cache holds afterwards reads back as the history; the same
// for the follow-up connection (what a bad cache left behind would serve).

import (
	"bytes"
	"context"
	"fmt"
	"io"
	"os"
	"path/filepath"
	"strconv"
	"strings"
	"sync"
	"sync/atomic"
	"testing"
	"time"

	"github.com/mgtv-tech/redis-GunYu/config"
	"github.com/mgtv-tech/redis-GunYu/pkg/log"
	usync "github.com/mgtv-tech/redis-GunYu/pkg/sync"
	"github.com/mgtv-tech/redis-GunYu/pkg/vfutil"
)

type vf6GcCase struct {
	scn     string // old | new | snap | nopos
	pt      int
	lim     string // all | part
	left    int64
	size    int64
	logSize int64
	n       int64
	x       int64 // stored offset (ignored for nopos)
	k       int64
	seed    uint64
}

func (g *vf6GcCase) String() string {
	return fmt.Sprintf("gcp scn=%s pt=%d lim=%s left=%d size=%d logSize=%d n=%d x=%d k=%d seed=%d", g.scn, g.pt, g.lim, g.left, g.size, g.logSize, g.n, g.x, g.k, g.seed)
}

func vf6ParseGcCase(l string) (*vf6GcCase, error) {
	f := strings.Fields(l)
	if len(f) < 2 || f[0] != "gcp" {
		return nil, fmt.Errorf("not a gcp line")
	}
	g := &vf6GcCase{}
	for _, kv := range f[1:] {
		p := strings.SplitN(kv, "=", 2)
		if len(p) != 2 {
			return nil, fmt.Errorf("bad field %q", kv)
		}
		n, _ := strconv.ParseInt(p[1], 10, 64)
		switch p[0] {
		case "scn":
			g.scn = p[1]
		case "lim":
			g.lim = p[1]
		case "pt":
			g.pt = int(n)
		case "left":
			g.left = n
		case "size":
			g.size = n
		case "logSize":
			g.logSize = n
		case "n":
			g.n = n
		case "x":
			g.x = n
		case "k":
			g.k = n
		case "seed":
			g.seed = uint64(n)
		default:
			return nil, fmt.Errorf("unknown field %q", p[0])
		}
	}
	if g.size <= 0 || g.left < g.size || g.n <= 0 || g.logSize <= 0 || g.pt < 0 || g.pt > 5 {
		return nil, fmt.Errorf("bad gcp case")
	}
	return g, nil
}

func (g *vf6GcCase) maxSize() int64 {
	if g.lim == "all" {
		return 1
	}
	return 2*g.logSize + g.logSize/2
}

// the channel proxy that places the pass and records what each call saw
type vf6GcPt struct {
	*vf6Chan
	mu    sync.Mutex
	point int
	pass  func()
	fired bool
	img   [4]string
	have  [4]bool
}

func (p *vf6GcPt) describe() string {
	in := p.vf6Chan.inner
	id := in.RunId()
	rl, rs := in.GetRdb(id)
	l, r := in.GetOffsetRange(id)
	h := "-"
	if id != "" {
		h = vfutil.HexS(id)
	}
	return fmt.Sprintf("%s,%d,%d,%d,%d", h, rl, rs, l, r)
}

// at: the call of index i is about to run
func (p *vf6GcPt) at(i int) {
	p.mu.Lock()
	defer p.mu.Unlock()
	if !p.fired && p.point == i && i > 0 {
		p.fired = true
		p.pass()
	}
	if i <= 3 && !p.have[i] {
		p.have[i] = true
		p.img[i] = p.describe()
	}
}

func (p *vf6GcPt) StartPoint(ids []string) (StartPoint, error) {
	p.at(0)
	return p.vf6Chan.StartPoint(ids)
}
func (p *vf6GcPt) IsValidOffset(o Offset) bool {
	p.at(1)
	v := p.vf6Chan.IsValidOffset(o)
	p.after3()
	return v
}
func (p *vf6GcPt) GetRdb(id string) (int64, int64) {
	p.at(2)
	l, sz := p.vf6Chan.GetRdb(id)
	p.after3()
	return l, sz
}

// pt 3 fires as soon as the last query before the PSYNC round trip has been answered (N9's window: a
// second reading of the cache after the round trip would see the collected cache); when syncMeta asks
// neither IsValidOffset nor GetRdb it fires at DelRunId / SetRunId
func (p *vf6GcPt) after3() {
	p.mu.Lock()
	defer p.mu.Unlock()
	if !p.fired && p.point == 3 {
		p.fired = true
		p.pass()
	}
}
func (p *vf6GcPt) DelRunId(id string) error { p.at(3); return p.vf6Chan.DelRunId(id) }
func (p *vf6GcPt) SetRunId(id string) error { p.at(3); return p.vf6Chan.SetRunId(id) }
func (p *vf6GcPt) NewRdbWriter(r io.Reader, off int64, size int64) (RdbChannelWriter, error) {
	p.at(4)
	return p.vf6Chan.NewRdbWriter(r, off, size)
}
func (p *vf6GcPt) NewAofWritter(r io.Reader, off int64) (AofChannelWriter, error) {
	p.at(4)
	return p.vf6Chan.NewAofWritter(r, off)
}
func (p *vf6GcPt) NewReader(o Offset) (ChannelReader, error) { p.at(5); return p.vf6Chan.NewReader(o) }

// images of the calls that did not happen are the previous call's
func (p *vf6GcPt) images() [4]string {
	p.mu.Lock()
	defer p.mu.Unlock()
	out := p.img
	for i := 1; i < 4; i++ {
		if !p.have[i] {
			out[i] = out[i-1]
		}
	}
	// a call that did happen after an absent one saw what it saw; an absent call between two present ones
	// takes the earlier image (the model ignores the image of a call it does not make)
	return out
}

type vf6GcObs struct {
	runErr error
	psyncs []string
	reply  string
	proxy  *vf6Chan
	out    *vf6Output
	missed bool
}

// one real connection on `ch`
func (h *vf6AttH) gcConnect(ch Channel, gp func(*vf6Chan) Channel, sp StartPoint, src *vf6Source, final int64) *vf6GcObs {
	h.ln.cur.Store(src)
	h.missed.Store(false)
	proxy := &vf6Chan{inner: ch}
	out := &vf6Output{sp: sp, final: final, proxy: proxy, patience: &h.patience, missed: &h.missed}
	ri := NewRedisInput(h.inCfg)
	ri.SetOutput(out)
	ri.SetChannel(gp(proxy))
	out.incr = func() usync.WaitChannel { return ri.StateNotify(SyncStateFullSynced) }
	// rdbParallel = 1 in this session (non-default): ONE slot of the process-wide snapshot limiter - a slot that a
	// run() does not give back makes the next run() wait for ever in fetchInput, so it is checked after every run
	lim0 := len(config.GetSyncerConfig().Input.RdbLimiter())
	if lim0 != 0 {
		h.s.Count("global_rdb_limiter_slot_lost_run_skipped")
		return &vf6GcObs{runErr: fmt.Errorf("not run: the snapshot limiter's only slot is lost"), proxy: proxy, out: out, missed: true}
	}
	runErr := ri.run()
	h.limiterCheck(lim0, fmt.Sprintf("stored %s:%d source master=%d", sp.RunId, sp.Offset, src.master))
	src.mu.Lock()
	ps := append([]string(nil), src.psync...)
	reply := src.reply
	src.mu.Unlock()
	return &vf6GcObs{runErr: runErr, psyncs: ps, reply: reply, proxy: proxy, out: out, missed: h.missed.Load()}
}

// the monitors of one connection; returns the position the target holds afterwards
func (h *vf6AttH) gcJudge(o *vf6GcObs, what string, sp StartPoint, id string, w *vf6World, g *vf6GcCase, master, final int64, rp map[string]interface{}) StartPoint {
	s := h.sink
	out, proxy := o.out, o.proxy
	state := fmt.Sprintf("%s: %s; stored=%s:%d psync=%v reply=%s dels=%v sets=%v writers=%v readers=%v readerErr=%v sent=%v kind=%s left=%d got=%d err=%v",
		what, g.String(), sp.RunId, sp.Offset, o.psyncs, o.reply, proxy.dels, proxy.sets, proxy.wr, proxy.rd, proxy.rdErr, out.sent, out.kind, out.left, len(out.got), o.runErr != nil)
	cont := strings.HasPrefix(o.reply, "cont:")
	if len(o.psyncs) == 1 && cont && len(proxy.wr) > 0 && proxy.wr[0] != "err" {
		req, _ := strconv.ParseInt(strings.SplitN(o.psyncs[0], " ", 2)[1], 10, 64)
		if proxy.wr[0] != fmt.Sprintf("aof:%d", req-1) {
			s.Violate("psync-offset-convention", fmt.Sprintf("PSYNC asked for byte %d but the writer stores from %s (%s)", req, proxy.wr[0], state), rp)
		}
	}
	next := sp
	if !out.sent {
		s.Count("gcp_nothing_delivered")
		return next
	}
	if o.missed {
		s.Count("gcp_wait_limit")
		return StartPoint{RunId: "!", Offset: -1}
	}
	switch out.kind {
	case "aof":
		if sp.RunId != id || out.left != sp.Offset {
			s.Violate("continue-later-start", fmt.Sprintf("a log reader at %d was handed to the output, the target holds %s:%d (%s)", out.left, sp.RunId, sp.Offset, state), rp)
			return StartPoint{RunId: "!", Offset: -1}
		}
		if !cont {
			s.Violate("continue-not-granted", fmt.Sprintf("a log reader at %d was handed over although the source answered %s (%s)", out.left, o.reply, state), rp)
		}
		if out.readErr != "" || !bytes.Equal(out.got, w.histRange(id, out.left, final)) {
			s.Violate("stream-bytes", fmt.Sprintf("the log delivered from %d is not the history (readErr=%q, %d of %d bytes; %s)", out.left, out.readErr, len(out.got), final-out.left, state), rp)
			return StartPoint{RunId: "!", Offset: -1}
		}
		s.Count("gcp_stream_delivered")
		next = StartPoint{RunId: id, Offset: final}
	case "rdb":
		var want []byte
		if cont {
			if out.left != g.left || out.size != g.size {
				s.Violate("snapshot-bytes", fmt.Sprintf("a snapshot (%d,%d) was handed over under CONTINUE, the cached one is (%d,%d) (%s)", out.left, out.size, g.left, g.size, state), rp)
				return StartPoint{RunId: "!", Offset: -1}
			}
			if sp.RunId != "?" && sp.Offset > out.left {
				s.Violate("snapshot-behind-stored", fmt.Sprintf("the cached snapshot at %d is replayed onto a target at %d (%s)", out.left, sp.Offset, state), rp)
			}
			want = w.snapBytes(id, g.left, g.size)
			s.Count("gcp_cached_snapshot_delivered")
		} else {
			if out.left != master {
				s.Violate("snapshot-bytes", fmt.Sprintf("after FULLRESYNC at %d a snapshot at %d was handed over (%s)", master, out.left, state), rp)
				return StartPoint{RunId: "!", Offset: -1}
			}
			want = w.snapBytes(id, master, out.size)
			s.Count("gcp_new_snapshot_delivered")
		}
		if out.readErr != "" || !bytes.Equal(out.got, want) {
			s.Violate("snapshot-bytes", fmt.Sprintf("the snapshot handed over is incomplete or not the one announced (readErr=%q, %d of %d bytes; %s)", out.readErr, len(out.got), len(want), state), rp)
			return StartPoint{RunId: "!", Offset: -1}
		}
		next = StartPoint{RunId: id, Offset: out.left}
	}
	return next
}

// the log the cache holds reads back as the history
func (h *vf6AttH) gcReadBack(ch Channel, id string, w *vf6World, g *vf6GcCase, what string, rp map[string]interface{}) {
	s := h.sink
	arid := ch.RunId()
	if arid == "" {
		return
	}
	if arid != id {
		s.Violate("cache-label", fmt.Sprintf("%s: cache labelled %q, the source's id is %q (%s)", what, arid, id, g.String()), rp)
		return
	}
	al, _ := ch.GetRdb(arid)
	cl, cr := ch.GetOffsetRange(arid)
	if cl < 0 && cr >= 0 || cr < cl {
		s.Violate("cache-bytes", fmt.Sprintf("%s: the cache reports the range [%d,%d] (%s)", what, cl, cr, g.String()), rp)
		return
	}
	if !(cr > cl && cl >= 0) {
		return
	}
	from := cl
	if al >= 0 && cr > al {
		from = al
	}
	rdr, err := ch.NewReader(Offset{RunId: arid, Offset: from})
	if err != nil {
		s.Count("gcp_readback_refused")
		return
	}
	if !rdr.IsAof() {
		rdr.Close()
		return
	}
	wc := vf6NewWait()
	rdr.Start(wc)
	buf := make([]byte, cr-from)
	done := make(chan error, 1)
	go func() { _, e := io.ReadFull(rdr.IoReader(), buf); done <- e }()
	select {
	case e := <-done:
		if e != nil || !bytes.Equal(buf, w.histRange(id, from, cr)) {
			s.Violate("cache-bytes", fmt.Sprintf("%s: cache [%d,%d) under %s differs from the history (err=%v; %s)", what, from, cr, vfutil.HexS(arid), e, g.String()), rp)
		}
		s.Count("gcp_cache_readback")
	case <-time.After(time.Duration(h.patience.Load()) * time.Millisecond):
		s.Count("gcp_readback_wait_limit")
	}
	wc.Close(nil)
	rdr.Close()
	wc.WgWait()
}


// crcLoop (session 5, observation of the C08 owner): verifyCrc is on and a CLOSED segment of the disk cache is damaged.
// "entry": the segment the reader is opened in - StoreChannel.NewReader answers with an error that wraps the STORE's
// sentinel (pkg/common.ErrCorrupted), readChannel ends the run with it. RedisInput.Run drops the cache only for
// syncer.ErrCorrupted: with the store's sentinel unmapped the loop retried every 2 s for ever - every attempt asked
// PSYNC latest+1, was granted, appended to the damaged cache and failed at the same reader. Judged by counting attempts
// (INFO commands served), never by time: three attempts on the same damaged cache = corrupted-cache-kept.
func (h *vf6AttH) crcLoop(which string, seed uint64) {
	s := h.sink
	old := config.GetSyncerConfig().Channel.VerifyCrc
	config.GetSyncerConfig().Channel.VerifyCrc = true
	defer func() { config.GetSyncerConfig().Channel.VerifyCrc = old }()
	id := vf6GcId(seed)
	w := &vf6World{id1: id, id2: vf6ZeroId, switchOff: -2, sb: 1, s1: seed%99991 + 1, s2: 2, so: 3}
	h.nCase++
	dir := filepath.Join(h.tmp, fmt.Sprintf("crc%d", h.nCase))
	os.MkdirAll(dir, 0o777)
	defer os.RemoveAll(dir)
	ch := NewStoreChannel(StorerConf{InputId: "vf", Dir: dir, MaxSize: -1, LogSize: 1 << 20})
	defer ch.Close()
	if err := ch.SetRunId(id); err != nil {
		s.Count("crc_populate_failed")
		return
	}
	for a := int64(100); a < 220; a += 40 {
		aw, err := ch.NewAofWritter(bytes.NewReader(w.histRange(id, a, a+40)), a)
		if err != nil {
			s.Count("crc_populate_failed")
			return
		}
		aw.Start()
		aw.Wait(context.Background())
		aw.Close()
	}
	left := int64(100)
	if which == "next" {
		left = 140
	}
	files, _ := filepath.Glob(filepath.Join(dir, "*", fmt.Sprintf("%d.aof", left)))
	if len(files) != 1 {
		s.Count("crc_segment_file_not_found")
		return
	}
	b, err := os.ReadFile(files[0])
	if err != nil || len(b) < 16+40 {
		s.Count("crc_segment_file_not_found")
		return
	}
	b[16+7] ^= 0x55
	os.WriteFile(files[0], b, 0o644)

	var nInfo atomic.Int32
	src := &vf6Source{id1: id, id2: vf6ZeroId, switchOff: -2, backlog: true, first: 1, blen: 220, master: 220, snapLen: 10, capaId: true, k: 0, w: w, nInfo: &nInfo} // an idle source: the cache stays at 220 and every attempt is granted PSYNC 221
	h.ln.cur.Store(src)
	h.missed.Store(false)
	proxy := &vf6Chan{inner: ch}
	out := &vf6Output{sp: StartPoint{RunId: id, Offset: 110}, final: 220, proxy: proxy, patience: &h.patience, missed: &h.missed, noWait: which == "entry"}
	ri := NewRedisInput(h.inCfg)
	ri.SetOutput(out)
	ri.SetChannel(proxy)
	out.incr = func() usync.WaitChannel { return ri.StateNotify(SyncStateFullSynced) }
	done := make(chan error, 1)
	go func() { done <- ri.Run() }()
	returned := false
	var runErr error
	deadline := time.After(30 * time.Second)
wait:
	for {
		select {
		case runErr = <-done:
			returned = true
			break wait
		case <-deadline:
			break wait
		case <-time.After(20 * time.Millisecond):
			if nInfo.Load() >= 3 {
				break wait
			}
		}
	}
	attempts := nInfo.Load()
	if !returned {
		ri.Stop()
		select {
		case <-done:
		case <-time.After(20 * time.Second):
		}
	}
	rid := ch.RunId()
	cl, cr := ch.GetOffsetRange(rid)
	state := fmt.Sprintf("verifyCrc on, disk cache [100,220) in three closed segments, segment %d damaged (%s), stored position %s:110; attempts=%d returned=%v err=%v readerErr=%v sent=%v readErr=%q cache=%s [%d,%d]",
		left, which, id, attempts, returned, runErr, proxy.rdErr, out.sent, out.readErr, rid, cl, cr)
	rp := map[string]interface{}{"scenario": state}
	s.Count("crc_" + which)
	if which == "entry" {
		switch {
		case returned && rid == "":
			s.Count("crc_entry_cache_dropped_loop_left")
		case attempts >= 3 || (returned && rid != ""):
			s.Violate("corrupted-cache-kept", "the cache's own reader reports a damaged closed segment, yet the cache is kept and offered again: "+state, rp)
		default:
			s.Count("crc_undecided") // neither returned nor three attempts within the limit: not judged
		}
		return
	}
	// next: the damaged segment is met while reading; the recording output is not RedisOutput.Send (which maps a
	// failed decode to syncer.ErrCorrupted), so only what the reader delivered is judged: a prefix of the history
	if out.sent && out.kind == "aof" && !bytes.HasPrefix(w.histRange(id, out.left, 220), out.got) {
		s.Violate("stream-bytes", "bytes of a damaged segment were delivered: "+state, rp)
	}
	if out.sent && int64(len(out.got)) > 140-out.left {
		s.Count("crc_next_delivered_beyond_the_damaged_segment_start")
	}
}


// ---------------------------------------------------------------- degenerate but legal inputs, FORCED (dimension audit)

// vf6Deg: one forced connection (+ a follow-up) on a cache / stored position / source at the edge of the input space,
// on both backends, verifyCrc on and off on disk. Judged by the monitors of gcJudge / gcReadBack; a forced case in which
// nothing is delivered although no wait was missed is `run-aborted` (every case has a legal answer).
type vf6Deg struct {
	name    string
	hasRdb  bool
	left    int64
	size    int64
	hasAof  bool
	aofL    int64
	aofR    int64
	spId    string // "id" | "?" | "unknown"
	spOff   int64
	master  int64
	snapLen int64
	k       int64
}

func vf6DegCases() []vf6Deg {
	return []vf6Deg{
		{name: "cached-snapshot-of-1-byte", hasRdb: true, left: 50, size: 1, hasAof: true, aofL: 50, aofR: 90, spId: "?", spOff: -1, master: 90, snapLen: 1, k: 12},
		{name: "fullresync-snapshot-of-1-byte", spId: "?", spOff: -1, master: 70, snapLen: 1, k: 9},
		{name: "stored-offset-0-log-from-0", hasAof: true, aofL: 0, aofR: 40, spId: "id", spOff: 0, master: 40, snapLen: 7, k: 11},
		{name: "stored-at-cache-right", hasAof: true, aofL: 100, aofR: 140, spId: "id", spOff: 140, master: 140, snapLen: 7, k: 13},
		{name: "stored-at-cache-right-source-idle", hasAof: true, aofL: 100, aofR: 140, spId: "id", spOff: 140, master: 140, snapLen: 7, k: 0},
		{name: "stored-one-beyond-cache-right", hasAof: true, aofL: 100, aofR: 140, spId: "id", spOff: 141, master: 160, snapLen: 7, k: 10},
		{name: "stored-beyond-master", hasAof: true, aofL: 100, aofR: 140, spId: "id", spOff: 150, master: 145, snapLen: 7, k: 10},
		{name: "stored-under-unknown-id", hasRdb: true, left: 100, size: 5, hasAof: true, aofL: 100, aofR: 140, spId: "unknown", spOff: 120, master: 140, snapLen: 6, k: 10},
		{name: "snapshot-only-cache", hasRdb: true, left: 50, size: 8, spId: "?", spOff: -1, master: 80, snapLen: 8, k: 10},
		{name: "log-only-cache-no-position", hasAof: true, aofL: 100, aofR: 140, spId: "?", spOff: -1, master: 140, snapLen: 3, k: 10},
		{name: "empty-cache-position-inside-backlog", spId: "id", spOff: 33, master: 60, snapLen: 4, k: 10},
		{name: "fullresync-at-offset-0-snapshot-of-1-byte", spId: "?", spOff: -1, master: 0, snapLen: 1, k: 9},
		{name: "source-at-offset-0-position-0", spId: "id", spOff: 0, master: 0, snapLen: 2, k: 9},
		{name: "stored-offset-0-empty-cache", spId: "id", spOff: 0, master: 25, snapLen: 4, k: 10},
	}
}

func (h *vf6AttH) degCase(d vf6Deg, backend string, crc bool, seed uint64) {
	s := h.sink
	oldCrc := config.GetSyncerConfig().Channel.VerifyCrc
	config.GetSyncerConfig().Channel.VerifyCrc = crc
	defer func() { config.GetSyncerConfig().Channel.VerifyCrc = oldCrc }()
	id := vf6GcId(seed)
	w := &vf6World{id1: id, id2: vf6ZeroId, switchOff: -2, sb: 1, s1: seed%99991 + 1, s2: 2, so: 3}
	h.nCase++
	dir := filepath.Join(h.tmp, fmt.Sprintf("deg%d", h.nCase))
	os.MkdirAll(dir, 0o777)
	defer os.RemoveAll(dir)
	var ch Channel
	if backend == "m" {
		ch = NewMemoryChannel(MemoryConf{InputId: "vf", MaxSize: 0, LogSize: 1 << 20})
	} else {
		ch = NewStoreChannel(StorerConf{InputId: "vf", Dir: dir, MaxSize: -1, LogSize: 1 << 20})
	}
	defer ch.Close()
	tag := fmt.Sprintf("%s_%s_crc%v", d.name, backend, crc)
	c := &vf6Case{backend: backend, tokId: id, hasRdb: d.hasRdb, rdbLeft: d.left, rdbSize: d.size, hasAof: d.hasAof, aofL: d.aofL, aofR: d.aofR, s1: w.s1}
	if d.hasRdb || d.hasAof {
		c.cRun = id
	}
	c.src.id1, c.src.id2, c.src.switchOff = id, vf6ZeroId, -2
	if err := h.populate(c, ch, w); err != nil {
		s.Count("deg_populate_failed_" + tag)
		return
	}
	sp := StartPoint{RunId: id, Offset: d.spOff}
	switch d.spId {
	case "?":
		sp = StartPoint{RunId: "?", Offset: -1}
	case "unknown":
		sp.RunId = strings.Repeat("f", 40)
	}
	g := &vf6GcCase{scn: "deg:" + tag, left: d.left, size: d.size, logSize: 1 << 20, n: d.aofR - d.aofL, x: d.spOff, k: d.k, seed: seed}
	rp := map[string]interface{}{"case": "degenerate " + tag, "seed": seed}
	src := &vf6Source{id1: id, id2: vf6ZeroId, switchOff: -2, backlog: true, first: 1, blen: d.master, master: d.master, snapLen: d.snapLen, capaId: true, k: d.k, w: w}
	o := h.gcConnect(ch, func(p *vf6Chan) Channel { return p }, sp, src, d.master+d.k)
	s.Count("deg_" + tag)
	kind := "none"
	if o.out.sent {
		kind = o.out.kind
		if strings.HasPrefix(o.reply, "full:") {
			kind += "-full"
		}
	}
	s.Distinct("deg|" + tag + "|" + kind)
	s.Count("deg_outcome_" + d.name + "_" + kind)
	if !o.out.sent && !o.missed {
		s.Violate("run-aborted", fmt.Sprintf("degenerate but legal input %s: nothing was delivered (err=%v psync=%v reply=%s writers=%v readerErr=%v)", tag, o.runErr, o.psyncs, o.reply, o.proxy.wr, o.proxy.rdErr), rp)
		return
	}
	next := h.gcJudge(o, "forced connection", sp, id, w, g, d.master, d.master+d.k, rp)
	h.gcReadBack(ch, id, w, g, "after the forced connection", rp)
	if next.RunId == "!" {
		return
	}
	m2 := d.master + d.k
	src2 := &vf6Source{id1: id, id2: vf6ZeroId, switchOff: -2, backlog: true, first: 1, blen: m2, master: m2, snapLen: d.snapLen, capaId: true, k: 7, w: w}
	o2 := h.gcConnect(ch, func(p *vf6Chan) Channel { return p }, next, src2, m2+7)
	if !o2.out.sent && !o2.missed {
		s.Violate("run-aborted", fmt.Sprintf("degenerate but legal input %s: the follow-up connection from %s:%d delivered nothing (err=%v psync=%v reply=%s readerErr=%v)", tag, next.RunId, next.Offset, o2.runErr, o2.psyncs, o2.reply, o2.proxy.rdErr), rp)
		return
	}
	if n2 := h.gcJudge(o2, "follow-up connection", next, id, w, g, m2, m2+7, rp); n2.RunId != "!" {
		h.gcReadBack(ch, id, w, g, "after the follow-up connection", rp)
	}
}


// twoDirs (dimension audit): a DISK store that holds the directories of TWO run ids - the previous id A (log [100,150) of
// A's history, left by an earlier process) and the current id B (log [100,160) of B's, which shares A's bytes below the
// switch offset 130). The source reports (B, A); the target's position is still labelled A, inside the shared prefix.
// channel.StartPoint must pick B's directory, the reader must read B's files: the log delivered from 120 is B's history.
func (h *vf6AttH) twoDirs(crc bool, stored int64, seed uint64) {
	s := h.sink
	oldCrc := config.GetSyncerConfig().Channel.VerifyCrc
	config.GetSyncerConfig().Channel.VerifyCrc = crc
	defer func() { config.GetSyncerConfig().Channel.VerifyCrc = oldCrc }()
	r := vfutil.NewRand(seed)
	A, B := vf6HexId(r), vf6HexId(r)
	w := &vf6World{id1: B, id2: A, switchOff: 130, sb: seed%9973 + 1, s1: seed%99991 + 7, s2: seed%99989 + 11, so: 3}
	h.nCase++
	dir := filepath.Join(h.tmp, fmt.Sprintf("two%d", h.nCase))
	os.MkdirAll(dir, 0o777)
	defer os.RemoveAll(dir)
	write := func(id string, from, to int64) bool {
		ch := NewStoreChannel(StorerConf{InputId: "vf", Dir: dir, MaxSize: -1, LogSize: 1 << 20})
		defer ch.Close()
		if err := ch.SetRunId(id); err != nil {
			return false
		}
		aw, err := ch.NewAofWritter(bytes.NewReader(w.histRange(id, from, to)), from)
		if err != nil {
			return false
		}
		aw.Start()
		aw.Wait(context.Background())
		aw.Close()
		return aw.Right() == to
	}
	if !write(A, 100, 150) || !write(B, 100, 160) {
		s.Count("twodirs_populate_failed")
		return
	}
	dirs, _ := filepath.Glob(filepath.Join(dir, "*"))
	if len(dirs) != 2 {
		s.Count(fmt.Sprintf("twodirs_store_holds_%d_directories", len(dirs)))
		return
	}
	ch := NewStoreChannel(StorerConf{InputId: "vf", Dir: dir, MaxSize: -1, LogSize: 1 << 20})
	defer ch.Close()
	sp := StartPoint{RunId: A, Offset: stored}
	src := &vf6Source{id1: B, id2: A, switchOff: 130, backlog: true, first: 1, blen: 160, master: 160, snapLen: 5, capaId: true, k: 14, w: w}
	o := h.gcConnect(ch, func(p *vf6Chan) Channel { return p }, sp, src, 174)
	state := fmt.Sprintf("disk store with the directories of A (log [100,150)) and of B (log [100,160)); source (B, A) switch offset 130; stored A:%d; verifyCrc=%v; psync=%v reply=%s sps=%v valid=%v dels=%v sets=%v writers=%v readers=%v sent=%v kind=%s left=%d got=%d readErr=%q err=%v",
		stored, crc, o.psyncs, o.reply, o.proxy.sp, o.proxy.valid, o.proxy.dels, o.proxy.sets, o.proxy.wr, o.proxy.rd, o.out.sent, o.out.kind, o.out.left, len(o.out.got), o.out.readErr, o.runErr != nil)
	rp := map[string]interface{}{"scenario": state}
	s.Count(fmt.Sprintf("cfg_cache_two_run_id_directories_crc%v", crc))
	if o.missed {
		s.Count("gcp_wait_limit")
		return
	}
	if !o.out.sent {
		s.Violate("run-aborted", "two run-id directories: nothing was delivered: "+state, rp)
		return
	}
	if o.out.kind == "aof" {
		if o.out.left != stored {
			s.Violate("continue-later-start", "two run-id directories: "+state, rp)
		} else if o.out.readErr != "" || !bytes.Equal(o.out.got, w.histRange(B, stored, 174)) {
			s.Violate("stream-bytes", "two run-id directories: the log delivered is not the current history's: "+state, rp)
		} else {
			s.Count("twodirs_stream_of_current_history")
		}
	} else {
		s.Count("twodirs_snapshot")
	}
}

func vf6GcId(seed uint64) string {
	r := vfutil.NewRand(seed ^ 0x9c06)
	return vf6HexId(r)
}

func (h *vf6AttH) gcPoint(g *vf6GcCase) {
	s := h.sink
	id := vf6GcId(g.seed)
	w := &vf6World{id1: id, id2: vf6ZeroId, switchOff: -2, sb: 1, s1: g.seed%99991 + 1, s2: 2, so: 3}
	h.nCase++
	dir := filepath.Join(h.tmp, fmt.Sprintf("gp%d", h.nCase))
	os.MkdirAll(dir, 0o777)
	defer os.RemoveAll(dir)
	oldCrc := config.GetSyncerConfig().Channel.VerifyCrc
	config.GetSyncerConfig().Channel.VerifyCrc = g.pt%2 == 1 // dimension audit: verifyCrc on at the odd points
	defer func() { config.GetSyncerConfig().Channel.VerifyCrc = oldCrc }()
	s.Count(fmt.Sprintf("cfg_verifyCrc_%v_d", g.pt%2 == 1))
	ch := NewStoreChannel(StorerConf{InputId: "vf", Dir: dir, MaxSize: g.maxSize(), LogSize: g.logSize})
	defer ch.Close()
	sc := ch.(*StoreChannel)
	sc.storer.VerifStopCollector() // the 30 s job must not add a second pass on a slow machine
	// the snapshot, then the log in sessions of logSize bytes: one closed segment per session (a single
	// session stores everything it is handed in one segment, whatever the segment size limit)
	c := &vf6Case{backend: "d", cRun: id, tokId: id, hasRdb: true, rdbLeft: g.left, rdbSize: g.size, s1: w.s1}
	c.src.id1, c.src.id2, c.src.switchOff = id, vf6ZeroId, -2
	if err := h.populate(c, ch, w); err != nil {
		s.Count("gcp_populate_failed")
		return
	}
	for a := g.left; a < g.left+g.n; {
		b := a + g.logSize
		if b+g.logSize > g.left+g.n {
			b = g.left + g.n
		}
		aw, err := ch.NewAofWritter(bytes.NewReader(w.histRange(id, a, b)), a)
		if err != nil {
			s.Count("gcp_populate_failed")
			return
		}
		aw.Start()
		aw.Wait(context.Background())
		aw.Close()
		if aw.Right() != b {
			s.Count("gcp_populate_failed")
			return
		}
		a = b
	}
	master := g.left + g.n
	sp := StartPoint{RunId: id, Offset: g.x}
	if g.scn == "nopos" {
		sp = StartPoint{RunId: "?", Offset: -1}
	}
	rp := map[string]interface{}{"case": g.String(), "rerun": "VERIF_REPLAY_CASE='" + g.String() + "' ./check C06"}
	src := &vf6Source{id1: id, id2: vf6ZeroId, switchOff: -2, backlog: true, first: 1, blen: master, master: master, snapLen: g.size, capaId: true, k: g.k, w: w}
	var gpx *vf6GcPt
	o := h.gcConnect(ch, func(p *vf6Chan) Channel {
		gpx = &vf6GcPt{vf6Chan: p, point: g.pt, pass: func() { sc.storer.VerifGcLog() }}
		return gpx
	}, sp, src, master+g.k)
	img := gpx.images()
	s.Count(fmt.Sprintf("gcp_pt%d_%s_%s", g.pt, g.lim, g.scn))
	if g.pt > 0 && !gpx.fired {
		s.Count(fmt.Sprintf("gcp_point_not_reached_pt%d_%s", g.pt, g.scn))
	}
	if g.pt > 0 && gpx.fired && img[0] != gpx.describeAfter() {
		s.Count("gcp_pass_changed_the_cache")
	}

	// ---- correspondence with syncMetaG
	psy, reqId := "none", ""
	if len(o.psyncs) > 0 {
		f := strings.SplitN(o.psyncs[len(o.psyncs)-1], " ", 2)
		reqId = f[0]
		psy = vfutil.HexS(f[0]) + ":" + f[1]
	}
	reply := o.reply
	if reply == "" {
		reply = "none"
	}
	proxy := o.proxy
	br := 0
	switch {
	case len(proxy.valid) > 0 && strings.HasSuffix(proxy.valid[0], "=1"):
		br = 1
	case len(proxy.valid) > 0:
		br = 2
	case len(proxy.rdbq) > 0 && !strings.HasPrefix(proxy.rdbq[0], "-1,") && !strings.HasSuffix(proxy.rdbq[0], ",-1"):
		br = 4
	case len(proxy.rdbq) > 0:
		br = 5
	case reqId == "?":
		br = 6
	default:
		br = 3
	}
	wr := "none"
	if len(proxy.wr) > 0 {
		f := strings.Split(proxy.wr[0], ":")
		if len(f) >= 2 {
			wr = f[1]
		} else {
			wr = proxy.wr[0]
		}
	}
	rd := "none"
	if len(proxy.rd) > 0 {
		rd = proxy.rd[0]
	}
	op := fmt.Sprintf("gcp #T %d %s %s %s %s -2 1 1 %d %d %d 1 %s %d %s %s %s %s", g.pt, g.lim, g.scn, vfutil.HexS(id), vfutil.HexS(vf6ZeroId),
		master, master, g.size, vfutil.HexS(sp.RunId), sp.Offset, img[0], img[1], img[2], img[3])
	s.Op(op, fmt.Sprintf("#T gmeta br=%d psync=%s reply=%s full=%s del=%s rid=%s wr=%s rd=%s", br, psy, reply, vf6B(strings.HasPrefix(reply, "full:")),
		vf6B(len(proxy.dels) > 0), vfutil.HexS(vf6Last(proxy.sets, "")), wr, rd))
	s.Distinct(fmt.Sprintf("gcp|%d|%s|%s|br%d|%s|sent=%v|%s", g.pt, g.lim, g.scn, br, strings.SplitN(reply, ":", 2)[0], o.out.sent, o.out.kind))

	// ---- the property, this connection and the next one
	next := h.gcJudge(o, "connection with the pass", sp, id, w, g, master, master+g.k, rp)
	h.gcReadBack(ch, id, w, g, "after the connection with the pass", rp)
	if next.RunId == "!" {
		return
	}
	m2 := master + g.k
	k2 := g.k/2 + 3
	src2 := &vf6Source{id1: id, id2: vf6ZeroId, switchOff: -2, backlog: true, first: 1, blen: m2, master: m2, snapLen: g.size, capaId: true, k: k2, w: w}
	o2 := h.gcConnect(ch, func(p *vf6Chan) Channel { return p }, next, src2, m2+k2)
	g2 := *g
	if n2 := h.gcJudge(o2, "follow-up connection", next, id, w, &g2, m2, m2+k2, rp); n2.RunId != "!" {
		h.gcReadBack(ch, id, w, g, "after the follow-up connection", rp)
		if o2.out.sent {
			s.Count("gcp_followup_delivered")
		}
	}
}

func (p *vf6GcPt) describeAfter() string {
	p.mu.Lock()
	defer p.mu.Unlock()
	return p.describe()
}

// the enumeration of one check run
func vf6GcCases(r *vfutil.Rand) []*vf6GcCase {
	var out []*vf6GcCase
	for _, scn := range []string{"old", "new", "snap", "nopos"} {
		size := int64(r.Range(4, 24))
		left := size + int64(r.Range(20, 2000))
		logSize := int64(r.Range(8, 24))
		n := 6*logSize + int64(r.Range(0, 7))
		k := int64(r.Range(8, 40))
		seed := uint64(r.Range(1, 1<<30))
		x := int64(0)
		switch scn {
		case "old":
			x = left + int64(r.Range(1, int(logSize)))
		case "new":
			x = left + n - int64(r.Range(0, int(logSize/2)))
		case "snap":
			x = left - int64(r.Range(1, 15))
		}
		for _, lim := range []string{"all", "part"} {
			for pt := 0; pt <= 5; pt++ {
				out = append(out, &vf6GcCase{scn: scn, pt: pt, lim: lim, left: left, size: size, logSize: logSize, n: n, x: x, k: k, seed: seed})
			}
		}
	}
	return out
}

func TestVerifC06Gc(t *testing.T) {
	s := vfutil.NewSession("C06d")
	defer s.Close()
	r := vfutil.NewRand(vfutil.Seed() ^ 0x6c67)
	tmp, err := os.MkdirTemp("", "vfc06g-")
	if err != nil {
		t.Fatal(err)
	}
	defer os.RemoveAll(tmp)
	ln, err := vf6NewListener()
	if err != nil {
		t.Fatal(err)
	}
	defer ln.ln.Close()
	yml := fmt.Sprintf("input:\n  rdbParallel: 1\n  redis:\n    addresses: [\"%s\"]\noutput:\n  redis:\n    addresses: [\"127.0.0.1:1\"]\nchannel:\n  storer:\n    dirPath: %s\nlog:\n  level: panic\n",
		ln.ln.Addr().String(), filepath.Join(tmp, "cfgdir"))
	yp := filepath.Join(tmp, "cfg.yaml")
	if err := os.WriteFile(yp, []byte(yml), 0o644); err != nil {
		t.Fatal(err)
	}
	if err := config.InitSyncerConfig(yp); err != nil {
		t.Fatal(err)
	}
	log.InitLog(*config.GetSyncerConfig().Log)
	inCfg := *config.GetSyncerConfig().Input.Redis
	h := &vf6AttH{vf6H: &vf6H{t: t, s: s, ln: ln, tmp: tmp, inCfg: inCfg, seq: true}}
	s.Count(fmt.Sprintf("cfg_rdbParallel_%d", cap(config.GetSyncerConfig().Input.RdbLimiter())))
	h.patience.Store(10000)

	run := func(g *vf6GcCase, tag string) {
		for attempt := 0; ; attempt++ {
			h.begin(attempt)
			h.gcPoint(g)
			if h.sinkStalled() && attempt < 1 {
				h.s.Count("gcp_stalled_case_repeated")
				continue
			}
			h.s.Count("gcp_src_" + tag)
			h.sink.commit(h.vf6H)
			return
		}
	}
	if rp := os.Getenv("VERIF_REPLAY_CASE"); strings.HasPrefix(rp, "gcp ") {
		g, err := vf6ParseGcCase(rp)
		if err != nil {
			t.Fatal(err)
		}
		run(g, "replay")
		return
	}
	if os.Getenv("VERIF_REPLAY_CASE") != "" {
		return
	}
	for _, l := range vfutil.Corpus("C06") {
		if !strings.HasPrefix(l, "gcp ") {
			continue
		}
		g, err := vf6ParseGcCase(l)
		if err != nil {
			t.Fatalf("corpus line: %v: %s", err, l)
		}
		run(g, "corpus")
	}
	for _, which := range []string{"entry", "next"} {
		h.begin(0)
		h.crcLoop(which, uint64(r.Range(1, 1<<30)))
		h.sink.commit(h.vf6H)
	}
	for _, d := range vf6DegCases() {
		for _, be := range []struct {
			b   string
			crc bool
		}{{"m", false}, {"d", false}, {"d", true}} {
			seed := uint64(r.Range(1, 1<<30))
			for attempt := 0; ; attempt++ {
				h.begin(attempt)
				h.degCase(d, be.b, be.crc, seed)
				if h.sinkStalled() && attempt < 1 {
					continue
				}
				h.sink.commit(h.vf6H)
				break
			}
		}
	}
	for _, crc := range []bool{false, true} {
		seed := uint64(r.Range(1, 1<<30))
		for attempt := 0; ; attempt++ {
			h.begin(attempt)
			h.twoDirs(crc, 120, seed)
			if h.sinkStalled() && attempt < 1 {
				continue
			}
			h.sink.commit(h.vf6H)
			break
		}
	}
	rounds := vfutil.Scale(1, 4)
	for i := 0; i < rounds; i++ {
		for _, g := range vf6GcCases(r) {
			run(g, "enumerated")
		}
	}
}

// a wait of this case hit its hard limit (stalled machine): the case is repeated once, never judged on it
func (h *vf6AttH) sinkStalled() bool {
	for _, k := range h.sink.counts {
		if k == "gcp_wait_limit" || k == "gcp_readback_wait_limit" {
			return true
		}
	}
	return false
}
