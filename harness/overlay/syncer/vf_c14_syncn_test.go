//go:build verif

package syncer

// C14 — sync mode on a cluster-typed target (op c14n; model: lean/GunYu/Model/FrontierSyncN.lean,
// theorem sync_mode_exact_slots).
//
// One latest hash per slot tag; nothing ever deletes one, so what an earlier numbering left in OTHER
// slots is still there when the units of the new numbering commit. A script of steps is run against
// the target double:
//   r            a FRESH RedisOutput (cluster-typed: 16384-tag scan) calls the real bisyncStartPoint;
//                the "process" continues from its answer (bisyncSeq, offset)
//   c<slot>      the real execBisyncUnit(latestCheckpoint = true) - what sendBisyncSync does per unit -
//                sends the unit that starts at the process's offset (100 bytes long, number bisyncSeq+1)
//                with its keys in <slot>
// The answer of every start and the final contents of the latest hashes are compared with the Lean
// `syncNStep` / `startLatestN` (N = 16384). Monitors independent of the model (leftovers not beyond the
// root): the units applied are root, root+100, … each exactly once, in order; a start answers the end of
// the last committed unit (the root before the first) with that unit's number.

import (
	"context"
	"fmt"
	"sort"
	"strconv"
	"strings"
	"testing"

	"github.com/mgtv-tech/redis-GunYu/config"
	"github.com/mgtv-tech/redis-GunYu/pkg/redis/checkpoint"
	"github.com/mgtv-tech/redis-GunYu/pkg/vfdoubles"
	"github.com/mgtv-tech/redis-GunYu/pkg/vfutil"
)

type vfSNCase struct {
	ids     []string
	rootRid string
	rootOff int64
	left    []*checkpoint.BisyncCommitRecord
	script  []string // "r" | "c<slot>"
}

const vfSNLen = 100

func (c *vfSNCase) opHead(tag int) string {
	ls := "."
	if len(c.left) > 0 {
		p := []string{}
		for _, r := range c.left {
			p = append(p, checkpoint.VfRecStr(r))
		}
		ls = strings.Join(p, ";")
	}
	return fmt.Sprintf("c14n %d %s %s:%d:0 %s", tag, checkpoint.VfHexList(c.ids), vfutil.HexS(c.rootRid), c.rootOff, ls)
}

func vfSNLatestDump(tg *vfdoubles.Target) string {
	var parts []string
	keys := tg.Keys(0)
	sort.Strings(keys)
	type ent struct {
		slot int
		txt  string
	}
	var es []ent
	for _, k := range keys {
		if !checkpoint.IsBisyncLatestKey(k) {
			continue
		}
		v := tg.Get(0, k)
		if v == nil || v.Kind != "hash" {
			continue
		}
		fields := map[string]string{}
		for f, b := range v.Hash {
			fields[f] = string(b)
		}
		rec, err := checkpoint.ParseBisyncCommitRecordMap(k, fields)
		if err != nil {
			continue
		}
		es = append(es, ent{int(rec.Slot), fmt.Sprintf("%d/%d/%d/%s", rec.Slot, rec.UnitSeq, rec.EndOffset, vfutil.HexS(rec.RunID))})
	}
	sort.Slice(es, func(i, j int) bool { return es[i].slot < es[j].slot })
	for _, e := range es {
		parts = append(parts, e.txt)
	}
	if len(parts) == 0 {
		return "."
	}
	return strings.Join(parts, ";")
}

func vfC14SyncNCase(t *testing.T, s *vfutil.Session, tag int, c *vfSNCase, src string) {
	tg := vfdoubles.NewTarget()
	tg.Lenient = true
	tg.Seed(0, "hset", vfC14Cp, c.rootRid+"_runid", c.rootRid, c.rootRid+"_version", config.Version, c.rootRid+"_offset", strconv.FormatInt(c.rootOff, 10), c.rootRid+"_mtime", "1700000000000000000")
	tg.Seed(0, "hset", vfC14Cp, "bisync_mode", "sync")
	monitored := true
	for _, r := range c.left {
		k := checkpoint.BisyncLatestCheckpointKey(vfC14Cp, checkpoint.BisyncSlotTag(r.Slot))
		rr := *r
		rr.Key = k
		tg.Seed(0, vfArgs(k, rr.HashArgs())...)
		if checkpoint.MatchBisyncRunID(r.RunID, c.ids) && r.EndOffset > c.rootOff {
			monitored = false // leftovers beyond the root: outside the theorem, model diff only
		}
	}
	cur, off := int64(0), c.rootOff
	var steps, out []string
	var applied []int64
	lastEnd, lastSeq := c.rootOff, int64(-1)
	rep := func() map[string]interface{} {
		return map[string]interface{}{"op": c.opHead(tag) + " " + strings.Join(steps, ",")}
	}
	cluster := func() *RedisOutput {
		ro := vfC14Output(tg, "L")
		ro.cfg.Redis.Type = config.RedisTypeCluster
		ro.cfg.Redis.Otype = config.RedisTypeCluster
		return ro
	}
	viol := false
	for _, st := range c.script {
		if st == "r" {
			ro := cluster()
			sp, seq, ok, err := ro.bisyncStartPoint(context.Background(), c.ids)
			steps = append(steps, "r")
			switch {
			case err != nil:
				out = append(out, fmt.Sprintf("#%d start=err", tag))
			case !ok:
				out = append(out, fmt.Sprintf("#%d start=empty", tag))
			default:
				out = append(out, fmt.Sprintf("#%d start=%d:%s:%d:%d", tag, sp.DbId, vfutil.HexS(sp.RunId), sp.Offset, seq))
				cur, off = seq, sp.Offset
			}
			if monitored && !viol {
				if err != nil || !ok || sp.Offset != lastEnd || (lastSeq >= 0 && seq != lastSeq) {
					viol = true
					s.Violate("syncn-start-not-last-committed", fmt.Sprintf("sync mode, %d latest hashes on the target: the last committed unit ends at %d (number %d, -1 = none: root), the start answered offset %d seq %d ok=%v err=%v",
						len(c.left), lastEnd, lastSeq, sp.Offset, seq, ok, err), rep())
				}
			}
			continue
		}
		slot, _ := strconv.Atoi(st[1:])
		ro := cluster()
		conn := checkpoint.VfConn(tg)
		unit := &bisyncReplayUnit{Seq: cur + 1, StartOffset: off, EndOffset: off + vfSNLen, Slot: uint16(slot), SlotTag: checkpoint.BisyncSlotTag(uint16(slot)),
			Digest: "d", Commands: []bisyncAofCommand{{Cmd: "set", Args: [][]byte{[]byte(fmt.Sprintf("{%s}u%d", checkpoint.BisyncSlotTag(uint16(slot)), off)), []byte("v")}}}}
		rec, _, err := ro.execBisyncUnit(conn, c.ids[0], unit, true)
		conn.Close()
		if err != nil || rec == nil {
			t.Errorf("c14n: execBisyncUnit on the healthy double failed (infrastructure): %v", err)
			return
		}
		steps = append(steps, fmt.Sprintf("c%d@%d", slot, rec.MTime))
		if monitored && !viol {
			want := c.rootOff + int64(len(applied))*vfSNLen
			if off != want {
				viol = true
				s.Violate("syncn-unit-repeated-or-skipped", fmt.Sprintf("sync mode: %d units applied so far (the next starts at %d), the process continuing from its start point sends the unit at %d", len(applied), want, off), rep())
			}
		}
		applied = append(applied, off)
		cur, off = cur+1, off+vfSNLen
		lastEnd, lastSeq = off, cur
	}
	out = append(out, fmt.Sprintf("#%d end cur=%d off=%d applied=%d latest=%s", tag, cur, off, len(applied), vfSNLatestDump(tg)))
	tg.CloseAll()
	s.Op(c.opHead(tag)+" "+strings.Join(steps, ","), out...)
	s.Count("syncn_" + src)
	if monitored {
		s.Count("syncn_monitored")
	}
	s.Add("syncn_commits", len(applied))
	if len(applied) > 0 && len(c.left) > 0 {
		s.Distinct(fmt.Sprintf("n|%d|%d|%d|%v", len(c.left), len(applied), len(c.script), monitored))
	}
}

func vfC14GenSyncN(r *vfutil.Rand) *vfSNCase {
	own := "3333333333333333333333333333333333333333"
	prev := "4444444444444444444444444444444444444444"
	c := &vfSNCase{ids: []string{own, prev}, rootRid: own, rootOff: 9000}
	if r.Chance(1, 6) {
		c.rootRid = prev
	}
	pool := []uint16{0, 5, 866, 4000, 12182, 16383}
	for _, sl := range pool {
		if !r.Chance(1, 2) {
			continue
		}
		// leftovers of an earlier numbering: any sequence number; mostly not beyond the root
		end := c.rootOff - int64(r.Range(0, 3))*vfSNLen
		if r.Chance(1, 8) {
			end = c.rootOff + int64(r.Range(1, 3))*vfSNLen // beyond the root (root inside the old range): diff only
		}
		c.left = append(c.left, &checkpoint.BisyncCommitRecord{Version: config.Version, RunID: vfutil.Pick(r, []string{own, own, prev, "5555555555555555555555555555555555555555"}),
			SyncerID: "vf", UnitSeq: int64(r.Range(1, 60)), StartOffset: end - vfSNLen, EndOffset: end, MTime: int64(r.Range(1, 3)), Slot: sl, Digest: "d"})
	}
	n := r.Range(1, 8)
	for i := 0; i < n; i++ {
		if r.Chance(1, 3) {
			c.script = append(c.script, "r")
		} else {
			c.script = append(c.script, "c"+strconv.Itoa(int(vfutil.Pick(r, pool))))
		}
	}
	c.script = append(c.script, "r")
	return c
}

func vfC14ParseSyncN(op string) *vfSNCase {
	f := strings.Fields(op)
	if len(f) != 6 || f[0] != "c14n" {
		return nil
	}
	c := &vfSNCase{ids: checkpoint.VfUnHexList(f[2])}
	p := strings.Split(f[3], ":")
	c.rootRid = string(vfutil.UnHex(p[0]))
	c.rootOff, _ = strconv.ParseInt(p[1], 10, 64)
	if f[4] != "." {
		for _, it := range strings.Split(f[4], ";") {
			rec := checkpoint.VfParseRec(it)
			rec.SyncerID, rec.Digest = "vf", "d"
			c.left = append(c.left, rec)
		}
	}
	for _, st := range strings.Split(f[5], ",") {
		if i := strings.IndexByte(st, '@'); i >= 0 {
			st = st[:i]
		}
		c.script = append(c.script, st)
	}
	return c
}
