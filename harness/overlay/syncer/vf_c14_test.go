//go:build verif

package syncer

// C14 (part 2) — bidirectional replay resumes from the contiguous committed prefix.
//
//   c14s: the real RedisOutput.bisyncStartPoint (snapshot + journal →
//         RebuildBisyncFrontier, root override, cleanupRecoveredBisyncCommitRecords;
//         sync mode: latest record) over the real conn.RedisConn against the target
//         double, on generated namespace states (snapshot / no snapshot, journal
//         with gaps, records already trimmed, index members without record, foreign
//         run ids, root older / newer). Every write request it issues is a crash
//         point: the request prefix is replayed into a fresh double and a FRESH
//         process (new RedisOutput) starts again. Result, requests and the start
//         point after every prefix are compared with lean/GunYu/Model/Frontier.lean.
//         Monitors (independent of the model): the selected sequence number never
//         passes a sequence number missing from the journal; a restart after any
//         prefix (and chains of restarts) never resumes before the previous start.
//   c14c: the real bisyncFrontierCoordinator (onCommitted / flush) under virtual
//         time on completion permutations, compared with the model's coordinator;
//         monitors: the frontier is the contiguous prefix of what was reported, a
//         journal record is deleted only after a frontier covering it was saved.

import (
	"context"
	"errors"
	"fmt"
	"os"
	"sort"
	"strconv"
	"strings"
	"testing"
	"testing/synctest"
	"time"

	"github.com/mgtv-tech/redis-GunYu/config"
	"github.com/mgtv-tech/redis-GunYu/pkg/redis/checkpoint"
	"github.com/mgtv-tech/redis-GunYu/pkg/redis/client"
	"github.com/mgtv-tech/redis-GunYu/pkg/vfdoubles"
	"github.com/mgtv-tech/redis-GunYu/pkg/vfutil"
)

// name of the namespace the C14/C17 cases work on (the C17 migration harness switches it)
var vfC14Cp = checkpoint.BisyncCheckpointKeyPrefix + ":0a1b2c3d4e5f60718293a4b5"

type vfJRec struct {
	kseq int64
	rec  *checkpoint.BisyncCommitRecord
}

type vfNS struct {
	rootRid string // "" = no root checkpoint
	rootOff int64
	rootDb  int
	front   *checkpoint.BisyncFrontierSnapshot
	journal []vfJRec
	index   [][2]int64 // score, kseq
	latest  *checkpoint.BisyncCommitRecord
	noMode  bool // do not seed the namespace mode marker
}

func vfC14Tag() string { return checkpoint.BisyncSlotTag(0) }
func vfC14CommitKey(k int64) string {
	return checkpoint.BisyncCommitRecordKey(vfC14Cp, vfC14Tag(), k)
}
func vfC14IndexKey() string  { return checkpoint.BisyncCommitIndexKey(vfC14Cp, vfC14Tag()) }
func vfC14LatestKey() string { return checkpoint.BisyncLatestCheckpointKey(vfC14Cp, vfC14Tag()) }

func vfArgs(key string, hashArgs []interface{}) []string {
	out := []string{"hset", key}
	for _, a := range hashArgs {
		out = append(out, fmt.Sprint(a))
	}
	return out
}

func (ns *vfNS) seed(tg *vfdoubles.Target) {
	if ns.rootRid != "" {
		tg.Seed(ns.rootDb, "hset", vfC14Cp, ns.rootRid+"_runid", ns.rootRid, ns.rootRid+"_version", config.Version,
			ns.rootRid+"_offset", strconv.FormatInt(ns.rootOff, 10), ns.rootRid+"_mtime", "1700000000000000000")
	}
	if !ns.noMode {
		tg.Seed(0, "hset", vfC14Cp, "bisync_mode", "parallel")
	}

	if ns.front != nil {
		tg.Seed(0, vfArgs(checkpoint.BisyncFrontierKey(vfC14Cp), ns.front.HashArgs())...)
	}
	for _, j := range ns.journal {
		r := *j.rec
		r.Key = vfC14CommitKey(j.kseq)
		tg.Seed(0, vfArgs(r.Key, r.HashArgs())...)
	}
	for _, p := range ns.index {
		tg.Seed(0, "zadd", vfC14IndexKey(), strconv.FormatInt(p[0], 10), vfC14CommitKey(p[1]))
	}
	if ns.latest != nil {
		tg.Seed(0, vfArgs(vfC14LatestKey(), ns.latest.HashArgs())...)
	}
}

// seedAll (the C14 start cases; the C17 harness keeps using seed): the namespace plus application data in OTHER databases.
func (ns *vfNS) seedAll(tg *vfdoubles.Target) {
	ns.seed(tg)
	// A stand-alone target holds application data in other databases as well: INFO keyspace lists them and
	// GetCheckpoint visits every non-empty database in Go's random MAP order, leaving the connection in the one it
	// visited last (D21, seeded C14-r8-m1). Always present, derived from the case (a replay rebuilds the same state):
	// DB 2, and DB 1 or 3 depending on the root offset.
	tg.Seed(2, "set", "app:other", "x")
	tg.Seed(1+2*int(ns.rootOff&1), "set", "app:more", "y")
	// ANOTHER bidirectional namespace on the same target (another source, another checkpoint name - ours is a proper
	// prefix of it), complete and AHEAD of ours: root, frontier snapshot, journal + index, latest record under the same
	// run id. Nothing of it may be read, saved over or deleted by a start of our namespace.
	other := vfC14Cp + "ff"
	rid := ns.rootRid
	if rid == "" {
		rid = "run-other"
	}
	tag := vfC14Tag()
	tg.Seed(0, "hset", other, rid+"_runid", rid, rid+"_version", config.Version, rid+"_offset", strconv.FormatInt(ns.rootOff/2+4000, 10), rid+"_mtime", "1700000000000000001", "bisync_mode", "parallel")
	ofr := &checkpoint.BisyncFrontierSnapshot{Version: config.Version, RunID: rid, UnitSeq: 40, Offset: 7000, MTime: 3}
	tg.Seed(0, vfArgs(checkpoint.BisyncFrontierKey(other), ofr.HashArgs())...)
	for _, q := range []int64{1, 41, 42} {
		k := checkpoint.BisyncCommitRecordKey(other, tag, q)
		rec := &checkpoint.BisyncCommitRecord{Key: k, Version: config.Version, RunID: rid, SyncerID: "vf", UnitSeq: q, StartOffset: 7000, EndOffset: 7000 + q, MTime: 9, Digest: "d"}
		tg.Seed(0, vfArgs(k, rec.HashArgs())...)
		tg.Seed(0, "zadd", checkpoint.BisyncCommitIndexKey(other, tag), strconv.FormatInt(q, 10), k)
	}
	ol := &checkpoint.BisyncCommitRecord{Key: checkpoint.BisyncLatestCheckpointKey(other, tag), Version: config.Version, RunID: rid, SyncerID: "vf", UnitSeq: 77, StartOffset: 7000, EndOffset: 7777, MTime: 9, Digest: "d"}
	tg.Seed(0, vfArgs(ol.Key, ol.HashArgs())...)
}

// vfC14OtherIntact: the other namespace is exactly as seeded (4 hashes of records + frontier + root + index of 3 members)
func vfC14OtherIntact(tg *vfdoubles.Target) bool {
	other := vfC14Cp + "ff"
	tag := vfC14Tag()
	for _, k := range []string{other, checkpoint.BisyncFrontierKey(other), checkpoint.BisyncLatestCheckpointKey(other, tag),
		checkpoint.BisyncCommitRecordKey(other, tag, 1), checkpoint.BisyncCommitRecordKey(other, tag, 41), checkpoint.BisyncCommitRecordKey(other, tag, 42)} {
		if v := tg.Get(0, k); v == nil || v.Kind != "hash" {
			return false
		}
	}
	if v := tg.Get(0, checkpoint.BisyncFrontierKey(other)); string(v.Hash["unit_seq"]) != "40" {
		return false
	}
	v := tg.Get(0, checkpoint.BisyncCommitIndexKey(other, tag))
	return v != nil && len(v.ZSet) == 3
}

func (ns *vfNS) encode() string {
	root := "-"
	if ns.rootRid != "" {
		root = fmt.Sprintf("%s:%d:%d", vfutil.HexS(ns.rootRid), ns.rootOff, ns.rootDb)
	}
	js := "."
	if len(ns.journal) > 0 {
		p := make([]string, len(ns.journal))
		for i, j := range ns.journal {
			p[i] = fmt.Sprintf("%d/%s", j.kseq, checkpoint.VfRecStr(j.rec))
		}
		js = strings.Join(p, ";")
	}
	ix := "."
	if len(ns.index) > 0 {
		p := make([]string, len(ns.index))
		for i, e := range ns.index {
			p[i] = fmt.Sprintf("%d/%d", e[0], e[1])
		}
		ix = strings.Join(p, ";")
	}
	lt := "-"
	if ns.latest != nil {
		lt = checkpoint.VfRecStr(ns.latest)
	}
	return fmt.Sprintf("%s %s %s %s %s", root, checkpoint.VfSnapStr(ns.front), js, ix, lt)
}

func vfC14ParseNS(root, front, journal, index, latest string) *vfNS {
	ns := &vfNS{}
	if root != "-" {
		p := strings.Split(root, ":")
		ns.rootRid = string(vfutil.UnHex(p[0]))
		ns.rootOff, _ = strconv.ParseInt(p[1], 10, 64)
		ns.rootDb, _ = strconv.Atoi(p[2])
	}
	ns.front = checkpoint.VfParseSnap(front)
	if journal != "." {
		for _, it := range strings.Split(journal, ";") {
			ab := strings.SplitN(it, "/", 2)
			k, _ := strconv.ParseInt(ab[0], 10, 64)
			ns.journal = append(ns.journal, vfJRec{k, checkpoint.VfParseRec(ab[1])})
		}
	}
	if index != "." {
		for _, it := range strings.Split(index, ";") {
			ab := strings.SplitN(it, "/", 2)
			a, _ := strconv.ParseInt(ab[0], 10, 64)
			b, _ := strconv.ParseInt(ab[1], 10, 64)
			ns.index = append(ns.index, [2]int64{a, b})
		}
	}
	if latest != "-" {
		ns.latest = checkpoint.VfParseRec(latest)
	}
	return ns
}

// vfC14Dump reads the namespace state back from a target.
func vfC14Dump(tg *vfdoubles.Target, ids []string) *vfNS {
	ns := &vfNS{}
	cli := checkpoint.VfConn(tg)
	cpi, db, err := checkpoint.GetCheckpoint(cli, vfC14Cp, ids)
	cli.Close()
	if err == nil && db >= 0 {
		ns.rootRid, ns.rootOff, ns.rootDb = cpi.RunId, cpi.Offset, db
	}
	if v := tg.Get(0, checkpoint.BisyncFrontierKey(vfC14Cp)); v != nil {
		i := func(f string) int64 { n, _ := strconv.ParseInt(string(v.Hash[f]), 10, 64); return n }
		ns.front = &checkpoint.BisyncFrontierSnapshot{Version: string(v.Hash["version"]), RunID: string(v.Hash["run_id"]),
			UnitSeq: i("unit_seq"), Offset: i("end_offset"), MTime: i("mtime")}
	}
	prefix := vfC14CommitKey(0)
	prefix = prefix[:len(prefix)-20]
	keys := tg.Keys(0)
	sort.Strings(keys)
	for _, k := range keys {
		if !strings.HasPrefix(k, prefix) {
			continue
		}
		v := tg.Get(0, k)
		if v == nil || v.Kind != "hash" {
			continue
		}
		kseq, _ := strconv.ParseInt(k[len(prefix):], 10, 64)
		fields := map[string]string{}
		for f, b := range v.Hash {
			fields[f] = string(b)
		}
		rec, err := checkpoint.ParseBisyncCommitRecordMap(k, fields)
		if err != nil {
			continue
		}
		ns.journal = append(ns.journal, vfJRec{kseq, rec})
	}
	if v := tg.Get(0, vfC14IndexKey()); v != nil {
		type ms struct {
			m string
			s float64
		}
		var all []ms
		for m, sc := range v.ZSet {
			all = append(all, ms{m, sc})
		}
		sort.Slice(all, func(i, j int) bool { return all[i].s < all[j].s || (all[i].s == all[j].s && all[i].m < all[j].m) })
		for _, e := range all {
			kseq, _ := strconv.ParseInt(e.m[len(prefix):], 10, 64)
			ns.index = append(ns.index, [2]int64{int64(e.s), kseq})
		}
	}
	if v := tg.Get(0, vfC14LatestKey()); v != nil {
		fields := map[string]string{}
		for f, b := range v.Hash {
			fields[f] = string(b)
		}
		if rec, err := checkpoint.ParseBisyncCommitRecordMap(vfC14LatestKey(), fields); err == nil {
			ns.latest = rec
		}
	}
	return ns
}

// ------------------------------------------------------------ the real start

func vfC14Output(tg *vfdoubles.Target, mode string) *RedisOutput {
	rm := config.ReplayModeParallel
	switch mode {
	case "L":
		rm = config.ReplayModeSync
	case "P":
		rm = config.ReplayModePipeline
	}
	ro := NewRedisOutput(RedisOutputConfig{InputName: "vf", CheckpointName: vfC14Cp, BisyncEnabled: true,
		ReplayMode: rm, Redis: checkpoint.VfRedisCfg(), EnableResumeFromBreakPoint: vfC14Resume})
	ro.newRedisConn = func(ctx context.Context) (client.Redis, error) { return checkpoint.VfConn(tg), nil }
	return ro
}

// resumeFromBreakPoint: drawn per generated case (the bidirectional start does not read it: same answers expected)
var vfC14Resume = true

// vfC14Start runs bisyncStartPoint of a fresh process against tg.
func vfC14Start(tg *vfdoubles.Target, mode string, ids []string) (string, int64, bool) {
	ro := vfC14Output(tg, mode)
	sp, seq, ok, err := ro.bisyncStartPoint(context.Background(), ids)
	switch {
	case err != nil && errors.Is(err, checkpoint.ErrBisyncJournalGap):
		msg := err.Error()
		return "gap:" + msg[strings.LastIndex(msg, "=")+1:], 0, false
	case err != nil:
		return "err", 0, false
	case !ok:
		return "empty", 0, false
	}
	return fmt.Sprintf("%d:%s:%d:%d", sp.DbId, vfutil.HexS(sp.RunId), sp.Offset, seq), sp.Offset, true
}

func vfC14RenderWrite(e vfdoubles.LogEntry) (string, bool) {
	a := e.Args
	prefix := vfC14CommitKey(0)
	prefix = prefix[:len(prefix)-20]
	kseq := func(key string) string {
		if strings.HasPrefix(key, prefix) {
			n, err := strconv.ParseInt(key[len(prefix):], 10, 64)
			if err == nil {
				return strconv.FormatInt(n, 10)
			}
		}
		return "?" + vfutil.HexS(key)
	}
	switch e.Cmd() {
	case "hset":
		if string(a[1]) == checkpoint.BisyncFrontierKey(vfC14Cp) && e.DB == 0 {
			f := map[string]string{}
			for i := 2; i+1 < len(a); i += 2 {
				f[string(a[i])] = string(a[i+1])
			}
			return fmt.Sprintf("save %s:%s:%s:%s:%s", vfutil.HexS(f["run_id"]), f["unit_seq"], f["end_offset"], f["mtime"], vfutil.HexS(f["version"])), true
		}
		return "?hset " + vfutil.Hex(a[1]), true
	case "del", "unlink":
		if len(a) == 2 && string(a[1]) == checkpoint.BisyncFrontierKey(vfC14Cp) {
			return "delfr", true
		}
		var ks []string
		for _, k := range a[1:] {
			ks = append(ks, kseq(string(k)))
		}
		return "del " + strings.Join(ks, ","), true
	case "zrem":
		if string(a[1]) != vfC14IndexKey() {
			return "?zrem " + vfutil.Hex(a[1]), true
		}
		var ks []string
		for _, k := range a[2:] {
			ks = append(ks, kseq(string(k)))
		}
		// one ZREM is atomic: member order is not an observable (both sides sort)
		sort.SliceStable(ks, func(i, j int) bool {
			x, e1 := strconv.ParseInt(ks[i], 10, 64)
			y, e2 := strconv.ParseInt(ks[j], 10, 64)
			if e1 == nil && e2 == nil {
				return x < y
			}
			return ks[i] < ks[j]
		})
		return "zrem " + strings.Join(ks, ","), true
	case "zadd", "set", "hdel", "hsetnx":
		return "?" + e.Cmd() + " " + vfutil.Hex(a[1]), true
	}
	return "", false
}

// independent oracle: sequence numbers a start can see in the journal
func (ns *vfNS) visible(ids []string, minSeq int64) map[int64]bool {
	vis := map[int64]bool{}
	for _, ix := range ns.index {
		if ix[0] < minSeq {
			continue
		}
		for _, j := range ns.journal {
			if j.kseq == ix[1] && j.rec.UnitSeq > 0 {
				for _, id := range ids {
					if id != "" && id == j.rec.RunID {
						vis[j.rec.UnitSeq] = true
					}
				}
			}
		}
	}
	return vis
}

func vfC14StartCase(t *testing.T, s *vfutil.Session, tagp *int, mode string, ids []string, ns *vfNS, prevOff int64, havePrev bool, depth int, r *vfutil.Rand, src string) {
	tag := *tagp
	*tagp++
	tg := vfdoubles.NewTarget()
	ns.seedAll(tg)
	seedLen := tg.LogLen()
	start, off, isPoint := vfC14Start(tg, mode, ids)
	tg.CloseAll()
	log := tg.LogCopy()
	if !vfC14OtherIntact(tg) {
		s.Violate("start-touches-another-namespace", "a start of our namespace changed the recovery keys of ANOTHER checkpoint name on the same target (start answered "+start+")",
			map[string]interface{}{"op": fmt.Sprintf("c14s %d %s %s %s %s", tag, mode, vfutil.HexS(config.Version), checkpoint.VfHexList(ids), ns.encode())})
	}
	s.Count("state_other_namespace_beside_ours")
	var ws []int
	var lines []string
	for i := seedLen; i < len(log); i++ {
		if l, ok := vfC14RenderWrite(log[i]); ok {
			ws = append(ws, i)
			lines = append(lines, l)
		}
	}
	// the same untouched target state, further FRESH processes (no traffic in between): the answer must not depend on
	// the order in which GetCheckpoint happened to visit the target's databases
	for k := 0; k < 6; k++ {
		tk := vfdoubles.NewTarget()
		ns.seedAll(tk)
		again, off2, _ := vfC14Start(tk, mode, ids)
		tk.CloseAll()
		s.Count("start_repeated_on_same_state")
		if again != start {
			s.Violate("restart-moves-resume-point-no-traffic", fmt.Sprintf("the same target state (recovery keys in DB 0, other non-empty databases on the stand-alone target), fresh processes with no traffic in between: one start answers %s (offset %d), another %s (offset %d)", start, off, again, off2),
				map[string]interface{}{"op": fmt.Sprintf("c14s %d %s %s %s %s", tag, mode, vfutil.HexS(config.Version), checkpoint.VfHexList(ids), ns.encode()), "start": start, "again": again})
			break
		}
	}
	m := mode
	if m == "P" {
		m = "F"
	}
	op := fmt.Sprintf("c14s %d %s %s %s %s", tag, m, vfutil.HexS(config.Version), checkpoint.VfHexList(ids), ns.encode())
	out := []string{fmt.Sprintf("#%d start=%s n=%d", tag, start, len(lines))}
	nexts := make([]string, len(ws))
	nextOffs := make([]int64, len(ws))
	nextOk := make([]bool, len(ws))
	for i, w := range ws {
		nexts[i], nextOffs[i], nextOk[i] = vfC14Start(vfdoubles.Replay(log[:w+1], 0), mode, ids)
		out = append(out, fmt.Sprintf("#%d %s next=%s", tag, lines[i], nexts[i]))
	}
	s.Op(op, out...)
	s.Count("start_" + mode + "_" + src)
	s.Add("crash_points", len(ws)+1)
	kind := start
	if isPoint {
		kind = "point"
	} else if strings.HasPrefix(start, "gap") {
		kind = "gap"
	}
	s.Count("start_result_" + kind)
	if len(ws) > 0 {
		s.Count("start_with_cleanup")
		s.Distinct(fmt.Sprintf("%s|%d|%d|%d", mode, len(ws), len(ns.journal), len(ns.index)))
	}
	rep := map[string]interface{}{"op": op, "start": start}
	// monitor 1: the selected sequence never passes a missing one
	if isPoint && m == "F" {
		p := strings.Split(start, ":")
		seq, _ := strconv.ParseInt(p[3], 10, 64)
		if seq > 0 {
			base := int64(0)
			if ns.front != nil {
				for _, id := range ids {
					if id != "" && id == ns.front.RunID {
						base = ns.front.UnitSeq
					}
				}
			}
			min := int64(1)
			if base > 0 {
				min = base + 1
			}
			vis := ns.visible(ids, min)
			for q := base + 1; q <= seq; q++ {
				if !vis[q] {
					s.Violate("start-passes-missing-seq", fmt.Sprintf("selected seq %d, snapshot seq %d, but seq %d is not in the journal", seq, base, q), rep)
					break
				}
			}
			s.Count("start_selected_frontier")
		}
	}
	// monitor 2: restarts never move the resume point backwards
	if havePrev {
		if !isPoint {
			s.Violate("restart-loses-resume-point", fmt.Sprintf("previous start resumed at %d, this one: %s", prevOff, start), rep)
		} else if off < prevOff {
			s.Violate("restart-moves-resume-backwards", fmt.Sprintf("previous start resumed at %d, this one at %d", prevOff, off), rep)
		}
		s.Count("restart_checked")
	}
	if isPoint {
		for i := range ws {
			rep2 := map[string]interface{}{"op": op, "start": start, "crash_after_request": i + 1, "request": lines[i], "next": nexts[i]}
			if !nextOk[i] {
				s.Violate("restart-loses-resume-point", fmt.Sprintf("start resumed at %s; after request #%d (%s) a fresh start: %s", start, i+1, lines[i], nexts[i]), rep2)
				break
			} else if nextOffs[i] < off {
				s.Violate("restart-moves-resume-backwards", fmt.Sprintf("start resumed at %d (%s); after request #%d (%s) a fresh start resumes at %d (%s)", off, start, i+1, lines[i], nextOffs[i], nexts[i]), rep2)
				break
			}
			s.Count("restart_checked")
		}
	}
	// faults on the start path: each write request of this start fails in turn (transient error reply).
	// The start may fail (it is retried) but (1) a point it does return is the one selected without the fault,
	// (2) a fresh start on what it left behind still resumes at or after it, (3) if the numbering restarts
	// (point with sequence 0) a unit committed later under the new numbering without its predecessors
	// must not move the resume point: whatever older recovery state survived the failed request is not combined with it.
	if isPoint && src != "chain" {
		for fi, w := range ws {
			if fi >= 8 {
				break
			}
			tf := vfdoubles.NewTarget()
			ns.seedAll(tf)
			tf.FailAt[w] = "ERR vf injected"
			startF, offF, okF := vfC14Start(tf, mode, ids)
			tf.CloseAll()
			logF := tf.LogCopy()
			s.Count("start_fault_cases")
			repF := map[string]interface{}{"op": op, "start": start, "failed_request": fi + 1, "request": lines[fi], "start_with_fault": startF}
			if okF && startF != start {
				s.Violate("start-fault-changes-resume-point", fmt.Sprintf("start resumes at %s; with request #%d (%s) failing it resumes at %s", start, fi+1, lines[fi], startF), repF)
				break
			}
			if okF {
				s.Count("start_fault_survived")
			}
			after := vfdoubles.ReplayFaults(logF, 0, false, map[int]string{w: "ERR vf injected"})
			nsF := vfC14Dump(after, ids)
			nx, nxOff, nxOk := vfC14Start(after, mode, ids)
			after.CloseAll()
			if !nxOk || nxOff < off {
				repF["next"] = nx
				s.Violate("start-fault-then-restart-moves-backwards", fmt.Sprintf("start resumes at %s; request #%d (%s) failed; the next start: %s", start, fi+1, lines[fi], nx), repF)
				break
			}
			if okF && m == "F" && strings.HasSuffix(startF, ":0") {
				// numbering restarted although the failed request left older state: unit K commits, 1..K-1 do not
				k := int64(2)
				if nsF.front != nil && nsF.front.UnitSeq >= 1 {
					k = nsF.front.UnitSeq + 1
				}
				rid := strings.Split(startF, ":")[1]
				rec := &checkpoint.BisyncCommitRecord{RunID: string(vfutil.UnHex(rid)), Version: config.Version, SyncerID: "vf", UnitSeq: k, StartOffset: offF + (k-1)*100, EndOffset: offF + k*100, MTime: 5, Digest: "d"}
				t2 := vfdoubles.ReplayFaults(logF, 0, false, map[int]string{w: "ERR vf injected"})
				rr := *rec
				rr.Key = vfC14CommitKey(k)
				t2.Seed(0, vfArgs(rr.Key, rr.HashArgs())...)
				t2.Seed(0, "zadd", vfC14IndexKey(), strconv.FormatInt(k, 10), rr.Key)
				n2, n2Off, n2Ok := vfC14Start(t2, mode, ids)
				t2.CloseAll()
				s.Count("start_fault_renumber_checked")
				if !n2Ok || n2Off != offF {
					repF["committed_unit"] = k
					repF["next"] = n2
					s.Violate("start-fault-renumber-skips-unit", fmt.Sprintf("request #%d (%s) of the start failed, the start resumed at %s (numbering restarts); then unit %d committed (units 1..%d not) and the process stopped: the next start resumes at %s, not at %d",
						fi+1, lines[fi], startF, k, k-1, n2, offF), repF)
					break
				}
			}
		}
	}
	// chain: restart from a crash point of this start (its own line in the protocol)
	if depth > 0 && isPoint {
		k := len(log)
		if len(ws) > 0 && r.Chance(2, 3) {
			k = ws[r.Intn(len(ws))] + 1
		}
		tk := vfdoubles.Replay(log[:k], 0)
		ns2 := vfC14Dump(tk, ids)
		tk.CloseAll()
		vfC14StartCase(t, s, tagp, mode, ids, ns2, off, true, depth-1, r, "chain")
	}
}

// vfC14GenNS: offsets around 1000 (also used by the C17 harness: unchanged draws)
func vfC14GenNS(r *vfutil.Rand, ids []string, mode string) *vfNS { return vfC14GenNSB(r, ids, mode, 1000, false) }

// vfC14GenNSB: unit q ends at B + 37q; extremes = also draw a root at offset 0
func vfC14GenNSB(r *vfutil.Rand, ids []string, mode string, B int64, extremes bool) *vfNS {
	rid := ids[0]
	ns := &vfNS{}
	base := int64(r.Range(0, 8))
	e := func(q int64) int64 { return B + 37*q }
	if r.Chance(5, 6) {
		ns.front = &checkpoint.BisyncFrontierSnapshot{Version: config.Version, RunID: rid, UnitSeq: base, Offset: e(base), MTime: int64(r.Range(1, 1000))}
		if r.Chance(1, 12) {
			ns.front.RunID = "foreign"
		}
		if r.Chance(1, 12) {
			ns.front.RunID = ids[1]
		}
	} else {
		base = 0
	}
	// journal: committed units after the snapshot, some missing (gaps), some already trimmed
	n := r.Range(0, 7)
	q := base
	if r.Chance(1, 6) {
		q += int64(r.Range(1, 2))
	}
	for i := 0; i < n; i++ {
		q++
		if r.Chance(1, 7) {
			q += int64(r.Range(1, 2))
		}
		rec := &checkpoint.BisyncCommitRecord{Version: config.Version, RunID: rid, SyncerID: "vf", UnitSeq: q, StartOffset: e(q - 1), EndOffset: e(q), MTime: int64(r.Range(1, 1000)), Digest: "d"}
		if r.Chance(1, 15) {
			rec.RunID = "foreign"
		}
		hasRec, hasIdx := true, true
		switch r.Intn(12) {
		case 0:
			hasRec = false // DEL done, ZREM not yet
		case 1:
			hasIdx = false // record without index entry (invisible)
		}
		if hasRec {
			ns.journal = append(ns.journal, vfJRec{q, rec})
		}
		if hasIdx {
			ns.index = append(ns.index, [2]int64{q, q})
		}
	}
	// leftovers the snapshot already covers
	if base > 1 && r.Chance(1, 3) {
		k := base - int64(r.Intn(2))
		rec := &checkpoint.BisyncCommitRecord{Version: config.Version, RunID: rid, SyncerID: "vf", UnitSeq: k, StartOffset: e(k - 1), EndOffset: e(k), MTime: 5, Digest: "d"}
		ns.journal = append(ns.journal, vfJRec{k, rec})
		ns.index = append(ns.index, [2]int64{k, k})
	}
	top := e(q)
	if r.Chance(9, 10) {
		ns.rootRid = rid
		if r.Chance(1, 8) {
			ns.rootRid = ids[1]
		}
		switch r.Intn(5) {
		case 0:
			ns.rootOff = top + int64(r.Range(1, 500)) // newer than anything (a full sync finished)
		case 1:
			ns.rootOff = e(base) + int64(r.Range(0, 40))
		default:
			ns.rootOff = int64(r.Range(0, 1000))
			if B > 1000 {
				ns.rootOff += B - 1000
			}
		}
		if extremes && r.Chance(1, 25) {
			ns.rootOff = 0
		}
		if r.Chance(1, 4) { // boundary of the root override: root = selected offset -1 / 0 / +1
			ns.rootOff = top + int64(r.Range(-1, 1))
			ns.rootRid = rid
		}
		if r.Chance(1, 6) {
			ns.rootDb = r.Range(1, 3)
		}
	}
	if mode == "L" || r.Chance(1, 5) {
		k := int64(r.Range(1, 9))
		ns.latest = &checkpoint.BisyncCommitRecord{Version: config.Version, RunID: rid, SyncerID: "vf", UnitSeq: k, StartOffset: e(k - 1), EndOffset: e(k), MTime: int64(r.Range(1, 1000)), Digest: "d"}
		if r.Chance(1, 10) {
			ns.latest.RunID = "foreign"
		}
		if mode == "L" && r.Chance(1, 8) {
			ns.latest = nil
		}
	}
	return ns
}

// ------------------------------------------------------------ the coordinator

type vfCEv struct {
	rec   *checkpoint.BisyncCommitRecord // nil = flush tick
	delta time.Duration
}

func vfC14CoordCase(t *testing.T, s *vfutil.Session, tag int, rid string, seq0, off0 int64, evs []vfCEv, src string) {
	var lines []string
	var t0 int64
	var evStr []string
	tg := vfdoubles.NewTarget()
	reported := map[int64]bool{}
	viol := ""
	synctest.Test(t, func(t *testing.T) {
		cli := checkpoint.VfConn(tg)
		fc := newBisyncFrontierCoordinator(cli, checkpoint.BisyncFrontierKey(vfC14Cp), vfC14Cp, "vf", seq0, off0, rid)
		t0 = time.Now().UnixNano()
		seen := 0
		savedSeq := int64(-1 << 62)
		for _, ev := range evs {
			time.Sleep(ev.delta)
			now := time.Now().UnixNano()
			if ev.rec != nil {
				reported[ev.rec.UnitSeq] = true
				evStr = append(evStr, fmt.Sprintf("r%s@%d", checkpoint.VfRecStr(ev.rec), now))
				if err := fc.onCommitted(ev.rec); err != nil {
					viol = "onCommitted error: " + err.Error()
				}
			} else {
				evStr = append(evStr, fmt.Sprintf("f@%d", now))
				if err := fc.flush(); err != nil {
					viol = "flush error: " + err.Error()
				}
			}
			var pend []int64
			for q := range reported {
				if _, ok := fc.pending.Get(q); ok {
					pend = append(pend, q)
				}
			}
			sort.Slice(pend, func(i, j int) bool { return pend[i] < pend[j] })
			var adv []int64
			for _, a := range fc.advanced {
				adv = append(adv, a.UnitSeq)
			}
			line := fmt.Sprintf("#%d %d %d p=%s a=%s", tag, fc.frontier.UnitSeq, fc.frontier.Offset, vfI64s(pend), vfI64s(adv))
			log := tg.LogCopy()
			for _, e := range log[seen:] {
				if l, ok := vfC14RenderWrite(e); ok {
					line += " | " + l
					// monitor: delete only what a saved frontier covers
					if strings.HasPrefix(l, "save ") {
						p := strings.Split(l[5:], ":")
						savedSeq, _ = strconv.ParseInt(p[1], 10, 64)
					}
					if strings.HasPrefix(l, "del ") || strings.HasPrefix(l, "zrem ") {
						for _, k := range strings.Split(l[strings.Index(l, " ")+1:], ",") {
							kk, _ := strconv.ParseInt(k, 10, 64)
							if kk > savedSeq && viol == "" {
								viol = fmt.Sprintf("journal record %d deleted, saved frontier seq %d", kk, savedSeq)
							}
						}
					}
				}
			}
			seen = len(log)
			lines = append(lines, line)
			// monitor: the frontier is the contiguous prefix of what was reported
			want := seq0
			for reported[want+1] {
				want++
			}
			if fc.frontier.UnitSeq != want && viol == "" {
				viol = fmt.Sprintf("frontier seq %d, contiguous reported prefix %d", fc.frontier.UnitSeq, want)
			}
		}
		cli.Close()
		tg.CloseAll()
		synctest.Wait()
	})
	// the flush policy is a tuning parameter: the model takes the values the code has
	op := fmt.Sprintf("c14c %d %s %s %d %d %d %d %d %s", tag, vfutil.HexS(config.Version), vfutil.HexS(rid), seq0, off0, t0,
		bisyncFrontierFlushUnitThreshold, int64(bisyncFrontierFlushInterval), strings.Join(evStr, ";"))
	s.Op(op, lines...)
	s.Count("coord_" + src)
	s.Add("coord_events", len(evs))
	if viol != "" {
		s.Violate("coordinator-frontier", viol, map[string]interface{}{"op": op})
	}
	s.Distinct(fmt.Sprintf("coord|%d|%d", len(evs), len(tg.LogCopy())))
}

func vfI64s(xs []int64) string {
	if len(xs) == 0 {
		return "."
	}
	p := make([]string, len(xs))
	for i, x := range xs {
		p[i] = strconv.FormatInt(x, 10)
	}
	return strings.Join(p, ",")
}

func vfC14GenCoord(r *vfutil.Rand) (string, int64, int64, []vfCEv) {
	rid := "rid-" + strconv.Itoa(r.Intn(100))
	seq0 := int64(r.Range(0, 20))
	off0 := 5000 + seq0*10
	n := r.Range(1, 14)
	if r.Chance(1, 40) { // the unit-count flush threshold (512): many completions within one flush interval
		n = r.Range(bisyncFrontierFlushUnitThreshold-2, bisyncFrontierFlushUnitThreshold+18)
		var evs []vfCEv
		for q := seq0 + 1; q <= seq0+int64(n); q++ {
			rec := &checkpoint.BisyncCommitRecord{Key: vfC14CommitKey(q), RecordType: "commit", Version: config.Version, RunID: rid,
				SyncerID: "vf", UnitSeq: q, StartOffset: 5000 + (q-1)*10, EndOffset: 5000 + q*10, MTime: 1000, Digest: "d"}
			evs = append(evs, vfCEv{rec, 0})
		}
		return rid, seq0, off0, evs
	}
	order := make([]int64, n)
	for i := range order {
		order[i] = seq0 + 1 + int64(i)
	}
	// completion order: lanes finish out of order (bounded or arbitrary displacement)
	w := r.Range(1, n)
	for i := 0; i < n; i++ {
		j := i + r.Intn(w)
		if j >= n {
			j = n - 1
		}
		order[i], order[j] = order[j], order[i]
	}
	var evs []vfCEv
	for _, q := range order {
		if r.Chance(1, 8) {
			evs = append(evs, vfCEv{nil, time.Duration(r.Range(0, 120)) * time.Millisecond})
		}
		rec := &checkpoint.BisyncCommitRecord{Key: vfC14CommitKey(q), RecordType: "commit", Version: config.Version, RunID: rid,
			SyncerID: "vf", UnitSeq: q, StartOffset: 5000 + (q-1)*10, EndOffset: 5000 + q*10, MTime: 1000 + int64(r.Range(0, 50)), Digest: "d"}
		evs = append(evs, vfCEv{rec, time.Duration(vfutil.Pick(r, []int{0, 0, 1, 30, 99, 100, 101, 250})) * time.Millisecond})
		if r.Chance(1, 12) { // reported twice / a stale one
			dup := *rec
			dup.MTime++
			if r.Bool() && seq0 > 0 {
				dup.UnitSeq = seq0 - int64(r.Intn(2))
				dup.Key = vfC14CommitKey(dup.UnitSeq)
			}
			evs = append(evs, vfCEv{&dup, time.Duration(r.Range(0, 50)) * time.Millisecond})
		}
	}
	if r.Bool() {
		evs = append(evs, vfCEv{nil, time.Duration(r.Range(0, 200)) * time.Millisecond})
	}
	return rid, seq0, off0, evs
}

// ------------------------------------------------------------ best latest record over several slots

// vfC14Best: the real LoadBisyncLatestStartRecord over 1-4 recovery slots (what a cluster start
// scans), latest records with equal / different end offsets and mtimes, foreign run ids.
func vfC14Best(s *vfutil.Session, tag int, r *vfutil.Rand) {
	ids := []string{"run-" + strconv.Itoa(r.Intn(9)), "prev-" + strconv.Itoa(r.Intn(9))}
	tg := vfdoubles.NewTarget()
	slots := []uint16{0, 5, 9, 77}[:r.Range(1, 4)]
	var parts []string
	var use []uint16
	for _, sl := range slots {
		if r.Chance(1, 5) {
			use = append(use, sl) // slot without latest record
			continue
		}
		rec := &checkpoint.BisyncCommitRecord{Version: config.Version, RunID: vfutil.Pick(r, []string{ids[0], ids[0], ids[1], "foreign"}), SyncerID: "vf",
			UnitSeq: int64(r.Range(1, 9)), EndOffset: 1000 + int64(r.Range(0, 3))*10, MTime: int64(r.Range(1, 3)), Slot: sl, Digest: "d"}
		rec.StartOffset = rec.EndOffset - 5
		tg.Seed(0, vfArgs(checkpoint.BisyncLatestCheckpointKey(vfC14Cp, checkpoint.BisyncSlotTag(sl)), rec.HashArgs())...)
		parts = append(parts, checkpoint.VfRecStr(rec))
		use = append(use, sl)
	}
	cli := checkpoint.VfConn(tg)
	best, n, err := checkpoint.LoadBisyncLatestStartRecord(cli, vfC14Cp, use, ids)
	cli.Close()
	tg.CloseAll()
	rs := "."
	if len(parts) > 0 {
		rs = strings.Join(parts, ";")
	}
	line := fmt.Sprintf("#%d err", tag)
	if err == nil {
		b := "-"
		if best != nil {
			b = checkpoint.VfRecStr(best)
		}
		line = fmt.Sprintf("#%d best=%s n=%d", tag, b, n)
	}
	s.Op(fmt.Sprintf("c14b %d %s %s", tag, checkpoint.VfHexList(ids), rs), line)
	s.Count("best_latest")
}

// ------------------------------------------------------------ corpus / main

// ------------------------------------------------------------ cluster-typed start: several slot tags
//
// On a cluster target the journal records, their index sets and the latest records are spread over the
// slot tags of the units' keys; a start scans all 16384 tags and its clean-up iterates a Go map of index
// keys, so the request order across tags is not fixed: no request-sequence comparison here, only monitors
// that do not depend on it. Oracle (independent of the model): e(k) = end offset of unit k;
//   pipeline/parallel: c = snapshot seq (0 if none), advanced while unit c+1 has a journal record; the point
//   is e(c) if c > 0 and the root is not newer, the root otherwise (numbering restarts);
//   sync: the largest end offset among the per-tag latest records, the root if it is newer.
// Every write request of the start is a crash point and, in turn, fails once.

type vfCCase struct {
	mode    string
	slots   []uint16
	rootOff int64 // 0 = no root
	snapSeq int64 // -1 = no snapshot
	recs    [][2]int64 // seq, slot index
	latest  [][2]int64 // seq, slot index (sync mode)
}

func (c *vfCCase) op() string {
	f := func(xs [][2]int64) string {
		p := []string{}
		for _, x := range xs {
			p = append(p, fmt.Sprintf("%d/%d", x[0], x[1]))
		}
		if len(p) == 0 {
			return "."
		}
		return strings.Join(p, ",")
	}
	sl := []int{}
	for _, x := range c.slots {
		sl = append(sl, int(x))
	}
	return fmt.Sprintf("c14k mode=%s slots=%s root=%d snap=%d recs=%s latest=%s", c.mode, checkpoint.VfInts(sl), c.rootOff, c.snapSeq, f(c.recs), f(c.latest))
}

const vfCRid = "2222222222222222222222222222222222222222"

func vfCE(k int64) int64 { return 9000 + 100*k }

func (c *vfCCase) seed(tg *vfdoubles.Target) {
	if c.rootOff > 0 {
		tg.Seed(0, "hset", vfC14Cp, vfCRid+"_runid", vfCRid, vfCRid+"_version", config.Version, vfCRid+"_offset", strconv.FormatInt(c.rootOff, 10), vfCRid+"_mtime", "1700000000000000000")
	}
	tg.Seed(0, "hset", vfC14Cp, "bisync_mode", "parallel")
	if c.snapSeq >= 0 {
		fr := &checkpoint.BisyncFrontierSnapshot{Version: config.Version, RunID: vfCRid, UnitSeq: c.snapSeq, Offset: vfCE(c.snapSeq), MTime: 1}
		tg.Seed(0, vfArgs(checkpoint.BisyncFrontierKey(vfC14Cp), fr.HashArgs())...)
	}
	for _, x := range c.recs {
		slot := c.slots[x[1]]
		tag := checkpoint.BisyncSlotTag(slot)
		k := checkpoint.BisyncCommitRecordKey(vfC14Cp, tag, x[0])
		rec := &checkpoint.BisyncCommitRecord{Key: k, Version: config.Version, RunID: vfCRid, SyncerID: "vf", UnitSeq: x[0], StartOffset: vfCE(x[0] - 1), EndOffset: vfCE(x[0]), Slot: slot, MTime: 5, Digest: "d"}
		tg.Seed(0, vfArgs(k, rec.HashArgs())...)
		tg.Seed(0, "zadd", checkpoint.BisyncCommitIndexKey(vfC14Cp, tag), strconv.FormatInt(x[0], 10), k)
	}
	for _, x := range c.latest {
		slot := c.slots[x[1]]
		k := checkpoint.BisyncLatestCheckpointKey(vfC14Cp, checkpoint.BisyncSlotTag(slot))
		rec := &checkpoint.BisyncCommitRecord{Key: k, Version: config.Version, RunID: vfCRid, SyncerID: "vf", UnitSeq: x[0], StartOffset: vfCE(x[0] - 1), EndOffset: vfCE(x[0]), Slot: slot, MTime: 5, Digest: "d"}
		tg.Seed(0, vfArgs(k, rec.HashArgs())...)
	}
}

func (c *vfCCase) expect() int64 {
	if c.rootOff == 0 {
		return -1 // empty
	}
	if c.mode == "L" {
		best := int64(-1)
		for _, x := range c.latest {
			if vfCE(x[0]) > best {
				best = vfCE(x[0])
			}
		}
		if best < 0 || c.rootOff > best {
			return c.rootOff
		}
		return best
	}
	have := map[int64]bool{}
	for _, x := range c.recs {
		have[x[0]] = true
	}
	k := int64(0)
	if c.snapSeq > 0 {
		k = c.snapSeq
	}
	for have[k+1] {
		k++
	}
	if k == 0 || c.rootOff > vfCE(k) {
		return c.rootOff
	}
	return vfCE(k)
}

func vfC14ClusterStart(tg *vfdoubles.Target, mode string) (int64, string) {
	ro := vfC14Output(tg, mode)
	ro.cfg.Redis.Type = config.RedisTypeCluster
	ro.cfg.Redis.Otype = config.RedisTypeCluster
	sp, seq, ok, err := ro.bisyncStartPoint(context.Background(), []string{vfCRid, "0000000000000000000000000000000000000000"})
	if err != nil {
		return -2, "err:" + err.Error()
	}
	if !ok {
		return -1, "empty"
	}
	return sp.Offset, fmt.Sprintf("%d/seq%d", sp.Offset, seq)
}

func vfC14ClusterCase(s *vfutil.Session, c *vfCCase, src string) {
	tg := vfdoubles.NewTarget()
	c.seed(tg)
	nSeed := tg.LogLen()
	off, txt := vfC14ClusterStart(tg, c.mode)
	tg.CloseAll()
	log := tg.LogCopy()
	s.Count("cluster_start_" + c.mode + "_" + src)
	s.Count("cfg_redis_type_cluster")
	{
		seen := map[int64]bool{}
		for _, x := range c.recs {
			if seen[x[0]] {
				s.Count("state_duplicate_seq_across_slot_tags")
				break
			}
			seen[x[0]] = true
		}
	}
	rep := func(extra map[string]interface{}) map[string]interface{} {
		m := map[string]interface{}{"op": c.op(), "start": txt}
		for k, v := range extra {
			m[k] = v
		}
		return m
	}
	if want := c.expect(); off != want {
		s.Violate("cluster-start-wrong-point", fmt.Sprintf("slot tags %v: the start answered %s, the contiguous committed prefix / newer root gives %d", c.slots, txt, want), rep(nil))
		return
	}
	if off < 0 {
		return
	}
	var ws []int
	for i := nSeed; i < len(log); i++ {
		if _, ok := vfC14RenderWrite(log[i]); ok {
			ws = append(ws, i)
		}
	}
	if len(ws) > 0 {
		s.Count("cluster_start_with_cleanup")
	}
	for n, w := range ws {
		tk := vfdoubles.Replay(log[:w+1], 0)
		o2, t2 := vfC14ClusterStart(tk, c.mode)
		tk.CloseAll()
		s.Count("cluster_crash_points")
		if o2 < off {
			s.Violate("cluster-restart-moves-resume-backwards", fmt.Sprintf("start resumed at %s; stopped after its request #%d (%s) a fresh start: %s", txt, n+1, log[w].String(), t2),
				rep(map[string]interface{}{"crash_after_request": n + 1, "next": t2}))
			return
		}
		// the request fails instead (transient)
		tf := vfdoubles.NewTarget()
		c.seed(tf)
		tf.FailAt[w] = "ERR vf injected"
		oF, tF := vfC14ClusterStart(tf, c.mode)
		tf.CloseAll()
		after := vfdoubles.ReplayFaults(tf.LogCopy(), 0, false, map[int]string{w: "ERR vf injected"})
		o3, t3 := vfC14ClusterStart(after, c.mode)
		after.CloseAll()
		s.Count("cluster_fault_cases")
		if (oF >= 0 && oF != off) || o3 < off {
			s.Violate("cluster-start-fault-moves-resume", fmt.Sprintf("start resumes at %s; with its request #%d (%s) failing it answers %s, the next start %s", txt, n+1, log[w].String(), tF, t3),
				rep(map[string]interface{}{"failed_request": n + 1, "start_with_fault": tF, "next": t3}))
			return
		}
	}
	s.Distinct(fmt.Sprintf("k|%s|%d|%d|%d|%v", c.mode, len(c.slots), len(c.recs), len(ws), c.rootOff > off))
}

func vfC14GenCluster(r *vfutil.Rand) *vfCCase {
	c := &vfCCase{mode: vfutil.Pick(r, []string{"F", "F", "P", "L"}), snapSeq: -1}
	pool := []uint16{0, 5, 866, 4000, 12182, 16383}
	for i := len(pool) - 1; i > 0; i-- {
		j := r.Intn(i + 1)
		pool[i], pool[j] = pool[j], pool[i]
	}
	c.slots = pool[:r.Range(2, 3)]
	top := int64(0)
	if c.mode == "L" {
		for i := range c.slots {
			if r.Chance(3, 4) {
				q := int64(r.Range(1, 9))
				c.latest = append(c.latest, [2]int64{q, int64(i)})
				if q > top {
					top = q
				}
			}
		}
	} else {
		if r.Chance(2, 3) {
			c.snapSeq = int64(r.Range(0, 4))
		}
		base := c.snapSeq
		if base < 0 {
			base = 0
		}
		for q := base + 1; q <= base+int64(r.Range(0, 6)); q++ {
			if r.Chance(1, 6) {
				continue // gap
			}
			c.recs = append(c.recs, [2]int64{q, int64(r.Intn(len(c.slots)))})
			top = q
		}
		if len(c.recs) > 0 && r.Chance(1, 3) { // the same sequence number under ANOTHER slot tag as well (a duplicate across tags)
			d := c.recs[r.Intn(len(c.recs))]
			c.recs = append(c.recs, [2]int64{d[0], (d[1] + 1) % int64(len(c.slots))})
		}
		if base > 0 && r.Chance(1, 3) { // a leftover the snapshot covers
			c.recs = append(c.recs, [2]int64{int64(r.Range(1, int(base))), int64(r.Intn(len(c.slots)))})
		}
	}
	switch r.Intn(6) {
	case 0:
		c.rootOff = 0
	case 1:
		c.rootOff = vfCE(top) + 50 // newer than everything: numbering restarts
	case 2:
		c.rootOff = vfCE(int64(r.Range(0, int(top)+1))) + 1
	default:
		c.rootOff = vfCE(0)
	}
	return c
}

func vfC14ParseCluster(op string) *vfCCase {
	if !strings.HasPrefix(op, "c14k ") {
		return nil
	}
	kv := map[string]string{}
	for _, tok := range strings.Fields(op)[1:] {
		if i := strings.IndexByte(tok, '='); i > 0 {
			kv[tok[:i]] = tok[i+1:]
		}
	}
	c := &vfCCase{mode: kv["mode"]}
	for _, x := range checkpoint.VfUnInts(kv["slots"]) {
		c.slots = append(c.slots, uint16(x))
	}
	c.rootOff, _ = strconv.ParseInt(kv["root"], 10, 64)
	c.snapSeq, _ = strconv.ParseInt(kv["snap"], 10, 64)
	pairs := func(v string) [][2]int64 {
		var out [][2]int64
		if v == "." || v == "" {
			return out
		}
		for _, p := range strings.Split(v, ",") {
			ab := strings.Split(p, "/")
			a, _ := strconv.ParseInt(ab[0], 10, 64)
			b, _ := strconv.ParseInt(ab[1], 10, 64)
			out = append(out, [2]int64{a, b})
		}
		return out
	}
	c.recs, c.latest = pairs(kv["recs"]), pairs(kv["latest"])
	return c
}

func vfC14ParseStartOp(op string) (string, []string, *vfNS) {
	f := strings.Fields(op)
	if len(f) != 10 || f[0] != "c14s" {
		return "", nil, nil
	}
	return f[2], checkpoint.VfUnHexList(f[4]), vfC14ParseNS(f[5], f[6], f[7], f[8], f[9])
}

func TestVerifC14(t *testing.T) {
	s := vfutil.NewSession("C14")
	defer s.Close()
	r := vfutil.NewRand(vfutil.Seed())
	tag := 0
	if rp := os.Getenv("VERIF_REPLAY"); rp != "" {
		b, _ := os.ReadFile(rp)
		op := string(b)
		if i := strings.Index(op, "c14s "); i >= 0 {
			op = op[i:]
			if j := strings.IndexAny(op, "\"\n"); j >= 0 {
				op = op[:j]
			}
			if mode, ids, ns := vfC14ParseStartOp(op); ns != nil {
				vfC14StartCase(t, s, &tag, mode, ids, ns, 0, false, 2, r, "replay")
			}
		} else if i := strings.Index(op, "c14n "); i >= 0 {
			op = op[i:]
			if j := strings.IndexAny(op, "\"\n"); j >= 0 {
				op = op[:j]
			}
			if c := vfC14ParseSyncN(op); c != nil {
				vfC14SyncNCase(t, s, 0, c, "replay")
			}
		} else if i := strings.Index(op, "c14k "); i >= 0 {
			op = op[i:]
			if j := strings.IndexAny(op, "\"\n"); j >= 0 {
				op = op[:j]
			}
			if c := vfC14ParseCluster(op); c != nil {
				vfC14ClusterCase(s, c, "replay")
			}
		}
		return
	}
	for _, l := range vfutil.Corpus("C14") {
		if mode, ids, ns := vfC14ParseStartOp(l); ns != nil {
			vfC14StartCase(t, s, &tag, mode, ids, ns, 0, false, 2, r, "corpus")
		}
	}
	n := vfutil.Scale(500, 10000)
	for i := 0; i < n; i++ {
		rr := r.Fork()
		ids := []string{"run-" + strconv.Itoa(rr.Intn(50)), "prev-" + strconv.Itoa(rr.Intn(50))}
		mode := vfutil.Pick(rr, []string{"F", "F", "P", "L"})
		// offsets: mostly around 1000; forced: from 0, and near the top of int64
		ns := vfC14GenNSB(rr, ids, mode, vfutil.Pick(rr, []int64{1000, 1000, 1000, 1000, 0, 9223372036854775807 - 5000}), true)
		vfC14Resume = !rr.Chance(1, 4)
		s.Count(fmt.Sprintf("cfg_resumeFromBreakPoint_%v", vfC14Resume))
		s.Count("cfg_replay_mode_" + map[string]string{"L": "sync", "P": "pipeline", "F": "parallel"}[mode])
		s.Count("cfg_redis_type_standalone")
		switch {
		case ns.rootRid != "" && ns.rootOff == 0:
			s.Count("offset_root_0")
		case ns.rootOff > 1<<62:
			s.Count("offset_near_max_int64")
		}
		vfC14StartCase(t, s, &tag, mode, ids, ns, 0, false, rr.Range(0, 3), rr, "gen")
		vfC14Resume = true
	}
	n = vfutil.Scale(300, 6000)
	for i := 0; i < n; i++ {
		vfC14Best(s, tag, r.Fork())
		tag++
	}
	n = vfutil.Scale(400, 8000)
	for i := 0; i < n; i++ {
		rid, seq0, off0, evs := vfC14GenCoord(r.Fork())
		vfC14CoordCase(t, s, tag, rid, seq0, off0, evs, "gen")
		tag++
	}
	for _, l := range vfutil.Corpus("C14") {
		if c := vfC14ParseSyncN(l); c != nil {
			vfC14SyncNCase(t, s, tag, c, "corpus")
			tag++
		}
	}
	rn := vfutil.NewRand(vfutil.Seed() + 1415)
	n = vfutil.Scale(60, 600)
	for i := 0; i < n; i++ {
		vfC14SyncNCase(t, s, tag, vfC14GenSyncN(rn.Fork()), "gen")
		tag++
	}
	for _, l := range vfutil.Corpus("C14") {
		if c := vfC14ParseCluster(l); c != nil {
			vfC14ClusterCase(s, c, "corpus")
		}
	}
	rk := vfutil.NewRand(vfutil.Seed() + 1414)
	n = vfutil.Scale(40, 800)
	for i := 0; i < n; i++ {
		vfC14ClusterCase(s, vfC14GenCluster(rk.Fork()), "gen")
	}
}
