//go:build verif

package syncer

// C13, session 5: near misses of the two shapes the opposite link passes over (a MULTI block whose first command -
// behind lazy-expiry deletions DEL/UNLINK <marker> - is SET <marker> …). Each block below is NOT something the tool
// writes or a master propagates for a commit: a client wrote it, so the REAL parser must hand it on as one unit
// holding all its commands (or refuse it with the builder's error) - judged here by a monitor on the implementation
// alone (the parse ops compare the same streams with the Lean parser; a difference there is a model diff, this is a
// failing input). replay.rerun = "nearmiss".

import (
	"fmt"
	"strings"
	"testing"

	"github.com/mgtv-tech/redis-GunYu/pkg/redis/checkpoint"
	"github.com/mgtv-tech/redis-GunYu/pkg/vfutil"
)

func vfc13NearMissProbe(t *testing.T, s *vfutil.Session, r *vfutil.Rand) {
	cp := "redis-gunyu-checkpoint-bisync:0123456789abcdef01234567"
	for _, slot := range []uint16{0, 77} {
		tag := checkpoint.BisyncSlotTag(slot)
		mk := checkpoint.BisyncMarkerKey(cp, tag)
		lk := checkpoint.BisyncLatestCheckpointKey(cp, tag)
		set := vfc13C("set", mk, "mv", "PXAT", "99999")
		near := map[string][]vfc13Cmd{
			"del-marker-and-key":      {vfc13C("del", mk, "k1"), set},
			"unlink-key-and-marker":   {vfc13C("UNLINK", "k1", mk), set},
			"del-marker-twice-in-one": {vfc13C("del", mk, mk), set},
			"del-latest-then-set":     {vfc13C("del", lk), set},
			"expiry-then-key-write":   {vfc13C("del", mk), vfc13C("set", "k1", "v"), set},
			"set-marker-no-value":     {vfc13C("set", mk), vfc13C("set", "k1", "v")},
			"setex-marker":            {vfc13C("setex", mk, "10", "mv"), vfc13C("set", "k1", "v")},
			"getset-marker":           {vfc13C("getset", mk, "mv"), vfc13C("set", "k1", "v")},
			"expire-marker":           {vfc13C("pexpireat", mk, "99999"), vfc13C("set", "k1", "v")},
			"marker-other-case":       {vfc13C("set", strings.ToUpper(mk[:1])+mk[1:], "mv", "PXAT", "99999"), vfc13C("set", "k1", "v")},
			"marker-infix-only":       {vfc13C("set", "x:marker:{"+tag+"}", "mv", "PXAT", "99999"), vfc13C("set", "k1", "v")},
			"key-write-then-marker":   {vfc13C("set", "k1", "v"), set},
			"expiry-only":             {vfc13C("del", mk), vfc13C("unlink", mk), vfc13C("set", "k1", "v")},
		}
		names := make([]string, 0, len(near))
		for n := range near {
			names = append(names, n)
		}
		// deterministic order
		for i := 0; i < len(names); i++ {
			for j := i + 1; j < len(names); j++ {
				if names[j] < names[i] {
					names[i], names[j] = names[j], names[i]
				}
			}
		}
		for _, n := range names {
			body := append([]vfc13Cmd{}, near[n]...)
			body = append(body, vfc13C("hset", lk, "version", "1"))
			stream := append([]vfc13Cmd{vfc13C("multi")}, body...)
			stream = append(stream, vfc13C("exec"))
			var wire []byte
			for _, c := range stream {
				wire = append(wire, vfc13Resp(c)...)
			}
			ro := vfc13NewOutput(false, "none", cp, nil, nil, nil)
			units, err := vfc13Parse(ro, 100, 7, wire)
			status := vfc13ParseStatus(err)
			replay := map[string]interface{}{"shape": n, "stream": vfc13CmdsTok(stream), "status": status, "rerun": "nearmiss"}
			s.Count("near_miss_" + n)
			if strings.HasPrefix(status, "err-build") {
				s.Count("near_miss_refused_by_builder")
				continue // the replay stops: allowed by the property, the write is not lost silently
			}
			if len(units) != 1 || status != "eof" {
				s.Violate("foreign-block-suppressed",
					fmt.Sprintf("a client transaction that merely resembles a mirrored one (%s) produced %d units, status %s: the tool did not write it, it must come out", n, len(units), status), replay)
				continue
			}
			if len(units[0].Commands) != len(body) {
				s.Violate("unit-content-differs",
					fmt.Sprintf("the unit built from a near-miss transaction (%s) holds %d of its %d commands", n, len(units[0].Commands), len(body)), replay)
			}
		}
		// recognition behind a SELECT and under a database blacklist (Props/C13Db.lean): the mirrored block - with and
		// without the lazy expiry ahead of the marker SET - yields no unit and no stop in either case; the client write
		// behind `SELECT 0` comes out (the bypass has ended), the one in the blacklisted database does not
		mirror := func(expired bool) []vfc13Cmd {
			out := []vfc13Cmd{vfc13C("MULTI")}
			if expired {
				out = append(out, vfc13C("UNLINK", mk))
			}
			return append(out, set, vfc13C("incrby", "n0", "5"), vfc13C("hset", lk, "version", "1"), vfc13C("EXEC"))
		}
		for _, expired := range []bool{false, true} {
			for ci, cs := range []struct {
				dbbl   []int
				stream []vfc13Cmd
				want   int
			}{
				{nil, append([]vfc13Cmd{vfc13C("SELECT", "3")}, mirror(expired)...), 0},
				{nil, append(append([]vfc13Cmd{vfc13C("select", "3")}, mirror(expired)...), vfc13C("set", "k1", "v")), 1},
				{[]int{2}, append(append([]vfc13Cmd{vfc13C("SELECT", "2")}, mirror(expired)...), vfc13C("set", "k1", "v")), 0},
				{[]int{2}, append(append(append([]vfc13Cmd{vfc13C("SELECT", "2"), vfc13C("set", "k2", "v"), vfc13C("SELECT", "0")}, mirror(expired)...),
					vfc13C("set", "k1", "v")), vfc13C("select", "2"), vfc13C("set", "k3", "v")), 1},
			} {
				var wire []byte
				for _, c := range cs.stream {
					wire = append(wire, vfc13Resp(c)...)
				}
				ro := vfc13NewOutput(false, "none", cp, nil, cs.dbbl, nil)
				units, err := vfc13Parse(ro, 100, 7, wire)
				status := vfc13ParseStatus(err)
				replay := map[string]interface{}{"shape": fmt.Sprintf("select-case-%d-expired-%v", ci, expired), "stream": vfc13CmdsTok(cs.stream), "status": status, "rerun": "nearmiss"}
				s.Count(fmt.Sprintf("select_recognition_case_%d", ci))
				if status != "eof" {
					s.Violate("tool-block-halts-opposite-link", "a mirrored block behind a SELECT stopped the parser: "+status, replay)
					continue
				}
				for _, u := range units {
					for _, c := range u.Commands {
						if c.Cmd == "incrby" || (len(c.Args) > 0 && checkpoint.IsBisyncMarkerKey(string(c.Args[0]))) {
							s.Violate("tool-block-came-back-as-unit", "a mirrored block behind a SELECT came out as a unit", replay)
						}
					}
				}
				if len(units) != cs.want {
					s.Violate("foreign-block-suppressed", fmt.Sprintf("%d units, want %d (client writes outside a blacklisted database must come out, those inside must not)", len(units), cs.want), replay)
				}
			}
		}
	}
}
