//go:build verif

package syncer

// C18 — a target whose nodes answer COMMAND GETKEYS differently or with errors,
// and the cluster client's transaction flag.
//
//   nodes op : the REAL resolveBisyncCommandKeys over an introspector that
//              visits the nodes in a drawn order, each node answering in its own
//              way (keys = first argument / all arguments, nothing, an empty
//              reply, an error reply, an undecodable reply) -> the REAL
//              buildBisyncReplayUnitWithMode (cluster mode) -> the REAL
//              execBisyncUnit / execBisyncRdbUnit through the REAL cluster
//              txnBatcher, whose COMMAND GETKEYS query for the k-th command that
//              needs one is answered by the k-th drawn node (getRandomNode) ->
//              TCP node doubles. Outcome vs Lean replayUnitN (op `c18 nodes`),
//              the iteration alone vs builderFb (op `c18 iter`).
//   monitors : (model-independent, bitwise HASH_SLOT) a block reached a node =>
//              the keys the builder's iteration settled on, and the keys every
//              consulted node named at an accepted Put, hash to the unit's slot;
//              one block, marker first, at the slot's owner; a refusal (builder
//              or client) => no request of the unit reached any node.
//   flag op  : Put sequences with literal MULTI / EXEC / SELECT mixed in through the
//              real batcher: outcomes and Cluster.transactionEnable / transactionNode
//              vs Lean txnPutAllF (op `c18 flag`); after a unit commit the flag is clear.

import (
	"encoding/json"
	"errors"
	"fmt"
	"strconv"
	"strings"

	"github.com/mgtv-tech/redis-GunYu/pkg/redis/checkpoint"
	cluster "github.com/mgtv-tech/redis-GunYu/pkg/redis/client/cluster"
	"github.com/mgtv-tech/redis-GunYu/pkg/vfutil"
)

var vfc18NodeKinds = []string{"none", "err", "first", "first", "first", "all", "all", "all", "empty", "garbage"}

// one node's answer; decodeErr = the reply cannot be decoded as a list of strings
func vfc18NodeAnswer(kind string, raw [][]byte) (keys []string, err error, decodeErr bool) {
	if kind == "garbage" {
		return nil, nil, true
	}
	keys, err = vfc18Fb(kind, raw)
	return keys, err, false
}

type vfc18NodesIntrospector struct {
	fbs   []string
	order []int
	won   [][]string // per call: the key list the iteration settled on (nil = none)
}

func (f *vfc18NodesIntrospector) IterateNodes(result func(string, interface{}, error), cmd string, args ...interface{}) {
	var raw [][]byte
	for _, a := range args[2:] {
		raw = append(raw, a.([]byte))
	}
	var won []string
	for _, i := range f.order {
		addr := fmt.Sprintf("node-%d", i)
		keys, err, bad := vfc18NodeAnswer(f.fbs[i], raw)
		switch {
		case bad:
			result(addr, int64(7), nil) // an integer reply: rediscommon.Strings cannot decode it
		case err != nil:
			result(addr, nil, err)
		default:
			reply := make([]interface{}, 0, len(keys))
			for _, k := range keys {
				reply = append(reply, []byte(k))
			}
			result(addr, reply, nil)
			if won == nil && len(keys) > 0 {
				won = keys
			}
		}
	}
	f.won = append(f.won, won)
}

func vfc18Perm(r *vfutil.Rand, n int) []int {
	p := make([]int, n)
	for i := range p {
		p[i] = i
	}
	for i := n - 1; i > 0; i-- {
		j := r.Intn(i + 1)
		p[i], p[j] = p[j], p[i]
	}
	return p
}

func vfc18IntsTok(xs []int) string {
	if len(xs) == 0 {
		return "."
	}
	p := make([]string, len(xs))
	for i, x := range xs {
		p[i] = strconv.Itoa(x)
	}
	return strings.Join(p, ",")
}

func (w *vfc18World) nodesCluster() *cluster.Cluster {
	key := "nodes-hook/0"
	if c, ok := w.clusters[key]; ok {
		return c
	}
	c := cluster.VerifNewStaticCluster(w.nodes.addrs, func(slot int) int { return w.ownerIdx(slot) },
		func(cmd string, args ...interface{}) ([]string, error) { return w.nodesHook(cmd, args...) })
	if w.clusters == nil {
		w.clusters = map[string]*cluster.Cluster{}
	}
	w.clusters[key] = c
	return c
}

// the client whose COMMAND GETKEYS is the REAL Cluster.commandGetKeys (no hook): getRandomNode draws the node, the
// query travels over TCP and the node double answers it in its own way
func (w *vfc18World) nodesClusterReal() *cluster.Cluster {
	key := "nodes-real/0"
	if c, ok := w.clusters[key]; ok {
		return c
	}
	c := cluster.VerifNewStaticCluster(w.nodes.addrs, func(slot int) int { return w.ownerIdx(slot) }, nil)
	if w.clusters == nil {
		w.clusters = map[string]*cluster.Cluster{}
	}
	w.clusters[key] = c
	return c
}

// a transaction with commands the static tables do not know (their keys come from COMMAND GETKEYS only);
// most of the time every argument of every command shares one tag, so that acceptance is decided by what the
// nodes answer and which of them are asked, not by the keys
func vfc18NodesTxn(r *vfutil.Rand) []vfc18Cmd {
	tags := []string{"a", "b", "user:1", "t"}
	main := vfutil.Pick(r, tags)
	mixed := r.Chance(1, 4)
	key := func() []byte {
		t := main
		if mixed && r.Chance(1, 3) {
			t = vfutil.Pick(r, tags)
		}
		return []byte(fmt.Sprintf("k%d{%s}", r.Intn(9), t))
	}
	var out []vfc18Cmd
	for j, n := 0, r.Range(1, 4); j < n; j++ {
		switch r.Intn(5) {
		case 0:
			out = append(out, vfc18Cmd{Name: vfutil.Pick(r, []string{"set", "SET"}), Args: [][]byte{key(), []byte("v")}, Truth: []int{0}, Known: true, Class: "known"})
		case 1:
			out = append(out, vfc18Cmd{Name: "del", Args: [][]byte{key(), key()}, Truth: []int{0, 1}, Known: true, Class: "known"})
		default:
			u := vfc18Cmd{Name: vfutil.Pick(r, []string{"custom.write", "foo", "CUSTOM.WRITE"}), Class: "unknown"}
			for q, na := 0, r.Range(1, 3); q < na; q++ {
				u.Args = append(u.Args, key())
			}
			out = append(out, u)
		}
	}
	return out
}

func (w *vfc18World) nodesOne(r *vfutil.Rand, cmds []vfc18Cmd) {
	fbs := make([]string, w.n)
	uniform := r.Chance(1, 5)
	for i := range fbs {
		fbs[i] = vfutil.Pick(r, vfc18NodeKinds)
		if uniform {
			fbs[i] = fbs[0]
		}
	}
	picks := make([]int, 6)
	for i := range picks {
		picks[i] = r.Intn(w.n)
	}
	w.nodesReal = r.Bool() // half of the cases: the REAL commandGetKeys (getRandomNode + do over TCP) instead of the hook
	w.nodesRun(r, cmds, fbs, vfc18Perm(r, w.n), picks)
	w.nodesReal = false
}

func vfc18ParseInts(tok string) []int {
	var out []int
	for _, p := range strings.Split(tok, ",") {
		if n, err := strconv.Atoi(p); err == nil {
			out = append(out, n)
		}
	}
	return out
}

// nodesRun: one case with the nodes' answers, the builder's visiting order and the client's draws given
// (generated by nodesOne, or taken from a replay file)
func (w *vfc18World) nodesRun(r *vfutil.Rand, cmds []vfc18Cmd, fbs []string, order, picks []int) {
	s := w.s
	toks := vfc18Toks(cmds)
	for _, c := range cmds {
		w.nodes.register(c)
	}
	uniform := true
	for _, f := range fbs {
		uniform = uniform && f == fbs[0]
	}
	real := w.nodesReal
	replay := map[string]interface{}{"nodes_fbs": strings.Join(fbs, ","), "nodes_order": vfc18IntsTok(order), "nodes_picks": vfc18IntsTok(picks),
		"rcmds": vfc18RToks(cmds), "cmds": toks}
	if real {
		// the node asked is drawn by the REAL getRandomNode and observed at the node doubles: `picks` is filled in after the commit
		replay["nodes_real"] = 1
		picks = nil
	}
	intro := &vfc18NodesIntrospector{fbs: fbs, order: order}
	// what the REAL resolver handed to the builder (the builder's own view of the unit's keys)
	var resolved [][]string
	resolver := func(cmd string, args [][]byte) ([]string, bool, error) {
		keys, ok, err := resolveBisyncCommandKeys(intro, cmd, args)
		if ok && err == nil {
			resolved = append(resolved, keys)
		}
		return keys, ok, err
	}
	// nodes that all name keys, and the same ones: the only case in which the statement's "never refused" /
	// "refused" are unambiguous for a command outside the tables
	uniformKeys := true
	for _, f := range fbs {
		uniformKeys = uniformKeys && f == fbs[0] && (f == "first" || f == "all")
	}

	// the iteration alone, on the first command the tables do not resolve
	for _, c := range cmds {
		if _, ok, _ := defaultBisyncCommandKeyResolver(c.Name, c.Args); ok {
			continue
		}
		probe := &vfc18NodesIntrospector{fbs: fbs, order: order}
		keys, ok, err := resolveBisyncCommandKeys(probe, c.Name, c.Args)
		out := "none"
		switch {
		case err != nil:
			out = "err"
		case ok:
			h := make([][]byte, len(keys))
			for i, k := range keys {
				h[i] = []byte(k)
			}
			out = "keys:" + vfutil.HexList(h)
		}
		s.Op(fmt.Sprintf("c18 iter %s %s %s", strings.Join(fbs, ","), vfc18IntsTok(order), c.tok()), out)
		s.Count("iter_" + strings.SplitN(out, ":", 2)[0])
		break
	}

	// oracle, written from the statement (not from the code): the builder settles, per command outside the tables, on
	// the first non-empty answer in visiting order (an error counts only when no node names keys); the client's k-th
	// query is answered by node picks[k]. A view accepts iff every command is determined and all keys share a slot.
	viewAccepts := func(unknownKeys func(k int, c vfc18Cmd) ([]string, bool)) bool {
		slot, k := -1, 0
		for _, c := range cmds {
			var keys []string
			if c.Class == "known" {
				for _, i := range c.Truth {
					keys = append(keys, string(c.Args[i]))
				}
			} else {
				ks, ok := unknownKeys(k, c)
				k++
				if !ok {
					return false
				}
				keys = ks
			}
			if len(keys) == 0 {
				return false
			}
			for _, key := range keys {
				hs := vfc18HashSlot([]byte(key))
				if slot >= 0 && hs != slot {
					return false
				}
				slot = hs
			}
		}
		return slot >= 0
	}
	builderOK := viewAccepts(func(_ int, c vfc18Cmd) ([]string, bool) {
		for _, i := range order {
			if keys, err, bad := vfc18NodeAnswer(fbs[i], c.Args); !bad && err == nil && len(keys) > 0 {
				return keys, true
			}
		}
		return nil, false
	})
	clientOK := viewAccepts(func(k int, c vfc18Cmd) ([]string, bool) {
		n := 0
		if k < len(picks) {
			n = picks[k]
		}
		keys, err, bad := vfc18NodeAnswer(fbs[n], c.Args)
		return keys, !bad && err == nil && len(keys) > 0
	})

	seq := int64(r.Range(1, 1<<30))
	kind := vfutil.Pick(r, []string{"l", "j", "r"})
	mkOp := func() string {
		return fmt.Sprintf("c18 nodes %s %s %d 6d76 . %d %s %s %s %s", kind, vfutil.HexS(w.cp), seq, w.n, strings.Join(fbs, ","), vfc18IntsTok(order), vfc18IntsTok(picks), toks)
	}
	op := mkOp()
	unit, err := buildBisyncReplayUnitWithMode(seq, 100, 200, len(cmds) > 1, resolver, vfc18AofCmds(cmds), bisyncSlotMode{})
	if uniform {
		s.Count("nodes_uniform")
	} else {
		s.Count("nodes_diverging")
	}
	// which answer the iteration settles on when nodes DIFFER ("first non-empty wins") is the implementation's
	// rule, not the statement's: it is tied by the ops `c18 iter` / `c18 nodes` (model diff). The statement is judged
	// where it is unambiguous: all nodes name the same keys.
	if uniformKeys && (err == nil) != builderOK {
		what := "single-slot-unit-refused"
		if err == nil {
			what = "unit-accepted-not-single-slot"
		}
		s.Violate(what, fmt.Sprintf("every node answers %q: the transaction is acceptable=%v, the builder returned %v", fbs[0], builderOK, err), replay)
	}
	if (err == nil) != builderOK {
		s.Count("nodes_builder_differs_from_first_non_empty_rule")
	}
	if err != nil {
		s.Op(op, "none")
		s.Count("nodes_builder_refused")
		return
	}
	// the builder's OWN view: every key the real resolver handed to it is on the unit's slot
	for _, ks := range resolved {
		for _, k := range ks {
			if hs := vfc18HashSlot([]byte(k)); hs != int(unit.Slot) {
				s.Violate("unit-accepted-not-single-slot", fmt.Sprintf("the builder accepted a unit (slot %d) although its resolver named key %q on slot %d", unit.Slot, k, hs), replay)
			}
		}
	}
	// the RECEIVING node (owner of the unit's slot) checks the block with its own answer
	recv := w.ownerIdx(int(unit.Slot))
	receiverOK := true
	for _, c := range cmds {
		if c.Class == "known" {
			continue
		}
		keys, aerr, bad := vfc18NodeAnswer(fbs[recv], c.Args)
		if bad || aerr != nil {
			receiverOK = false // the node does not know the command
			continue
		}
		for _, k := range keys {
			if vfc18HashSlot([]byte(k)) != int(unit.Slot) {
				receiverOK = false
			}
		}
	}
	w.nodes.mu.Lock()
	w.nodes.view = func(idx int, cmd [][]byte) ([][]byte, bool) {
		name := string(cmd[0])
		if _, ok, _ := defaultBisyncCommandKeyResolver(name, cmd[1:]); ok {
			return nil, false
		}
		keys, aerr, bad := vfc18NodeAnswer(fbs[idx], cmd[1:])
		if bad || aerr != nil {
			return nil, true
		}
		out := make([][]byte, len(keys))
		for i, k := range keys {
			out[i] = []byte(k)
		}
		return out, false
	}
	w.nodes.mu.Unlock()
	defer func() {
		w.nodes.mu.Lock()
		w.nodes.view = nil
		w.nodes.mu.Unlock()
	}()
	calls := 0
	var consulted [][]string
	w.nodesHook = func(cmd string, args ...interface{}) ([]string, error) {
		n := 0
		if calls < len(picks) {
			n = picks[calls]
		}
		calls++
		var raw [][]byte
		for _, a := range args {
			switch x := a.(type) {
			case []byte:
				raw = append(raw, x)
			case string:
				raw = append(raw, []byte(x))
			}
		}
		keys, e, bad := vfc18NodeAnswer(fbs[n], raw)
		if bad {
			return nil, errors.New("redigo: unexpected type for Strings, got type int64") // what common.Strings answers
		}
		if e == nil && len(keys) > 0 {
			consulted = append(consulted, keys)
		}
		return keys, e
	}
	cl := w.nodesCluster()
	if real {
		cl = w.nodesClusterReal()
		w.nodes.mu.Lock()
		w.nodes.queries, w.nodes.queryKeys = nil, nil
		w.nodes.getkeysAns = func(idx int, cmd [][]byte) ([]string, error, bool) {
			return vfc18NodeAnswer(fbs[idx], cmd[1:]) // cmd[0] is the command's name
		}
		w.nodes.mu.Unlock()
		defer func() {
			w.nodes.mu.Lock()
			w.nodes.getkeysAns = nil
			w.nodes.mu.Unlock()
		}()
	}
	conn := &vfc18Redis{c: cl}
	w.nodes.take()
	var derr error
	switch kind {
	case "l", "j":
		_, _, derr = w.ro.execBisyncUnit(conn, "runid-1", unit, kind == "l")
	default:
		derr = w.ro.execBisyncRdbUnit(conn, "runid-1", unit)
	}
	blocks, stray := w.nodes.take()
	flagSet, _ := cluster.VerifTxnFlag(cl) // implementation state: compared with the model in the op line
	if real {
		// what the REAL commandGetKeys did: which node each query went to, and what it named
		w.nodes.mu.Lock()
		picks = append([]int(nil), w.nodes.queries...)
		consulted = nil
		for _, ks := range w.nodes.queryKeys {
			if ks != nil {
				consulted = append(consulted, ks)
			}
		}
		w.nodes.mu.Unlock()
		calls = len(picks)
		replay["nodes_picks"] = vfc18IntsTok(picks)
		unknown := 0
		for _, c := range cmds {
			if c.Class != "known" {
				unknown++
			}
		}
		if calls > unknown {
			s.Violate("tie-shape:more-getkeys-queries-than-commands", fmt.Sprintf("%d COMMAND GETKEYS queries for %d commands outside the tables", calls, unknown), replay)
		}
		for _, n := range picks {
			s.Count(fmt.Sprintf("nodes_real_asked_node_%d", n))
		}
		if calls > 0 && picks[0] != w.ownerIdx(int(unit.Slot)) {
			s.Count("nodes_real_asked_other_than_receiver")
		}
		s.Count("nodes_real_cases")
		// the oracle's client view, with the nodes that were really asked
		clientOK = viewAccepts(func(k int, c vfc18Cmd) ([]string, bool) {
			n := 0
			if k < len(picks) {
				n = picks[k]
			}
			keys, err, bad := vfc18NodeAnswer(fbs[n], c.Args)
			return keys, !bad && err == nil && len(keys) > 0
		})
		op = mkOp()
	}
	if !real && calls > len(picks) {
		s.Violate("tie-shape:more-getkeys-queries-than-commands", fmt.Sprintf("%d COMMAND GETKEYS queries for one unit", calls), replay)
	}
	if uniformKeys && (derr == nil) != (clientOK && receiverOK) {
		what := "single-slot-unit-refused"
		if derr == nil {
			what = "unit-sent-not-single-slot"
		}
		s.Violate(what, fmt.Sprintf("every node answers %q: the unit is acceptable=%v, the commit returned %v", fbs[0], clientOK && receiverOK, derr), replay)
	}
	if derr != nil && len(blocks) == 0 {
		// refused by the client before anything was on the wire
		s.Op(op, "none")
		s.Count("nodes_client_refused")
		if stray != 0 {
			s.Violate("request-issued-for-refused-unit", fmt.Sprintf("%d stray commands reached a node although the commit failed: %v", stray, derr), replay)
		}
		if clientOK {
			s.Count("nodes_client_differs_from_consulted_answers")
		}
		return
	}
	if derr != nil {
		// the block went out and the RECEIVING node refused it: queue-time error, EXECABORT, nothing applied. The tool
		// must leave it at that: one block, refused as a whole, no second attempt, nothing outside MULTI
		s.Count("nodes_receiver_refused")
		if len(blocks) != 1 || stray != 0 || blocks[0].Rejected == "" {
			s.Violate("best-effort-after-node-refusal", fmt.Sprintf("the commit failed (%v) with %d blocks at the nodes (first refused by the node: %v) and %d commands outside MULTI: the unit must be refused as a whole", derr, len(blocks), len(blocks) > 0 && blocks[0].Rejected != "", stray), replay)
			return
		}
		if receiverOK {
			s.Violate("node-rejected-block", "the receiving node refused ("+blocks[0].Rejected+") a block that is single-slot by its own answer", replay)
		}
	}
	if derr == nil {
		s.Count("nodes_sent")
	}
	if len(blocks) != 1 || stray != 0 {
		s.Violate("unit-not-one-multi-block", fmt.Sprintf("%d MULTI blocks and %d commands outside MULTI reached the nodes", len(blocks), stray), replay)
		return
	}
	blk := blocks[0]
	if derr == nil && blk.Rejected != "" {
		s.Violate("node-rejected-block", "the receiving node refused the block ("+blk.Rejected+") although the commit reported success", replay)
	}
	if derr == nil && !receiverOK {
		s.Violate("unit-sent-not-single-slot", fmt.Sprintf("the receiving node %d names keys off the unit's slot (or does not know a command), yet the block was applied", recv), replay)
	}
	for _, ks := range consulted {
		for _, k := range ks {
			if hs := vfc18HashSlot([]byte(k)); hs != int(unit.Slot) {
				s.Violate("block-key-off-slot", fmt.Sprintf("a unit (slot %d) was sent although the node the client asked named key %q on slot %d", unit.Slot, k, hs), replay)
			}
		}
	}
	if blk.Node != w.ownerIdx(int(unit.Slot)) {
		s.Violate("unit-sent-to-wrong-node", fmt.Sprintf("node %d, owner %d", blk.Node, w.ownerIdx(int(unit.Slot))), replay)
	}
	if len(blk.Cmds) == 0 || !strings.EqualFold(string(blk.Cmds[0][0]), "set") || !checkpoint.IsBisyncMarkerKey(string(blk.Cmds[0][1])) {
		s.Violate("unit-block-shape", "first command is not the marker SET", replay)
		return
	}
	canon := make([][][]byte, len(blk.Cmds))
	for i, c := range blk.Cmds {
		cc := append([][]byte(nil), c...)
		if i == 0 && len(cc) >= 3 {
			var m checkpoint.BisyncMarker
			if json.Unmarshal(cc[2], &m) != nil || m.UnitSeq != seq || m.Slot != unit.Slot {
				s.Violate("marker-value-malformed", "marker does not decode to the unit it was written for", replay)
			}
			cc[2] = []byte("mv")
		}
		if kind != "r" && i == len(unit.Commands)+1 && len(cc) >= 2 && strings.EqualFold(string(cc[0]), "hset") {
			cc = cc[:2]
		}
		canon[i] = cc
	}
	verdict := "applied"
	if derr != nil {
		verdict = "aborted"
	}
	s.Op(op, fmt.Sprintf("sent node=%d slot=%d %s ; %s flag=%v", blk.Node, unit.Slot, vfc18BlockToks(canon), verdict, flagSet))
}

func (w *vfc18World) nodesCases(r *vfutil.Rand, n int) {
	for i := 0; i < n; i++ {
		w.nodesOne(r, vfc18NodesTxn(r))
	}
}

// flagCases: literal MULTI / EXEC / SELECT among ordinary commands through the real batcher
func (w *vfc18World) flagCases(r *vfutil.Rand, n int) {
	s := w.s
	for i := 0; i < n; i++ {
		cl := w.newCluster(fmt.Sprintf("none#flag%d", i%4), 0) // own clients: the flag is per Cluster
		// start from a clear flag
		b0 := cl.NewTxnBatcher()
		b0.Put("exec")
		var cmds []vfc18Cmd
		for j, m := 0, r.Range(1, 5); j < m; j++ {
			switch r.Intn(6) {
			case 0:
				cmds = append(cmds, vfc18Cmd{Name: vfutil.Pick(r, []string{"multi", "MULTI", "Multi"})})
			case 1:
				cmds = append(cmds, vfc18Cmd{Name: vfutil.Pick(r, []string{"exec", "EXEC"})})
			case 2:
				cmds = append(cmds, vfc18Cmd{Name: "select", Args: [][]byte{[]byte("3")}})
			default:
				tag := vfutil.Pick(r, []string{"a", "a", "b", "user:1"})
				cmds = append(cmds, vfc18Cmd{Name: vfutil.Pick(r, []string{"set", "SET", "incr"}), Args: [][]byte{[]byte(fmt.Sprintf("k%d{%s}", r.Intn(5), tag)), []byte("v")}})
			}
		}
		b := cl.NewTxnBatcher()
		var ptoks []string
		for _, c := range cmds {
			before := b.Len()
			if perr := b.Put(c.Name, vfc18ArgsToIface(c.Args)...); perr != nil {
				ptoks = append(ptoks, vfc18PutErr(perr))
				break
			}
			if b.Len() == before {
				ptoks = append(ptoks, "skip")
			} else {
				ptoks = append(ptoks, "ok")
			}
		}
		en, addr := cluster.VerifTxnFlag(cl)
		node := "-"
		for k, a := range w.nodes.addrs {
			if a == addr {
				node = strconv.Itoa(k)
			}
		}
		s.Op(fmt.Sprintf("c18 flag %d %s", w.n, vfc18Toks(cmds)), fmt.Sprintf("%s ; enable=%v node=%s", strings.Join(ptoks, " "), en, node))
		if en {
			s.Count("flag_left_set")
		} else {
			s.Count("flag_left_clear")
		}
		b2 := cl.NewTxnBatcher()
		b2.Put("exec")
	}
}
