//go:build verif

package syncer

// Session 5 (coordinator's request): the hash-tag probe in PLAIN (non-bisync) mode. RedisOutput.rdbReplay withholds
// the reserved namespaces by testing the snapshot's key (outFilter: redis-gunyu-checkpoint, /redis-gunyu;
// bisyncNsFilter: redis-gunyu-bisync:) while rdbrestore.Replay, with replaceHashTag, writes the entry under the key
// with its first brace pair removed: '{redis-gunyu-checkpoint}' is the checkpoint key itself. Real rdb.Loader
// entries through the REAL rdbReplay against the target double that holds a stored position; judged: every key
// under a reserved prefix is afterwards what it was (C10's statement: the filters withhold the reserved namespaces;
// C17's: the stored position is never lost). replay.rerun = "hashtagplain".

import (
	"context"
	"fmt"
	"testing"
	"testing/synctest"
	"time"

	"github.com/mgtv-tech/redis-GunYu/config"
	"github.com/mgtv-tech/redis-GunYu/pkg/rdb"
	"github.com/mgtv-tech/redis-GunYu/pkg/redis/client"
	"github.com/mgtv-tech/redis-GunYu/pkg/redis/client/conn"
	"github.com/mgtv-tech/redis-GunYu/pkg/vfc20"
	"github.com/mgtv-tech/redis-GunYu/pkg/vfdoubles"
	"github.com/mgtv-tech/redis-GunYu/pkg/vfutil"
)

func vfc13HashTagPlainProbe(t *testing.T, s *vfutil.Session) {
	for _, policy := range []string{"replace", "ignore"} {
		for _, restore := range []bool{false, true} {
			kvs := []vfc20.KV{
				{DB: 0, Key: []byte("{" + config.CheckpointKey + "}"), Type: 0, Str: []byte("client-value")},
				{DB: 0, Key: []byte("{" + config.CheckpointKey + "}-hash"), Type: 0, Str: []byte("client-value")},
				{DB: 0, Key: []byte("{/redis-gunyu}/g/registry/x"), Type: 0, Str: []byte("client-value")},
				{DB: 0, Key: []byte("{redis-gunyu-bisync:}cp:latest:{t}"), Type: 0, Str: []byte("client-value")},
				{DB: 0, Key: []byte("{u}ser"), Type: 0, Str: []byte("v")},
				{DB: 0, Key: []byte(config.CheckpointKey), Type: 0, Str: []byte("control of the probe: withheld")},
			}
			bins, err := vfc20.Load(vfc20.BuildRDB(kvs, vfc20.Opts{Aux: true}), 0, "7.0.0")
			base := map[string]interface{}{"policy": policy, "restore": restore, "rerun": "hashtagplain"}
			if err != nil {
				s.Violate("hashtag-probe-failed", "generated snapshot rejected by the loader: "+err.Error(), base)
				continue
			}
			synctest.Test(t, func(t *testing.T) {
				vfc20.SettleClock()
				tg := vfdoubles.NewTarget()
				tg.SetNow(time.Now().UnixMilli())
				// what a running plain link keeps at the target: its position and the name hash
				tg.Seed(0, "hset", config.CheckpointKey, "rid_runid", "rid", "rid_version", config.Version, "rid_offset", "1234")
				tg.Seed(0, "hset", config.CheckpointKeyHashKey, "rid", config.CheckpointKey)
				cfg := RedisOutputConfig{InputName: "vf", CheckpointName: config.CheckpointKey, RunId: "rid", BisyncEnabled: false,
					EnableResumeFromBreakPoint: true, TargetDb: -1, KeyExists: policy, MaxProtoBulkLen: 512 << 20,
					ReplayRdbEnableRestore: restore, ReplayRdbParallel: 1, ReplaceHashTag: true, Stats: config.OutputStats{DisableLog: true}}
				cfg.Redis.Type = config.RedisTypeStandalone
				cfg.Redis.Otype = config.RedisTypeStandalone
				cfg.Redis.Addresses = config.SliceString{"double:0"}
				cfg.Redis.Version = "7.0.0"
				ro := NewRedisOutput(cfg)
				rc := ro.cfg.Redis
				ro.newRedisConn = func(ctx context.Context) (client.Redis, error) {
					return conn.VerifNewRedisConn(tg.Dial(), rc), nil
				}
				pipe := make(chan *rdb.BinEntry, len(bins)+1)
				for _, e := range bins {
					pipe <- e
				}
				close(pipe)
				runErr := ro.rdbReplay(context.Background(), pipe)
				synctest.Wait()
				tg.CloseAll()
				if runErr != nil {
					s.Violate("hashtag-probe-failed", "rdbReplay: "+runErr.Error(), base)
					return
				}
				if f := tg.HashFields(0, config.CheckpointKey); f["rid_offset"] != "1234" {
					s.Violate("client-key-replayed-into-reserved-namespace",
						fmt.Sprintf("plain snapshot replay with replaceHashTag: the client key {%s} was written as the checkpoint key itself; the stored position is gone (fields now: %v)", config.CheckpointKey, f),
						map[string]interface{}{"shape": "plain: checkpoint key overwritten", "policy": policy, "restore": restore, "rerun": "hashtagplain"})
				}
				if f := tg.HashFields(0, config.CheckpointKeyHashKey); f["rid"] != config.CheckpointKey {
					s.Violate("client-key-replayed-into-reserved-namespace",
						fmt.Sprintf("plain snapshot replay with replaceHashTag: the client key {%s}-hash was written over the checkpoint hash (fields now: %v)", config.CheckpointKey, f),
						map[string]interface{}{"shape": "plain: checkpoint hash overwritten", "policy": policy, "restore": restore, "rerun": "hashtagplain"})
				}
				for _, k := range []string{"/redis-gunyu/g/registry/x", "redis-gunyu-bisync:cp:latest:{t}"} {
					if tg.Get(0, k) != nil {
						s.Violate("client-key-replayed-into-reserved-namespace",
							"plain snapshot replay with replaceHashTag: a client key was written under the reserved name "+k,
							map[string]interface{}{"shape": "plain: reserved name created", "key": k, "policy": policy, "restore": restore, "rerun": "hashtagplain"})
					}
				}
				if tg.Get(0, "user") == nil {
					s.Violate("hashtag-probe-failed", "the ordinary key {u}ser was not replayed as user", base)
				}
			})
			s.Count(fmt.Sprintf("hashtag_plain_probe_%s_%v", policy, restore))
		}
	}
}
