//go:build verif

package syncer

// C04 — an incomplete snapshot replay is never recorded as a completed full sync.
//
// The REAL RedisOutput.SendRdb (ParseRdb → distributor → n workers →
// setCheckpoint) runs inside a testing/synctest bubble against the shared
// target double, on
//   * every truncation length and single-byte XORs of small generated valid
//     checksummed snapshots (the cache reader is cut short / a byte is altered),
//   * a target error injected at request k (tg.FailAt),
//   * cancellation at request k (tg.Hook), before the start, and in the D6
//     window: one worker held inside a request (tg.Hook blocks) until parser,
//     distributor and the other workers are quiescent (synctest.Wait), then
//     cancel, then release,
//   parallel 1–4, small and large pipes, plain and bidirectional replay,
//   checkpoint on the target or in memory.
// Monitor (Go, independent of the Lean models): whenever not every snapshot
// entry is on the target as the generator wrote it, SendRdb returned an error
// and no checkpoint for the snapshot's offset exists (target log / in memory).
// A run that deadlocks, exceeds its wall-clock budget or dies of memory
// exhaustion is a violation "hang" / "oom" with the input saved.
//
// Correspondence with the Lean models (driver GunYu.Drive.C04):
//   c04trunc / c04xor / c04parse — the REAL rdb.ParseRdb outcome on every
//     truncation / every XOR mask 1..255 at a position, as d<n>|e<n>, "u" where
//     the Go-side walker (pkg/vfc20.Classify) says the parse path leaves the
//     modelled grammar;
//   c04fan — result (ok/err) and checkpoint (0/1) of the scenario runs.

import (
	"bufio"
	"bytes"
	"context"
	"encoding/json"
	"fmt"
	"io"
	"os"
	"os/exec"
	"regexp"
	"runtime"
	"strconv"
	"strings"
	"sync"
	"sync/atomic"
	"syscall"
	"testing"
	"testing/synctest"
	"time"

	"github.com/mgtv-tech/redis-GunYu/config"
	"github.com/mgtv-tech/redis-GunYu/pkg/rdb"
	"github.com/mgtv-tech/redis-GunYu/pkg/redis/client"
	"github.com/mgtv-tech/redis-GunYu/pkg/redis/client/conn"
	usync "github.com/mgtv-tech/redis-GunYu/pkg/sync"
	"github.com/mgtv-tech/redis-GunYu/pkg/util"
	"github.com/mgtv-tech/redis-GunYu/pkg/vfc20"
	"github.com/mgtv-tech/redis-GunYu/pkg/vfdoubles"
	"github.com/mgtv-tech/redis-GunYu/pkg/vfutil"
)

const vfC04Left = 5000 // the snapshot's offset

var vfC04DbgLog = false

type vfC04Reader struct {
	r    *bufio.Reader
	size int64
}

func (x *vfC04Reader) Start(wait usync.WaitCloser) {}
func (x *vfC04Reader) Left() int64                 { return vfC04Left }
func (x *vfC04Reader) RunId() string               { return "vfrun" }
func (x *vfC04Reader) Size() int64                 { return x.size }
func (x *vfC04Reader) IoReader() *bufio.Reader     { return x.r }
func (x *vfC04Reader) IsAof() bool                 { return false }
func (x *vfC04Reader) Close()                      {}

// ---------------------------------------------------------------- snapshots

type vfC04File struct {
	Name string
	KVs  []vfc20.KV
	Opts vfc20.Opts
}

func (f *vfC04File) bytes() []byte { return vfc20.BuildRDB(f.KVs, f.Opts) }

func vfC04Files() []vfC04File {
	fut := uint64(vfc20.BubbleNowMs + 3600_000)
	return []vfC04File{
		{Name: "mixed", Opts: vfc20.Opts{Aux: true, ResizeDB: true}, KVs: []vfc20.KV{
			{DB: 0, Key: []byte("k1"), Type: 0, Str: []byte("v1")},
			{DB: 0, Key: []byte("n"), Type: 0, Str: []byte("12345"), IntEnc: true},
			{DB: 0, Key: []byte("l"), Type: 1, ExpireAt: fut, Items: [][]byte{[]byte("a"), []byte("b"), []byte("c")}},
			{DB: 1, Key: []byte("h"), Type: 4, Items: [][]byte{[]byte("f1"), []byte("v1"), []byte("f2"), []byte("v2")}},
			{DB: 1, Key: []byte("s"), Type: 2, Items: [][]byte{[]byte("m1"), []byte("m2")}},
		}},
		// D19 bait: a string value that contains an EOF opcode followed by eight
		// zero bytes; one flipped bit in its length byte (0x14 -> 0x04) makes the
		// parser read an opcode there.
		{Name: "eofbait", KVs: []vfc20.KV{
			{DB: 0, Key: []byte("a"), Type: 0, Str: append(append([]byte("XXXX\xff"), make([]byte, 8)...), []byte("YYYYYYY")...)},
			{DB: 0, Key: []byte("b"), Type: 0, Str: []byte("vb")},
			{DB: 0, Key: []byte("c"), Type: 1, Items: [][]byte{[]byte("q"), []byte("w")}},
			{DB: 0, Key: []byte("d"), Type: 0, Str: []byte("vd")},
		}},
		{Name: "len14", Opts: vfc20.Opts{Aux: true}, KVs: []vfc20.KV{
			{DB: 0, Key: []byte("big"), Type: 0, Str: bytes.Repeat([]byte("0123456789"), 7)},
			{DB: 0, Key: []byte("hh"), Type: 4, ExpireAt: fut, Items: [][]byte{[]byte("f"), []byte("-7"), []byte("g"), []byte("x")}},
			{DB: 2, Key: []byte("z"), Type: 2, Items: [][]byte{[]byte("m")}},
		}},
	}
}

// vfC04OomBait: a key that begins with 00 00 01 00 …: turning its length byte
// into 0x81 (one XOR) makes the next eight bytes a 64-bit length of 2^40.
func vfC04OomBait() vfC04File {
	return vfC04File{Name: "oombait", KVs: []vfc20.KV{
		{DB: 0, Key: []byte("\x00\x00\x01\x00\x00\x00\x00\x00kk"), Type: 0, Str: []byte("v")},
		{DB: 0, Key: []byte("x"), Type: 0, Str: []byte("y")},
	}}
}

// ---------------------------------------------------------------- real parser only

func vfC04ParseTok(f []byte) string {
	var rb atomic.Int64
	pipe := rdb.ParseRdb(bytes.NewReader(f), &rb, 16)
	n := 0
	tok := ""
	for e := range pipe {
		if tok != "" {
			continue // drain (ParseRdb sends Done after a footer error)
		}
		switch {
		case e.Err != nil:
			tok = fmt.Sprintf("e%d", n)
		case e.Done:
			tok = fmt.Sprintf("d%d", n)
		default:
			n++
		}
	}
	if tok == "" {
		tok = fmt.Sprintf("x%d", n) // channel closed without Done/Err
	}
	return tok
}

// vfC04ChanTok: the WHOLE transcript of ParseRdb's channel: entries before the first terminal, then every item that
// follows in order (E = Err, D = Done, k = a further entry), "x" when the channel closes without any terminal.
func vfC04ChanTok(f []byte) string {
	var rb atomic.Int64
	pipe := rdb.ParseRdb(bytes.NewReader(f), &rb, 16)
	n := 0
	var terms []string
	for e := range pipe {
		switch {
		case e.Err != nil:
			terms = append(terms, "E")
		case e.Done:
			terms = append(terms, "D")
		case len(terms) > 0:
			terms = append(terms, "k")
		default:
			n++
		}
	}
	if len(terms) == 0 {
		terms = []string{"x"}
	}
	return fmt.Sprintf("%d:%s", n, strings.Join(terms, ","))
}

// TestVerifC04Child parses one file in a process of its own (inputs whose
// length fields ask for absurd allocations).
func TestVerifC04Child(t *testing.T) {
	if pf := os.Getenv("VERIF_C04_PBATCH"); pf != "" {
		b, err := os.ReadFile(pf)
		if err != nil {
			t.Fatal(err)
		}
		for i, l := range strings.Split(strings.TrimSpace(string(b)), "\n") {
			fmt.Printf("C04P %d %s\n", i, vfC04ParseTok(vfutil.UnHex(l)))
			os.Stdout.Sync()
		}
		fmt.Printf("C04P done\n")
		return
	}
	if bf := os.Getenv("VERIF_C04_BATCH"); bf != "" {
		vfC04ChildBatch(t, bf)
		return
	}
	if os.Getenv("VERIF_C04_WORKER") != "" {
		vfC04WorkerLoop(t)
		return
	}
	h := os.Getenv("VERIF_C04_CHILD")
	if h == "" {
		t.Skip("child mode only")
	}
	fmt.Printf("C04CHILD %s\n", vfC04ParseTok(vfutil.UnHex(h)))
}

// vfC04ParseCanary parses the inputs in ONE child process first. A parser that
// lets a panic escape kills the whole process (usync.SafeGo with a nil handler):
// the canary turns that into a violation with the input instead of a dead harness.
// Returns the index the child died at (-1: it survived) and how.
func vfC04ParseCanary(inputs [][]byte) (int, string, []string) {
	f, err := os.CreateTemp("", "vfc04canary*.txt")
	if err != nil {
		panic(err)
	}
	defer os.Remove(f.Name())
	for _, in := range inputs {
		f.WriteString(vfutil.Hex(in) + "\n")
	}
	f.Close()
	ctx, cancel := context.WithTimeout(context.Background(), 120*time.Second)
	defer cancel()
	cmd := exec.CommandContext(ctx, os.Args[0], "-test.run", "^TestVerifC04Child$", "-test.count", "1")
	cmd.Env = append(os.Environ(), "VERIF_C04_PBATCH="+f.Name(), "VERIF_OUT="+os.TempDir(), "GOMEMLIMIT=1GiB")
	out, _ := cmd.CombinedOutput()
	var toks []string
	done := false
	for _, l := range strings.Split(string(out), "\n") {
		if l == "C04P done" {
			done = true
		} else if strings.HasPrefix(l, "C04P ") {
			p := strings.Fields(l)
			if len(p) == 3 {
				toks = append(toks, p[2])
			}
		}
	}
	if done {
		return -1, "", toks
	}
	how := "crash"
	if ctx.Err() != nil {
		how = "hang"
	} else if strings.Contains(string(out), "out of memory") {
		how = "oom"
	}
	tail := string(out)
	if len(tail) > 600 {
		tail = tail[len(tail)-600:]
	}
	return len(toks), how + ": " + tail, toks
}

// ---------------------------------------------------------------- supervised batches
//
// Pipeline cases whose damaged input may make the REAL code spin or eat memory
// (value decoders run in the replay workers before the checksum is reached)
// are executed in a child process with a hard address-space limit; the parent
// reads one result line per case with a wall-clock budget, reports the case at
// which the child died ("oom"/"crash") or went silent ("hang") and restarts
// the child behind it.

type vfC04BatchCase struct {
	File string    `json:"file"`
	Data string    `json:"data"` // hex
	Size int64     `json:"size"`
	Opts vfC04Opts `json:"opts"`
}

type vfC04BatchRes struct {
	Err, Cp, All, Leak bool
	Missing            []string
	Died               string // "", "hang", "oom", "crash"
}

func vfC04KVsOf(name string) []vfc20.KV {
	for _, f := range append(append(vfC04Files(), vfC04OomBait()), vfC04StreamFile(), vfC04Stream2File(), vfC04Stream3File(), vfC04BigFile()) {
		if f.Name == name {
			return f.KVs
		}
	}
	return nil
}

func vfC04ChildBatch(t *testing.T, path string) {
	lim := syscall.Rlimit{Cur: 6 << 30, Max: 6 << 30}
	syscall.Setrlimit(syscall.RLIMIT_AS, &lim)
	b, err := os.ReadFile(path)
	if err != nil {
		t.Fatal(err)
	}
	from, _ := strconv.Atoi(os.Getenv("VERIF_C04_FROM"))
	lines := strings.Split(strings.TrimSpace(string(b)), "\n")
	for i := from; i < len(lines); i++ {
		var c vfC04BatchCase
		if json.Unmarshal([]byte(lines[i]), &c) != nil {
			t.Fatalf("bad batch line %d", i)
		}
		r := vfC04Send(t, vfC04KVsOf(c.File), vfutil.UnHex(c.Data), c.Size, c.Opts)
		died := ""
		if r.Hang != "" {
			died = "hang"
		}
		m, _ := json.Marshal(r.Missing)
		fmt.Printf("C04B %d %v %v %v %v %q %s\n", i, r.Err != nil, r.Cp, r.AllApplied, r.Leak, died, m)
		os.Stdout.Sync()
	}
	fmt.Printf("C04B done\n")
}

func vfC04RunBatch(s *vfutil.Session, cases []vfC04BatchCase, mark func(string)) []vfC04BatchRes {
	return vfC04RunBatchT(s, cases, mark, 40*time.Second, true)
}

// vfC04RefUnit: one unit of the reference work the confirmation budget is counted in: a fixed amount of CPU work done
// by a goroutine of THIS process (about 5 ms on an idle core). Under load it slows down with the child it waits for.
var vfC04RefSink uint64

// vfC04HangConfirmed: a silent case has been silent again, alone, for the counted budget
var vfC04HangConfirmed bool

func vfC04RefUnit() {
	x := vfC04RefSink | 1
	for i := 0; i < 3_000_000; i++ {
		x ^= x << 13
		x ^= x >> 7
		x ^= x << 17
	}
	vfC04RefSink = x
}

// vfC04RunBatchT: `budget` of silence per case. confirm (first pass, wall clock): a case the child was silent on is
// not judged yet, it is run ONCE MORE, alone, in a fresh child. In that second pass (confirm = false) the budget is
// not wall-clock time: it is COUNTED in units of reference work (vfC04RefUnit) done by a goroutine of this process
// between two looks at the child's output — six times the first budget's worth of units (budget / 5 ms x 6). A decoder
// that does not advance (D23) is silent for any number of units: silent again alone = `hang`, a violation with the
// input. A machine under load stretches the units together with the child (session 5: a thorough run at load average
// 80 lost a 40 s wall-clock race on an input that replays in milliseconds): the wall clock may delay a verdict, it
// does not make one.
func vfC04RunBatchT(s *vfutil.Session, cases []vfC04BatchCase, mark func(string), budget time.Duration, confirm bool) []vfC04BatchRes {
	out := make([]vfC04BatchRes, len(cases))
	if len(cases) == 0 {
		return out
	}
	f, err := os.CreateTemp("", "vfc04batch*.jsonl")
	if err != nil {
		panic(err)
	}
	defer os.Remove(f.Name())
	for _, c := range cases {
		b, _ := json.Marshal(c)
		f.Write(append(b, '\n'))
	}
	f.Close()
	next := 0
	for next < len(cases) {
		s.Count("batch_child_started")
		cmd := exec.Command(os.Args[0], "-test.run", "^TestVerifC04Child$", "-test.count", "1", "-test.timeout", "30m")
		cmd.Env = append(os.Environ(), "VERIF_C04_BATCH="+f.Name(), "VERIF_C04_FROM="+strconv.Itoa(next), "VERIF_OUT="+os.TempDir(), "GOMEMLIMIT=3GiB")
		stdout, _ := cmd.StdoutPipe()
		var stderr bytes.Buffer
		cmd.Stderr = &stderr
		if err := cmd.Start(); err != nil {
			panic(err)
		}
		lines := make(chan string, 64)
		go func() {
			sc := bufio.NewScanner(stdout)
			sc.Buffer(make([]byte, 1<<20), 1<<20)
			for sc.Scan() {
				if strings.HasPrefix(sc.Text(), "C04B ") {
					lines <- sc.Text()
				}
			}
			close(lines)
		}()
		finished := false
		timedOut := false
		var refStops []chan struct{}
		// the silence budget: wall clock in the first pass, counted reference work in the confirmation pass
		silence := func() <-chan struct{} {
			c := make(chan struct{})
			units := 6 * int(budget/(5*time.Millisecond))
			stopRef := make(chan struct{})
			go func() {
				for u := 0; u < units; u++ {
					select {
					case <-stopRef:
						return
					default:
					}
					vfC04RefUnit()
					if u%64 == 0 {
						mark(fmt.Sprintf("confirm %d/%d", u, units)) // the global watchdog sees progress
					}
				}
				close(c)
			}()
			refStops = append(refStops, stopRef)
			return c
		}
	read:
		for {
			var wall <-chan time.Time
			var quiet <-chan struct{}
			if confirm {
				wall = time.After(budget)
			} else {
				quiet = silence()
			}
			timeout := false
			var l string
			var ok bool
			select {
			case l, ok = <-lines:
			case <-wall:
				timeout = true
			case <-quiet:
				timeout = true
			}
			for _, st := range refStops {
				close(st)
			}
			refStops = nil
			if timeout {
				cmd.Process.Kill()
				timedOut = true
				if next < len(cases) {
					out[next] = vfC04BatchRes{Died: "hang"}
					if confirm && !vfC04HangConfirmed {
						mark(fmt.Sprintf("batch %d confirm", next))
						s.Count("batch_child_silent_case_rerun_alone")
						if again := vfC04RunBatchT(s, cases[next:next+1], mark, budget, false); again[0].Died != "hang" {
							out[next] = again[0]
							s.Count("infra_child_slow_under_load_not_a_hang")
						} else {
							// silent again, alone, for the counted budget: a hang. The verdict of the run is made; further silent
							// cases are listed as witnesses on the first budget alone (a code that hangs on hundreds of inputs
							// must not cost minutes of confirmation for each)
							vfC04HangConfirmed = true
							s.Count("hang_confirmed_by_counted_budget")
						}
					}
					next++
				}
				break read
			}
			if !ok {
				break read
			}
			if l == "C04B done" {
				finished = true
				continue
			}
			var idx int
			var r vfC04BatchRes
			var miss string
			if _, err := fmt.Sscanf(l, "C04B %d %t %t %t %t %q %s", &idx, &r.Err, &r.Cp, &r.All, &r.Leak, &r.Died, &miss); err == nil && idx == next {
				json.Unmarshal([]byte(miss), &r.Missing)
				out[idx] = r
				next++
				mark(fmt.Sprintf("batch %d", next))
			}
		}
		cmd.Process.Kill()
		cmd.Wait()
		if !finished && next < len(cases) && out[next].Died == "" && !timedOut {
			// the child died while working on case `next`
			died := "crash"
			if strings.Contains(stderr.String(), "out of memory") || strings.Contains(stderr.String(), "cannot allocate") {
				died = "oom"
			}
			out[next] = vfC04BatchRes{Died: died}
			next++
		}
	}
	return out
}

// vfC04Fixtures: the complete RDB files (hex literals, produced by real Redis
// servers 4.0 … 7.2) embedded in /repo/pkg/rdb/loader_test.go.
func vfC04Fixtures() [][]byte {
	b, err := os.ReadFile("../pkg/rdb/loader_test.go")
	if err != nil {
		return nil
	}
	re := regexp.MustCompile("5245444953[0-9a-f]{60,}")
	seen := map[string]bool{}
	var out [][]byte
	for _, h := range re.FindAllString(string(b), -1) {
		if len(h)%2 != 0 || seen[h] {
			continue
		}
		seen[h] = true
		out = append(out, vfutil.UnHex(h))
	}
	return out
}

// vfC04StreamFile: a snapshot whose middle key is a stream (listpack value).
func vfC04StreamFile() vfC04File {
	return vfC04File{Name: "stream", KVs: []vfc20.KV{
		{DB: 0, Key: []byte("a"), Type: 0, Str: []byte("1")},
		vfc20.SmallStream("st"),
		{DB: 0, Key: []byte("z"), Type: 1, Items: [][]byte{[]byte("p"), []byte("q")}},
	}}
}

// vfC04Stream2File: a stream whose master field name has five bytes (the four
// bytes behind the num-fields element are then ordinary text: read as a 32-bit
// integer they are a count of 10^9) next to an LZF-compressed string.
func vfC04Stream2File() vfC04File {
	return vfC04File{Name: "stream2", KVs: []vfc20.KV{
		vfc20.LZFString("lz", 'a', 40),
		vfc20.SmallStreamF("st", "field"),
		{DB: 0, Key: []byte("z"), Type: 0, Str: []byte("1")},
	}}
}

// vfC04BigFile: a list of 260 elements between two strings: expanded (restore off) it is 260 pipelined commands, flushed
// and checked every 100 (restoreBigRdbEntry) — a fault inside the first batches must not be lost.
func vfC04BigFile() vfC04File {
	var items [][]byte
	for i := 0; i < 260; i++ {
		items = append(items, []byte(fmt.Sprintf("e%03d", i)))
	}
	return vfC04File{Name: "big", KVs: []vfc20.KV{
		{DB: 0, Key: []byte("a"), Type: 0, Str: []byte("1")},
		{DB: 0, Key: []byte("L"), Type: 1, Items: items},
		{DB: 0, Key: []byte("z"), Type: 0, Str: []byte("2")},
	}}
}

// vfC04Stream3File: a stream with an entry that has its own field list, a consumer group, a pending entry and a consumer:
// the decoder's other count-driven loops (entry-num-fields, PEL sizes, consumer count).
func vfC04Stream3File() vfC04File {
	return vfC04File{Name: "stream3", KVs: []vfc20.KV{
		{DB: 0, Key: []byte("a"), Type: 0, Str: []byte("1")},
		vfc20.SmallStreamX("st"),
	}}
}

// vfC04SetValues: byte values that MAKE a length / count field large when they
// are written over a small one — RDB lengths (0x80 32-bit, 0x81 64-bit, 0xC3
// LZF, 0x7F 14-bit), listpack integers (0xF1..0xF4: 16/24/32/64-bit), listpack /
// ziplist string lengths (0xF0 32-bit, 0xEF 12-bit, 0xBF, 0xFE). XOR masks reach
// them only from particular original bytes.
var vfC04SetValues = []int{0xF3, 0xF4, 0x81, 0xF0, 0x80, 0xF2, 0xF1, 0xC3, 0xEF, 0xBF, 0x7F, 0xFE, 0xC2, 0x40}

// vfC04SeedPick: k values out of pool chosen by the seed and a salt (so that
// different VERIF_SEEDs explore different alterations in the quick tier).
func vfC04SeedPick(pool []int, k int, salt int64) []int {
	r := vfutil.NewRand(vfutil.Seed()*1000003 + uint64(salt))
	p := append([]int(nil), pool...)
	for i := len(p) - 1; i > 0; i-- {
		j := r.Intn(i + 1)
		p[i], p[j] = p[j], p[i]
	}
	if k > len(p) {
		k = len(p)
	}
	return p[:k]
}

// ---------------------------------------------------------------- the worker child
//
// EVERYTHING the harness does with a damaged snapshot (parse, SendRdb, SendRdb
// through the cache reader) runs in a long-lived child process ("worker"): one
// request line in, one "C04R …" line out. A parser or decoder that lets a panic
// escape, exhausts memory or spins kills / stalls only the worker: the parent
// reports `crash` / `oom` / `hang` for exactly that input and starts a new worker.

type vfC04Req struct {
	Kind string     `json:"kind"` // parse | send | cached | alloc (Size = n, Opts.PipeSize = avail) | lzf (Size = outlen, Opts.PipeSize = inlen)
	Data string     `json:"data"` // hex
	Size int64      `json:"size"`
	KVs  []vfc20.KV `json:"kvs,omitempty"`
	Opts vfC04Opts  `json:"opts"`
	// session 4 (vf_c04x_test.go): xparse | xchan (MaxBuf, FailAux), lzfx (Segs = "hex*count,…", Size = declared length)
	MaxBuf  int    `json:"maxbuf,omitempty"`
	FailAux bool   `json:"failaux,omitempty"`
	Segs    string `json:"segs,omitempty"`
}

type vfC04Resp struct {
	Tok     string   `json:"tok,omitempty"`
	Err     string   `json:"err,omitempty"`
	IsErr   bool     `json:"iserr"`
	Cp      bool     `json:"cp"`
	All     bool     `json:"all"`
	Missing []string `json:"missing,omitempty"`
	NReq    int      `json:"nreq"`
	Hang    string   `json:"hang,omitempty"`
	Leak    bool     `json:"leak"`
}

func vfC04WorkerLoop(t *testing.T) {
	lim := syscall.Rlimit{Cur: 6 << 30, Max: 6 << 30}
	syscall.Setrlimit(syscall.RLIMIT_AS, &lim)
	sc := bufio.NewScanner(os.Stdin)
	sc.Buffer(make([]byte, 1<<22), 1<<26)
	for sc.Scan() {
		var rq vfC04Req
		if json.Unmarshal(sc.Bytes(), &rq) != nil {
			fmt.Printf("C04R {\"err\":\"bad request\"}\n")
			continue
		}
		data := vfutil.UnHex(rq.Data)
		var rp vfC04Resp
		switch rq.Kind {
		case "parse":
			rp.Tok = vfC04ParseTok(data)
		case "chan":
			rp.Tok = vfC04ChanTok(data)
		case "alloc":
			// the real ReadBytes(n) over a source of `avail` bytes: len, ok | err, cap of what it returns, bytes allocated meanwhile
			var m0, m1 runtime.MemStats
			src := bytes.NewReader(make([]byte, rq.Opts.PipeSize))
			runtime.ReadMemStats(&m0)
			p, err := rdb.NewRdbReader(src).ReadBytes(int(rq.Size))
			runtime.ReadMemStats(&m1)
			rp.Tok = fmt.Sprintf("%d %s %d %d", len(p), map[bool]string{true: "ok", false: "err"}[err == nil], cap(p), m1.TotalAlloc-m0.TotalAlloc)
		case "lzf":
			// the real string reader on C3 <inlen> <outlen> <inlen bytes>: bytes allocated while it decides
			in := make([]byte, rq.Opts.PipeSize)
			b := append([]byte{0xC3}, vfc20.EncLen(uint64(len(in)))...)
			b = append(b, vfc20.EncLen(uint64(rq.Size))...)
			b = append(b, in...)
			var m0, m1 runtime.MemStats
			rd := rdb.NewRdbReader(bytes.NewReader(b))
			runtime.ReadMemStats(&m0)
			_, err := rd.ReadString()
			runtime.ReadMemStats(&m1)
			rp.Tok = fmt.Sprintf("%s %d", map[bool]string{true: "ok", false: "err"}[err == nil], m1.TotalAlloc-m0.TotalAlloc)
		case "send", "cached":
			var r vfC04Res
			if rq.Kind == "send" {
				r = vfC04Send(t, rq.KVs, data, rq.Size, rq.Opts)
			} else {
				r = vfC04SendCached(t, rq.KVs, data, rq.Size, rq.Opts)
			}
			rp.IsErr, rp.Cp, rp.All, rp.Missing, rp.NReq, rp.Hang, rp.Leak = r.Err != nil, r.Cp, r.AllApplied, r.Missing, r.NReq, r.Hang, r.Leak
			if r.Err != nil {
				rp.Err = r.Err.Error()
				if len(rp.Err) > 300 {
					rp.Err = rp.Err[:300]
				}
			}
		default:
			rp = vfC04XWorker(rq, data)
		}
		b, _ := json.Marshal(rp)
		fmt.Printf("C04R %s\n", b)
		os.Stdout.Sync()
	}
}

type vfC04Worker struct {
	cmd    *exec.Cmd
	in     interface{ Write([]byte) (int, error) }
	lines  chan string
	stderr *bytes.Buffer
	starts int
}

var vfC04W = &vfC04Worker{}

func (w *vfC04Worker) start() {
	w.starts++
	cmd := exec.Command(os.Args[0], "-test.run", "^TestVerifC04Child$", "-test.count", "1", "-test.timeout", "60m")
	cmd.Env = append(os.Environ(), "VERIF_C04_WORKER=1", "VERIF_OUT="+os.TempDir(), "GOMEMLIMIT=3GiB")
	in, _ := cmd.StdinPipe()
	out, _ := cmd.StdoutPipe()
	w.stderr = &bytes.Buffer{}
	cmd.Stderr = w.stderr
	if err := cmd.Start(); err != nil {
		panic(err)
	}
	w.cmd, w.in = cmd, in
	lines := make(chan string, 16)
	w.lines = lines
	go func() {
		sc := bufio.NewScanner(out)
		sc.Buffer(make([]byte, 1<<20), 1<<24)
		for sc.Scan() {
			if strings.HasPrefix(sc.Text(), "C04R ") {
				lines <- sc.Text()[5:]
			}
		}
		close(lines)
	}()
}

func (w *vfC04Worker) stop() {
	if w.cmd != nil {
		w.cmd.Process.Kill()
		w.cmd.Wait()
		w.cmd = nil
	}
}

// call: the response, or how the worker died on this request ("crash" | "oom" | "hang") with a stderr tail
func (w *vfC04Worker) call(rq vfC04Req) (vfC04Resp, string, string) {
	if w.cmd == nil {
		w.start()
	}
	b, _ := json.Marshal(rq)
	w.in.Write(append(b, '\n'))
	select {
	case l, ok := <-w.lines:
		if ok {
			var rp vfC04Resp
			json.Unmarshal([]byte(l), &rp)
			return rp, "", ""
		}
		w.cmd.Wait()
		w.cmd = nil
		tail := w.stderr.String()
		how := "crash"
		if strings.Contains(tail, "out of memory") || strings.Contains(tail, "cannot allocate") {
			how = "oom"
		}
		if i := strings.Index(tail, "fatal error"); i > 80 {
			tail = tail[i-80:] // the runtime's own message, not the log lines before it
		}
		if len(tail) > 500 {
			tail = tail[:500]
		}
		return vfC04Resp{}, how, tail
	case <-time.After(60 * time.Second):
		w.stop()
		return vfC04Resp{}, "hang", "no answer within 60 s wall-clock"
	}
}

// vfC04ParseGuarded: the REAL rdb.ParseRdb on `f`, in the worker child. Returns
// the token; a worker death is reported as the violation crash / oom / hang
// with the input, and the token "!<how>" is returned.
func vfC04ParseGuarded(s *vfutil.Session, f []byte, risky bool) string {
	rp, died, tail := vfC04W.call(vfC04Req{Kind: "parse", Data: vfutil.Hex(f)})
	if died != "" {
		s.Count("viol_" + died)
		s.Violate(died, "damaged snapshot: rdb.ParseRdb does not return an error, the process dies ("+died+"): "+tail,
			map[string]interface{}{"scenario": "parse", "rdb": vfutil.Hex(f)})
		return "!" + died
	}
	return rp.Tok
}

// vfC04SendD / vfC04SendCachedD: the pipeline on (possibly) damaged input, in the worker child.
func vfC04SendD(kind string, kvs []vfc20.KV, data []byte, size int64, o vfC04Opts) vfC04Res {
	rp, died, tail := vfC04W.call(vfC04Req{Kind: kind, Data: vfutil.Hex(data), Size: size, KVs: kvs, Opts: o})
	if died != "" {
		return vfC04Res{Died: died, Hang: tail}
	}
	r := vfC04Res{Cp: rp.Cp, AllApplied: rp.All, Missing: rp.Missing, NReq: rp.NReq, Hang: rp.Hang, Leak: rp.Leak}
	if rp.IsErr {
		r.Err = fmt.Errorf("%s", rp.Err)
	}
	return r
}

// ---------------------------------------------------------------- the real pipeline

type vfC04Opts struct {
	Parallel int
	PipeSize int
	Bisync   bool
	Restore  bool
	Resume   bool
	// scenario
	FailAt   int // request index after the seeds (-1: none)
	CancelAt int // cancel when request #CancelAt (after the seeds) arrives (-1: none)
	HoldAt   int // hold request #HoldAt, wait for quiescence, cancel, release (-1: none)
	Cancel0  bool
	// added after the review
	FailFrom  int    `json:",omitempty"` // > 0: FailFrom-1 = first request of a PERSISTENT failure (every later request fails too)
	FailInner int    `json:",omitempty"` // > 0: FailInner-1 = index of a command queued in MULTI that fails inside the EXEC reply
	NoCancel  bool   `json:",omitempty"` // HoldAt: release without cancelling
	Cluster   bool   `json:",omitempty"` // bidirectional replay onto a CLUSTER target (global lane goroutine)
	Lua       string `json:",omitempty"` // the snapshot carries this script as AUX "lua": SCRIPT LOAD is part of the replay
	// added after the second review
	TailLate int `json:",omitempty"` // the last TailLate bytes (footer) arrive only after parser and workers have quiesced on the rest: a
	// snapshot of realistic length, whose values are decoded and replayed long before the checksum is reached
	DropAt int `json:",omitempty"` // > 0: the target closes the connection that sends request #DropAt-1 (no reply; other connections live on)
	Msg    int `json:",omitempty"` // which real refusal text the injected error reply carries (vfC04FailMsgs / vfC04InnerMsgs)
	MaxBuf int `json:",omitempty"` // > 0: the value-chunking threshold (maxBinEntryBuffer) for this run — split hashes
	Pol    string `json:",omitempty"` // keyExists policy: "" = replace | ignore | error
	// dimension audit (session 5, last round)
	HashTag bool `json:",omitempty"` // replaceHashTag: the entry is written to (and routed by) the key without its first brace pair
	MaxBulk int  `json:",omitempty"` // > 0: MaxProtoBulkLen — a value whose dump is larger is EXPANDED although restore is on
	TDB     int   `json:",omitempty"` // > 0: TargetDb = TDB-1 (every source database is replayed into that one)
	FDB     []int `json:",omitempty"` // dbBlacklist: entries of these source databases are filtered (counted, not replayed)
}

// the texts a real target refuses a request with (a tolerance keyed on a message shows up only with the real message)
var vfC04FailMsgs = []string{"ERR injected by the C04 harness", "OOM command not allowed when used memory > 'maxmemory'.",
	"READONLY You can't write against a read only replica.", "WRONGTYPE Operation against a key holding the wrong kind of value",
	// the families a target answers with while it cannot serve for a moment, or that a client may want to treat specially
	// (session 4, seed C04-r5-m1: a retry keyed on the reply text must not turn a half-written value into a success)
	"LOADING Redis is loading the dataset in memory", "BUSY Redis is busy running a script. You can only call SCRIPT KILL or SHUTDOWN NOSAVE.",
	"TRYAGAIN Multiple keys request during rehashing of slot", "CLUSTERDOWN The cluster is down",
	"MISCONF Redis is configured to save RDB snapshots, but it's currently unable to persist to disk.", "NOAUTH Authentication required.",
	"MOVED 3999 127.0.0.1:6381", "ASK 3999 127.0.0.1:6381", "NOREPLICAS Not enough good replicas to write.", "MASTERDOWN Link with MASTER is down and replica-serve-stale-data is set to 'no'."}

// the keyExists policies (config.ReplayConfig.KeyExists); the target is empty at the start of every run, so the intact
// replay is the same under all three — what differs is what a RETRY of a half-applied entry does
var vfC04Pols = []string{"replace", "ignore", "error"}
var vfC04InnerMsgs = []string{"ERR injected inside EXEC by the C04 harness", "ERR Bad data format",
	"BUSYKEY Target key name already exists.", "OOM command not allowed when used memory > 'maxmemory'."}

type vfC04Res struct {
	Err        error
	Cp         bool
	AllApplied bool
	Missing    []string
	NReq       int
	Hang       string
	Leak       bool
	FailCmd    string // command of the request the fault was injected at
	Died       string // the worker child died on this case: crash | oom | hang
	// session 5: per keyed COMMAND (rendered request: command, key, arguments), the requests the double EXECUTED (not the one an error was injected at, not
	// those left in a MULTI that was never executed) — against the undisturbed run of the scenario this is how often
	// the entry was applied
	KeyReqs map[string]int
	// dimension audit: EVERY rendered request the double executed (PING aside) — for snapshots whose data set the monitor
	// does not know (Redis-produced fixtures): a replay that returned nil must have executed what the undisturbed run executes
	AllReqs map[string]int
}

func vfC04DefaultOpts() vfC04Opts {
	return vfC04Opts{Parallel: 1, PipeSize: 1024, Resume: true, FailAt: -1, CancelAt: -1, HoldAt: -1}
}

func (o vfC04Opts) String() string {
	b, _ := json.Marshal(o)
	return string(b)
}

func vfC04Send(t *testing.T, kvs []vfc20.KV, data []byte, size int64, o vfC04Opts) (res vfC04Res) {
	if o.MaxBuf > 0 {
		oldBuf := rdb.VerifSetMaxBinEntryBuffer(o.MaxBuf)
		defer rdb.VerifSetMaxBinEntryBuffer(oldBuf)
	}
	oldPipe := config.RdbPipeSize
	config.RdbPipeSize = o.PipeSize
	defer func() { config.RdbPipeSize = oldPipe }()
	finished := false
	defer func() {
		if r := recover(); r != nil {
			msg := fmt.Sprint(r)
			if finished && strings.Contains(msg, "main bubble goroutine has exited but blocked goroutines remain") {
				// SendRdb returned and the results were taken; what is left behind is
				// the rdb.ParseRdb goroutine, blocked for ever sending into rdbPipe
				// that nobody reads any more (aborted replay, pipe smaller than the
				// rest of the snapshot). A leak, not a hang of the replay: counted,
				// reported as an observation, not as a violation of this property.
				res.Leak = true
				return
			}
			res.Hang = msg
		}
	}()
	synctest.Test(t, func(t *testing.T) {
		vfc20.SettleClock()
		tg := vfdoubles.NewTarget()
		tg.SetNow(time.Now().UnixMilli())
		c := &vfc20.Case{Mode: "wplain", Pol: "replace", Restore: o.Restore, MaxBulk: 1 << 29, Ver: "7.0.0"}
		if o.Pol != "" {
			c.Pol = o.Pol
		}
		if o.Bisync {
			c.Mode = "bisync"
		}
		c.HashTag = o.HashTag
		c.TDB, c.FDB = o.TDB, o.FDB
		if o.MaxBulk > 0 {
			c.MaxBulk = o.MaxBulk
		}
		tg.FailExecToo = true // a fault injected at an EXEC request is a fault
		tg.AcceptScripts = true
		tg.XGroupKey = true
		ro := vfC20Output(c, tg, o.Parallel)
		ro.cfg.EnableResumeFromBreakPoint = o.Resume
		var connAddrMu sync.Mutex
		connAddr := map[int]string{} // connection id of the double -> primary it was dialled for (cluster)
		if o.Cluster {
			rcfg := config.RedisConfig{Type: config.RedisTypeCluster, Version: "7.0.0", ClusterOptions: &config.RedisClusterOptions{}}
			rcfg.SetClusterShards([]*config.RedisClusterShard{
				{Slots: config.RedisSlots{Ranges: []config.RedisSlotRange{{Left: 0, Right: 8191}}}, Master: config.RedisNode{Address: "10.0.0.1:6379"}},
				{Slots: config.RedisSlots{Ranges: []config.RedisSlotRange{{Left: 8192, Right: 16383}}}, Master: config.RedisNode{Address: "10.0.0.2:6379"}},
			})
			ro.cfg.Redis = rcfg
			rc := config.RedisConfig{}
			ro.newRedisConn = func(ctx context.Context) (client.Redis, error) {
				return conn.VerifNewRedisConn(tg.Dial(), rc), nil
			}
			ro.newRedisConnToAddress = func(ctx context.Context, addr string) (client.Redis, error) {
				c, id := tg.DialID()
				connAddrMu.Lock()
				connAddr[id] = addr
				connAddrMu.Unlock()
				return conn.VerifNewRedisConn(c, rc), nil
			}
		}
		ctx, cancel := context.WithCancel(context.Background())
		defer cancel()
		nSeed := tg.LogLen()
		if o.FailFrom > 0 {
			tg.FailFrom = nSeed + o.FailFrom - 1
			tg.FailFromMsg = "ERR persistent failure injected by the C04 harness"
		}
		if o.FailInner > 0 {
			tg.FailInner[nSeed+o.FailInner-1] = vfC04InnerMsgs[o.Msg%len(vfC04InnerMsgs)]
		}
		if o.DropAt > 0 {
			tg.DropAt = map[int]bool{nSeed + o.DropAt - 1: true}
		}
		held := make(chan struct{})
		release := make(chan struct{})
		var heldOnce atomic.Bool
		if o.FailAt >= 0 {
			tg.FailAt[nSeed+o.FailAt] = vfC04FailMsgs[o.Msg%len(vfC04FailMsgs)]
		}
		if o.CancelAt >= 0 || o.HoldAt >= 0 {
			tg.Hook = func(idx int, e vfdoubles.LogEntry) {
				if o.CancelAt >= 0 && idx == nSeed+o.CancelAt {
					cancel()
				}
				if o.HoldAt >= 0 && idx == nSeed+o.HoldAt && heldOnce.CompareAndSwap(false, true) {
					close(held)
					<-release
				}
			}
		}
		if o.Cancel0 {
			cancel()
		}
		done := make(chan error, 1)
		var src io.Reader = bytes.NewReader(data)
		var tailGo chan struct{}
		var tailPipe *io.PipeReader
		if o.TailLate > 0 && o.TailLate < len(data) && o.HoldAt < 0 {
			pr, pw := io.Pipe()
			tailGo, tailPipe = make(chan struct{}), pr
			head, tail := data[:len(data)-o.TailLate], data[len(data)-o.TailLate:]
			go func() {
				if _, err := pw.Write(head); err != nil {
					return
				}
				<-tailGo
				pw.Write(tail)
				pw.Close()
			}()
			src = pr
		}
		go func() {
			done <- ro.SendRdb(ctx, &vfC04Reader{r: bufio.NewReaderSize(src, 4096), size: size})
		}()
		if tailGo != nil {
			synctest.Wait() // everything before the footer has been parsed, distributed and replayed
			close(tailGo)
			defer tailPipe.CloseWithError(io.ErrClosedPipe)
		}
		if o.HoldAt >= 0 {
			synctest.Wait()
			select {
			case <-held:
				// parser, distributor and the other workers have gone as far as they can
				if !o.NoCancel {
					cancel()
					synctest.Wait()
				}
				close(release)
			default:
				// the run ended before request #HoldAt
			}
		}
		res.Err = <-done
		synctest.Wait()
		tg.CloseAll()
		log := tg.LogCopy()[nSeed:]
		res.NReq = len(log)
		if o.FailAt >= 0 && o.FailAt < len(log) {
			res.FailCmd = log[o.FailAt].Cmd()
		}
		if vfC04DbgLog {
			for i, e := range log {
				fmt.Printf("VFDBG   #%d conn=%d db=%d %s\n", i, e.Conn, e.DB, e.String())
			}
		}
		for i, e := range log {
			// (a checkpoint write the target REFUSED is not a checkpoint: the audit's "final checkpoint write itself failing")
			refused := (o.FailAt >= 0 && i == o.FailAt) || (o.FailFrom > 0 && i >= o.FailFrom-1) || (o.DropAt > 0 && i == o.DropAt-1)
			if !refused && e.Cmd() == "hset" && len(e.Args) > 2 && string(e.Args[1]) == "vfcp" {
				for _, a := range e.Args[2:] {
					if string(a) == "vfrun_offset" {
						res.Cp = true
					}
				}
			}
		}
		if !o.Resume {
			ro.cpGuard.RLock()
			if ro.checkpointInMem.Offset == vfC04Left && ro.checkpointInMem.RunId == "vfrun" {
				res.Cp = true
			}
			ro.cpGuard.RUnlock()
		}
		if o.Bisync && ro.bisyncOffset.Load() == vfC04Left {
			res.Cp = true // bisync resume position advanced to the snapshot's offset
		}
		{
			isKey := map[string]bool{}
			for _, kv := range kvs {
				isKey[string(c.TKey(kv.Key))] = true
			}
			res.KeyReqs = map[string]int{}
			res.AllReqs = map[string]int{}
			pendingAll := map[int][]string{}
			pending := map[int][]string{}
			for i, e := range log {
				failed := (o.FailAt >= 0 && i == o.FailAt) || (o.FailFrom > 0 && i >= o.FailFrom-1) || (o.DropAt > 0 && i == o.DropAt-1)
				switch {
				case e.Cmd() == "exec":
					if !failed {
						for _, k := range pending[e.Conn] {
							res.KeyReqs[k]++
						}
						for _, k := range pendingAll[e.Conn] {
							res.AllReqs[k]++
						}
					}
					delete(pending, e.Conn)
					delete(pendingAll, e.Conn)
				case e.Cmd() == "multi" || e.Cmd() == "discard":
					delete(pending, e.Conn)
					delete(pendingAll, e.Conn)
				default:
					if e.Cmd() != "ping" && !failed && !(o.FailInner > 0 && i == o.FailInner-1) && !(e.Cmd() == "hset" && len(e.Args) > 1 && string(e.Args[1]) == "vfcp") {
						if e.Queued {
							pendingAll[e.Conn] = append(pendingAll[e.Conn], e.String())
						} else {
							res.AllReqs[e.String()]++
						}
					}
					if len(e.Args) >= 2 && isKey[string(e.Args[1])] && !failed && !(o.FailInner > 0 && i == o.FailInner-1) {
						if e.Queued {
							pending[e.Conn] = append(pending[e.Conn], e.String())
						} else {
							res.KeyReqs[e.String()]++ // per COMMAND (command + key + arguments): a push sent twice is told from two pushes
						}
					}
				}
			}
		}
		res.AllApplied = true
		for _, kv := range kvs {
			if c.Filtered(kv.DB, kv.Key) {
				continue // filtered by configuration: not an entry the replay has to apply
			}
			want := vfc20.ExpectVal(kv, o.Restore, vfc20.BubbleNowMs)
			tkey := string(c.TKey(kv.Key))
			tdb := c.TDBOf(kv.DB)
			same := vfc20.SameVal(want, tg.Get(tdb, tkey))
			if !same && o.Restore && (o.MaxBuf > 0 || o.MaxBulk > 0) {
				// a value the loader split into chunks (lowered threshold), or one larger than MaxProtoBulkLen, is replayed by
				// expanded commands also with restore on: the complete value then has the expanded representation on the double
				same = vfc20.SameVal(vfc20.ExpectVal(kv, false, vfc20.BubbleNowMs), tg.Get(tdb, tkey))
			}
			if !same {
				res.AllApplied = false
				res.Missing = append(res.Missing, string(kv.Key))
			}
		}
		if o.Lua != "" {
			// the script of the AUX "lua" field is an entry of the snapshot too. It counts as loaded on a connection
			// when the request was executed: answered without an injected error, and — queued inside MULTI — when the
			// EXEC that followed on that connection was executed and the command did not fail inside it.
			failedReq := func(i int) bool {
				return (o.FailAt >= 0 && i == o.FailAt) || (o.FailFrom > 0 && i >= o.FailFrom-1) || (o.DropAt > 0 && i == o.DropAt-1)
			}
			loadedOn := map[int]bool{}
			pendingScript := map[int][]int{}
			for i, e := range log {
				switch {
				case e.Cmd() == "script" && len(e.Args) == 3 && string(e.Args[2]) == o.Lua:
					if e.Queued {
						if !failedReq(i) && !(o.FailInner > 0 && i == o.FailInner-1) {
							pendingScript[e.Conn] = append(pendingScript[e.Conn], i)
						}
					} else if !failedReq(i) {
						loadedOn[e.Conn] = true
					}
				case e.Cmd() == "exec":
					if !failedReq(i) && len(pendingScript[e.Conn]) > 0 {
						loadedOn[e.Conn] = true
					}
					delete(pendingScript, e.Conn)
				case e.Cmd() == "multi" || e.Cmd() == "discard":
					delete(pendingScript, e.Conn)
				}
			}
			if o.Cluster {
				// ... on EVERY primary: a script / function is not routed by a key
				for _, addr := range []string{"10.0.0.1:6379", "10.0.0.2:6379"} {
					on := false
					connAddrMu.Lock()
					for id, a := range connAddr {
						if a == addr && loadedOn[id] {
							on = true
						}
					}
					connAddrMu.Unlock()
					if !on {
						res.AllApplied = false
						res.Missing = append(res.Missing, "<lua script on "+addr+">")
					}
				}
			} else if len(loadedOn) == 0 {
				res.AllApplied = false
				res.Missing = append(res.Missing, "<lua script>")
			}
		}
		finished = true
	})
	return
}

// vfC04SendCached: the snapshot reaches SendRdb the way it does in production —
// from the disk cache: StoreChannel → store.Storer.GetReader → store.RdbReader
// (pump: file → pipe) → store.Reader.Start. The cache file is named
// <left>_<size>.rdb (a FINISHED snapshot of `size` bytes) and holds `data`.
func vfC04SendCached(t *testing.T, kvs []vfc20.KV, data []byte, size int64, o vfC04Opts) (res vfC04Res) {
	dir, err := os.MkdirTemp("", "vfc04cache")
	if err != nil {
		panic(err)
	}
	defer os.RemoveAll(dir)
	os.MkdirAll(dir+"/vfrun", 0o777)
	if err := os.WriteFile(fmt.Sprintf("%s/vfrun/%d_%d.rdb", dir, vfC04Left, size), data, 0o666); err != nil {
		panic(err)
	}
	finished := false
	defer func() {
		if r := recover(); r != nil {
			msg := fmt.Sprint(r)
			if finished && strings.Contains(msg, "blocked goroutines remain") {
				res.Leak = true
				return
			}
			res.Hang = msg
		}
	}()
	synctest.Test(t, func(t *testing.T) {
		vfc20.SettleClock()
		tg := vfdoubles.NewTarget()
		tg.SetNow(time.Now().UnixMilli())
		c := &vfc20.Case{Mode: "wplain", Pol: "replace", Restore: o.Restore, MaxBulk: 1 << 29, Ver: "7.0.0"}
		ro := vfC20Output(c, tg, o.Parallel)
		ro.cfg.EnableResumeFromBreakPoint = o.Resume
		ch := NewStoreChannel(StorerConf{InputId: "vf", Dir: dir, MaxSize: 1 << 30, LogSize: 1 << 20}).(*StoreChannel)
		defer ch.Close()
		if err := ch.SetRunId("vfrun"); err != nil {
			res.Err = err
			finished = true
			return
		}
		rd, err := ch.storer.GetReader(vfC04Left, false)
		if err != nil {
			res.Err = fmt.Errorf("GetReader: %w", err)
			finished = true
			return
		}
		wait := usync.NewWaitCloser(nil)
		ctx, cancel := context.WithCancel(context.Background())
		defer cancel()
		rd.Start(wait)
		done := make(chan error, 1)
		go func() { done <- ro.SendRdb(ctx, rd) }()
		select {
		case res.Err = <-done:
		case <-time.After(10 * time.Minute): // virtual time
			res.Hang = "SendRdb had not returned after 10 minutes (virtual) reading a finished cache file"
			wait.Close(nil)
			cancel()
			<-done
		}
		wait.Close(nil)
		rd.Close()
		ch.Close()
		synctest.Wait()
		tg.CloseAll()
		for _, e := range tg.LogCopy() {
			if e.Cmd() == "hset" && len(e.Args) > 2 && string(e.Args[1]) == "vfcp" {
				res.Cp = true
			}
		}
		res.AllApplied = true
		for _, kv := range kvs {
			want := vfc20.ExpectVal(kv, o.Restore, vfc20.BubbleNowMs)
			same := vfc20.SameVal(want, tg.Get(kv.DB, string(kv.Key)))
			if !same && o.Restore && o.MaxBuf > 0 {
				// a value the loader split into chunks (lowered threshold) is replayed by expanded commands also with
				// restore on (IsSplited): the complete value then has the expanded representation on the double
				same = vfc20.SameVal(vfc20.ExpectVal(kv, false, vfc20.BubbleNowMs), tg.Get(kv.DB, string(kv.Key)))
			}
			if !same {
				res.AllApplied = false
				res.Missing = append(res.Missing, string(kv.Key))
			}
		}
		finished = true
	})
	return
}

func vfC04Monitor(s *vfutil.Session, what string, file string, data []byte, o vfC04Opts, r vfC04Res) {
	vfC04CfgCount(s, o)
	rp := map[string]interface{}{"scenario": what, "file": file, "rdb": vfutil.Hex(data), "opts": o.String()}
	if r.Died != "" {
		s.Count("viol_" + r.Died)
		s.Violate(r.Died, fmt.Sprintf("%s: the replay does not return an error, the process dies (%s): %s", what, r.Died, r.Hang), rp)
		return
	}
	if r.Hang != "" {
		if os.Getenv("VERIF_DEBUG") != "" {
			fmt.Printf("VFDEBUG hang %s %s %s: %s\n", what, file, o.String(), r.Hang)
		}
		s.Count("viol_hang")
		s.Violate("hang", fmt.Sprintf("%s: SendRdb did not return: %s", what, r.Hang), rp)
		return
	}
	if r.Leak {
		s.Count("observed_parser_goroutine_left_blocked_after_abort")
	}
	if !r.AllApplied {
		s.Count("incomplete_replays")
		if r.Err == nil {
			s.Count("viol_incomplete-reported-ok")
			s.Violate("incomplete-reported-ok", fmt.Sprintf("%s: keys %q not applied but SendRdb returned nil (checkpoint=%v)", what, r.Missing, r.Cp), rp)
		}
		if r.Cp {
			s.Count("viol_incomplete-checkpointed")
			s.Violate("incomplete-checkpointed", fmt.Sprintf("%s: keys %q not applied but the resume position was advanced to the snapshot's offset (err=%v)", what, r.Missing, r.Err), rp)
		}
	} else {
		s.Count("complete_replays")
	}
}

// vfC04ResTokM: result, checkpoint and the multiplicity of the applied entries against the undisturbed run `ref`
// (twice: some key received more requests than one application needs; once — reported for a replay that returned nil
// only — every key received exactly the requests of one application)
// vfC04CfgCount: which value of every configuration option that reaches sendRdb / rdbReplay* this run was made with
func vfC04CfgCount(s *vfutil.Session, o vfC04Opts) {
	many := func(n int) string {
		switch {
		case n <= 2:
			return fmt.Sprint(n)
		case n <= 4:
			return "3-4"
		case n < 100:
			return "5-99"
		}
		return "many"
	}
	pol := o.Pol
	if pol == "" {
		pol = "replace"
	}
	s.Count("cfg_replayRdbParallel_" + many(o.Parallel))
	s.Count("cfg_rdbPipeSize_" + many(o.PipeSize))
	s.Count(fmt.Sprintf("cfg_bisync_%v", o.Bisync))
	s.Count(fmt.Sprintf("cfg_replayRdbEnableRestore_%v", o.Restore))
	s.Count(fmt.Sprintf("cfg_resumeFromBreakPoint_%v", o.Resume))
	s.Count("cfg_keyExists_" + pol)
	s.Count(fmt.Sprintf("cfg_cluster_%v", o.Cluster))
	s.Count(fmt.Sprintf("cfg_replaceHashTag_%v", o.HashTag))
	s.Count(fmt.Sprintf("cfg_maxBinEntryBuffer_lowered_%v", o.MaxBuf > 0))
	s.Count(fmt.Sprintf("cfg_maxProtoBulkLen_small_%v", o.MaxBulk > 0))
	s.Count(fmt.Sprintf("cfg_auxLua_%v", o.Lua != ""))
	s.Count(fmt.Sprintf("cfg_targetDb_set_%v", o.TDB > 0))
	s.Count(fmt.Sprintf("cfg_dbBlacklist_set_%v", len(o.FDB) > 0))
}

func vfC04ResTokM(r vfC04Res, ref map[string]int) string {
	twice, once := 0, 1
	for k, n := range ref {
		if r.KeyReqs[k] > n {
			twice = 1
		}
		if r.KeyReqs[k] != n {
			once = 0
		}
	}
	for k := range r.KeyReqs {
		if _, ok := ref[k]; !ok { // a keyed command the undisturbed run never sends
			twice, once = 1, 0
		}
	}
	os := "-"
	if r.Err == nil {
		os = fmt.Sprint(once)
	}
	return fmt.Sprintf("%s twice=%d once=%s", vfC04ResTok(r), twice, os)
}

func vfC04ResTok(r vfC04Res) string {
	res := "ok"
	if r.Err != nil {
		res = "err"
	}
	cp := 0
	if r.Cp {
		cp = 1
	}
	return fmt.Sprintf("res=%s cp=%d", res, cp)
}

// routes of the entries the real loader produces, as sendRdb's distributor computes them
func vfC04Routes(data []byte, n int, hashTag ...bool) []string {
	bins, err := vfc20.Load(data, 0, "7.0.0")
	if err != nil {
		return nil
	}
	var out []string
	idx := uint32(0)
	for _, e := range bins {
		// as sendRdb's distributeTask (output.go): every entry except a function library belongs to a key, "" is a key;
		// with replaceHashTag the key the entry is written to decides
		if len(e.Key) > 0 || (e.ObjectParser != nil && e.ObjectParser.Type() != rdb.RdbObjectFunction) {
			rk := e.Key
			if len(hashTag) > 0 && hashTag[0] {
				rk = bytes.Replace(rk, []byte("{"), []byte(""), 1)
				rk = bytes.Replace(rk, []byte("}"), []byte(""), 1)
			}
			idx = util.FnvHash(rk) % uint32(n)
		} else {
			idx = (idx + 1) % uint32(n)
		}
		out = append(out, fmt.Sprint(idx))
	}
	return out
}

func vfC04FanOp(data []byte, o vfC04Opts, scen string) string {
	cw := o.PipeSize / o.Parallel
	if cw < 1 {
		cw = 1
	}
	rs := vfC04Routes(data, o.Parallel, o.HashTag)
	r := "."
	if len(rs) > 0 {
		r = strings.Join(rs, ",")
	}
	if o.Cluster && o.Bisync {
		// the global lane (Model/RdbFanoutG.withGlobal): FUNCTION / AUX objects go to one more worker
		gs := vfC04Globals(data)
		g := "."
		if len(gs) > 0 {
			g = strings.Join(gs, ",")
		}
		return fmt.Sprintf("c04fang n=%d c0=%d cw=%d routes=%s glob=%s term=done scen=%s", o.Parallel, o.PipeSize, cw, r, g, scen)
	}
	return fmt.Sprintf("c04fan n=%d c0=%d cw=%d routes=%s term=done scen=%s", o.Parallel, o.PipeSize, cw, r, scen)
}

// vfC04Globals: per entry the real loader produces, 1 when sendRdb's distributor hands it to the global lane of cluster
// bidirectional replay (bisyncRdbIsGlobalEntry: FUNCTION and AUX objects), else 0
func vfC04Globals(data []byte) []string {
	bins, err := vfc20.Load(data, 0, "7.0.0")
	if err != nil {
		return nil
	}
	var out []string
	for _, e := range bins {
		g := "0"
		if e.ObjectParser != nil && (e.ObjectParser.Type() == rdb.RdbObjectFunction || e.ObjectParser.Type() == rdb.RdbObjectAux) {
			g = "1"
		}
		out = append(out, g)
	}
	return out
}

// ---------------------------------------------------------------- the test

func TestVerifC04(t *testing.T) {
	if os.Getenv("VERIF_C04_CHILD") != "" {
		t.Skip("child mode")
	}
	s := vfutil.NewSession("C04")
	defer s.Close()
	defer vfC04W.stop()
	maxVer := int(rdb.RdbVersion)
	vfc20.MaxVer = maxVer
	rnd := vfutil.NewRand(vfutil.Seed())

	// wall-clock watchdog: a case that does not finish is reported with its input
	var cur atomic.Value
	cur.Store("")
	var tick atomic.Int64
	stop := make(chan struct{})
	defer close(stop)
	go func() {
		last, since := int64(-1), time.Now()
		for {
			select {
			case <-stop:
				return
			case <-time.After(time.Second):
			}
			if n := tick.Load(); n != last {
				last, since = n, time.Now()
			} else if time.Since(since) > 120*time.Second {
				s.Violate("hang", "no progress for 120 s wall-clock", map[string]interface{}{"case": cur.Load().(string)})
				s.Close()
				os.Exit(3)
			}
		}
	}()
	mark := func(c string) { cur.Store(c); tick.Add(1) }
	t0 := time.Now()
	phase := func(name string) {
		if os.Getenv("VERIF_C04_TIMING") != "" {
			if f, err := os.OpenFile(os.Getenv("VERIF_C04_TIMING"), os.O_APPEND|os.O_CREATE|os.O_WRONLY, 0o644); err == nil {
				fmt.Fprintf(f, "C04 phase %-6s at %6.1fs\n", name, time.Since(t0).Seconds())
				f.Close()
			}
		}
	}

	files := vfC04Files()
	var corpusChild []vfC04BatchCase
	// ------------------------------------------------ 0. canary: the first file's truncations in a child process — the very first
	// thing that touches a damaged snapshot (before the corpus, before every in-process sweep)
	{
		data := files[0].bytes()
		var ins [][]byte
		for k := 0; k <= len(data); k++ {
			ins = append(ins, data[:k])
		}
		for pos := 9; pos < len(data); pos += 3 {
			g := append([]byte(nil), data...)
			g[pos] ^= 0x55
			if _, risky := vfc20.Classify(g); !risky {
				ins = append(ins, g)
			}
		}
		mark("canary")
		at, how, toks := vfC04ParseCanary(ins)
		s.Count("canary_inputs")
		for i, tk := range toks {
			if strings.HasPrefix(tk, "x") {
				s.Count("viol_parser-no-terminal")
				s.Violate("parser-no-terminal", "rdb.ParseRdb closed its channel without a Done or Err entry ("+tk+"): sendRdb's distributor takes that for a normal end",
					map[string]interface{}{"scenario": "canary-parse", "rdb": vfutil.Hex(ins[i])})
				break
			}
		}
		if at >= 0 {
			s.Count("viol_crash")
			in := []byte{}
			if at < len(ins) {
				in = ins[at]
			}
			s.Violate("crash", "damaged snapshot: the parser does not return an error, the PROCESS dies: "+how,
				map[string]interface{}{"scenario": "canary-parse", "rdb": vfutil.Hex(in)})
			return // every in-process sweep below would kill the harness itself
		}
	}

	// ------------------------------------------------ corpus: explicit witnesses
	for _, l := range vfutil.Corpus("C04") {
		parts := strings.SplitN(l, " ", 3)
		switch parts[0] {
		case "parse": // parse <hexfile>: real parser vs model
			f := vfutil.UnHex(parts[1])
			sup, risky := vfc20.Classify(f)
			tok := vfC04ParseGuarded(s, f, risky)
			if strings.HasPrefix(tok, "!") {
				continue // reported by vfC04ParseGuarded
			}
			if !sup {
				tok = "u"
			}
			s.Op(fmt.Sprintf("c04parse %d %s", maxVer, parts[1]), tok)
		case "cached": // cached <file name> <bytes held>: finished cache file <left>_<size>.rdb holding only a prefix, through store.RdbReader
			p3 := strings.Fields(l)
			k, _ := strconv.Atoi(p3[2])
			for _, f := range files {
				if f.Name == p3[1] {
					data := f.bytes()
					o := vfC04DefaultOpts()
					mark("corpus " + l)
					r := vfC04SendD("cached", f.KVs, data[:k], int64(len(data)), o)
					if r.Hang != "" && r.Died == "" {
						s.Count("viol_hang")
						s.Violate("hang", fmt.Sprintf("finished cache file holds %d of %d bytes: %s", k, len(data), r.Hang),
							map[string]interface{}{"scenario": "send-cached-short-file", "file": f.Name, "held": k, "size": len(data)})
					} else {
						vfC04Monitor(s, "send-cached", f.Name, data[:k], o, r)
					}
					s.Count("case_corpus")
				}
			}
		case "sendchild": // sendchild <file name|foreign> <hexdata> <opts-json>: as "send", in a supervised child (hang / oom witnesses)
			p4 := strings.SplitN(l, " ", 4)
			var o vfC04Opts
			if len(p4) < 4 || json.Unmarshal([]byte(p4[3]), &o) != nil {
				t.Fatalf("bad corpus line %q", l)
			}
			corpusChild = append(corpusChild, vfC04BatchCase{File: p4[1], Data: p4[2], Size: int64(len(vfutil.UnHex(p4[2]))), Opts: o})
		case "send": // send <file name> <hexdata> <opts-json>: full pipeline on a (damaged) copy of a built-in file
			p4 := strings.SplitN(l, " ", 4)
			var o vfC04Opts
			if len(p4) < 4 || json.Unmarshal([]byte(p4[3]), &o) != nil {
				t.Fatalf("bad corpus line %q", l)
			}
			data := vfutil.UnHex(p4[2])
			var kvs []vfc20.KV
			for _, f := range append(files, vfC04OomBait()) {
				if f.Name == p4[1] {
					kvs = f.KVs
				}
			}
			mark("corpus " + l)
			r := vfC04SendD("send", kvs, data, int64(len(data)), o)
			vfC04Monitor(s, "corpus-send", p4[1], data, o, r)
			s.Count("case_corpus")
		}
	}

	if len(corpusChild) > 0 {
		mark("corpus child batch")
		for i, r := range vfC04RunBatch(s, corpusChild, mark) {
			c := corpusChild[i]
			rp := map[string]interface{}{"scenario": "corpus-sendchild", "file": c.File, "rdb": c.Data, "opts": c.Opts.String()}
			s.Count("case_corpus")
			if r.Died != "" {
				s.Count("viol_" + r.Died)
				s.Violate(r.Died, "damaged snapshot (corpus witness): the replay does not return an error, the process "+r.Died+"s", rp)
			} else if c.File != "foreign" && !r.All && (!r.Err || r.Cp) {
				s.Count("viol_incomplete-checkpointed")
				s.Violate("incomplete-checkpointed", fmt.Sprintf("corpus-sendchild: keys %q not applied, err=%v cp=%v", r.Missing, r.Err, r.Cp), rp)
			}
		}
	}

	phase("1")
	// ------------------------------------------------ 1. real parser vs frame model: truncations and every XOR mask
	sweepFiles := append([]vfC04File{}, files...)
	sweepFiles = append(sweepFiles, vfC04OomBait())
	for _, f := range sweepFiles {
		data := f.bytes()
		s.Add("sweep_file_bytes", len(data))
		if tok := vfC04ParseTok(data); !strings.HasPrefix(tok, "d") {
			s.Violate("generator-rdb-rejected", f.Name+": "+tok, map[string]interface{}{"rdb": vfutil.Hex(data)})
			continue
		}
		// truncations
		var toks []string
		for k := 0; k <= len(data); k++ {
			mark(fmt.Sprintf("trunc %s %d", f.Name, k))
			sup, risky := vfc20.Classify(data[:k])
			tok := vfC04ParseGuarded(s, data[:k], risky)
			if strings.HasPrefix(tok, "x") {
				s.Count("viol_parser-no-terminal")
				s.Violate("parser-no-terminal", "rdb.ParseRdb closed its channel without a Done or Err entry ("+tok+")",
					map[string]interface{}{"scenario": "trunc", "file": f.Name, "rdb": vfutil.Hex(data[:k])})
			}
			if k < len(data) && strings.HasPrefix(tok, "d") {
				s.Count("viol_truncation-accepted")
				s.Violate("truncation-accepted", fmt.Sprintf("%s cut at %d of %d bytes parses to Done (%s)", f.Name, k, len(data), tok),
					map[string]interface{}{"scenario": "trunc", "file": f.Name, "rdb": vfutil.Hex(data[:k])})
			}
			if !sup {
				tok = "u"
				s.Count("parse_outside_model")
			}
			toks = append(toks, tok)
			s.Count("parse_truncations")
		}
		s.Op(fmt.Sprintf("c04trunc %d %s", maxVer, vfutil.Hex(data)), strings.Join(toks, ","))
		// the whole channel transcript (every terminal in order, closed): the intact file, every cut of the last 12 bytes and a
		// few earlier ones, every byte of the footer and the EOF opcode altered, bytes appended behind the footer
		{
			var gs [][]byte
			gs = append(gs, data)
			for k := len(data) - 12; k < len(data); k++ {
				gs = append(gs, data[:k])
			}
			for j := 0; j < 6; j++ {
				gs = append(gs, data[:rnd.Intn(len(data))])
			}
			for pos := len(data) - 9; pos < len(data); pos++ {
				for _, m := range []byte{0x01, 0x80, byte(rnd.Range(1, 255))} {
					g := append([]byte(nil), data...)
					g[pos] ^= m
					gs = append(gs, g)
				}
			}
			gs = append(gs, append(append([]byte(nil), data...), 0), append(append([]byte(nil), data...), 0xFF, 0, 0, 0, 0, 0, 0, 0, 0))
			zf := append([]byte(nil), data...)
			copy(zf[len(zf)-8:], make([]byte, 8))
			gs = append(gs, zf, append(append([]byte(nil), zf...), 7))
			for _, g := range gs {
				mark("chan " + f.Name)
				sup, _ := vfc20.Classify(g)
				rp, died, tail := vfC04W.call(vfC04Req{Kind: "chan", Data: vfutil.Hex(g)})
				if died != "" {
					s.Count("viol_" + died)
					s.Violate(died, "damaged snapshot: the parser process dies: "+tail, map[string]interface{}{"scenario": "chan", "rdb": vfutil.Hex(g)})
					continue
				}
				tok := rp.Tok
				if strings.HasSuffix(tok, ":x") {
					s.Count("viol_parser-no-terminal")
					s.Violate("parser-no-terminal", "rdb.ParseRdb closed its channel without a Done or Err entry ("+tok+")",
						map[string]interface{}{"scenario": "chan", "file": f.Name, "rdb": vfutil.Hex(g)})
				}
				if strings.Contains(tok, "k") || strings.Contains(tok, "D,") {
					s.Count("viol_chan-after-done")
					s.Violate("chan-after-done", "rdb.ParseRdb sent something after Done, or an entry after a terminal ("+tok+")",
						map[string]interface{}{"scenario": "chan", "file": f.Name, "rdb": vfutil.Hex(g)})
				}
				if !sup {
					tok = "u"
				}
				s.Op(fmt.Sprintf("c04chan %d %s", maxVer, vfutil.Hex(g)), tok)
				s.Count("chan_transcripts")
				if strings.HasSuffix(tok, "E,D") {
					s.Count("observed_err_then_done_after_footer_error")
				}
			}
		}
		// every single-byte XOR
		for pos := 0; pos < len(data); pos++ {
			toks = toks[:0]
			// one request to the worker child for the 255 variants of this position; if the child dies on the batch, one by
			// one (vfC04ParseGuarded names the input)
			var batch []string
			{
				vals := make([]byte, 0, 255)
				for m := 1; m <= 255; m++ {
					vals = append(vals, data[pos]^byte(m))
				}
				mark(fmt.Sprintf("xors %s %d", f.Name, pos))
				if rp, died, _ := vfC04W.call(vfC04Req{Kind: "xsets", Data: vfutil.Hex(data), Size: int64(pos), Segs: vfutil.Hex(vals)}); died == "" {
					batch = strings.Split(rp.Tok, ",")
				}
			}
			for m := 1; m <= 255; m++ {
				g := append([]byte(nil), data...)
				g[pos] ^= byte(m)
				sup, risky := vfc20.Classify(g)
				var tok string
				if len(batch) == 255 {
					tok = batch[m-1]
				} else {
					mark(fmt.Sprintf("xor %s %d %d", f.Name, pos, m))
					tok = vfC04ParseGuarded(s, g, risky)
				}
				s.Count("parse_alterations")
				if strings.HasPrefix(tok, "d") {
					// accepted although altered: only the "footer became all zero" exception is legitimate
					zero := pos >= len(data)-8 && bytes.Equal(g[len(g)-8:], make([]byte, 8))
					if !zero {
						s.Count("viol_alteration-accepted")
						s.Violate("alteration-accepted", fmt.Sprintf("%s with byte %d XOR 0x%02x parses to Done (%s)", f.Name, pos, m, tok),
							map[string]interface{}{"scenario": "xor-parse", "file": f.Name, "pos": pos, "mask": m, "rdb": vfutil.Hex(g)})
					} else {
						s.Count("zero_footer_exception")
					}
				}
				if !sup {
					tok = "u"
					s.Count("parse_outside_model")
				}
				toks = append(toks, tok)
			}
			s.Op(fmt.Sprintf("c04xor %d %s %d", maxVer, vfutil.Hex(data), pos), strings.Join(toks, ","))
			s.Distinct(fmt.Sprintf("xor/%s/%d", f.Name, pos))
		}
		// alterations drawn from VERIF_SEED: two bytes, a length/count-making value written over a byte, a byte removed / inserted
		for j := 0; j < vfutil.Scale(150, 2000); j++ {
			g := append([]byte(nil), data...)
			pos := rnd.Intn(len(g))
			switch rnd.Intn(4) {
			case 0:
				g[pos] ^= byte(rnd.Range(1, 255))
				g[rnd.Intn(len(g))] ^= byte(rnd.Range(1, 255))
			case 1:
				g[pos] = byte(vfC04SetValues[rnd.Intn(len(vfC04SetValues))])
			case 2:
				g = append(g[:pos], g[pos+1:]...)
			default:
				g = append(g[:pos], append([]byte{byte(rnd.Intn(256))}, g[pos:]...)...)
			}
			if bytes.Equal(g, data) {
				continue
			}
			mark(fmt.Sprintf("seeded %s %d", f.Name, j))
			sup, risky := vfc20.Classify(g)
			tok := vfC04ParseGuarded(s, g, risky)
			s.Count("parse_seeded_alterations")
			if strings.HasPrefix(tok, "!") {
				continue // reported by vfC04ParseGuarded
			}
			if strings.HasPrefix(tok, "d") && !bytes.Equal(g[len(g)-8:], make([]byte, 8)) {
				s.Count("viol_alteration-accepted")
				s.Violate("alteration-accepted", fmt.Sprintf("%s altered (seeded) parses to Done (%s)", f.Name, tok),
					map[string]interface{}{"scenario": "xor-parse", "file": f.Name, "rdb": vfutil.Hex(g)})
			}
			if !sup {
				tok = "u"
				s.Count("parse_outside_model")
			}
			s.Op(fmt.Sprintf("c04parse %d %s", maxVer, vfutil.Hex(g)), tok)
		}
	}

	phase("2")
	// ------------------------------------------------ 2. the real pipeline on damaged input
	pick := func(i int) vfC04Opts {
		o := vfC04DefaultOpts()
		o.Parallel = 1 + i%4
		o.PipeSize = []int{1024, 1, 2, 8}[(i/4)%4]
		o.Bisync = (i/3)%2 == 1
		o.Restore = (i/5)%2 == 1
		o.Resume = i%7 != 6
		return o
	}
	ci := 0
	for fi, f := range files {
		data := f.bytes()
		for k := 0; k < len(data); k++ {
			o := pick(ci)
			ci++
			mark(fmt.Sprintf("send-trunc %s %d", f.Name, k))
			r := vfC04SendD("send", f.KVs, data[:k], int64(len(data)), o)
			vfC04Monitor(s, "send-truncated", f.Name, data[:k], o, r)
			s.Count("send_truncations")
		}
		// quick: three fixed masks, one mask and one written value drawn from the seed (per file)
		masks := append([]int{0x01, 0x80, 0xFF}, vfC04SeedPick([]int{0x02, 0x04, 0x08, 0x10, 0x20, 0x40, 0x7E, 0x8B, 0x55, 0xC3, 0x3F}, 1, int64(40+fi))...)
		sets := vfC04SeedPick(vfC04SetValues, 1, int64(50+fi))
		if vfutil.Thorough() {
			masks = []int{0x01, 0x02, 0x04, 0x08, 0x10, 0x20, 0x40, 0x80, 0xFF, 0x7E, 0x8B}
			sets = vfC04SetValues
		}
		for pos := 0; pos < len(data); pos++ {
			var alts []int // as XOR masks
			for _, m := range masks {
				alts = append(alts, m)
			}
			for _, v := range sets {
				if m := int(data[pos]) ^ v; m != 0 {
					alts = append(alts, m)
				}
			}
			for _, m := range alts {
				g := append([]byte(nil), data...)
				g[pos] ^= byte(m)
				if _, risky := vfc20.Classify(g); risky {
					s.Count("send_skipped_risky_alloc")
					continue
				}
				o := pick(ci)
				ci++
				mark(fmt.Sprintf("send-xor %s %d %d", f.Name, pos, m))
				r := vfC04SendD("send", f.KVs, g, int64(len(g)), o)
				vfC04Monitor(s, "send-altered", f.Name, g, o, r)
				s.Count("send_alterations")
			}
		}
	}

	phase("2a")
	// ------------------------------------------------ 2a. through the real disk-cache reader (store.RdbReader.pump)
	for fi, f := range files {
		data := f.bytes()
		step := vfutil.Scale(11, 1)
		ks := []int{0, 5, 9, len(data) - 9, len(data) - 8, len(data) - 1, len(data)}
		for k := 1 + fi; k < len(data); k += step {
			ks = append(ks, k)
		}
		for _, k := range ks {
			o := vfC04DefaultOpts()
			o.Parallel = 1 + k%3
			o.Restore = k%2 == 0
			mark(fmt.Sprintf("send-cached %s %d", f.Name, k))
			r := vfC04SendD("cached", f.KVs, data[:k], int64(len(data)), o)
			if r.Hang != "" && r.Died == "" {
				s.Count("viol_hang")
				s.Violate("hang", fmt.Sprintf("finished cache file %d_%d.rdb holds %d bytes: %s", vfC04Left, len(data), k, r.Hang),
					map[string]interface{}{"scenario": "send-cached-short-file", "file": f.Name, "held": k, "size": len(data), "rdb": vfutil.Hex(data[:k])})
			} else {
				vfC04Monitor(s, "send-cached", f.Name, data[:k], o, r)
				if k == len(data) && (r.Err != nil || !r.AllApplied) {
					s.Violate("clean-run-failed", fmt.Sprintf("intact cache file: err=%v all=%v", r.Err, r.AllApplied), map[string]interface{}{"file": f.Name})
				}
			}
			s.Count("send_cached_reader")
		}
	}

	// ------------------------------------------------ 2b. stream values and an LZF string: decoders run in the workers,
	// supervised child. Alterations: XOR masks AND writing length/count-making values over every byte (vfC04SetValues).
	phase("2b")
	for fi, f := range []vfC04File{vfC04StreamFile(), vfC04Stream2File(), vfC04Stream3File()} {
		data := f.bytes()
		s.Add("sweep_file_bytes", len(data))
		var cases []vfC04BatchCase
		add := func(g []byte, i int) {
			o := vfC04DefaultOpts()
			o.Parallel = 1 + i%3
			o.Bisync = i%4 == 3
			o.Restore = false // expansion: the listpack decoder runs
			o.TailLate = 9    // ... before the footer arrives
			cases = append(cases, vfC04BatchCase{File: f.Name, Data: vfutil.Hex(g), Size: int64(len(data)), Opts: o})
		}
		oi := 0
		oc := vfC04DefaultOpts()
		cases = append(cases, vfC04BatchCase{File: f.Name, Data: vfutil.Hex(data), Size: int64(len(data)), Opts: oc}) // intact
		for k := int(vfutil.Seed() % 3); k < len(data); k += vfutil.Scale(3, 1) {
			add(data[:k], oi)
			oi++
		}
		// quick: two fixed masks + one mask and three set values drawn from the seed per file; the 32-/64-bit makers always
		masks := append([]int{0x01, 0xF5}, vfC04SeedPick([]int{0x02, 0x04, 0x08, 0x10, 0x20, 0x40, 0x80, 0xFF, 0xF7, 0xFA, 0x7F}, 1, int64(20+fi))...)
		sets := append([]int{0xF3, 0xF4, 0x81}, vfC04SeedPick(vfC04SetValues[3:], 2, int64(30+fi))...)
		if vfutil.Thorough() {
			masks = []int{0x01, 0x02, 0x04, 0x08, 0x10, 0x20, 0x40, 0x80, 0xFF, 0xF5, 0xF7, 0xFA, 0x7F}
			sets = vfC04SetValues
		}
		for pos := 9; pos < len(data); pos++ {
			seen := map[byte]bool{data[pos]: true}
			try := func(v byte) {
				if seen[v] {
					return
				}
				seen[v] = true
				g := append([]byte(nil), data...)
				g[pos] = v
				add(g, oi)
				oi++
			}
			for _, m := range masks {
				try(data[pos] ^ byte(m))
			}
			for _, v := range sets {
				try(byte(v))
			}
		}
		mark("stream batch")
		res := vfC04RunBatch(s, cases, mark)
		for i, r := range res {
			c := cases[i]
			rp := map[string]interface{}{"scenario": "send-stream", "file": c.File, "rdb": c.Data, "opts": c.Opts.String()}
			s.Count("send_stream_cases")
			if r.Died != "" {
				s.Count("viol_" + r.Died)
				s.Violate(r.Died, fmt.Sprintf("damaged stream snapshot: the replay does not return an error, the process %s", map[string]string{"hang": "hangs", "oom": "dies of memory exhaustion", "crash": "crashes"}[r.Died]), rp)
				continue
			}
			if i == 0 && (r.Err || !r.Cp || !r.All) {
				s.Violate("clean-run-failed", fmt.Sprintf("intact stream snapshot: err=%v cp=%v all=%v missing=%q", r.Err, r.Cp, r.All, r.Missing), rp)
			}
			if r.Leak {
				s.Count("observed_parser_goroutine_left_blocked_after_abort")
			}
			if !r.All {
				s.Count("incomplete_replays")
				if !r.Err {
					s.Count("viol_incomplete-reported-ok")
					s.Violate("incomplete-reported-ok", fmt.Sprintf("send-stream: keys %q not applied but SendRdb returned nil (checkpoint=%v)", r.Missing, r.Cp), rp)
				}
				if r.Cp {
					s.Count("viol_incomplete-checkpointed")
					s.Violate("incomplete-checkpointed", fmt.Sprintf("send-stream: keys %q not applied but the resume position was advanced", r.Missing), rp)
				}
			} else {
				s.Count("complete_replays")
			}
		}
	}

	phase("2c")
	// ------------------------------------------------ 2c. Redis-produced snapshots of the repo's own tests: ziplist / listpack /
	// intset / quicklist containers, LZF strings, functions, streams with groups. Expansion path (the value decoders run in
	// the replay workers, before the checksum is reached), supervised child. The dataset is not known to the monitor:
	// it checks "no hang / oom / crash" and "damaged ⇒ SendRdb returns an error".
	{
		fixtures := vfC04Fixtures()
		s.Add("fixture_files", len(fixtures))
		var cases []vfC04BatchCase
		var damaged []bool
		oi := 0
		add := func(g []byte, size int, dmg bool) {
			o := vfC04DefaultOpts()
			o.Parallel = 1 + oi%3
			o.Bisync = oi%5 == 4
			o.Restore = false
			o.TailLate = 9
			oi++
			cases = append(cases, vfC04BatchCase{File: "foreign", Data: vfutil.Hex(g), Size: int64(size), Opts: o})
			damaged = append(damaged, dmg)
		}
		for _, data := range fixtures {
			if len(data) > vfutil.Scale(700, 4000) {
				continue
			}
			add(data, len(data), false)
			tstep, pstep := vfutil.Scale(7, 1), vfutil.Scale(7, 2)
			if vfutil.Thorough() && len(data) > 700 {
				pstep = 4 // volume, not kinds: every mask and every written value at every 2nd / 4th position, the offset drawn from VERIF_SEED
			}
			masks := []int{0x01, 0xF5}
			if vfutil.Thorough() {
				masks = []int{0x01, 0x04, 0x10, 0x80, 0xFF, 0xF5, 0x7F}
			}
			sd := int(vfutil.Seed() % 1000)
			for k := sd % tstep; k < len(data); k += tstep {
				add(data[:k], len(data), true)
			}
			// a snapshot written with the checksum disabled (all-zero footer) cannot refuse an alteration
			checksummed := !bytes.Equal(data[len(data)-8:], make([]byte, 8))
			for pos := 9 + sd%pstep; pos < len(data)-8; pos += pstep {
				for _, m := range masks {
					g := append([]byte(nil), data...)
					g[pos] ^= byte(m)
					add(g, len(data), checksummed)
				}
				// a length / count-making value written over the byte (all of them in the thorough tier)
				for vi, v := range vfC04SetValues {
					if (vfutil.Thorough() || vi == (pos+sd)%len(vfC04SetValues)) && data[pos] != byte(v) {
						g := append([]byte(nil), data...)
						g[pos] = byte(v)
						add(g, len(data), checksummed)
					}
				}
			}
		}
		mark("fixture batch")
		for i, r := range vfC04RunBatch(s, cases, mark) {
			c := cases[i]
			rp := map[string]interface{}{"scenario": "send-fixture", "file": "foreign", "rdb": c.Data, "opts": c.Opts.String()}
			s.Count("send_fixture_cases")
			if r.Died != "" {
				s.Count("viol_" + r.Died)
				s.Violate(r.Died, "damaged Redis-produced snapshot: the replay does not return an error, the process "+r.Died+"s", rp)
				continue
			}
			if damaged[i] && !r.Err {
				s.Count("viol_damaged-reported-ok")
				s.Violate("damaged-reported-ok", "a truncated / altered (checksum-covered byte) snapshot was replayed with SendRdb returning nil", rp)
			}
			if !damaged[i] && r.Err {
				s.Count("fixture_intact_not_replayable_on_the_double")
			}
		}
	}

	phase("3")
	// ------------------------------------------------ 3. faults and cancellation at every point, all worker counts
	reps := vfutil.Scale(2, 6)
	luaFile := vfC04File{Name: "luaaux", Opts: vfc20.Opts{Aux: true, Lua: []byte("return 1")}, KVs: []vfc20.KV{
		{DB: 0, Key: []byte("k"), Type: 0, Str: []byte("v")},
		{DB: 0, Key: []byte("l"), Type: 1, Items: [][]byte{[]byte("a")}},
	}}
	type scen struct {
		f       vfC04File
		par, ps int
		bis     bool
		cluster bool
		ht      bool // replaceHashTag
		mb      int  // MaxProtoBulkLen (0 = large)
		tdb     int   // TargetDb + 1
		fdb     []int // dbBlacklist
	}
	// dimension audit: degenerate-but-legal entries — the EMPTY key (a key like any other: routed by its hash, slot 0), an empty
	// string value, keys with a hash tag (replaceHashTag on: written to and routed by the key without the braces), a list
	// with equal elements, a third database, an expiry, the key "{}" (becomes the empty key under replaceHashTag — kept out of
	// DB 0 so that it does not collide with the empty key there)
	edgeFile := vfC04File{Name: "edge", KVs: []vfc20.KV{
		{DB: 0, Key: []byte(""), Type: 0, Str: []byte("value-of-the-empty-key")},
		{DB: 0, Key: []byte("{t}a"), Type: 1, Items: [][]byte{[]byte("p"), []byte("p"), []byte("q")}},
		{DB: 0, Key: []byte("e"), Type: 0, Str: []byte("")},
		{DB: 3, Key: []byte("x{t}"), Type: 0, ExpireAt: uint64(vfc20.BubbleNowMs + 3600_000), Str: []byte("0123456789abcdef0123456789abcdef")},
		{DB: 3, Key: []byte("{}"), Type: 2, Items: [][]byte{[]byte("m")}},
	}}
	var scens []scen
	for _, f := range files[:2] {
		for par := 1; par <= 4; par++ {
			for _, ps := range []int{1024, par, 1} {
				for _, bis := range []bool{false, true} {
					if vfutil.Tier() == "quick" && ps == par && bis {
						continue
					}
					scens = append(scens, scen{f, par, ps, bis, false, false, 0, 0, nil})
				}
			}
		}
	}
	scens = append(scens, scen{luaFile, 1, 1024, false, false, false, 0, 0, nil}, scen{luaFile, 2, 1, false, false, false, 0, 0, nil})
	// bidirectional replay onto a CLUSTER target: one more result-sending goroutine (global lane)
	scens = append(scens, scen{files[0], 1, 1024, true, true, false, 0, 0, nil}, scen{files[0], 2, 1024, true, true, false, 0, 0, nil}, scen{luaFile, 3, 2, true, true, false, 0, 0, nil})
	// dimension audit: the edge file plain / with replaceHashTag / bidirectional, more workers than entries over a pipe of 1,
	// MaxProtoBulkLen small (restore on, but the long value is expanded)
	scens = append(scens, scen{edgeFile, 2, 1024, false, false, false, 0, 0, nil}, scen{edgeFile, 3, 1, false, false, true, 0, 0, nil},
		scen{edgeFile, 8, 1, true, false, false, 0, 0, nil}, scen{edgeFile, 1, 2, true, false, true, 0, 0, nil}, scen{edgeFile, 16, 1, false, false, true, 24, 0, nil})
	// ... every database replayed into TargetDb 2; database 3 on the dbBlacklist (its entries are counted as filtered, the
	// others must still all be there); both, bidirectional
	scens = append(scens, scen{f: edgeFile, par: 2, ps: 2, tdb: 3}, scen{f: edgeFile, par: 3, ps: 1, fdb: []int{3}}, scen{f: files[0], par: 2, ps: 1, bis: true, tdb: 1, fdb: []int{1}})
	for si, sc := range scens {
		f, par, ps, bis := sc.f, sc.par, sc.ps, sc.bis
		data := f.bytes()
		o := vfC04DefaultOpts()
		o.Parallel, o.PipeSize, o.Bisync, o.Cluster = par, ps, bis, sc.cluster
		o.HashTag, o.MaxBulk, o.TDB, o.FDB = sc.ht, sc.mb, sc.tdb, sc.fdb
		o.Restore = si%2 == 0 || sc.mb > 0
		o.Resume = si%3 != 1 // in-memory checkpoint in a third of the scenarios
		o.Lua = string(f.Opts.Lua)
		o.Pol = vfC04Pols[(si/2)%len(vfC04Pols)]
		tie := true // cluster scenarios are tied through the global-lane instance of the event system (c04fang)
		mark("clean " + o.String())
		clean := vfC04Send(t, f.KVs, data, int64(len(data)), o)
		vfC04Monitor(s, "clean", f.Name, data, o, clean)
		if tie {
			s.Op(vfC04FanOp(data, o, "clean")+" mult=1", vfC04ResTokM(clean, clean.KeyReqs))
		}
		if clean.Err != nil || !clean.Cp || !clean.AllApplied {
			s.Violate("clean-run-failed", fmt.Sprintf("intact snapshot: err=%v cp=%v all=%v missing=%q", clean.Err, clean.Cp, clean.AllApplied, clean.Missing),
				map[string]interface{}{"scenario": "clean", "file": f.Name, "rdb": vfutil.Hex(data), "opts": o.String()})
			continue
		}
		s.Count("fan_clean")
		nData := clean.NReq
		if o.Resume {
			nData-- // the last request is the checkpoint HSET (its own connection)
		}
		oc := o
		oc.Cancel0 = true
		mark("cancel0 " + oc.String())
		r := vfC04Send(t, f.KVs, data, int64(len(data)), oc)
		vfC04Monitor(s, "cancel-before-start", f.Name, data, oc, r)
		if tie {
			s.Op(vfC04FanOp(data, o, "cancel0")+" mult=1", vfC04ResTokM(r, clean.KeyReqs))
		}
		for k := 0; k < nData; k++ {
			// target error at request k (single shot; EXEC included)
			of := o
			of.FailAt = k
			of.Msg = k + si
			mark("fail " + of.String())
			r := vfC04Send(t, f.KVs, data, int64(len(data)), of)
			vfC04Monitor(s, "target-error", f.Name, data, of, r)
			if tie {
				s.Op(vfC04FanOp(data, o, fmt.Sprintf("fail:%d", k))+" mult=1", vfC04ResTokM(r, clean.KeyReqs))
			}
			s.Count("fan_fail")
			// the target fails from request k on, for good
			op := o
			op.FailFrom = k + 1
			mark("failFrom " + op.String())
			r = vfC04Send(t, f.KVs, data, int64(len(data)), op)
			vfC04Monitor(s, "target-error-persistent", f.Name, data, op, r)
			if r.Err == nil {
				s.Count("viol_persistent-failure-reported-ok")
				s.Violate("persistent-failure-reported-ok", fmt.Sprintf("every request from #%d on failed, SendRdb returned nil", k),
					map[string]interface{}{"scenario": "target-error-persistent", "file": f.Name, "rdb": vfutil.Hex(data), "opts": op.String()})
			}
			s.Count("fan_fail_persistent")
			if bis {
				// a command failing at execution time, inside the EXEC reply
				oi := o
				oi.FailInner = k + 1
				oi.Msg = k + si
				mark("failInner " + oi.String())
				r = vfC04Send(t, f.KVs, data, int64(len(data)), oi)
				vfC04Monitor(s, "target-error-inside-exec", f.Name, data, oi, r)
				s.Count("fan_fail_inner")
			}
			if vfutil.Thorough() || (k+int(vfutil.Seed()))%2 == 0 {
				// the target drops the connection that sends request k (no reply; the other connections live on)
				od := o
				od.DropAt = k + 1
				mark("drop " + od.String())
				r = vfC04Send(t, f.KVs, data, int64(len(data)), od)
				vfC04Monitor(s, "connection-dropped", f.Name, data, od, r)
				s.Count("fan_drop_conn")
			}
			if vfutil.Thorough() || (k+int(vfutil.Seed()))%2 == 0 {
				oc := o
				oc.CancelAt = k
				mark("cancelAt " + oc.String())
				r = vfC04Send(t, f.KVs, data, int64(len(data)), oc)
				vfC04Monitor(s, "cancel-at-request", f.Name, data, oc, r)
				s.Count("fan_cancel_at")
			}
			// the D6 window: hold request k, let everything else finish, cancel, release
			for rep := 0; rep < reps; rep++ {
				oh := o
				oh.HoldAt = k
				mark("hold " + oh.String())
				r = vfC04Send(t, f.KVs, data, int64(len(data)), oh)
				vfC04Monitor(s, "cancel-while-worker-holds-queue", f.Name, data, oh, r)
				if rep == 0 && tie {
					s.Op(vfC04FanOp(data, o, fmt.Sprintf("hold:%d:0", k%par))+" mult=1", vfC04ResTokM(r, clean.KeyReqs))
				}
				s.Count("fan_hold_cancel")
			}
			// the same hold WITHOUT cancellation: the slow worker must be waited for
			oh := o
			oh.HoldAt, oh.NoCancel = k, true
			mark("holdNoCancel " + oh.String())
			r = vfC04Send(t, f.KVs, data, int64(len(data)), oh)
			vfC04Monitor(s, "slow-worker", f.Name, data, oh, r)
			if r.Err != nil || !r.AllApplied {
				s.Count("viol_slow-worker-not-awaited")
				s.Violate("slow-worker-not-awaited", fmt.Sprintf("a worker held inside request #%d and released: err=%v all=%v missing=%q", k, r.Err, r.AllApplied, r.Missing),
					map[string]interface{}{"scenario": "slow-worker", "file": f.Name, "rdb": vfutil.Hex(data), "opts": oh.String()})
			}
			s.Count("fan_hold_nocancel")
			s.Distinct(fmt.Sprintf("fan/%s/%d/%d/%v/%v/%d", f.Name, par, ps, bis, sc.cluster, k))
		}
		if o.Resume {
			// dimension audit: the FINAL CHECKPOINT WRITE itself refused — once (setCheckpoint retries) and for good. Every entry is
			// applied; what must hold: no checkpoint counted that the target refused (plain replay: the record on the target is
			// the resume position; bidirectional replay keeps one more in memory, set before the write — counted only)
			oc := o
			oc.FailAt, oc.Msg = nData, si
			mark("cpFail " + oc.String())
			r := vfC04Send(t, f.KVs, data, int64(len(data)), oc)
			vfC04Monitor(s, "checkpoint-write-refused-once", f.Name, data, oc, r)
			s.Count("fan_checkpoint_write_refused_once")
			if r.Err == nil && r.Cp {
				s.Count("observed_checkpoint_write_retried_and_recorded")
			}
			op := o
			op.FailFrom = nData + 1
			mark("cpFailFrom " + op.String())
			r = vfC04Send(t, f.KVs, data, int64(len(data)), op)
			vfC04Monitor(s, "checkpoint-write-refused-for-good", f.Name, data, op, r)
			s.Count("fan_checkpoint_write_refused_for_good")
			if r.Cp && !bis {
				s.Count("viol_checkpoint-counted-though-refused")
				s.Violate("checkpoint-counted-though-refused", "every checkpoint write was refused by the target, yet a checkpoint for the snapshot's offset exists",
					map[string]interface{}{"scenario": "checkpoint-write-refused-for-good", "file": f.Name, "rdb": vfutil.Hex(data), "opts": op.String()})
			}
			if r.Err == nil {
				s.Count("observed_replay_returned_nil_without_a_checkpoint")
			} else {
				s.Count("observed_checkpoint_failure_reported")
			}
		}
	}

	phase("3f")
	// ------------------------------------------------ 3f. dimension audit: the FUNCTION LOAD path (and whatever else Redis-produced
	// snapshots hold: quicklists, listpack containers, streams with groups) under a target error at EVERY request, every reply
	// family in rotation. The data set is not known to the monitor: a replay that returns nil (or writes the checkpoint) must have
	// executed every request the undisturbed replay of that file executes.
	{
		picked, withFn := 0, 0
		for fi, data := range vfC04Fixtures() {
			if len(data) > vfutil.Scale(700, 2000) {
				continue
			}
			for _, bis := range []bool{false, true} {
				o := vfC04DefaultOpts()
				o.Parallel, o.PipeSize, o.Bisync, o.Restore = 1+fi%3, []int{1024, 1, 2}[fi%3], bis, fi%2 == 0
				mark(fmt.Sprintf("fixture-fault clean %d", fi))
				clean := vfC04Send(t, nil, data, int64(len(data)), o)
				vfC04CfgCount(s, o)
				if clean.Hang != "" || clean.Err != nil || !clean.Cp {
					s.Count("fixture_fault_not_replayable_on_the_double")
					continue
				}
				fn := false
				for c := range clean.AllReqs {
					if strings.HasPrefix(c, "function") {
						fn = true
					}
				}
				if fn {
					s.Count("fixture_fault_files_with_function_load")
					withFn++
				}
				s.Count("fixture_fault_files")
				nData := clean.NReq - 1
				for k := 0; k < nData; k++ {
					of := o
					of.FailAt, of.Msg = k, k+fi
					mark(fmt.Sprintf("fixture-fault %d %d", fi, k))
					r := vfC04Send(t, nil, data, int64(len(data)), of)
					vfC04CfgCount(s, of)
					s.Count("fixture_fault_points")
					if fn && strings.HasPrefix(r.FailCmd, "function") {
						s.Count("fixture_fault_at_function_load")
					}
					rp := map[string]interface{}{"scenario": "fixture-target-error", "file": "foreign", "rdb": vfutil.Hex(data), "opts": of.String()}
					if r.Hang != "" {
						s.Count("viol_hang")
						s.Violate("hang", "fixture-target-error: SendRdb did not return: "+r.Hang, rp)
						continue
					}
					var missing []string
					for c, n := range clean.AllReqs {
						if r.AllReqs[c] < n {
							missing = append(missing, c)
						}
					}
					if len(missing) > 0 {
						s.Count("incomplete_replays")
						if len(missing) > 3 {
							missing = missing[:3]
						}
						if r.Err == nil {
							s.Count("viol_incomplete-reported-ok")
							s.Violate("incomplete-reported-ok", fmt.Sprintf("fixture-target-error: request #%d (%s) refused; requests of the undisturbed replay not executed (%q …) but SendRdb returned nil (checkpoint=%v)", k, r.FailCmd, missing, r.Cp), rp)
						}
						if r.Cp {
							s.Count("viol_incomplete-checkpointed")
							s.Violate("incomplete-checkpointed", fmt.Sprintf("fixture-target-error: request #%d (%s) refused; requests of the undisturbed replay not executed (%q …) but the resume position was advanced (err=%v)", k, r.FailCmd, missing, r.Err), rp)
						}
					} else {
						s.Count("complete_replays")
					}
				}
			}
			picked++
		}
	}

	phase("3b")
	// ------------------------------------------------ 3b. a value of 260 commands (pipelined, flushed every 100): faults inside
	// and at the edges of every batch — error reply, persistent failure, dropped connection, failure inside EXEC
	{
		f := vfC04BigFile()
		data := f.bytes()
		for bi, par := range []int{1, 2} {
			for _, bis := range []bool{false, true} {
				o := vfC04DefaultOpts()
				o.Parallel, o.Bisync, o.Restore = par, bis, false
				o.Resume = bi == 0
				mark("big clean " + o.String())
				clean := vfC04Send(t, f.KVs, data, int64(len(data)), o)
				vfC04Monitor(s, "clean", f.Name, data, o, clean)
				if clean.Err != nil || !clean.Cp || !clean.AllApplied {
					s.Violate("clean-run-failed", fmt.Sprintf("intact snapshot: err=%v cp=%v all=%v missing=%q", clean.Err, clean.Cp, clean.AllApplied, clean.Missing),
						map[string]interface{}{"scenario": "clean", "file": f.Name, "rdb": vfutil.Hex(data), "opts": o.String()})
					continue
				}
				s.Count("fan_clean")
				nData := clean.NReq
				if o.Resume {
					nData--
				}
				ks := map[int]bool{}
				for _, k := range []int{0, 1, 2, 3, 4, 50, 99, 100, 101, 102, 103, 104, 150, 199, 200, 201, 202, 203, 204, 259, 260, 261, 262, 263, nData - 3, nData - 2, nData - 1} {
					ks[k] = true
				}
				pr := vfutil.NewRand(vfutil.Seed()*7919 + uint64(bi))
				for i := 0; i < vfutil.Scale(8, 60); i++ {
					ks[pr.Intn(nData)] = true
				}
				for k := 0; k < nData; k++ {
					if !ks[k] {
						continue
					}
					of := o
					of.FailAt, of.Msg = k, k
					mark("big fail " + of.String())
					r := vfC04Send(t, f.KVs, data, int64(len(data)), of)
					vfC04Monitor(s, "target-error", f.Name, data, of, r)
					// the same single-shot error (the target is healthy again afterwards) with a reply of one of the "temporarily
					// unavailable" families, under every keyExists policy: a half-written value must never count as applied
					for pi, pol := range vfC04Pols {
						of := o
						of.Pol = pol
						of.FailAt, of.Msg = k, 4+(k+pi+int(vfutil.Seed()))%(len(vfC04FailMsgs)-4)
						mark("big fail family " + of.String())
						r := vfC04Send(t, f.KVs, data, int64(len(data)), of)
						vfC04Monitor(s, "target-error-family", f.Name, data, of, r)
						s.Count("fan_big_value_family_points")
					}
					op := o
					op.FailFrom = k + 1
					r = vfC04Send(t, f.KVs, data, int64(len(data)), op)
					vfC04Monitor(s, "target-error-persistent", f.Name, data, op, r)
					if r.Err == nil {
						s.Count("viol_persistent-failure-reported-ok")
						s.Violate("persistent-failure-reported-ok", fmt.Sprintf("every request from #%d on failed, SendRdb returned nil", k),
							map[string]interface{}{"scenario": "target-error-persistent", "file": f.Name, "rdb": vfutil.Hex(data), "opts": op.String()})
					}
					od := o
					od.DropAt = k + 1
					mark("big drop " + od.String())
					r = vfC04Send(t, f.KVs, data, int64(len(data)), od)
					vfC04Monitor(s, "connection-dropped", f.Name, data, od, r)
					if bis {
						oi := o
						oi.FailInner, oi.Msg = k+1, k
						r = vfC04Send(t, f.KVs, data, int64(len(data)), oi)
						vfC04Monitor(s, "target-error-inside-exec", f.Name, data, oi, r)
					}
					s.Count("fan_big_value_points")
				}
			}
		}
	}

	phase("3c")
	// ------------------------------------------------ 3c. what a length field can make the readers ALLOCATE (Model/RdbAlloc,
	// theorem alloc_bounded_partial): the real ReadBytes / LZF string reader in the worker child (a version that trusts the
	// field enough dies there: `oom`). Tie: ok/err and, on success, the length. Monitors (the property's bound, not the
	// implementation's exact numbers): len ≤ avail + step, cap ≤ 2·(avail + step), bytes allocated ≤ 8·(avail + step) + 16 MiB;
	// LZF: bytes allocated ≤ 1024·(compressed bytes) + 8 MiB.
	{
		step := int64(rdb.VerifReadBytesStep)
		type na struct{ n, avail int64 }
		cases := []na{{0, 0}, {1, 0}, {10, 3}, {10, 10}, {1000, 999}, {1000, 5000}, {step, 10}, {step + 5, 10}, {1 << 40, 10},
			{step + 5, step + 5}, {2*step + 1, step + 3}, {1 << 62, 0},
			// lengths between one step and 4 GiB over a nearly empty source: a regression here does not kill the child
			{100 << 20, 10}, {512 << 20, 7}, {1<<30 - 1, 10}, {3 << 30, 100}, {1<<32 - 1, 0}}
		for i := 0; i < 6; i++ {
			cases = append(cases, na{int64(rnd.Intn(5000)), int64(rnd.Intn(5000))})
		}
		cases = append(cases, na{step + int64(rnd.Intn(1<<30)), int64(rnd.Intn(100))})
		for _, c := range cases {
			mark(fmt.Sprintf("alloc %d %d", c.n, c.avail))
			o := vfC04DefaultOpts()
			o.PipeSize = int(c.avail)
			rp, died, tail := vfC04W.call(vfC04Req{Kind: "alloc", Size: c.n, Opts: o})
			rpl := map[string]interface{}{"scenario": "alloc", "n": c.n, "avail": c.avail}
			if died != "" {
				s.Count("viol_" + died)
				s.Violate(died, fmt.Sprintf("ReadBytes(%d) over a source of %d bytes: the process dies (%s)", c.n, c.avail, tail), rpl)
				continue
			}
			var ln, cp, delta int64
			var okS string
			fmt.Sscanf(rp.Tok, "%d %s %d %d", &ln, &okS, &cp, &delta)
			if okS == "ok" {
				s.Op(fmt.Sprintf("c04alloc %d %d %d", step, c.n, c.avail), fmt.Sprintf("%d ok", ln))
			} else {
				s.Op(fmt.Sprintf("c04alloc %d %d %d", step, c.n, c.avail), "err")
			}
			if ln > c.avail+step || cp > 2*(c.avail+step) || delta > 8*(c.avail+step)+(16<<20) {
				s.Count("viol_alloc-unbounded")
				s.Violate("alloc-unbounded", fmt.Sprintf("ReadBytes(%d) over a source of %d bytes: len %d, cap %d, %d bytes allocated — "+
					"more than the bytes present (+ the %d-byte step) justify", c.n, c.avail, ln, cp, delta, step), rpl)
			}
			s.Count("alloc_points")
		}
		for _, c := range []na{{40, 5}, {1320, 5}, {1321, 5}, {1 << 31, 5}, {1<<32 - 1, 100}, {0, 0}, {1, 0},
			{int64(rnd.Intn(3000)), int64(rnd.Intn(12))}, {1<<32 - 1, 16268816}} {
			mark(fmt.Sprintf("lzf %d %d", c.n, c.avail))
			if c.n >= 1<<32-1 && c.avail > 1<<20 {
				vfC04W.stop() // the largest allocation LZF allows: judged in a worker that holds nothing else
			}
			o := vfC04DefaultOpts()
			o.PipeSize = int(c.avail)
			rp, died, tail := vfC04W.call(vfC04Req{Kind: "lzf", Size: c.n, Opts: o})
			rpl := map[string]interface{}{"scenario": "lzf", "outlen": c.n, "inlen": c.avail}
			if died != "" {
				s.Count("viol_" + died)
				s.Violate(died, fmt.Sprintf("LZF string with declared length %d over %d compressed bytes: the process dies (%s)", c.n, c.avail, tail), rpl)
				continue
			}
			var okS string
			var delta int64
			fmt.Sscanf(rp.Tok, "%s %d", &okS, &delta)
			if delta > 1024*c.avail+(8<<20) {
				s.Count("viol_alloc-unbounded")
				s.Violate("alloc-unbounded", fmt.Sprintf("LZF string, declared length %d, %d compressed bytes: %d bytes allocated", c.n, c.avail, delta), rpl)
			}
			if delta > 1<<30 {
				s.Count("observed_lzf_single_allocation_over_1GiB_from_16MB_of_input")
			}
			s.Count("alloc_points")
		}
	}

	// ------------------------------------------------ x. session 4: extended grammar, LZF buffer, split values (vf_c04x_test.go)
	vfC04Extended(t, s, mark, rnd, maxVer, phase)

	// ------------------------------------------------ s. session 5: enumerated schedules, multiplicity, a later replay beside an
	// aborted one (vf_c04s_test.go)
	vfC04Session5(t, s, mark, phase)

	phase("4")
	// ------------------------------------------------ 4. thorough: many generated files, random positions
	if vfutil.Thorough() {
		for i := 0; i < 200; i++ {
			c := vfc20.GenCase(rnd.Fork(), "wplain", 2)
			kvs := c.KVList()
			var keep []vfc20.KV
			for _, kv := range kvs {
				if kv.Type != 3 && kv.ExpireAt != 1000 { // text-float zsets are outside the frame model; past expiries vanish
					keep = append(keep, kv)
				}
			}
			if len(keep) == 0 {
				continue
			}
			data := vfc20.BuildRDB(keep, vfc20.Opts{Aux: i%2 == 0, ResizeDB: i%3 == 0})
			var toks []string
			for k := 0; k <= len(data); k++ {
				sup, risky := vfc20.Classify(data[:k])
				tok := vfC04ParseGuarded(s, data[:k], risky)
				if k < len(data) && strings.HasPrefix(tok, "d") {
					s.Violate("truncation-accepted", fmt.Sprintf("generated file cut at %d parses to Done", k), map[string]interface{}{"rdb": vfutil.Hex(data[:k])})
				}
				if !sup {
					tok = "u"
				}
				toks = append(toks, tok)
			}
			s.Op(fmt.Sprintf("c04trunc %d %s", maxVer, vfutil.Hex(data)), strings.Join(toks, ","))
			for j := 0; j < 40; j++ {
				pos := rnd.Intn(len(data))
				g := append([]byte(nil), data...)
				g[pos] ^= byte(rnd.Range(1, 255))
				sup, risky := vfc20.Classify(g)
				tok := vfC04ParseGuarded(s, g, risky)
				if strings.HasPrefix(tok, "!") {
					continue
				}
				if !sup {
					tok = "u"
				}
				s.Op(fmt.Sprintf("c04parse %d %s", maxVer, vfutil.Hex(g)), tok)
				if !risky {
					o := pick(ci)
					ci++
					mark("thorough send")
					r := vfC04SendD("send", keep, g, int64(len(g)), o)
					vfC04Monitor(s, "send-altered", "generated", g, o, r)
				}
			}
		}
	}
}
