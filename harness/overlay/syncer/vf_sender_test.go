//go:build verif

package syncer

// Correspondence + monitors for the incremental replay core (C01, C02, C07, C09).
// The real RedisOutput.sendAof (parser goroutine + sender loop + real
// conn.RedisConn batchers) runs inside a testing/synctest bubble against the
// target double; the event schedule (writes at chosen virtual instants, three
// ticker periods) determines the order in which the loop sees items and ticks.

import (
	"bufio"
	"bytes"
	"context"
	"fmt"
	"io"
	"os"
	"sort"
	"strconv"
	"strings"
	"sync"
	"sync/atomic"
	"testing"
	"testing/synctest"
	"time"

	"github.com/mgtv-tech/redis-GunYu/config"
	"github.com/mgtv-tech/redis-GunYu/pkg/redis/checkpoint"
	"github.com/mgtv-tech/redis-GunYu/pkg/redis/client"
	"github.com/mgtv-tech/redis-GunYu/pkg/redis/client/conn"
	"github.com/mgtv-tech/redis-GunYu/pkg/vfdoubles"
	"github.com/mgtv-tech/redis-GunYu/pkg/vfutil"
)

type vfSCase struct {
	txn, resume, pipeline bool
	bc                    uint
	bb                    uint64
	tdb                   int
	dbMap                 map[int]int
	sdb                   int
	start                 int64
	fdb                   []int
	fcmd                  []string
	fpre                  []string
	fwl                   []string
	perB, perK, perC      int // µs
	init                  map[int]int64 // db -> offset already stored for rid
	lat                   int           // µs of virtual time the target takes per request (monitors only: not in the op line, not compared with the model)
	prev                  map[int]int64 // db -> offset stored under the PREVIOUS run id (vfPrevId): StartPoint is asked with [rid, previous id] and must merge them (two-id lookup of GetCheckpoint)
	delayKey              string        // SyncDelayTestKey (non-default option read by the parser): SET <key> <host>_<ns> feeds the delay gauge only
	othName               bool          // a checkpoint hash of ANOTHER NAME (another syncer's) with this run id and a larger offset in a database: invisible
	grid                  int           // dimension audit: index into the forced cross product (-1: none)
	oth                   []string      // foreign records on the target: <db>:<run id>:<offset> (another id, possibly with rid as prefix)
	raw                   [][][]byte
	evs                   []vfSEv
	cp, rid               string
	cancelAt              int         // µs (monitors only, latency cases): the run's context is cancelled at this virtual instant
	reqT                  map[int]int // filled by vfRunSend: virtual µs at which request #i of the run reached the target
}

type vfSEv struct {
	t     int  // µs
	n     int  // commands written (write event)
	close bool
}

func vfEncodeCmd(args [][]byte) []byte {
	var b bytes.Buffer
	b.WriteString("*" + strconv.Itoa(len(args)) + "\r\n")
	for _, a := range args {
		b.WriteString("$" + strconv.Itoa(len(a)) + "\r\n")
		b.Write(a)
		b.WriteString("\r\n")
	}
	return b.Bytes()
}

func (c *vfSCase) opLine(tag int, ks []int) string {
	var sb strings.Builder
	b2s := func(b bool) string {
		if b {
			return "1"
		}
		return "0"
	}
	fmt.Fprintf(&sb, "send tag=%d txn=%s resume=%s pl=%s bc=%d bb=%d tdb=%d", tag, b2s(c.txn), b2s(c.resume), b2s(c.pipeline), c.bc, c.bb, c.tdb)
	var mp []string
	var mk []int
	for k := range c.dbMap {
		mk = append(mk, k)
	}
	sort.Ints(mk)
	for _, k := range mk {
		mp = append(mp, fmt.Sprintf("%d:%d", k, c.dbMap[k]))
	}
	join := func(xs []string) string {
		if len(xs) == 0 {
			return "-"
		}
		return strings.Join(xs, ",")
	}
	fmt.Fprintf(&sb, " map=%s sdb=%d start=%d", join(mp), c.sdb, c.start)
	var fdb []string
	for _, d := range c.fdb {
		fdb = append(fdb, strconv.Itoa(d))
	}
	hexs := func(xs []string) []string {
		var o []string
		for _, x := range xs {
			o = append(o, vfutil.HexS(x))
		}
		return o
	}
	var lc []string
	for _, x := range c.fcmd {
		lc = append(lc, strings.ToLower(x))
	}
	fmt.Fprintf(&sb, " fdb=%s fcmd=%s fpre=%s fwl=%s", join(fdb), join(hexs(lc)), join(hexs(c.fpre)), join(hexs(c.fwl)))
	fmt.Fprintf(&sb, " cp=%s rid=%s ver=%s per=%d:%d:%d", vfutil.HexS(c.cp), vfutil.HexS(c.rid), vfutil.HexS(config.Version), c.perB, c.perK, c.perC)
	// init= is the MERGED view the model starts from (per database the current id's record, else the
	// previous id's); prev= repeats the previous id's records so that a replay can seed them apart
	var in []string
	var ik []int
	merged := map[int]int64{}
	for d, o := range c.prev {
		merged[d] = o
	}
	for d, o := range c.init {
		merged[d] = o
	}
	for d := range merged {
		ik = append(ik, d)
	}
	sort.Ints(ik)
	for _, d := range ik {
		in = append(in, fmt.Sprintf("%d:%d", d, merged[d]))
	}
	fmt.Fprintf(&sb, " init=%s", join(in))
	if len(c.prev) > 0 {
		var pv []string
		var pk []int
		for d := range c.prev {
			pk = append(pk, d)
		}
		sort.Ints(pk)
		for _, d := range pk {
			pv = append(pv, fmt.Sprintf("%d:%d", d, c.prev[d]))
		}
		fmt.Fprintf(&sb, " prev=%s", join(pv))
	}
	if c.lat > 0 { // latency cases are never sent to the model; the token makes their replay files re-runnable
		fmt.Fprintf(&sb, " lat=%d", c.lat)
	}
	if c.cancelAt > 0 {
		fmt.Fprintf(&sb, " cancel=%d", c.cancelAt)
	}
	if c.delayKey != "" { // ignored by the model: the option only feeds a gauge
		fmt.Fprintf(&sb, " sdk=%s", vfutil.HexS(c.delayKey))
	}
	if c.othName { // ignored by the model: a checkpoint of another NAME must be invisible
		fmt.Fprintf(&sb, " othn=1")
	}
	if len(c.oth) > 0 { // ignored by the model: records of other run ids must be invisible
		fmt.Fprintf(&sb, " oth=%s", strings.Join(c.oth, ","))
	}
	var raws []string
	for _, cmd := range c.raw {
		var as []string
		for _, a := range cmd {
			as = append(as, vfutil.Hex(a))
		}
		raws = append(raws, strings.Join(as, "."))
	}
	rs := "-"
	if len(raws) > 0 {
		rs = strings.Join(raws, ";")
	}
	fmt.Fprintf(&sb, " raw=%s", rs)
	var es []string
	for _, e := range c.evs {
		if e.close {
			es = append(es, fmt.Sprintf("c%d", e.t))
		} else {
			es = append(es, fmt.Sprintf("w%d:%d", e.t, e.n))
		}
	}
	fmt.Fprintf(&sb, " ev=%s", join(es))
	var kss []string
	for _, k := range ks {
		kss = append(kss, strconv.Itoa(k))
	}
	fmt.Fprintf(&sb, " ks=%s", join(kss))
	return sb.String()
}

func (c *vfSCase) outputCfg() RedisOutputConfig {
	cfg := RedisOutputConfig{
		InputName:                  "vf",
		CheckpointName:             c.cp,
		RunId:                      c.rid,
		CanTransaction:             c.txn,
		EnableResumeFromBreakPoint: c.resume,
		TargetDb:                   c.tdb,
		TargetDbMap:                c.dbMap,
		BatchCmdCount:              c.bc,
		BatchBufferSize:            c.bb,
		BatchTicker:                time.Duration(c.perB) * time.Microsecond,
		KeepaliveTicker:            time.Duration(c.perK) * time.Microsecond,
		UpdateCheckpointTicker:     time.Duration(c.perC) * time.Microsecond,
		ReplayPipeline:             c.pipeline,
		SyncDelayTestKey:           c.delayKey,
		ReplayRdbParallel:          1,
		Stats:                      config.OutputStats{DisableLog: true},
	}
	cfg.Redis.Type = config.RedisTypeStandalone
	cfg.Redis.Otype = config.RedisTypeStandalone
	cfg.Redis.Addresses = config.SliceString{"double:0"}
	cfg.Filter.DbBlacklist = c.fdb
	cfg.Filter.CmdBlacklist = c.fcmd
	if len(c.fpre) > 0 || len(c.fwl) > 0 {
		cfg.Filter.KeyFilter = &config.FilterKeyConfig{PrefixKeyBlacklist: c.fpre, PrefixKeyWhitelist: c.fwl}
	}
	return cfg
}

// vfPrevId is the id the source had before its last fail-over (master_replid2), same length as rid.
func vfPrevId(c *vfSCase) string { return "rip" + c.rid[3:] }

// ids are the run ids StartPoint is asked with: [current] or [current, previous]
func (c *vfSCase) ids() []string {
	if len(c.prev) > 0 {
		return []string{c.rid, vfPrevId(c)}
	}
	return []string{c.rid}
}

func vfNewOutput(c *vfSCase, tg *vfdoubles.Target) *RedisOutput {
	ro := NewRedisOutput(c.outputCfg())
	rc := ro.cfg.Redis
	ro.newRedisConn = func(ctx context.Context) (client.Redis, error) {
		return conn.VerifNewRedisConn(tg.Dial(), rc), nil
	}
	return ro
}

func vfSeedTarget(c *vfSCase) *vfdoubles.Target {
	tg := vfdoubles.NewTarget()
	tg.Lenient = true
	for db, off := range c.prev {
		// the previous id's record: created before the current id's fields (HGETALL order), older mtime
		pid := vfPrevId(c)
		tg.Seed(db, "hset", c.cp, pid+"_mtime", strconv.FormatInt(1600000000000000000+int64(db), 10), pid+"_runid", pid, pid+"_version", config.Version, pid+"_offset", strconv.FormatInt(off, 10))
	}
	for db, off := range c.init {
		// as checkpoint.SetCheckpoint writes it (end of a full sync / UpdateCheckpoint): with an mtime
		tg.Seed(db, "hset", c.cp, c.rid+"_mtime", strconv.FormatInt(1700000000000000000+int64(db), 10), c.rid+"_runid", c.rid, c.rid+"_version", config.Version, c.rid+"_offset", strconv.FormatInt(off, 10))
	}
	if c.othName {
		// another syncer's checkpoint (another NAME) for the same source id, far ahead, plus the index hash entries
		for db := 0; db < 2; db++ {
			tg.Seed(db, "hset", c.cp+"-other", c.rid+"_mtime", "1700000000000000777", c.rid+"_runid", c.rid, c.rid+"_version", config.Version, c.rid+"_offset", strconv.FormatInt(c.start+777777+int64(db), 10))
		}
		tg.Seed(0, "hset", config.CheckpointKeyHashKey, "rio"+c.rid[3:], c.cp+"-other")
		// a non-empty database that holds data but no checkpoint hash (INFO keyspace lists it, fetchCheckpoint finds nothing)
		tg.Seed(5, "set", "some-client-key", "v")
	}
	for _, o := range c.oth {
		f := strings.Split(o, ":")
		db, _ := strconv.Atoi(f[0])
		tg.Seed(db, "hset", c.cp, f[1]+"_mtime", "1700000000000000999", f[1]+"_runid", f[1], f[1]+"_version", config.Version, f[1]+"_offset", f[2])
	}
	return tg
}

// vfRunSend runs the real sendAof under virtual time and returns the request
// log (without the seed requests).
func vfRunSend(t *testing.T, c *vfSCase, tg *vfdoubles.Target, startDb int, start int64, stream []byte, evs []vfSEv, cmdEnds []int) ([]vfdoubles.LogEntry, *RedisOutput) {
	nSeed := tg.LogLen()
	var ro *RedisOutput
	synctest.Test(t, func(t *testing.T) {
		ro = vfNewOutput(c, tg)
		ro.startDbId = startDb
		if !c.resume {
			// what setCheckpoint leaves at the end of the full sync that precedes the stream
			ro.checkpointInMem = checkpoint.CheckpointInfo{Key: c.cp, RunId: c.rid, Offset: start, Version: config.Version}
		}
		var latOff atomic.Bool
		t0 := time.Now()
		var tmu sync.Mutex
		c.reqT = map[int]int{}
		lat := time.Duration(c.lat) * time.Microsecond
		// a slow target behind a SOCKET: what the pipelined sender writes piles up in the receive buffer, the
		// sender can be any number of batches ahead (a bare net.Pipe lets it be one write ahead only)
		tg.SockBuf = c.lat > 0 && c.pipeline
		defer func() { tg.SockBuf = false }()
		tg.Hook = func(idx int, _ vfdoubles.LogEntry) {
			tmu.Lock()
			c.reqT[idx-nSeed] = int(time.Since(t0) / time.Microsecond)
			tmu.Unlock()
			if lat > 0 && !latOff.Load() {
				time.Sleep(lat)
			}
		}
		defer func() { tg.Hook = nil }()
		ctx, cancel := context.WithCancel(context.Background())
		defer cancel()
		if c.cancelAt > 0 {
			stopCancel := make(chan struct{})
			defer close(stopCancel)
			go func() {
				select {
				case <-time.After(time.Duration(c.cancelAt) * time.Microsecond):
					cancel()
				case <-stopCancel:
				}
			}()
		}
		pr, pw := io.Pipe()
		done := make(chan error, 1)
		go func() {
			done <- ro.sendAof(ctx, c.rid, bufio.NewReaderSize(pr, 4096), start, -1)
		}()
		schedDone := make(chan struct{})
		go func() {
			defer close(schedDone)
			now := 0
			pos := 0
			ci := 0
			for _, e := range evs {
				time.Sleep(time.Duration(e.t-now) * time.Microsecond)
				now = e.t
				if e.close {
					pw.Close()
					return
				}
				end := pos
				if ci+e.n-1 < len(cmdEnds) && e.n > 0 {
					end = cmdEnds[ci+e.n-1]
				}
				ci += e.n
				if end > pos {
					pw.Write(stream[pos:end])
					pos = end
				}
			}
			pw.Close()
		}()
		err := <-done
		if os.Getenv("VERIF_DEBUG") != "" {
			fmt.Printf("VFDEBUG sendAof returned: %v at %v\n", err, time.Now())
		}
		pr.Close()
		<-schedDone
		synctest.Wait()
		tg.CloseAll()
		if c.lat > 0 {
			// let the double's connection goroutines that still sleep in the latency hook finish
			latOff.Store(true)
			time.Sleep(time.Duration(c.lat)*time.Microsecond + time.Second)
			synctest.Wait()
		}
	})
	log := tg.LogCopy()
	return log[nSeed:], ro
}

// vfRunResumed is the restart after a crash: a FRESH RedisOutput on the crashed
// target reads its start point with the real StartPoint (which also sets the
// database the run re-selects), and the real sendAof replays the source stream
// from that offset to its end, followed by a final close. It returns what
// StartPoint said and the requests of the resumed run; ok=false when there is
// no position to resume from inside the stream.
func vfRunResumed(t *testing.T, c *vfSCase, tk *vfdoubles.Target, start int64, stream []byte, boundary map[int64]bool) (sp StartPoint, log2 []vfdoubles.LogEntry, ok bool) {
	synctest.Test(t, func(t *testing.T) {
		ro := vfNewOutput(c, tk)
		var err error
		sp, err = ro.StartPoint(context.Background(), c.ids())
		if err != nil || sp.RunId == "?" || sp.Offset < start || sp.Offset > start+int64(len(stream)) || !boundary[sp.Offset] {
			tk.CloseAll()
			return
		}
		ok = true
		n0 := tk.LogLen()
		ctx, cancel := context.WithCancel(context.Background())
		defer cancel()
		pr, pw := io.Pipe()
		done := make(chan error, 1)
		go func() {
			done <- ro.sendAof(ctx, sp.RunId, bufio.NewReaderSize(pr, 4096), sp.Offset, -1)
		}()
		schedDone := make(chan struct{})
		go func() {
			defer close(schedDone)
			time.Sleep(time.Millisecond)
			if rest := stream[sp.Offset-start:]; len(rest) > 0 {
				pw.Write(rest)
			}
			time.Sleep(13 * time.Second) // every ticker fires at least once
			pw.Close()
		}()
		<-done
		pr.Close()
		<-schedDone
		synctest.Wait()
		tk.CloseAll()
		log2 = tk.LogCopy()[n0:]
	})
	return
}

// vfRunAgain is the second run on the SAME RedisOutput after the source connection came back:
// real StartPoint (in-memory position), then the real sendAof over the rest of the stream.
func vfRunAgain(t *testing.T, c *vfSCase, tg *vfdoubles.Target, ro *RedisOutput, start int64, stream []byte, boundary map[int64]bool) (sp StartPoint, log2 []vfdoubles.LogEntry, ok bool) {
	synctest.Test(t, func(t *testing.T) {
		var err error
		sp, err = ro.StartPoint(context.Background(), c.ids())
		if err != nil || sp.RunId == "?" || sp.Offset < start || sp.Offset > start+int64(len(stream)) || !boundary[sp.Offset] {
			return
		}
		ok = true
		n0 := tg.LogLen()
		ctx, cancel := context.WithCancel(context.Background())
		defer cancel()
		pr, pw := io.Pipe()
		done := make(chan error, 1)
		go func() {
			done <- ro.sendAof(ctx, sp.RunId, bufio.NewReaderSize(pr, 4096), sp.Offset, -1)
		}()
		schedDone := make(chan struct{})
		go func() {
			defer close(schedDone)
			time.Sleep(time.Millisecond)
			if rest := stream[sp.Offset-start:]; len(rest) > 0 {
				pw.Write(rest)
			}
			time.Sleep(13*time.Second + 500*time.Microsecond)
			pw.Close()
		}()
		<-done
		pr.Close()
		<-schedDone
		synctest.Wait()
		tg.CloseAll()
		log2 = tg.LogCopy()[n0:]
	})
	return
}

// vfRenderLog prints each request with the DB it executes in.
func vfRenderLog(tag int, log []vfdoubles.LogEntry) []string {
	cur := 0
	var out []string
	for _, e := range log {
		cmd := e.Cmd()
		switch cmd {
		case "select":
			out = append(out, fmt.Sprintf("#%d - %s", tag, e.String()))
			if len(e.Args) == 2 {
				if n, err := strconv.Atoi(string(e.Args[1])); err == nil {
					cur = n
				}
			}
		case "multi", "exec":
			out = append(out, fmt.Sprintf("#%d - %s", tag, cmd))
		default:
			out = append(out, fmt.Sprintf("#%d %d %s", tag, cur, e.String()))
		}
	}
	return out
}

// ---------------------------------------------------------------- independent oracle

type vfExpCmd struct {
	db   int
	args [][]byte // name lower-cased + args
	end  int64    // end offset in the source stream
	grp  int      // source transaction group id (0 = none)
}

var vfNoRoute = map[string]bool{}

func init() {
	for _, c := range []string{"CLUSTER", "ASKING", "READONLY", "READWRITE", "AUTH", "CLIENT", "QUIT", "RESET", "ECHO",
		"COMMAND", "FLUSHALL", "FLUSHDB", "LATENCY", "MODULE", "PSYNC", "REPLCONF", "SAVE", "SHUTDOWN", "SLAVEOF",
		"SLOWLOG", "SWAPDB", "SYNC", "BGSAVE", "BGREWRITEAOF", "OPINFO", "LASTSAVE", "MONITOR", "ROLE", "DEBUG",
		"RESTORE-ASKING", "MIGRATE", "WAIT", "PFSELFTEST", "PFDEBUG"} {
		vfNoRoute[strings.ToLower(c)] = true
	}
}

func vfKeyFiltered(c *vfSCase, k []byte) bool {
	for _, p := range append([]string{config.CheckpointKey, config.NamespacePrefixKey, "redis-gunyu-bisync:"}, c.fpre...) {
		if p != "" && bytes.HasPrefix(k, []byte(p)) {
			return true
		}
	}
	if len(c.fwl) > 0 {
		ok := false
		for _, p := range c.fwl {
			if p != "" && bytes.HasPrefix(k, []byte(p)) {
				ok = true
			}
		}
		if !ok {
			return true
		}
	}
	return false
}

func vfMapDb(c *vfSCase, src int) int {
	if c.tdb != -1 {
		return c.tdb
	}
	if t, ok := c.dbMap[src]; ok {
		return t
	}
	return src
}

// vfExpected: the documented transformation of the source stream: drop
// keep-alives, database switches, transaction brackets, administrative and
// configured-out commands and filtered keys; tag with the mapped database.
// srcDbAt[i] = mapped target DB in force after raw command i (or -2 unknown).
func vfExpected(c *vfSCase, startDb int, start int64, raw [][][]byte) (exp []vfExpCmd, ends []int64, dbAfter []int, grpAfter []int) {
	off := start
	srcSel := false
	srcDb := 0
	tgt := startDb
	if tgt < 0 {
		tgt = 0
	}
	bypass := false
	grp, curGrp := 0, 0
	for _, cmd := range raw {
		off += int64(len(vfEncodeCmd(cmd)))
		ends = append(ends, off)
		name := strings.ToLower(string(cmd[0]))
		args := cmd[1:]
		switch {
		case name == "ping":
		case name == "select":
			if len(args) != 1 {
				return // malformed: the parser stops, nothing after it is handed over
			}
			if _, err := strconv.Atoi(string(args[0])); err != nil {
				return
			}
			if len(args) == 1 {
				if n, err := strconv.Atoi(string(args[0])); err == nil {
					srcSel = true
					srcDb = n
					bypass = false
					for _, d := range c.fdb {
						if d == n {
							bypass = true
						}
					}
					if !bypass {
						tgt = vfMapDb(c, n)
					}
				}
			}
		case name == "multi":
			// a source transaction is a group whatever database it starts in
			grp++
			curGrp = grp
		case name == "exec":
			curGrp = 0
		default:
			_ = srcSel
			_ = srcDb
			if bypass || vfNoRoute[name] {
				break
			}
			bl := false
			for _, b := range c.fcmd {
				if strings.ToLower(b) == name {
					bl = true
				}
			}
			if bl {
				break
			}
			if name == "publish" && len(args) > 0 && strings.ToLower(string(args[0])) == "__sentinel__:hello" {
				break
			}
			// keys
			var out [][]byte
			switch name {
			case "set", "get", "incr", "append", "rpush", "lpush", "sadd", "hset", "zadd", "expire", "pexpireat", "persist", "setex", "incrby":
				if len(args) > 0 && vfKeyFiltered(c, args[0]) {
					out = nil
				} else {
					out = args
				}
				if len(args) == 0 {
					out = args
				}
			case "del", "unlink":
				for _, k := range args {
					if !vfKeyFiltered(c, k) {
						out = append(out, k)
					}
				}
			case "mset":
				for i := 0; i+1 < len(args); i += 2 {
					if !vfKeyFiltered(c, args[i]) {
						out = append(out, args[i], args[i+1])
					}
				}
			default:
				out = args
			}
			if out == nil && len(args) > 0 {
				break
			}
			exp = append(exp, vfExpCmd{db: tgt, args: append([][]byte{[]byte(name)}, out...), end: off, grp: curGrp})
		}
		dbAfter = append(dbAfter, tgt)
		grpAfter = append(grpAfter, curGrp)
	}
	return
}

type vfApplied struct {
	db   int
	args [][]byte
	blk  int // target MULTI block id (0 = outside)
}

// vfAppliedOf interprets a request-log prefix: data commands executed (MULTI
// blocks only when their EXEC is inside the prefix), checkpoint offsets per DB.
func vfAppliedOf(c *vfSCase, log []vfdoubles.LogEntry) (app []vfApplied, cpOff map[int]int64, cpWrites []int64) {
	cur := 0
	cpOff = map[int]int64{}
	var queue []vfdoubles.LogEntry
	inMulti := false
	blk, curBlk := 0, 0
	execOne := func(e vfdoubles.LogEntry) {
		cmd := e.Cmd()
		switch cmd {
		case "select":
			if n, err := strconv.Atoi(string(e.Args[1])); err == nil {
				cur = n
			}
		case "ping":
		case "hset":
			if string(e.Args[1]) == c.cp {
				for i := 2; i+1 < len(e.Args); i += 2 {
					if string(e.Args[i]) == c.rid+"_offset" {
						v, _ := strconv.ParseInt(string(e.Args[i+1]), 10, 64)
						cpOff[cur] = v
						cpWrites = append(cpWrites, v)
					}
				}
				return
			}
			fallthrough
		default:
			a := append([][]byte{[]byte(cmd)}, e.Args[1:]...)
			app = append(app, vfApplied{db: cur, args: a, blk: curBlk})
		}
	}
	for _, e := range log {
		cmd := e.Cmd()
		if inMulti {
			if cmd == "exec" {
				for _, q := range queue {
					execOne(q)
				}
				queue = nil
				inMulti = false
				curBlk = 0
			} else {
				queue = append(queue, e)
			}
			continue
		}
		if cmd == "multi" {
			inMulti = true
			blk++
			curBlk = blk
			continue
		}
		execOne(e)
	}
	return
}

func vfSameCmd(a [][]byte, b [][]byte) bool {
	if len(a) != len(b) {
		return false
	}
	for i := range a {
		if !bytes.Equal(a[i], b[i]) {
			return false
		}
	}
	return true
}

func vfFmtCmd(db int, a [][]byte) string {
	var s []string
	for _, x := range a {
		s = append(s, fmt.Sprintf("%q", x))
	}
	return fmt.Sprintf("db%d %s", db, strings.Join(s, " "))
}

// ---------------------------------------------------------------- generator

func vfGenCase(r *vfutil.Rand, idx int) *vfSCase {
	c := &vfSCase{cp: "redis-gunyu-checkpoint-vf", rid: "rid" + strconv.Itoa(r.Intn(3)), tdb: -1, sdb: -1}
	c.txn = r.Bool()
	c.resume = r.Chance(5, 6)
	c.pipeline = r.Chance(1, 3)
	c.bc = uint(vfutil.Pick(r, []int{1, 2, 3, 4, 8, 100}))
	c.bb = uint64(vfutil.Pick(r, []int{1, 40, 200, 1 << 30, 1 << 30}))
	if r.Chance(1, 6) {
		c.tdb = r.Intn(3)
	}
	if (c.tdb == -1 && r.Chance(1, 3)) || (c.tdb != -1 && r.Chance(1, 3)) { // also both set: TargetDb wins
		c.dbMap = map[int]int{}
		for i := 0; i < r.Range(1, 3); i++ {
			c.dbMap[vfutil.Pick(r, []int{0, 1, 2, 3, 10})] = vfutil.Pick(r, []int{0, 1, 2, 3, 11})
		}
	}
	if r.Chance(1, 4) {
		c.fdb = []int{vfutil.Pick(r, []int{1, 2, 3, 1, 2, 3, 10})}
	}
	if r.Chance(1, 3) {
		c.fcmd = []string{vfutil.Pick(r, []string{"incr", "INCR", "Append", "hset"})}
	}
	if r.Chance(1, 3) {
		c.fpre = []string{vfutil.Pick(r, []string{"tmp:", "x", "bl"})}
	}
	if r.Chance(1, 8) {
		c.fwl = []string{vfutil.Pick(r, []string{"k", "a"})}
	}
	// DIMENSION AUDIT (session 5): every 4th case takes its modes / options from a fixed cross product, so that
	// combinations the independent draws meet rarely (pipeline x txn x resume x dbBlacklist x TargetDbMap x
	// BatchCmdCount 1 / byte limit 1 x first item MULTI / SELECT / PING / data x keep-alive-only traffic) are all
	// drawn: 768 combinations, 375 per quick run, the window moves with the seed
	c.grid = -1
	if idx%4 == 3 {
		g := (idx/4 + int(vfutil.Seed()%768)*97) % 768
		c.grid = g
		c.pipeline, c.txn, c.resume = g&1 == 1, g>>1&1 == 1, g>>2&1 == 1
		if g>>3&1 == 1 {
			c.fdb = []int{vfutil.Pick(r, []int{1, 2, 3, 0})}
		} else {
			c.fdb = nil
		}
		if g>>4&1 == 1 {
			c.tdb = -1
			c.dbMap = map[int]int{vfutil.Pick(r, []int{0, 1, 2, 3}): vfutil.Pick(r, []int{0, 1, 2, 3, 11}), 10: 2}
		} else {
			c.dbMap = nil
		}
		switch (g >> 5) % 3 {
		case 0:
			c.bc = 1
		case 1:
			c.bb = 1
		}
	}
	if r.Chance(1, 5) {
		c.delayKey = "k1"
	}
	c.othName = c.resume && r.Chance(1, 4)
	trip := vfutil.Pick(r, [][3]int{{3000000, 7001000, 11003000}, {1000000, 1501000, 2503000}, {2000000, 3001000, 5003000}, {500000, 30001000, 1203000}, {50001000, 1001000, 3503000}})
	c.perB, c.perK, c.perC = trip[0], trip[1], trip[2]
	// the DEFAULT proportions of the three tickers (config: batch 10 ms, keep-alive 3 s, checkpoint 1 s): the batch
	// ticker fires hundreds of times between two keep-alives; the schedule of such a case is compressed below
	// (horizon < 10 s: no two tickers due at one instant)
	defTrip := r.Chance(1, 8)
	if defTrip {
		c.perB, c.perK, c.perC = 10000, 3001000, 1003000
	}
	c.start = vfutil.Pick(r, []int64{0, 1, 1000, 123456, 1000, 123456, 1<<31 - 60, 1<<32 - 25, 1 << 40, 1<<53 - 7})
	// resumed-run flavour: start DB set, checkpoint already on the target
	if r.Chance(1, 3) {
		c.sdb = r.Intn(3)
		c.init = map[int]int64{c.sdb: c.start}
		if r.Chance(1, 3) && c.start > 0 {
			c.init[(c.sdb+1)%3] = c.start - 1
		}
	} else if r.Chance(1, 4) {
		c.init = map[int]int64{0: c.start}
	}
	// TWO IDS (after a fail-over of the source StartPoint is asked with [master_replid, master_replid2] and
	// fetchCheckpoint merges the fields of both per database): (A) the position is still stored under the
	// PREVIOUS id (the situation between the fail-over and the relabel), (B) stale lower records of the
	// previous id beside the current id's position, also in the same hash (what a relabel cut by a crash leaves)
	if c.resume && c.sdb >= 0 && len(c.init) > 0 && r.Chance(1, 3) {
		c.prev = map[int]int64{}
		if r.Bool() || c.start <= 100 {
			c.prev[c.sdb] = c.start
			delete(c.init, c.sdb)
		} else {
			for i := r.Range(1, 2); i > 0; i-- {
				c.prev[r.Intn(3)] = c.start - int64(r.Range(2, 60))
			}
		}
	}
	// records of OTHER run ids on the target: never this run's position. Ids have the same
	// length as this run's (replication ids are 40 hex characters; GetCheckpoint matches hash
	// fields by id PREFIX, so an id that is a proper prefix of another would be confused)
	if r.Chance(1, 4) {
		for i := r.Range(1, 2); i > 0; i-- {
			id := vfutil.Pick(r, []string{"rid9", "rie" + c.rid[3:], "xid" + c.rid[3:], "Rid" + c.rid[3:]})
			c.oth = append(c.oth, fmt.Sprintf("%d:%s:%d", r.Intn(3), id, c.start+int64(r.Range(1, 5000))))
		}
	}
	// stream
	keys := []string{"k1", "k2", "a", "tmp:1", "x9", "bl", "redis-gunyu-checkpoint", "{t}k", "\xff\xfe", "", "redis-gunyu-bisync:m", "redis-gunyu-bisync"}
	val := func() []byte {
		switch r.Intn(4) {
		case 0:
			return r.Bytes(r.Intn(6))
		case 1:
			return []byte("v\r\n$*")
		default:
			return []byte("v" + strconv.Itoa(r.Intn(100)))
		}
	}
	key := func() []byte { return []byte(vfutil.Pick(r, keys)) }
	data := func() [][]byte {
		switch r.Intn(9) {
		case 0:
			return [][]byte{[]byte("SET"), key(), val()}
		case 1:
			return [][]byte{[]byte("incr"), key()}
		case 2:
			return [][]byte{[]byte("RPUSH"), key(), val(), val()}
		case 3:
			n := r.Range(1, 3)
			a := [][]byte{[]byte("del")}
			for i := 0; i < n; i++ {
				a = append(a, key())
			}
			return a
		case 4:
			n := r.Range(1, 3)
			a := [][]byte{[]byte("MSET")}
			for i := 0; i < n; i++ {
				a = append(a, key(), val())
			}
			return a
		case 5:
			return [][]byte{[]byte("hset"), key(), val(), val()}
		case 6:
			return [][]byte{[]byte("append"), key(), val()}
		case 7:
			return [][]byte{[]byte("pexpireat"), key(), []byte("1700000000000")}
		default:
			return [][]byte{[]byte("set"), key(), val()}
		}
	}
	n := r.Range(0, vfutil.Scale(30, 60))
	stallAfter := map[int]bool{}
	// database numbers: mostly 0..3, sometimes two-digit (INFO keyspace "db10", "db12")
	dbNum := func() int {
		if r.Chance(1, 8) {
			return vfutil.Pick(r, []int{10, 12})
		}
		return r.Intn(4)
	}
	if r.Chance(3, 4) && c.sdb < 0 {
		c.raw = append(c.raw, [][]byte{[]byte("SELECT"), []byte(strconv.Itoa(dbNum()))})
	}
	if c.sdb > 0 && r.Chance(1, 4) && n > 0 {
		// a resumed run whose first item is a MULTI: the initial `select <startDbId>` is still queued when
		// the barrier arrives (cov_startdb_first_item_multi)
		c.raw = append(c.raw, [][]byte{[]byte("MULTI")}, data(), [][]byte{[]byte("EXEC")})
	}
	noRoute := make([]string, 0, len(vfNoRoute))
	for k := range vfNoRoute {
		noRoute = append(noRoute, k)
	}
	sort.Strings(noRoute)
	for len(c.raw) < n {
		switch r.Intn(14) {
		case 0:
			c.raw = append(c.raw, [][]byte{[]byte("PING")})
		case 1:
			// (a malformed SELECT is outside the quantifier -- well-formed streams -- and ends the run at a
			// point the scheduler chooses: after the parser's error the sender loop leaves after whichever
			// ready event it picks next, so there is no single expected log)
			c.raw = append(c.raw, [][]byte{[]byte("select"), []byte(strconv.Itoa(dbNum()))})
		case 2, 3:
			c.raw = append(c.raw, [][]byte{[]byte("MULTI")})
			if r.Chance(1, 4) {
				stallAfter[len(c.raw)] = true // the stream stalls right after this MULTI
			}
			nTx := r.Intn(5)
			if r.Chance(1, 10) { // longer than any batch count / some byte limits
				nTx = r.Range(9, 25)
			}
			for i := nTx; i > 0; i-- {
				if r.Chance(1, 5) { // a transaction touching several databases
					c.raw = append(c.raw, [][]byte{[]byte("SELECT"), []byte(strconv.Itoa(dbNum()))})
				}
				c.raw = append(c.raw, data())
			}
			c.raw = append(c.raw, [][]byte{[]byte("EXEC")})
		case 4:
			c.raw = append(c.raw, [][]byte{[]byte("REPLCONF"), []byte("GETACK"), []byte("*")})
		case 5:
			c.raw = append(c.raw, [][]byte{[]byte("PUBLISH"), []byte("__sentinel__:hello"), []byte("x")})
		case 6:
			nm := vfutil.Pick(r, []string{"FLUSHALL", "publish", "Debug"})
			if r.Bool() { // any command of the fixed no-route list (the oracle's own copy of it)
				nm = vfutil.Pick(r, noRoute)
				if r.Bool() {
					nm = strings.ToUpper(nm)
				}
			}
			c.raw = append(c.raw, [][]byte{[]byte(nm), []byte("chan"), []byte("m")})
		case 7:
			if r.Chance(1, 4) {
				// an EXEC with no open MULTI (what a run resumed inside a transaction reads first; here in
				// any mode and anywhere): a barrier that flushes what is queued and is itself absorbed
				c.raw = append(c.raw, [][]byte{[]byte("EXEC")})
			} else {
				c.raw = append(c.raw, data())
			}
		default:
			c.raw = append(c.raw, data())
		}
	}
	// two large arguments in flight at once (the parser keeps one decoder for the whole stream and
	// hands argument slices to the queue uncopied: a reused read buffer would alias them)
	if r.Chance(1, 40) {
		at := r.Intn(len(c.raw) + 1)
		big := func(b byte) []byte { return bytes.Repeat([]byte{b}, 66000+r.Intn(9000)) }
		pair := [][][]byte{{[]byte("SET"), []byte("k1"), big('A')}, {[]byte("set"), []byte("k2"), big('B')}}
		c.raw = append(c.raw[:at:at], append(pair, c.raw[at:]...)...)
	}
	if r.Chance(1, 3) && c.delayKey != "" {
		// the delay probe: SET <SyncDelayTestKey> <host>_<ns> (also a malformed number and a value without the separator)
		at := r.Intn(len(c.raw) + 1)
		pv := vfutil.Pick(r, []string{"h_1700000000000000000", "h_x", "a_b_c", "plain", "_"})
		c.raw = append(c.raw[:at:at], append([][][]byte{{[]byte("SET"), []byte(c.delayKey), []byte(pv)}}, c.raw[at:]...)...)
	}
	if c.grid >= 0 {
		if (c.grid/384)%2 == 1 {
			// KEEP-ALIVE-ONLY traffic: the source is idle, nothing but pings / acks / sentinel hellos arrives
			c.raw = nil
			for i := r.Range(0, 6); i > 0; i-- {
				switch r.Intn(3) {
				case 0:
					c.raw = append(c.raw, [][]byte{[]byte("PING")})
				case 1:
					c.raw = append(c.raw, [][]byte{[]byte("REPLCONF"), []byte("GETACK"), []byte("*")})
				default:
					c.raw = append(c.raw, [][]byte{[]byte("PUBLISH"), []byte("__sentinel__:hello"), []byte("x")})
				}
			}
		}
		var first [][][]byte
		switch (c.grid / 96) % 4 {
		case 0:
			first = [][][]byte{{[]byte("MULTI")}, data(), {[]byte("EXEC")}}
		case 1:
			first = [][][]byte{{[]byte("SELECT"), []byte(strconv.Itoa(dbNum()))}}
		case 2:
			first = [][][]byte{{[]byte("PING")}}
		default:
			first = [][][]byte{data()}
		}
		c.raw = append(first, c.raw...)
	}
	// schedule: writes of 1..k commands at increasing times with gaps that are
	// sometimes idle for several ticker periods (incl. before the first item)
	t := 500
	i := 0
	for i < len(c.raw) {
		gap := 0
		switch r.Intn(6) {
		case 0:
			gap = r.Range(1, 12) * 1000000 // long idle
		case 1:
			gap = r.Range(1, 40) * 100000
		default:
			gap = r.Range(0, 9) * 1000
		}
		if i == 0 && r.Chance(1, 2) {
			gap = r.Range(0, 15) * 1000000
		}
		if stallAfter[i] { // previous write ended right after a MULTI: long idle
			gap = r.Range(2, 40) * 1000000
		}
		t += gap + 1000
		k := r.Range(1, 6)
		if i+k > len(c.raw) {
			k = len(c.raw) - i
		}
		for j := 1; j <= k; j++ {
			if stallAfter[i+j] {
				k = j
				break
			}
		}
		c.evs = append(c.evs, vfSEv{t: t, n: k})
		i += k
	}
	t += vfutil.Pick(r, []int{1000, 1000, 4000000, 15000000}) + 1000
	c.evs = append(c.evs, vfSEv{t: t, close: true})
	if defTrip {
		t := 500
		for i := range c.evs {
			if c.evs[i].close {
				t += vfutil.Pick(r, []int{1000, 300000, 900000}) + 1000
			} else {
				t += r.Range(0, 250)*1000 + 1000
			}
			c.evs[i].t = t
		}
	}
	// the source connection is lost EARLY: the stream ends after m commands -- preferably between a MULTI
	// and its EXEC -- and the run ends gracefully there (the Done case with an open source transaction:
	// nothing of it may be sent, the position stays before it); the restarts read the whole stream
	if r.Chance(1, 6) && len(c.raw) > 1 {
		m := r.Range(0, len(c.raw)-1)
		var inside []int
		open := false
		for i, cmd := range c.raw {
			switch strings.ToLower(string(cmd[0])) {
			case "multi":
				open = true
			case "exec":
				open = false
			}
			if open {
				inside = append(inside, i+1)
			}
		}
		if len(inside) > 0 && r.Chance(2, 3) {
			m = vfutil.Pick(r, inside)
		}
		var evs []vfSEv
		done, last := 0, 500
		for _, e := range c.evs {
			if e.close || done >= m {
				break
			}
			if done+e.n > m {
				e.n = m - done
			}
			evs = append(evs, e)
			done += e.n
			last = e.t
		}
		tail := vfutil.Pick(r, []int{1000, 4000000, 15000000})
		if defTrip {
			tail = vfutil.Pick(r, []int{1000, 300000, 900000})
		}
		c.evs = append(evs, vfSEv{t: last + tail + 1000, close: true})
	}
	return c
}

func vfStreamOf(raw [][][]byte) (stream []byte, ends []int) {
	for _, cmd := range raw {
		stream = append(stream, vfEncodeCmd(cmd)...)
		ends = append(ends, len(stream))
	}
	return
}


// vfCoverage: which branches of the loop model (Model/Sender.lean `step`, `tail`, `preFlush`, `sendOnce`)
// and of the parser model (`parseStep`) this case exercised on the REAL run, told from the instant every
// request reached the target (tickers fire at multiples of their periods, writes at the instants of the
// schedule; all pairwise distinct) and from the case itself. Printed into the evidence as the input
// distribution; the generator is steered so that none of them stays at zero in the quick tier.
func vfCoverage(s *vfutil.Session, c *vfSCase, log []vfdoubles.LogEntry) {
	closeT := -1
	for _, e := range c.evs {
		if e.close {
			closeT = e.t
		}
	}
	type batch struct {
		t                  int
		data, cp, ping, mu int
		bytes              int
		meta               bool
		db                 int
	}
	var bs []batch
	for i, e := range log {
		t, ok := c.reqT[i]
		if !ok {
			return
		}
		if len(bs) == 0 || bs[len(bs)-1].t != t {
			bs = append(bs, batch{t: t})
		}
		b := &bs[len(bs)-1]
		switch cmd := e.Cmd(); {
		case cmd == "multi":
			b.mu++
		case cmd == "exec":
		case cmd == "ping":
			b.ping++
		case cmd == "hset" && len(e.Args) > 1 && string(e.Args[1]) == c.cp:
			b.cp++
			if len(e.Args) > 4 {
				b.meta = true
			}
			b.db = e.DB
		default:
			b.data++
			for _, a := range e.Args {
				b.bytes += len(a)
			}
		}
	}
	metaDbs := map[int]bool{}
	for bi, b := range bs {
		if b.meta {
			metaDbs[b.db] = true
			if len(metaDbs) == 2 {
				s.Count("cov_cp_runid_fields_in_second_db")
			}
		} else if b.cp > 0 {
			s.Count("cov_cp_without_runid_fields")
		}
		if bi == 0 && b.ping > 0 && b.data == 0 && b.cp == 0 && c.resume {
			s.Count("cov_keepalive_before_first_item_no_position") // D4: nothing consumed yet, no position written
		}
		if c.perK > 0 && b.t%c.perK != 0 && (c.perB == 0 || b.t%c.perB != 0) && b.t != closeT && (c.txn || c.perC == 0 || b.t%c.perC != 0) && b.data > 0 {
			switch {
			case uint(b.data) >= c.bc:
				s.Count(fmt.Sprintf("cov_itemflush_batch_count_txn%v", c.txn))
			case uint64(b.bytes) >= c.bb:
				s.Count(fmt.Sprintf("cov_itemflush_byte_limit_txn%v", c.txn))
			default:
				s.Count(fmt.Sprintf("cov_itemflush_barrier_or_exec_txn%v", c.txn))
			}
		}
		kind := "item"
		switch {
		case b.t == closeT:
			kind = "done"
		case c.perK > 0 && b.t%c.perK == 0:
			kind = "keepalive"
		case c.perB > 0 && b.t%c.perB == 0:
			kind = "batchtick"
		case !c.txn && c.perC > 0 && b.t%c.perC == 0:
			kind = "cptick"
		}
		what := "empty"
		switch {
		case b.ping > 0 && b.data == 0:
			what = "ping"
		case b.data > 0:
			what = "data"
		}
		s.Count(fmt.Sprintf("cov_flush_%s_%s_txn%v", kind, what, c.txn))
	}
	// case-level branches
	_, _, _, grpAfter := vfExpected(c, c.sdb, c.start, c.raw)
	exp, _, _, _ := vfExpected(c, c.sdb, c.start, c.raw)
	grpN, grpB := map[int]int{}, map[int]int{}
	for _, e := range exp {
		if e.grp != 0 {
			grpN[e.grp]++
			for _, a := range e.args {
				grpB[e.grp] += len(a)
			}
		}
	}
	if c.txn {
		for g, n := range grpN {
			if uint(n) >= c.bc {
				s.Count("cov_txn_group_reaches_batch_count")
			}
			if uint64(grpB[g]) >= c.bb {
				s.Count("cov_txn_group_reaches_byte_limit")
			}
		}
	}
	bypass := false
	inTx := false
	for i, cmd := range c.raw {
		name := strings.ToLower(string(cmd[0]))
		switch name {
		case "select":
			if len(cmd) == 2 {
				if n, err := strconv.Atoi(string(cmd[1])); err == nil {
					bypass = false
					for _, d := range c.fdb {
						if d == n {
							bypass = true
						}
					}
					if _, mapped := c.dbMap[n]; !mapped && len(c.dbMap) > 0 && c.tdb == -1 && !bypass {
						s.Count("cov_select_unmapped_db_with_dbmap")
					}
					if inTx {
						s.Count("cov_select_inside_txn")
					}
				}
			}
		case "multi":
			inTx = true
			if bypass {
				s.Count("cov_multi_in_filtered_db")
			}
			if i == 0 && c.sdb > 0 {
				s.Count("cov_startdb_first_item_multi")
			}
			if i+1 < len(c.raw) && strings.ToLower(string(c.raw[i+1][0])) == "exec" {
				s.Count("cov_empty_txn")
			}
		case "exec":
			if !inTx {
				s.Count("cov_exec_without_multi")
			}
			inTx = false
			if bypass {
				s.Count("cov_exec_in_filtered_db")
			}
			if i < len(grpAfter) && i > 0 && grpAfter[i-1] != 0 && grpN[grpAfter[i-1]] == 0 {
				s.Count("cov_txn_forwards_nothing")
			}
		}
	}
	written := 0
	for _, e := range c.evs {
		written += e.n
	}
	if written < len(c.raw) {
		s.Count("cov_stream_ends_early")
		if written > 0 && written-1 < len(grpAfter) && grpAfter[written-1] != 0 {
			s.Count("cov_stream_ends_inside_txn")
		}
	}
	if c.tdb != -1 && len(c.dbMap) > 0 {
		s.Count("cov_targetdb_and_dbmap")
	}
	if c.txn && !c.resume {
		for range grpN {
			s.Count("cov_txn_block_without_position")
			break
		}
	}
	if c.sdb > 0 {
		s.Count("cov_startdb_positive")
	}
}

// ---------------------------------------------------------------- the test

func vfSenderCase(t *testing.T, s *vfutil.Session, r *vfutil.Rand, c *vfSCase, tag int, src string) {
	tg := vfSeedTarget(c)
	stream, ends := vfStreamOf(c.raw)
	log, ro1 := vfRunSend(t, c, tg, c.sdb, c.start, stream, c.evs, ends)

	// crash prefixes: all (thorough or short logs), else a sample incl. the ends
	var ks []int
	if !c.resume {
		// in-memory checkpoint only: nothing is read back from the target
	} else if (vfutil.Thorough() && src != "exit" && src != "pipe") || len(log) <= 12 {
		for k := 0; k <= len(log); k++ {
			ks = append(ks, k)
		}
	} else {
		seen := map[int]bool{}
		for _, k := range []int{0, len(log)} {
			seen[k] = true
		}
		for len(seen) < 10 {
			seen[r.Intn(len(log)+1)] = true
		}
		for k := range seen {
			ks = append(ks, k)
		}
		sort.Ints(ks)
	}

	impl := vfRenderLog(tag, log)
	seedLog := tg.LogCopy()[:tg.LogLen()-len(log)]
	type spRes struct {
		k   int
		off int64
		db  int
		rid string
	}
	var sps []spRes
	for _, k := range ks {
		pre := append(append([]vfdoubles.LogEntry{}, seedLog...), log[:k]...)
		tk := vfdoubles.Replay(pre, 0)
		ro2 := vfNewOutput(c, tk)
		sp, err := ro2.StartPoint(context.Background(), c.ids())
		tk.CloseAll()
		if err != nil {
			impl = append(impl, fmt.Sprintf("#%d sp k=%d err", tag, k))
			continue
		}
		dbs := "-"
		if sp.RunId != "?" && sp.DbId >= 0 {
			dbs = strconv.Itoa(sp.DbId)
		}
		impl = append(impl, fmt.Sprintf("#%d sp k=%d off=%d dbs=%s", tag, k, sp.Offset, dbs))
		sps = append(sps, spRes{k, sp.Offset, sp.DbId, sp.RunId})
		if k == 0 && len(c.prev) > 0 {
			// two-id target before the run wrote anything: the position is the largest MERGED record (per
			// database the current id's fields win over the previous id's), whichever id it is stored under
			wantOff, wantDb := int64(-1), -1
			for d, o := range c.prev {
				if _, own := c.init[d]; !own && o > wantOff {
					wantOff, wantDb = o, d
				}
			}
			for d, o := range c.init {
				if o > wantOff {
					wantOff, wantDb = o, d
				}
			}
			if sp.Offset != wantOff || (sp.DbId != wantDb && sp.RunId != "?") || sp.RunId == "?" {
				s.Violate("C02:two-id-lookup", fmt.Sprintf("target with records of the ids %v: the position is (%d, db %d), StartPoint reads (%d, db %d, run id %q)", c.ids(), wantOff, wantDb, sp.Offset, sp.DbId, sp.RunId), map[string]interface{}{"op": c.opLine(tag, nil), "k": 0})
			}
		}
	}
	if !c.resume && ro1 != nil {
		// the in-memory position the run leaves (Model/SenderMem.lean, Props/C02Mem.lean): compared with the model
		ro1.cpGuard.RLock()
		impl = append(impl, fmt.Sprintf("#%d mem off=%d db=%d", tag, ro1.checkpointInMem.Offset, ro1.checkpointInMemDb))
		ro1.cpGuard.RUnlock()
		s.Count("mem_position_compared")
		if ro1.checkpointInMem.Offset != c.start {
			s.Count("mem_position_moved")
		}
		if ro1.checkpointInMemDb != 0 {
			s.Count("mem_position_db_nonzero")
		}
	}
	impl = append(impl, fmt.Sprintf("#%d end", tag))
	if c.lat == 0 {
		s.Op(c.opLine(tag, ks), impl...)
	}

	// ------------------------------------------------------------ coverage
	s.Count("src_" + src)
	if src == "gen" {
		b2 := func(b bool) string {
			if b {
				return "1"
			}
			return "0"
		}
		s.Count("cfg_pipeline_" + b2(c.pipeline))
		s.Count("cfg_txn_" + b2(c.txn))
		s.Count("cfg_resume_" + b2(c.resume))
		s.Count("cfg_mode_pl" + b2(c.pipeline) + "_txn" + b2(c.txn) + "_res" + b2(c.resume) + "_fdb" + b2(len(c.fdb) > 0) + "_map" + b2(len(c.dbMap) > 0))
		s.Count("cfg_dbBlacklist_" + b2(len(c.fdb) > 0))
		s.Count("cfg_targetDbMap_" + b2(len(c.dbMap) > 0))
		s.Count("cfg_targetDb_" + b2(c.tdb != -1))
		s.Count(fmt.Sprintf("cfg_batchCmdCount_%d", c.bc))
		s.Count(fmt.Sprintf("cfg_batchBufferSize_%d", c.bb))
		s.Count(fmt.Sprintf("cfg_tickers_%d_%d_%d", c.perB, c.perK, c.perC))
		s.Count("cfg_cmdBlacklist_" + b2(len(c.fcmd) > 0))
		s.Count("cfg_keyFilter_black" + b2(len(c.fpre) > 0) + "_white" + b2(len(c.fwl) > 0))
		s.Count("cfg_syncDelayTestKey_" + b2(c.delayKey != ""))
		s.Count("cfg_startDbId_" + b2(c.sdb >= 0))
		s.Count("tgt_other_name_" + b2(c.othName))
		s.Count("tgt_other_ids_" + b2(len(c.oth) > 0))
		s.Count("tgt_preexisting_position_" + b2(len(c.init) > 0))
		if c.grid >= 0 {
			s.Count("grid_cases")
		}
		first := "none"
		if len(c.raw) > 0 {
			first = strings.ToLower(string(c.raw[0][0]))
			switch first {
			case "multi", "select", "ping", "exec":
			default:
				first = "other"
			}
		}
		s.Count("in_first_item_" + first)
		onlyKA := true
		for _, cmd := range c.raw {
			switch strings.ToLower(string(cmd[0])) {
			case "ping", "replconf", "publish":
			default:
				onlyKA = false
			}
		}
		s.Count("in_keepalive_only_traffic_" + b2(onlyKA))
		s.Count("in_empty_stream_" + b2(len(c.raw) == 0))
		if c.start == 0 {
			s.Count("in_start_offset_0")
		}
	}
	if len(c.prev) > 0 {
		s.Count("two_id_targets")
		if _, own := c.init[c.sdb]; !own {
			s.Count("two_id_position_under_previous_id")
		}
	}
	s.Count(fmt.Sprintf("mode_txn%v_resume%v_pl%v", c.txn, c.resume, c.pipeline))
	s.Add("requests", len(log))
	s.Add("crash_prefixes", len(ks))
	nb := 0
	for _, e := range log {
		if e.Cmd() == "multi" {
			nb++
		}
	}
	s.Add("target_multi_blocks", nb)
	if len(log) > 0 {
		s.Distinct(strings.Join(impl, "|"))
	}
	if c.lat == 0 && src == "gen" {
		vfCoverage(s, c, log)
	}

	// ------------------------------------------------------------ monitors
	startDb := c.sdb
	exp, cmdEnds, dbAfter, grpAfter := vfExpected(c, startDb, c.start, c.raw)
	boundary := map[int64]bool{c.start: true}
	for _, e := range cmdEnds {
		boundary[e] = true
	}
	replay := func(extra map[string]interface{}) map[string]interface{} {
		m := map[string]interface{}{"op": c.opLine(tag, nil)}
		for k, v := range extra {
			m[k] = v
		}
		return m
	}
	app, _, cpWrites := vfAppliedOf(c, log)
	// C07: offsets on boundaries, monotone, never below what was stored before
	prev := int64(-1 << 62)
	for _, o := range c.init {
		if o > prev {
			prev = o
		}
	}
	for _, o := range cpWrites {
		if !boundary[o] {
			s.Violate("C07:offset-not-on-boundary", fmt.Sprintf("stored offset %d is not a command boundary", o), replay(map[string]interface{}{"offset": o}))
		}
		if o < prev {
			s.Violate("C07:offset-decreased", fmt.Sprintf("stored offset %d after %d", o, prev), replay(map[string]interface{}{"offset": o, "previous": prev}))
		}
		prev = o
	}
	// C01: executed data commands are a prefix of the expected list (all of it
	// when the run ended with a final flush, i.e. non-transactional mode)
	var dataApp []vfApplied
	for _, a := range app {
		dataApp = append(dataApp, a)
	}
	for i, a := range dataApp {
		if i >= len(exp) {
			s.Violate("C01:extra-command", "target executed more than the expected stream: "+vfFmtCmd(a.db, a.args), replay(map[string]interface{}{"index": i}))
			break
		}
		if !vfSameCmd(a.args, exp[i].args) && i > 0 && vfSameCmd(a.args, exp[i-1].args) && a.db == exp[i-1].db {
			s.Violate("C01:duplicated", fmt.Sprintf("#%d the target executed %s a second time (the stream holds %s there)", i, vfFmtCmd(a.db, a.args), vfFmtCmd(exp[i].db, exp[i].args)), replay(map[string]interface{}{"index": i}))
			break
		}
		if !vfSameCmd(a.args, exp[i].args) {
			s.Violate("C01:command-differs", fmt.Sprintf("#%d executed %s expected %s", i, vfFmtCmd(a.db, a.args), vfFmtCmd(exp[i].db, exp[i].args)), replay(map[string]interface{}{"index": i}))
			break
		}
		if a.db != exp[i].db {
			s.Violate("C01:wrong-db", fmt.Sprintf("#%d executed %s expected in db %d", i, vfFmtCmd(a.db, a.args), exp[i].db), replay(map[string]interface{}{"index": i}))
			break
		}
	}
	if src == "exit" {
		s.Count("exit_runs")
		if len(dataApp) < len(exp) {
			s.Count("exit_left_with_unexecuted") // the loop returned without having sent everything the stream held
		} else {
			s.Count("exit_left_all_executed")
		}
		if c.cancelAt > 0 {
			s.Count("exit_by_cancel")
		} else {
			s.Count("exit_by_eof_in_flight")
		}
	}
	// what was received but not executed when the run ended must not be covered by the position the
	// run leaves (the shutdown flush itself is best effort: the loop leaves after whichever ready event
	// it picks once the stream is closed). With a position on the target that is the crash point
	// k = len(log) below; with the in-memory position it is checked here.
	if !c.resume && ro1 != nil {
		ro1.cpGuard.RLock()
		memOff := ro1.checkpointInMem.Offset
		ro1.cpGuard.RUnlock()
		cov := 0
		for _, e := range exp {
			if e.end <= memOff {
				cov++
			}
		}
		if cov > len(dataApp) {
			s.Violate("C02:write-skipped", fmt.Sprintf("run ended with the in-memory position at %d covering %d commands, only %d were executed", memOff, cov, len(dataApp)), replay(map[string]interface{}{"offset": memOff}))
		}
		// the pair the run leaves, judged against the stream by the oracle (independent of Model/SenderMem.lean):
		// never below where the run started (D4: never the -1 placeholder), a command boundary, and the
		// database the source intends there -- the next run of this process re-selects it
		ro1.cpGuard.RLock()
		memDb := ro1.checkpointInMemDb
		ro1.cpGuard.RUnlock()
		if memOff < c.start {
			s.Violate("C07:mem-position-decreased", fmt.Sprintf("the run started at %d and left the in-memory position %d", c.start, memOff), replay(map[string]interface{}{"offset": memOff}))
		} else if memOff != c.start {
			idx := -1
			for i, e := range cmdEnds {
				if e == memOff {
					idx = i
				}
			}
			if idx < 0 {
				s.Violate("C07:mem-offset-not-on-boundary", fmt.Sprintf("in-memory position %d is not a command boundary", memOff), replay(map[string]interface{}{"offset": memOff}))
			} else if memDb != dbAfter[idx] {
				s.Violate("C02:mem-position-wrong-db", fmt.Sprintf("run ended with the in-memory position %d in db %d, the source intends db %d there", memOff, memDb, dbAfter[idx]), replay(map[string]interface{}{"offset": memOff, "db": memDb}))
			}
		}
	}
	// C09: a source transaction is inside one target block, with its offset
	if c.txn {
		grpBlk := map[int]int{}
		for i, a := range dataApp {
			if i >= len(exp) {
				break
			}
			g := exp[i].grp
			if g == 0 {
				continue
			}
			if a.blk == 0 {
				s.Violate("C09:outside-block", "command of a source transaction executed outside MULTI/EXEC: "+vfFmtCmd(a.db, a.args), replay(map[string]interface{}{"index": i}))
				break
			}
			if b, ok := grpBlk[g]; ok && b != a.blk {
				s.Violate("C09:split", "source transaction split over several target transactions", replay(map[string]interface{}{"index": i, "group": g}))
				break
			}
			grpBlk[g] = a.blk
		}
	}
	// C02 at every evaluated crash prefix
	for _, sp := range sps {
		appK, _, _ := vfAppliedOf(c, log[:sp.k])
		if sp.rid == "?" || sp.off < 0 {
			// no usable position: allowed only when none was ever stored
			had := len(c.init) > 0
			_, _, w := vfAppliedOf(c, log[:sp.k])
			if had || len(w) > 0 {
				s.Violate("C07:position-lost", fmt.Sprintf("after %d requests the next start finds no usable position (offset %d, runid %q)", sp.k, sp.off, sp.rid), replay(map[string]interface{}{"k": sp.k}))
			}
			continue
		}
		// C07 across a restart: the position the next start finds is the largest one stored
		// (a smaller one makes the resumed run store positions below ones already stored)
		_, _, wk := vfAppliedOf(c, log[:sp.k])
		maxStored := int64(-1)
		for _, o := range c.init {
			if o > maxStored {
				maxStored = o
			}
		}
		for _, o := range wk {
			if o > maxStored {
				maxStored = o
			}
		}
		if sp.off < maxStored {
			s.Violate("C07:resume-below-stored", fmt.Sprintf("after %d requests the next start resumes at %d although %d is stored", sp.k, sp.off, maxStored), replay(map[string]interface{}{"k": sp.k, "offset": sp.off, "stored": maxStored}))
		}
		// commands the resume position covers
		covered := 0
		for _, e := range exp {
			if e.end <= sp.off {
				covered++
			}
		}
		if len(appK) < covered {
			s.Violate("C02:write-skipped", fmt.Sprintf("crash after %d requests: resume offset %d covers %d commands but only %d were executed", sp.k, sp.off, covered, len(appK)), replay(map[string]interface{}{"k": sp.k, "offset": sp.off}))
		}
		if c.txn && len(appK) > covered {
			s.Violate("C02:write-repeated", fmt.Sprintf("transactional mode, crash after %d requests: resume offset %d covers %d commands but %d were already executed", sp.k, sp.off, covered, len(appK)), replay(map[string]interface{}{"k": sp.k, "offset": sp.off}))
		}
		// DB and transaction position at the resume offset
		idx := -1
		for i, e := range cmdEnds {
			if e == sp.off {
				idx = i
			}
		}
		wantDb := startDb
		if wantDb < 0 {
			wantDb = 0
		}
		// resuming inside a source transaction is partial execution exactly when a
		// command of that transaction which the target must execute lies beyond the
		// resume offset (the resumed run would execute it outside the transaction that
		// held the earlier ones); a remainder that is filtered out entirely is harmless
		inTxn := false
		if idx >= 0 {
			wantDb = dbAfter[idx]
			if g := grpAfter[idx]; g != 0 {
				for _, e := range exp {
					if e.grp == g && e.end > sp.off {
						inTxn = true
					}
				}
			}
		}
		// only meaningful when something will still be replayed in that DB
		if sp.db != wantDb {
			s.Violate("C02:resume-wrong-db", fmt.Sprintf("crash after %d requests: resume offset %d selects db %d, source intends db %d", sp.k, sp.off, sp.db, wantDb), replay(map[string]interface{}{"k": sp.k, "offset": sp.off}))
		}
		if c.txn && inTxn {
			s.Violate("C09:resume-inside-transaction", fmt.Sprintf("crash after %d requests: resume offset %d lies inside a source transaction with commands still to execute", sp.k, sp.off), replay(map[string]interface{}{"k": sp.k, "offset": sp.off}))
		}
	}
	// C02, the real restart: from a sample of crash points run the resumed tool and
	// look at what the target has executed over BOTH runs
	if c.resume && len(sps) > 0 {
		nRes := vfutil.Scale(2, 4)
		if src != "gen" {
			nRes = len(sps)
		}
		if src == "pipe" && nRes > 3 {
			nRes = 3
		}
		if src == "exit" {
			// the way the loop LEFT is the subject: restart from the end of the run
			// (Props.C01 leave_then_resume on the real code)
			nRes = 1
		}
		for i := 0; i < nRes; i++ {
			sp := sps[r.Intn(len(sps))]
			if src != "gen" {
				sp = sps[i]
			}
			if src == "exit" {
				sp = sps[len(sps)-1]
			}
			pre := append(append([]vfdoubles.LogEntry{}, seedLog...), log[:sp.k]...)
			tk := vfdoubles.ReplayWith(pre, 0, true)
			sp2, log2, ok := vfRunResumed(t, c, tk, c.start, stream, boundary)
			if !ok {
				s.Count("resumed_none")
				continue
			}
			s.Count("resumed_runs")
			s.Add("resumed_requests", len(log2))
			app1, _, _ := vfAppliedOf(c, log[:sp.k])
			app2, _, _ := vfAppliedOf(c, log2)
			rp := replay(map[string]interface{}{"k": sp.k, "offset": sp2.Offset, "db": sp2.DbId})
			// the resumed run must execute exactly the commands that end after the resume offset
			first := 0
			for first < len(exp) && exp[first].end <= sp2.Offset {
				first++
			}
			want2 := exp[first:]
			if first > len(app1) {
				s.Violate("C02:write-skipped", fmt.Sprintf("crash after %d requests: restart at %d skips %d commands the target never executed", sp.k, sp2.Offset, first-len(app1)), rp)
				continue
			}
			if c.txn && first < len(app1) {
				s.Violate("C02:write-repeated", fmt.Sprintf("transactional mode, crash after %d requests: restart at %d repeats %d commands", sp.k, sp2.Offset, len(app1)-first), rp)
				continue
			}
			bad := ""
			for j, a := range app2 {
				if j >= len(want2) {
					bad = fmt.Sprintf("resumed run executes a command the stream does not hold there: %s", vfFmtCmd(a.db, a.args))
					break
				}
				if !vfSameCmd(a.args, want2[j].args) {
					bad = fmt.Sprintf("resumed run #%d executes %s, the stream holds %s", j, vfFmtCmd(a.db, a.args), vfFmtCmd(want2[j].db, want2[j].args))
					break
				}
				if a.db != want2[j].db {
					bad = fmt.Sprintf("resumed run #%d executes %s, the source intends db %d", j, vfFmtCmd(a.db, a.args), want2[j].db)
					break
				}
			}
			if bad == "" && !c.txn && len(app2) < len(want2) {
				bad = fmt.Sprintf("resumed run ended (final flush) with %d of the %d remaining commands executed", len(app2), len(want2))
			}
			if bad != "" {
				s.Violate("C02:resumed-run-differs", fmt.Sprintf("crash after %d requests, restart at %d in db %d: %s", sp.k, sp2.Offset, sp2.DbId, bad), rp)
				continue
			}
			// A THIRD LIFE (Props.C02.lives_lose_nothing / lives_then_complete on the real code):
			// the resumed run itself dies after k2 requests -- on a target that holds the
			// records of both lives -- and the tool is started once more and finishes
			k2s := []int{r.Intn(len(log2) + 1)}
			if src != "gen" {
				// corpus / replay cases run every first crash point; five second ones each
				k2s = k2s[:0]
				for q := 0; q <= 4; q++ {
					k2 := len(log2) * q / 4
					if len(k2s) == 0 || k2s[len(k2s)-1] != k2 {
						k2s = append(k2s, k2)
					}
				}
			}
			for _, k2 := range k2s {
				pre2 := append(append([]vfdoubles.LogEntry{}, pre...), log2[:k2]...)
				tk2 := vfdoubles.ReplayWith(pre2, 0, true)
				sp3, log3, ok3 := vfRunResumed(t, c, tk2, c.start, stream, boundary)
				if !ok3 {
					// the second life started from a usable position, and positions only move forward
					// (C07): a third start without one has lost it -- a full resynchronisation where
					// the property promises a resume at or after the point the previous run reached
					s.Count("third_life_none")
					s.Violate("C02:position-lost", fmt.Sprintf("two crashes (after %d, then %d requests): the second life resumed at %d in db %d, the next start finds no usable position (reads %d in db %d)", sp.k, k2, sp2.Offset, sp2.DbId, sp3.Offset, sp3.DbId), replay(map[string]interface{}{"k": sp.k, "offset": sp2.Offset, "db": sp2.DbId, "k2": k2, "offset3": sp3.Offset, "db3": sp3.DbId}))
					continue
				}
				s.Count("third_lives")
				rp3 := replay(map[string]interface{}{"k": sp.k, "offset": sp2.Offset, "db": sp2.DbId, "k2": k2, "offset3": sp3.Offset, "db3": sp3.DbId})
				app2k, _, _ := vfAppliedOf(c, log2[:k2])
				app3, _, _ := vfAppliedOf(c, log3)
				if sp3.Offset < sp2.Offset {
					// C07's statement; what it means for C02 (a repeat, a violation in transactional
					// mode only) is judged below all the same
					s.Violate("C07:restart-lowers-position", fmt.Sprintf("second crash after %d requests of the resumed run: the next start reads %d, the resumed run had started at %d", k2, sp3.Offset, sp2.Offset), rp3)
				}
				first3 := 0
				for first3 < len(exp) && exp[first3].end <= sp3.Offset {
					first3++
				}
				// everything up to the position is among what both dead lives executed, in order
				done12 := append(append([]vfApplied{}, app1...), app2k...)
				j := 0
				for _, a := range done12 {
					if j < first3 && vfSameCmd(a.args, exp[j].args) && a.db == exp[j].db {
						j++
					}
				}
				if j < first3 {
					s.Violate("C02:write-skipped", fmt.Sprintf("two crashes (after %d, then %d requests): restart at %d in db %d skips command #%d %s, which no life executed", sp.k, k2, sp3.Offset, sp3.DbId, j, vfFmtCmd(exp[j].db, exp[j].args)), rp3)
					continue
				}
				if c.txn && len(done12) != first3 {
					s.Violate("C02:write-repeated", fmt.Sprintf("transactional mode, two crashes (after %d, then %d requests): %d commands executed, the position %d covers %d", sp.k, k2, len(done12), sp3.Offset, first3), rp3)
					continue
				}
				want3 := exp[first3:]
				bad3 := ""
				for j, a := range app3 {
					if j >= len(want3) {
						bad3 = fmt.Sprintf("third life executes a command the stream does not hold there: %s", vfFmtCmd(a.db, a.args))
						break
					}
					if !vfSameCmd(a.args, want3[j].args) || a.db != want3[j].db {
						bad3 = fmt.Sprintf("third life #%d executes %s, the stream holds %s", j, vfFmtCmd(a.db, a.args), vfFmtCmd(want3[j].db, want3[j].args))
						break
					}
				}
				if bad3 == "" && !c.txn && len(app3) < len(want3) {
					bad3 = fmt.Sprintf("third life ended (final flush) with %d of the %d remaining commands executed", len(app3), len(want3))
				}
				if bad3 != "" {
					s.Violate("C02:resumed-run-differs", fmt.Sprintf("two crashes (after %d, then %d requests), restart at %d in db %d: %s", sp.k, k2, sp3.Offset, sp3.DbId, bad3), rp3)
				}
			}
		}
	}
}

// vfRerunCase: the source connection drops and comes back (PSYNC CONTINUE): RedisInput.Run calls
// StartPoint and Send again on the SAME RedisOutput. The tool was never interrupted, so nothing may
// be skipped, every command must run in the database the source is in, and -- the first run having
// ended cleanly -- nothing may be repeated. Run for the in-memory position (resume=false), where the
// target holds no record that a fresh start could read. The first run receives the first j commands
// of the stream, the second run the rest.
var vfRerunForce int

func vfRerunCase(t *testing.T, s *vfutil.Session, r *vfutil.Rand, c *vfSCase, tag int) {
	if c.resume || len(c.raw) < 2 {
		return
	}
	j := r.Range(1, len(c.raw)-1)
	if vfRerunForce > 0 && vfRerunForce < len(c.raw) {
		j = vfRerunForce // replay of a rerun violation: the cut the replay file names
	}
	c1 := *c
	c1.raw = c.raw[:j]
	c1.evs = []vfSEv{{t: 1500, n: j}, {t: 20000500, close: true}}
	tg := vfSeedTarget(&c1)
	stream1, ends1 := vfStreamOf(c1.raw)
	stream, _ := vfStreamOf(c.raw)
	log1, ro1 := vfRunSend(t, &c1, tg, c.sdb, c.start, stream1, c1.evs, ends1)
	exp, cmdEnds, _, _ := vfExpected(c, c.sdb, c.start, c.raw)
	boundary := map[int64]bool{c.start: true}
	for _, e := range cmdEnds {
		boundary[e] = true
	}
	sp2, log2, ok := vfRunAgain(t, c, tg, ro1, c.start, stream, boundary)
	if !ok {
		s.Count("rerun_none")
		return
	}
	s.Count("rerun_runs")
	s.Count(fmt.Sprintf("rerun_txn%v", c.txn))
	app1, _, _ := vfAppliedOf(c, log1)
	app2, _, _ := vfAppliedOf(c, log2)
	rp := map[string]interface{}{"op": c.opLine(tag, nil), "rerun_after": j, "offset": sp2.Offset, "db": sp2.DbId}
	first := 0
	for first < len(exp) && exp[first].end <= sp2.Offset {
		first++
	}
	if first > len(app1) {
		s.Violate("C02:write-skipped", fmt.Sprintf("source reconnect after %d commands: the second run starts at %d and skips %d commands the target never executed", j, sp2.Offset, first-len(app1)), rp)
		return
	}
	want2 := exp[first:]
	for k, a := range app2 {
		if k >= len(want2) {
			s.Violate("C01:rerun-differs", "second run executes a command the stream does not hold there: "+vfFmtCmd(a.db, a.args), rp)
			return
		}
		if !vfSameCmd(a.args, want2[k].args) {
			s.Violate("C01:rerun-differs", fmt.Sprintf("second run #%d executes %s, the stream holds %s", k, vfFmtCmd(a.db, a.args), vfFmtCmd(want2[k].db, want2[k].args)), rp)
			return
		}
		if a.db != want2[k].db {
			s.Violate("C01:rerun-wrong-db", fmt.Sprintf("source reconnect after %d commands: second run #%d executes %s, the source intends db %d", j, k, vfFmtCmd(a.db, a.args), want2[k].db), rp)
			s.Violate("C02:rerun-wrong-db", fmt.Sprintf("source reconnect after %d commands: the second run starts at %d in db %d and executes #%d %s, the source intends db %d", j, sp2.Offset, sp2.DbId, k, vfFmtCmd(a.db, a.args), want2[k].db), rp)
			return
		}
	}
	if first < len(app1) {
		s.Violate("C01:rerun-repeats", fmt.Sprintf("source reconnect after %d commands and a clean end of the first run: the second run starts at %d and repeats %d commands", j, sp2.Offset, len(app1)-first), rp)
		s.Violate("C02:rerun-repeats", fmt.Sprintf("source reconnect after %d commands and a clean end of the first run: the second run starts at %d and repeats %d commands", j, sp2.Offset, len(app1)-first), rp)
	}
}

// vfPrefixIdProbe decides on the REAL code what fetchCheckpoint's prefix match (strings.HasPrefix(field,
// runId)) reads when the target holds records of other run ids (Props/C07Reader.lean): an id of EQUAL length
// must be invisible (prefix_match_equal_length; a violation otherwise), an id that EXTENDS the run's id is
// read as the run's own (prefix_match_longer_id: counted, not a violation -- replication ids are 40
// characters, such a pair cannot occur).
func vfPrefixIdProbe(t *testing.T, s *vfutil.Session, r *vfutil.Rand) {
	c := vfGenCase(r.Fork(), 0)
	c.resume = true
	c.rid = "rid1"
	c.init = map[int]int64{0: 100}
	for _, other := range []string{"rid2", "rid1x"} {
		c.oth = []string{"1:" + other + ":900"}
		tg := vfSeedTarget(c)
		ro := vfNewOutput(c, tg)
		sp, err := ro.StartPoint(context.Background(), c.ids())
		tg.CloseAll()
		if err != nil {
			s.Count("prefix_id_probe_err")
			continue
		}
		switch {
		case other == "rid2" && (sp.Offset != 100 || sp.DbId != 0):
			s.Violate("C02:other-id-visible", fmt.Sprintf("the position of %s is (100, db 0); with a record of the equal-length id %s at 900 in db 1 StartPoint reads (%d, db %d)", c.rid, other, sp.Offset, sp.DbId), map[string]interface{}{"op": c.opLine(0, nil), "other": other})
		case other == "rid2":
			s.Count("prefix_id_equal_length_invisible")
		case sp.Offset == 900:
			s.Count("prefix_id_reads_longer_id")
		default:
			s.Count("prefix_id_longer_id_invisible")
		}
	}
}

func TestVerifSender(t *testing.T) {
	s := vfutil.NewSession("Sender")
	defer s.Close()
	r := vfutil.NewRand(vfutil.Seed())
	tag := 0
	if rp := os.Getenv("VERIF_REPLAY"); rp != "" {
		// replay file: JSON with replay.op, or a plain op line
		b, _ := os.ReadFile(rp)
		op := string(b)
		if i := strings.Index(op, "send tag="); i >= 0 {
			op = op[i:]
			if j := strings.IndexAny(op, "\"\n"); j >= 0 {
				op = op[:j]
			}
		}
		cr := vfParseCase(op)
		vfSenderCase(t, s, r, cr, 0, "replay")
		if i := strings.Index(string(b), "\"rerun_after\":"); i >= 0 {
			// a violation of the in-process re-run: run that scenario again with the same cut
			fmt.Sscanf(strings.TrimSpace(string(b)[i+len("\"rerun_after\":"):]), "%d", &vfRerunForce)
			vfRerunCase(t, s, r, cr, 0)
		}
		return
	}
	vfPrefixIdProbe(t, s, vfutil.NewRand(4242))
	for _, l := range vfutil.Corpus("Sender") {
		vfSenderCase(t, s, r, vfParseCase(l), tag, "corpus")
		tag++
	}
	n := vfutil.Scale(1500, 7500)
	for i := 0; i < n; i++ {
		c := vfGenCase(r.Fork(), i)
		vfSenderCase(t, s, r, c, tag, "gen")
		vfRerunCase(t, s, r, c, tag)
		if r.Chance(1, 4) {
			// the same case against a target that takes virtual time per request: ticks, the end of the
			// stream and further items then become ready while a batch is in flight (several select cases
			// ready at once, a pipelined batch unacknowledged). The order the loop picks is not determined
			// by the instants, so these runs are judged by the monitors only, not compared with the model.
			cl := *c
			cl.lat = vfutil.Pick(r, []int{1000, 40000, 1100000, 3100000})
			vfSenderCase(t, s, r, &cl, tag, "lat")
		}
		if r.Chance(1, 5) && len(c.raw) > 0 {
			// HOW THE LOOP LEAVES (Model/SenderExit.lean, Props/C01Exit.lean): the whole stream arrives in one
			// or two bursts and replayWait is closed -- end of the stream right behind the last burst, or the
			// run's context cancelled at a random instant -- while the target takes time per request: items
			// are still in sendBuf and tickers due when the loop comes back from a flush and finds
			// replayWait closed, or the Done case competes with them in the select. Whichever case wins, the
			// loop returns after it, without the final flush unless it was Done. Judged by the monitors
			// (what is not executed is not covered by the position; the real restart from the end of the
			// run completes the stream).
			ce := *c
			ce.lat = vfutil.Pick(r, []int{1000, 40000, 400000, 1100000})
			n := len(ce.raw)
			n1 := r.Range(1, n)
			ce.evs = []vfSEv{{t: 1500, n: n1}}
			tEnd := 1500
			if n1 < n {
				tEnd = 1500 + r.Range(1, 30)*ce.lat/3
				ce.evs = append(ce.evs, vfSEv{t: tEnd, n: n - n1})
			}
			if r.Bool() {
				ce.evs = append(ce.evs, vfSEv{t: tEnd + vfutil.Pick(r, []int{1, 700, ce.lat, 3*ce.lat + 11}), close: true})
			} else {
				ce.evs = append(ce.evs, vfSEv{t: tEnd + 40000000, close: true})
				ce.cancelAt = 1500 + r.Range(0, 3*n+6)*ce.lat + r.Range(1, 997)
			}
			vfSenderCase(t, s, r, &ce, tag, "exit")
		}
		if r.Chance(1, vfutil.Scale(6, 24)) && len(c.raw) >= 4 {
			// THE PIPELINED SENDER RUNNING AHEAD (session 5): pipeline mode, one or two commands per batch, the
			// whole stream in one burst, against a target behind a socket buffer that takes LONGER than a
			// keep-alive period per request: the receive goroutine sits in Receive on one batch, the
			// `pipeline` channel (cap 2) fills up, the hand-off of the next dispatched batch blocks, the
			// tickers come due meanwhile. The target is healthy, only slow: every source command must still
			// be executed once, in order (C01:duplicated / command-differs / extra-command), the positions
			// written stay behind what was executed. Monitors only (the instants are not a function of the
			// schedule).
			cp := *c
			cp.pipeline = true
			cp.bc = uint(vfutil.Pick(r, []int{1, 1, 2}))
			cp.lat = cp.perK + vfutil.Pick(r, []int{1000, 100000, cp.perK, 2500000})
			n := len(cp.raw)
			n1 := r.Range(n/2, n)
			cp.evs = []vfSEv{{t: 1500, n: n1}}
			tEnd := 1500 + (6*n+30)*cp.lat + 60000000
			if n1 < n {
				cp.evs = append(cp.evs, vfSEv{t: 1500 + r.Range(1, 4*n)*cp.lat/2, n: n - n1})
			}
			cp.evs = append(cp.evs, vfSEv{t: tEnd, close: true})
			vfSenderCase(t, s, r, &cp, tag, "pipe")
		}
		tag++
	}
}

// vfParseCase rebuilds a case from its op line (corpus / replay).
func vfParseCase(op string) *vfSCase {
	kv := map[string]string{}
	for _, tok := range strings.Fields(op) {
		if i := strings.IndexByte(tok, '='); i > 0 {
			kv[tok[:i]] = tok[i+1:]
		}
	}
	atoi := func(s string) int { n, _ := strconv.Atoi(s); return n }
	list := func(s, sep string) []string {
		if s == "-" || s == "" {
			return nil
		}
		return strings.Split(s, sep)
	}
	c := &vfSCase{txn: kv["txn"] == "1", resume: kv["resume"] == "1", pipeline: kv["pl"] == "1",
		bc: uint(atoi(kv["bc"])), tdb: atoi(kv["tdb"]), sdb: atoi(kv["sdb"]),
		cp: string(vfutil.UnHex(kv["cp"])), rid: string(vfutil.UnHex(kv["rid"]))}
	bb, _ := strconv.ParseUint(kv["bb"], 10, 64)
	c.bb = bb
	st, _ := strconv.ParseInt(kv["start"], 10, 64)
	c.start = st
	for _, p := range list(kv["map"], ",") {
		ab := strings.Split(p, ":")
		if c.dbMap == nil {
			c.dbMap = map[int]int{}
		}
		c.dbMap[atoi(ab[0])] = atoi(ab[1])
	}
	for _, d := range list(kv["fdb"], ",") {
		c.fdb = append(c.fdb, atoi(d))
	}
	for _, x := range list(kv["fcmd"], ",") {
		c.fcmd = append(c.fcmd, string(vfutil.UnHex(x)))
	}
	for _, x := range list(kv["fpre"], ",") {
		c.fpre = append(c.fpre, string(vfutil.UnHex(x)))
	}
	for _, x := range list(kv["fwl"], ",") {
		c.fwl = append(c.fwl, string(vfutil.UnHex(x)))
	}
	per := strings.Split(kv["per"], ":")
	c.perB, c.perK, c.perC = atoi(per[0]), atoi(per[1]), atoi(per[2])
	for _, p := range list(kv["init"], ",") {
		ab := strings.Split(p, ":")
		if c.init == nil {
			c.init = map[int]int64{}
		}
		o, _ := strconv.ParseInt(ab[1], 10, 64)
		c.init[atoi(ab[0])] = o
	}
	for _, p := range list(kv["prev"], ",") {
		ab := strings.Split(p, ":")
		if c.prev == nil {
			c.prev = map[int]int64{}
		}
		o, _ := strconv.ParseInt(ab[1], 10, 64)
		c.prev[atoi(ab[0])] = o
		// init= carries the merged view: a database that shows the previous id's offset holds no record of the current id
		if c.init[atoi(ab[0])] == o {
			delete(c.init, atoi(ab[0]))
		}
	}
	c.oth = list(kv["oth"], ",")
	c.othName = kv["othn"] == "1"
	if kv["sdk"] != "" {
		c.delayKey = string(vfutil.UnHex(kv["sdk"]))
	}
	c.grid = -1
	c.lat = atoi(kv["lat"])
	c.cancelAt = atoi(kv["cancel"])
	for _, cmd := range list(kv["raw"], ";") {
		var args [][]byte
		for _, a := range strings.Split(cmd, ".") {
			b := vfutil.UnHex(a)
			if b == nil {
				b = []byte{}
			}
			args = append(args, b)
		}
		c.raw = append(c.raw, args)
	}
	for _, e := range list(kv["ev"], ",") {
		if strings.HasPrefix(e, "c") {
			c.evs = append(c.evs, vfSEv{t: atoi(e[1:]), close: true})
		} else {
			tn := strings.Split(e[1:], ":")
			c.evs = append(c.evs, vfSEv{t: atoi(tn[0]), n: atoi(tn[1])})
		}
	}
	return c
}
