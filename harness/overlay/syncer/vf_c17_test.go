//go:build verif

package syncer

// C17 (part 2) — switching the bidirectional recovery format never loses the
// resume position.
//
// The real (*syncer).resolveBisyncCheckpointNameWithClient (namespace creation,
// mode inference, in-place switch inside a recovery family, migration to a new
// namespace: seed, repoint, retire, clean up) over the real conn.RedisConn against
// the target double, on generated states: checkpoint hash (new / old id mapped),
// root checkpoint of the namespace (older or newer than its recovery state),
// stored / missing / invalid mode marker, frontier + journal or latest record.
// Every write request to the checkpoint hash or a namespace root key is a crash
// point: the request prefix is replayed into a fresh double and the real
// GetCheckpointHash + GetCheckpoint read the resume position back.
//   correspondence: those requests and the position after each prefix vs
//     lean/GunYu/Model/Migrate.lean (through lean/GunYu/Drive/C17.lean, op c17m);
//   monitor: the position after any prefix is not smaller than, and in the same
//     database as, the position before.

import (
	"fmt"
	"os"
	"strconv"
	"strings"
	"testing"

	"github.com/mgtv-tech/redis-GunYu/config"
	"github.com/mgtv-tech/redis-GunYu/pkg/log"
	"github.com/mgtv-tech/redis-GunYu/pkg/redis/checkpoint"
	"github.com/mgtv-tech/redis-GunYu/pkg/vfdoubles"
	"github.com/mgtv-tech/redis-GunYu/pkg/vfutil"
)

type vfC17MCase struct {
	ids     []string
	desired checkpoint.BisyncMode
	old     string // namespace the hash resolves to ("" = none)
	st      *checkpoint.VfState
	ns      *vfNS
}

func vfC17MDo(t *testing.T, s *vfutil.Session, c *vfC17MCase, tag int, src string) {
	if c.old != "" {
		vfC14Cp = c.old
	}
	tg := vfdoubles.NewTarget()
	c.st.Seed(tg)
	c.ns.noMode = true
	c.ns.rootRid = ""
	c.ns.seed(tg)
	seedLen := tg.LogLen()
	sy := &syncer{cfg: SyncerConfig{Output: checkpoint.VfRedisCfg()}, logger: log.WithLogger("[vf] ")}
	cli := checkpoint.VfConn(tg)
	name, err := sy.resolveBisyncCheckpointNameWithClient(cli, c.ids, c.desired, []uint16{0})
	cli.Close()
	tg.CloseAll()
	log := tg.LogCopy()
	// the new name: what the function returned, or what it started to write
	newName := ""
	if err == nil && name != c.old {
		newName = name
	}
	for _, e := range log[seedLen:] {
		if newName != "" {
			break
		}
		if (e.Cmd() == "hset" || e.Cmd() == "hsetnx") && len(e.Args) > 1 {
			k := string(e.Args[1])
			if k == config.CheckpointKeyHashKey && e.Cmd() == "hsetnx" {
				newName = string(e.Args[3])
			} else if strings.HasPrefix(k, checkpoint.BisyncCheckpointKeyPrefix+":") && k != c.old && !strings.Contains(k[len(checkpoint.BisyncCheckpointKeyPrefix)+1:], ":") {
				newName = k
			}
		}
	}
	root := map[string]bool{config.CheckpointKeyHashKey: true}
	if c.old != "" {
		root[c.old] = true
	}
	if newName != "" {
		root[newName] = true
	}
	var ws []int
	var lines []string
	var nows []string
	for i := seedLen; i < len(log); i++ {
		e := log[i]
		l, ok := checkpoint.VfRenderWrite(e)
		if !ok {
			continue
		}
		switch e.Cmd() {
		case "del", "unlink":
			hit := false
			for _, k := range e.Args[1:] {
				if root[string(k)] {
					hit = true
				}
			}
			if !hit {
				continue
			}
		default:
			if !root[string(e.Args[1])] {
				continue
			}
			for j := 2; j+1 < len(e.Args); j += 2 {
				if strings.HasSuffix(string(e.Args[j]), checkpoint.CheckpointMtimeSuffix) {
					nows = append(nows, string(e.Args[j+1]))
				}
			}
		}
		ws = append(ws, i)
		lines = append(lines, l)
	}
	sp := []string{checkpoint.VfStartPoint(vfdoubles.Replay(log[:seedLen], 0), c.ids)}
	for _, w := range ws {
		sp = append(sp, checkpoint.VfStartPoint(vfdoubles.Replay(log[:w+1], 0), c.ids))
	}
	nowsS := "."
	if len(nows) > 0 {
		nowsS = strings.Join(nows, ",")
	}
	nn := "-"
	if newName != "" {
		nn = vfutil.HexS(newName)
	}
	nsEnc := strings.SplitN(c.ns.encode(), " ", 2)[1]
	op := fmt.Sprintf("c17m %d %s %s %s %s %s %s %s", tag, vfutil.HexS(config.Version), checkpoint.VfHexList(c.ids),
		string(c.desired), nn, nowsS, c.st.Encode(), nsEnc)
	out := []string{fmt.Sprintf("#%d n=%d sp=%s", tag, len(lines), sp[0])}
	for i, l := range lines {
		out = append(out, fmt.Sprintf("#%d %s sp=%s", tag, l, sp[i+1]))
	}
	s.Op(op, out...)
	s.Count("migrate_" + src)
	s.Add("crash_points", len(sp))
	kind := "none"
	switch {
	case err != nil:
		kind = "error"
	case newName != "" && c.old != "" && name == newName:
		kind = "migrated"
	case newName != "":
		kind = "created"
	case len(lines) > 0:
		kind = "mode-saved"
	}
	s.Count("migrate_outcome_" + kind)
	if len(lines) > 0 {
		s.Distinct(fmt.Sprintf("m|%s|%s|%d|%d", kind, c.desired, len(lines), len(c.ns.journal)))
	}
	// monitor
	pos := func(x string) (ok bool, off int64, db int, bad bool) {
		if x == "err" {
			return false, 0, 0, true
		}
		if x == "none" {
			return false, 0, 0, false
		}
		ab := strings.Split(x, "@")
		off, _ = strconv.ParseInt(ab[0], 10, 64)
		db, _ = strconv.Atoi(ab[1])
		return true, off, db, false
	}
	ok0, off0, db0, bad0 := pos(sp[0])
	if ok0 && !bad0 {
		for k := 1; k < len(sp); k++ {
			okk, offk, dbk, badk := pos(sp[k])
			why := ""
			switch {
			case badk:
				why = "read fails"
			case !okk:
				why = "position lost"
			case offk < off0:
				why = "position smaller"
			case dbk != db0:
				why = "other database"
			}
			if why != "" {
				s.Violate("migrate-loses-position", fmt.Sprintf("%s: resume position %s before, %s after request #%d (%s) [%s]", why, sp[0], sp[k], k, lines[k-1], kind),
					map[string]interface{}{"op": op, "crash_after_request": k, "request": lines[k-1], "before": sp[0], "after": sp[k]})
				break
			}
		}
		s.Count("migrate_monitored")
	}
}

func vfC17MGen(r *vfutil.Rand) *vfC17MCase {
	id1, id2 := fmt.Sprintf("%x", r.Bytes(20)), fmt.Sprintf("%x", r.Bytes(20))
	c := &vfC17MCase{ids: []string{id1, id2}, st: &checkpoint.VfState{}, ns: &vfNS{}}
	c.desired = vfutil.Pick(r, []checkpoint.BisyncMode{checkpoint.BisyncModeSync, checkpoint.BisyncModePipeline, checkpoint.BisyncModeParallel})
	if r.Chance(1, 10) {
		if r.Bool() {
			c.st.Hash = append(c.st.Hash, [2]string{fmt.Sprintf("%x", r.Bytes(20)), "redis-gunyu-checkpoint"})
		}
		return c // nothing mapped: a namespace is created
	}
	c.old = checkpoint.BisyncCheckpointKeyPrefix + ":" + fmt.Sprintf("%x", r.Bytes(12))
	vfC14Cp = c.old
	rid := id1
	switch r.Intn(4) {
	case 0:
		rid = id2
		c.st.Hash = append(c.st.Hash, [2]string{id2, c.old})
	case 1:
		c.st.Hash = append(c.st.Hash, [2]string{id2, c.old}, [2]string{id1, c.old})
	default:
		c.st.Hash = append(c.st.Hash, [2]string{id1, c.old})
	}
	cur := vfutil.Pick(r, []string{"sync", "pipeline", "parallel"})
	mode := "F"
	if cur == "sync" {
		mode = "L"
	}
	c.ns = vfC14GenNS(r, []string{rid, id2}, mode)
	// the recovery state the seed is taken from
	seedOff := int64(-1)
	if mode == "L" && c.ns.latest != nil {
		seedOff = c.ns.latest.EndOffset
	}
	if mode == "F" && c.ns.front != nil {
		seedOff = c.ns.front.Offset + 400
	}
	rootOff := int64(r.Range(0, 900))
	if seedOff >= 0 && r.Chance(1, 6) {
		rootOff = seedOff + int64(r.Range(1, 300)) // root newer than the recovery state (a full sync finished)
	}
	fields := [][2]string{{rid + "_runid", rid}, {rid + "_version", config.Version}, {rid + "_offset", strconv.FormatInt(rootOff, 10)}, {rid + "_mtime", "1700000000000000000"}}
	switch r.Intn(8) {
	case 0: // no mode marker: inferred
	case 1:
		fields = append(fields, [2]string{"bisync_mode", "bogus"})
	default:
		fields = append(fields, [2]string{"bisync_mode", cur}, [2]string{"bisync_mode_mtime", "1600000000000000000"})
	}
	c.st.Items = append(c.st.Items, checkpoint.VfItem{Db: 0, Key: c.old, Fields: fields})
	if r.Chance(1, 6) {
		c.st.Items = append(c.st.Items, checkpoint.VfItem{Db: r.Range(1, 3), Key: c.old, Fields: [][2]string{{rid + "_runid", rid}, {rid + "_offset", strconv.FormatInt(rootOff-int64(r.Range(1, 50)), 10)}}})
	}
	if r.Chance(1, 4) {
		c.st.Busy = append(c.st.Busy, r.Range(1, 4))
	}
	return c
}

func vfC17MParse(op string) *vfC17MCase {
	f := strings.Fields(op)
	if len(f) != 14 || f[0] != "c17m" {
		return nil
	}
	c := &vfC17MCase{ids: checkpoint.VfUnHexList(f[3]), desired: checkpoint.BisyncMode(f[4]), st: checkpoint.VfParseState(f[7], f[8], f[9])}
	c.ns = vfC14ParseNS("-", f[10], f[11], f[12], f[13])
	// the namespace the hash resolves to
	get := func(k string) string {
		for _, kv := range c.st.Hash {
			if kv[0] == k {
				return kv[1]
			}
		}
		return ""
	}
	c.old = get(c.ids[0])
	if c.old == "" && len(c.ids) > 1 {
		c.old = get(c.ids[1])
	}
	return c
}

func TestVerifC17Migrate(t *testing.T) {
	s := vfutil.NewSession("C17m")
	defer s.Close()
	r := vfutil.NewRand(vfutil.Seed())
	tag := 0
	if rp := os.Getenv("VERIF_REPLAY"); rp != "" {
		b, _ := os.ReadFile(rp)
		op := string(b)
		if i := strings.Index(op, "c17m "); i >= 0 {
			op = op[i:]
			if j := strings.IndexAny(op, "\"\n"); j >= 0 {
				op = op[:j]
			}
			if c := vfC17MParse(op); c != nil {
				vfC17MDo(t, s, c, 0, "replay")
			}
		}
		return
	}
	for _, l := range vfutil.Corpus("C17") {
		if c := vfC17MParse(l); c != nil {
			vfC17MDo(t, s, c, tag, "corpus")
			tag++
		}
	}
	n := vfutil.Scale(600, 10000)
	for i := 0; i < n; i++ {
		c := vfC17MGen(r.Fork())
		vfC17MDo(t, s, c, tag, "gen")
		tag++
	}
}
