//go:build verif

package syncer

// C17 (part 2) — switching the bidirectional recovery format never loses the
// resume position.
//
// The real (*syncer).resolveBisyncCheckpointNameWithClient (namespace creation,
// mode inference, in-place switch inside a recovery family, migration to a new
// namespace: seed, repoint, retire, clean up) over the real conn.RedisConn against
// the target double, on generated states: checkpoint hash (new / old id mapped),
// root checkpoint of the namespace (older or newer than its recovery state),
// stored / missing / invalid mode marker, frontier + journal or latest record.
// Every write request to the checkpoint hash or a namespace root key is a crash
// point: the request prefix is replayed into a fresh double and the real
// GetCheckpointHash + GetCheckpoint read the resume position back.
//   correspondence: those requests and the position after each prefix vs
//     lean/GunYu/Model/Migrate.lean (through lean/GunYu/Drive/C17.lean, op c17m);
//   monitor: the position after any prefix is not smaller than, and in the same
//     database as, the position before.

import (
	"bufio"
	"context"
	"fmt"
	"io"
	"os"
	"strconv"
	"strings"
	"testing"
	"testing/synctest"
	"time"

	"github.com/mgtv-tech/redis-GunYu/config"
	"github.com/mgtv-tech/redis-GunYu/pkg/log"
	"github.com/mgtv-tech/redis-GunYu/pkg/redis/checkpoint"
	"github.com/mgtv-tech/redis-GunYu/pkg/redis/client"
	usync "github.com/mgtv-tech/redis-GunYu/pkg/sync"
	"github.com/mgtv-tech/redis-GunYu/pkg/vfdoubles"
	"github.com/mgtv-tech/redis-GunYu/pkg/vfutil"
)

type vfC17MCase struct {
	ids     []string
	desired checkpoint.BisyncMode
	old     string // namespace the hash resolves to ("" = none)
	st      *checkpoint.VfState
	ns      *vfNS
}

func vfC17MDo(t *testing.T, s *vfutil.Session, c *vfC17MCase, tag int, src string) {
	if c.old != "" {
		vfC14Cp = c.old
	}
	tg := vfdoubles.NewTarget()
	c.st.Seed(tg)
	c.ns.noMode = true
	c.ns.rootRid = ""
	c.ns.seed(tg)
	seedLen := tg.LogLen()
	sy := &syncer{cfg: SyncerConfig{Output: checkpoint.VfRedisCfg()}, logger: log.WithLogger("[vf] ")}
	cli := checkpoint.VfConn(tg)
	name, err := sy.resolveBisyncCheckpointNameWithClient(cli, c.ids, c.desired, []uint16{0})
	cli.Close()
	tg.CloseAll()
	log := tg.LogCopy()
	// the new name: what the function returned, or what it started to write
	newName := ""
	if err == nil && name != c.old {
		newName = name
	}
	for _, e := range log[seedLen:] {
		if newName != "" {
			break
		}
		if (e.Cmd() == "hset" || e.Cmd() == "hsetnx") && len(e.Args) > 1 {
			k := string(e.Args[1])
			if k == config.CheckpointKeyHashKey && e.Cmd() == "hsetnx" {
				newName = string(e.Args[3])
			} else if strings.HasPrefix(k, checkpoint.BisyncCheckpointKeyPrefix+":") && k != c.old && !strings.Contains(k[len(checkpoint.BisyncCheckpointKeyPrefix)+1:], ":") {
				newName = k
			}
		}
	}
	root := map[string]bool{config.CheckpointKeyHashKey: true}
	if c.old != "" {
		root[c.old] = true
	}
	if newName != "" {
		root[newName] = true
	}
	var ws []int
	var lines []string
	var nows []string
	for i := seedLen; i < len(log); i++ {
		e := log[i]
		l, ok := checkpoint.VfRenderWrite(e)
		if !ok {
			continue
		}
		switch e.Cmd() {
		case "del", "unlink":
			hit := false
			for _, k := range e.Args[1:] {
				if root[string(k)] {
					hit = true
				}
			}
			if !hit {
				continue
			}
		default:
			if !root[string(e.Args[1])] {
				continue
			}
			for j := 2; j+1 < len(e.Args); j += 2 {
				if strings.HasSuffix(string(e.Args[j]), checkpoint.CheckpointMtimeSuffix) {
					nows = append(nows, string(e.Args[j+1]))
				}
			}
		}
		ws = append(ws, i)
		lines = append(lines, l)
	}
	// EVERY request of the switch that writes (also the frontier / latest / journal / index / marker
	// keys of both namespaces, which the model does not follow) is a crash point of the next-start monitor
	reads := map[string]bool{"select": true, "info": true, "exists": true, "hget": true, "hgetall": true, "zrangebyscore": true,
		"ping": true, "type": true, "hlen": true, "zcard": true, "get": true}
	var allWs []int
	var allLines []string
	for i := seedLen; i < len(log); i++ {
		if !reads[log[i].Cmd()] {
			allWs = append(allWs, i)
			allLines = append(allLines, log[i].String())
		}
	}
	s.Add("migrate_all_requests", len(allWs))
	sp := []string{checkpoint.VfStartPoint(vfdoubles.Replay(log[:seedLen], 0), c.ids)}
	for _, w := range ws {
		sp = append(sp, checkpoint.VfStartPoint(vfdoubles.Replay(log[:w+1], 0), c.ids))
	}
	nowsS := "."
	if len(nows) > 0 {
		nowsS = strings.Join(nows, ",")
	}
	nn := "-"
	if newName != "" {
		nn = vfutil.HexS(newName)
	}
	nsEnc := strings.SplitN(c.ns.encode(), " ", 2)[1]
	op := fmt.Sprintf("c17m %d %s %s %s %s %s %s %s", tag, vfutil.HexS(config.Version), checkpoint.VfHexList(c.ids),
		string(c.desired), nn, nowsS, c.st.Encode(), nsEnc)
	out := []string{fmt.Sprintf("#%d n=%d sp=%s", tag, len(lines), sp[0])}
	for i, l := range lines {
		out = append(out, fmt.Sprintf("#%d %s sp=%s", tag, l, sp[i+1]))
	}
	s.Op(op, out...)
	s.Count("migrate_" + src)
	s.Add("crash_points", len(sp))
	kind := "none"
	switch {
	case err != nil:
		kind = "error"
	case newName != "" && c.old != "" && name == newName:
		kind = "migrated"
	case newName != "":
		kind = "created"
	case len(lines) > 0:
		kind = "mode-saved"
	}
	s.Count("migrate_outcome_" + kind)
	if len(lines) > 0 {
		s.Distinct(fmt.Sprintf("m|%s|%s|%d|%d", kind, c.desired, len(lines), len(c.ns.journal)))
	}
	// monitor 2: the position the bidirectional start REALLY uses. Before: RedisOutput.StartPoint on the
	// old namespace in its current mode. After every prefix: what the next start does — the real
	// resolveBisyncCheckpointNameWithClient run again to completion on the crash state, then the real
	// RedisOutput.StartPoint (bisyncStartPoint: root overridden by latest record / rebuilt frontier) on
	// the namespace it returned, in the desired mode. It must not resume before the old position.
	if c.old != "" {
		bstart := func(tk *vfdoubles.Target, name string, mode checkpoint.BisyncMode) (int64, bool) {
			rm := config.ReplayModeSync
			switch mode {
			case checkpoint.BisyncModePipeline:
				rm = config.ReplayModePipeline
			case checkpoint.BisyncModeParallel:
				rm = config.ReplayModeParallel
			}
			ro := NewRedisOutput(RedisOutputConfig{InputName: "vf", CheckpointName: name, BisyncEnabled: true, ReplayMode: rm,
				Redis: checkpoint.VfRedisCfg(), EnableResumeFromBreakPoint: true})
			ro.newRedisConn = func(ctx context.Context) (client.Redis, error) { return checkpoint.VfConn(tk), nil }
			sp, err := ro.StartPoint(context.Background(), c.ids)
			if err != nil || (sp.RunId != c.ids[0] && sp.RunId != c.ids[1]) {
				return 0, false
			}
			return sp.Offset, true
		}
		t0 := vfdoubles.Replay(log[:seedLen], 0)
		cl := checkpoint.VfConn(t0)
		cur, known, merr := checkpoint.LoadBisyncNamespaceMode(cl, c.old)
		if !known && merr == nil {
			cur, known, _ = sy.inferBisyncNamespaceMode(cl, c.old, c.ids, []uint16{0})
		}
		cl.Close()
		if known && merr == nil {
			if before, ok := bstart(t0, c.old, cur); ok {
				var afters []string
				refused, violated := false, false
				for k := 0; k <= len(allWs); k++ {
					cut := seedLen
					if k > 0 {
						cut = allWs[k-1] + 1
					}
					tk := vfdoubles.Replay(log[:cut], 0)
					c2 := checkpoint.VfConn(tk)
					name2, err2 := sy.resolveBisyncCheckpointNameWithClient(c2, c.ids, c.desired, []uint16{0})
					c2.Close()
					after, ok2 := int64(0), false
					if err2 == nil {
						after, ok2 = bstart(tk, name2, c.desired)
					}
					if k == 0 && err2 != nil {
						// the switch is REFUSED on this state (no authoritative seed: the repo's own
						// TestResolveBisyncCheckpointNameRejectsPlainCheckpointFallback pins that; journal
						// gap): it issues no request, the target keeps its position
						s.Count("migrate_refused")
						refused = true
						break
					}
					if err2 != nil || !ok2 || after < before {
						req := "-"
						if k > 0 {
							req = allLines[k-1]
							if len(req) > 160 {
								req = req[:160] + "…"
							}
						}
						s.Violate("migrate-next-start-regresses", fmt.Sprintf("the bidirectional start resumed at %d (namespace mode %s); stopped after request #%d (%s), the next start (switch to %s completed, then StartPoint) resumes at %d (ok=%v, err=%v) [%s]", before, cur, k, req, c.desired, after, ok2, err2, kind),
							map[string]interface{}{"op": op, "crash_after_request": k, "before": before, "after": after})
						violated = true
						break
					}
					s.Count("migrate_next_start_checked")
					if a := strconv.FormatInt(after, 10); len(afters) == 0 || afters[len(afters)-1] != a {
						afters = append(afters, a)
					}
				}
				// tie (op c17mb): the start in the current mode before, and the next start after EVERY request the
				// switch issued (consecutive duplicates removed), vs Model/MigrateNs.lean bisyncStart / nextStart over
				// the prefixes of migrateReqsB — Props/C17Migrate.lean migrate_start_exact proves them all EQUAL
				if !refused && !violated {
					s.Op(fmt.Sprintf("c17mb %d %s %s %s %s %s %s %s", tag, vfutil.HexS(config.Version), checkpoint.VfHexList(c.ids),
						string(c.desired), nn, nowsS, c.st.Encode(), nsEnc),
						fmt.Sprintf("#%d cur=%s before=%d after=%s", tag, string(cur), before, strings.Join(afters, ",")))
					s.Count("migrate_start_tied")
					if len(afters) != 1 || afters[0] != strconv.FormatInt(before, 10) {
						s.Count("migrate_start_moved")
					}
				}
			}
		}
	}
	// monitor
	pos := func(x string) (ok bool, off int64, db int, bad bool) {
		if x == "err" || x == "tie" {
			return false, 0, 0, true
		}
		if x == "none" {
			return false, 0, 0, false
		}
		ab := strings.Split(x, "@")
		off, _ = strconv.ParseInt(ab[0], 10, 64)
		db, _ = strconv.Atoi(ab[1])
		return true, off, db, false
	}
	ok0, off0, db0, bad0 := pos(sp[0])
	if ok0 && !bad0 {
		for k := 1; k < len(sp); k++ {
			okk, offk, dbk, badk := pos(sp[k])
			why := ""
			switch {
			case badk:
				why = "read fails"
			case !okk:
				why = "position lost"
			case offk < off0:
				why = "position smaller"
			case dbk != db0:
				why = "other database"
			}
			if why != "" {
				s.Violate("migrate-loses-position", fmt.Sprintf("%s: resume position %s before, %s after request #%d (%s) [%s]", why, sp[0], sp[k], k, lines[k-1], kind),
					map[string]interface{}{"op": op, "crash_after_request": k, "request": lines[k-1], "before": sp[0], "after": sp[k]})
				break
			}
		}
		s.Count("migrate_monitored")
	}
}

func vfC17MGen(r *vfutil.Rand) *vfC17MCase {
	id1, id2 := fmt.Sprintf("%x", r.Bytes(20)), fmt.Sprintf("%x", r.Bytes(20))
	c := &vfC17MCase{ids: []string{id1, id2}, st: &checkpoint.VfState{}, ns: &vfNS{}}
	c.desired = vfutil.Pick(r, []checkpoint.BisyncMode{checkpoint.BisyncModeSync, checkpoint.BisyncModePipeline, checkpoint.BisyncModeParallel})
	if r.Chance(1, 10) {
		if r.Bool() {
			c.st.Hash = append(c.st.Hash, [2]string{fmt.Sprintf("%x", r.Bytes(20)), "redis-gunyu-checkpoint"})
		}
		return c // nothing mapped: a namespace is created
	}
	c.old = checkpoint.BisyncCheckpointKeyPrefix + ":" + fmt.Sprintf("%x", r.Bytes(12))
	vfC14Cp = c.old
	rid := id1
	switch r.Intn(4) {
	case 0:
		rid = id2
		c.st.Hash = append(c.st.Hash, [2]string{id2, c.old})
	case 1:
		c.st.Hash = append(c.st.Hash, [2]string{id2, c.old}, [2]string{id1, c.old})
	default:
		c.st.Hash = append(c.st.Hash, [2]string{id1, c.old})
	}
	cur := vfutil.Pick(r, []string{"sync", "pipeline", "parallel"})
	mode := "F"
	if cur == "sync" {
		mode = "L"
	}
	c.ns = vfC14GenNS(r, []string{rid, id2}, mode)
	// the recovery state the seed is taken from
	seedOff := int64(-1)
	if mode == "L" && c.ns.latest != nil {
		seedOff = c.ns.latest.EndOffset
	}
	if mode == "F" && c.ns.front != nil {
		seedOff = c.ns.front.Offset + 400
	}
	rootOff := int64(r.Range(0, 900))
	if seedOff >= 0 && r.Chance(1, 6) {
		rootOff = seedOff + int64(r.Range(1, 300)) // root newer than the recovery state (a full sync finished)
	} else if mode == "L" && c.ns.latest != nil && r.Chance(1, 4) {
		rootOff = c.ns.latest.EndOffset + int64(r.Range(-1, 1)) // boundary of "root newer"
	}
	fields := [][2]string{{rid + "_runid", rid}, {rid + "_version", config.Version}, {rid + "_offset", strconv.FormatInt(rootOff, 10)}, {rid + "_mtime", "1700000000000000000"}}
	switch r.Intn(8) {
	case 0: // no mode marker: inferred
	case 1:
		fields = append(fields, [2]string{"bisync_mode", "bogus"})
	default:
		fields = append(fields, [2]string{"bisync_mode", cur}, [2]string{"bisync_mode_mtime", "1600000000000000000"})
	}
	c.st.Items = append(c.st.Items, checkpoint.VfItem{Db: 0, Key: c.old, Fields: fields})
	if r.Chance(1, 6) {
		c.st.Items = append(c.st.Items, checkpoint.VfItem{Db: r.Range(1, 3), Key: c.old, Fields: [][2]string{{rid + "_runid", rid}, {rid + "_offset", strconv.FormatInt(rootOff-int64(r.Range(1, 50)), 10)}}})
	}
	if r.Chance(1, 4) {
		c.st.Busy = append(c.st.Busy, r.Range(1, 4))
	}
	return c
}

func vfC17MParse(op string) *vfC17MCase {
	f := strings.Fields(op)
	if len(f) != 14 || f[0] != "c17m" {
		return nil
	}
	c := &vfC17MCase{ids: checkpoint.VfUnHexList(f[3]), desired: checkpoint.BisyncMode(f[4]), st: checkpoint.VfParseState(f[7], f[8], f[9])}
	c.ns = vfC14ParseNS("-", f[10], f[11], f[12], f[13])
	// the namespace the hash resolves to
	get := func(k string) string {
		for _, kv := range c.st.Hash {
			if kv[0] == k {
				return kv[1]
			}
		}
		return ""
	}
	c.old = get(c.ids[0])
	if c.old == "" && len(c.ids) > 1 {
		c.old = get(c.ids[1])
	}
	return c
}

func TestVerifC17Migrate(t *testing.T) {
	s := vfutil.NewSession("C17m")
	defer s.Close()
	r := vfutil.NewRand(vfutil.Seed())
	tag := 0
	if rp := os.Getenv("VERIF_REPLAY"); rp != "" {
		b, _ := os.ReadFile(rp)
		op := string(b)
		if i := strings.Index(op, "c17m "); i >= 0 {
			op = op[i:]
			if j := strings.IndexAny(op, "\"\n"); j >= 0 {
				op = op[:j]
			}
			if c := vfC17MParse(op); c != nil {
				vfC17MDo(t, s, c, 0, "replay")
			}
		}
		return
	}
	for _, l := range vfutil.Corpus("C17") {
		if c := vfC17MParse(l); c != nil {
			vfC17MDo(t, s, c, tag, "corpus")
			tag++
		}
	}
	n := vfutil.Scale(600, 10000)
	for i := 0; i < n; i++ {
		c := vfC17MGen(r.Fork())
		vfC17MDo(t, s, c, tag, "gen")
		tag++
	}
}

// ------------------------------------------------------------ gc while the sender runs
//
// gcStaleCheckpoint is a cron of the same process that replays (cmd/syncer.go startCron):
// it runs between two batches of a sender session. The real sendAof (virtual time) replays a
// stream that visits several source databases, the real gc (VfGcStaleCp = the closure of
// cmd/syncer.go, live ids = the session's run id) runs at a chosen instant of the session, the
// stream goes on; afterwards — and after every request prefix — a fresh process reads the
// resume position with the real RedisOutput.StartPoint. Monitor: once the session has stored a
// position with its run id, no later crash point may leave the target without a usable position
// (run id "?") or with a smaller one.

type vfGSCase struct {
	c      *vfSCase
	dbs    []int // source databases visited, in order (one SELECT + a few SETs each)
	gcAt   int   // run gc before visiting dbs[gcAt]
	stale  time.Duration
	perDb  int
	gcLive bool
}

func (g *vfGSCase) op() string {
	return fmt.Sprintf("c17gs txn=%v pl=%v bc=%d dbs=%s gcAt=%d stale=%d perDb=%d live=%v", g.c.txn, g.c.pipeline, g.c.bc,
		checkpoint.VfInts(g.dbs), g.gcAt, int64(g.stale), g.perDb, g.gcLive)
}

func vfC17GcSender(t *testing.T, s *vfutil.Session, g *vfGSCase, src string) {
	c := g.c
	tg := vfdoubles.NewTarget()
	tg.Lenient = true
	tg.Seed(0, "hset", config.CheckpointKeyHashKey, c.rid, c.cp)
	nSeed := tg.LogLen()
	// stream: per visited db: SELECT db, perDb × SET
	var chunks [][]byte
	for i, db := range g.dbs {
		var b []byte
		b = append(b, vfEncodeCmd([][]byte{[]byte("select"), []byte(strconv.Itoa(db))})...)
		for k := 0; k < g.perDb; k++ {
			b = append(b, vfEncodeCmd([][]byte{[]byte("set"), []byte(fmt.Sprintf("k%d_%d", i, k)), []byte("v")})...)
		}
		chunks = append(chunks, b)
	}
	gcLogAt := -1
	synctest.Test(t, func(t *testing.T) {
		ro := vfNewOutput(c, tg)
		ro.startDbId = 0
		ctx, cancel := context.WithCancel(context.Background())
		defer cancel()
		pr, pw := io.Pipe()
		done := make(chan error, 1)
		go func() { done <- ro.sendAof(ctx, c.rid, bufio.NewReaderSize(pr, 4096), 1000, -1) }()
		settle := time.Duration(c.perC+c.perB+c.perK) * time.Microsecond * 2
		for i, ch := range chunks {
			if i == g.gcAt {
				gcLogAt = tg.LogLen()
				cli := checkpoint.VfConn(tg)
				live := map[string]struct{}{}
				if g.gcLive {
					live[c.rid] = struct{}{}
				}
				checkpoint.VfGcStaleCp(cli, live, g.stale)
				cli.Close()
			}
			pw.Write(ch)
			time.Sleep(settle) // batch + checkpoint tickers fire: the position of this database is stored
		}
		pw.Close()
		<-done
		pr.Close()
		synctest.Wait()
		tg.CloseAll()
	})
	log := tg.LogCopy()
	ids := []string{c.rid, "0000000000000000000000000000000000000000"}
	read := func(k int) (string, int64, bool) {
		tk := vfdoubles.Replay(log[:k], 0)
		ro := vfNewOutput(c, tk)
		sp, err := ro.StartPoint(context.Background(), ids)
		tk.CloseAll()
		if err != nil {
			return "err", 0, false
		}
		ok := sp.RunId == c.rid
		return fmt.Sprintf("%s:%d@%d", sp.RunId, sp.Offset, sp.DbId), sp.Offset, ok
	}
	s.Count("gcsender_" + src)
	have := false
	best := int64(-1)
	bestAt := 0
	checked := 0
	for k := nSeed; k <= len(log); k++ {
		if k < len(log) && log[k-1].Queued { // inside MULTI: same state as before it
			continue
		}
		str, off, ok := read(k)
		checked++
		if ok && off >= best {
			have, best, bestAt = true, off, k
			continue
		}
		if have {
			what := "gc-and-sender-lose-position"
			last := "-"
			if k > 0 {
				last = log[k-1].String()
			}
			s.Violate(what, fmt.Sprintf("after request #%d the session had stored a position (offset %d); after request #%d (%s, gc ran at request #%d) a fresh start reads %s",
				bestAt-nSeed, best, k-nSeed, last, gcLogAt-nSeed, str),
				map[string]interface{}{"op": g.op(), "crash_after_request": k - nSeed, "reads": str, "had": best})
			break
		}
	}
	s.Add("gcsender_crash_points", checked)
	if have {
		s.Count("gcsender_position_stored")
	}
}

func vfC17GcSenderGen(r *vfutil.Rand) *vfGSCase {
	c := &vfSCase{cp: "redis-gunyu-checkpoint", rid: fmt.Sprintf("%x", r.Bytes(20)), tdb: -1, sdb: -1, resume: true}
	c.txn = r.Bool()
	c.pipeline = r.Chance(1, 3)
	c.bc = uint(vfutil.Pick(r, []int{1, 3, 100}))
	c.bb = 1 << 30
	c.perB, c.perK, c.perC = 1000000, 1501000, 2503000
	g := &vfGSCase{c: c, perDb: r.Range(1, 3), stale: time.Duration(vfutil.Pick(r, []int{1, 3600, 12 * 3600})) * time.Second, gcLive: true} // a running session's id is reported by its source
	n := r.Range(2, 5)
	for i := 0; i < n; i++ {
		g.dbs = append(g.dbs, r.Intn(3))
	}
	if r.Bool() { // come back to a database visited before
		g.dbs = append(g.dbs, g.dbs[0])
	}
	g.gcAt = r.Range(1, len(g.dbs)-1)
	return g
}

func vfC17GcSenderParse(op string) *vfGSCase {
	if !strings.HasPrefix(op, "c17gs ") {
		return nil
	}
	kv := map[string]string{}
	for _, tok := range strings.Fields(op)[1:] {
		if i := strings.IndexByte(tok, '='); i > 0 {
			kv[tok[:i]] = tok[i+1:]
		}
	}
	atoi := func(s string) int { n, _ := strconv.Atoi(s); return n }
	c := &vfSCase{cp: "redis-gunyu-checkpoint", rid: "aaaaaaaaaaaaaaaaaaaaaaaaaaaaaaaaaaaaaaaa", tdb: -1, sdb: -1, resume: true,
		txn: kv["txn"] == "true", pipeline: kv["pl"] == "true", bc: uint(atoi(kv["bc"])), bb: 1 << 30, perB: 1000000, perK: 1501000, perC: 2503000}
	st, _ := strconv.ParseInt(kv["stale"], 10, 64)
	return &vfGSCase{c: c, dbs: checkpoint.VfUnInts(kv["dbs"]), gcAt: atoi(kv["gcAt"]), stale: time.Duration(st), perDb: atoi(kv["perDb"]), gcLive: kv["live"] == "true"}
}

func TestVerifC17GcSender(t *testing.T) {
	s := vfutil.NewSession("C17gs")
	defer s.Close()
	r := vfutil.NewRand(vfutil.Seed())
	for _, l := range vfutil.Corpus("C17") {
		if g := vfC17GcSenderParse(l); g != nil {
			vfC17GcSender(t, s, g, "corpus")
		}
	}
	n := vfutil.Scale(60, 1500)
	for i := 0; i < n; i++ {
		vfC17GcSender(t, s, vfC17GcSenderGen(r.Fork()), "gen")
	}
}

// ------------------------------------------------------------ the production path of "move to a new replication id"
//
// After a source failover a restarted syncer does NOT relabel the stored position (commit 23cb23d):
// syncer.updateCheckpoint orders the ids by the checkpoint hash and runs UpdateCheckpoint(local, ordered);
// only a granted continuation relabels it: RedisOutput.SetRunId(new id). Then the replay writes its
// checkpoint fields under the new id, and later the source stops reporting the old id.
// This harness runs the REAL syncer.updateCheckpoint (it dials: the target double sits behind a
// loopback listener), the REAL RedisOutput.SetRunId and the REAL RedisOutput.StartPoint:
//   start:   updateCheckpoint(local, [new, old])  -> label; StartPoint = position P
//   relabel: SetRunId(new) — every request prefix is a crash point; the next start
//            (updateCheckpoint + StartPoint with [new, old]) must read a position >= P in the same database
//   replay:  the sender's checkpoint fields under the new id advance the position to P' (same database)
//   later:   the source reports [new, other]: the next start must read P'.

type vfStCase struct {
	local, key string // key the hash maps the old id to (== local, or a rename is pending too)
	oldId      string
	newId      string
	dbs        []int
	top        int64
	noMtime    bool
	busy       []int
}

func (c *vfStCase) op() string {
	return fmt.Sprintf("c17st local=%s key=%s old=%s new=%s dbs=%s top=%d nomtime=%v busy=%s", vfutil.HexS(c.local), vfutil.HexS(c.key), c.oldId, c.newId,
		checkpoint.VfInts(c.dbs), c.top, c.noMtime, checkpoint.VfInts(c.busy))
}

// the real next start against a target state: syncer.updateCheckpoint (dials) + RedisOutput.StartPoint
func vfC17RealStart(tg *vfdoubles.Target, local string, ids []string) (string, string) {
	ln := checkpoint.VfListen(tg)
	defer ln.Close()
	rc := checkpoint.VfDialCfg(ln.Addr().String())
	sy := &syncer{cfg: SyncerConfig{Output: rc}, logger: log.WithLogger("[vf] ")}
	wait := usync.NewWaitCloser(nil)
	label, err := sy.updateCheckpoint(wait, local, ids)
	if err != nil {
		return "err:" + err.Error(), ""
	}
	ro := NewRedisOutput(RedisOutputConfig{InputName: "vf", CheckpointName: local, RunId: label, EnableResumeFromBreakPoint: true, Redis: checkpoint.VfRedisCfg()})
	ro.newRedisConn = func(ctx context.Context) (client.Redis, error) { return checkpoint.VfConn(tg), nil }
	sp, err := ro.StartPoint(context.Background(), ids)
	if err != nil {
		return "err:" + err.Error(), label
	}
	if sp.RunId != ids[0] && sp.RunId != ids[1] {
		return "none", label
	}
	return fmt.Sprintf("%d@%d", sp.Offset, sp.DbId), label
}

func vfC17Start(t *testing.T, s *vfutil.Session, c *vfStCase, src string) {
	ids := []string{c.newId, c.oldId}
	tg := vfdoubles.NewTarget()
	st := &checkpoint.VfState{Busy: c.busy}
	st.Hash = append(st.Hash, [2]string{c.oldId, c.key})
	for i, d := range c.dbs {
		var fs [][2]string
		if !c.noMtime {
			fs = append(fs, [2]string{c.oldId + "_mtime", strconv.FormatInt(1700000000000000000-int64(i), 10)})
		}
		fs = append(fs, [2]string{c.oldId + "_runid", c.oldId}, [2]string{c.oldId + "_version", config.Version}, [2]string{c.oldId + "_offset", strconv.FormatInt(c.top-int64(i)*50, 10)})
		st.Items = append(st.Items, checkpoint.VfItem{Db: d, Key: c.key, Fields: fs})
	}
	st.Seed(tg)
	s.Count("start_" + src)
	rep := func(extra map[string]interface{}) map[string]interface{} {
		m := map[string]interface{}{"op": c.op()}
		for k, v := range extra {
			m[k] = v
		}
		return m
	}
	ge := func(a, b string) bool { // a >= b, same database
		pa, pb := strings.Split(a, "@"), strings.Split(b, "@")
		if len(pb) != 2 {
			return true
		}
		if len(pa) != 2 || pa[1] != pb[1] {
			return false
		}
		x, _ := strconv.ParseInt(pa[0], 10, 64)
		y, _ := strconv.ParseInt(pb[0], 10, 64)
		return x >= y
	}
	want := fmt.Sprintf("%d@%d", c.top, c.dbs[0])
	// 1. restart after the failover, before any continuation
	p0, label := vfC17RealStart(tg, c.local, ids)
	if !ge(p0, want) {
		s.Violate("start-loses-position", fmt.Sprintf("stored %s under the previous id; the restart (updateCheckpoint + StartPoint, ids [new, old]) reads %s", want, p0), rep(nil))
		return
	}
	if label != c.oldId {
		s.Count("start_relabelled_at_restart")
	}
	// 2. a continuation is granted: SetRunId(new id); every request prefix is a crash point
	ro := NewRedisOutput(RedisOutputConfig{InputName: "vf", CheckpointName: c.local, RunId: label, EnableResumeFromBreakPoint: true, Redis: checkpoint.VfRedisCfg()})
	ro.newRedisConn = func(ctx context.Context) (client.Redis, error) { return checkpoint.VfConn(tg), nil }
	n1 := tg.LogLen()
	if err := ro.SetRunId(context.Background(), c.newId); err != nil {
		s.Violate("setrunid-fails", err.Error(), rep(nil))
		return
	}
	log := tg.LogCopy()
	for i := n1; i < len(log); i++ {
		if _, ok := checkpoint.VfRenderWrite(log[i]); !ok {
			continue
		}
		tk := vfdoubles.Replay(log[:i+1], 0)
		pk, _ := vfC17RealStart(tk, c.local, ids)
		tk.CloseAll()
		s.Count("start_crash_points")
		if !ge(pk, p0) {
			s.Violate("setrunid-loses-position", fmt.Sprintf("position %s before SetRunId(new id); stopped after its request #%d (%s) the next start reads %s", p0, i-n1+1, log[i].String(), pk),
				rep(map[string]interface{}{"crash_after_request": i - n1 + 1, "before": p0, "after": pk}))
			return
		}
	}
	// 2b. error REPLIES instead of crashes: SetRunId retries by itself (RetryLinearJitter, virtual time)
	if !vfC17SetRunIdErrors(t, s, c, log[:n1], len(log), label, ids, p0, ge, rep) {
		return
	}
	// 3. the replay goes on under the new id (what sendCmdsBatch writes), in the database of the position
	d, _ := strconv.Atoi(strings.Split(p0, "@")[1])
	tg.Seed(d, "hset", c.local, c.newId+"_runid", c.newId, c.newId+"_version", config.Version)
	tg.Seed(d, "hset", c.local, c.newId+"_offset", strconv.FormatInt(c.top+500, 10))
	want2 := fmt.Sprintf("%d@%d", c.top+500, d)
	p2, _ := vfC17RealStart(vfdoubles.Replay(tg.LogCopy(), 0), c.local, ids)
	if !ge(p2, want2) {
		s.Violate("position-under-new-id-unreadable", fmt.Sprintf("after SetRunId the replay stored %s under the new id; a restart (ids [new, old]) reads %s", want2, p2), rep(nil))
		return
	}
	// 4. the source no longer reports the old id
	other := "eeeeeeeeeeeeeeeeeeeeeeeeeeeeeeeeeeeeeeee"
	p3, _ := vfC17RealStart(vfdoubles.Replay(tg.LogCopy(), 0), c.local, []string{c.newId, other})
	if !ge(p3, want2) {
		s.Violate("position-lost-when-old-id-is-gone", fmt.Sprintf("the replay stored %s under the new id; once the source stops reporting the old id a restart (ids [new, other]) reads %s", want2, p3), rep(nil))
		return
	}
	tg.CloseAll()
	s.Distinct(fmt.Sprintf("st|%v|%d|%v|%d", c.local == c.key, len(c.dbs), c.noMtime, c.dbs[0]))
}

// One request of SetRunId(new id) — any of them, reads included — is answered with an error (the connection
// stays usable; OOM / LOADING / READONLY style): the real SetRunId goes on as the code does (its own
// RetryLinearJitter, 4 s apart, under virtual time), then the real next start must read a position not
// smaller, in the same database (and, when SetRunId reported success, also once the old id is gone).
// Then the persistent variant: the target answers every request of SetRunId with an error until SetRunId gives
// up; the SAME process calls SetRunId again (RedisInput.Run loops with the same output), the replay goes on and
// stores a larger offset under the id SetRunId was asked for, the process stops; a NEW process starts, and at
// every prefix of ITS SetRunId the next start must still read that larger offset.
func vfC17SetRunIdErrors(t *testing.T, s *vfutil.Session, c *vfStCase, base []vfdoubles.LogEntry, nEnd int, label string,
	ids []string, p0 string, ge func(a, b string) bool, rep func(map[string]interface{}) map[string]interface{}) bool {
	n1 := len(base)
	const msg = "LOADING Redis is loading the dataset in memory"
	newOut := func(tg *vfdoubles.Target, runId string) *RedisOutput {
		ro := NewRedisOutput(RedisOutputConfig{InputName: "vf", CheckpointName: c.local, RunId: runId, EnableResumeFromBreakPoint: true, Redis: checkpoint.VfRedisCfg()})
		ro.newRedisConn = func(ctx context.Context) (client.Redis, error) { return checkpoint.VfConn(tg), nil }
		return ro
	}
	other := "eeeeeeeeeeeeeeeeeeeeeeeeeeeeeeeeeeeeeeee"
	single := func() bool {
		for j := n1; j < nEnd; j++ {
			fa := map[int]string{j: msg}
			var logF []vfdoubles.LogEntry
			var err error
			synctest.Test(t, func(t *testing.T) {
				tf := vfdoubles.Replay(base, 0)
				tf.FailAt[j] = msg
				err = newOut(tf, label).SetRunId(context.Background(), c.newId)
				tf.CloseAll()
				logF = tf.LogCopy()
			})
			if j >= len(logF) {
				// the run issued fewer requests than the fault-free one: the planted error reply was never reached
				s.Count("start_error_reply_unreached")
				continue
			}
			var issued []string
			for i := n1; i < len(logF); i++ {
				if l, ok := checkpoint.VfRenderWrite(logF[i]); ok && i != j {
					issued = append(issued, l)
				}
			}
			after := vfdoubles.ReplayFaults(logF, 0, false, fa)
			pk, _ := vfC17RealStart(after, c.local, ids)
			after.CloseAll()
			s.Count("start_error_reply_points")
			ex := map[string]interface{}{"failed_request": j - n1 + 1, "request": logF[j].String(), "setrunid_err": fmt.Sprint(err), "before": p0}
			if !ge(pk, p0) {
				ex["after"] = pk
				s.Violate("setrunid-error-reply-loses-position", fmt.Sprintf("position %s before SetRunId(new id); its request #%d (%s) got an error reply, SetRunId went on by itself (returned %v; writes after the failure: %s); the next start (ids [new, old]) reads %s",
					p0, j-n1+1, logF[j].String(), err, strings.Join(issued, " ; "), pk), rep(ex))
				return false
			}
			if err == nil {
				after2 := vfdoubles.ReplayFaults(logF, 0, false, fa)
				pk2, _ := vfC17RealStart(after2, c.local, []string{c.newId, other})
				after2.CloseAll()
				if !ge(pk2, p0) {
					ex["after"] = pk2
					s.Violate("setrunid-error-reply-loses-position", fmt.Sprintf("position %s before SetRunId(new id); its request #%d (%s) got an error reply, SetRunId went on by itself and reported success (writes after the failure: %s); once the old id is gone the next start (ids [new, other]) reads %s",
						p0, j-n1+1, logF[j].String(), strings.Join(issued, " ; "), pk2), rep(ex))
					return false
				}
			}
		}
		return true
	}
	persistent := func() bool {
		// the persistent variant
		d, _ := strconv.Atoi(strings.Split(p0, "@")[1])
		want := fmt.Sprintf("%d@%d", c.top+2000, d)
		var logP []vfdoubles.LogEntry
		var err1, err2 error
		nFailEnd := 0
		synctest.Test(t, func(t *testing.T) {
			tf := vfdoubles.Replay(base, 0)
			tf.FailFrom, tf.FailFromMsg = n1, msg
			ro := newOut(tf, label)
			err1 = ro.SetRunId(context.Background(), c.newId)
			nFailEnd = tf.LogLen()
			tf.FailFrom = -1
			err2 = ro.SetRunId(context.Background(), c.newId) // the next run() of the same process
			if err2 == nil {
				// the session goes on: what sendCmdsBatch writes, under the id of the stream
				tf.Seed(d, "hset", c.local, c.newId+"_runid", c.newId, c.newId+"_version", config.Version)
				tf.Seed(d, "hset", c.local, c.newId+"_offset", strconv.FormatInt(c.top+2000, 10))
			}
			tf.CloseAll()
			logP = tf.LogCopy()
		})
		s.Count("start_persistent_error_cases")
		if err1 == nil || err2 != nil {
			s.Count("start_persistent_error_skipped")
			return true
		}
		fa := map[int]string{}
		for i := n1; i < nFailEnd; i++ {
			fa[i] = msg
		}
		stopped := vfdoubles.ReplayFaults(logP, 0, false, fa)
		seedLog := stopped.LogCopy()
		_ = seedLog
		// the new process: start, then SetRunId(new) — every prefix of it a crash point
		stateLog := func() []vfdoubles.LogEntry { return vfdoubles.ReplayFaults(logP, 0, false, fa).LogCopy() }
		_ = stateLog
		p1, label1 := vfC17RealStart(stopped, c.local, ids)
		if !ge(p1, want) {
			s.Violate("position-after-failed-relabel-unreadable", fmt.Sprintf("SetRunId(new id) failed 3 times, the same process called it again (returned nil), the replay stored %s; a new process (ids [new, old]) reads %s", want, p1), rep(nil))
			stopped.CloseAll()
			return false
		}
		n2 := stopped.LogLen()
		if err := newOut(stopped, label1).SetRunId(context.Background(), c.newId); err != nil {
			stopped.CloseAll()
			s.Violate("setrunid-fails", err.Error(), rep(nil))
			return false
		}
		stopped.CloseAll()
		log2 := stopped.LogCopy()
		for i := n2; i < len(log2); i++ {
			l, ok := checkpoint.VfRenderWrite(log2[i])
			if !ok {
				continue
			}
			// (the faults were transient: `stopped` has none, its own log replays plainly)
			tk := vfdoubles.Replay(log2[:i+1], 0)
			pk, _ := vfC17RealStart(tk, c.local, ids)
			tk.CloseAll()
			s.Count("start_persistent_error_crash_points")
			if !ge(pk, want) {
				s.Violate("relabel-after-failed-relabel-loses-position", fmt.Sprintf("SetRunId(new id) failed 3 times (every request answered %q), the same process called SetRunId again: nil; the replay went on and stored %s; a NEW process reads %s at its start, then its SetRunId(new id), stopped after request #%d (%s): the next start reads %s",
					msg, want, p1, i-n2+1, l, pk), rep(map[string]interface{}{"crash_after_request": i - n2 + 1, "before": want, "after": pk}))
				return false
			}
		}
		return true
	}
	okP := persistent()
	okS := single()
	return okP && okS
}

func vfC17StartGen(r *vfutil.Rand) *vfStCase {
	c := &vfStCase{local: config.CheckpointKey, oldId: fmt.Sprintf("%x", r.Bytes(20)), newId: fmt.Sprintf("%x", r.Bytes(20)), top: int64(r.Range(1000, 900000)), noMtime: r.Chance(1, 2)}
	c.key = c.local
	if r.Chance(1, 4) {
		c.key = config.CheckpointKey + "-{06S}" // the key name changes as well (topology change)
	}
	dbs := []int{0, 0, 1, 2, 5}
	n := r.Range(1, 3)
	seen := map[int]bool{}
	for len(c.dbs) < n {
		d := dbs[r.Intn(len(dbs))]
		if !seen[d] {
			seen[d] = true
			c.dbs = append(c.dbs, d)
		}
	}
	if r.Bool() {
		c.busy = []int{r.Range(3, 9)}
	}
	return c
}

func vfC17StartParse(op string) *vfStCase {
	if !strings.HasPrefix(op, "c17st ") {
		return nil
	}
	kv := map[string]string{}
	for _, tok := range strings.Fields(op)[1:] {
		if i := strings.IndexByte(tok, '='); i > 0 {
			kv[tok[:i]] = tok[i+1:]
		}
	}
	top, _ := strconv.ParseInt(kv["top"], 10, 64)
	return &vfStCase{local: string(vfutil.UnHex(kv["local"])), key: string(vfutil.UnHex(kv["key"])), oldId: kv["old"], newId: kv["new"],
		dbs: checkpoint.VfUnInts(kv["dbs"]), top: top, noMtime: kv["nomtime"] == "true", busy: checkpoint.VfUnInts(kv["busy"])}
}

// The harnesses that cannot import this package (pkg/redis/checkpoint, cmd) judge "the next start" with
// checkpoint.VfNextStart, a transcription of syncer.updateCheckpoint + StartPoint. It is tied to the
// original here: on arbitrary bookkeeping states both must read the same position and leave the same state.
func vfC17TieNextStart(s *vfutil.Session, r *vfutil.Rand) {
	ids := []string{fmt.Sprintf("%x", r.Bytes(20)), fmt.Sprintf("%x", r.Bytes(20))}
	if r.Chance(1, 8) {
		ids[1] = ids[0]
	}
	pool := []string{ids[0], ids[1], fmt.Sprintf("%x", r.Bytes(20))}
	keys := []string{config.CheckpointKey, config.CheckpointKey + "-{06S}"}
	st := &checkpoint.VfState{}
	for _, id := range pool {
		if r.Chance(1, 2) {
			st.Hash = append(st.Hash, [2]string{id, keys[r.Intn(2)]})
		}
	}
	for _, d := range []int{0, 1, 3} {
		for _, k := range keys {
			if !r.Chance(1, 3) {
				continue
			}
			var fs [][2]string
			for _, id := range pool {
				if !r.Chance(1, 2) {
					continue
				}
				if r.Chance(2, 3) {
					fs = append(fs, [2]string{id + "_mtime", strconv.FormatInt(1700000000000000000+int64(r.Intn(5)), 10)})
				}
				if r.Chance(4, 5) {
					fs = append(fs, [2]string{id + "_runid", id}, [2]string{id + "_version", config.Version})
				}
				if r.Chance(4, 5) {
					fs = append(fs, [2]string{id + "_offset", strconv.FormatInt(int64(r.Range(-1, 5000)), 10)})
				}
			}
			if len(fs) > 0 {
				st.Items = append(st.Items, checkpoint.VfItem{Db: d, Key: k, Fields: fs})
			}
		}
	}
	tg := vfdoubles.NewTarget()
	st.Seed(tg)
	seed := tg.LogCopy()
	tg.CloseAll()
	dump := func(t *vfdoubles.Target) string { // the modification times written now differ between the two runs
		st := checkpoint.VfDumpState(t)
		for i := range st.Items {
			for j, f := range st.Items[i].Fields {
				if v, _ := strconv.ParseInt(f[1], 10, 64); strings.HasSuffix(f[0], "_mtime") && v > 1750000000000000000 {
					st.Items[i].Fields[j][1] = "now"
				}
			}
		}
		return st.Encode()
	}
	norm := func(p string) string { // offset -1 is the placeholder of a new key: no position, whatever database it was read in
		if strings.HasPrefix(p, "err") {
			return "err"
		}
		if strings.HasPrefix(p, "-") {
			return "none"
		}
		return p
	}
	// With equal offsets in two databases (or none readable) the result depends on the iteration order of a Go
	// map (getDbMap), which differs between two runs: a mismatch counts only if it persists over repeated runs.
	var real, copyRes string
	same := false
	for try := 0; try < 8 && !same; try++ {
		t1, t2 := vfdoubles.Replay(seed, 0), vfdoubles.Replay(seed, 0)
		real, _ = vfC17RealStart(t1, config.CheckpointKey, ids)
		copyRes = checkpoint.VfNextStart(t2, config.CheckpointKey, ids)
		real, copyRes = norm(real), norm(copyRes)
		same = real == copyRes && dump(t1) == dump(t2)
		t1.CloseAll()
		t2.CloseAll()
		if !same {
			s.Count("tie_next_start_retries")
		}
	}
	s.Count("tie_next_start")
	if !same {
		s.Violate("harness-next-start-differs", fmt.Sprintf("syncer.updateCheckpoint + RedisOutput.StartPoint read %s, the harness transcription VfNextStart reads %s (8 runs, never the same result and state)", real, copyRes),
			map[string]interface{}{"state": st.Encode(), "ids": ids})
	}
}

func TestVerifC17Start(t *testing.T) {
	s := vfutil.NewSession("C17st")
	defer s.Close()
	r := vfutil.NewRand(vfutil.Seed())
	for i, n := 0, vfutil.Scale(150, 3000); i < n; i++ {
		vfC17TieNextStart(s, r.Fork())
	}
	for _, l := range vfutil.Corpus("C17") {
		if c := vfC17StartParse(l); c != nil {
			vfC17Start(t, s, c, "corpus")
		}
	}
	n := vfutil.Scale(60, 700)
	for i := 0; i < n; i++ {
		vfC17Start(t, s, vfC17StartGen(r.Fork()), "gen")
	}
}
