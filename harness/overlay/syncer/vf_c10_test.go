//go:build verif

package syncer

// C10: the output filter as NewRedisOutput wires it (NoRouteCmds, the two
// reserved prefixes, the configured lists) and as parseAofCommand consults it.

import (
	"bufio"
	"bytes"
	"errors"
	"fmt"
	"io"
	"strconv"
	"strings"
	"testing"

	"github.com/mgtv-tech/redis-GunYu/config"
	"github.com/mgtv-tech/redis-GunYu/pkg/filter"
	usync "github.com/mgtv-tech/redis-GunYu/pkg/sync"
	"github.com/mgtv-tech/redis-GunYu/pkg/vfc10"
	"github.com/mgtv-tech/redis-GunYu/pkg/vfutil"
)

func vfC10Output(c vfc10.Cfg, r *vfutil.Rand) *RedisOutput {
	fc := config.FilterConfig{
		DbBlacklist:  config.SliceInt(c.DB),
		CmdBlacklist: config.SliceString(c.CB),
	}
	// a nil section and a section with empty lists must behave alike
	if len(c.PW)+len(c.PB) > 0 || r.Bool() {
		fc.KeyFilter = &config.FilterKeyConfig{PrefixKeyWhitelist: config.SliceString(c.PW), PrefixKeyBlacklist: config.SliceString(c.PB)}
	}
	if len(c.SW)+len(c.SB) > 0 || r.Bool() {
		fc.SlotFilter = &config.FilterSlotConfig{KeySlotWhitelist: config.DoubleSliceUint16(c.SW), KeySlotBlacklist: config.DoubleSliceUint16(c.SB)}
	}
	return NewRedisOutput(RedisOutputConfig{
		InputName: "vf-c10",
		TargetDb:  -1,
		Redis:     config.RedisConfig{Type: config.RedisTypeStandalone},
		Filter:    fc,
	})
}

func vfC10Encode(cmds [][][]byte) []byte {
	var b bytes.Buffer
	for _, args := range cmds {
		b.WriteString("*" + strconv.Itoa(len(args)) + "\r\n")
		for _, a := range args {
			b.WriteString("$" + strconv.Itoa(len(a)) + "\r\n")
			b.Write(a)
			b.WriteString("\r\n")
		}
	}
	return b.Bytes()
}

func vfC10Lower(s string) string {
	b := []byte(s)
	for i, c := range b {
		if 'A' <= c && c <= 'Z' {
			b[i] = c + 32
		}
	}
	return string(b)
}

// vfC10Parse runs the real parser loop over the commands and renders what it
// queued for the target: "S<db>" for a select, "F@<db>:<name,args…>" for a
// command, "E" when the parser stopped with an error other than EOF.
func vfC10Parse(ro *RedisOutput, cmds [][][]byte) (out []string, pan string) {
	sendBuf := make(chan cmdExecution, len(cmds)+4)
	quit := usync.NewWaitCloser(nil)
	var err error
	func() {
		defer func() {
			if r := recover(); r != nil {
				pan = fmt.Sprint(r)
			}
		}()
		err = ro.parseAofCommand(quit, bufio.NewReader(bytes.NewReader(vfC10Encode(cmds))), 0, sendBuf)
	}()
	close(sendBuf)
	if pan != "" {
		return []string{"panic"}, pan
	}
	for ce := range sendBuf {
		if ce.Cmd == "select" && len(ce.Args) == 1 && ce.Db >= 0 && string(ce.Args[0].([]byte)) == strconv.Itoa(ce.Db) {
			out = append(out, "S"+strconv.Itoa(ce.Db))
			continue
		}
		all := [][]byte{[]byte(ce.Cmd)}
		for _, a := range ce.Args {
			all = append(all, a.([]byte))
		}
		out = append(out, "F@"+strconv.Itoa(ce.Db)+":"+vfc10.ArgList(all))
	}
	if !errors.Is(err, io.EOF) {
		out = append(out, "E")
	}
	return
}

// vfC10WantParse evaluates the property on the same command sequence with the
// oracle's rule predicates: a command reaches the target iff its database
// (last SELECT) is not blacklisted, its name is not blacklisted, it is not the
// sentinel hello, and its keys are accepted (projection for DEL/UNLINK/MSET).
func vfC10WantParse(eff vfc10.Cfg, cmds [][][]byte) (out []string) {
	bypass, cur := false, -1
	for _, c := range cmds {
		name, argv := vfC10Lower(string(c[0])), c[1:]
		if name == "select" {
			if len(argv) != 1 {
				return append(out, "E")
			}
			n, err := strconv.Atoi(string(argv[0]))
			if err != nil {
				return append(out, "E")
			}
			bypass = vfc10.WantFilterDb(eff, n)
			if bypass {
				continue
			}
			na, rej, _ := vfc10.WantFilterCmdKey(eff, name, argv)
			if rej {
				continue
			}
			if n >= 0 {
				if n != cur {
					cur = n
					out = append(out, "S"+strconv.Itoa(n))
				}
				continue
			}
			// a negative index is not a database switch: passed on like any command
			out = append(out, "F@"+strconv.Itoa(cur)+":"+vfc10.ArgList(append([][]byte{[]byte(name)}, na...)))
			continue
		}
		if name != "ping" {
			if vfc10.WantFilterCmd(eff, name) {
				continue
			}
			if name == "publish" && len(argv) > 0 && vfC10Lower(string(argv[0])) == "__sentinel__:hello" {
				continue
			}
		}
		// transaction brackets are handed to the sender whatever the database filter says (the
		// sender absorbs them: they never reach the target as commands); a withheld EXEC would
		// leave the sender inside the transaction
		if bypass && name != "multi" && name != "exec" {
			continue
		}
		na, rej, _ := vfc10.WantFilterCmdKey(eff, name, argv)
		if rej {
			continue
		}
		out = append(out, "F@"+strconv.Itoa(cur)+":"+vfc10.ArgList(append([][]byte{[]byte(name)}, na...)))
	}
	return
}

func vfC10GenStream(r *vfutil.Rand, eff vfc10.Cfg) [][][]byte {
	n := r.Range(1, 14)
	var cmds [][][]byte
	for i := 0; i < n; i++ {
		switch r.Intn(12) {
		case 0, 1: // select: listed / unlisted / odd spellings
			var a []byte
			switch r.Intn(8) {
			case 0:
				a = []byte("+" + strconv.Itoa(r.Intn(17)))
			case 1:
				a = []byte("0" + strconv.Itoa(r.Intn(17)))
			case 2:
				if r.Chance(1, 4) {
					a = []byte("x") // parser error
				} else {
					a = []byte(strconv.Itoa(r.Intn(17)))
				}
			default:
				if len(eff.DB) > 0 && r.Bool() {
					a = []byte(strconv.Itoa(vfutil.Pick(r, eff.DB)))
				} else {
					a = []byte(strconv.Itoa(r.Intn(17)))
				}
			}
			name := vfutil.Pick(r, []string{"SELECT", "select", "Select"})
			cmds = append(cmds, [][]byte{[]byte(name), a})
		case 2: // blacklisted command names in any case
			if len(eff.CB) > 0 {
				b := vfutil.Pick(r, eff.CB)
				if b != "" && vfC10Lower(b) != "select" {
					cmds = append(cmds, [][]byte{[]byte(b), vfc10.GenKey(r, eff)})
					continue
				}
			}
			fallthrough
		case 3:
			cmds = append(cmds, [][]byte{[]byte(vfutil.Pick(r, []string{"PING", "ping"}))})
		case 4:
			ch := vfutil.Pick(r, []string{"__sentinel__:hello", "__SENTINEL__:HELLO", "__sentinel__:hell", "news"})
			cmds = append(cmds, [][]byte{[]byte(vfutil.Pick(r, []string{"PUBLISH", "publish"})), []byte(ch), r.Bytes(3)})
		default:
			name, args := vfc10.GenCommand(r, eff)
			l := vfC10Lower(name)
			ascii := true
			for i := 0; i < len(name); i++ {
				if name[i] >= 0x80 {
					ascii = false
				}
			}
			// command names are ASCII (ParseArgs lower-cases with Unicode rules and would
			// rewrite invalid UTF-8 in the name); PUBLISH always has a channel argument
			if !ascii || name == "" || l == "select" || (l == "publish" && len(args) == 0) {
				name, args = "set", [][]byte{vfc10.GenKey(r, eff), []byte("v")}
			}
			cmds = append(cmds, append([][]byte{[]byte(name)}, args...))
		}
	}
	return cmds
}

func vfC10Cmds(cmds [][][]byte) string {
	p := make([]string, len(cmds))
	for i, c := range cmds {
		p[i] = vfc10.ArgList(c)
	}
	return strings.Join(p, " ")
}

func TestVerifC10(t *testing.T) {
	s := vfutil.NewSession("C10out")
	defer s.Close()
	r := vfutil.NewRand(vfutil.Seed() ^ 0xC10)
	e := &vfc10.Env{
		S:       s,
		Mode:    "O",
		Make:    func(c vfc10.Cfg) vfc10.Filter { return vfC10Output(c, r).outFilter },
		ExtraCB: append([]string{}, filter.NoRouteCmds...),
		ExtraPB: []string{config.CheckpointKey, config.NamespacePrefixKey},
	}

	parseOp := func(c vfc10.Cfg, cmds [][][]byte, src string) {
		ro := vfC10Output(c, r)
		gotL, pan := vfC10Parse(ro, cmds)
		got := strings.Join(gotL, " ")
		if got == "" {
			got = "."
		}
		line := "c10 parse O " + c.Fields() + " " + vfC10Cmds(cmds)
		s.Op(line, got)
		if pan != "" {
			s.Count("parse_panic")
			s.Violate("FilterCmdKey-panic", "parseAofCommand panics: "+pan,
				map[string]interface{}{"mode": "O", "cfg": c.Fields(), "op": line, "panic": pan})
			return
		}
		want := strings.Join(vfC10WantParse(e.Eff(c), cmds), " ")
		if want == "" {
			want = "."
		}
		s.Count("parse_" + src)
		s.Add("parse_cmds", len(cmds))
		if got != want {
			s.Violate("parseAofCommand", fmt.Sprintf("target command log differs from the configured rules: got %q want %q", got, want),
				map[string]interface{}{"mode": "O", "cfg": c.Fields(), "op": line, "got": got, "want": want})
		} else if got != "." {
			s.Distinct("p:" + line)
		}
	}

	for _, l := range vfutil.Corpus("C10") {
		if e.RunLine(l) {
			continue
		}
		t := strings.Fields(l)
		if len(t) >= 10 && t[0] == "c10" && t[1] == "parse" && t[2] == "O" {
			c, err := vfc10.ParseCfg(t[3:10])
			if err != nil {
				panic(err)
			}
			var cmds [][][]byte
			for _, f := range t[10:] {
				a, err := vfc10.ParseArgList(f)
				if err != nil || len(a) == 0 {
					panic("corpus parse line: " + l)
				}
				cmds = append(cmds, a)
			}
			parseOp(c, cmds, "corpus")
		}
	}

	nCfg := vfutil.Scale(400, 8000)
	for i := 0; i < nCfg; i++ {
		e.RunGenerated(r, 1, 15, 25)
		c := vfc10.GenCfg(r, "O")
		eff := e.Eff(c)
		for j := 0; j < 6; j++ {
			parseOp(c, vfC10GenStream(r, eff), "gen")
		}
	}
}
