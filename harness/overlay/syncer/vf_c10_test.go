//go:build verif

package syncer

// C10: the output filter as NewRedisOutput wires it (NoRouteCmds, the two
// reserved prefixes, the configured lists) and as parseAofCommand consults it.

import (
	"bufio"
	"bytes"
	"context"
	"errors"
	"fmt"
	"io"
	"sort"
	"strconv"
	"strings"
	"testing"
	"testing/synctest"
	"time"

	"github.com/mgtv-tech/redis-GunYu/config"
	"github.com/mgtv-tech/redis-GunYu/pkg/filter"
	"github.com/mgtv-tech/redis-GunYu/pkg/rdb"
	"github.com/mgtv-tech/redis-GunYu/pkg/redis/client"
	"github.com/mgtv-tech/redis-GunYu/pkg/redis/client/conn"
	"github.com/mgtv-tech/redis-GunYu/pkg/redis/keyspec"
	usync "github.com/mgtv-tech/redis-GunYu/pkg/sync"
	"github.com/mgtv-tech/redis-GunYu/pkg/vfc10"
	"github.com/mgtv-tech/redis-GunYu/pkg/vfc20"
	"github.com/mgtv-tech/redis-GunYu/pkg/vfdoubles"
	"github.com/mgtv-tech/redis-GunYu/pkg/vfutil"
)

// vfC10Dbs is the database side of a RedisOutput: TargetDb, TargetDbMap, startDbId.
type vfC10Dbs struct {
	tdb   int
	m     map[int]int
	sdb   int
	probe string // SyncDelayTestKey
}

func (d vfC10Dbs) mapStr() string {
	if len(d.m) == 0 {
		return "-"
	}
	var ks []int
	for k := range d.m {
		ks = append(ks, k)
	}
	sort.Ints(ks)
	p := make([]string, len(ks))
	for i, k := range ks {
		p[i] = fmt.Sprintf("%d:%d", k, d.m[k])
	}
	return strings.Join(p, ",")
}

func (d vfC10Dbs) target(origin int) int {
	if d.tdb != -1 {
		return d.tdb
	}
	if t, ok := d.m[origin]; ok {
		return t
	}
	return origin
}

func vfC10FilterConfig(c vfc10.Cfg, r *vfutil.Rand) config.FilterConfig {
	fc := config.FilterConfig{
		DbBlacklist:  config.SliceInt(c.DB),
		CmdBlacklist: config.SliceString(c.CB),
	}
	// a nil section and a section with empty lists must behave alike
	if len(c.PW)+len(c.PB) > 0 || r.Bool() {
		fc.KeyFilter = &config.FilterKeyConfig{PrefixKeyWhitelist: config.SliceString(c.PW), PrefixKeyBlacklist: config.SliceString(c.PB)}
	}
	if len(c.SW)+len(c.SB) > 0 || r.Bool() {
		fc.SlotFilter = &config.FilterSlotConfig{KeySlotWhitelist: config.DoubleSliceUint16(c.SW), KeySlotBlacklist: config.DoubleSliceUint16(c.SB)}
	}
	return fc
}

// coverage of the options drawn for the outputs of the parser sessions (flushed into the session's counters)
var vfC10OptCount = map[string]int{}

func vfC10OutputDbs(c vfc10.Cfg, r *vfutil.Rand, d vfC10Dbs) *RedisOutput {
	// dimensions no rule of C10 depends on are drawn too: the kind of target, the delay probe key
	typ := config.RedisTypeStandalone
	if r.Chance(1, 3) {
		typ = config.RedisTypeCluster
	}
	ro := NewRedisOutput(RedisOutputConfig{
		InputName:        "vf-c10",
		TargetDb:         d.tdb,
		TargetDbMap:      d.m,
		Redis:            config.RedisConfig{Type: typ},
		Filter:           vfC10FilterConfig(c, r),
		SyncDelayTestKey: d.probe,
		ReplaceHashTag:   r.Chance(1, 8),
	})
	ro.startDbId = d.sdb
	vfC10OptCount[fmt.Sprintf("cfg_redisType_cluster_%v", typ == config.RedisTypeCluster)]++
	vfC10OptCount[fmt.Sprintf("cfg_replaceHashTag_parser_%v", ro.cfg.ReplaceHashTag)]++
	vfC10OptCount[fmt.Sprintf("cfg_syncDelayTestKey_set_%v", d.probe != "")]++
	vfC10OptCount[fmt.Sprintf("cfg_keyFilterSection_nil_%v", ro.cfg.Filter.KeyFilter == nil)]++
	vfC10OptCount[fmt.Sprintf("cfg_slotFilterSection_nil_%v", ro.cfg.Filter.SlotFilter == nil)]++
	return ro
}

// vfC10Plain is the filter of a plain link as its consumers apply it: outFilter, then the
// bisync control namespace filter (parseAofCommand: FilterCmdKey of one after the other;
// rdbReplay: FilterKey of either).
type vfC10Plain struct{ out, ns *filter.RedisKeyFilter }

func (p vfC10Plain) FilterCmd(cmd string) bool  { return p.out.FilterCmd(cmd) }
func (p vfC10Plain) FilterDb(db int) bool       { return p.out.FilterDb(db) }
func (p vfC10Plain) FilterSlot(key string) bool { return p.out.FilterSlot(key) }
func (p vfC10Plain) FilterKey(key string) bool  { return p.out.FilterKey(key) || p.ns.FilterKey(key) }
func (p vfC10Plain) FilterCmdKey(cmd string, args [][]byte) ([][]byte, bool) {
	a, rej := p.out.FilterCmdKey(cmd, args)
	if rej {
		return a, rej
	}
	return p.ns.FilterCmdKey(cmd, a)
}

func vfC10Output(c vfc10.Cfg, r *vfutil.Rand) *RedisOutput {
	return vfC10OutputDbs(c, r, vfC10Dbs{tdb: -1})
}

func vfC10Encode(cmds [][][]byte) []byte {
	var b bytes.Buffer
	for _, args := range cmds {
		b.WriteString("*" + strconv.Itoa(len(args)) + "\r\n")
		for _, a := range args {
			b.WriteString("$" + strconv.Itoa(len(a)) + "\r\n")
			b.Write(a)
			b.WriteString("\r\n")
		}
	}
	return b.Bytes()
}

func vfC10Lower(s string) string {
	b := []byte(s)
	for i, c := range b {
		if 'A' <= c && c <= 'Z' {
			b[i] = c + 32
		}
	}
	return string(b)
}

// vfC10Ends are the end offsets of the encoded commands (start offset 0).
func vfC10Ends(cmds [][][]byte) []int {
	ends := make([]int, len(cmds))
	off := 0
	for i, c := range cmds {
		off += len(vfC10Encode([][][]byte{c}))
		ends[i] = off
	}
	return ends
}

// vfC10Parse runs the real parser loop over the commands and renders what it
// handed to the sender: "S<db>#<off>" for a select, "F@<db>#<off>:<name,args…>"
// for a command, "E" when the parser stopped with an error other than EOF.
func vfC10Parse(ro *RedisOutput, cmds [][][]byte) (out []string, pan string) {
	sendBuf := make(chan cmdExecution, len(cmds)+4)
	quit := usync.NewWaitCloser(nil)
	var err error
	func() {
		defer func() {
			if r := recover(); r != nil {
				pan = fmt.Sprint(r)
			}
		}()
		err = ro.parseAofCommand(quit, bufio.NewReader(bytes.NewReader(vfC10Encode(cmds))), 0, sendBuf)
	}()
	close(sendBuf)
	if pan != "" {
		return []string{"panic"}, pan
	}
	for ce := range sendBuf {
		if ce.Cmd == "select" && len(ce.Args) == 1 && ce.Db >= 0 && string(ce.Args[0].([]byte)) == strconv.Itoa(ce.Db) {
			out = append(out, fmt.Sprintf("S%d#%d", ce.Db, ce.Offset))
			continue
		}
		all := [][]byte{[]byte(ce.Cmd)}
		for _, a := range ce.Args {
			all = append(all, a.([]byte))
		}
		out = append(out, fmt.Sprintf("F@%d#%d:%s", ce.Db, ce.Offset, vfc10.ArgList(all)))
	}
	if !errors.Is(err, io.EOF) {
		out = append(out, "E")
	}
	return
}

// vfC10Sent extracts the filter decision from what the parser handed to the
// sender: the data commands (name and arguments) in order. Offsets, database
// selection / elision, PING and transaction brackets are the business of the
// model diff and of C01/C02/C09, not of this monitor.
func vfC10Sent(tokens []string) (out []string) {
	for _, tk := range tokens {
		if !strings.HasPrefix(tk, "F@") {
			continue
		}
		i := strings.Index(tk, ":")
		cmd := tk[i+1:]
		name := cmd
		if j := strings.Index(cmd, ","); j >= 0 {
			name = cmd[:j]
		}
		switch string(vfutil.UnHex(name)) {
		case "ping", "multi", "exec", "select":
			continue
		}
		out = append(out, cmd)
	}
	return
}

// ---------------------------------------------------------------- bisync parser

// vfC10BisyncParse runs the REAL bisync parser (syncer/bisync.go
// parseAofReplayUnits, standalone mode) and renders its units.
func vfC10BisyncParse(c vfc10.Cfg, r *vfutil.Rand, cmds [][][]byte, cluster bool) (out []string, flat [][][]byte, pan string) {
	typ := config.RedisTypeStandalone
	if cluster {
		typ = config.RedisTypeCluster
	}
	ro := NewRedisOutput(RedisOutputConfig{
		InputName:     "vf-c10",
		BisyncEnabled: true,
		BatchCmdCount: 8,
		TargetDb:      -1,
		Redis:         config.RedisConfig{Type: typ},
		Filter:        vfC10FilterConfig(c, r),
	})
	// commands the static table does not resolve fall back to COMMAND GETKEYS on the target: no target here
	ro.newRedisConn = func(context.Context) (client.Redis, error) { return nil, errors.New("no target") }
	wait := usync.NewWaitCloser(nil)
	unitBuf := make(chan *bisyncReplayUnit, len(cmds)+4)
	var err error
	func() {
		defer func() {
			if rc := recover(); rc != nil {
				pan = fmt.Sprint(rc)
			}
		}()
		err = ro.parseAofReplayUnits(wait, bufio.NewReader(bytes.NewReader(vfC10Encode(cmds))), 0, unitBuf)
	}()
	if pan != "" {
		return []string{"panic"}, nil, pan
	}
	for u := range unitBuf {
		p := make([]string, len(u.Commands))
		for i, bc := range u.Commands {
			all := append([][]byte{[]byte(bc.Cmd)}, bc.Args...)
			p[i] = vfc10.ArgList(all)
			flat = append(flat, all)
		}
		tag := "U:"
		if u.SourceTxn {
			tag = "T:"
		}
		out = append(out, tag+strings.Join(p, "|"))
	}
	switch {
	case err == nil || errors.Is(err, io.EOF) && !strings.Contains(err.Error(), "unexpected EOF while parsing transaction"):
	case strings.Contains(err.Error(), "unexpected EOF while parsing transaction"):
		out = append(out, "eof-in-txn")
	default:
		out = append(out, "E")
	}
	return
}

// vfC10Allowed is what the configured rules let through, command by command
// (no database mapping, no transaction handling): the bisync parser may drop
// more (its own control traffic, mirrored transactions, SELECT, PING) but must
// never emit anything else.
func vfC10Allowed(eff vfc10.Cfg, cmds [][][]byte) (out [][][]byte) {
	bypass := false
	for _, c := range cmds {
		name, argv := vfC10Lower(string(c[0])), c[1:]
		if name == "select" {
			if len(argv) != 1 {
				return
			}
			n, err := strconv.Atoi(string(argv[0]))
			if err != nil {
				return // the parser stops at a malformed SELECT
			}
			bypass = vfc10.WantFilterDb(eff, n)
			continue
		}
		if name == "ping" || name == "multi" || name == "exec" {
			continue
		}
		if bypass || vfc10.WantFilterCmd(eff, name) {
			continue
		}
		if name == "publish" && len(argv) > 0 && vfC10Lower(string(argv[0])) == "__sentinel__:hello" {
			continue
		}
		na, rej, _ := vfc10.WantFilterCmdKey(eff, name, argv)
		if rej {
			continue
		}
		out = append(out, append([][]byte{[]byte(name)}, na...))
	}
	return
}

// vfC10Judgeable: the stream holds no MSET with a dangling key (no source propagates one; the
// property does not define its projection, the model diff covers it)
func vfC10Judgeable(cmds [][][]byte) bool {
	for _, c := range cmds {
		if vfC10Lower(string(c[0])) == "mset" && len(c)%2 == 0 {
			return false
		}
	}
	return true
}

func vfC10SameCmd(a, b [][]byte) bool {
	if len(a) != len(b) {
		return false
	}
	for i := range a {
		if !bytes.Equal(a[i], b[i]) {
			return false
		}
	}
	return true
}

// vfC10Subseq: every element of got appears in want, in order.
func vfC10Subseq(got, want [][][]byte) bool {
	j := 0
	for _, g := range got {
		for j < len(want) && !vfC10SameCmd(g, want[j]) {
			j++
		}
		if j == len(want) {
			return false
		}
		j++
	}
	return true
}

// ---------------------------------------------------------------- snapshot path

type vfC10Ent struct {
	db  int
	key []byte
}

// vfC10RdbRun feeds the entries the REAL rdb.Loader produces from a snapshot of
// string keys to the REAL worker loop (RedisOutput.rdbReplay, or
// rdbReplayBisync) against the target double, and reports which entries
// arrived in the target.
// options of the snapshot path no rule of C10 depends on, drawn per run (dimension audit): worker count, keyExists policy,
// and - in the forced single-entry cases only - replaceHashTag (the entry is then looked up under its target key)
var vfC10RdbOpt = struct {
	replace   bool
	parallel  int
	keyExists string
}{false, 1, "replace"}

func vfC10RdbTarget(k []byte) []byte {
	if !vfC10RdbOpt.replace {
		return k
	}
	k = bytes.Replace(k, []byte("{"), nil, 1)
	return bytes.Replace(k, []byte("}"), nil, 1)
}

func vfC10RdbRun(t *testing.T, c vfc10.Cfg, r *vfutil.Rand, ents []vfC10Ent, bisync bool) (kept []bool, runErr error) {
	kvs := make([]vfc20.KV, len(ents))
	for i, e := range ents {
		kvs[i] = vfc20.KV{DB: e.db, Key: e.key, Type: 0, Str: []byte("v")}
	}
	bins, err := vfc20.Load(vfc20.BuildRDB(kvs, vfc20.Opts{Aux: true}), 0, "7.0.0")
	if err != nil {
		panic("C10: generated snapshot rejected by the loader: " + err.Error())
	}
	kept = make([]bool, len(ents))
	fc := vfC10FilterConfig(c, r)
	synctest.Test(t, func(t *testing.T) {
		vfc20.SettleClock()
		tg := vfdoubles.NewTarget()
		tg.SetNow(time.Now().UnixMilli())
		cfg := RedisOutputConfig{
			InputName:                  "vf",
			CheckpointName:             "vfcp",
			RunId:                      "vfrun",
			BisyncEnabled:              bisync,
			EnableResumeFromBreakPoint: true,
			TargetDb:                   -1,
			KeyExists:                  vfC10RdbOpt.keyExists,
			ReplaceHashTag:             vfC10RdbOpt.replace,
			MaxProtoBulkLen:            512 << 20,
			ReplayRdbEnableRestore:     false,
			ReplayRdbParallel:          vfC10RdbOpt.parallel,
			Stats:                      config.OutputStats{DisableLog: true},
			Filter:                     fc,
		}
		cfg.Redis.Type = config.RedisTypeStandalone
		cfg.Redis.Otype = config.RedisTypeStandalone
		cfg.Redis.Addresses = config.SliceString{"double:0"}
		cfg.Redis.Version = "7.0.0"
		ro := NewRedisOutput(cfg)
		rc := ro.cfg.Redis
		ro.newRedisConn = func(ctx context.Context) (client.Redis, error) {
			return conn.VerifNewRedisConn(tg.Dial(), rc), nil
		}
		pipe := make(chan *rdb.BinEntry, len(bins)+1)
		for _, e := range bins {
			pipe <- e
		}
		close(pipe)
		if bisync {
			runErr = ro.rdbReplayBisync(context.Background(), "vfrun", 5000, pipe)
		} else {
			runErr = ro.rdbReplay(context.Background(), pipe)
		}
		synctest.Wait()
		tg.CloseAll()
		for i, e := range ents {
			kept[i] = tg.Get(e.db, string(vfC10RdbTarget(e.key))) != nil
		}
	})
	return
}

func vfC10GenStream(r *vfutil.Rand, eff vfc10.Cfg) [][][]byte {
	n := r.Range(1, 14)
	var cmds [][][]byte
	for i := 0; i < n; i++ {
		switch r.Intn(12) {
		case 0, 1: // select: listed / unlisted / odd spellings
			var a []byte
			switch r.Intn(8) {
			case 0:
				a = []byte("+" + strconv.Itoa(r.Intn(17)))
			case 1:
				a = []byte("0" + strconv.Itoa(r.Intn(17)))
			case 2:
				if r.Chance(1, 4) {
					a = []byte("x") // parser error
				} else {
					a = []byte(strconv.Itoa(r.Intn(17)))
				}
			default:
				if len(eff.DB) > 0 && r.Bool() {
					a = []byte(strconv.Itoa(vfutil.Pick(r, eff.DB)))
				} else {
					a = []byte(strconv.Itoa(r.Intn(17)))
				}
			}
			name := vfutil.Pick(r, []string{"SELECT", "select", "Select"})
			cmds = append(cmds, [][]byte{[]byte(name), a})
		case 2: // blacklisted command names in any case
			if len(eff.CB) > 0 {
				b := vfutil.Pick(r, eff.CB)
				if b != "" && vfC10Lower(b) != "select" {
					cmds = append(cmds, [][]byte{[]byte(b), vfc10.GenKey(r, eff)})
					continue
				}
			}
			fallthrough
		case 3:
			cmds = append(cmds, [][]byte{[]byte(vfutil.Pick(r, []string{"PING", "ping"}))})
		case 5: // transaction brackets (also around a SELECT: the D23 exec rule)
			cmds = append(cmds, [][]byte{[]byte(vfutil.Pick(r, []string{"MULTI", "multi", "EXEC", "exec", "Exec"}))})
		case 4:
			ch := vfutil.Pick(r, []string{"__sentinel__:hello", "__SENTINEL__:HELLO", "__sentinel__:hell", "news"})
			cmds = append(cmds, [][]byte{[]byte(vfutil.Pick(r, []string{"PUBLISH", "publish"})), []byte(ch), r.Bytes(3)})
		default:
			name, args := vfc10.GenCommand(r, eff)
			l := vfC10Lower(name)
			ascii := true
			for i := 0; i < len(name); i++ {
				if name[i] >= 0x80 {
					ascii = false
				}
			}
			// command names are ASCII (ParseArgs lower-cases with Unicode rules and would
			// rewrite invalid UTF-8 in the name); PUBLISH always has a channel argument
			if !ascii || name == "" || l == "select" || (l == "publish" && len(args) == 0) {
				name, args = "set", [][]byte{vfc10.GenKey(r, eff), []byte("v")}
			}
			cmds = append(cmds, append([][]byte{[]byte(name)}, args...))
		}
	}
	return cmds
}

func vfC10Cmds(cmds [][][]byte) string {
	p := make([]string, len(cmds))
	for i, c := range cmds {
		p[i] = vfc10.ArgList(c)
	}
	return strings.Join(p, " ")
}

// vfC10GenBisyncStream: like vfC10GenStream, but every data command is one the
// static key table resolves (the bisync parser stops at the first command it
// cannot route), and transactions come as balanced MULTI … EXEC blocks.
func vfC10GenBisyncStream(r *vfutil.Rand, eff vfc10.Cfg) [][][]byte {
	var out [][][]byte
	data := func() [][]byte {
		for tries := 0; tries < 6; tries++ {
			name, args := vfc10.GenCommand(r, eff)
			func() {
				defer func() { recover() }()
				if idx, ok := keyspec.CommandKeyIndexes(name, args); ok && len(idx) > 0 {
					out = append(out, append([][]byte{[]byte(name)}, args...))
				}
			}()
			if len(out) > 0 {
				c := out[len(out)-1]
				out = out[:len(out)-1]
				ascii := true
				for i := 0; i < len(c[0]); i++ {
					if c[0][i] >= 0x80 {
						ascii = false
					}
				}
				if ascii {
					return c
				}
			}
		}
		return [][]byte{[]byte("set"), vfc10.GenKey(r, eff), []byte("v")}
	}
	for _, c := range vfC10GenStream(r, eff) {
		n := vfC10Lower(string(c[0]))
		switch {
		case n == "select" || n == "ping" || n == "publish":
			out = append(out, c)
		case n == "multi" || n == "exec":
			if r.Chance(1, 8) {
				out = append(out, c) // stray bracket: parser error
				continue
			}
			out = append(out, [][]byte{[]byte("MULTI")})
			for i, k := 0, r.Intn(4); i < k; i++ {
				out = append(out, data())
			}
			out = append(out, [][]byte{[]byte("exec")})
		default:
			if len(eff.CB) > 0 && r.Chance(1, 10) {
				out = append(out, c) // possibly blacklisted / unresolved name
			} else {
				out = append(out, data())
			}
		}
	}
	return out
}

func vfC10GenDbs(r *vfutil.Rand, c vfc10.Cfg) vfC10Dbs {
	d := vfC10Dbs{tdb: -1}
	switch r.Intn(6) {
	case 0:
		d.tdb = r.Intn(5)
	case 1, 2:
		d.m = map[int]int{}
		for i, n := 0, r.Range(1, 4); i < n; i++ {
			d.m[r.Intn(17)] = r.Intn(17)
		}
	}
	if r.Chance(1, 3) {
		d.sdb = r.Range(1, 16)
		if len(c.DB) > 0 && r.Bool() {
			d.sdb = vfutil.Pick(r, c.DB) // resumed inside a listed database
		}
	}
	return d
}

func vfC10ParseCmds(fields []string) [][][]byte {
	var cmds [][][]byte
	for _, f := range fields {
		if i := strings.Index(f, "/"); i >= 0 { // "<endoff>/<cmd>": offsets are recomputed
			f = f[i+1:]
		}
		a, err := vfc10.ParseArgList(f)
		if err != nil || len(a) == 0 {
			panic("corpus line: bad command " + f)
		}
		cmds = append(cmds, a)
	}
	return cmds
}

func TestVerifC10(t *testing.T) {
	s := vfutil.NewSession("C10out")
	defer s.Close()
	r := vfutil.NewRand(vfutil.Seed() ^ 0xC10)
	e := &vfc10.Env{
		S:       s,
		Mode:    "O",
		Make: func(c vfc10.Cfg) vfc10.Filter {
			ro := vfC10Output(c, r)
			return vfC10Plain{ro.outFilter, ro.bisyncNsFilter}
		},
		ExtraCB: append([]string{}, filter.NoRouteCmds...),
		// the documented bookkeeping namespaces (NOT read from the wiring under test)
		ExtraPB: append([]string{}, vfc10.BookkeepingNamespaces...),
	}
	// a bisync link's filter does not list the bisync namespace (its parser needs the markers
	// and drops control traffic itself); its snapshot loop rejects the namespace explicitly
	effB := func(c vfc10.Cfg) vfc10.Cfg {
		x := e.Eff(c)
		x.PB = append([]string{"redis-gunyu-checkpoint", "/redis-gunyu"}, c.PB...)
		return x
	}
	dot := func(l []string) string {
		if len(l) == 0 {
			return "."
		}
		return strings.Join(l, " ")
	}

	// ---- parser loop (parseAofCommand)
	parseOp := func(c vfc10.Cfg, d vfC10Dbs, cmds [][][]byte, src string) {
		ro := vfC10OutputDbs(c, r, d)
		gotL, pan := vfC10Parse(ro, cmds)
		got := dot(gotL)
		ends := vfC10Ends(cmds)
		toks := make([]string, len(cmds))
		for i, cm := range cmds {
			toks[i] = strconv.Itoa(ends[i]) + "/" + vfc10.ArgList(cm)
		}
		line := fmt.Sprintf("c10 parse O %s %d %s %d %s", c.Fields(), d.tdb, d.mapStr(), d.sdb, strings.Join(toks, " "))
		if d.probe != "" {
			s.Count("parse_probe_cfg")
		}
		s.Op(line, got)
		if pan != "" {
			s.Count("parse_panic")
			s.Violate("FilterCmdKey-panic", "parseAofCommand panics: "+pan,
				map[string]interface{}{"mode": "O", "cfg": c.Fields(), "op": line, "panic": pan})
			return
		}
		s.Count("parse_" + src)
		s.Add("parse_cmds", len(cmds))
		if d.sdb > 0 {
			s.Count("parse_startdb")
		}
		if d.tdb != -1 || len(d.m) > 0 {
			s.Count("parse_mapped")
		}
		if d.probe != "" {
			s.Count("parse_probe")
		}
		// the property: exactly the commands the rules accept reach the sender, with the arguments
		// the key rules leave (offsets / selects / ping / brackets: model diff, C01, C09)
		sent := vfC10Sent(gotL)
		var allowed []string
		for _, a := range vfC10Allowed(e.Eff(c), cmds) {
			allowed = append(allowed, vfc10.ArgList(a))
		}
		if !vfC10Judgeable(cmds) {
			s.Count("parse_malformed_mset")
		} else if strings.Join(sent, " ") != strings.Join(allowed, " ") {
			s.Violate("parseAofCommand", fmt.Sprintf("commands handed to the sender %q differ from what the configured rules accept %q", sent, allowed),
				map[string]interface{}{"mode": "O", "cfg": c.Fields(), "op": line, "sent": strings.Join(sent, " "), "allowed": strings.Join(allowed, " ")})
		} else if got != "." {
			s.Distinct("p:" + line)
		}
	}

	// ---- bisync parser (parseAofReplayUnits)
	bparseOp := func(c vfc10.Cfg, cmds [][][]byte, cluster bool, src string) {
		gotL, flat, pan := vfC10BisyncParse(c, r, cmds, cluster)
		toks := make([]string, len(cmds))
		special := false
		for i, cm := range cmds {
			toks[i] = vfc10.ArgList(cm)
			n := vfC10Lower(string(cm[0]))
			if n == "multi" || n == "exec" {
				special = true
			}
			for _, a := range cm[1:] {
				if bytes.Contains(a, []byte("redis-gunyu")) {
					special = true
				}
			}
		}
		op := "bparse"
		if cluster {
			op = "bparsec"
		}
		line := "c10 " + op + " B " + c.Fields() + " " + strings.Join(toks, " ")
		got := dot(gotL)
		s.Op(line, got)
		s.Count(op + "_" + src)
		if pan != "" {
			s.Violate("FilterCmdKey-panic", "parseAofReplayUnits panics: "+pan,
				map[string]interface{}{"mode": "O", "cfg": c.Fields(), "op": line, "panic": pan})
			return
		}
		allowed := vfC10Allowed(effB(c), cmds)
		failed := len(gotL) > 0 && (gotL[len(gotL)-1] == "E" || gotL[len(gotL)-1] == "eof-in-txn")
		bad := !vfC10Subseq(flat, allowed) && vfC10Judgeable(cmds)
		if !bad && !special && !failed && len(flat) != len(allowed) {
			bad = true // nothing bisync-specific in the stream: exactly the allowed commands
		}
		if bad {
			var al []string
			for _, a := range allowed {
				al = append(al, vfc10.ArgList(a))
			}
			s.Violate("parseAofReplayUnits", fmt.Sprintf("bisync parser output %q is not what the configured rules allow %q", got, al),
				map[string]interface{}{"mode": "O", "cfg": c.Fields(), "op": line, "got": got, "allowed": strings.Join(al, " ")})
		} else if len(flat) > 0 {
			s.Distinct("b:" + line)
		}
	}

	// ---- snapshot path (rdbReplay / rdbReplayBisync)
	rdbOps := func(c vfc10.Cfg, ents []vfC10Ent, src string) {
		eff := e.Eff(c)
		for _, bis := range []bool{false, true} {
			op, what := "rdb", "rdbReplay"
			if bis {
				op, what = "brdb", "rdbReplayBisync"
			}
			kept, err := vfC10RdbRun(t, c, r, ents, bis)
			if err != nil {
				s.Violate(what+"-error", err.Error(), map[string]interface{}{"mode": "O", "cfg": c.Fields()})
				continue
			}
			for i, en := range ents {
				mode := "O"
				if bis {
					mode = "B"
				}
				line := fmt.Sprintf("c10 %s %s %s %d %s", op, mode, c.Fields(), en.db, vfutil.Hex(en.key))
				g := "drop"
				if kept[i] {
					g = "keep"
				}
				s.Op(line, g)
				want := !vfc10.WantFilterDb(eff, en.db) && !vfc10.WantFilterKey(eff, en.key) && !vfc10.WantFilterSlot(eff, en.key)
				s.Count(op + "_" + g + "_" + src)
				if kept[i] != want {
					s.Violate(what, fmt.Sprintf("snapshot entry db=%d key=%q: replayed=%v, the configured rules say %v", en.db, en.key, kept[i], want),
						map[string]interface{}{"mode": "O", "cfg": c.Fields(), "op": line, "got": kept[i], "want": want})
				} else {
					s.Distinct("r:" + line)
				}
			}
		}
	}

	for _, l := range vfutil.Corpus("C10") {
		if e.RunLine(l) {
			continue
		}
		t := strings.Fields(l)
		if len(t) < 10 || t[0] != "c10" || (t[2] != "O" && t[2] != "B") {
			continue
		}
		c, err := vfc10.ParseCfg(t[3:10])
		if err != nil {
			panic(err)
		}
		rest := t[10:]
		switch t[1] {
		case "parse":
			d := vfC10Dbs{tdb: -1}
			// optional "<tdb> <map> <sdb>" before the commands
			if len(rest) >= 3 && !strings.Contains(rest[0], ",") && (rest[1] == "-" || strings.Contains(rest[1], ":")) {
				d.tdb, _ = strconv.Atoi(rest[0])
				if rest[1] != "-" {
					d.m = map[int]int{}
					for _, kv := range strings.Split(rest[1], ",") {
						p := strings.Split(kv, ":")
						a, _ := strconv.Atoi(p[0])
						b, _ := strconv.Atoi(p[1])
						d.m[a] = b
					}
				}
				d.sdb, _ = strconv.Atoi(rest[2])
				rest = rest[3:]
			}
			parseOp(c, d, vfC10ParseCmds(rest), "corpus")
		case "bparse":
			bparseOp(c, vfC10ParseCmds(rest), false, "corpus")
		case "bparsec":
			bparseOp(c, vfC10ParseCmds(rest), true, "corpus")
		case "rdb": // runs both snapshot loops (a "brdb" line is the same entry)
			if len(rest) == 2 {
				db, _ := strconv.Atoi(rest[0])
				rdbOps(c, []vfC10Ent{{db, vfutil.UnHex(rest[1])}}, "corpus")
			}
		}
	}

	e.EdgeSlots()
	e.ForcedDims(r)
	// dbBlacklist x targetDb / targetDbMap (injective, colliding with the blacklist, non-injective) x resumed run
	// (startDbId 0 / unlisted / listed / mapped onto a listed number) x SELECT inside MULTI: forced, every combination
	{
		w := func(a ...string) [][]byte {
			o := make([][]byte, len(a))
			for i := range a {
				o[i] = []byte(a[i])
			}
			return o
		}
		streams := [][][][]byte{
			{w("set", "a", "1"), w("SELECT", "2"), w("set", "b", "1"), w("select", "1"), w("set", "c", "1"), w("SELECT", "3"), w("del", "d")},
			{w("set", "a", "1"), w("MULTI"), w("SELECT", "2"), w("set", "b", "1"), w("select", "3"), w("set", "c", "1"), w("EXEC"), w("set", "d", "1"), w("select", "1"), w("set", "e", "1")},
			{w("multi"), w("set", "a", "1"), w("select", "1"), w("mset", "b", "1", "c", "2"), w("exec"), w("SELECT", "2"), w("MULTI"), w("set", "f", "1"), w("EXEC"), w("select", "0"), w("set", "g", "1")},
		}
		for _, db := range [][]int{nil, {2}, {0}, {1, 2, 3}} {
			c := vfc10.Cfg{DB: db}
			for _, d0 := range []vfC10Dbs{{tdb: -1}, {tdb: 0}, {tdb: 2}, {tdb: -1, m: map[int]int{1: 2}}, {tdb: -1, m: map[int]int{2: 5}}, {tdb: -1, m: map[int]int{1: 2, 3: 2, 0: 7}}} {
				for _, sdb := range []int{0, 1, 2, 3} {
					d := d0
					d.sdb = sdb
					for _, st := range streams {
						parseOp(c, d, st, "forced")
					}
					listed := false
					for _, x := range db {
						if x == sdb {
							listed = true
						}
					}
					hits := false
					for _, v := range d.m {
						for _, x := range db {
							if x == v {
								hits = true
							}
						}
					}
					s.Count(fmt.Sprintf("cfg_targetDb_%d", d.tdb))
					s.Count("cfg_targetDbMap_" + map[bool]string{true: "none", false: "set"}[len(d.m) == 0])
					s.Count(fmt.Sprintf("cfg_dbmap_target_is_blacklisted_%v", hits))
					s.Count(fmt.Sprintf("cfg_startDb_listed_%v", listed))
					s.Count("forced_select_in_multi")
				}
			}
		}
		// replaceHashTag ON in both snapshot loops (single-entry snapshots; judged by the rules + "the target key is not a
		// bookkeeping key", no model line: the model is the replaceHashTag-off case)
		vfC10RdbOpt.replace = true
		for _, c := range []vfc10.Cfg{{}, {PB: []string{"bad:"}}, {SB: [][]uint16{{0}}}, {DB: []int{1}}} {
			eff := e.Eff(c)
			for _, k := range []string{"k", "", "{a}b", "bad:{x}", "{bad:}x", "{redis-gunyu-bisync:}cp:latest:{slot-0}", "{redis-gunyu-checkpoint}x", "{/redis-gunyu}/x", "redis-gunyu-bisync{:}x"} {
				for _, bis := range []bool{false, true} {
					ent := vfC10Ent{0, []byte(k)}
					kept, err := vfC10RdbRun(t, c, r, []vfC10Ent{ent}, bis)
					s.Count("cfg_replaceHashTag_true")
					if err != nil {
						s.Violate("rdbReplay-error", err.Error(), map[string]interface{}{"cfg": c.Fields(), "key_hex": vfutil.HexS(k), "replaceHashTag": true, "bisync": bis})
						continue
					}
					tk := vfC10RdbTarget(ent.key)
					reserved := false
					for _, ns := range vfc10.BookkeepingNamespaces {
						if bytes.HasPrefix(tk, []byte(ns)) || bytes.HasPrefix(ent.key, []byte(ns)) {
							reserved = true
						}
					}
					want := !vfc10.WantFilterDb(eff, 0) && !vfc10.WantFilterKey(eff, ent.key) && !vfc10.WantFilterSlot(eff, ent.key) && !reserved
					if kept[0] != want {
						s.Violate("rdbReplay-replaceHashTag", fmt.Sprintf("replaceHashTag on, bisync=%v, snapshot key %q (written as %q): replayed=%v, rules + reserved namespaces say %v", bis, k, tk, kept[0], want),
							map[string]interface{}{"cfg": c.Fields(), "key_hex": vfutil.HexS(k), "replaceHashTag": true, "bisync": bis, "got": kept[0], "want": want})
					}
				}
			}
		}
		vfC10RdbOpt.replace = false
		s.Count("cfg_replaceHashTag_false")
		// the degenerate inputs through BOTH parser loops (plain; bisync stand-alone and cluster): the empty key alone and
		// among several keys, a command without arguments, 1000 keys with the rejected one at either end, mixed case
		big := func(at int) [][]byte {
			a := [][]byte{[]byte("DeL")}
			for i := 0; i < 1000; i++ {
				a = append(a, []byte(fmt.Sprintf("k:%d", i)))
			}
			a[1+at] = []byte("bad:1")
			return a
		}
		deg := [][][]byte{w("set", "", "v"), w("SET", "k", "v"), w("DEL", "k", "", "bad:1"), w("mSeT", "", "1", "bad:2", "2", "k2", "3"), w("unlink", ""), w("rename", "", "k"),
			big(0), big(999), w("del", "bad:1", "bad:2"), w("Set", "bad:1", "v")}
		for _, c := range []vfc10.Cfg{{}, {PB: []string{"bad:"}}, {SB: [][]uint16{{0}}}, {SW: [][]uint16{{1, 16383}}, PB: []string{"bad:"}}, {PW: []string{""}}, {PW: []string{"k", ""}}, {PB: []string{""}}, {CB: []string{"", "unlink"}, PB: []string{"bad:"}}} {
			parseOp(c, vfC10Dbs{tdb: -1}, deg, "forced")
			bparseOp(c, deg, false, "forced")
			bparseOp(c, deg, true, "forced")
			s.Count("forced_degenerate_streams")
		}
	}
	defer func() {
		for k, v := range vfC10OptCount {
			s.Add(k, v)
		}
	}()
	nCfg := vfutil.Scale(400, 8000)
	for i := 0; i < nCfg; i++ {
		e.RunGenerated(r, 1, 15, 25)
		c := vfc10.GenCfg(r, "O")
		eff := e.Eff(c)
		for j := 0; j < 6; j++ {
			d := vfC10Dbs{tdb: -1}
			if j >= 3 {
				d = vfC10GenDbs(r, c)
			}
			st := vfC10GenStream(r, eff)
			if j == 5 || (j == 2 && r.Bool()) {
				// the sync-delay probe key is an ordinary key for the rules
				d.probe = string(vfc10.GenKey(r, eff))
				if d.probe != "" {
					for k := 0; k < 2; k++ {
						at := r.Intn(len(st) + 1)
						pc := [][]byte{[]byte(vfutil.Pick(r, []string{"set", "SET"})), []byte(d.probe), []byte("host_" + strconv.Itoa(r.Intn(1000000)))}
						st = append(st[:at], append([][][]byte{pc}, st[at:]...)...)
					}
				}
			}
			parseOp(c, d, st, "gen")
		}
		for j := 0; j < 3; j++ {
			bparseOp(c, vfC10GenBisyncStream(r, eff), j == 2, "gen")
		}
		if i%4 == 0 {
			seen := map[string]bool{}
			var ents []vfC10Ent
			for k := 0; k < 16; k++ {
				db := r.Intn(6)
				if len(c.DB) > 0 && r.Bool() {
					db = vfutil.Pick(r, c.DB)
				}
				if db < 0 {
					db = 0
				}
				key := vfc10.GenKey(r, eff)
				id := fmt.Sprintf("%d/%s", db, key)
				if seen[id] { // "" is a key like any other (slot 0)
					continue
				}
				seen[id] = true
				ents = append(ents, vfC10Ent{db, key})
			}
			vfC10RdbOpt.parallel = vfutil.Pick(r, []int{1, 3})
			vfC10RdbOpt.keyExists = vfutil.Pick(r, []string{"replace", ""})
			s.Count(fmt.Sprintf("cfg_replayRdbParallel_%d", vfC10RdbOpt.parallel))
			s.Count("cfg_keyExists_" + map[string]string{"replace": "replace", "": "none"}[vfC10RdbOpt.keyExists])
			rdbOps(c, ents, "gen")
			vfC10RdbOpt.parallel, vfC10RdbOpt.keyExists = 1, "replace"
		}
	}
}
